(* Proofs/SL2Whole.v — C02 version 2, part 4: the evaluation phase with scoped cells, whole files, the theorem.
   Fragment: Proofs/SL2Expr.v (`fexpr2`) and Proofs/SL2Stmt.v (`fstmt2`): the fragment of Proofs/StrictLazy.v PLUS
   immutable scoped definitions (`let <scope>.x = e`, `node <scope>.x`) whose scope expression is pure, and scoped
   reads `<scope>.x` in deferred positions (values of `let`/`var`/`set`, attribute values, edge and attribute
   endpoints, `print` arguments, the elements of comprehensions, arguments of calls, scope expressions of reads);
   inherited names under the side condition `inh_antichain` on the final strict scoped store (no definer of an
   inherited name has a defining proper ancestor).  Whenever strict execution succeeds, lazy execution on the same
   matches in strict order never fails, never panics and, unless the model runs out of fuel, returns EXACTLY the
   strict graph.  Evaluation phase: every pending statement, every thunk and every cell is forced with the
   level-1 forcing lemma of Proofs/SL2Force.v. *)
From TSG Require Import Model.Lazy Model.Stdlib Proofs.BaseFacts Proofs.Containers Proofs.MonadFacts
  Proofs.SLGraph Proofs.SLForce Proofs.SLExpr Proofs.SLConv Proofs.SLStmt Proofs.StrictLazy Proofs.Scoped Proofs.SL2Force Proofs.SL2Expr Proofs.SL2Stmt.

Definition match_ok2 (okfn : ident -> Prop) (purev : ident -> bool) (fl : file) (st : stanza) (m : qmatch) : Prop :=
  All (fstmt2 okfn purev m) (st_stmts st) /\
  Forall (fun sh => purev (sh_var sh) = false /\ All (fattr2 okfn purev m) (sh_attrs sh)) (f_shorthands fl) /\
  nodes_for_capture m (st_full_file_idx st) <> [].
Fixpoint file_ok2 (okfn : ident -> Prop) (purev : ident -> bool) (fl : file) (sts : list stanza) (ms : list (list qmatch)) : Prop :=
  match sts, ms with
  | st :: sts', m :: ms' => Forall (match_ok2 okfn purev fl st) m /\ file_ok2 okfn purev fl sts' ms'
  | _, [] => True
  | [], _ :: _ => False
  end.

(* the side condition for inherited names, on the FINAL strict scoped store: no node that defines an inherited name
   has a proper ancestor that defines it too (so the definition a read resolved to is still the nearest one at the
   end of the run, where lazy evaluation resolves it) *)
Definition inh_antichain (t : tree) (fl : file) (sc : list (N * vframe value)) : Prop :=
  forall name n a, inherited fl name = true -> In a (anc t n) -> scoped_lookup sc n name <> None -> scoped_lookup sc a name <> None -> False.
Lemma inh_antichain_nil t fl sc : f_inherited fl = [] -> inh_antichain t fl sc.
Proof. intros E name n a Hi. unfold inherited in Hi. rewrite E in Hi. discriminate. Qed.

Section Whole2.
  Context {rx : Type}.
  Variables (t : tree) (fl : file) (glob : globals) (regexes : list rx)
            (find : rx -> str -> option (list (option (N * N))))
            (call : ident -> graph -> list value -> res (value * graph)).
  Variable okfn : ident -> Prop.
  Variable purev : ident -> bool.
  Hypothesis Hpure : forall f, okfn f -> pure_fn call f.

  Notation den2 := (den2 call).
  Notation Sfull := (Sfull call).
  Notation cells_ok := (cells_ok call).
  Notation eval_lv' := (eval_lv t fl call).

  (* ---------------- the evaluation phase ---------------- *)
  Definition vinv2 (w : world) (g : graph) (ls : lstate) : Prop :=
    l_graph ls = g /\ Sfull w (l_store ls) /\ cells_ok w (l_scoped ls).
  Lemma vinv2_intro w g ls : l_graph ls = g -> Sfull w (l_store ls) -> cells_ok w (l_scoped ls) -> vinv2 w g ls.
  Proof. intros H1 H2 H3. split; [exact H1|]. split; [exact H2|exact H3]. Qed.
  Definition vpost2 (w : world) (g : graph) : unit -> lstate -> polls -> Prop :=
    fun _ ls' pl' => nob pl' /\ vinv2 w g ls'.

  Section Fixed.
    Variable w : world.
    Hypothesis Hnd : sig_nodup w.
    Hypothesis Hac : sig_antichain w.
    Hypothesis Hws : wstatic t fl w.

    Lemma force_v2 F g lv v ls pl : vinv2 w g ls -> den2 w false lv v -> nob pl ->
      lres (eval_lv' F lv ls pl) (fun v' ls' pl' => v' = v /\ nob pl' /\ vinv2 w g ls').
    Proof.
      intros (Hg & Hst & Hsc) Hd Hb. eapply lres_mono; [apply (force1_full call t fl F w lv v ls pl Hnd Hac Hws Hst Hsc Hd Hb)|].
      intros v' ls' pl' (-> & Hb' & st' & sc' & -> & Hst' & Hsc'). split; [reflexivity|]. split; [exact Hb'|]. apply vinv2_intro; first [assumption|reflexivity].
    Qed.
    Lemma force_gnode2 F g lv x ls pl : vinv2 w g ls -> den2 w false lv (VGraph x) -> nob pl ->
      lres (eval_as_gnode t fl call F lv ls pl) (fun n ls' pl' => n = x /\ nob pl' /\ vinv2 w g ls').
    Proof.
      intros HV Hd Hb. unfold eval_as_gnode. apply lres_bind. eapply lres_mono; [apply (force_v2 F g lv _ ls pl HV Hd Hb)|].
      intros v' ls' pl' (-> & Hb' & HV'). eapply lres_lift; [reflexivity|]. auto.
    Qed.

    Lemma ledge_add_res2 g g' x y ls pl : vinv2 w g ls -> apply_edge (x, y) g = Some g' -> nob pl ->
      lres (ledge_add x y [] ls pl) (vpost2 w g').
    Proof.
      intros (Hg & Hst & Hsc) He Hb. unfold ledge_add. apply lres_get. rewrite Hg. unfold apply_edge in He. cbn [fst snd] in He.
      destruct (graph_add_edge g x y) as [[g1 isnew]|] eqn:E; [|discriminate]. inversion He; subst g1; clear He.
      destruct isnew.
      - rewrite (edge_reset_id _ _ _ _ E). unfold set_lgraph, Lazy.upd. apply lres_modify. split; [exact Hb|]. apply vinv2_intro; first [assumption|reflexivity].
      - unfold set_lgraph, Lazy.upd. apply lres_modify. split; [exact Hb|]. apply vinv2_intro; first [assumption|reflexivity].
    Qed.

    Lemma eval_edge_stmt2 F g g' st e ls pl : den_edge2 call w st e -> vinv2 w g ls -> apply_edge e g = Some g' -> nob pl ->
      lres (eval_lstmt t fl call F st ls pl) (vpost2 w g').
    Proof.
      intros (a & b & dbg & -> & Ha & Hb0) HV He Hb. destruct e as [x y]. cbn [fst snd] in *. unfold eval_lstmt.
      apply lres_bind. unfold lpoll. apply lres_poll; [exact Hb|]. intros pl0 Hbl. apply lres_ctx.
      apply lres_bind. apply lres_ctx. eapply lres_mono; [apply (force_gnode2 F g a x ls pl0 HV Ha Hbl)|]. intros n ls1 pl1 (-> & Hb1 & HV1).
      apply lres_bind. apply lres_ctx. eapply lres_mono; [apply (force_gnode2 F g b y ls1 pl1 HV1 Hb0 Hb1)|]. intros n ls2 pl2 (-> & Hb2 & HV2).
      apply (ledge_add_res2 g g' x y ls2 pl2 HV2 He Hb2).
    Qed.
    Lemma eval_edge_stmts2 F : forall stmts eops g g' ls pl, Forall2 (den_edge2 call w) stmts eops -> vinv2 w g ls ->
      apply_edges eops g = Some g' -> nob pl -> lres (iterM (eval_lstmt t fl call F) stmts ls pl) (vpost2 w g').
    Proof.
      intros stmts eops g g' ls pl HF. revert g ls pl. induction HF as [|st e stmts eops Hd _ IH]; intros g ls pl HV Hg Hb; cbn [iterM ofold] in *.
      - inversion Hg; subst. apply lres_ret. split; assumption.
      - destruct (apply_edge e g) as [gm|] eqn:E; [|discriminate]. apply lres_bind.
        eapply lres_mono; [apply (eval_edge_stmt2 F g gm st e ls pl Hd HV E Hb)|]. intros _ ls1 pl1 [Hb1 HV1]. apply (IH gm ls1 pl1 HV1 Hg Hb1).
    Qed.

    Lemma prev_insert_res2 g k dbg ls pl : vinv2 w g ls -> nob pl ->
      lres (prev_insert k dbg ls pl) (fun _ ls' pl' => nob pl' /\ vinv2 w g ls').
    Proof.
      intros (Hg & Hst & Hsc) Hb. unfold prev_insert. apply lres_get. apply lres_bind. unfold set_lprev, Lazy.upd. apply lres_modify. apply lres_ret.
      split; [exact Hb|]. apply vinv2_intro; first [assumption|reflexivity].
    Qed.

    Lemma eval_node_attrs2 F x dbg : forall attrs kvs g g' ls pl, den_attrs2 call w attrs kvs -> vinv2 w g ls ->
      apply_attrs (map (mk (TNode x)) kvs) g = Some g' -> nob pl ->
      lres (iterM (fun a : ident * lvalue => v <- eval_lv' F (snd a) ;; prev <- prev_insert (KNode x (fst a)) dbg ;; lattr_node_add x (fst a) v prev dbg) attrs ls pl)
           (vpost2 w g').
    Proof.
      intros attrs kvs g g' ls pl HF. revert g ls pl. induction HF as [|[k lv] [k' v] attrs kvs [Hk Hd] _ IH]; intros g ls pl HV Hg Hb; cbn [iterM map ofold] in *.
      - inversion Hg; subst. apply lres_ret. split; assumption.
      - cbn [fst snd] in *. subst k'. destruct (apply_attr (mk (TNode x) (k, v)) g) as [gm|] eqn:E; [|discriminate]. apply lres_bind.
        apply lres_bind. eapply lres_mono; [apply (force_v2 F g lv v ls pl HV Hd Hb)|]. intros v' ls1 pl1 (-> & Hb1 & HV1).
        apply lres_bind. eapply lres_mono; [apply (prev_insert_res2 g _ dbg ls1 pl1 HV1 Hb1)|]. intros prev ls2 pl2 (Hb2 & (Hg2 & Hst2 & Hsc2)).
        unfold lattr_node_add. apply lres_get. rewrite Hg2. cbn [mk apply_attr fst snd] in E.
        destruct (gnode_at g x) as [nd|]; [|discriminate]. destruct (attrs_add (g_attrs nd) k v) as [m' [c|]]; [discriminate|]. inversion E; subst gm.
        unfold set_lgraph, Lazy.upd. apply lres_modify. refine (IH _ _ pl2 _ Hg Hb2). apply vinv2_intro; first [assumption|reflexivity].
    Qed.
    Lemma eval_edge_attrs2 F x y dbg : forall attrs kvs g g' ls pl, den_attrs2 call w attrs kvs -> vinv2 w g ls ->
      apply_attrs (map (mk (TEdge x y)) kvs) g = Some g' -> nob pl ->
      lres (iterM (fun ak : ident * lvalue =>
                     v <- eval_lv' F (snd ak) ;; ex <- ledge_exists x y ;;
                     if ex then prev <- prev_insert (KEdge x y (fst ak)) dbg ;; lattr_edge_add x y (fst ak) v prev dbg else fail EUndefinedEdge) attrs ls pl)
           (vpost2 w g').
    Proof.
      intros attrs kvs g g' ls pl HF. revert g ls pl. induction HF as [|[k lv] [k' v] attrs kvs [Hk Hd] _ IH]; intros g ls pl HV Hg Hb; cbn [iterM map ofold] in *.
      - inversion Hg; subst. apply lres_ret. split; assumption.
      - cbn [fst snd] in *. subst k'. destruct (apply_attr (mk (TEdge x y) (k, v)) g) as [gm|] eqn:E; [|discriminate]. apply lres_bind.
        apply lres_bind. eapply lres_mono; [apply (force_v2 F g lv v ls pl HV Hd Hb)|]. intros v' ls1 pl1 (-> & Hb1 & (Hg1 & Hst1 & Hsc1)).
        cbn [mk apply_attr fst snd] in E. destruct (gnode_at g x) as [nd|] eqn:En; [|discriminate].
        destruct (edges_get y (g_edges nd)) as [m0|] eqn:Ee; [|discriminate]. destruct (attrs_add m0 k v) as [m' [c|]] eqn:Ea; [discriminate|]. inversion E; subst gm.
        apply lres_bind. unfold ledge_exists. apply lres_get. rewrite Hg1, En. apply lres_ret. rewrite Ee.
        apply lres_bind. eapply lres_mono; [apply (prev_insert_res2 g _ dbg ls1 pl1 (conj Hg1 (conj Hst1 Hsc1)) Hb1)|]. intros prev ls2 pl2 (Hb2 & (Hg2 & Hst2 & Hsc2)).
        unfold lattr_edge_add. apply lres_get. rewrite Hg2, En, Ee, Ea.
        unfold set_lgraph, Lazy.upd. apply lres_modify. refine (IH _ _ pl2 _ Hg Hb2). apply vinv2_intro; first [assumption|reflexivity].
    Qed.

    Lemma eval_attr_stmt2 F g g' st ops ls pl : den_astmt2 call w st ops -> vinv2 w g ls -> apply_attrs ops g = Some g' -> nob pl ->
      lres (eval_lstmt t fl call F st ls pl) (vpost2 w g').
    Proof.
      intros Hd HV Hg Hb. unfold eval_lstmt. apply lres_bind. unfold lpoll. apply lres_poll; [exact Hb|]. intros pl0 Hbl.
      destruct st as [n attrs dbg|a b ea dbg|a b attrs dbg|args dbg]; cbn [den_astmt2] in Hd; try contradiction.
      - destruct Hd as (x & kvs & Hn & Ha & ->). apply lres_ctx.
        apply lres_bind. apply lres_ctx. eapply lres_mono; [apply (force_gnode2 F g n x ls pl0 HV Hn Hbl)|]. intros n0 ls1 pl1 (-> & Hb1 & HV1).
        apply (eval_node_attrs2 F x dbg attrs kvs g g' ls1 pl1 Ha HV1 Hg Hb1).
      - destruct Hd as (x & y & kvs & Hna & Hnb & Ha & ->). apply lres_ctx.
        apply lres_bind. apply lres_ctx. eapply lres_mono; [apply (force_gnode2 F g a x ls pl0 HV Hna Hbl)|]. intros n0 ls1 pl1 (-> & Hb1 & HV1).
        apply lres_bind. apply lres_ctx. eapply lres_mono; [apply (force_gnode2 F g b y ls1 pl1 HV1 Hnb Hb1)|]. intros n0 ls2 pl2 (-> & Hb2 & HV2).
        apply (eval_edge_attrs2 F x y dbg attrs kvs g g' ls2 pl2 Ha HV2 Hg Hb2).
    Qed.
    Lemma eval_attr_stmts2 F : forall stmts aopss g g' ls pl, Forall2 (den_astmt2 call w) stmts aopss -> vinv2 w g ls ->
      apply_attrs (concat aopss) g = Some g' -> nob pl -> lres (iterM (eval_lstmt t fl call F) stmts ls pl) (vpost2 w g').
    Proof.
      intros stmts aopss g g' ls pl HF. revert g ls pl. induction HF as [|st ops stmts aopss Hd _ IH]; intros g ls pl HV Hg Hb; cbn [iterM concat] in *.
      - cbn [ofold] in Hg. inversion Hg; subst. apply lres_ret. split; assumption.
      - apply ofold_app_inv in Hg. destruct Hg as (gm & G1 & G2). apply lres_bind.
        eapply lres_mono; [apply (eval_attr_stmt2 F g gm st ops ls pl Hd HV G1 Hb)|]. intros _ ls1 pl1 [Hb1 HV1]. apply (IH gm ls1 pl1 HV1 G2 Hb1).
    Qed.

    Lemma eval_print_stmts2 F g : forall stmts ls pl, Forall (print_ok2 call w) stmts -> vinv2 w g ls -> nob pl ->
      lres (iterM (eval_lstmt t fl call F) stmts ls pl) (vpost2 w g).
    Proof.
      induction stmts as [|st stmts IH]; intros ls pl HF HV Hb; cbn [iterM]; [apply lres_ret; split; assumption|].
      inversion HF as [|? ? Hst HF']; subst. apply lres_bind. unfold eval_lstmt. apply lres_bind. unfold lpoll. apply lres_poll; [exact Hb|]. intros pl0 Hbl.
      destruct st as [n attrs dbg|a b ea dbg|a b attrs dbg|args dbg]; cbn [print_ok2] in Hst; try contradiction. apply lres_ctx.
      assert (Hargs : forall ls0 pl1, vinv2 w g ls0 -> nob pl1 ->
                lres (iterM (fun a : option lvalue => match a with Some lv => eval_lv' F lv ;;; ret tt | None => ret tt end) args ls0 pl1) (vpost2 w g)).
      { clear -Hst Hnd Hac Hws. induction args as [|a args IHa]; intros ls0 pl1 HV Hb; cbn [iterM]; [apply lres_ret; split; assumption|].
        inversion Hst as [|? ? Ha Hrest]; subst. apply lres_bind. destruct a as [lv|].
        - destruct Ha as [v Hv]. apply lres_bind. eapply lres_mono; [apply (force_v2 F g lv v ls0 pl1 HV Hv Hb)|]. intros v' ls1 pl2 (-> & Hb1 & HV1).
          apply lres_ret. apply (IHa Hrest ls1 pl2 HV1 Hb1).
        - apply lres_ret. apply (IHa Hrest ls0 pl1 HV Hb). }
      eapply lres_mono; [apply (Hargs ls pl0 HV Hbl)|]. intros _ ls1 pl1 [Hb1 HV1]. apply (IH ls1 pl1 HF' HV1 Hb1).
    Qed.

    Lemma eval_store_all2 F g ls pl : vinv2 w g ls -> nob pl -> lres (store_evaluate_all t fl call F ls pl) (vpost2 w g).
    Proof.
      intros HV Hb. unfold store_evaluate_all. apply lres_get.
      assert (Hlen : length (l_store ls) = length (w_rho w)) by (destruct HV as (_ & [Hl _] & _); congruence). rewrite Hlen.
      assert (Hgen : forall l ls0 pl0, Forall (fun i => (i < length (w_rho w))%nat) l -> vinv2 w g ls0 -> nob pl0 ->
                lres (iterM (fun i => force_thunk t fl call F i ;;; ret tt) (map N.of_nat l) ls0 pl0) (vpost2 w g)).
      { induction l as [|i l IHl]; intros ls0 pl0 HF HV0 Hb0; cbn [map iterM]; [apply lres_ret; split; assumption|].
        inversion HF as [|? ? Hi HF']; subst. apply lres_bind. apply lres_bind. destruct HV0 as (Hg0 & Hst0 & Hsc0).
        assert (Hi0 : (i < length (l_store ls0))%nat) by (rewrite <- (proj1 Hst0); exact Hi).
        eapply lres_mono; [apply (force1_full_thunk call t fl F w i ls0 pl0 Hnd Hac Hws Hst0 Hsc0 Hi0 Hb0)|]. intros v ls1 pl1 (Hb1 & st' & sc' & -> & Hst' & Hsc').
        apply lres_ret. apply (IHl _ pl1 HF'); [apply vinv2_intro; first [assumption|reflexivity]|exact Hb1]. }
      apply Hgen; [|exact HV|exact Hb]. apply Forall_forall. intros i Hi. apply in_seq in Hi. lia.
    Qed.

    (* LazyScopedVariables::evaluate_all: every cell is forced (its scopes at level 0; no duplicate definitions) *)
    Lemma eval_scoped_all2 F g ls pl : vinv2 w g ls -> nob pl -> lres (scoped_evaluate_all t fl call F ls pl) (vpost2 w g).
    Proof.
      intros HV Hb. unfold scoped_evaluate_all. apply lres_get. generalize (map fst (sort_alist (l_scoped ls))). intros names.
      revert ls pl HV Hb. induction names as [|name names IH]; intros ls pl HV Hb; cbn [iterM]; [apply lres_ret; split; assumption|].
      apply lres_bind. destruct HV as (Hg & Hst & Hsc).
      eapply lres_mono; [apply (force_cell_full call t fl F w name ls pl Hnd Hst Hsc Hb)|]. intros _ ls1 pl1 (Hb1 & st' & sc' & -> & Hst' & Hsc').
      apply (IH _ pl1); [apply vinv2_intro; first [assumption|reflexivity]|exact Hb1].
    Qed.
  End Fixed.

  Lemma rel2_antichain w ss ls : inh_antichain t fl (s_scoped ss) -> Rel2 t fl call purev w ss ls -> sig_antichain w /\ wstatic t fl w.
  Proof.
    intros Hanti ((_ & _ & [[Wt Wi] _]) & _ & _ & Hss & _). split; [|split; assumption].
    intros name n a l1 l2 Hi Ha H1 H2. unfold winh in Hi. rewrite Wi in Hi. rewrite Wt in Ha.
    apply (Hanti name n a Hi Ha (Hss _ _ _ H1) (Hss _ _ _ H2)).
  Qed.

  Lemma evaluate_phase_res2 F w ss ls pl : inh_antichain t fl (s_scoped ss) -> Rel2 t fl call purev w ss ls -> nob pl ->
    lres (evaluate_phase t fl call F ls pl) (fun _ ls' _ => l_graph ls' = s_graph ss).
  Proof.
    intros Hanti HR. destruct (rel2_antichain w ss ls Hanti HR) as [Hac Hws]. revert HR.
    intros ((Hst & _ & _) & Hcells & Hnd & _ & Hpr & eops & aopss & g1 & He & Ha & Hg1 & Hg2) Hb. unfold evaluate_phase. apply lres_get.
    assert (HV : vinv2 w (l_graph ls) ls) by (apply vinv2_intro; [reflexivity|exact Hst|apply cells_unforced_ok, Hcells]).
    apply lres_bind. eapply lres_mono; [apply (eval_edge_stmts2 w Hnd Hac Hws F _ _ _ _ ls pl He HV Hg1 Hb)|]. intros _ ls1 pl1 [Hb1 HV1].
    apply lres_bind. eapply lres_mono; [apply (eval_attr_stmts2 w Hnd Hac Hws F _ _ _ _ ls1 pl1 Ha HV1 Hg2 Hb1)|]. intros _ ls2 pl2 [Hb2 HV2].
    apply lres_bind. eapply lres_mono; [apply (eval_print_stmts2 w Hnd Hac Hws F _ _ ls2 pl2 Hpr HV2 Hb2)|]. intros _ ls3 pl3 [Hb3 HV3].
    apply lres_bind. eapply lres_mono; [apply (eval_store_all2 w Hnd Hac Hws F _ ls3 pl3 HV3 Hb3)|]. intros _ ls4 pl4 [Hb4 HV4].
    eapply lres_mono; [apply (eval_scoped_all2 w Hnd F _ ls4 pl4 HV4 Hb4)|]. intros _ ls5 pl5 [Hb5 (Hg5 & _)]. exact Hg5.
  Qed.

  (* ---------------- stanzas and files ---------------- *)
  Notation xsimU2 := (xsim2 t fl call purev (@anyQ unit unit)).
  Lemma xsim2_lext {A B} (Q : A -> B -> Prop) ms (ml ml' : M lstate B) : (forall s p, ml s p = ml' s p) -> xsim2 t fl call purev Q ms ml' -> xsim2 t fl call purev Q ms ml.
  Proof. intros E H ss p a ss' p' Hs ls pl HR Hb. rewrite E. apply (H _ _ _ _ _ Hs ls pl HR Hb). Qed.

  Notation lstep' := (lstep t fl glob regexes find call).

  Lemma stanza_matches_sim2 fuel lf st i : nth_error (f_stanzas fl) (N.to_nat i) = Some st ->
    forall qs, Forall (match_ok2 okfn purev fl st) qs ->
    xsimU2 (iterM (exec_stanza t fl config0 glob regexes find call fuel st) qs) (iterM (lstep' lf) (map (fun q => (i, q)) qs)).
  Proof.
    intros Hst. induction qs as [|q qs IH]; intros HF; cbn [iterM map]; [apply xsim2_ret; exact I|].
    inversion HF as [|? ? (H1 & H2 & H3) HF']; subst. apply xsim2_seq; [|apply IH, HF'].
    unfold lstep. cbn [fst snd]. rewrite Hst. apply (stanza_sim2 t fl glob regexes find call okfn purev Hpure q H2 fuel lf st H1 H3).
  Qed.

  Lemma file_sim2 fuel lf : forall sts ms i,
    (forall j st, nth_error sts j = Some st -> nth_error (f_stanzas fl) (N.to_nat i + j) = Some st) ->
    file_ok2 okfn purev fl sts ms ->
    xsimU2 (exec_file t fl config0 glob regexes find call fuel sts ms) (iterM (lstep' lf) (lmatches_from i ms)).
  Proof.
    induction sts as [|st sts IH]; intros [|qs ms] i Hnth Hok; cbn [exec_file lmatches_from file_ok2] in *; try (apply xsim2_ret; exact I); [contradiction|].
    destruct Hok as [Hqs Hrest]. eapply xsim2_lext; [intros s p; apply iterM_app|]. apply xsim2_seq.
    - apply stanza_matches_sim2; [|exact Hqs]. rewrite <- (Nat.add_0_r (N.to_nat i)). apply Hnth. reflexivity.
    - apply IH; [|exact Hrest]. intros j st' Hj. rewrite N2Nat.inj_add. change (N.to_nat 1) with 1%nat.
      replace (N.to_nat i + 1 + j)%nat with (N.to_nat i + S j)%nat by lia. apply Hnth. exact Hj.
  Qed.

  Lemma rel2_init g0 : RelX2 t fl call purev (sinit g0) (linit g0).
  Proof.
    exists (W [] [] t (f_inherited fl)). split; [split; [apply Sfull_nil|split; [constructor; [constructor|constructor]|]]|].
    - split; [split; reflexivity|]. intros n name v H. discriminate.
    - split; [intros name; reflexivity|]. split; [constructor|]. split; [intros n name loc []|]. split; [constructor|].
      exists [], [], g0. repeat split; constructor.
  Qed.
End Whole2.

(* ---------------- the theorem ---------------- *)
Theorem strict_lazy_same_graph_scoped_lemma {rx : Type} t fl supplied (regexes : list rx) find call (okfn : ident -> Prop) (purev : ident -> bool) fuel ms g0 s p :
  (forall f, okfn f -> pure_fn call f) ->
  file_ok2 okfn purev fl (f_stanzas fl) ms ->
  run_strict t fl config0 supplied None regexes find call fuel ms g0 = Ok (s, p) ->
  inh_antichain t fl (s_scoped s) ->
  forall lfuel,
    match run_lazy t fl config0 supplied None regexes find call lfuel (lmatches_of ms) g0 with
    | Ok (ls, _) => l_graph ls = s_graph s
    | OutOfFuel => True
    | Err _ | Panic _ => False
    end.
Proof.
  intros Hpure Hok Hs Hanti lfuel. unfold run_strict in Hs. unfold run_lazy.
  destruct (check_globals (f_globals fl) (globals_nested supplied)) as [glob|e|x|]; try discriminate.
  destruct (exec_file t fl config0 glob regexes find call fuel (f_stanzas fl) ms (sinit g0) (polls0 None)) as [[[u s1] p1]|e|x|] eqn:Es; try discriminate.
  inversion Hs; subst s1 p1; clear Hs.
  pose proof (file_sim2 t fl glob regexes find call okfn purev Hpure fuel lfuel (f_stanzas fl) ms 0 (fun j st H => H) Hok _ _ _ _ _ Es (linit g0) (polls0 None) (rel2_init t fl call purev g0) eq_refl) as Hx.
  unfold lexec_file. fold (lstep t fl glob regexes find call lfuel). unfold lmatches_of.
  unfold bind. destruct (iterM (lstep t fl glob regexes find call lfuel) (lmatches_from 0 ms) (linit g0) (polls0 None)) as [[[u1 ls1] pl1]|e|x|]; cbn [lres] in Hx; try contradiction; [|exact I].
  destruct Hx as (Hb1 & [w HR1] & _).
  pose proof (evaluate_phase_res2 t fl call purev (lfuel + default_eval_fuel) w s ls1 pl1 Hanti HR1 Hb1) as Hv.
  destruct (evaluate_phase t fl call (lfuel + default_eval_fuel) ls1 pl1) as [[[u2 ls2] pl2]|e|x|]; cbn [lres] in Hv; try contradiction; [exact Hv|exact I].
Qed.
