(* Proofs/VarScopeShape.v — C06, scope soundness part 1: `get` / `add` / `set` of variables.rs (Model/Vars.v) succeed or
   fail according to the SHAPE of the map (names and mutability), whatever the values are.  These are the only facts
   about `VariableMap` that the simulation between the checker and the interpreters uses. *)
From TSG Require Import Model.VarScope Proofs.BaseFacts.

Section Shape.
  Context {V : Type}.
  Implicit Types (fr : vframe V) (m : varmap V).

  Lemma alist_get_shape fr x : alist_get x (map shape_entry fr) = option_map snd (alist_get x fr).
  Proof.
    induction fr as [|[k [v b]] fr IH]; cbn [map alist_get shape_entry fst snd]; [reflexivity|].
    destruct (str_eqb x k); [reflexivity|exact IH].
  Qed.
  Lemma frame_has_shape fr x : frame_has (map shape_entry fr) x = match alist_get x fr with Some _ => true | None => false end.
  Proof. unfold frame_has. rewrite alist_get_shape. destruct (alist_get x fr); reflexivity. Qed.

  Lemma is_bound_shape m x : is_bound (shape m) x = match varmap_get m x with Some _ => true | None => false end.
  Proof.
    unfold is_bound. induction m as [|fr up IH]; cbn [shape map lenv_get varmap_get]; [reflexivity|].
    rewrite alist_get_shape. destruct (alist_get x fr) as [[v b]|]; cbn [option_map]; [reflexivity|exact IH].
  Qed.

  Lemma shape_nested m : shape ([] :: m) = [] :: shape m. Proof. reflexivity. Qed.
  Lemma shape_clear m : shape (varmap_clear m) = match shape m with [] => [] | _ :: up => [] :: up end.
  Proof. destruct m; reflexivity. Qed.
  Lemma shape_tl m : shape (tl m) = tl (shape m). Proof. destruct m; reflexivity. Qed.

  (* add: succeeds iff the innermost frame exists and does not bind the name; binds it there *)
  Lemma varmap_add_inl m x v mu m' : varmap_add m x v mu = inl m' ->
    can_add (shape m) x = true /\ shape m' = lenv_bind (shape m) x mu.
  Proof.
    destruct m as [|fr up]; cbn [varmap_add]; [discriminate|]. destruct (alist_get x fr) eqn:E; [discriminate|].
    intros [= <-]. cbn [shape map can_add lenv_bind]. rewrite frame_has_shape, E. split; [reflexivity|].
    rewrite map_app. reflexivity.
  Qed.
  Lemma varmap_add_ok m x v mu : can_add (shape m) x = true -> exists m', varmap_add m x v mu = inl m'.
  Proof.
    destruct m as [|fr up]; cbn [shape map can_add varmap_add]; [discriminate|]. rewrite frame_has_shape.
    destruct (alist_get x fr); [discriminate|]. eauto.
  Qed.

  (* set: succeeds iff the visible binding is mutable; the shape does not change *)
  Lemma alist_set_shape fr x v v0 : alist_get x fr = Some (v0, true) ->
    map shape_entry (alist_set x (v, true) fr) = map shape_entry fr.
  Proof.
    induction fr as [|[k [v1 b]] fr IH]; cbn [alist_get alist_set]; [discriminate|].
    destruct (str_eqb x k) eqn:E.
    - intros [= -> ->]. apply str_eqb_eq in E. subst k. reflexivity.
    - intros H. cbn [map]. f_equal. apply IH. exact H.
  Qed.
  Lemma varmap_set_inl m x v : forall m', varmap_set m x v = inl m' -> can_set (shape m) x = true /\ shape m' = shape m.
  Proof.
    unfold can_set. induction m as [|fr up IH]; cbn [varmap_set]; intros m' H; [discriminate|].
    cbn [shape map lenv_get]. rewrite alist_get_shape.
    destruct (alist_get x fr) as [[v0 [|]]|] eqn:E; cbn [option_map snd]; try discriminate.
    - inversion H; subst. split; [reflexivity|]. cbn [shape map]. f_equal. eapply alist_set_shape. exact E.
    - destruct (varmap_set up x v) as [up'|]; [|discriminate]. inversion H; subst.
      destruct (IH _ eq_refl) as [H1 H2]. split; [exact H1|]. cbn [shape map]. f_equal. exact H2.
  Qed.
  Lemma varmap_set_ok m x v : can_set (shape m) x = true -> exists m', varmap_set m x v = inl m'.
  Proof.
    unfold can_set. induction m as [|fr up IH]; cbn [shape map lenv_get varmap_set]; [discriminate|].
    rewrite alist_get_shape. destruct (alist_get x fr) as [[v0 [|]]|]; cbn [option_map snd]; try discriminate; [eauto|].
    intros H. destruct (IH H) as [up' ->]. eauto.
  Qed.
End Shape.

(* ---- the static environment after statements: the outer frames never change ---- *)
Lemma tl_bind_var env v b : tl (bind_var env v b) = tl env.
Proof. destruct v; cbn [bind_var]; [destruct env; reflexivity|reflexivity]. Qed.
Lemma tl_vs_env env s : tl (vs_env env s) = tl env.
Proof. destruct s; cbn [vs_env]; try reflexivity; apply tl_bind_var. Qed.
Lemma tl_vs_block_env body : forall env, tl (vs_block_env env body) = tl env.
Proof.
  unfold vs_block_env. induction body as [|s body IH]; intros env; cbn [fold_left]; [reflexivity|]. rewrite IH. apply tl_vs_env.
Qed.
Lemma vs_env_cons fr env s : exists fr', vs_env (fr :: env) s = fr' :: env.
Proof. destruct s; cbn [vs_env]; eauto; destruct v; cbn [bind_var lenv_bind]; eauto. Qed.
Lemma vs_block_env_cons body : forall fr env, exists fr', vs_block_env (fr :: env) body = fr' :: env.
Proof.
  unfold vs_block_env. induction body as [|s body IH]; intros fr env; cbn [fold_left]; [eauto|].
  destruct (vs_env_cons fr env s) as [fr1 ->]. apply IH.
Qed.

(* ---- error values ---- *)
Lemma root_cause_add_ctx c e : root_cause (add_context c e) = root_cause e.
Proof. destruct e; try reflexivity. cbn [add_context]. destruct c0; reflexivity. Qed.
Lemma variable_error_add_ctx c e : variable_error (add_context c e) = variable_error e.
Proof. unfold variable_error. rewrite root_cause_add_ctx. reflexivity. Qed.
Lemma scoped_duplicate_add_ctx c e : scoped_duplicate e = true -> scoped_duplicate (add_context c e) = true.
Proof.
  destruct e; cbn [scoped_duplicate]; try discriminate. intros H. cbn [add_context]. destruct c0 as [l|]; [exact H|].
  cbn [scoped_duplicate]. destruct c as [[|a [|b [|? ?]]]|]; exact H.
Qed.
