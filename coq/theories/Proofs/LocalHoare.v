(* Proofs/LocalHoare.v — C06 locality, semantic half, part 4: the statement-level logic and its primitives.
     ho P m Q    if m succeeds from a state whose (store, locals) satisfy P, then the store only grew / forced thunks,
                 the scoped cells stayed unforced if they were (`ukeep`), and (store, locals) satisfy Q.
   Variables: `lvar_add`, `lvar_set`; attributes with shorthands whose bodies have no comprehension. *)
From TSG Require Import Spec.PureLv Proofs.BaseFacts Proofs.MonadFacts Proofs.Containers Proofs.Checker Proofs.LocalPos
  Proofs.LocalPure Proofs.LocalEval Proofs.LocalLeval.

Definition cells_unforced (cells : list (ident * scoped_values)) : Prop :=
  forall name c, alist_get name cells = Some c -> exists ps, c = SVUnforced ps.
Definition ukeep (c c' : list (ident * scoped_values)) : Prop := cells_unforced c -> cells_unforced c'.

Definition ho {A} (P : SP) (m : M lstate A) (Q : A -> SP) : Prop :=
  forall ls p a ls' p', P (l_store ls) (l_locals ls) -> m ls p = Ok (a, ls', p') ->
    sext (l_store ls) (l_store ls') /\ ukeep (l_scoped ls) (l_scoped ls') /\ Q a (l_store ls') (l_locals ls').

Lemma ho_of_tr {A} (P : SP) (m : M lstate A) Q : tr P m Q -> ho P m Q.
Proof.
  intros H ls p a ls' p' HP E. destruct (proj2 (H ls p HP) _ _ _ E) as (S1 & Q1 & HQ). split; [exact S1|]. split; [|exact HQ].
  destruct Q1 as [-> _]. intros X. exact X.
Qed.
Lemma ho_conseq {A} (P P' : SP) (m : M lstate A) (Q Q' : A -> SP) :
  (forall st l, P' st l -> P st l) -> (forall a st l, Q a st l -> Q' a st l) -> ho P m Q -> ho P' m Q'.
Proof. intros HP HQ H ls p a ls' p' HP' E. destruct (H _ _ _ _ _ (HP _ _ HP') E) as (S1 & U1 & HQ1). auto. Qed.
Lemma ho_ret {A} (P : SP) (a : A) (Q : A -> SP) : (forall st l, P st l -> Q a st l) -> ho P (ret a) Q.
Proof.
  intros H ls p a' ls' p' HP E. apply ret_ok in E. destruct E as (-> & -> & ->). split; [apply sext_refl|]. split; [intros X; exact X|auto].
Qed.
Lemma ho_bind {A B} (P : SP) (m : M lstate A) (Q : A -> SP) (f : A -> M lstate B) (R : B -> SP) :
  ho P m Q -> (forall a, ho (Q a) (f a) R) -> ho P (bind m f) R.
Proof.
  intros Hm Hf ls p b ls' p' HP H. apply bind_ok in H. destruct H as (a & ls1 & p1 & E & H2).
  destruct (Hm _ _ _ _ _ HP E) as (S1 & U1 & HQ). destruct (Hf a _ _ _ _ _ HQ H2) as (S2 & U2 & HR).
  split; [eapply sext_trans; eassumption|]. split; [intros X; apply U2, U1, X|exact HR].
Qed.
Lemma ho_frame {A} (F : list thunk -> Prop) (P : SP) (m : M lstate A) (Q : A -> SP) :
  stable F -> ho P m Q -> ho (fun st l => P st l /\ F st) m (fun a st l => Q a st l /\ F st).
Proof.
  intros HF H ls p a ls' p' [HP HFs] E. destruct (H _ _ _ _ _ HP E) as (S1 & U1 & HQ1). split; [exact S1|]. split; [exact U1|].
  split; [exact HQ1|]. eapply HF; eassumption.
Qed.
Lemma ho_exists {A X} (P : X -> SP) (m : M lstate A) Q : (forall x, ho (P x) m Q) -> ho (fun st l => exists x, P x st l) m Q.
Proof. intros H ls p a ls' p' [x HP] E. exact (H x _ _ _ _ _ HP E). Qed.
Lemma ho_false {A} (P : SP) (m : M lstate A) Q : (forall st l, P st l -> False) -> ho P m Q.
Proof. intros H ls p a ls' p' HP. destruct (H _ _ HP). Qed.
Lemma ho_ctx {A} c (P : SP) (m : M lstate A) Q : ho P m Q -> ho P (ctx_wrap c m) Q.
Proof. intros H ls p a ls' p' HP E. apply ctx_wrap_ok in E. exact (H _ _ _ _ _ HP E). Qed.
Lemma ho_lift {A} (P : SP) (r : res A) : ho P (lift r) (fun _ => P).
Proof. apply ho_of_tr. apply tr_lift. auto. Qed.
Lemma ho_fail {A} (P : SP) e (Q : A -> SP) : ho P (fail e) Q.
Proof. intros ls p a ls' p' _ E. discriminate. Qed.
Lemma ho_panic {A} (P : SP) x (Q : A -> SP) : ho P (panic x) Q.
Proof. intros ls p a ls' p' _ E. discriminate. Qed.
Lemma ho_oof {A} (P : SP) (Q : A -> SP) : ho P out_of_fuel Q.
Proof. intros ls p a ls' p' _ E. discriminate. Qed.
Lemma ho_poll (P : SP) l : ho P (lpoll l) (fun _ => P).
Proof. apply ho_of_tr, tr_poll. Qed.
Lemma ho_iterM {A} (I : SP) (f : A -> M lstate unit) l :
  (forall x, In x l -> ho I (f x) (fun _ => I)) -> ho I (iterM f l) (fun _ => I).
Proof.
  induction l as [|x l IH]; intros Hf; cbn [iterM].
  - apply ho_ret. auto.
  - eapply ho_bind; [apply Hf; left; reflexivity|]. intros u. cbv beta. apply IH. intros x' Hx'. apply Hf. right. exact Hx'.
Qed.
Lemma ho_mapM {A B} (I : SP) (f : A -> M lstate B) l :
  (forall x, In x l -> ho I (f x) (fun _ => I)) -> ho I (Exec.mapM f l) (fun _ => I).
Proof.
  induction l as [|x l IH]; intros Hf; cbn [Exec.mapM].
  - apply ho_ret. auto.
  - eapply ho_bind; [apply Hf; left; reflexivity|]. intros y. cbv beta. eapply ho_bind; [apply IH; intros x' Hx'; apply Hf; right; exact Hx'|].
    intros ys. apply ho_ret. auto.
Qed.
(* reading the state *)
Lemma ho_get {A} (P : SP) (k : lstate -> M lstate A) Q :
  (forall s, ho (fun st l => P st l /\ st = l_store s /\ l = l_locals s) (k s) Q) -> ho P (bind get_state k) Q.
Proof. intros H ls p a ls' p' HP E. unfold bind, get_state in E. exact (H ls _ _ _ _ _ (conj HP (conj eq_refl eq_refl)) E). Qed.
(* computations that change neither store nor locals nor scoped cells *)
Lemma ho_neutral {A} (P : SP) (m : M lstate A) :
  (forall ls p a ls' p', m ls p = Ok (a, ls', p') -> l_store ls' = l_store ls /\ l_locals ls' = l_locals ls /\ l_scoped ls' = l_scoped ls) ->
  ho P m (fun _ => P).
Proof.
  intros H ls p a ls' p' HP E. destruct (H _ _ _ _ _ E) as (E1 & E2 & E3). rewrite E1, E2, E3.
  split; [apply sext_refl|]. split; [intros X; exact X|exact HP].
Qed.

Lemma neutral_push_lstmt st : forall ls p a ls' p', push_lstmt st ls p = Ok (a, ls', p') ->
  l_store ls' = l_store ls /\ l_locals ls' = l_locals ls /\ l_scoped ls' = l_scoped ls.
Proof. intros ls p a ls' p' E. unfold push_lstmt, Lazy.upd, modify in E. inversion E; subst. destruct st; auto. Qed.
Lemma neutral_set_lgraph g : forall ls p a ls' p', set_lgraph g ls p = Ok (a, ls', p') ->
  l_store ls' = l_store ls /\ l_locals ls' = l_locals ls /\ l_scoped ls' = l_scoped ls.
Proof. intros ls p a ls' p' E. unfold set_lgraph, Lazy.upd, modify in E. inversion E; subst. auto. Qed.
Lemma neutral_ladd_node : forall ls p a ls' p', ladd_node ls p = Ok (a, ls', p') ->
  l_store ls' = l_store ls /\ l_locals ls' = l_locals ls /\ l_scoped ls' = l_scoped ls.
Proof.
  intros ls p a ls' p' E. unfold ladd_node, bind, get_state in E. destruct (add_graph_node (l_graph ls)) as [g' n].
  unfold set_lgraph, Lazy.upd, modify, ret in E. inversion E; subst. auto.
Qed.
Lemma neutral_ladd_node_attr n k v : forall ls p a ls' p', ladd_node_attr n k v ls p = Ok (a, ls', p') ->
  l_store ls' = l_store ls /\ l_locals ls' = l_locals ls /\ l_scoped ls' = l_scoped ls.
Proof.
  intros ls p a ls' p' E. unfold ladd_node_attr, bind, get_state in E. destruct (gnode_at (l_graph ls) n); [|discriminate].
  destruct (attrs_add _ k v) as [m' c]. destruct c; [discriminate|]. eapply neutral_set_lgraph; exact E.
Qed.
Lemma neutral_lopt_node_attr n name v : forall ls p a ls' p', lopt_node_attr n name v ls p = Ok (a, ls', p') ->
  l_store ls' = l_store ls /\ l_locals ls' = l_locals ls /\ l_scoped ls' = l_scoped ls.
Proof.
  intros ls p a ls' p' E. destruct name; cbn [lopt_node_attr] in E; [eapply neutral_ladd_node_attr; exact E|].
  apply ret_ok in E. destruct E as (_ & -> & _). auto.
Qed.
Lemma neutral_lfull_match_node le : forall ls p a ls' p', lfull_match_node le ls p = Ok (a, ls', p') ->
  l_store ls' = l_store ls /\ l_locals ls' = l_locals ls /\ l_scoped ls' = l_scoped ls.
Proof.
  intros ls p a ls' p' E. unfold lfull_match_node in E. destruct (nodes_for_capture _ _); [discriminate|].
  apply ret_ok in E. destruct E as (_ & -> & _). auto.
Qed.

(* a new definition of a scoped variable keeps the cells unforced *)
Lemma ho_scoped_store_add (P : SP) sv name var dbg : ho P (scoped_store_add sv name var dbg) (fun _ => P).
Proof.
  intros ls p a ls' p' HP E. unfold scoped_store_add, cell_get, cell_set in E. unfold bind at 1 2, get_state, ret in E.
  assert (Hset : forall c, (exists ps, c = SVUnforced ps) ->
            (s <- get_state ;; set_lscoped (alist_set name c (l_scoped s))) ls p = Ok (a, ls', p') ->
            sext (l_store ls) (l_store ls') /\ ukeep (l_scoped ls) (l_scoped ls') /\ P (l_store ls') (l_locals ls')).
  { intros c [ps ->] E'. unfold bind, get_state, set_lscoped, Lazy.upd, modify in E'. inversion E'; subst. cbn [l_store l_locals l_scoped].
    split; [apply sext_refl|]. split; [|exact HP]. intros X n c. rewrite alist_get_set. destruct (str_eqb n name); [intros [= <-]; eauto|apply X]. }
  destruct (alist_get name (l_scoped ls)) as [[pairs| |m]|]; try discriminate; eapply Hset; try exact E; eauto.
Qed.
Lemma ho_store_add (F : list thunk -> Prop) l0 lv dbg : stable F ->
  ho (fun st l => F st /\ l = l0) (store_add lv dbg) (fun _ st l => F st /\ l = l0).
Proof.
  intros HF ls p a ls' p' [H1 H2] E. unfold store_add, bind, get_state, set_lstore, Lazy.upd, modify, ret in E. inversion E; subst.
  cbn [l_store l_locals l_scoped]. split; [apply sext_app|]. split; [intros X; exact X|]. split; [|reflexivity]. eapply HF; [apply sext_app|exact H1].
Qed.
Lemma ho_set_llocals (F : list thunk -> Prop) x : ho (fun st _ => F st) (set_llocals x) (fun _ st l => F st /\ l = x).
Proof.
  intros ls p a ls' p' HF E. unfold set_llocals, Lazy.upd, modify in E. inversion E; subst. cbn [l_store l_locals l_scoped].
  split; [apply sext_refl|]. split; [intros X; exact X|auto].
Qed.

Lemma no_comp_eok G e : forall env, no_comp e = true -> expr_eok G env e = true.
Proof.
  induction e using expr_ind'; intros env; cbn [no_comp expr_eok]; try reflexivity; try discriminate.
  - rewrite !forallb_forall. intros Hp a Ha. rewrite Forall_forall in H. apply H; auto.
  - rewrite !forallb_forall. intros Hp a Ha. rewrite Forall_forall in H. apply H; auto.
  - apply IHe.
  - rewrite !forallb_forall. intros Hp a Ha. rewrite Forall_forall in H. apply H; auto.
Qed.
Lemma find_shorthand_In' name l sh : find_shorthand name l = Some sh -> In sh l.
Proof.
  induction l as [|s l IH]; cbn [find_shorthand]; [discriminate|]. destruct (find_shorthand name l) as [s'|].
  - intros [= ->]. right. apply IH. reflexivity.
  - destruct (str_eqb name (sh_name s)); [intros [= ->]; left; reflexivity|discriminate].
Qed.

(* `set` replaces the binding of a MUTABLE variable: its static bit is false *)
Lemma frame_set_ok st (fr : list (ident * bool)) (fr' : vframe lvalue) x lv v0 :
  Forall2 (entry_ok st) fr fr' -> alist_get x fr' = Some (v0, true) -> Forall2 (entry_ok st) fr (alist_set x (lv, true) fr').
Proof.
  induction 1 as [|[k b] [k' [lv' m]] fr fr' [Hk Hb] HF IH]; cbn [alist_get alist_set]; [discriminate|].
  cbn [fst snd] in Hk, Hb. subst k'. destruct (str_eqb_spec x k) as [->|Hne].
  - intros [= -> ->]. constructor; [|exact HF]. split; [reflexivity|]. cbn [fst snd]. intros E. destruct (Hb E) as [X _]. discriminate.
  - intros Hg. constructor; [split; [reflexivity|exact Hb]|]. apply IH. exact Hg.
Qed.
Lemma varmap_set_ok st env (l : varmap lvalue) x lv l' : locals_ok st env l -> varmap_set l x lv = inl l' -> locals_ok st env l'.
Proof.
  intros H. revert l'. induction H as [|fr fr' env l Hf Hl IH]; cbn [varmap_set]; intros l' E; [discriminate|].
  destruct (alist_get x fr') as [[v0 [|]]|] eqn:Eg; try discriminate.
  - inversion E; subst. constructor; [|exact Hl]. eapply frame_set_ok; eassumption.
  - destruct (varmap_set l x lv) as [up'|]; [|discriminate]. inversion E; subst. constructor; [exact Hf|]. apply IH. reflexivity.
Qed.

Section Vars.
  Variable t : tree.
  Variable fl : file.
  Variable glob : globals.
  Variable call : ident -> graph -> list value -> res (value * graph).
  Variable G : ident -> bool.
  Hypothesis Hglob : forall x, G x = true -> exists v, globals_get glob x = Some v.
  Hypothesis Hplain : shorthands_plain fl = true.
  Notation leval' := (leval t fl glob call).

  Definition SInv (env : lenv) : SP := fun st l => locals_ok st env l.

  Lemma ho_leval fuel le e env : expr_eok G env e = true ->
    ho (SInv env) (leval' fuel le e) (fun lv st l => SInv env st l /\ pure_if (eager_ok G env e) lv st).
  Proof.
    intros He. eapply ho_conseq; [|intros a st l H; exact H|apply (ho_exists (fun l0 => Inv env l0))].
    - intros st l H. exists l. split; [exact H|reflexivity].
    - intros l0. eapply ho_conseq; [intros st l H; exact H| |apply ho_of_tr, (leval_ok t fl glob call G Hglob fuel le e env l0 He)].
      intros lv st l [[H1 ->] H2]. split; assumption.
  Qed.
  Lemma ho_leval_inv fuel le e env : expr_eok G env e = true -> ho (SInv env) (leval' fuel le e) (fun _ => SInv env).
  Proof. intros He. eapply ho_conseq; [| |apply (ho_leval fuel le e env He)]; [auto|]. intros a st l [H _]. exact H. Qed.
  Lemma ho_leager fuel le e env : eager_ok G env e = true -> ho (SInv env) (leager t fl glob call fuel le e) (fun _ => SInv env).
  Proof.
    intros He. eapply ho_conseq; [|intros a st l H; exact H|apply (ho_exists (fun l0 => Inv env l0))].
    - intros st l H. exists l. split; [exact H|reflexivity].
    - intros l0. eapply ho_conseq; [intros st l H; exact H| |apply ho_of_tr, (leager_ok t fl glob call G Hglob fuel le e env l0 He)].
      intros lv st l [H1 ->]. exact H1.
  Qed.

  Lemma ho_lunscoped_add le x lv m (b : bool) env :
    ho (fun st l => SInv env st l /\ (b = true -> m = false /\ pure_lv st lv)) (lunscoped_add glob le x lv m)
       (fun _ => SInv (lenv_bind env x b)).
  Proof.
    intros ls p a ls' p' [HI Hb] E. unfold SInv in HI. destruct env as [|efr env].
    - destruct (globals_get glob x) eqn:Eg; [unfold lunscoped_add in E; rewrite Eg in E; discriminate|].
      rewrite (lunscoped_add_eq glob le x lv m ls p Eg) in E. destruct (l_locals ls) as [|fr0 l0']; [discriminate|inversion HI].
    - inversion HI as [|? fr ? l0 Hf Hr Ee El]; subst.
      pose proof (ho_of_tr _ _ _ (tr_lunscoped_add glob le x lv m b efr env fr l0)) as H.
      destruct (H ls p a ls' p') as (S1 & U1 & loc & HQ & HL); [|exact E|].
      + rewrite <- El. split; [split; [constructor; assumption|exact Hb]|reflexivity].
      + split; [exact S1|]. split; [exact U1|]. cbn [lenv_bind]. unfold SInv. rewrite HL. exact HQ.
  Qed.
  Lemma ho_lunscoped_set le x lv env : ho (SInv env) (lunscoped_set glob le x lv) (fun _ => SInv env).
  Proof.
    unfold lunscoped_set. destruct (globals_get glob x); [apply ho_fail|].
    intros ls p a ls' p' HI E. unfold store_add, bind, get_state, set_lstore, Lazy.upd, modify, ret in E. cbn [l_locals l_store] in E.
    destruct (varmap_set (l_locals ls) x _) as [l'|] eqn:Es.
    - unfold set_llocals, Lazy.upd, modify in E. inversion E; subst. cbn [l_store l_locals l_scoped].
      split; [apply sext_app|]. split; [intros X; exact X|]. unfold SInv. eapply varmap_set_ok; [|exact Es].
      eapply locals_ok_sext; [apply sext_app|exact HI].
    - destruct (varmap_get (l_locals ls) x); discriminate.
  Qed.

  Lemma ho_lvar_add fuel le v x m (b : bool) env : var_eok G env v = true ->
    ho (fun st l => SInv env st l /\ (b = true -> m = false /\ pure_lv st x)) (lvar_add t fl glob call fuel le v x m)
       (fun _ => SInv (bind_var env v b)).
  Proof.
    destruct v as [name vl|scope name vl]; cbn [var_eok lvar_add bind_var]; intros Hv; [apply ho_lunscoped_add|].
    destruct m; [apply ho_fail|]. eapply ho_conseq; [intros st l H; exact (proj1 H)|intros a st l H; exact H|].
    eapply ho_bind; [apply (ho_leval_inv fuel le scope env Hv)|]. intros sv. cbv beta.
    eapply ho_conseq; [| |apply (ho_exists (fun l0 st l => locals_ok st env l0 /\ l = l0))].
    - intros st l0 H. exists l0. split; [exact H|reflexivity].
    - intros a st l0 H. exact H.
    - intros l0. eapply ho_bind; [apply (ho_store_add (fun st => locals_ok st env l0) l0 x (ll_ctx le)), stable_locals_ok|].
      intros var. cbv beta. eapply ho_conseq; [| |apply ho_scoped_store_add]; [intros st l1 H; exact H|].
      intros a st l1 [H ->]. exact H.
  Qed.
  Lemma ho_lvar_set fuel le v x env : ho (SInv env) (lvar_set glob fuel le v x) (fun _ => SInv env).
  Proof. destruct v; cbn [lvar_set]; [apply ho_lunscoped_set|apply ho_fail]. Qed.
End Vars.
