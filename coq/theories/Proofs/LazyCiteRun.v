(* Proofs/LazyCiteRun.v — C20, lazy mode, execution phase: the cited failure happened IN THIS RUN.

   Proofs/CiteExec.v says: an error of the execution phase is a cancellation, `forced` (= `origin s1 e` for SOME state s1),
   or cites a top-level statement / scan-arm child s' that `lfails_directly` (SOME run of s' from SOME state returned the
   cause).  Here the states are those of the run (Proofs/SubRun.v `subrun`):
     forced_in_run c s p e      the run of c from (s, p) executes `eval_lv fuel lv` from a state (s1, p1) it reached, that
                                execution returned e, and `origin s1 e`: the thunk / pending scoped definition whose
                                debug info e cites is in the store / scoped-variable table OF THAT STATE;
     lfails_in_run c s p s' e1  the run of c from (s, p) executes `lexec_stmt fuel le s'` (own location in the error context,
                                this block's match) from a state it reached and that execution returned e1, unwrapped.
   Same induction as CiteExec.lazy_stmt_error_cite. *)
From TSG Require Import Model.Strict Model.Lazy.
From TSG Require Import Proofs.BaseFacts Proofs.Containers Proofs.MonadFacts Proofs.StrictMeta Proofs.LazyMeta Proofs.Captures Proofs.ErrorCtx Proofs.ErrorCtxValid.
From TSG Require Import Proofs.CiteEval Proofs.CiteStmt Proofs.CiteExec Proofs.CiteRun Proofs.SubRun.

Section LazyRun.
  Context {rx : Type}.
  Variables (t : tree) (fl : file) (cfg : config) (glob : globals) (regexes : list rx)
            (find : rx -> str -> option (list (option (N * N))))
            (call : ident -> graph -> list value -> res (value * graph)).
  Hypothesis Hcall : call_errors_base call.
  Variables (z : loc) (n : N) (m : qmatch).

  Notation LM := (M lstate).
  Notation eval_lv' := (eval_lv t fl call).
  Notation leval' := (leval t fl glob call).
  Notation lexec_attr' := (lexec_attr t fl glob call).
  Notation lexec_stmt' := (lexec_stmt t fl cfg glob regexes find call).
  Notation origin' := (origin t fl call).
  Notation lmk := (lmk z n).
  Notation env_zn := (env_zn z n m).

  Definition forced_in_run {A} (c : LM A) (s : lstate) (p : polls) (e : exec_error) : Prop :=
    exists fuel lv s1 p1, eval_lv' fuel lv s1 p1 = Err e /\ origin' s1 e /\ subrun (eval_lv' fuel lv) s1 p1 c s p.
  Definition lfails_in_run {A} (c : LM A) (s : lstate) (p : polls) (s' : stmt) (e1 : exec_error) : Prop :=
    unwrapped e1 /\
    exists fuel le s1 p1, lexec_stmt' fuel le s' s1 p1 = Err e1 /\ ll_ctx le = lmk (stmt_loc s') /\ ll_match le = m /\
                          subrun (lexec_stmt' fuel le s') s1 p1 c s p.
  Definition arm_cited_run {A} (L : list stmt) (c : LM A) s p (e : exec_error) : Prop :=
    exists s' e1, In s' L /\ e = EInContext (CtxStmts [lmk (stmt_loc s')]) (EInContext CtxOther e1) /\ lfails_in_run c s p s' e1.
  Definition top_cited_run {A} (L : list stmt) (c : LM A) s p (e : exec_error) : Prop :=
    exists s' e1, In s' L /\ e = EInContext (CtxStmts [lmk (stmt_loc s')]) e1 /\ lfails_in_run c s p s' e1.
  Definition serrR {A} (L : list stmt) (c : LM A) s p (e : exec_error) : Prop :=
    cancelled e \/ unwrapped e \/ forced_in_run c s p e \/ arm_cited_run L c s p e.
  Definition lerrsR {A} (L : list stmt) (c : LM A) : Prop := forall s p e, c s p = Err e -> serrR L c s p e.
  Definition lplain {A} (c : LM A) : Prop := forall s p e, c s p = Err e -> cancelled e \/ unwrapped e.

  (* forgetting the run *)
  Lemma forced_in_run_forced A (c : LM A) s p e : forced_in_run c s p e -> forced t fl call e.
  Proof. intros (fuel & lv & s1 & p1 & _ & Ho & _). exists s1. exact Ho. Qed.
  Lemma lfails_in_run_directly A (c : LM A) s p s' e1 :
    lfails_in_run c s p s' e1 -> lfails_directly t fl cfg glob regexes find call z n m s' e1.
  Proof. intros (Hu & fuel & le & s1 & p1 & H & Hc & Hm & _). split; [exact Hu|]. exists fuel, le, s1, p1. auto. Qed.
  Lemma arm_cited_run_cited A L (c : LM A) s p e : arm_cited_run L c s p e -> arm_cited t fl cfg glob regexes find call z n m L e.
  Proof. intros (s' & e1 & Hin & He & Hf). exists s', e1. repeat split; try assumption; eapply lfails_in_run_directly, Hf. Qed.
  Lemma top_cited_run_cited A L (c : LM A) s p e : top_cited_run L c s p e -> top_cited t fl cfg glob regexes find call z n m L e.
  Proof. intros (s' & e1 & Hin & He & Hf). exists s', e1. repeat split; try assumption; eapply lfails_in_run_directly, Hf. Qed.

  (* moving along the run *)
  Definition sub_of {A B} (c1 : LM A) s1 p1 (c : LM B) s p : Prop :=
    forall D (d : LM D) s' p', subrun d s' p' c1 s1 p1 -> subrun d s' p' c s p.
  Lemma forced_sub A B (c1 : LM A) s1 p1 (c : LM B) s p e : sub_of c1 s1 p1 c s p -> forced_in_run c1 s1 p1 e -> forced_in_run c s p e.
  Proof. intros Hs (fuel & lv & s2 & p2 & H & Ho & Hr). exists fuel, lv, s2, p2. repeat split; try assumption. apply Hs, Hr. Qed.
  Lemma lfails_sub A B (c1 : LM A) s1 p1 (c : LM B) s p s' e1 : sub_of c1 s1 p1 c s p -> lfails_in_run c1 s1 p1 s' e1 -> lfails_in_run c s p s' e1.
  Proof.
    intros Hs (Hu & fuel & le & s2 & p2 & H & Hc & Hm & Hr). split; [exact Hu|]. exists fuel, le, s2, p2. repeat split; try assumption. apply Hs, Hr.
  Qed.
  Lemma arm_cited_sub A B L L' (c1 : LM A) s1 p1 (c : LM B) s p e :
    sub_of c1 s1 p1 c s p -> incl L L' -> arm_cited_run L c1 s1 p1 e -> arm_cited_run L' c s p e.
  Proof. intros Hs Hi (s' & e1 & Hin & He & Hf). exists s', e1. repeat split; [apply Hi, Hin|exact He|eapply lfails_sub; eauto|eapply lfails_sub; eauto]. Qed.
  Lemma serr_sub A B L L' (c1 : LM A) s1 p1 (c : LM B) s p e :
    sub_of c1 s1 p1 c s p -> incl L L' -> serrR L c1 s1 p1 e -> serrR L' c s p e.
  Proof.
    intros Hs Hi [H|[H|[H|H]]]; [left; exact H|right; left; exact H|right; right; left; eapply forced_sub; eauto|right; right; right; eapply arm_cited_sub; eauto].
  Qed.
  Lemma sub_refl A (c : LM A) s p : sub_of c s p c s p. Proof. intros D d s' p' H. exact H. Qed.

  Lemma y_mono A L L' (c : LM A) : incl L L' -> lerrsR L c -> lerrsR L' c.
  Proof. intros Hi H s p e He. eapply serr_sub; [apply sub_refl|exact Hi|]. apply H, He. Qed.
  Lemma y_plain A L (c : LM A) : lplain c -> lerrsR L c.
  Proof. intros H s p e He. destruct (H _ _ _ He) as [K|K]; [left; exact K|right; left; exact K]. Qed.
  Lemma y_ret A L (a : A) : lerrsR L (ret a). Proof. intros s p e H. discriminate. Qed.
  Lemma y_bind A B L (c : LM A) (f : A -> LM B) : lerrsR L c -> (forall a, lerrsR L (f a)) -> lerrsR L (bind c f).
  Proof.
    intros Hc Hf s p e H. apply bind_err in H as [H|(a & s1 & p1 & Hok & H)].
    - eapply serr_sub; [|apply incl_refl|apply Hc, H]. intros D d s' p' Hd. apply sr_bind_l, Hd.
    - eapply serr_sub; [|apply incl_refl|apply (Hf a), H]. intros D d s' p' Hd. eapply sr_bind_r; [exact Hok|exact Hd].
  Qed.
  Lemma y_iterM A L (f : A -> LM unit) l : (forall x, In x l -> lerrsR L (f x)) -> lerrsR L (iterM f l).
  Proof.
    induction l as [|x l IH]; intros H; cbn [iterM]; [apply y_ret|]. apply y_bind; [apply H; left; reflexivity|intros _].
    apply IH. intros y Hy. apply H. right. exact Hy.
  Qed.
  Lemma y_mapM A B L (f : A -> LM B) l : (forall x, lerrsR L (f x)) -> lerrsR L (mapM f l).
  Proof.
    intros H. induction l as [|x l IH]; cbn [mapM]; [apply y_ret|]. apply y_bind; [apply H|intros y]. apply y_bind; [exact IH|intros ys; apply y_ret].
  Qed.
  Lemma y_get_bind A L (f : lstate -> LM A) : (forall s1, lerrsR L (f s1)) -> lerrsR L (s <- get_state ;; f s).
  Proof. intros H. apply y_bind; [intros s p e He; discriminate|exact H]. Qed.
  Lemma y_panic A L x : lerrsR L (@panic lstate A x). Proof. intros s p e H. discriminate. Qed.
  Lemma y_oof A L : lerrsR L (@out_of_fuel lstate A). Proof. intros s p e H. discriminate. Qed.
  Lemma y_fail A L e : base_error e -> lerrsR L (@fail lstate A e).
  Proof. intros Hb. apply y_plain. intros s p e' H. inversion H; subst. right. apply U_base, Hb. Qed.
  Lemma y_lift A L (r : res A) : base_res r -> lerrsR L (lift r).
  Proof. intros Hb. apply y_plain. intros s p e H. unfold lift in H. destruct r; try discriminate. inversion H; subst. right. apply U_base, Hb. Qed.
  Lemma y_poll L l : lerrsR L (lpoll l).
  Proof. apply y_plain. intros s p e H. apply poll_err in H as (-> & _). left. exists l. reflexivity. Qed.

  Ltac destruct_matches_in H :=
    repeat match type of H with context [match ?x with _ => _ end] => destruct x eqn:? end.
  Ltac yprim := apply y_plain; intros s0 p0 e0 H;
    cbv [ladd_node ladd_node_attr lopt_node_attr lfull_match_node lpush_frame lpop_frame lclear_frame store_add scoped_store_add cell_get cell_set
         lunscoped_get lunscoped_add lunscoped_set push_lstmt
         set_lgraph set_llocals set_lstore set_lscoped set_lparams Lazy.upd bind get_state modify ret fail panic out_of_fuel] in H;
    destruct_matches_in H; try discriminate; inversion H; subst; right; apply U_base; exact I.

  Lemma y_ladd_node L : lerrsR L ladd_node. Proof. yprim. Qed.
  Lemma y_ladd_node_attr L k0 k v : lerrsR L (ladd_node_attr k0 k v). Proof. yprim. Qed.
  Lemma y_lopt_node_attr L k0 name v : lerrsR L (lopt_node_attr k0 name v). Proof. yprim. Qed.
  Lemma y_lfull_match_node L le : lerrsR L (lfull_match_node le). Proof. yprim. Qed.
  Lemma y_lpush_frame L : lerrsR L lpush_frame. Proof. yprim. Qed.
  Lemma y_lpop_frame L : lerrsR L lpop_frame. Proof. yprim. Qed.
  Lemma y_lclear_frame L : lerrsR L lclear_frame. Proof. yprim. Qed.
  Lemma y_set_llocals L l : lerrsR L (set_llocals l). Proof. yprim. Qed.
  Lemma y_store_add L lv dbg : lerrsR L (store_add lv dbg). Proof. yprim. Qed.
  Lemma y_scoped_store_add L sc name v dbg : lerrsR L (scoped_store_add sc name v dbg). Proof. yprim. Qed.
  Lemma y_push_lstmt L st : lerrsR L (push_lstmt st). Proof. yprim. Qed.
  Lemma y_lunscoped_get L name : lerrsR L (lunscoped_get glob name). Proof. yprim. Qed.
  Lemma y_lunscoped_add L le name v mu : lerrsR L (lunscoped_add glob le name v mu). Proof. yprim. Qed.
  Lemma y_lunscoped_set L le name v : lerrsR L (lunscoped_set glob le name v). Proof. yprim. Qed.
  Lemma y_lpoll_n L k l : lerrsR L (lpoll_n k l).
  Proof. induction k as [|k IH]; cbn [lpoll_n]; [apply y_ret|]. apply y_bind; [apply y_poll|intros _; exact IH]. Qed.

  (* forcing from the execution phase: the error has its origin in the state in which the forcing started - a state of the run *)
  Lemma y_eval_lv L fuel lv : lerrsR L (eval_lv' fuel lv).
  Proof.
    intros s p e H. pose proof (ev_eval_lv t fl call Hcall s (fun _ => True) fuel lv s p (conj (same_dbgs_refl s) I)) as K.
    rewrite H in K. destruct K as [K|[[_ K]|K]]; [left; exact K|right; left; exact K|right; right; left].
    exists fuel, lv, s, p. repeat split; try assumption. apply sr_here.
  Qed.

  Section Fixed.
  Variable L : list stmt.
  Lemma y_leval : forall fuel le e, lerrsR L (leval' fuel le e).
  Proof.
    induction fuel as [|fuel IH]; intros le e; [apply y_oof|].
    assert (Heager : forall e', lerrsR L (lv <- leval' fuel le e' ;; eval_lv' (S fuel + default_eval_fuel) lv)).
    { intros e'. apply y_bind; [apply IH|intros lv; apply y_eval_lv]. }
    assert (Hcomp : forall elem var value,
      lerrsR L (lv <- (lv <- leval' fuel le value ;; eval_lv' (S fuel + default_eval_fuel) lv) ;; vals <- lift (as_list lv) ;;
           lpush_frame ;;;
           out <- mapM (fun v => lclear_frame ;;; lunscoped_add glob le var (LValue v) false ;;; leval' fuel le elem) vals ;;
           lpop_frame ;;; ret out)).
    { intros elem var value. apply y_bind; [apply Heager|intros lv]. apply y_bind; [apply y_lift, base_as_list|intros vals].
      apply y_bind; [apply y_lpush_frame|intros _]. apply y_bind.
      - apply y_mapM. intros v. apply y_bind; [apply y_lclear_frame|intros _]. apply y_bind; [apply y_lunscoped_add|intros _]. apply IH.
      - intros out. apply y_bind; [apply y_lpop_frame|intros _; apply y_ret]. }
    destruct e; cbn [leval]; try apply y_ret.
    - apply y_bind; [apply y_mapM; intros; apply IH|intros vs; apply y_ret].
    - apply y_bind; [apply y_mapM; intros; apply IH|intros vs; apply y_ret].
    - apply y_bind; [apply Hcomp|intros out; apply y_ret].
    - apply y_bind; [apply Hcomp|intros out; apply y_ret].
    - apply y_bind; [apply y_lift, base_from_nodes|intros v; apply y_ret].
    - apply y_lunscoped_get.
    - apply y_bind; [apply IH|intros sv; apply y_ret].
    - apply y_bind; [apply y_mapM; intros; apply IH|intros vs; apply y_ret].
    - destruct (nth_error _ _); [apply y_ret|apply y_fail; exact I].
  Qed.
  Lemma y_leager fuel le e : lerrsR L (leager t fl glob call fuel le e).
  Proof. unfold leager. apply y_bind; [apply y_leval|intros lv; apply y_eval_lv]. Qed.
  Lemma y_lvar_add fuel le v x mu : lerrsR L (lvar_add t fl glob call fuel le v x mu).
  Proof.
    destruct v; cbn [lvar_add]; [apply y_lunscoped_add|]. destruct mu; [apply y_fail; exact I|].
    apply y_bind; [apply y_leval|intros sv]. apply y_bind; [apply y_store_add|intros var]. apply y_scoped_store_add.
  Qed.
  Lemma y_lvar_set fuel le v x : lerrsR L (lvar_set glob fuel le v x).
  Proof. destruct v; cbn [lvar_set]; [apply y_lunscoped_set|apply y_fail; exact I]. Qed.
  Lemma y_ltest_cond fuel le c : lerrsR L (ltest_cond t fl glob call fuel le c).
  Proof.
    destruct c; cbn [ltest_cond]; (apply y_bind; [apply y_leager|intros v]); try apply y_ret. apply y_lift, base_as_bool.
  Qed.
  Lemma y_lexec_attr : forall fuel le a, lerrsR L (lexec_attr' fuel le a).
  Proof.
    induction fuel as [|fuel IH]; intros le a; [apply y_oof|].
    destruct a as [name value]. cbn [lexec_attr]. apply y_bind; [apply y_poll|intros _].
    apply y_bind; [apply y_leval|intros v]. destruct (find_shorthand name (f_shorthands fl)) as [sh|]; [|apply y_ret].
    apply y_get_bind. intros s1. cbv zeta. apply y_bind; [apply y_set_llocals|intros _].
    apply y_bind; [apply y_lunscoped_add|intros _]. apply y_bind; [apply y_mapM; intros; apply IH|intros outs].
    apply y_bind; [apply y_set_llocals|intros _; apply y_ret].
  Qed.

  Lemma y_lscan_loop run_arm arms rs subject :
    (forall caps r body l, In (r, body, l) arms -> lerrsR L (run_arm caps body)) ->
    forall sfuel i, lerrsR L (lscan_loop find run_arm arms rs subject sfuel i).
  Proof.
    intros Hrun. induction sfuel as [|sfuel IHs]; intros i; cbn [lscan_loop]; [apply y_oof|].
    destruct (N.ltb i (N.of_nat (length subject))); [|apply y_ret]. cbv zeta.
    apply y_bind; [apply y_lpoll_n|intros _].
    destruct (arm_select find rs (skipn (N.to_nat i) subject)) as [|k|k caps]; [apply y_ret|apply y_fail; exact I|].
    destruct (nth_error arms (N.to_nat k)) as [[[r body] l']|] eqn:En; [|apply y_panic].
    apply y_bind; [apply y_lpush_frame|intros _].
    apply y_bind; [eapply Hrun; eapply nth_error_In; eauto|intros _].
    apply y_bind; [apply y_lpop_frame|intros _]. apply IHs.
  Qed.
  Lemma y_lif_loop test run_body :
    (forall c, lerrsR L (test c)) ->
    forall arms, (forall conds body l, In (conds, body, l) arms -> lerrsR L (run_body body)) ->
    lerrsR L (lif_loop test run_body arms).
  Proof.
    intros Ht. induction arms as [|[[conds body] l'] arms IHa]; intros Hr; cbn [lif_loop]; [apply y_ret|].
    apply y_bind; [apply y_mapM; intros c; apply Ht|intros bs].
    destruct (forallb (fun b => b) bs); [|apply IHa; intros; eapply Hr; right; eauto].
    apply y_bind; [apply y_lpush_frame|intros _].
    apply y_bind; [eapply Hr; left; reflexivity|intros _]. apply y_lpop_frame.
  Qed.
  End Fixed.

  Lemma forced_run_add_context A (c : LM A) s p k e : forced_in_run c s p e -> add_context k e = e.
  Proof. intros H. eapply forced_add_context, forced_in_run_forced, H. Qed.

  (* a statement run inside with_context(Other) and its own statement context (scan-arm child) *)
  Lemma arm_child_error_run L fuel le st :
    ll_ctx le = lmk (stmt_loc st) -> ll_match le = m -> incl (st :: arm_stmts st) L ->
    lerrsR (arm_stmts st) (lexec_stmt' fuel le st) ->
    forall s0 p0 e,
    ctx_wrap (CtxStmts [lmk (stmt_loc st)]) (ctx_wrap CtxOther (lexec_stmt' fuel le st)) s0 p0 = Err e ->
    let C := ctx_wrap (CtxStmts [lmk (stmt_loc st)]) (ctx_wrap CtxOther (lexec_stmt' fuel le st)) in
    cancelled e \/ forced_in_run C s0 p0 e \/ arm_cited_run L C s0 p0 e.
  Proof.
    intros Hc Hm HL IH s0 p0 e H C. apply ctx_wrap_err in H as (e' & H & ->). apply ctx_wrap_err in H as (e1 & H & ->).
    assert (Hsub : sub_of (lexec_stmt' fuel le st) s0 p0 C s0 p0) by (intros D d s' p' Hd; apply sr_ctx, sr_ctx, Hd).
    destruct (IH _ _ _ H) as [[l ->]|[Hu|[Hf|Ha]]].
    - left. exists l. reflexivity.
    - right. right. exists st, e1. split; [apply HL; left; reflexivity|]. rewrite (unwrapped_add_other' _ Hu). split; [reflexivity|].
      split; [exact Hu|]. exists fuel, le, s0, p0. repeat split; try assumption. apply Hsub, sr_here.
    - right. left. rewrite !(forced_run_add_context _ _ _ _ _ _ Hf). eapply forced_sub; eauto.
    - right. right. pose proof Ha as (s' & e2 & _ & -> & _). cbn [add_context].
      eapply arm_cited_sub; [exact Hsub| |exact Ha]. intros y Hy. apply HL. right. exact Hy.
  Qed.

  Theorem lazy_stmt_error_cite_run : forall fuel le s, env_zn le -> lerrsR (arm_stmts s) (lexec_stmt' fuel le s).
  Proof.
    induction fuel as [|fuel IH]; intros le s Henv; [apply y_oof|].
    assert (Hblock : forall le' body, env_zn le' ->
               (forall st, In st body -> incl (arm_stmts st) (arm_stmts s)) ->
               lerrsR (arm_stmts s) (iterM (fun st => lexec_stmt' fuel (ll_with_ctx le' (ctx_update (ll_ctx le') st)) st) body)).
    { intros le' body He Hsub. apply y_iterM. intros st Hin. eapply y_mono; [apply Hsub, Hin|].
      apply IH. rewrite (ctx_update_zn z n m le' st He). apply env_zn_with; [exact He|reflexivity|reflexivity]. }
    assert (Harm : forall le' body, env_zn le' ->
               (forall st, In st body -> incl (st :: arm_stmts st) (arm_stmts s)) ->
               lerrsR (arm_stmts s) (iterM (fun st => let c := ctx_update (ll_ctx le') st in
                                     ctx_wrap (CtxStmts [c]) (ctx_wrap CtxOther (lexec_stmt' fuel (ll_with_ctx le' c) st))) body)).
    { intros le' body He Hsub. apply y_iterM. intros st Hin s0 p0 e H. cbv zeta in H |- *. rewrite (ctx_update_zn z n m le' st He) in H |- *.
      destruct (arm_child_error_run (arm_stmts s) fuel (ll_with_ctx le' (lmk (stmt_loc st))) st) with (s0 := s0) (p0 := p0) (e := e) as [Hc|[Hf|Ha]]; auto.
      - apply He.
      - apply IH. apply env_zn_with; [exact He|reflexivity|reflexivity].
      - left. exact Hc.
      - right. right. left. exact Hf.
      - right. right. right. exact Ha. }
    set (LL := arm_stmts s) in *.
    destruct s; cbn [lexec_stmt]; (apply y_bind; [apply y_poll|intros _]).
    - apply y_bind; [apply y_leval|intros x; apply y_lvar_add].
    - apply y_bind; [apply y_leval|intros x; apply y_lvar_add].
    - apply y_bind; [apply y_leval|intros x; apply y_lvar_set].
    - apply y_bind; [apply y_ladd_node|intros k]. apply y_bind; [apply y_lopt_node_attr|intros _].
      apply y_bind; [apply y_lopt_node_attr|intros _]. apply y_bind; [|intros _; apply y_lvar_add].
      destruct (c_match_attr cfg); [|apply y_ret]. apply y_bind; [apply y_lfull_match_node|intros mn]. apply y_ladd_node_attr.
    - apply y_bind; [apply y_leval|intros nv]. apply y_bind; [apply y_mapM; intros; apply y_lexec_attr|intros outs]. apply y_push_lstmt.
    - apply y_bind; [apply y_leval|intros a]. apply y_bind; [apply y_leval|intros b]. cbv zeta. apply y_push_lstmt.
    - apply y_bind; [apply y_leval|intros a]. apply y_bind; [apply y_leval|intros b].
      apply y_bind; [apply y_mapM; intros; apply y_lexec_attr|intros outs]. apply y_push_lstmt.
    - apply y_bind; [apply y_leager|intros sv]. apply y_bind; [apply y_lift, base_as_str|intros subject].
      destruct (arm_table regexes arms) as [rs|]; [|apply y_panic].
      apply y_lscan_loop. intros caps r body l' Hin. apply (Harm (ll_with_caps le caps) body); [exact Henv|].
      intros st Hst. eapply arms_scan; eauto.
    - apply y_bind; [|intros args; apply y_push_lstmt]. apply y_mapM. intros e. destruct e; try apply y_ret.
      all: apply y_bind; [apply y_leval|intros lv; apply y_ret].
    - apply y_lif_loop; [intros c; apply y_ltest_cond|]. intros conds body l' Hin. apply (Hblock le body); [exact Henv|].
      intros st Hst. eapply arms_if; eauto.
    - apply y_bind; [apply y_leager|intros lv]. apply y_bind; [apply y_lift, base_as_list|intros vals].
      apply y_bind; [apply y_lpush_frame|intros _]. apply y_bind; [|intros _; apply y_lpop_frame].
      apply y_iterM. intros v _. apply y_bind; [apply y_lclear_frame|intros _].
      apply y_bind; [apply y_lunscoped_add|intros _]. apply (Hblock le body); [exact Henv|].
      intros st Hst. eapply arms_for; eauto.
  Qed.

  (* ---------------------------------------------------------------- one (stanza, match) block, explicitly *)
  Definition ltop_le (st : stanza) (x : stmt) : llenv :=
    ll_with_ctx {| ll_match := m; ll_full := st_full_file_idx st; ll_caps := [];
                   ll_ctx := {| sc_stmt := (0, 0); sc_stanza := st_start st; sc_node := 0 |} |} (lmk (stmt_loc x)).
  Definition ltop_stmt (fuel : nat) (st : stanza) (x : stmt) : LM unit :=
    ctx_wrap (CtxStmts [lmk (stmt_loc x)]) (lexec_stmt' fuel (ltop_le st x) x).

  Lemma lexec_stanza_top fuel st rest :
    z = st_start st -> nodes_for_capture m (st_full_file_idx st) = n :: rest ->
    lexec_stanza t fl cfg glob regexes find call fuel st m = (lpoll L_matches ;;; lclear_frame ;;; iterM (ltop_stmt fuel st) (st_stmts st)).
  Proof.
    intros Ez Hn. unfold lexec_stanza, ltop_stmt, ltop_le, CiteExec.lmk. cbv zeta. rewrite Hn, <- Ez. reflexivity.
  Qed.

  (* the statements before x ran successfully from the state (s1, p1) in which the block started (after the poll and
     clear_frame) to (s2, p2); x, run from (s2, p2), returned e'; and e' is a cancellation, or x ITSELF failed from (s2, p2)
     (no statement context), or e' was raised by a forcing that this run of x started in a state it reached (origin in THAT
     state), or e' cites a scan-arm child of x that failed directly from a state reached by this run of x *)
  Theorem lazy_stanza_error_run fuel st s p e rest :
    z = st_start st -> nodes_for_capture m (st_full_file_idx st) = n :: rest ->
    lexec_stanza t fl cfg glob regexes find call fuel st m s p = Err e ->
    cancelled e \/
    exists pre x post s1 p1 s2 p2 e',
      st_stmts st = pre ++ x :: post /\
      (lpoll L_matches ;;; lclear_frame) s p = Ok (tt, s1, p1) /\
      iterM (ltop_stmt fuel st) pre s1 p1 = Ok (tt, s2, p2) /\
      lexec_stmt' fuel (ltop_le st x) x s2 p2 = Err e' /\
      e = add_context (CtxStmts [lmk (stmt_loc x)]) e' /\
      serrR (arm_stmts x) (lexec_stmt' fuel (ltop_le st x) x) s2 p2 e'.
  Proof.
    intros Ez Hn H. rewrite (lexec_stanza_top fuel st rest Ez Hn) in H.
    apply bind_err in H as [H|([] & s0 & p0 & Hpoll & H)].
    { apply poll_err in H as (-> & _). left. exists L_matches. reflexivity. }
    apply bind_err in H as [H|([] & s1 & p1 & Hcl & H)]; [exfalso; eapply lclear_frame_no_err, H|].
    right. apply iterM_err_prefix in H as (pre & x & post & s2 & p2 & Est & Hpre & H).
    unfold ltop_stmt in H. apply ctx_wrap_err in H as (e' & H & ->).
    exists pre, x, post, s1, p1, s2, p2, e'. repeat split; try assumption.
    - unfold bind. rewrite Hpoll. exact Hcl.
    - apply (lazy_stmt_error_cite_run fuel (ltop_le st x) x); [repeat split|exact H].
  Qed.

  (* the same relative to the run of the block *)
  Theorem lazy_stanza_error_cited_run fuel st s p e rest :
    z = st_start st -> nodes_for_capture m (st_full_file_idx st) = n :: rest ->
    lexec_stanza t fl cfg glob regexes find call fuel st m s p = Err e ->
    let C := lexec_stanza t fl cfg glob regexes find call fuel st m in
    cancelled e \/ forced_in_run C s p e \/ top_cited_run (st_stmts st) C s p e \/ arm_cited_run (flat_map arm_stmts (st_stmts st)) C s p e.
  Proof.
    intros Ez Hn H C.
    destruct (lazy_stanza_error_run fuel st s p e rest Ez Hn H) as [Hc|(pre & x & post & s1 & p1 & s2 & p2 & e' & Est & Hcl & Hpre & Hx & -> & K)];
      [left; exact Hc|].
    assert (Hin : In x (st_stmts st)) by (rewrite Est; apply in_or_app; right; left; reflexivity).
    assert (Hsub : sub_of (lexec_stmt' fuel (ltop_le st x) x) s2 p2 C s p).
    { intros D d s' p' Hd. unfold C. rewrite (lexec_stanza_top fuel st rest Ez Hn).
      apply bind_ok in Hcl as ([] & s0 & p0 & Hpoll & Hcl).
      eapply sr_bind_r; [exact Hpoll|]. eapply sr_bind_r; [exact Hcl|]. rewrite Est.
      eapply subrun_iterM; [exact Hpre|]. unfold ltop_stmt. apply sr_ctx, Hd. }
    destruct K as [[l ->]|[Hu|[Hf|Ha]]].
    - left. exists l. reflexivity.
    - right. right. left. exists x, e'. split; [exact Hin|]. split; [apply unwrapped_add_stmts, Hu|]. split; [exact Hu|].
      exists fuel, (ltop_le st x), s2, p2. repeat split; try assumption. apply Hsub, sr_here.
    - right. left. rewrite (forced_run_add_context _ _ _ _ _ _ Hf). eapply forced_sub; eauto.
    - right. right. right. pose proof Ha as (s' & e1 & _ & -> & _). cbn [add_context].
      eapply arm_cited_sub; [exact Hsub| |exact Ha]. intros y Hy. apply in_flat_map. exists x. split; assumption.
  Qed.
End LazyRun.

(* ---------------------------------------------------------------- the whole execution *)
Section LazyFileRun.
  Context {rx : Type}.
  Variables (t : tree) (fl : file) (cfg : config) (glob : globals) (regexes : list rx)
            (find : rx -> str -> option (list (option (N * N))))
            (call : ident -> graph -> list value -> res (value * graph)).
  Hypothesis Hcall : call_errors_base call.
  Notation lexec_stanza' := (lexec_stanza t fl cfg glob regexes find call).
  Notation lexec_blocks' := (lexec_blocks t fl cfg glob regexes find call).

  (* e was raised in block (i, mm), run from the state (s1, p1) that the preceding blocks left: by a forcing started in a
     state reached by the run of that block (origin in that state), or it cites a top-level statement / scan-arm child of
     the block that failed directly from a state reached by the run of the block *)
  Definition cites_executed_run (fuel : nat) (ms : list (N * qmatch)) (s : lstate) (p : polls) (e : exec_error) : Prop :=
    exists ms1 i mm ms2 st s1 p1 n rest,
      ms = ms1 ++ (i, mm) :: ms2 /\ nth_error (f_stanzas fl) (N.to_nat i) = Some st /\
      lexec_blocks' fuel ms1 s p = Ok (tt, s1, p1) /\
      lexec_stanza' fuel st mm s1 p1 = Err e /\
      nodes_for_capture mm (st_full_file_idx st) = n :: rest /\
      (forced_in_run t fl call (lexec_stanza' fuel st mm) s1 p1 e \/
       top_cited_run t fl cfg glob regexes find call (st_start st) n mm (st_stmts st) (lexec_stanza' fuel st mm) s1 p1 e \/
       arm_cited_run t fl cfg glob regexes find call (st_start st) n mm (flat_map arm_stmts (st_stmts st)) (lexec_stanza' fuel st mm) s1 p1 e).

  Theorem lexec_blocks_error_cite_run fuel ms s p e :
    lexec_blocks' fuel ms s p = Err e -> cancelled e \/ cites_executed_run fuel ms s p e.
  Proof.
    intros H. unfold lexec_blocks in H. apply iterM_err_prefix in H as (ms1 & [i mm] & ms2 & s1 & p1 & Ems & Hpre & H). cbn [fst snd] in H.
    destruct (nth_error (f_stanzas fl) (N.to_nat i)) as [st|] eqn:Est; [|discriminate].
    destruct (nodes_for_capture mm (st_full_file_idx st)) as [|n rest] eqn:En.
    - unfold lexec_stanza in H. apply bind_err in H as [H|(u & s2 & p2 & _ & H)].
      + apply poll_err in H as (-> & _). left. exists L_matches. reflexivity.
      + apply bind_err in H as [H|(u' & s3 & p3 & _ & H)]; [exfalso; eapply lclear_frame_no_err, H|]. cbv zeta in H. rewrite En in H. discriminate.
    - destruct (lazy_stanza_error_cited_run t fl cfg glob regexes find call Hcall (st_start st) n mm fuel st s1 p1 e rest eq_refl En H) as [Hc|K];
        [left; exact Hc|]. right. exists ms1, i, mm, ms2, st, s1, p1, n, rest. repeat split; try assumption.
  Qed.

  (* both phases, from the initial state: in the evaluation phase the `origin` state is the state (s1, p1) in which the
     execution phase ended *)
  Theorem lexec_file_init_error_cite_run fuel ms g0 p e :
    lexec_file t fl cfg glob regexes find call fuel ms (linit g0) p = Err e ->
    cancelled e \/ cites_executed_run fuel ms (linit g0) p e \/
    exists s1 p1, lexec_blocks' fuel ms (linit g0) p = Ok (tt, s1, p1) /\
                  evaluate_phase t fl call (fuel + default_eval_fuel) s1 p1 = Err e /\
                  (cites_deferred [] (l_edges s1 ++ l_attrs s1 ++ l_prints s1) e \/ origin t fl call s1 e).
  Proof.
    intros H. pose proof H as H0. rewrite lexec_file_unfold in H. apply bind_err in H as [H|([] & s1 & p1 & H1 & H)].
    - destruct (lexec_blocks_error_cite_run _ _ _ _ _ H) as [K|K]; auto.
    - pose proof (lexec_blocks_keeps_prev t fl cfg glob regexes find call fuel ms _ _ _ _ _ H1) as Hp. cbn [linit l_prev] in Hp.
      destruct (evaluate_phase_cites t fl call Hcall _ _ _ _ H) as [K|[K|[K|K]]].
      + left. exact K.
      + exfalso. destruct (lexec_file_error_valid_lemma t fl cfg glob regexes find call fuel ms g0 p e Hcall H0) as [[l ->]|(cs & e0 & -> & _)].
        * eapply cancelled_not_unwrapped, K.
        * eapply stmt_ctx_not_unwrapped, K.
      + right. right. exists s1, p1. split; [exact H1|]. split; [exact H|]. left. rewrite Hp in K. exact K.
      + right. right. exists s1, p1. split; [exact H1|]. split; [exact H|]. right. exact K.
  Qed.
End LazyFileRun.
