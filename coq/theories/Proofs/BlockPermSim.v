(* Proofs/BlockPermSim.v — C08, part 2: SHIFT EQUIVARIANCE of the execution of one block (stanza, match) of the
   lazy interpreter, on the fragment `fstmt` of Proofs/SLExpr.v (no scoped variables, functions in okfn).
   Two runs of the same block start from two states whose graphs/stores/deferred lists are arbitrary
   (G1,S1,E1,A1,P1 for run 1; G2,S2,... for run 2): they proceed in lockstep (same fuel, same errors, same
   panics, same poll trace); run 1 appends gs/ts/es/.. to its lists, run 2 appends the SAME things with the
   graph ids >= |G1| shifted to |G2|.. and the store locations >= |S1| shifted to |S2|.. .  Nothing below the
   bases is read or written, except graph ids < n0 (shared nodes, reached through global variables).
   The relation carries the invariants that make this work: every graph id created by the block lies in
   [|G1|, current graph size), every store location in [|S1|, current store size), and the thunk at store
   index j only mentions locations < j (the store is acyclic). *)
From TSG Require Import Model.Lazy Proofs.BaseFacts Proofs.OrderFacts Proofs.Containers Proofs.MonadFacts Proofs.SLGraph Proofs.SLExpr Proofs.BlockPermRen.

(* the three lists of deferred statements: which statements each one holds *)
Definition is_estmt (st : lstmt) : Prop := match st with LSEdge _ _ _ _ => True | _ => False end.
Definition is_astmt (st : lstmt) : Prop := match st with LSAttrNode _ _ _ | LSAttrEdge _ _ _ _ => True | _ => False end.
Definition is_pstmt (st : lstmt) : Prop := match st with LSPrint _ _ => True | _ => False end.

Definition gn (s : lstate) : N := N.of_nat (length (l_graph s)).
Definition sn (s : lstate) : N := N.of_nat (length (l_store s)).

Definition wgraph (g : graph) (s : lstate) : lstate :=
  {| l_graph := g; l_locals := l_locals s; l_store := l_store s; l_scoped := l_scoped s; l_edges := l_edges s;
     l_attrs := l_attrs s; l_prints := l_prints s; l_params := l_params s; l_prev := l_prev s |}.
Definition wlocals (x : varmap lvalue) (s : lstate) : lstate :=
  {| l_graph := l_graph s; l_locals := x; l_store := l_store s; l_scoped := l_scoped s; l_edges := l_edges s;
     l_attrs := l_attrs s; l_prints := l_prints s; l_params := l_params s; l_prev := l_prev s |}.
Definition wstore (x : list thunk) (s : lstate) : lstate :=
  {| l_graph := l_graph s; l_locals := l_locals s; l_store := x; l_scoped := l_scoped s; l_edges := l_edges s;
     l_attrs := l_attrs s; l_prints := l_prints s; l_params := l_params s; l_prev := l_prev s |}.
Definition wparams (x : list value) (s : lstate) : lstate :=
  {| l_graph := l_graph s; l_locals := l_locals s; l_store := l_store s; l_scoped := l_scoped s; l_edges := l_edges s;
     l_attrs := l_attrs s; l_prints := l_prints s; l_params := x; l_prev := l_prev s |}.

Lemma list_update_app2 {A} (f : A -> A) l r j : list_update (length l + j) f (l ++ r) = l ++ list_update j f r.
Proof. induction l as [|x l IH]; cbn [length app list_update plus]; [reflexivity|]. rewrite IH. reflexivity. Qed.
Lemma list_update_map {A B} (h : A -> B) (f : A -> A) (f' : B -> B) j l : (forall x, h (f x) = f' (h x)) ->
  map h (list_update j f l) = list_update j f' (map h l).
Proof. intros E. revert j; induction l as [|x l IH]; intros [|j]; cbn [list_update map]; try reflexivity; [rewrite E|rewrite IH]; reflexivity. Qed.

Lemma Forall2_impl {A B} (R R' : A -> B -> Prop) l l' : (forall a b, R a b -> R' a b) -> Forall2 R l l' -> Forall2 R' l l'.
Proof. intros H HF. induction HF; constructor; auto. Qed.

Section Shift.
  Variable eaok : amap -> Prop.
  Variable okfn : ident -> Prop.
  Variables n0 gb1 kb1 gb2 kb2 : N.
  Hypothesis Hbase1 : n0 <= gb1.
  Hypothesis Hbase2 : n0 <= gb2.
  Variables (G1 G2 : graph) (S1 S2 : list thunk) (XE1 XE2 XA1 XA2 XP1 XP2 : list lstmt).
  Variables (SC1 SC2 : list (ident * scoped_values)) (PV1 PV2 : list (elem_key * stmt_ctx)) (PA1 PA2 : list value).
  Hypothesis HG1 : N.of_nat (length G1) = gb1.
  Hypothesis HG2 : N.of_nat (length G2) = gb2.
  Hypothesis HS1 : N.of_nat (length S1) = kb1.
  Hypothesis HS2 : N.of_nat (length S2) = kb2.

  Definition sg (i : N) : N := if i <? gb1 then i else i - gb1 + gb2.
  Definition sl (l : N) : N := l - kb1 + kb2.
  Definition Dn (n : N) : N -> Prop := fun i => i < n0 \/ (gb1 <= i /\ i < n).
  Definition Lm (m : N) : N -> Prop := fun l => kb1 <= l /\ l < m.

  Notation vr := (vren sg).
  Notation lr := (lvren sg sl).

  Lemma sg_mono n i j : Dn n i -> Dn n j -> i < j -> sg i < sg j.
  Proof. unfold Dn, sg. intros Hi Hj Hlt. destruct (N.ltb_spec i gb1), (N.ltb_spec j gb1); lia. Qed.
  Lemma sg_cmp n : cmp_pres (Dn n) sg.
  Proof. apply smono_cmp_pres. apply sg_mono. Qed.
  Lemma sg_low i : i < n0 -> sg i = i.
  Proof. unfold sg. intros H. destruct (N.ltb_spec i gb1); [reflexivity|lia]. Qed.
  Lemma Dn_mono n n' i : n <= n' -> Dn n i -> Dn n' i. Proof. unfold Dn. lia. Qed.
  Lemma Lm_mono m m' i : m <= m' -> Lm m i -> Lm m' i. Proof. unfold Lm. lia. Qed.
  Lemma vr_low v : vall (fun i => i < n0) v -> vr v = v.
  Proof. apply vren_fix. intros i Hi. apply sg_low, Hi. Qed.

  (* ---------------- the relation ---------------- *)
  Definition plain (nd : gnode) : Prop := g_edges nd = [] /\ amap_plain (g_attrs nd).
  Definition RG (g1 g2 : graph) : Prop := exists gs, g1 = G1 ++ gs /\ g2 = G2 ++ gs /\ Forall plain gs.
  Definition acyc (n : N) (ts : list thunk) : Prop :=
    forall j th, nth_error ts j = Some th -> thall okfn (Dn n) (Lm (kb1 + N.of_nat j)) th.
  Definition RS (n : N) (st1 st2 : list thunk) : Prop :=
    exists ts, st1 = S1 ++ ts /\ st2 = S2 ++ map (thren sg sl) ts /\ acyc n ts.
  Definition RD (K : lstmt -> Prop) (n m : N) (X1 X2 l1 l2 : list lstmt) : Prop :=
    exists es, l1 = X1 ++ es /\ l2 = X2 ++ map (lsren sg sl) es /\ Forall K es /\ Forall (lsall eaok okfn (Dn n) (Lm m)) es.
  Definition RLoc (n m : N) (a b : varmap lvalue) : Prop := b = llren sg sl a /\ llall okfn (Dn n) (Lm m) a.
  Definition RP (n : N) (a b : list value) : Prop := exists ps, a = PA1 ++ ps /\ b = PA2 ++ map vr ps /\ Forall (vall (Dn n)) ps.
  Definition R (s1 s2 : lstate) : Prop :=
    RG (l_graph s1) (l_graph s2) /\ RS (gn s1) (l_store s1) (l_store s2) /\
    RLoc (gn s1) (sn s1) (l_locals s1) (l_locals s2) /\
    RD is_estmt (gn s1) (sn s1) XE1 XE2 (l_edges s1) (l_edges s2) /\ RD is_astmt (gn s1) (sn s1) XA1 XA2 (l_attrs s1) (l_attrs s2) /\
    RD is_pstmt (gn s1) (sn s1) XP1 XP2 (l_prints s1) (l_prints s2) /\
    RP (gn s1) (l_params s1) (l_params s2) /\
    l_scoped s1 = SC1 /\ l_scoped s2 = SC2 /\ l_prev s1 = PV1 /\ l_prev s2 = PV2.

  Lemma acyc_mono n n' ts : n <= n' -> acyc n ts -> acyc n' ts.
  Proof. intros Hn H j th E. eapply thall_impl; [| |apply (H j th E)]; [intros i; apply Dn_mono, Hn|auto]. Qed.
  Lemma RS_mono n n' a b : n <= n' -> RS n a b -> RS n' a b.
  Proof. intros Hn (ts & H1 & H2 & H3). exists ts. split; [exact H1|]. split; [exact H2|]. eapply acyc_mono; eauto. Qed.
  Lemma RD_mono K n m n' m' X1 X2 a b : n <= n' -> m <= m' -> RD K n m X1 X2 a b -> RD K n' m' X1 X2 a b.
  Proof.
    intros Hn Hm (es & H1 & H2 & H0 & H3). exists es. split; [exact H1|]. split; [exact H2|]. split; [exact H0|].
    eapply lsalls_impl; [| |exact H3]; [intros i; apply Dn_mono, Hn|intros i; apply Lm_mono, Hm].
  Qed.
  Lemma RLoc_mono n m n' m' a b : n <= n' -> m <= m' -> RLoc n m a b -> RLoc n' m' a b.
  Proof. intros Hn Hm [H1 H2]. split; [exact H1|]. eapply llall_impl; [| |exact H2]; [intros i; apply Dn_mono, Hn|intros i; apply Lm_mono, Hm]. Qed.
  Lemma RP_mono n n' a b : n <= n' -> RP n a b -> RP n' a b.
  Proof. intros Hn (ps & H1 & H2 & H3). exists ps. split; [exact H1|]. split; [exact H2|]. eapply valls_impl; [|exact H3]. intros i; apply Dn_mono, Hn. Qed.

  Lemma RG_len g1 g2 : RG g1 g2 -> exists k, N.of_nat (length g1) = gb1 + k /\ N.of_nat (length g2) = gb2 + k.
  Proof. intros (gs & -> & -> & _). exists (N.of_nat (length gs)). rewrite !app_length. lia. Qed.
  Lemma RS_len n a b : RS n a b -> exists k, N.of_nat (length a) = kb1 + k /\ N.of_nat (length b) = kb2 + k.
  Proof. intros (ts & -> & -> & _). exists (N.of_nat (length ts)). rewrite !app_length, map_length. lia. Qed.

  (* ---------------- the two-run judgement ---------------- *)
  Definition bsim {A B} (n m : N) (P : A -> B -> N -> N -> Prop) (c1 : M lstate A) (c2 : M lstate B) : Prop :=
    forall s1 s2 p, R s1 s2 -> n <= gn s1 -> m <= sn s1 ->
      match c1 s1 p with
      | Ok (a, s1', p') => exists b s2', c2 s2 p = Ok (b, s2', p') /\ R s1' s2' /\ l_params s1' = l_params s1 /\
                             gn s1 <= gn s1' /\ sn s1 <= sn s1' /\ P a b (gn s1') (sn s1')
      | Err e => c2 s2 p = Err e
      | Panic x => c2 s2 p = Panic x
      | OutOfFuel => c2 s2 p = OutOfFuel
      end.

  Definition PU {A B} : A -> B -> N -> N -> Prop := fun _ _ _ _ => True.
  Definition PE {A} : A -> A -> N -> N -> Prop := fun a b _ _ => a = b.
  Definition PV : value -> value -> N -> N -> Prop := fun v w n _ => w = vr v /\ vall (Dn n) v.
  Definition PLV : lvalue -> lvalue -> N -> N -> Prop := fun a b n m => b = lr a /\ lvall okfn (Dn n) (Lm m) a.
  Definition PL {A B} (P : A -> B -> N -> N -> Prop) : list A -> list B -> N -> N -> Prop :=
    fun l l' n m => Forall2 (fun a b => P a b n m) l l'.
  Definition pmono {A B} (P : A -> B -> N -> N -> Prop) : Prop :=
    forall a b n m n' m', n <= n' -> m <= m' -> P a b n m -> P a b n' m'.
  Lemma PU_mono A B : pmono (@PU A B). Proof. intros a b n m n' m' _ _ _. exact I. Qed.
  Lemma PE_mono A : pmono (@PE A). Proof. intros a b n m n' m' _ _ H. exact H. Qed.
  Lemma PV_mono : pmono PV.
  Proof. intros a b n m n' m' Hn _ [H1 H2]. split; [exact H1|]. eapply vall_impl; [|exact H2]. intros i; apply Dn_mono, Hn. Qed.
  Lemma PLV_mono : pmono PLV.
  Proof. intros a b n m n' m' Hn Hm [H1 H2]. split; [exact H1|]. eapply lvall_impl; [| |exact H2]; [intros i; apply Dn_mono, Hn|intros i; apply Lm_mono, Hm]. Qed.
  Lemma PL_mono A B (P : A -> B -> N -> N -> Prop) : pmono P -> pmono (PL P).
  Proof. intros HP a b n m n' m' Hn Hm H. unfold PL in *. induction H; constructor; [eapply HP; eauto|assumption]. Qed.

  Lemma bsim_ret A B n m (P : A -> B -> N -> N -> Prop) a b : (forall n1 m1, n <= n1 -> m <= m1 -> P a b n1 m1) -> bsim n m P (ret a) (ret b).
  Proof. intros H s1 s2 p HR Hn Hm. cbn. exists b, s2. split; [reflexivity|]. split; [exact HR|]. split; [reflexivity|]. split; [lia|]. split; [lia|]. apply H; assumption. Qed.
  Lemma bsim_bind A B C D n m (P : A -> B -> N -> N -> Prop) (Q : C -> D -> N -> N -> Prop) c1 c2 (f1 : A -> M lstate C) (f2 : B -> M lstate D) :
    bsim n m P c1 c2 ->
    (forall a b n1 m1, n <= n1 -> m <= m1 -> P a b n1 m1 -> bsim n1 m1 Q (f1 a) (f2 b)) ->
    bsim n m Q (bind c1 f1) (bind c2 f2).
  Proof.
    intros Hc Hf s1 s2 p HR Hn Hm. specialize (Hc s1 s2 p HR Hn Hm). unfold bind.
    destruct (c1 s1 p) as [[[a s1'] p']|e|x|]; [|rewrite Hc; reflexivity..].
    destruct Hc as (b & s2' & E & HR' & Hpa & Hg & Hs & HP). rewrite E.
    specialize (Hf a b (gn s1') (sn s1') ltac:(lia) ltac:(lia) HP s1' s2' p' HR' (N.le_refl _) (N.le_refl _)).
    destruct (f1 a s1' p') as [[[c s1''] p'']|e|x|]; try exact Hf.
    destruct Hf as (d & s2'' & E2 & HR'' & Hpa2 & Hg2 & Hs2 & HQ). exists d, s2''. split; [exact E2|]. split; [exact HR''|]. split; [congruence|]. split; [lia|]. split; [lia|exact HQ].
  Qed.
  Lemma bsim_conseq A B n m (P Q : A -> B -> N -> N -> Prop) c1 c2 :
    (forall a b n1 m1, n <= n1 -> m <= m1 -> P a b n1 m1 -> Q a b n1 m1) -> bsim n m P c1 c2 -> bsim n m Q c1 c2.
  Proof.
    intros HPQ H s1 s2 p HR Hn Hm. specialize (H s1 s2 p HR Hn Hm). destruct (c1 s1 p) as [[[a s1'] p']|e|x|]; try exact H.
    destruct H as (b & s2' & E & HR' & Hpa & Hg & Hs & HP). exists b, s2'. split; [exact E|]. split; [exact HR'|]. split; [exact Hpa|]. split; [exact Hg|]. split; [exact Hs|].
    apply HPQ; [lia|lia|exact HP].
  Qed.
  Lemma bsim_weaken A B n m n' m' (P : A -> B -> N -> N -> Prop) c1 c2 : n <= n' -> m <= m' -> bsim n m P c1 c2 -> bsim n' m' P c1 c2.
  Proof. intros Hn Hm H s1 s2 p HR Hn' Hm'. apply H; [exact HR|lia|lia]. Qed.
  Lemma bsim_seq A B C D n m (P : A -> B -> N -> N -> Prop) (Q : C -> D -> N -> N -> Prop) c1 c2 (k1 : M lstate C) (k2 : M lstate D) :
    bsim n m P c1 c2 -> (forall n1 m1, n <= n1 -> m <= m1 -> bsim n1 m1 Q k1 k2) -> bsim n m Q (c1 ;;; k1) (c2 ;;; k2).
  Proof. intros H1 H2. eapply bsim_bind; [exact H1|]. intros a b n1 m1 Hn Hm _. apply H2; assumption. Qed.

  Lemma bsim_fail A B n m (P : A -> B -> N -> N -> Prop) e : bsim n m P (fail e) (fail e). Proof. intros s1 s2 p _ _ _. reflexivity. Qed.
  Lemma bsim_fail_in A B n m (P : A -> B -> N -> N -> Prop) c e : bsim n m P (@fail_in A c e) (@fail_in B c e). Proof. intros s1 s2 p _ _ _. reflexivity. Qed.
  Lemma bsim_panic A B n m (P : A -> B -> N -> N -> Prop) x : bsim n m P (panic x) (panic x). Proof. intros s1 s2 p _ _ _. reflexivity. Qed.
  Lemma bsim_oof A B n m (P : A -> B -> N -> N -> Prop) : bsim n m P out_of_fuel out_of_fuel. Proof. intros s1 s2 p _ _ _. reflexivity. Qed.
  Lemma bsim_lift2 A B n m (P : A -> B -> N -> N -> Prop) (r1 : res A) (r2 : res B) :
    match r1 with
    | Ok a => exists b, r2 = Ok b /\ forall n1 m1, n <= n1 -> m <= m1 -> P a b n1 m1
    | Err e => r2 = Err e | Panic x => r2 = Panic x | OutOfFuel => r2 = OutOfFuel
    end -> bsim n m P (lift r1) (lift r2).
  Proof.
    intros H s1 s2 p HR Hn Hm. unfold lift. destruct r1 as [a|e|x|]; [|rewrite H; reflexivity..].
    destruct H as (b & -> & H). exists b, s2. split; [reflexivity|]. split; [exact HR|]. split; [reflexivity|]. split; [lia|]. split; [lia|]. apply H; assumption.
  Qed.
  Lemma bsim_lift A n m (r : res A) : bsim n m PE (lift r) (lift r).
  Proof. apply bsim_lift2. destruct r; try reflexivity. eexists. split; [reflexivity|]. intros; reflexivity. Qed.
  Lemma bsim_poll n m l : bsim n m (@PU unit unit) (lpoll l) (lpoll l).
  Proof.
    intros s1 s2 p HR Hn Hm. unfold lpoll, poll. destruct (poll_step l p) as [q c]. destruct c; [reflexivity|].
    exists tt, s2. split; [reflexivity|]. split; [exact HR|]. split; [reflexivity|]. split; [lia|]. split; [lia|exact I].
  Qed.
  Lemma bsim_ctx A B n m (P : A -> B -> N -> N -> Prop) c c1 c2 : bsim n m P c1 c2 -> bsim n m P (ctx_wrap c c1) (ctx_wrap c c2).
  Proof.
    intros H s1 s2 p HR Hn Hm. specialize (H s1 s2 p HR Hn Hm). unfold ctx_wrap.
    destruct (c1 s1 p) as [[[a s1'] p']|e|x|]; [|rewrite H; reflexivity..].
    destruct H as (b & s2' & E & H). rewrite E. exists b, s2'. split; [reflexivity|exact H].
  Qed.
  Lemma bsim_get A B n m (P : A -> B -> N -> N -> Prop) (f1 : lstate -> M lstate A) (f2 : lstate -> M lstate B) :
    (forall s1 s2, R s1 s2 -> n <= gn s1 -> m <= sn s1 -> bsim (gn s1) (sn s1) P (f1 s1) (f2 s2)) ->
    bsim n m P (s <- get_state ;; f1 s) (s <- get_state ;; f2 s).
  Proof. intros H s1 s2 p HR Hn Hm. unfold bind, get_state. apply (H s1 s2 HR Hn Hm s1 s2 p HR (N.le_refl _) (N.le_refl _)). Qed.

  Lemma bsim_mapM A A' B B' n m (P : B -> B' -> N -> N -> Prop) (f1 : A -> M lstate B) (f2 : A' -> M lstate B') (Rel : A -> A' -> N -> N -> Prop) l l' :
    pmono P -> pmono Rel ->
    (forall x y n1 m1, n <= n1 -> m <= m1 -> In x l -> Rel x y n1 m1 -> bsim n1 m1 P (f1 x) (f2 y)) ->
    Forall2 (fun x y => Rel x y n m) l l' ->
    bsim n m (PL P) (mapM f1 l) (mapM f2 l').
  Proof.
    intros HP HRel. revert n m l'. induction l as [|x l IH]; intros n m l' Hf HF; inversion HF as [|? y ? l2 Hxy HF']; subst; cbn [mapM].
    - apply bsim_ret. intros; constructor.
    - eapply bsim_bind; [apply Hf; [apply N.le_refl|apply N.le_refl|left; reflexivity|exact Hxy]|]. intros b b' n1 m1 Hn1 Hm1 Hb.
      eapply bsim_bind.
      + apply IH.
        * intros x0 y0 n2 m2 Hn2 Hm2 Hin. apply Hf; [lia|lia|right; exact Hin].
        * eapply Forall2_impl; [|exact HF']. intros x0 y0. apply HRel; assumption.
      + intros bs bs' n2 m2 Hn2 Hm2 Hbs. apply bsim_ret. intros n3 m3 Hn3 Hm3. constructor; [eapply HP; [| |exact Hb]; lia|].
        eapply (PL_mono _ _ P HP); [| |exact Hbs]; assumption.
  Qed.
  Lemma bsim_iterM A A' n m (f1 : A -> M lstate unit) (f2 : A' -> M lstate unit) (Rel : A -> A' -> N -> N -> Prop) l l' :
    pmono Rel ->
    (forall x y n1 m1, n <= n1 -> m <= m1 -> In x l -> Rel x y n1 m1 -> bsim n1 m1 (@PU unit unit) (f1 x) (f2 y)) ->
    Forall2 (fun x y => Rel x y n m) l l' ->
    bsim n m (@PU unit unit) (iterM f1 l) (iterM f2 l').
  Proof.
    intros HRel. revert n m l'. induction l as [|x l IH]; intros n m l' Hf HF; inversion HF as [|? y ? l2 Hxy HF']; subst; cbn [iterM].
    - apply bsim_ret. intros; exact I.
    - eapply bsim_bind; [apply Hf; [apply N.le_refl|apply N.le_refl|left; reflexivity|exact Hxy]|]. intros b b' n1 m1 Hn1 Hm1 _.
      apply IH.
      + intros x0 y0 n2 m2 Hn2 Hm2 Hin. apply Hf; [lia|lia|right; exact Hin].
      + eapply Forall2_impl; [|exact HF']. intros x0 y0. apply HRel; assumption.
  Qed.
  Lemma Forall2_same {A} (P : A -> A -> Prop) l : (forall x, In x l -> P x x) -> Forall2 P l l.
  Proof. induction l as [|x l IH]; intros H; constructor; [apply H; left; reflexivity|apply IH; intros y Hy; apply H; right; exact Hy]. Qed.
  (* both runs traverse the same list *)
  Lemma bsim_mapM_same A B B' n m (P : B -> B' -> N -> N -> Prop) (f1 : A -> M lstate B) (f2 : A -> M lstate B') l :
    pmono P -> (forall x n1 m1, n <= n1 -> m <= m1 -> In x l -> bsim n1 m1 P (f1 x) (f2 x)) -> bsim n m (PL P) (mapM f1 l) (mapM f2 l).
  Proof.
    intros HP Hf. apply (bsim_mapM _ _ _ _ n m P f1 f2 (fun x y _ _ => x = y)); [exact HP|intros a b n1 m1 n2 m2 _ _ H; exact H| |apply Forall2_same; reflexivity].
    intros x y n1 m1 Hn1 Hm1 Hin <-. apply Hf; assumption.
  Qed.
  Lemma bsim_iterM_same A n m (f1 f2 : A -> M lstate unit) l :
    (forall x n1 m1, n <= n1 -> m <= m1 -> In x l -> bsim n1 m1 (@PU unit unit) (f1 x) (f2 x)) -> bsim n m (@PU unit unit) (iterM f1 l) (iterM f2 l).
  Proof.
    intros Hf. apply (bsim_iterM _ _ n m f1 f2 (fun x y _ _ => x = y)); [intros a b n1 m1 n2 m2 _ _ H; exact H| |apply Forall2_same; reflexivity].
    intros x y n1 m1 Hn1 Hm1 Hin <-. apply Hf; assumption.
  Qed.

  (* ---------------- primitives ---------------- *)
  Lemma R_intro s1 s2 :
    RG (l_graph s1) (l_graph s2) -> RS (gn s1) (l_store s1) (l_store s2) -> RLoc (gn s1) (sn s1) (l_locals s1) (l_locals s2) ->
    RD is_estmt (gn s1) (sn s1) XE1 XE2 (l_edges s1) (l_edges s2) -> RD is_astmt (gn s1) (sn s1) XA1 XA2 (l_attrs s1) (l_attrs s2) ->
    RD is_pstmt (gn s1) (sn s1) XP1 XP2 (l_prints s1) (l_prints s2) -> RP (gn s1) (l_params s1) (l_params s2) ->
    l_scoped s1 = SC1 -> l_scoped s2 = SC2 -> l_prev s1 = PV1 -> l_prev s2 = PV2 -> R s1 s2.
  Proof. intros H1 H2 H3 H4 H5 H6 H7 H8 H9 H10 H11. exact (conj H1 (conj H2 (conj H3 (conj H4 (conj H5 (conj H6 (conj H7 (conj H8 (conj H9 (conj H10 H11)))))))))). Qed.

  Ltac rdes HR := destruct HR as (HG & HS & HL & HE & HA & HP & HPa & Hsc1 & Hsc2 & Hpv1 & Hpv2).
  Ltac fld := cbn [l_graph l_locals l_store l_scoped l_edges l_attrs l_prints l_params l_prev wgraph wlocals wstore wparams] in *.
  Ltac done_post := split; [reflexivity|split; [apply N.le_refl|split; [apply N.le_refl|]]].

  Lemma set_llocals_eq x s p : set_llocals x s p = Ok (tt, wlocals x s, p). Proof. reflexivity. Qed.
  Lemma bsim_set_llocals n m a b : RLoc n m a b -> bsim n m (@PU unit unit) (set_llocals a) (set_llocals b).
  Proof.
    intros Hab s1 s2 p HR Hn Hm. rdes HR. rewrite !set_llocals_eq. exists tt, (wlocals b s2). split; [reflexivity|].
    split; [|done_post; exact I]. apply R_intro; unfold gn, sn in *; fld; try assumption. eapply RLoc_mono; eauto.
  Qed.
  Lemma bsim_lpush_frame n m : bsim n m (@PU unit unit) lpush_frame lpush_frame.
  Proof.
    unfold lpush_frame. apply bsim_get. intros s1 s2 HR _ _. apply bsim_set_llocals. destruct HR as (_ & _ & [HL1 HL2] & _).
    split; [rewrite HL1; reflexivity|]. constructor; [constructor|exact HL2].
  Qed.
  Lemma bsim_lpop_frame n m : bsim n m (@PU unit unit) lpop_frame lpop_frame.
  Proof.
    unfold lpop_frame. apply bsim_get. intros s1 s2 HR _ _. destruct HR as (_ & _ & [HL1 HL2] & _). rewrite HL1.
    destruct (l_locals s1) as [|f up]; cbn [llren map]; [apply bsim_panic|]. apply bsim_set_llocals.
    split; [reflexivity|]. inversion HL2; assumption.
  Qed.
  Lemma bsim_lclear_frame n m : bsim n m (@PU unit unit) lclear_frame lclear_frame.
  Proof.
    unfold lclear_frame. apply bsim_get. intros s1 s2 HR _ _. destruct HR as (_ & _ & [HL1 HL2] & _). rewrite HL1. apply bsim_set_llocals.
    split; [apply varmap_clear_llren|apply llall_clear, HL2].
  Qed.

  (* pushing a deferred statement *)
  Lemma RD_push K n m X1 X2 l1 l2 st : RD K n m X1 X2 l1 l2 -> K st -> lsall eaok okfn (Dn n) (Lm m) st -> RD K n m X1 X2 (l1 ++ [st]) (l2 ++ [lsren sg sl st]).
  Proof.
    intros (es & -> & -> & H0 & H) HK Hst. exists (es ++ [st]). rewrite map_app, !app_assoc. split; [reflexivity|]. split; [reflexivity|].
    split; (apply Forall_app; split; [assumption|]; constructor; [assumption|constructor]).
  Qed.
  Lemma bsim_push_lstmt n m st : lsall eaok okfn (Dn n) (Lm m) st -> bsim n m (@PU unit unit) (push_lstmt st) (push_lstmt (lsren sg sl st)).
  Proof.
    intros Hst s1 s2 p HR Hn Hm. rdes HR. unfold push_lstmt, upd, modify.
    assert (Hst' : lsall eaok okfn (Dn (gn s1)) (Lm (sn s1)) st).
    { eapply lsall_impl; [| |exact Hst]; [intros i; apply Dn_mono, Hn|intros i; apply Lm_mono, Hm]. }
    destruct st; cbn [lsren]; (exists tt; eexists; split; [reflexivity|]; split; [|done_post; exact I]);
      apply R_intro; unfold gn, sn in *; fld; try assumption; apply RD_push; try assumption; exact I.
  Qed.

  (* the graph: only fresh nodes, decorated with id-free debug attributes *)
  Definition PN : N -> N -> N -> N -> Prop := fun a b n _ => b = sg a /\ gb1 <= a /\ a < n.
  Lemma PN_mono : pmono PN. Proof. intros a b n m n' m' Hn _ (H1 & H2 & H3). split; [exact H1|]. lia. Qed.
  Lemma ladd_node_eq s p : ladd_node s p = Ok (N.of_nat (length (l_graph s)), wgraph (l_graph s ++ [new_gnode]) s, p).
  Proof. reflexivity. Qed.
  Lemma bsim_ladd_node n m : bsim n m PN ladd_node ladd_node.
  Proof.
    intros s1 s2 p HR Hn Hm. rdes HR. rewrite !ladd_node_eq. exists (N.of_nat (length (l_graph s2))), (wgraph (l_graph s2 ++ [new_gnode]) s2).
    split; [reflexivity|]. destruct HG as (gs & Eg1 & Eg2 & Hpl).
    assert (Hgrow : gn s1 <= gn (wgraph (l_graph s1 ++ [new_gnode]) s1)) by (unfold gn; fld; rewrite app_length; lia).
    split; [|split; [reflexivity|split; [exact Hgrow|split; [apply N.le_refl|]]]].
    - apply R_intro; fld; try assumption.
      + exists (gs ++ [new_gnode]). rewrite Eg1, Eg2, <- !app_assoc. split; [reflexivity|]. split; [reflexivity|].
        apply Forall_app. split; [exact Hpl|]. constructor; [|constructor]. split; [reflexivity|constructor].
      + eapply RS_mono; eauto.
      + eapply RLoc_mono; [exact Hgrow|apply N.le_refl|exact HL].
      + eapply RD_mono; [exact Hgrow|apply N.le_refl|exact HE].
      + eapply RD_mono; [exact Hgrow|apply N.le_refl|exact HA].
      + eapply RD_mono; [exact Hgrow|apply N.le_refl|exact HP].
      + eapply RP_mono; eauto.
    - unfold PN, gn, sg. fld. rewrite Eg1, Eg2, !app_length. cbn [length].
      destruct (N.ltb_spec (N.of_nat (length G1 + length gs)) gb1); lia.
  Qed.

  Lemma nth_suffix {A} (X : list A) xs gb a : N.of_nat (length X) = gb -> gb <= a -> nth_error (X ++ xs) (N.to_nat a) = nth_error xs (N.to_nat (a - gb)).
  Proof. intros HX Ha. rewrite nth_error_app2 by lia. f_equal. lia. Qed.
  Lemma update_suffix {A} (X : list A) xs gb a f : N.of_nat (length X) = gb -> gb <= a -> list_update (N.to_nat a) f (X ++ xs) = X ++ list_update (N.to_nat (a - gb)) f xs.
  Proof. intros HX Ha. replace (N.to_nat a) with (length X + N.to_nat (a - gb))%nat by lia. apply list_update_app2. Qed.
  Lemma sg_hi a : gb1 <= a -> sg a = a - gb1 + gb2 /\ gb2 <= sg a /\ sg a - gb2 = a - gb1.
  Proof. intros H. unfold sg. destruct (N.ltb_spec a gb1); lia. Qed.

  Lemma attrs_add_plain m k v : amap_plain m -> vall noid v -> amap_plain (fst (attrs_add m k v)).
  Proof.
    intros Hm Hv. unfold attrs_add. destruct (alist_get k m) as [old|].
    - destruct (value_eqb old v); cbn [fst]; [exact Hm|]. clear -Hm Hv. induction m as [|[k0 v0] m IH]; cbn [alist_set]; [constructor; [exact Hv|constructor]|].
      inversion Hm; subst. destruct (str_eqb k k0); constructor; cbn [snd]; auto. apply IH. assumption.
    - cbn [fst]. apply Forall_app. split; [exact Hm|]. constructor; [exact Hv|constructor].
  Qed.

  Lemma bsim_ladd_node_attr n m a k v : gb1 <= a -> a < n -> vall noid v -> bsim n m (@PU unit unit) (ladd_node_attr a k v) (ladd_node_attr (sg a) k v).
  Proof.
    intros Ha1 Ha2 Hv s1 s2 p HR Hn Hm. rdes HR. unfold ladd_node_attr, bind, get_state. destruct HG as (gs & Eg1 & Eg2 & Hpl).
    destruct (sg_hi a Ha1) as (_ & Hs1 & Hs2). unfold gnode_at. rewrite Eg1, Eg2.
    rewrite (nth_suffix G1 gs gb1 a HG1 Ha1), (nth_suffix G2 gs gb2 (sg a) HG2 Hs1), Hs2.
    destruct (nth_error gs (N.to_nat (a - gb1))) as [nd|] eqn:End; [|reflexivity].
    destruct (attrs_add (g_attrs nd) k v) as [m' c] eqn:Eadd. destruct c; [reflexivity|].
    unfold set_lgraph, upd, modify, graph_update. rewrite <- Eg1, <- Eg2. exists tt. eexists. split; [reflexivity|].
    assert (Hlen : gn (wgraph (list_update (N.to_nat a) (with_attrs m') (l_graph s1)) s1) = gn s1) by (unfold gn; fld; rewrite list_update_length; reflexivity).
    split; [|split; [reflexivity|split; [rewrite <- Hlen; apply N.le_refl|split; [apply N.le_refl|exact I]]]].
    apply R_intro; fold (wgraph (list_update (N.to_nat a) (with_attrs m') (l_graph s1)) s1); rewrite ?Hlen; fld; try assumption.
    exists (list_update (N.to_nat (a - gb1)) (with_attrs m') gs). rewrite Eg1, Eg2.
    rewrite (update_suffix G1 gs gb1 a _ HG1 Ha1), (update_suffix G2 gs gb2 (sg a) _ HG2 Hs1), Hs2. split; [reflexivity|]. split; [reflexivity|].
    apply list_update_Forall; [exact Hpl|]. intros x [Hx1 Hx2]. split; [exact Hx1|]. cbn [with_attrs g_attrs].
    assert (Hnd : plain nd) by (rewrite Forall_forall in Hpl; apply Hpl; eapply nth_error_In; eauto).
    pose proof (attrs_add_plain (g_attrs nd) k v (proj2 Hnd) Hv) as Hp. rewrite Eadd in Hp. exact Hp.
  Qed.
  Lemma bsim_lopt_node_attr n m a o v : gb1 <= a -> a < n -> vall noid v -> bsim n m (@PU unit unit) (lopt_node_attr a o v) (lopt_node_attr (sg a) o v).
  Proof. intros. destruct o; cbn [lopt_node_attr]; [apply bsim_ladd_node_attr; assumption|apply bsim_ret; intros; exact I]. Qed.
  Lemma bsim_lfull_match_node n m le : bsim n m (@PE N) (lfull_match_node le) (lfull_match_node le).
  Proof. unfold lfull_match_node. destruct (nodes_for_capture (ll_match le) (ll_full le)); [apply bsim_panic|apply bsim_ret; intros; reflexivity]. Qed.

  (* the thunk store *)
  Lemma store_add_eq lv dbg s p :
    store_add lv dbg s p = Ok (LVar (N.of_nat (length (l_store s))), wstore (l_store s ++ [{| th_state := TUnforced lv; th_dbg := dbg |}]) s, p).
  Proof. reflexivity. Qed.
  Lemma bsim_store_add n m lv dbg : lvall okfn (Dn n) (Lm m) lv -> bsim n m PLV (store_add lv dbg) (store_add (lr lv) dbg).
  Proof.
    intros Hlv s1 s2 p HR Hn Hm. rdes HR. rewrite !store_add_eq. eexists. eexists. split; [reflexivity|]. destruct HS as (ts & Es1 & Es2 & Hac).
    assert (Hlv' : lvall okfn (Dn (gn s1)) (Lm (sn s1)) lv).
    { eapply lvall_impl; [| |exact Hlv]; [intros i; apply Dn_mono, Hn|intros i; apply Lm_mono, Hm]. }
    assert (Hsn : sn s1 = kb1 + N.of_nat (length ts)) by (unfold sn; rewrite Es1, app_length; lia).
    set (s1' := wstore (l_store s1 ++ [{| th_state := TUnforced lv; th_dbg := dbg |}]) s1).
    assert (Hgrow : sn s1 <= sn s1') by (unfold sn, s1'; fld; rewrite app_length; lia).
    assert (Hgn : gn s1' = gn s1) by reflexivity.
    split; [|split; [reflexivity|split; [rewrite Hgn; apply N.le_refl|split; [exact Hgrow|]]]].
    - apply R_intro; rewrite ?Hgn; unfold s1'; fld; try assumption.
      + exists (ts ++ [{| th_state := TUnforced lv; th_dbg := dbg |}]). rewrite Es1, Es2, map_app, <- !app_assoc. split; [reflexivity|]. split; [reflexivity|].
        intros j th Hj. destruct (Nat.lt_ge_cases j (length ts)) as [Hlt|Hge].
        * rewrite nth_error_app1 in Hj by exact Hlt. apply (Hac j th Hj).
        * rewrite nth_error_app2 in Hj by exact Hge. destruct (j - length ts)%nat as [|k] eqn:Ek; cbn in Hj; [|destruct k; discriminate].
          inversion Hj; subst th. unfold thall, tsall; cbn [th_state]. replace (kb1 + N.of_nat j) with (sn s1) by lia. exact Hlv'.
      + eapply RLoc_mono; [apply N.le_refl|exact Hgrow|exact HL].
      + eapply RD_mono; [apply N.le_refl|exact Hgrow|exact HE].
      + eapply RD_mono; [apply N.le_refl|exact Hgrow|exact HA].
      + eapply RD_mono; [apply N.le_refl|exact Hgrow|exact HP].
    - unfold PLV. cbn [lvren lvall]. split.
      + f_equal. unfold sl. rewrite Es1, Es2, !app_length, map_length. lia.
      + unfold Lm, sn, s1'. fld. rewrite Es1, !app_length. cbn [length]. lia.
  Qed.

  Lemma bsim_store_set_state n m loc st : Lm m loc -> tsall okfn (Dn n) (Lm loc) st ->
    bsim n m (@PU unit unit) (store_set_state loc st) (store_set_state (sl loc) (tsren sg sl st)).
  Proof.
    intros [Hl1 Hl2] Hst s1 s2 p HR Hn Hm. rdes HR. unfold store_set_state, bind, get_state, set_lstore, upd, modify.
    exists tt. eexists. split; [reflexivity|]. destruct HS as (ts & Es1 & Es2 & Hac).
    set (f1 := fun th : thunk => {| th_state := st; th_dbg := th_dbg th |}).
    set (f2 := fun th : thunk => {| th_state := tsren sg sl st; th_dbg := th_dbg th |}).
    fold (wstore (list_update (N.to_nat loc) f1 (l_store s1)) s1). fold (wstore (list_update (N.to_nat (sl loc)) f2 (l_store s2)) s2).
    set (s1' := wstore (list_update (N.to_nat loc) f1 (l_store s1)) s1).
    assert (Hsn : sn s1' = sn s1) by (unfold sn, s1'; fld; rewrite list_update_length; reflexivity).
    assert (Hgn : gn s1' = gn s1) by reflexivity.
    split; [|split; [reflexivity|split; [rewrite Hgn; apply N.le_refl|split; [rewrite Hsn; apply N.le_refl|exact I]]]].
    apply R_intro; rewrite ?Hgn, ?Hsn; unfold s1'; fld; try assumption.
    exists (list_update (N.to_nat (loc - kb1)) f1 ts). rewrite Es1, Es2.
    assert (Hsl : kb2 <= sl loc /\ sl loc - kb2 = loc - kb1) by (unfold sl; lia). destruct Hsl as [Hsl1 Hsl2].
    rewrite (update_suffix S1 ts kb1 loc _ HS1 Hl1), (update_suffix S2 _ kb2 (sl loc) _ HS2 Hsl1), Hsl2. split; [reflexivity|]. split.
    - f_equal. symmetry. apply list_update_map. intros th. reflexivity.
    - intros j th Hj. rewrite nth_error_list_update in Hj. destruct (Nat.eqb_spec j (N.to_nat (loc - kb1))) as [->|Hne]; [|apply (Hac j th Hj)].
      destruct (nth_error ts (N.to_nat (loc - kb1))) as [th0|]; [|discriminate]. cbn in Hj. inversion Hj; subst th. unfold thall, f1; cbn [th_state].
      replace (kb1 + N.of_nat (N.to_nat (loc - kb1))) with loc by lia.
      destruct st; cbn [tsall] in *; auto; [eapply lvall_impl; [| |exact Hst]; [intros i; apply Dn_mono, Hn|auto]|eapply vall_impl; [|exact Hst]; intros i; apply Dn_mono, Hn].
  Qed.

  (* the parameter buffer *)
  Definition PVS : list value -> list value -> N -> N -> Prop := fun a b n _ => b = map vr a /\ Forall (vall (Dn n)) a.
  Lemma PVS_mono : pmono PVS.
  Proof. intros a b n m n' m' Hn _ [H1 H2]. split; [exact H1|]. eapply valls_impl; [|exact H2]. intros i; apply Dn_mono, Hn. Qed.
  Lemma PL_PV vs vs' n m : PL PV vs vs' n m -> PVS vs vs' n m.
  Proof. unfold PL, PVS. induction 1 as [|v w vs vs' [H1 H2] _ [IH1 IH2]]; [split; [reflexivity|constructor]|]. subst. split; [reflexivity|constructor; assumption]. Qed.

  (* ---------------- the interpreter ---------------- *)
  Section Interp.
    Context {rx : Type}.
    Variables (t : tree) (fl : file) (cfg : config) (glob : globals) (regexes : list rx)
              (find : rx -> str -> option (list (option (N * N))))
              (call : ident -> graph -> list value -> res (value * graph)).
    Hypothesis Hcall : forall f, okfn f -> call_ok call f.
    (* graph nodes reachable through global variables are shared nodes *)
    Hypothesis Hglob : forall name v, globals_get glob name = Some v -> vall (fun i => i < n0) v.
    (* the attributes an `edge` statement computes at execution time (the debug location attribute) are acceptable *)
    Hypothesis Hea : forall l : loc, eaok (match c_loc_attr cfg with Some k => [(k, VStr (loc_text l))] | None => [] end).

    Lemma Dn_low n i : i < n0 -> Dn n i. Proof. unfold Dn. lia. Qed.

    Lemma bsim_lcall n m f ps : okfn f -> Forall (vall (Dn n)) ps -> bsim n m PV (lcall_function call f ps) (lcall_function call f (map vr ps)).
    Proof.
      intros Hf Hps s1 s2 p HR Hn Hm. unfold lcall_function, bind, get_state.
      assert (Hps' : Forall (vall (Dn (gn s1))) ps) by (eapply valls_impl; [|exact Hps]; intros i; apply Dn_mono, Hn).
      pose proof (Hcall f Hf (Dn (gn s1)) sg (l_graph s1) (l_graph s2) ps Hps' (sg_mono (gn s1))) as Hc.
      destruct (call f (l_graph s1) ps) as [[v g1]|e|x|]; [|rewrite Hc; reflexivity..].
      destruct Hc as (-> & Hv & E). rewrite E. unfold set_lgraph, upd, modify, ret. eexists. eexists. split; [reflexivity|].
      fold (wgraph (l_graph s1) s1). split; [|done_post; split; [reflexivity|exact Hv]].
      destruct HR as (HG & HS & HL & HE & HA & HP & HPa & Hsc1 & Hsc2 & Hpv1 & Hpv2). apply R_intro; unfold gn, sn in *; fld; assumption.
    Qed.

    Notation eval_lv' := (eval_lv t fl call).
    Notation force_thunk' := (force_thunk t fl call).

    Lemma Forall_PLV n m l : Forall (lvall okfn (Dn n) (Lm m)) l -> Forall2 (fun x y => PLV x y n m) l (map lr l).
    Proof. induction 1; constructor; [split; [reflexivity|assumption]|assumption]. Qed.
    Lemma Forall_PV n m l : Forall (vall (Dn n)) l -> Forall2 (fun x y => PV x y n m) l (map vr l).
    Proof. induction 1; constructor; [split; [reflexivity|assumption]|assumption]. Qed.
    Lemma lvalls_mono n m n' m' l : n <= n' -> m <= m' -> Forall (lvall okfn (Dn n) (Lm m)) l -> Forall (lvall okfn (Dn n') (Lm m')) l.
    Proof. intros Hn Hm. apply lvalls_impl; [intros i; apply Dn_mono, Hn|intros i; apply Lm_mono, Hm]. Qed.
    Lemma lvall_mono n m n' m' lv : n <= n' -> m <= m' -> lvall okfn (Dn n) (Lm m) lv -> lvall okfn (Dn n') (Lm m') lv.
    Proof. intros Hn Hm. apply lvall_impl; [intros i; apply Dn_mono, Hn|intros i; apply Lm_mono, Hm]. Qed.
    Lemma vall_mono n n' v : n <= n' -> vall (Dn n) v -> vall (Dn n') v.
    Proof. intros Hn. apply vall_impl. intros i; apply Dn_mono, Hn. Qed.
    Lemma valls_mono n n' l : n <= n' -> Forall (vall (Dn n)) l -> Forall (vall (Dn n')) l.
    Proof. intros Hn. apply valls_impl. intros i; apply Dn_mono, Hn. Qed.


    (* the parameter buffer: the argument loop of a call pushes one value per argument, the call drains them *)
    Lemma lpush_param_eq v s p : lpush_param v s p = Ok (tt, wparams (l_params s ++ [v]) s, p). Proof. reflexivity. Qed.
    Lemma ldrain_eq base vs k s p : l_params s = base ++ vs -> length vs = k -> ldrain_params k s p = Ok (vs, wparams base s, p).
    Proof.
      intros E Hk. unfold ldrain_params, bind, get_state. rewrite E, app_length, Hk.
      destruct (Nat.ltb_spec (length base + k) k) as [Hlt|_]; [exfalso; lia|].
      replace (length base + k - k)%nat with (length base) by lia.
      rewrite firstn_app, firstn_all, Nat.sub_diag, firstn_O, app_nil_r, skipn_app, skipn_all, Nat.sub_diag, skipn_O. reflexivity.
    Qed.
    Lemma R_push_param s1 s2 v : R s1 s2 -> vall (Dn (gn s1)) v -> R (wparams (l_params s1 ++ [v]) s1) (wparams (l_params s2 ++ [vr v]) s2).
    Proof.
      intros (HG & HS & HL & HE & HA & HP & HPa & Hsc1 & Hsc2 & Hpv1 & Hpv2) Hv. apply R_intro; unfold gn, sn in *; fld; try assumption.
      destruct HPa as (ps & H1 & H2 & H3). exists (ps ++ [v]). rewrite H1, H2, map_app, <- !app_assoc. split; [reflexivity|]. split; [reflexivity|].
      apply Forall_app. split; [exact H3|]. constructor; [exact Hv|constructor].
    Qed.
    Lemma push_args_sim (ev1 ev2 : lvalue -> M lstate value) : forall args n m,
      (forall x n1 m1, n <= n1 -> m <= m1 -> In x args -> lvall okfn (Dn n1) (Lm m1) x -> bsim n1 m1 PV (ev1 x) (ev2 (lr x))) ->
      Forall (lvall okfn (Dn n) (Lm m)) args ->
      forall s1 s2 p, R s1 s2 -> n <= gn s1 -> m <= sn s1 ->
        match iterM (fun a => v <- ev1 a ;; lpush_param v) args s1 p with
        | Ok (_, s1', p') => exists s2' vs, iterM (fun a => v <- ev2 a ;; lpush_param v) (map lr args) s2 p = Ok (tt, s2', p') /\ R s1' s2' /\
                               l_params s1' = l_params s1 ++ vs /\ l_params s2' = l_params s2 ++ map vr vs /\ length vs = length args /\
                               Forall (vall (Dn (gn s1'))) vs /\ gn s1 <= gn s1' /\ sn s1 <= sn s1'
        | Err e => iterM (fun a => v <- ev2 a ;; lpush_param v) (map lr args) s2 p = Err e
        | Panic x => iterM (fun a => v <- ev2 a ;; lpush_param v) (map lr args) s2 p = Panic x
        | OutOfFuel => iterM (fun a => v <- ev2 a ;; lpush_param v) (map lr args) s2 p = OutOfFuel
        end.
    Proof.
      induction args as [|x args IH]; intros n m Hev Hargs s1 s2 p HR Hn Hm; cbn [iterM map].
      - exists s2, []. cbn [map length]. rewrite !app_nil_r. split; [reflexivity|]. split; [exact HR|]. repeat split; try reflexivity; try apply N.le_refl. constructor.
      - inversion Hargs as [|? ? Hx Hrest]; subst.
        set (F1 := fun a => v <- ev1 a ;; lpush_param v) in *. set (F2 := fun a => v <- ev2 a ;; lpush_param v) in *.
        unfold bind.
        pose proof (Hev x n m (N.le_refl _) (N.le_refl _) (or_introl eq_refl) Hx s1 s2 p HR Hn Hm) as Hb.
        destruct (ev1 x s1 p) as [[[v s1a] pa]|e|y|]; [|rewrite Hb; reflexivity..].
        destruct Hb as (v' & s2a & E2 & HRa & Hpa & Hga & Hsa & [-> Hv]). rewrite E2, !lpush_param_eq.
        assert (Hpa2 : l_params s2a = l_params s2).
        { destruct HR as (_ & _ & _ & _ & _ & _ & (ps & A1 & A2 & _) & _). destruct HRa as (_ & _ & _ & _ & _ & _ & (ps' & B1 & B2 & _) & _).
          rewrite Hpa, A1 in B1. apply app_inv_head in B1. subst ps'. congruence. }
        specialize (IH (gn s1a) (sn s1a)
                      (fun x0 n1 m1 H1 H2 Hin => Hev x0 n1 m1 ltac:(lia) ltac:(lia) (or_intror Hin))
                      ltac:(eapply lvalls_impl; [| |exact Hrest]; [intros i; apply Dn_mono; lia|intros i; apply Lm_mono; lia])
                      (wparams (l_params s1a ++ [v]) s1a) (wparams (l_params s2a ++ [vr v]) s2a) pa (R_push_param s1a s2a v HRa Hv) (N.le_refl _) (N.le_refl _)).
        destruct (iterM F1 args (wparams (l_params s1a ++ [v]) s1a) pa) as [[[u s1b] pb]|e|y|]; try exact IH.
        destruct IH as (s2b & vs & E3 & HRb & Hp1 & Hp2 & Hlen & Hvs & Hgb & Hsb). cbv beta iota. exists s2b, (v :: vs). split; [exact E3|]. split; [exact HRb|].
        cbn [l_params wparams] in Hp1, Hp2. split; [rewrite Hp1, Hpa, <- app_assoc; reflexivity|]. split; [rewrite Hp2, Hpa2, <- app_assoc; reflexivity|].
        split; [cbn [length]; congruence|]. split; [constructor; [eapply vall_impl; [|exact Hv]; intros i; apply Dn_mono; exact Hgb|exact Hvs]|].
        change (gn (wparams (l_params s1a ++ [v]) s1a)) with (gn s1a) in Hgb. change (sn (wparams (l_params s1a ++ [v]) s1a)) with (sn s1a) in Hsb. split; lia.
    Qed.
    Lemma R_restore_params s1 s2 s1' s2' vs : R s1 s2 -> R s1' s2' -> l_params s1' = l_params s1 ++ vs -> l_params s2' = l_params s2 ++ map vr vs ->
      R (wparams (l_params s1) s1') (wparams (l_params s2) s2').
    Proof.
      intros (_ & _ & _ & _ & _ & _ & (ps & A1 & A2 & _) & _) (HG & HS & HL & HE & HA & HP & (ps' & B1 & B2 & B3) & Hsc1 & Hsc2 & Hpv1 & Hpv2) E1 E2'.
      apply R_intro; unfold gn, sn in *; fld; try assumption. exists ps. split; [exact A1|]. split; [exact A2|].
      rewrite E1, A1, <- app_assoc in B1. apply app_inv_head in B1. subst ps'. apply Forall_app in B3. apply B3.
    Qed.

    Lemma bsim_eval_all : forall fuel,
      (forall lv n m, lvall okfn (Dn n) (Lm m) lv -> bsim n m PV (eval_lv' fuel lv) (eval_lv' fuel (lr lv))) /\
      (forall loc n m, Lm m loc -> bsim n m PV (force_thunk' fuel loc) (force_thunk' fuel (sl loc))).
    Proof.
      induction fuel as [|fuel [IHe IHt]]; [split; intros; apply bsim_oof|]. split.
      - intros lv n m Hlv. destruct lv as [v|es|es|loc|sc name|f args]; cbn [eval_lv lvren]; (eapply bsim_seq; [apply bsim_poll|intros n1 m1 Hn1 Hm1]).
        + apply bsim_ret. intros n2 m2 Hn2 Hm2. split; [reflexivity|]. cbn [lvall] in Hlv. eapply vall_mono; [|exact Hlv]. lia.
        + rewrite lvall_list in Hlv. eapply bsim_bind.
          * apply (bsim_mapM _ _ _ _ n1 m1 PV _ _ PLV es (map lr es) PV_mono PLV_mono).
            -- intros x y n2 m2 _ _ _ [-> Hx]. apply IHe, Hx.
            -- apply Forall_PLV. eapply lvalls_mono; [| |exact Hlv]; assumption.
          * intros vs vs' n2 m2 _ _ Hvs. apply PL_PV in Hvs. destruct Hvs as [-> Hall]. apply bsim_ret. intros n3 m3 Hn3 _. split; [reflexivity|].
            rewrite vall_list. eapply valls_mono; [|exact Hall]. exact Hn3.
        + rewrite lvall_set in Hlv. eapply bsim_bind.
          * apply (bsim_mapM _ _ _ _ n1 m1 PV _ _ PLV es (map lr es) PV_mono PLV_mono).
            -- intros x y n2 m2 _ _ _ [-> Hx]. apply IHe, Hx.
            -- apply Forall_PLV. eapply lvalls_mono; [| |exact Hlv]; assumption.
          * intros vs vs' n2 m2 _ _ Hvs. apply PL_PV in Hvs. destruct Hvs as [-> Hall]. apply bsim_ret. intros n3 m3 Hn3 _. split.
            -- cbn [vren]. f_equal. apply (set_of_list_vren (Dn n2) sg vs (sg_cmp n2) Hall).
            -- rewrite vall_set. apply set_of_list_all. eapply valls_mono; [|exact Hall]. exact Hn3.
        + cbn [lvall] in Hlv. apply IHt. eapply Lm_mono; [|exact Hlv]. exact Hm1.
        + cbn [lvall] in Hlv. contradiction.
        + rewrite lvall_call in Hlv. destruct Hlv as [Hf Hargs]. rewrite map_length. intros s1 s2 p HR Hn Hm.
          pose proof (push_args_sim (eval_lv' fuel) (eval_lv' fuel) args n1 m1 (fun x n2 m2 _ _ _ Hx => IHe x n2 m2 Hx)
                        ltac:(eapply lvalls_mono; [| |exact Hargs]; assumption) s1 s2 p HR Hn Hm) as Hloop.
          set (F := fun a => v <- eval_lv' fuel a ;; lpush_param v) in *. unfold bind.
          destruct (iterM F args s1 p) as [[[u s1'] p']|e|y|]; [|rewrite Hloop; reflexivity..].
          destruct Hloop as (s2' & vs & E2 & HR' & Hp1 & Hp2 & Hlen & Hvs & Hg' & Hs'). rewrite E2.
          rewrite (ldrain_eq (l_params s1) vs (length args) s1' p' Hp1 Hlen), (ldrain_eq (l_params s2) (map vr vs) (length args) s2' p' Hp2 ltac:(rewrite map_length; exact Hlen)).
          pose proof (bsim_lcall (gn s1') (sn s1') f vs Hf Hvs (wparams (l_params s1) s1') (wparams (l_params s2) s2') p'
                        (R_restore_params s1 s2 s1' s2' vs HR HR' Hp1 Hp2) (N.le_refl _) (N.le_refl _)) as Hc.
          destruct (lcall_function call f vs (wparams (l_params s1) s1') p') as [[[v s1''] p'']|e|y|]; try exact Hc.
          destruct Hc as (v' & s2'' & E3 & HR'' & Hpa & Hg'' & Hs'' & HPV). exists v', s2''. split; [exact E3|]. split; [exact HR''|]. split; [exact Hpa|].
          change (gn (wparams (l_params s1) s1')) with (gn s1') in Hg''. change (sn (wparams (l_params s1) s1')) with (sn s1') in Hs''. split; [lia|]. split; [lia|exact HPV].
      - intros loc n m [Hl1 Hl2]. cbn [force_thunk]. apply bsim_get. intros s1 s2 HR Hn Hm.
        destruct HR as (_ & (ts & Es1 & Es2 & Hac) & _). rewrite Es1, Es2.
        assert (Hsl : kb2 <= sl loc /\ sl loc - kb2 = loc - kb1) by (unfold sl; lia). destruct Hsl as [Hsl1 Hsl2].
        rewrite (nth_suffix S1 ts kb1 loc HS1 Hl1), (nth_suffix S2 _ kb2 (sl loc) HS2 Hsl1), Hsl2, nth_error_map.
        destruct (nth_error ts (N.to_nat (loc - kb1))) as [th|] eqn:Eth; cbn [option_map]; [|apply bsim_panic].
        cbn [thren th_dbg th_state]. apply bsim_ctx. pose proof (Hac _ _ Eth) as Hth. unfold thall in Hth.
        replace (kb1 + N.of_nat (N.to_nat (loc - kb1))) with loc in Hth by lia.
        assert (Hlt : loc < sn s1).
        { unfold sn. rewrite Es1, app_length. assert (N.to_nat (loc - kb1) < length ts)%nat by (apply nth_error_Some; congruence). lia. }
        destruct (th_state th) as [inner| |v]; cbn [tsren tsall] in *.
        + eapply bsim_seq; [apply bsim_store_set_state; [split; [exact Hl1|exact Hlt]|exact I]|]. intros n1 m1 Hn1 Hm1.
          eapply bsim_bind; [apply IHe; eapply lvall_impl; [| |exact Hth]; [intros i; apply Dn_mono, Hn1|intros i; unfold Lm; lia]|].
          intros v v' n2 m2 Hn2 Hm2 [-> Hv]. eapply bsim_seq; [apply bsim_store_set_state; [split; lia|exact Hv]|]. intros n3 m3 Hn3 _.
          apply bsim_ret. intros n4 m4 Hn4 _. split; [reflexivity|]. eapply vall_mono; [|exact Hv]. lia.
        + apply bsim_fail.
        + apply bsim_ret. intros n1 m1 Hn1 _. split; [reflexivity|]. eapply vall_mono; [|exact Hth]. exact Hn1.
    Qed.
    Lemma bsim_eval_lv fuel lv n m : lvall okfn (Dn n) (Lm m) lv -> bsim n m PV (eval_lv' fuel lv) (eval_lv' fuel (lr lv)).
    Proof. apply bsim_eval_all. Qed.

    (* ---- variables ---- *)
    Lemma bsim_lunscoped_get n m name : bsim n m PLV (lunscoped_get glob name) (lunscoped_get glob name).
    Proof.
      unfold lunscoped_get. destruct (globals_get glob name) as [v|] eqn:Eg.
      - apply bsim_ret. intros n1 m1 _ _. pose proof (Hglob _ _ Eg) as Hv. split; [cbn [lvren]; rewrite (vr_low v Hv); reflexivity|].
        cbn [lvall]. eapply vall_impl; [|exact Hv]. intros i. apply Dn_low.
      - apply bsim_get. intros s1 s2 HR _ _. destruct HR as (_ & _ & [HL1 HL2] & _). rewrite HL1, varmap_get_llren.
        destruct (varmap_get (l_locals s1) name) as [lv|] eqn:El; cbn [option_map]; [|apply bsim_fail].
        apply bsim_ret. intros n1 m1 Hn1 Hm1. split; [reflexivity|]. eapply lvall_mono; [exact Hn1|exact Hm1|]. eapply llall_get; eauto.
    Qed.
    Lemma bsim_lunscoped_add n m le name v mu : lvall okfn (Dn n) (Lm m) v ->
      bsim n m (@PU unit unit) (lunscoped_add glob le name v mu) (lunscoped_add glob le name (lr v) mu).
    Proof.
      intros Hv. unfold lunscoped_add. destruct (globals_get glob name); [apply bsim_fail|].
      eapply bsim_bind; [apply bsim_store_add, Hv|]. intros var var' n1 m1 _ _ [-> Hvar].
      apply bsim_get. intros s1 s2 HR Hn Hm. destruct HR as (_ & _ & [HL1 HL2] & _). rewrite HL1, varmap_add_llren.
      destruct (varmap_add (l_locals s1) name var mu) as [l'|e] eqn:Ea; [|apply bsim_fail].
      apply bsim_set_llocals. split; [reflexivity|]. eapply llall_add; [exact HL2| |exact Ea]. eapply lvall_mono; [exact Hn|exact Hm|exact Hvar].
    Qed.
    Lemma bsim_lunscoped_set n m le name v : lvall okfn (Dn n) (Lm m) v ->
      bsim n m (@PU unit unit) (lunscoped_set glob le name v) (lunscoped_set glob le name (lr v)).
    Proof.
      intros Hv. unfold lunscoped_set. destruct (globals_get glob name); [apply bsim_fail|].
      eapply bsim_bind; [apply bsim_store_add, Hv|]. intros var var' n1 m1 _ _ [-> Hvar].
      apply bsim_get. intros s1 s2 HR Hn Hm. destruct HR as (_ & _ & [HL1 HL2] & _). rewrite HL1, varmap_set_llren, varmap_get_llren.
      destruct (varmap_set (l_locals s1) name var) as [l'|e] eqn:Ea.
      - apply bsim_set_llocals. split; [reflexivity|]. eapply llall_set; [exact HL2| |exact Ea]. eapply lvall_mono; [exact Hn|exact Hm|exact Hvar].
      - destruct (varmap_get (l_locals s1) name); cbn [option_map]; apply bsim_fail.
    Qed.

    (* ---- expressions ---- *)
    Variable qm : qmatch.
    Notation fexpr' := (fexpr okfn qm).
    Notation leval' := (leval t fl glob call).

    Lemma PL_PLV vs vs' n m : PL PLV vs vs' n m -> vs' = map lr vs /\ Forall (lvall okfn (Dn n) (Lm m)) vs.
    Proof. unfold PL. induction 1 as [|v w vs vs' [H1 H2] _ [IH1 IH2]]; [split; [reflexivity|constructor]|]. subst. split; [reflexivity|constructor; assumption]. Qed.
    Lemma from_nodes_noid ns q v : from_nodes ns q = Ok v -> vall noid v.
    Proof.
      destruct q; cbn [from_nodes]; try discriminate.
      - destruct ns; [discriminate|]. intros [= <-]. exact I.
      - destruct ns; intros [= <-]; exact I.
      - intros [= <-]. rewrite vall_list. apply Forall_forall. intros x Hx. apply in_map_iff in Hx as (k & <- & _). exact I.
      - intros [= <-]. rewrite vall_list. apply Forall_forall. intros x Hx. apply in_map_iff in Hx as (k & <- & _). exact I.
    Qed.
    Lemma as_list_vr v : as_list (vr v) = match as_list v with Ok l => Ok (map vr l) | Err e => Err e | Panic x => Panic x | OutOfFuel => OutOfFuel end.
    Proof. destruct v; reflexivity. Qed.
    Lemma bsim_as_list n m v : vall (Dn n) v -> bsim n m PVS (lift (as_list v)) (lift (as_list (vr v))).
    Proof.
      intros Hv. apply bsim_lift2. rewrite as_list_vr. destruct v; cbn [as_list]; try reflexivity.
      eexists. split; [reflexivity|]. intros n1 m1 Hn1 _. split; [reflexivity|]. rewrite vall_list in Hv. eapply valls_mono; [exact Hn1|exact Hv].
    Qed.

    Lemma bsim_leval : forall fuel le e n m, fexpr' e -> bsim n m PLV (leval' fuel le e) (leval' fuel le e).
    Proof.
      induction fuel as [|fuel IH]; intros le e n m Hf; [apply bsim_oof|].
      assert (Heager : forall e' n1 m1, fexpr' e' ->
                bsim n1 m1 PV (lv <- leval' fuel le e' ;; eval_lv' (S fuel + default_eval_fuel) lv) (lv <- leval' fuel le e' ;; eval_lv' (S fuel + default_eval_fuel) lv)).
      { intros e' n1 m1 Hf'. eapply bsim_bind; [apply IH, Hf'|]. intros lv lv' n2 m2 _ _ [-> Hlv]. apply bsim_eval_lv, Hlv. }
      assert (Hcomp : forall elem var value n1 m1, fexpr' elem -> fexpr' value ->
        let c := (lv <- (lv <- leval' fuel le value ;; eval_lv' (S fuel + default_eval_fuel) lv) ;; vals <- lift (as_list lv) ;;
             lpush_frame ;;;
             out <- mapM (fun v => lclear_frame ;;; lunscoped_add glob le var (LValue v) false ;;; leval' fuel le elem) vals ;;
             lpop_frame ;;; ret out) in bsim n1 m1 (PL PLV) c c).
      { intros elem var value n1 m1 Hfe Hfv. cbv zeta. eapply bsim_bind; [apply Heager, Hfv|]. intros lv lv' n2 m2 _ _ [-> Hlv].
        eapply bsim_bind; [apply bsim_as_list, Hlv|]. intros vals vals' n3 m3 _ _ [-> Hvals].
        eapply bsim_seq; [apply bsim_lpush_frame|]. intros n4 m4 Hn4 _. eapply bsim_bind.
        - apply (bsim_mapM _ _ _ _ n4 m4 PLV _ _ PV vals (map vr vals) PLV_mono PV_mono).
          + intros v w n5 m5 _ _ _ [-> Hv]. eapply bsim_seq; [apply bsim_lclear_frame|]. intros n6 m6 Hn6 _.
            eapply bsim_seq; [apply (bsim_lunscoped_add n6 m6 le var (LValue v) false); cbn [lvall]; eapply vall_mono; [exact Hn6|exact Hv]|].
            intros n7 m7 _ _. apply IH, Hfe.
          + apply Forall_PV. eapply valls_mono; [exact Hn4|exact Hvals].
        - intros out out' n5 m5 _ _ Hout. eapply bsim_seq; [apply bsim_lpop_frame|]. intros n6 m6 Hn6 Hm6. apply bsim_ret. intros n7 m7 Hn7 Hm7.
          eapply (PL_mono _ _ PLV PLV_mono); [| |exact Hout]; lia. }
      destruct e; cbn [leval]; cbn [fexpr] in Hf.
      - apply bsim_ret. intros. split; [reflexivity|exact I].
      - apply bsim_ret. intros. split; [reflexivity|exact I].
      - apply bsim_ret. intros. split; [reflexivity|exact I].
      - apply bsim_ret. intros. split; [reflexivity|exact I].
      - apply bsim_ret. intros. split; [reflexivity|exact I].
      - eapply bsim_bind; [apply bsim_mapM_same; [apply PLV_mono|]; intros x n1 m1 _ _ Hin; apply IH; eapply All_In; eauto|].
        intros vs vs' n1 m1 _ _ Hvs. apply PL_PLV in Hvs. destruct Hvs as [-> Hall]. apply bsim_ret. intros n2 m2 Hn2 Hm2. split; [reflexivity|].
        rewrite lvall_list. eapply lvalls_mono; [exact Hn2|exact Hm2|exact Hall].
      - eapply bsim_bind; [apply bsim_mapM_same; [apply PLV_mono|]; intros x n1 m1 _ _ Hin; apply IH; eapply All_In; eauto|].
        intros vs vs' n1 m1 _ _ Hvs. apply PL_PLV in Hvs. destruct Hvs as [-> Hall]. apply bsim_ret. intros n2 m2 Hn2 Hm2. split; [reflexivity|].
        rewrite lvall_set. eapply lvalls_mono; [exact Hn2|exact Hm2|exact Hall].
      - destruct Hf as [Hfe Hfv]. eapply bsim_bind; [apply Hcomp; assumption|].
        intros vs vs' n1 m1 _ _ Hvs. apply PL_PLV in Hvs. destruct Hvs as [-> Hall]. apply bsim_ret. intros n2 m2 Hn2 Hm2. split; [reflexivity|].
        rewrite lvall_list. eapply lvalls_mono; [exact Hn2|exact Hm2|exact Hall].
      - destruct Hf as [Hfe Hfv]. eapply bsim_bind; [apply Hcomp; assumption|].
        intros vs vs' n1 m1 _ _ Hvs. apply PL_PLV in Hvs. destruct Hvs as [-> Hall]. apply bsim_ret. intros n2 m2 Hn2 Hm2. split; [reflexivity|].
        rewrite lvall_set. eapply lvalls_mono; [exact Hn2|exact Hm2|exact Hall].
      - eapply bsim_bind; [apply (bsim_lift2 _ _ n m (fun a b _ _ => b = a /\ vall noid a))|].
        + destruct (from_nodes (nodes_for_capture (ll_match le) file_idx) q) as [v|e|x|] eqn:Ef; try reflexivity.
          exists v. split; [reflexivity|]. intros. split; [reflexivity|]. eapply from_nodes_noid; eauto.
        + intros v v' n1 m1 _ _ [-> Hv]. apply bsim_ret. intros n2 m2 _ _. split; [cbn [lvren]; rewrite (vren_noid sg v Hv); reflexivity|].
          cbn [lvall]. eapply vall_impl; [|exact Hv]. intros i [].
      - apply bsim_lunscoped_get.
      - contradiction.
      - destruct Hf as [Hok Hargs]. eapply bsim_bind; [apply bsim_mapM_same; [apply PLV_mono|]; intros x n1 m1 _ _ Hin; apply IH; eapply All_In; eauto|].
        intros vs vs' n1 m1 _ _ Hvs. apply PL_PLV in Hvs. destruct Hvs as [-> Hall]. apply bsim_ret. intros n2 m2 Hn2 Hm2. split; [reflexivity|].
        rewrite lvall_call. split; [exact Hok|]. eapply lvalls_mono; [exact Hn2|exact Hm2|exact Hall].
      - destruct (nth_error (ll_caps le) (N.to_nat i)); [|apply bsim_fail]. apply bsim_ret. intros. split; [reflexivity|exact I].
    Qed.
    Lemma bsim_leager fuel le e n m : fexpr' e -> bsim n m PV (leager t fl glob call fuel le e) (leager t fl glob call fuel le e).
    Proof. intros Hf. unfold leager. eapply bsim_bind; [apply bsim_leval, Hf|]. intros lv lv' n1 m1 _ _ [-> Hlv]. apply bsim_eval_lv, Hlv. Qed.

    (* ---- variables of statements, conditions ---- *)
    Lemma bsim_lvar_add fuel le v x mu n m : fvar v -> lvall okfn (Dn n) (Lm m) x ->
      bsim n m (@PU unit unit) (lvar_add t fl glob call fuel le v x mu) (lvar_add t fl glob call fuel le v (lr x) mu).
    Proof. intros Hv Hx. destruct v; cbn [fvar] in Hv; [|contradiction]. cbn [lvar_add]. apply bsim_lunscoped_add, Hx. Qed.
    Lemma bsim_lvar_set fuel le v x n m : lvall okfn (Dn n) (Lm m) x ->
      bsim n m (@PU unit unit) (lvar_set glob fuel le v x) (lvar_set glob fuel le v (lr x)).
    Proof. intros Hx. destruct v; cbn [lvar_set]; [apply bsim_lunscoped_set, Hx|apply bsim_fail]. Qed.
    Lemma bsim_ltest_cond fuel le c n m : fcond okfn qm c -> bsim n m (@PE bool) (ltest_cond t fl glob call fuel le c) (ltest_cond t fl glob call fuel le c).
    Proof.
      intros Hc. destruct c; cbn [ltest_cond fcond] in *; (eapply bsim_bind; [apply bsim_leager, Hc|]); intros v v' n1 m1 _ _ [-> Hv].
      - apply bsim_ret. intros. destruct v; reflexivity.
      - apply bsim_ret. intros. destruct v; reflexivity.
      - apply bsim_lift2. destruct v; cbn [vren as_bool]; try reflexivity. eexists. split; [reflexivity|]. intros; reflexivity.
    Qed.

    (* ---- attributes ---- *)
    Hypothesis Hsh : Forall (fun sh => All (fattr okfn qm) (sh_attrs sh)) (f_shorthands fl).
    Definition PAT : list (ident * lvalue) -> list (ident * lvalue) -> N -> N -> Prop :=
      fun a b n m => b = map (atren sg sl) a /\ Forall (atall okfn (Dn n) (Lm m)) a.
    Lemma PAT_mono : pmono PAT.
    Proof. intros a b n m n' m' Hn Hm [H1 H2]. split; [exact H1|]. eapply atall_impl; [| |exact H2]; [intros i; apply Dn_mono, Hn|intros i; apply Lm_mono, Hm]. Qed.
    Lemma PL_PAT outs outs' n m : PL PAT outs outs' n m -> PAT (concat outs) (concat outs') n m.
    Proof.
      unfold PL. induction 1 as [|a b outs outs' [H1 H2] _ [IH1 IH2]]; cbn [concat]; [split; [reflexivity|constructor]|]. subst.
      split; [rewrite map_app, IH1; reflexivity|]. apply Forall_app. split; assumption.
    Qed.
    Notation lexec_attr' := (lexec_attr t fl glob call).
    Lemma bsim_lexec_attr : forall fuel le a n m, fattr okfn qm a -> bsim n m PAT (lexec_attr' fuel le a) (lexec_attr' fuel le a).
    Proof.
      induction fuel as [|fuel IH]; intros le a n m Ha; [apply bsim_oof|]. destruct a as [name value]. cbn [lexec_attr fattr] in *.
      eapply bsim_seq; [apply bsim_poll|]. intros n1 m1 _ _. eapply bsim_bind; [apply bsim_leval, Ha|]. intros v v' n2 m2 _ _ [-> Hv].
      destruct (find_shorthand name (f_shorthands fl)) as [sh|] eqn:Ef.
      2:{ apply bsim_ret. intros n3 m3 Hn3 Hm3. split; [reflexivity|]. constructor; [|constructor]. unfold atall; cbn [snd]. eapply lvall_mono; [exact Hn3|exact Hm3|exact Hv]. }
      apply bsim_get. intros s1 s2 HR Hn Hm. destruct HR as (_ & _ & [HL1 HL2] & _). rewrite HL1.
      eapply bsim_seq; [apply bsim_set_llocals; split; [reflexivity|constructor; [constructor|constructor]]|]. intros n3 m3 Hn3 Hm3.
      eapply bsim_seq; [apply bsim_lunscoped_add; eapply lvall_mono; [| |exact Hv]; lia|]. intros n4 m4 Hn4 Hm4.
      eapply bsim_bind.
      - apply bsim_mapM_same; [apply PAT_mono|]. intros a n5 m5 _ _ Hin. apply IH.
        pose proof (find_shorthand_In _ _ _ Ef) as Hin'. rewrite Forall_forall in Hsh. eapply All_In; [apply (Hsh sh Hin')|exact Hin].
      - intros outs outs' n5 m5 Hn5 Hm5 Houts. apply PL_PAT in Houts.
        eapply bsim_seq; [apply bsim_set_llocals; split; [reflexivity|]; eapply llall_impl; [| |exact HL2]; [intros i; apply Dn_mono; lia|intros i; apply Lm_mono; lia]|].
        intros n6 m6 Hn6 Hm6. apply bsim_ret. intros n7 m7 Hn7 Hm7. eapply PAT_mono; [| |exact Houts]; lia.
    Qed.
    Lemma bsim_lexec_attrs fuel le attrs n m : All (fattr okfn qm) attrs ->
      bsim n m (fun a b n m => PAT (concat a) (concat b) n m) (mapM (lexec_attr' fuel le) attrs) (mapM (lexec_attr' fuel le) attrs).
    Proof.
      intros Ha. eapply bsim_conseq; [|apply bsim_mapM_same; [apply PAT_mono|]; intros a n1 m1 _ _ Hin; apply bsim_lexec_attr; eapply All_In; eauto].
      intros a b n1 m1 _ _ H. apply PL_PAT, H.
    Qed.

    (* ---- loops ---- *)
    Lemma bsim_lpoll_n k l n m : bsim n m (@PU unit unit) (lpoll_n k l) (lpoll_n k l).
    Proof. revert n m. induction k as [|k IH]; intros n m; cbn [lpoll_n]; [apply bsim_ret; intros; exact I|]. eapply bsim_seq; [apply bsim_poll|]. intros. apply IH. Qed.
    Lemma bsim_lscan_loop (run1 run2 : list str -> list stmt -> M lstate unit) arms rs subject :
      (forall caps r body l n m, In (r, body, l) arms -> bsim n m (@PU unit unit) (run1 caps body) (run2 caps body)) ->
      forall sfuel i n m, bsim n m (@PU unit unit) (lscan_loop find run1 arms rs subject sfuel i) (lscan_loop find run2 arms rs subject sfuel i).
    Proof.
      intros Hrun. induction sfuel as [|sfuel IHs]; intros i n m; cbn [lscan_loop]; [apply bsim_oof|].
      destruct (N.ltb i (N.of_nat (length subject))); [|apply bsim_ret; intros; exact I]. cbv zeta.
      eapply bsim_seq; [apply bsim_lpoll_n|]. intros n1 m1 _ _.
      destruct (arm_select find rs (skipn (N.to_nat i) subject)) as [|k|k caps]; [apply bsim_ret; intros; exact I|apply bsim_fail|].
      destruct (nth_error arms (N.to_nat k)) as [[[r body] l']|] eqn:En; [|apply bsim_panic].
      eapply bsim_seq; [apply bsim_lpush_frame|]. intros n2 m2 _ _. eapply bsim_seq; [eapply Hrun, nth_error_In, En|]. intros n3 m3 _ _.
      eapply bsim_seq; [apply bsim_lpop_frame|]. intros n4 m4 _ _. apply IHs.
    Qed.
    Lemma bsim_lif_loop (test : cond -> M lstate bool) (run1 run2 : list stmt -> M lstate unit) :
      forall arms, (forall c conds body l n m, In (conds, body, l) arms -> In c conds -> bsim n m (@PE bool) (test c) (test c)) ->
      (forall conds body l n m, In (conds, body, l) arms -> bsim n m (@PU unit unit) (run1 body) (run2 body)) ->
      forall n m, bsim n m (@PU unit unit) (lif_loop test run1 arms) (lif_loop test run2 arms).
    Proof.
      induction arms as [|[[conds body] l'] arms IHa]; intros Ht Hr n m; cbn [lif_loop]; [apply bsim_ret; intros; exact I|].
      eapply bsim_bind; [apply bsim_mapM_same; [apply PE_mono|]; intros c n1 m1 _ _ Hin; eapply Ht; [left; reflexivity|exact Hin]|].
      intros bs bs' n1 m1 _ _ Hbs. assert (bs' = bs) as -> by (clear -Hbs; unfold PL, PE in Hbs; induction Hbs; congruence).
      destruct (forallb (fun b => b) bs).
      - eapply bsim_seq; [apply bsim_lpush_frame|]. intros n2 m2 _ _. eapply bsim_seq; [eapply Hr; left; reflexivity|]. intros n3 m3 _ _. apply bsim_lpop_frame.
      - apply IHa; [intros c conds0 body0 l0 n2 m2 Hin; eapply Ht; right; exact Hin|intros conds0 body0 l0 n2 m2 Hin; eapply Hr; right; exact Hin].
    Qed.

    (* ---- statements ---- *)
    Notation fstmt' := (fstmt okfn qm).
    Notation lexec_stmt' := (lexec_stmt t fl cfg glob regexes find call).
    Definition POL : option lvalue -> option lvalue -> N -> N -> Prop :=
      fun a b n m => b = option_map lr a /\ match a with Some lv => lvall okfn (Dn n) (Lm m) lv | None => True end.
    Lemma POL_mono : pmono POL.
    Proof. intros a b n m n' m' Hn Hm [H1 H2]. split; [exact H1|]. destruct a; [eapply lvall_mono; eauto|exact I]. Qed.
    Lemma PL_POL l l' n m : PL POL l l' n m -> l' = map (option_map lr) l /\ Forall (fun o => match o with Some lv => lvall okfn (Dn n) (Lm m) lv | None => True end) l.
    Proof. unfold PL. induction 1 as [|a b l l' [H1 H2] _ [IH1 IH2]]; [split; [reflexivity|constructor]|]. subst. split; [reflexivity|constructor; assumption]. Qed.
    Lemma as_str_vr v : as_str (vr v) = as_str v. Proof. destruct v; reflexivity. Qed.

    Lemma bsim_lexec_stmt : forall fuel le s n m, fstmt' s -> bsim n m (@PU unit unit) (lexec_stmt' fuel le s) (lexec_stmt' fuel le s).
    Proof.
      induction fuel as [|fuel IH]; intros le s n m Hs; [apply bsim_oof|].
      assert (Hblock : forall le' body n1 m1, All fstmt' body ->
                 bsim n1 m1 (@PU unit unit) (iterM (fun st => lexec_stmt' fuel (ll_with_ctx le' (ctx_update (ll_ctx le') st)) st) body)
                      (iterM (fun st => lexec_stmt' fuel (ll_with_ctx le' (ctx_update (ll_ctx le') st)) st) body)).
      { intros le' body n1 m1 Hb. apply bsim_iterM_same. intros st n2 m2 _ _ Hin. apply IH. eapply All_In; eauto. }
      assert (Harm : forall le' body n1 m1, All fstmt' body ->
                 bsim n1 m1 (@PU unit unit)
                      (iterM (fun st => let c := ctx_update (ll_ctx le') st in
                                        ctx_wrap (CtxStmts [c]) (ctx_wrap CtxOther (lexec_stmt' fuel (ll_with_ctx le' c) st))) body)
                      (iterM (fun st => let c := ctx_update (ll_ctx le') st in
                                        ctx_wrap (CtxStmts [c]) (ctx_wrap CtxOther (lexec_stmt' fuel (ll_with_ctx le' c) st))) body)).
      { intros le' body n1 m1 Hb. apply bsim_iterM_same. intros st n2 m2 _ _ Hin. cbv zeta. apply bsim_ctx, bsim_ctx. apply IH. eapply All_In; eauto. }
      destruct s; cbn [lexec_stmt]; cbn [fstmt] in Hs; (eapply bsim_seq; [apply bsim_poll|intros n1 m1 _ _]).
      - destruct Hs as [Hv He]. eapply bsim_bind; [apply bsim_leval, He|]. intros x x' n2 m2 _ _ [-> Hx]. apply bsim_lvar_add; assumption.
      - destruct Hs as [Hv He]. eapply bsim_bind; [apply bsim_leval, He|]. intros x x' n2 m2 _ _ [-> Hx]. apply bsim_lvar_add; assumption.
      - destruct Hs as [Hv He]. eapply bsim_bind; [apply bsim_leval, He|]. intros x x' n2 m2 _ _ [-> Hx]. apply bsim_lvar_set; assumption.
      - eapply bsim_bind; [apply bsim_ladd_node|]. intros a a' n2 m2 _ _ (-> & Ha1 & Ha2).
        eapply bsim_seq; [apply bsim_lopt_node_attr; [exact Ha1|exact Ha2|exact I]|]. intros n3 m3 Hn3 _.
        eapply bsim_seq; [apply bsim_lopt_node_attr; [exact Ha1|lia|exact I]|]. intros n4 m4 Hn4 _.
        apply (bsim_seq unit unit unit unit n4 m4 (@PU unit unit) (@PU unit unit)).
        + destruct (c_match_attr cfg) as [k|]; [|apply bsim_ret; intros; exact I].
          eapply bsim_bind; [apply bsim_lfull_match_node|]. intros mn mn' n5 m5 Hn5 _ <-. apply bsim_ladd_node_attr; [exact Ha1|lia|exact I].
        + intros n5 m5 Hn5 _. apply (bsim_lvar_add fuel le v (LValue (VGraph a)) false n5 m5 Hs). cbn [lvall vall]. right. lia.
      - destruct Hs as [Hn Ha]. eapply bsim_bind; [apply bsim_leval, Hn|]. intros nv nv' n2 m2 _ _ [-> Hnv].
        eapply bsim_bind; [apply bsim_lexec_attrs, Ha|]. intros outs outs' n3 m3 Hn3 Hm3 [Ho1 Ho2]. cbv beta in Ho1. rewrite Ho1.
        apply (bsim_push_lstmt n3 m3 (LSAttrNode nv (concat outs) (ll_ctx le))). cbn [lsall]. split; [eapply lvall_mono; [exact Hn3|exact Hm3|exact Hnv]|exact Ho2].
      - destruct Hs as [Ha Hb]. eapply bsim_bind; [apply bsim_leval, Ha|]. intros a a' n2 m2 _ _ [-> Hla].
        eapply bsim_bind; [apply bsim_leval, Hb|]. intros b b' n3 m3 Hn3 Hm3 [-> Hlb]. cbv zeta.
        apply (bsim_push_lstmt n3 m3 (LSEdge a b _ (ll_ctx le))). cbn [lsall]. split; [eapply lvall_mono; [exact Hn3|exact Hm3|exact Hla]|]. split; [exact Hlb|].
        apply Hea.
      - destruct Hs as (Ha & Hb & Hat). eapply bsim_bind; [apply bsim_leval, Ha|]. intros a a' n2 m2 _ _ [-> Hla].
        eapply bsim_bind; [apply bsim_leval, Hb|]. intros b b' n3 m3 Hn3 Hm3 [-> Hlb].
        eapply bsim_bind; [apply bsim_lexec_attrs, Hat|]. intros outs outs' n4 m4 Hn4 Hm4 [Ho1 Ho2]. cbv beta in Ho1. rewrite Ho1.
        apply (bsim_push_lstmt n4 m4 (LSAttrEdge a b (concat outs) (ll_ctx le))). cbn [lsall].
        split; [eapply lvall_mono; [| |exact Hla]; lia|]. split; [eapply lvall_mono; [| |exact Hlb]; lia|exact Ho2].
      - destruct Hs as [Hv Harms]. eapply bsim_bind; [apply bsim_leager, Hv|]. intros sv sv' n2 m2 _ _ [-> Hsv]. rewrite as_str_vr.
        eapply bsim_bind; [apply bsim_lift|]. intros subject subject' n3 m3 _ _ <-.
        destruct (arm_table regexes arms) as [rs|]; [|apply bsim_panic].
        apply bsim_lscan_loop. intros caps r body l' n4 m4 Hin. apply (Harm (ll_with_caps le caps) body).
        apply (All_In _ _ _ Harms Hin).
      - eapply bsim_bind.
        + apply (bsim_mapM_same _ _ _ n1 m1 POL); [apply POL_mono|]. intros e n2 m2 _ _ Hin. pose proof (All_In _ _ _ Hs Hin) as He.
          assert (Hgen : bsim n2 m2 POL (lv <- leval t fl glob call fuel le e ;; ret (Some lv)) (lv <- leval t fl glob call fuel le e ;; ret (Some lv))).
          { eapply bsim_bind; [apply bsim_leval, He|]. intros lv lv' n3 m3 _ _ [-> Hlv]. apply bsim_ret. intros n4 m4 Hn4 Hm4. split; [reflexivity|]. eapply lvall_mono; eauto. }
          destruct e; try exact Hgen. apply bsim_ret. intros. split; [reflexivity|exact I].
        + intros args args' n2 m2 _ _ Hargs. apply PL_POL in Hargs. destruct Hargs as [-> Hall].
          apply (bsim_push_lstmt n2 m2 (LSPrint args (ll_ctx le))). exact Hall.
      - apply bsim_lif_loop.
        + intros c conds body l' n2 m2 Hin Hc. apply bsim_ltest_cond. pose proof (All_In _ _ _ Hs Hin) as [Hcs _]. apply (All_In _ _ _ Hcs Hc).
        + intros conds body l' n2 m2 Hin. apply Hblock. pose proof (All_In _ _ _ Hs Hin) as [_ Hb]. exact Hb.
      - destruct Hs as [Hv Hbody]. eapply bsim_bind; [apply bsim_leager, Hv|]. intros lv lv' n2 m2 _ _ [-> Hlv].
        eapply bsim_bind; [apply bsim_as_list, Hlv|]. intros vals vals' n3 m3 _ _ [-> Hvals].
        eapply bsim_seq; [apply bsim_lpush_frame|]. intros n4 m4 Hn4 _. eapply bsim_seq; [|intros; apply bsim_lpop_frame].
        apply (bsim_iterM _ _ n4 m4 _ _ PV vals (map vr vals) PV_mono).
        + intros v w n5 m5 _ _ _ [-> Hv']. eapply bsim_seq; [apply bsim_lclear_frame|]. intros n6 m6 Hn6 _.
          eapply bsim_seq; [apply (bsim_lunscoped_add n6 m6 le var (LValue v) false); cbn [lvall]; eapply vall_mono; [exact Hn6|exact Hv']|].
          intros n7 m7 _ _. apply Hblock, Hbody.
        + apply Forall_PV. eapply valls_mono; [exact Hn4|exact Hvals].
    Qed.

    Lemma bsim_lexec_stanza fuel st n m : All fstmt' (st_stmts st) ->
      bsim n m (@PU unit unit) (lexec_stanza t fl cfg glob regexes find call fuel st qm) (lexec_stanza t fl cfg glob regexes find call fuel st qm).
    Proof.
      intros Hst. unfold lexec_stanza. eapply bsim_seq; [apply bsim_poll|]. intros n1 m1 _ _. eapply bsim_seq; [apply bsim_lclear_frame|]. intros n2 m2 _ _.
      cbv zeta. destruct (nodes_for_capture qm (st_full_file_idx st)) as [|nd ns]; [apply bsim_panic|].
      apply bsim_iterM_same. intros s n3 m3 _ _ Hin. apply bsim_ctx. apply bsim_lexec_stmt. eapply All_In; eauto.
    Qed.
  End Interp.
End Shift.
