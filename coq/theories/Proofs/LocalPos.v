(* Proofs/LocalPos.v — the boolean walkers of Model/Locality.v are sound for the enumerated eager positions of
   Spec/EagerPos.v: if `stmt_eok` holds, every eager position, at any depth, is `eager_ok` in its own environment. *)
From TSG Require Import Model.Locality Spec.EagerPos Proofs.BaseFacts Proofs.Checker.

Lemma eager_ok_expr_eok G e : forall env, eager_ok G env e = true -> expr_eok G env e = true.
Proof.
  induction e using expr_ind'; intros env; cbn [eager_ok expr_eok]; try reflexivity; try discriminate.
  - rewrite !forallb_forall. intros Hp a Ha. rewrite Forall_forall in H. apply H; auto.
  - rewrite !forallb_forall. intros Hp a Ha. rewrite Forall_forall in H. apply H; auto.
  - rewrite !andb_true_iff. intros [H1 H2]. split; [exact H1|apply IHe1; exact H2].
  - rewrite !andb_true_iff. intros [H1 H2]. split; [exact H1|apply IHe1; exact H2].
  - rewrite !forallb_forall. intros Hp a Ha. rewrite Forall_forall in H. apply H; auto.
Qed.

Lemma expr_eok_pos G env0 e0 env e : eager_in_expr env0 e0 env e -> expr_eok G env0 e0 = true -> eager_ok G env e = true.
Proof.
  induction 1; cbn [expr_eok]; intros Hok.
  - apply IHeager_in_expr. rewrite forallb_forall in Hok. apply Hok. assumption.
  - apply IHeager_in_expr. rewrite forallb_forall in Hok. apply Hok. assumption.
  - apply IHeager_in_expr. rewrite forallb_forall in Hok. apply Hok. assumption.
  - apply IHeager_in_expr. exact Hok.
  - apply andb_true_iff in Hok. apply Hok.
  - apply andb_true_iff in Hok. apply IHeager_in_expr. apply eager_ok_expr_eok. apply Hok.
  - apply andb_true_iff in Hok. apply IHeager_in_expr. apply Hok.
  - apply andb_true_iff in Hok. apply Hok.
  - apply andb_true_iff in Hok. apply IHeager_in_expr. apply eager_ok_expr_eok. apply Hok.
  - apply andb_true_iff in Hok. apply IHeager_in_expr. apply Hok.
Qed.

Lemma var_exprs_eok G env v e0 : var_eok G env v = true -> In e0 (var_exprs v) -> expr_eok G env e0 = true.
Proof. destruct v; cbn [var_eok var_exprs]; intros H Hin; [destruct Hin|]. destruct Hin as [<-|[]]. exact H. Qed.
Lemma attrs_exprs_eok G env attrs e0 : forallb (attr_eok G env) attrs = true -> In e0 (map attr_expr attrs) -> expr_eok G env e0 = true.
Proof.
  rewrite forallb_forall. intros H Hin. apply in_map_iff in Hin. destruct Hin as ([name e] & <- & Ha). apply (H _ Ha).
Qed.

Lemma stmt_exprs_eok G env s e0 : stmt_eok G env s = true -> In e0 (stmt_exprs s) -> expr_eok G env e0 = true.
Proof.
  destruct s; cbn [stmt_eok stmt_exprs]; rewrite ?andb_true_iff; intros H Hin.
  - destruct H as [H1 H2]. destruct Hin as [<-|Hin]; [exact H1|eapply var_exprs_eok; eassumption].
  - destruct H as [H1 H2]. destruct Hin as [<-|Hin]; [exact H1|eapply var_exprs_eok; eassumption].
  - destruct H as [H1 H2]. destruct Hin as [<-|Hin]; [exact H1|eapply var_exprs_eok; eassumption].
  - eapply var_exprs_eok; eassumption.
  - destruct H as [H1 H2]. destruct Hin as [<-|Hin]; [exact H1|eapply attrs_exprs_eok; eassumption].
  - destruct H as [H1 H2]. destruct Hin as [<-|[<-|[]]]; assumption.
  - destruct H as [[H1 H2] H3]. destruct Hin as [<-|[<-|Hin]]; [exact H1|exact H2|eapply attrs_exprs_eok; eassumption].
  - destruct H as [H1 H2]. destruct Hin as [<-|[]]. apply eager_ok_expr_eok. exact H1.
  - rewrite forallb_forall in H. apply H. exact Hin.
  - apply in_flat_map in Hin. destruct Hin as ([[conds body] al] & Harm & Hc). cbn [fst] in Hc.
    rewrite forallb_forall in H. specialize (H _ Harm). cbv beta iota in H. apply andb_true_iff in H. destruct H as [H1 _].
    apply in_map_iff in Hc. destruct Hc as (c & <- & Hc). rewrite forallb_forall in H1. apply eager_ok_expr_eok. apply (H1 _ Hc).
  - destruct H as [H1 H2]. destruct Hin as [<-|[]]. apply eager_ok_expr_eok. exact H1.
Qed.

Lemma eok_pos G :
  (forall env0 s env e, eager_in_stmt G env0 s env e -> stmt_eok G env0 s = true -> eager_ok G env e = true) /\
  (forall env0 b env e, eager_in_block G env0 b env e -> block_eok G env0 b = true -> eager_ok G env e = true).
Proof.
  apply eager_in_mutind.
  - intros env0 s e0 env e Hin Hpos Hok. eapply expr_eok_pos; [exact Hpos|]. eapply stmt_exprs_eok; eassumption.
  - intros env0 v arms l. cbn [stmt_eok]. rewrite andb_true_iff. intros [H _]. exact H.
  - intros env0 arms l conds body al c Harm Hc. cbn [stmt_eok]. rewrite forallb_forall. intros H. specialize (H _ Harm).
    cbv beta iota in H. apply andb_true_iff in H. destruct H as [H _]. rewrite forallb_forall in H. apply (H _ Hc).
  - intros env0 x xl v body l. cbn [stmt_eok]. rewrite andb_true_iff. intros [H _]. exact H.
  - intros env0 v arms l rx body al env e Harm _ IH. cbn [stmt_eok]. rewrite andb_true_iff, forallb_forall. intros [_ H].
    specialize (H _ Harm). cbv beta iota in H. apply IH. exact H.
  - intros env0 arms l conds body al env e Harm _ IH. cbn [stmt_eok]. rewrite forallb_forall. intros H.
    specialize (H _ Harm). cbv beta iota in H. apply andb_true_iff in H. apply IH. apply H.
  - intros env0 x xl v body l env e _ IH. cbn [stmt_eok]. rewrite andb_true_iff. intros [_ H]. apply IH. exact H.
  - intros env0 s rest env e _ IH. unfold block_eok. cbn [seq_eok]. rewrite andb_true_iff. intros [H _]. apply IH. exact H.
  - intros env0 s rest env e _ IH. unfold block_eok. cbn [seq_eok]. rewrite andb_true_iff. intros [_ H]. apply IH. exact H.
Qed.

Lemma file_eok_pos f env e : file_eok f = true -> eager_in_file f env e -> eager_ok (is_global f) env e = true.
Proof.
  unfold file_eok, eager_in_file. rewrite forallb_forall. intros H (st & Hst & Hpos).
  eapply (proj2 (eok_pos (is_global f))); [exact Hpos|]. apply (H _ Hst).
Qed.

(* ---------------- the converse: the enumeration misses no position the walkers look at ---------------- *)
Lemma expr_eok_of_pos G e0 : forall env0,
  (forall env e, eager_in_expr env0 e0 env e -> eager_ok G env e = true) -> expr_eok G env0 e0 = true.
Proof.
  induction e0 using expr_ind'; intros env0 Hp; cbn [expr_eok]; try reflexivity.
  - apply forallb_forall. intros x Hx. rewrite Forall_forall in H. apply (H x Hx). intros env e He. apply Hp. eapply EIE_list; eassumption.
  - apply forallb_forall. intros x Hx. rewrite Forall_forall in H. apply (H x Hx). intros env e He. apply Hp. eapply EIE_set; eassumption.
  - apply andb_true_iff. split; [apply Hp; apply EIE_lcomp_src|]. apply IHe0_1. intros env e He. apply Hp. apply EIE_lcomp_elem. exact He.
  - apply andb_true_iff. split; [apply Hp; apply EIE_scomp_src|]. apply IHe0_1. intros env e He. apply Hp. apply EIE_scomp_elem. exact He.
  - apply IHe0. intros env e He. apply Hp. apply EIE_scoped. exact He.
  - apply forallb_forall. intros x Hx. rewrite Forall_forall in H. apply (H x Hx). intros env e He. apply Hp. eapply EIE_call; eassumption.
Qed.

Lemma block_eok_of_pos G body :
  Forall (fun s => forall env0, (forall env e, eager_in_stmt G env0 s env e -> eager_ok G env e = true) -> stmt_eok G env0 s = true) body ->
  forall env0, (forall env e, eager_in_block G env0 body env e -> eager_ok G env e = true) -> block_eok G env0 body = true.
Proof.
  unfold block_eok. induction 1 as [|s body Hs Hb IH]; intros env0 Hp; cbn [seq_eok]; [reflexivity|].
  apply andb_true_iff. split.
  - apply Hs. intros env e He. apply Hp. apply EIB_here. exact He.
  - apply IH. intros env e He. apply Hp. apply EIB_later. exact He.
Qed.

Lemma stmt_eok_of_pos G s : forall env0,
  (forall env e, eager_in_stmt G env0 s env e -> eager_ok G env e = true) -> stmt_eok G env0 s = true.
Proof.
  induction s using stmt_ind'; intros env0 Hp;
    assert (Hex : forall e0, In e0 (stmt_exprs _) -> expr_eok G env0 e0 = true)
      by (intros e0 Hin; apply expr_eok_of_pos; intros env' e' He'; apply Hp; eapply EIS_expr; eassumption);
    cbn [stmt_exprs] in Hex; cbn [stmt_eok].
  - apply andb_true_iff. split; [apply Hex; left; reflexivity|]. destruct v; cbn [var_eok]; [reflexivity|]. apply Hex. right. left. reflexivity.
  - apply andb_true_iff. split; [apply Hex; left; reflexivity|]. destruct v; cbn [var_eok]; [reflexivity|]. apply Hex. right. left. reflexivity.
  - apply andb_true_iff. split; [apply Hex; left; reflexivity|]. destruct v; cbn [var_eok]; [reflexivity|]. apply Hex. right. left. reflexivity.
  - destruct v; cbn [var_eok]; [reflexivity|]. apply Hex. left. reflexivity.
  - apply andb_true_iff. split; [apply Hex; left; reflexivity|]. apply forallb_forall. intros [name ae] Ha. cbn [attr_eok]. apply Hex. right.
    apply in_map_iff. exists (Attr name ae). split; [reflexivity|exact Ha].
  - apply andb_true_iff. split; apply Hex; [left|right; left]; reflexivity.
  - rewrite !andb_true_iff. split; [split; apply Hex; [left|right; left]; reflexivity|]. apply forallb_forall. intros [name ae] Ha. cbn [attr_eok]. apply Hex.
    right. right. apply in_map_iff. exists (Attr name ae). split; [reflexivity|exact Ha].
  - apply andb_true_iff. split; [apply Hp; apply EIS_scan|]. apply forallb_forall. intros [[rxi body] al] Hin.
    rewrite Forall_forall in H. apply (block_eok_of_pos G body (H _ Hin)). intros env' e' He'. apply Hp. eapply EIS_scan_arm; eassumption.
  - apply forallb_forall. intros x Hx. apply Hex. exact Hx.
  - apply forallb_forall. intros [[conds body] al] Hin. apply andb_true_iff. split.
    + apply forallb_forall. intros c Hc. apply Hp. eapply EIS_if; eassumption.
    + rewrite Forall_forall in H. apply (block_eok_of_pos G body (H _ Hin)). intros env' e' He'. apply Hp. eapply EIS_if_arm; eassumption.
  - apply andb_true_iff. split; [apply Hp; apply EIS_for|]. apply (block_eok_of_pos G body H). intros env' e' He'. apply Hp. apply EIS_for_body. exact He'.
Qed.

Lemma file_eok_iff_pos f : file_eok f = true <-> forall env e, eager_in_file f env e -> eager_ok (is_global f) env e = true.
Proof.
  split; [intros H env e; apply file_eok_pos; exact H|]. intros Hp. unfold file_eok. apply forallb_forall. intros st Hst. unfold stanza_eok.
  apply block_eok_of_pos; [apply Forall_forall; intros s _; apply stmt_eok_of_pos|]. intros env e He. apply Hp. exists st. split; assumption.
Qed.
