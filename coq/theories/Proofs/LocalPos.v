(* Proofs/LocalPos.v — the boolean walkers of Model/Locality.v are sound for the enumerated eager positions of
   Spec/EagerPos.v: if `stmt_eok` holds, every eager position, at any depth, is `eager_ok` in its own environment. *)
From TSG Require Import Model.Locality Spec.EagerPos Proofs.BaseFacts Proofs.Checker.

Lemma eager_ok_expr_eok G e : forall env, eager_ok G env e = true -> expr_eok G env e = true.
Proof.
  induction e using expr_ind'; intros env; cbn [eager_ok expr_eok]; try reflexivity; try discriminate.
  - rewrite !forallb_forall. intros Hp a Ha. rewrite Forall_forall in H. apply H; auto.
  - rewrite !forallb_forall. intros Hp a Ha. rewrite Forall_forall in H. apply H; auto.
  - rewrite !andb_true_iff. intros [H1 H2]. split; [exact H1|apply IHe1; exact H2].
  - rewrite !andb_true_iff. intros [H1 H2]. split; [exact H1|apply IHe1; exact H2].
  - rewrite !forallb_forall. intros Hp a Ha. rewrite Forall_forall in H. apply H; auto.
Qed.

Lemma expr_eok_pos G env0 e0 env e : eager_in_expr env0 e0 env e -> expr_eok G env0 e0 = true -> eager_ok G env e = true.
Proof.
  induction 1; cbn [expr_eok]; intros Hok.
  - apply IHeager_in_expr. rewrite forallb_forall in Hok. apply Hok. assumption.
  - apply IHeager_in_expr. rewrite forallb_forall in Hok. apply Hok. assumption.
  - apply IHeager_in_expr. rewrite forallb_forall in Hok. apply Hok. assumption.
  - apply IHeager_in_expr. exact Hok.
  - apply andb_true_iff in Hok. apply Hok.
  - apply andb_true_iff in Hok. apply IHeager_in_expr. apply eager_ok_expr_eok. apply Hok.
  - apply andb_true_iff in Hok. apply IHeager_in_expr. apply Hok.
  - apply andb_true_iff in Hok. apply Hok.
  - apply andb_true_iff in Hok. apply IHeager_in_expr. apply eager_ok_expr_eok. apply Hok.
  - apply andb_true_iff in Hok. apply IHeager_in_expr. apply Hok.
Qed.

Lemma var_exprs_eok G env v e0 : var_eok G env v = true -> In e0 (var_exprs v) -> expr_eok G env e0 = true.
Proof. destruct v; cbn [var_eok var_exprs]; intros H Hin; [destruct Hin|]. destruct Hin as [<-|[]]. exact H. Qed.
Lemma attrs_exprs_eok G env attrs e0 : forallb (attr_eok G env) attrs = true -> In e0 (map attr_expr attrs) -> expr_eok G env e0 = true.
Proof.
  rewrite forallb_forall. intros H Hin. apply in_map_iff in Hin. destruct Hin as ([name e] & <- & Ha). apply (H _ Ha).
Qed.

Lemma stmt_exprs_eok G env s e0 : stmt_eok G env s = true -> In e0 (stmt_exprs s) -> expr_eok G env e0 = true.
Proof.
  destruct s; cbn [stmt_eok stmt_exprs]; rewrite ?andb_true_iff; intros H Hin.
  - destruct H as [H1 H2]. destruct Hin as [<-|Hin]; [exact H1|eapply var_exprs_eok; eassumption].
  - destruct H as [H1 H2]. destruct Hin as [<-|Hin]; [exact H1|eapply var_exprs_eok; eassumption].
  - destruct H as [H1 H2]. destruct Hin as [<-|Hin]; [exact H1|eapply var_exprs_eok; eassumption].
  - eapply var_exprs_eok; eassumption.
  - destruct H as [H1 H2]. destruct Hin as [<-|Hin]; [exact H1|eapply attrs_exprs_eok; eassumption].
  - destruct H as [H1 H2]. destruct Hin as [<-|[<-|[]]]; assumption.
  - destruct H as [[H1 H2] H3]. destruct Hin as [<-|[<-|Hin]]; [exact H1|exact H2|eapply attrs_exprs_eok; eassumption].
  - destruct H as [H1 H2]. destruct Hin as [<-|[]]. apply eager_ok_expr_eok. exact H1.
  - rewrite forallb_forall in H. apply H. exact Hin.
  - apply in_flat_map in Hin. destruct Hin as ([[conds body] al] & Harm & Hc). cbn [fst] in Hc.
    rewrite forallb_forall in H. specialize (H _ Harm). cbv beta iota in H. apply andb_true_iff in H. destruct H as [H1 _].
    apply in_map_iff in Hc. destruct Hc as (c & <- & Hc). rewrite forallb_forall in H1. apply eager_ok_expr_eok. apply (H1 _ Hc).
  - destruct H as [H1 H2]. destruct Hin as [<-|[]]. apply eager_ok_expr_eok. exact H1.
Qed.

Lemma eok_pos G :
  (forall env0 s env e, eager_in_stmt G env0 s env e -> stmt_eok G env0 s = true -> eager_ok G env e = true) /\
  (forall env0 b env e, eager_in_block G env0 b env e -> block_eok G env0 b = true -> eager_ok G env e = true).
Proof.
  apply eager_in_mutind.
  - intros env0 s e0 env e Hin Hpos Hok. eapply expr_eok_pos; [exact Hpos|]. eapply stmt_exprs_eok; eassumption.
  - intros env0 v arms l. cbn [stmt_eok]. rewrite andb_true_iff. intros [H _]. exact H.
  - intros env0 arms l conds body al c Harm Hc. cbn [stmt_eok]. rewrite forallb_forall. intros H. specialize (H _ Harm).
    cbv beta iota in H. apply andb_true_iff in H. destruct H as [H _]. rewrite forallb_forall in H. apply (H _ Hc).
  - intros env0 x xl v body l. cbn [stmt_eok]. rewrite andb_true_iff. intros [H _]. exact H.
  - intros env0 v arms l rx body al env e Harm _ IH. cbn [stmt_eok]. rewrite andb_true_iff, forallb_forall. intros [_ H].
    specialize (H _ Harm). cbv beta iota in H. apply IH. exact H.
  - intros env0 arms l conds body al env e Harm _ IH. cbn [stmt_eok]. rewrite forallb_forall. intros H.
    specialize (H _ Harm). cbv beta iota in H. apply andb_true_iff in H. apply IH. apply H.
  - intros env0 x xl v body l env e _ IH. cbn [stmt_eok]. rewrite andb_true_iff. intros [_ H]. apply IH. exact H.
  - intros env0 s rest env e _ IH. unfold block_eok. cbn [seq_eok]. rewrite andb_true_iff. intros [H _]. apply IH. exact H.
  - intros env0 s rest env e _ IH. unfold block_eok. cbn [seq_eok]. rewrite andb_true_iff. intros [_ H]. apply IH. exact H.
Qed.

Lemma file_eok_pos f env e : file_eok f = true -> eager_in_file f env e -> eager_ok (is_global f) env e = true.
Proof.
  unfold file_eok, eager_in_file. rewrite forallb_forall. intros H (st & Hst & Hpos).
  eapply (proj2 (eok_pos (is_global f))); [exact Hpos|]. apply (H _ Hst).
Qed.
