(* Proofs/ScPermEvalSwap.v — C08 WITH scoped variables, part 10: the EVALUATION PHASE on two states related by SR.
   If the evaluation phase succeeds on the typed state S, then (soundness, ScPermSound.v) the deferred statements denote
   graph operations under `cev`, every thunk has a value and every cell forces; the denotations are carried to S' by the
   renumbering (ScPermRen.v), where the cells hold the permuted definitions (PermFacts.v); so (adequacy, ScPermAdeq.v)
   the evaluation phase of S' converges, and the graphs are isomorphic (BlockPermGraph.v: renamed and permuted operation
   lists). *)
From Coq Require Import Permutation.
From TSG Require Import Model.Lazy Proofs.BaseFacts Proofs.Containers Proofs.MonadFacts Proofs.SLGraph Proofs.SLForce Proofs.SLExpr Proofs.SLConv Proofs.SLStmt
  Proofs.Scoped Proofs.PermFacts Proofs.EvalPerm Proofs.EvalPermLazy Proofs.SL2Force
  Proofs.BlockPermRen Proofs.BlockPermSim Proofs.BlockPermSwap Proofs.BlockPermDen Proofs.BlockPermGraph
  Proofs.ScPermCbn Proofs.ScPermSound Proofs.ScPermAdeq Proofs.ScPermRen Proofs.ScPermSim Proofs.ScPermSwap Proofs.ScPermTyped Proofs.ScPermSR Proofs.ScPermExec.

(* ---------------- typed lazy values only call functions of okfn ---------------- *)
Lemma lvall_lvok okfn D L lv : lvall okfn D L lv -> lvok okfn lv.
Proof.
  induction lv as [v|l IH|l IH|loc|sc name IH|f args IH] using lv_ind.
  - intros _. exact I.
  - rewrite lvall_list, lvok_list. intros H. rewrite Forall_forall in *. intros x Hx. apply IH; auto.
  - rewrite lvall_set, lvok_set. intros H. rewrite Forall_forall in *. intros x Hx. apply IH; auto.
  - intros _. exact I.
  - cbn [lvall]. intros [].
  - rewrite lvall_call, lvok_call. intros [Hf H]. split; [exact Hf|]. rewrite Forall_forall in *. intros x Hx. apply IH; auto.
Qed.
Lemma mvall_lvok okfn D L lv : mvall okfn D L lv -> lvok okfn lv.
Proof.
  induction lv as [v|l IH|l IH|loc|sc name IH|f args IH] using lv_ind; cbn [mvall]; intros [H|H]; try (eapply lvall_lvok; eauto; fail); try contradiction.
  - apply mvall_all in H. apply lvok_list. rewrite Forall_forall in *. intros x Hx. apply IH; auto.
  - cbn [lvok]. apply IH, H.
Qed.
Lemma msall_lsok okfn D L st : msall ea0 okfn D L st -> lsok okfn st.
Proof.
  assert (Hat : forall l, Forall (matall okfn D L) l -> Forall (fun a : ident * lvalue => lvok okfn (snd a)) l).
  { intros l H. eapply Forall_impl; [|exact H]. intros a. apply mvall_lvok. }
  destruct st; cbn [msall lsok].
  - intros [H1 H2]. split; [eapply mvall_lvok; eauto|apply Hat, H2].
  - intros (H1 & H2 & H3). split; [eapply mvall_lvok; eauto|]. split; [eapply mvall_lvok; eauto|exact H3].
  - intros (H1 & H2 & H3). split; [eapply mvall_lvok; eauto|]. split; [eapply mvall_lvok; eauto|apply Hat, H3].
  - intros H. eapply Forall_impl; [|exact H]. intros [lv|]; auto. apply mvall_lvok.
Qed.
Lemma lvok_lvren okfn rg rl lv : lvok okfn lv -> lvok okfn (lvren rg rl lv).
Proof.
  induction lv as [v|l IH|l IH|loc|sc name IH|f args IH] using lv_ind; cbn [lvren].
  - intros _. exact I.
  - rewrite !lvok_list. intros H. apply Forall_forall. intros y Hy. apply in_map_iff in Hy as (x & <- & Hx). rewrite Forall_forall in *. apply IH; auto.
  - rewrite !lvok_set. intros H. apply Forall_forall. intros y Hy. apply in_map_iff in Hy as (x & <- & Hx). rewrite Forall_forall in *. apply IH; auto.
  - intros _. exact I.
  - cbn [lvok]. exact IH.
  - rewrite !lvok_call. intros [Hf H]. split; [exact Hf|]. apply Forall_forall. intros y Hy. apply in_map_iff in Hy as (x & <- & Hx). rewrite Forall_forall in *. apply IH; auto.
Qed.
Lemma lsok_lsren okfn rg rl st : lsok okfn st -> lsok okfn (lsren rg rl st).
Proof.
  assert (Hat : forall l, Forall (fun a : ident * lvalue => lvok okfn (snd a)) l -> Forall (fun a : ident * lvalue => lvok okfn (snd a)) (map (atren rg rl) l)).
  { intros l H. apply Forall_forall. intros y Hy. apply in_map_iff in Hy as (x & <- & Hx). rewrite Forall_forall in H. unfold atren. cbn [snd]. apply lvok_lvren, H, Hx. }
  destruct st; cbn [lsok lsren].
  - intros [H1 H2]. split; [apply lvok_lvren, H1|apply Hat, H2].
  - intros (H1 & H2 & H3). split; [apply lvok_lvren, H1|]. split; [apply lvok_lvren, H2|exact H3].
  - intros (H1 & H2 & H3). split; [apply lvok_lvren, H1|]. split; [apply lvok_lvren, H2|apply Hat, H3].
  - intros H. apply Forall_forall. intros y Hy. apply in_map_iff in Hy as (x & <- & Hx). rewrite Forall_forall in H. specialize (H _ Hx).
    destruct x as [lv|]; cbn [option_map]; [apply lvok_lvren, H|exact I].
Qed.

Lemma body_of_thren rg rl th : body_of (thren rg rl th) = option_map (lvren rg rl) (body_of th).
Proof. destruct th as [st dbg]. unfold body_of, thren. cbn [th_state]. destruct st; reflexivity. Qed.
Lemma thall_body okfn D L th lv : thall okfn D L th -> body_of th = Some lv -> lvall okfn D L lv.
Proof. unfold thall, body_of. destruct (th_state th); cbn [tsall]; intros H [= <-]; exact H. Qed.

(* the values of a forced cell are values of its definitions *)
Lemma cell_val_values ps m n lv : cell_val (SVUnforced ps) = Some m -> nmap_get m n = Some lv -> exists pr, In pr ps /\ snd (fst pr) = lv.
Proof.
  cbn [cell_val]. destruct (forallb synscope ps); [|discriminate]. destruct (build node_of ps [] []) as [m0|] eqn:Eb; [|discriminate]. intros [= <-] Hn.
  rewrite (build_lookup node_of ps [] [] m0 n Eb) in Hn by (intros k Hk; exfalso; apply Hk; reflexivity). cbn [nmap_get] in Hn.
  apply first_some_In in Hn as (pr & Hin & Hp). exists pr. split; [exact Hin|]. destruct (N.eqb n (node_of (fst (fst pr)))); [congruence|discriminate].
Qed.

(* ---------------- forcing renamed definitions ---------------- *)
Section BuildRen.
  Variables rg rl : N -> N.
  Definition hren (kv : N * lvalue) : N * lvalue := (fst kv, lvren rg rl (snd kv)).
  Lemma nmap_get_hren m n : nmap_get (map hren m) n = option_map (lvren rg rl) (nmap_get m n).
  Proof. induction m as [|[k v] m IH]; cbn [map hren nmap_get fst snd option_map]; [reflexivity|]. destruct (N.eqb n k); [reflexivity|exact IH]. Qed.
  Lemma synscope_prren pr : synscope pr = true -> synscope (prren rg rl pr) = true /\ node_of (fst (fst (prren rg rl pr))) = node_of (fst (fst pr)).
  Proof. destruct pr as [[sc v] dbg]. unfold synscope, prren. cbn [fst snd]. destruct sc as [sv| | | | |]; try discriminate. destruct sv; try discriminate. intros _. split; reflexivity. Qed.
  Lemma build_ren ps : forallb synscope ps = true -> forall vals dbgs,
    build node_of (map (prren rg rl) ps) (map hren vals) dbgs = match build node_of ps vals dbgs with inl m => inl (map hren m) | inr e => inr e end.
  Proof.
    induction ps as [|[[sc v] dbg] ps IH]; intros Hs vals dbgs; cbn [map build]; [reflexivity|]. cbn [forallb] in Hs. apply andb_prop in Hs as [Hs1 Hs2].
    destruct (synscope_prren (sc, v, dbg) Hs1) as [_ Hn]. unfold prren in *. cbn [fst snd] in *. rewrite Hn, nmap_get_hren.
    destruct (nmap_get vals (node_of sc)); cbn [option_map].
    - destruct (dbg_get dbgs (node_of sc)); reflexivity.
    - specialize (IH Hs2 (vals ++ [(node_of sc, v)]) (dbgs ++ [(node_of sc, dbg)])). rewrite map_app in IH. exact IH.
  Qed.
  Lemma forallb_synscope_ren ps : forallb synscope ps = true -> forallb synscope (map (prren rg rl) ps) = true.
  Proof. induction ps as [|pr ps IH]; cbn [map forallb]; [reflexivity|]. intros H. apply andb_prop in H as [H1 H2]. rewrite (proj1 (synscope_prren pr H1)), (IH H2). reflexivity. Qed.

  (* a cell and a permutation of its renamed definitions force alike *)
  Lemma cell_val_perm ps ps' m : cell_val (SVUnforced ps) = Some m -> Permutation (map (prren rg rl) ps) ps' ->
    exists m', cell_val (SVUnforced ps') = Some m' /\ forall n, nmap_get m' n = option_map (lvren rg rl) (nmap_get m n).
  Proof.
    cbn [cell_val]. destruct (forallb synscope ps) eqn:Hsy; [|discriminate]. destruct (build node_of ps [] []) as [m0|] eqn:Eb; [|discriminate]. intros [= <-] HP.
    pose proof (build_ren ps Hsy [] []) as Hbr. cbn [map] in Hbr. rewrite Eb in Hbr.
    destruct (scoped_force_perm_lemma node_of _ _ HP) as [Hex Hlook]. destruct (proj1 Hex (ex_intro _ _ Hbr)) as [m' Hm'].
    exists m'. rewrite Hm'.
    assert (Hsy' : forallb synscope ps' = true).
    { apply forallb_forall. intros pr Hin. pose proof (forallb_synscope_ren ps Hsy) as H. rewrite forallb_forall in H. apply H. eapply Permutation_in; [apply Permutation_sym, HP|exact Hin]. }
    rewrite Hsy'. split; [reflexivity|]. intros n. rewrite <- (Hlook _ _ n Hbr Hm'). apply nmap_get_hren.
  Qed.
End BuildRen.

(* a state without thunks or cells under evaluation is consistent with its own environment *)
Lemma ainv_self t fl call s : (forall i th, nth_error (l_store s) i = Some th -> th_state th <> TForcing) ->
  (forall name c, alist_get name (l_scoped s) = Some c -> exists ps, c = SVUnforced ps /\ scopes_lit ps) ->
  ainv t fl call (env_of s) s /\ noforcing s.
Proof.
  intros Hth Hc. split; [split; [|split]|].
  - intros i th Ei. unfold thunk_inv. destruct (th_state th) as [lv| |v] eqn:Est.
    + cbn [env_of se_body]. rewrite Ei. unfold body_of. rewrite Est. reflexivity.
    + exact I.
    + apply (cevv_var t fl call (env_of s) (N.of_nat i) (LValue v) v); [|apply cevv_value]. cbn [env_of se_body]. rewrite Nat2N.id, Ei. unfold body_of. rewrite Est. reflexivity.
  - intros i b Hb. cbn [env_of se_body] in Hb. destruct (nth_error (l_store s) i) as [th|]; [eauto|discriminate].
  - intros name. unfold acell_inv. cbn [env_of se_cell]. destruct (alist_get name (l_scoped s)) as [c|] eqn:Ec; [|reflexivity].
    destruct (Hc _ _ Ec) as (ps & -> & Hl). split; [exact Hl|reflexivity].
  - intros i (th & Ei & Hf). apply (Hth _ _ Ei Hf).
Qed.

(* ---------------- what the evaluation-phase argument needs from the typing of the first state ---------------- *)
Definition evty (okfn : ident -> Prop) (g0 : graph) (rg : N -> N) (S : lstate) : Prop :=
  exists bdsDL : list ((N -> Prop) * (N -> Prop)),
    evalable2 okfn S /\
    (forall D L, In (D, L) bdsDL -> forall i j, D i -> D j -> i < j -> rg i < rg j) /\
    (forall D L, In (D, L) bdsDL -> forall loc lv, L loc -> se_body (env_of S) (N.to_nat loc) = Some lv -> lvall okfn D L lv) /\
    (forall i lv, se_body (env_of S) i = Some lv -> mty okfn bdsDL lv) /\
    (forall name m n lv, se_cell (env_of S) name = Some m -> nmap_get m n = Some lv -> mty okfn bdsDL lv) /\
    Forall (lsmty okfn bdsDL) (l_edges S) /\ Forall (lsmty okfn bdsDL) (l_attrs S) /\ Forall (lsmty okfn bdsDL) (l_prints S) /\
    (forall name c, alist_get name (l_scoped S) = Some c -> exists ps, c = SVUnforced ps /\ Forall (pair_ok (sn S)) ps) /\
    (exists ns, l_graph S = g0 ++ ns /\ Forall nplain ns).

Lemma pair_ok_lit top ps : Forall (pair_ok top) ps -> scopes_lit ps.
Proof. intros H. eapply Forall_impl; [|exact H]. intros pr [(v & Hv & _) _]. eauto. Qed.
Lemma body_S S i lv : se_body (env_of S) i = Some lv -> exists th, nth_error (l_store S) i = Some th /\ body_of th = Some lv.
Proof. cbn [env_of se_body]. destruct (nth_error (l_store S) i) as [th|]; [eauto|discriminate]. Qed.

(* the typed states of Proofs/ScPermTyped.v provide it *)
Section OldTy.
  Variable okfn : ident -> Prop.
  Variable g0 : graph.
  Notation n0 := (N.of_nat (length g0)).
  Variables (rg : N -> N) (bds : list bdesc) (S : lstate).
  Hypothesis Ht : styped okfn g0 bds S.
  Hypothesis Hmono : forall d, In d bds -> forall i j, bD n0 d i -> bD n0 d j -> i < j -> rg i < rg j.
  Notation E := (env_of S).
  Definition bdsDL : list ((N -> Prop) * (N -> Prop)) := map (fun d => (bD n0 d, bL d)) bds.

  Lemma in_bdsDL D L : In (D, L) bdsDL -> exists d, In d bds /\ D = bD n0 d /\ L = bL d.
  Proof. unfold bdsDL. intros H. apply in_map_iff in H as (d & Hd & Hin). inversion Hd; subst. eauto. Qed.
  Lemma cells_S name c : alist_get name (l_scoped S) = Some c -> exists ps, c = SVUnforced ps /\ Forall (pair_ok (sn S)) ps.
  Proof.
    intros Ec. destruct Ht as (_ & _ & _ & _ & _ & (Hu & Hc) & _). destruct (Hu _ _ Ec) as [ps ->]. exists ps. split; [reflexivity|].
    specialize (Hc name). unfold cellps in Hc. rewrite Ec in Hc. exact Hc.
  Qed.
  Lemma env_ok_S : env_ok okfn E.
  Proof.
    split.
    - intros i lv Hb. destruct (body_S S i lv Hb) as (th & Ei & Hbo). destruct Ht as (_ & Hth & _). destruct (Hth i th Ei) as ((d & Hd & HL) & Hall).
      eapply lvall_lvok. eapply thall_body; [apply (Hall d Hd HL)|exact Hbo].
    - intros name m n lv Hc Hn. cbn [env_of se_cell] in Hc. destruct (alist_get name (l_scoped S)) as [c|] eqn:Ec; [|discriminate].
      destruct (cells_S name c Ec) as (ps & -> & Hps). destruct (cell_val_values ps m n lv Hc Hn) as (pr & Hin & <-).
      rewrite Forall_forall in Hps. destruct (Hps pr Hin) as [_ (loc & -> & _)]. exact I.
  Qed.
  Lemma stmts_ok K l : stmts_typed okfn g0 K bds l -> Forall (fun st => K st /\ lsok okfn st) l.
  Proof. intros H. eapply Forall_impl; [|exact H]. intros st [HK (d & _ & Hm)]. split; [exact HK|eapply msall_lsok; eauto]. Qed.
  Lemma evalable_S : evalable2 okfn S.
  Proof.
    destruct Ht as (_ & _ & He & Ha & Hp & _). split; [|split; [apply stmts_ok, He|split; [apply stmts_ok, Ha|split; [apply stmts_ok, Hp|exact env_ok_S]]]].
    intros name c Ec. destruct (cells_S name c Ec) as (ps & -> & Hps). eapply pair_ok_lit; eauto.
  Qed.
  Lemma T1 : forall D L, In (D, L) bdsDL -> forall i j, D i -> D j -> i < j -> rg i < rg j.
  Proof. intros D L Hin. destruct (in_bdsDL D L Hin) as (d & Hd & -> & ->). apply (Hmono d Hd). Qed.
  Lemma T2 : forall D L, In (D, L) bdsDL -> forall loc lv, L loc -> se_body E (N.to_nat loc) = Some lv -> lvall okfn D L lv.
  Proof.
    intros D L Hin loc lv HL Hb. destruct (in_bdsDL D L Hin) as (d & Hd & -> & ->). destruct (body_S S _ lv Hb) as (th & Ei & Hbo).
    destruct Ht as (_ & Hth & _). destruct (Hth _ th Ei) as (_ & Hall). rewrite N2Nat.id in Hall. specialize (Hall d Hd HL).
    eapply lvall_impl; [| |eapply thall_body; [exact Hall|exact Hbo]]; [auto|]. intros l [H1 H2]. unfold bL in *. lia.
  Qed.
  Lemma T3 : forall i lv, se_body E i = Some lv -> mty okfn bdsDL lv.
  Proof.
    intros i lv Hb. destruct (body_S S i lv Hb) as (th & Ei & Hbo). destruct Ht as (_ & Hth & _). destruct (Hth i th Ei) as ((d & Hd & HL) & _).
    apply (mty_local okfn bdsDL (bD n0 d) (bL d)); [unfold bdsDL; apply in_map_iff; exists d; auto|].
    apply (T2 (bD n0 d) (bL d)) with (loc := N.of_nat i); [unfold bdsDL; apply in_map_iff; exists d; auto|exact HL|rewrite Nat2N.id; exact Hb].
  Qed.
  Lemma T4 : forall name m n lv, se_cell E name = Some m -> nmap_get m n = Some lv -> mty okfn bdsDL lv.
  Proof.
    intros name m n lv Hc Hn. cbn [env_of se_cell] in Hc. destruct (alist_get name (l_scoped S)) as [c|] eqn:Ec; [|discriminate].
    destruct (cells_S name c Ec) as (ps & -> & Hps). destruct (cell_val_values ps m n lv Hc Hn) as (pr & Hin & <-).
    rewrite Forall_forall in Hps. destruct (Hps pr Hin) as [_ (loc & -> & _)]. cbn [mty]. right. exact I.
  Qed.
  Lemma mvall_mty d lv : In d bds -> mvall okfn (bD n0 d) (bL d) lv -> mty okfn bdsDL lv.
  Proof.
    intros Hd. assert (Hin : In (bD n0 d, bL d) bdsDL) by (unfold bdsDL; apply in_map_iff; exists d; auto).
    induction lv as [v|l IH|l IH|loc|sc name IH|f args IH] using lv_ind; cbn [mvall]; intros [H|H]; try (eapply mty_local; eauto; fail); try contradiction.
    - cbn [mty]. right. apply mvall_all in H. apply mty_all. rewrite Forall_forall in *. intros x Hx. apply IH; auto.
    - cbn [mty]. right. apply IH, H.
  Qed.
  Lemma stmts_mty K l : stmts_typed okfn g0 K bds l -> Forall (lsmty okfn bdsDL) l.
  Proof.
    intros H. eapply Forall_impl; [|exact H]. intros st [_ (d & Hd & Hm)].
    assert (Hat : forall l0, Forall (matall okfn (bD n0 d) (bL d)) l0 -> Forall (fun a : ident * lvalue => mty okfn bdsDL (snd a)) l0).
    { intros l0 H0. eapply Forall_impl; [|exact H0]. intros a. apply mvall_mty, Hd. }
    destruct st; cbn [msall lsmty] in *.
    - destruct Hm as [H1 H2]. split; [eapply mvall_mty; eauto|apply Hat, H2].
    - destruct Hm as (H1 & H2 & _). split; eapply mvall_mty; eauto.
    - destruct Hm as (H1 & H2 & H3). split; [eapply mvall_mty; eauto|]. split; [eapply mvall_mty; eauto|apply Hat, H3].
    - eapply Forall_impl; [|exact Hm]. intros [lv|]; auto. apply mvall_mty, Hd.
  Qed.
  Lemma styped_evty : evty okfn g0 rg S.
  Proof.
    exists bdsDL. split; [exact evalable_S|]. split; [exact T1|]. split; [exact T2|]. split; [exact T3|]. split; [exact T4|].
    pose proof Ht as (_ & _ & Tye & Tya & Typ & _ & Hg). split; [apply (stmts_mty is_estmt), Tye|]. split; [apply (stmts_mty is_astmt), Tya|]. split; [apply (stmts_mty is_pstmt), Typ|].
    split; [exact cells_S|exact Hg].
  Qed.
End OldTy.

Section EvalSwap.
  Variables (t : tree) (fl : file) (call : ident -> graph -> list value -> res (value * graph)).
  Variable okfn : ident -> Prop.
  Hypothesis Hcall : forall f, okfn f -> call_ok call f.
  Variable g0 : graph.
  Notation n0 := (N.of_nat (length g0)).
  Hypothesis Hcl : gclosed n0 g0.
  Variables (rg rl rg' rl' : N -> N) (S S' : lstate).
  Hypothesis HSR : SR g0 rg rl S S'.
  Hypothesis Hrgid : forall i, i < n0 \/ gn S <= i -> rg i = i.
  Hypothesis Hrlid : forall l, sn S <= l -> rl l = l.
  Hypothesis Irg : forall i, rg' (rg i) = i.
  Hypothesis Irl' : forall l, rl (rl' l) = l.
  Notation E := (env_of S).
  Notation E' := (env_of S').
  (* the typing interface, unpacked *)
  Variable bdsDL : list ((N -> Prop) * (N -> Prop)).
  Hypothesis evalable_S : evalable2 okfn S.
  Hypothesis T1 : forall D L, In (D, L) bdsDL -> forall i j, D i -> D j -> i < j -> rg i < rg j.
  Hypothesis T2 : forall D L, In (D, L) bdsDL -> forall loc lv, L loc -> se_body E (N.to_nat loc) = Some lv -> lvall okfn D L lv.
  Hypothesis T3 : forall i lv, se_body E i = Some lv -> mty okfn bdsDL lv.
  Hypothesis T4 : forall name m n lv, se_cell E name = Some m -> nmap_get m n = Some lv -> mty okfn bdsDL lv.
  Hypothesis Mte : Forall (lsmty okfn bdsDL) (l_edges S).
  Hypothesis Mta : Forall (lsmty okfn bdsDL) (l_attrs S).
  Hypothesis Mtp : Forall (lsmty okfn bdsDL) (l_prints S).
  Hypothesis cells_S : forall name c, alist_get name (l_scoped S) = Some c -> exists ps, c = SVUnforced ps /\ Forall (pair_ok (sn S)) ps.
  Hypothesis graph_S : exists ns, l_graph S = g0 ++ ns /\ Forall nplain ns.

  Lemma env_ok_S' : env_ok okfn E. Proof. apply evalable_S. Qed.

  Lemma R1 : forall i lv, se_body E i = Some lv -> se_body E' (N.to_nat (rl (N.of_nat i))) = Some (lvren rg rl lv).
  Proof.
    intros i lv Hb. destruct (body_S S i lv Hb) as (th & Ei & Hbo). destruct HSR as (_ & (_ & Hst) & _). cbn [env_of se_body]. rewrite (Hst i th Ei), body_of_thren, Hbo. reflexivity.
  Qed.
  Lemma R2 : forall name m, se_cell E name = Some m -> exists m', se_cell E' name = Some m' /\ forall n, nmap_get m' n = option_map (lvren rg rl) (nmap_get m n).
  Proof.
    intros name m Hc. cbn [env_of se_cell] in Hc. destruct (alist_get name (l_scoped S)) as [c|] eqn:Ec; [|discriminate].
    destruct (cells_S name c Ec) as (ps & -> & _). destruct HSR as (_ & _ & _ & _ & _ & (Hu' & Hcs)). destruct (Hcs name) as [Hnone Hperm].
    unfold cellps in Hperm. rewrite Ec in Hperm. cbn [env_of se_cell]. destruct (alist_get name (l_scoped S')) as [c'|] eqn:Ec'.
    - destruct (Hu' _ _ Ec') as [ps' ->]. apply (cell_val_perm rg rl ps ps' m Hc Hperm).
    - exfalso. destruct Hnone as [_ Hn]. specialize (Hn eq_refl). congruence.
  Qed.

  (* ---- the other state ---- *)
  Lemma len_eq : length (l_store S) = length (l_store S'). Proof. apply HSR. Qed.
  Lemma sn_len : sn S = N.of_nat (length (l_store S)). Proof. reflexivity. Qed.
  Lemma rl_surj i' : (i' < length (l_store S'))%nat -> exists j, (j < length (l_store S))%nat /\ rl (N.of_nat j) = N.of_nat i'.
  Proof.
    intros Hi. exists (N.to_nat (rl' (N.of_nat i'))). rewrite N2Nat.id, Irl'. split; [|reflexivity].
    destruct (Nat.lt_ge_cases (N.to_nat (rl' (N.of_nat i'))) (length (l_store S))) as [Hlt|Hge]; [exact Hlt|]. exfalso.
    pose proof (Hrlid (rl' (N.of_nat i')) ltac:(rewrite sn_len; lia)) as Hfix. rewrite Irl' in Hfix.
    rewrite <- Hfix in Hge. rewrite Nat2N.id in Hge. rewrite len_eq in Hge. lia.
  Qed.
  Lemma thunks_S' i' th' : nth_error (l_store S') i' = Some th' ->
    exists j th, nth_error (l_store S) j = Some th /\ rl (N.of_nat j) = N.of_nat i' /\ th' = thren rg rl th.
  Proof.
    intros Ei. assert (Hi : (i' < length (l_store S'))%nat) by (apply nth_error_Some; congruence). destruct (rl_surj i' Hi) as (j & Hj & Hrl).
    destruct (nth_error (l_store S) j) as [th|] eqn:Ej; [|apply nth_error_None in Ej; lia]. exists j, th. split; [exact Ej|]. split; [exact Hrl|].
    destruct HSR as (_ & (_ & Hst) & _). specialize (Hst j th Ej). rewrite Hrl, Nat2N.id, Ei in Hst. congruence.
  Qed.
  Lemma cells_S' name c' : alist_get name (l_scoped S') = Some c' ->
    exists ps ps', c' = SVUnforced ps' /\ alist_get name (l_scoped S) = Some (SVUnforced ps) /\ Forall (pair_ok (sn S)) ps /\ Permutation (map (prren rg rl) ps) ps'.
  Proof.
    intros Ec'. destruct HSR as (_ & _ & _ & _ & _ & (Hu' & Hcs)). destruct (Hu' _ _ Ec') as [ps' ->]. destruct (Hcs name) as [Hnone Hperm].
    destruct (alist_get name (l_scoped S)) as [c|] eqn:Ec; [|destruct Hnone as [Hn _]; specialize (Hn eq_refl); congruence].
    destruct (cells_S name c Ec) as (ps & -> & Hps). exists ps, ps'. split; [reflexivity|]. split; [reflexivity|]. split; [exact Hps|].
    unfold cellps in Hperm. rewrite Ec, Ec' in Hperm. exact Hperm.
  Qed.
  Lemma pairs_S' ps ps' pr' : Forall (pair_ok (sn S)) ps -> Permutation (map (prren rg rl) ps) ps' -> In pr' ps' ->
    (exists v, fst (fst pr') = LValue v) /\ (exists loc, snd (fst pr') = LVar loc).
  Proof.
    intros Hps HP Hin. apply (Permutation_in _ (Permutation_sym HP)) in Hin. apply in_map_iff in Hin as (pr & <- & Hin). rewrite Forall_forall in Hps.
    destruct (Hps pr Hin) as [(v & Hv & _) (loc & Hl & _)]. unfold prren. cbn [fst snd]. rewrite Hv, Hl. cbn [lvren]. eauto.
  Qed.
  Lemma env_ok_S2 : env_ok okfn E'.
  Proof.
    split.
    - intros i' lv' Hb. cbn [env_of se_body] in Hb. destruct (nth_error (l_store S') i') as [th'|] eqn:Ei; [|discriminate].
      destruct (thunks_S' i' th' Ei) as (j & th & Ej & _ & ->). rewrite body_of_thren in Hb. destruct (body_of th) as [lv|] eqn:Hbo; [|discriminate].
      cbn [option_map] in Hb. inversion Hb; subst lv'. apply lvok_lvren. apply (proj1 env_ok_S' j lv). cbn [env_of se_body]. rewrite Ej. exact Hbo.
    - intros name m n lv Hc Hn. cbn [env_of se_cell] in Hc. destruct (alist_get name (l_scoped S')) as [c'|] eqn:Ec'; [|discriminate].
      destruct (cells_S' name c' Ec') as (ps & ps' & -> & _ & Hps & HP). destruct (cell_val_values ps' m n lv Hc Hn) as (pr' & Hin & <-).
      destruct (pairs_S' ps ps' pr' Hps HP Hin) as [_ (loc & ->)]. exact I.
  Qed.

  Lemma Forall2_edge_ren l eops : Forall (lsmty okfn bdsDL) l -> Forall2 (sden_edge t fl call E) l eops ->
    Forall2 (sden_edge t fl call E') (map (lsren rg rl) l) (map (ere rg) eops).
  Proof.
    intros Hm HF. induction HF as [|st e l eops Hd HF IH]; cbn [map]; [constructor|]. inversion Hm; subst. constructor; [|apply IH; assumption].
    apply (sden_edge_ren t fl call okfn Hcall E E' rg rl bdsDL T1 T2 T3 T4 R1 R2); assumption.
  Qed.
  Lemma Forall2_astmt_ren l aopss : Forall (lsmty okfn bdsDL) l -> Forall2 (sden_astmt t fl call E) l aopss ->
    Forall2 (sden_astmt t fl call E') (map (lsren rg rl) l) (map (map (are rg)) aopss).
  Proof.
    intros Hm HF. induction HF as [|st e l eops Hd HF IH]; cbn [map]; [constructor|]. inversion Hm; subst. constructor; [|apply IH; assumption].
    apply (sden_astmt_ren t fl call okfn Hcall E E' rg rl bdsDL T1 T2 T3 T4 R1 R2); assumption.
  Qed.
  Lemma Forall_print_ren l : Forall (lsmty okfn bdsDL) l -> Forall (sprint_ok t fl call E) l -> Forall (sprint_ok t fl call E') (map (lsren rg rl) l).
  Proof.
    intros Hm HF. induction HF as [|st l Hd HF IH]; cbn [map]; [constructor|]. inversion Hm; subst. constructor; [|apply IH; assumption].
    apply (sprint_ok_ren t fl call okfn Hcall E E' rg rl bdsDL T1 T2 T3 T4 R1 R2); assumption.
  Qed.
  Lemma lsok_perm (K : lstmt -> Prop) l l' : Forall (fun st => K st /\ lsok okfn st) l -> Permutation (map (lsren rg rl) l) l' -> Forall (lsok okfn) l'.
  Proof.
    intros Hok HP. eapply Permutation_Forall; [exact HP|]. apply Forall_forall. intros y Hy. apply in_map_iff in Hy as (x & <- & Hx).
    apply lsok_lsren. rewrite Forall_forall in Hok. apply (Hok x Hx).
  Qed.

  Lemma inj_rg : inj rg. Proof. intros i j Hij. rewrite <- (Irg i), <- (Irg j), Hij. reflexivity. Qed.

  Theorem eval_swap_gen pS pS' F1 u fin p1 : nob pS' -> evaluate_phase t fl call F1 S pS = Ok (u, fin, p1) ->
    exists F0, forall F, (F0 <= F)%nat -> exists fin' p', evaluate_phase t fl call F S' pS' = Ok (tt, fin', p') /\ graph_iso rg (l_graph fin) (l_graph fin').
  Proof.
    intros Hb' H. destruct (eval_sound t fl call okfn Hcall F1 S pS u fin p1 H evalable_S) as (eops & aopss & g1 & HFe & HFa & HFp & Hg1 & Hg2 & Hall & Hcells).
    pose proof evalable_S as (_ & Oke & Oka & Okp & _). destruct graph_S as (ns0 & Hg0 & Hpl0).
    pose proof HSR as ((ns & ns' & Hgs & Hgs' & Hlen & Hpl' & Hnth) & (Hsl & Hst) & Pe & Pa & Pp & (Hu' & Hcs)).
    (* the statements of S' denote the renamed operations, up to order *)
    destruct (Forall2_perm _ _ _ Pe _ (Forall2_edge_ren _ _ Mte HFe)) as (eops' & Pe' & HFe').
    destruct (Forall2_perm _ _ _ Pa _ (Forall2_astmt_ren _ _ Mta HFa)) as (aopss' & Pa' & HFa').
    assert (HFp' : Forall (sprint_ok t fl call E') (l_prints S')) by (eapply Permutation_Forall; [exact Pp|apply Forall_print_ren; [exact Mtp|exact HFp]]).
    (* the graphs before evaluation *)
    assert (Ens : ns0 = ns) by (rewrite Hg0 in Hgs; apply app_inv_head in Hgs; exact Hgs). subst ns0.
    assert (HI : giso rg (l_graph S) (l_graph S')).
    { rewrite Hgs, Hgs'. apply base_giso; try assumption; [exact inj_rg|intros i Hi; apply Hrgid; left; exact Hi|].
      intros i H1 H2. destruct (N.lt_ge_cases (rg i) n0) as [Hlt|Hge]; [|exact Hge]. exfalso.
      pose proof (Hrgid (rg i) (or_introl Hlt)) as Hfix. apply inj_rg in Hfix. lia. }
    assert (Hsorted : edges_sorted (l_graph S')) by (rewrite Hgs'; eapply base_sorted; eauto).
    assert (Pa2 : Permutation (map (are rg) (concat aopss)) (concat aopss')) by (rewrite concat_map; apply Permutation_concat, Pa').
    destruct (ops_perm_iso rg inj_rg _ _ _ _ _ _ _ _ HI Hsorted Hg1 Hg2 Pe' Pa2) as (g1' & g2' & Hg1' & Hg2' & Hiso).
    (* S' is consistent with its environment and nothing is being forced *)
    assert (HnfS : forall j th, nth_error (l_store S) j = Some th -> th_state th <> TForcing).
    { intros j th Ej Hf. assert (Hj : (j < length (l_store S))%nat) by (apply nth_error_Some; congruence). destruct (Hall j Hj) as [v Hv].
      apply cevv_var_inv in Hv as (b & Hb & _). cbn [env_of se_body] in Hb. rewrite Nat2N.id, Ej in Hb. unfold body_of in Hb. rewrite Hf in Hb. discriminate. }
    destruct (ainv_self t fl call S') as [HA' HN'].
    { intros i' th' Ei Hf. destruct (thunks_S' i' th' Ei) as (j & th & Ej & _ & ->). apply (HnfS j th Ej). destruct th as [st dbg]. cbn [thren th_state] in Hf. destruct st; cbn [tsren] in Hf; try discriminate. reflexivity. }
    { intros name c' Ec'. destruct (cells_S' name c' Ec') as (ps & ps' & -> & _ & Hps & HP). exists ps'. split; [reflexivity|].
      apply Forall_forall. intros pr' Hin. apply (pairs_S' ps ps' pr' Hps HP Hin). }
    assert (Hall' : forall i', (i' < length (l_store S'))%nat -> exists v, cevv t fl call E' (LVar (N.of_nat i')) v).
    { intros i' Hi. destruct (rl_surj i' Hi) as (j & Hj & Hrl). destruct (Hall j Hj) as [v Hv]. exists (vren rg v). rewrite <- Hrl.
      apply (cevv_ren t fl call okfn Hcall E E' rg rl bdsDL T1 T2 T3 T4 R1 R2 (LVar (N.of_nat j)) v); [cbn [mty]; right; exact I|exact Hv]. }
    assert (Htot : cells_total E' S').
    { intros name c' Ec'. destruct (cells_S' name c' Ec') as (ps & ps' & _ & Ec & _). pose proof (Hcells name _ Ec) as Hne.
      destruct (se_cell E name) as [m|] eqn:Em; [|congruence]. destruct (R2 name m Em) as (m' & Em' & _). rewrite Em'. discriminate. }
    destruct (eval_adequate t fl call okfn Hcall E' env_ok_S2 S' pS' eops' aopss' g1' g2' HA' HN' HFe' HFa' HFp'
                (lsok_perm is_estmt _ _ Oke Pe) (lsok_perm is_astmt _ _ Oka Pa) (lsok_perm is_pstmt _ _ Okp Pp) Hg1' Hg2' Hall' Htot Hb') as (F0 & u' & fin' & p' & HB & Hfin & _).
    exists F0. intros F HF0. exists fin', p'. destruct u'. split; [apply HB, HF0|]. rewrite Hfin. exact Hiso.
  Qed.
End EvalSwap.

(* with the interface packed *)
Theorem eval_swap_ty (t : tree) (fl : file) (call : ident -> graph -> list value -> res (value * graph)) (okfn : ident -> Prop) (Hcall : forall f, okfn f -> call_ok call f)
    (g0 : graph) (Hcl : gclosed (N.of_nat (length g0)) g0) (rg rl rg' rl' : N -> N) (S S' : lstate) :
  SR g0 rg rl S S' -> evty okfn g0 rg S -> (forall i, i < N.of_nat (length g0) \/ gn S <= i -> rg i = i) -> (forall l, sn S <= l -> rl l = l) ->
  (forall i, rg' (rg i) = i) -> (forall l, rl (rl' l) = l) ->
  forall pS pS' F1 u fin p1, nob pS' -> evaluate_phase t fl call F1 S pS = Ok (u, fin, p1) ->
  exists F0, forall F, (F0 <= F)%nat -> exists fin' p', evaluate_phase t fl call F S' pS' = Ok (tt, fin', p') /\ graph_iso rg (l_graph fin) (l_graph fin').
Proof.
  intros HSR (bdsDL & Hev & T1 & T2 & T3 & T4 & Me & Ma & Mp & Hc & Hg) Hrg Hrl I1 I4 pS pS' F1 u fin p1.
  apply (eval_swap_gen t fl call okfn Hcall g0 Hcl rg rl rg' rl' S S' HSR Hrg Hrl I1 I4 bdsDL Hev T1 T2 T3 T4 Me Ma Mp Hc Hg).
Qed.

(* the statement used by Proofs/ScPermRun.v *)
Theorem eval_swap (t : tree) (fl : file) (call : ident -> graph -> list value -> res (value * graph)) (okfn : ident -> Prop) (Hcall : forall f, okfn f -> call_ok call f)
    (g0 : graph) (Hcl : gclosed (N.of_nat (length g0)) g0) (rg rl rg' rl' : N -> N) (bds : list bdesc) (S S' : lstate) :
  SRT okfn g0 rg rl bds S S' -> (forall i, rg' (rg i) = i) -> (forall l, rl (rl' l) = l) ->
  forall pS pS' F1 u fin p1, nob pS' -> evaluate_phase t fl call F1 S pS = Ok (u, fin, p1) ->
  exists F0, forall F, (F0 <= F)%nat -> exists fin' p', evaluate_phase t fl call F S' pS' = Ok (tt, fin', p') /\ graph_iso rg (l_graph fin) (l_graph fin').
Proof.
  intros (HSR & (Ht & _ & _) & _ & _ & _ & Hrg & Hrl & Hmono) I1 I4. apply (eval_swap_ty t fl call okfn Hcall g0 Hcl rg rl rg' rl' S S' HSR (styped_evty okfn g0 rg bds S Ht Hmono) Hrg Hrl I1 I4).
Qed.
