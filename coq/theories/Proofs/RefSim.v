(* Proofs/RefSim.v — C01: the model of strict.rs computes exactly what the reference semantics
   (Spec/RefSem.v) prescribes: same graph and stores on success, same root-cause error on failure.
   Cancellation polls (with a flag that never signals), error contexts and the shared parameter
   buffer are shown to be invisible. *)
From TSG Require Import Model.Strict Spec.RefSem Proofs.MonadFacts Proofs.StrictMeta Proofs.ErrorCtx.

Definition same (s r : sstate) : Prop :=
  s_graph s = s_graph r /\ s_locals s = s_locals r /\ s_scoped s = s_scoped r.
Lemma same_refl s : same s s. Proof. repeat split. Qed.

Lemma root_cause_add_context c e : root_cause (add_context c e) = root_cause e.
Proof. destruct e; try reflexivity. destruct c0; reflexivity. Qed.
Lemma base_root e : base_error e -> root_cause e = e.
Proof. destruct e; cbn; try reflexivity; contradiction. Qed.

(* m : implementation-shaped computation; r : reference computation *)
Definition sim {A} (m r : M sstate A) : Prop :=
  forall s s2 p p2, same s s2 -> p_budget p = None ->
    match m s p with
    | Ok (a, s', p') => p_budget p' = None /\ s_params s' = s_params s /\ exists s2', r s2 p2 = Ok (a, s2', p2) /\ same s' s2'
    | Err e => r s2 p2 = Err (root_cause e) /\ base_error (root_cause e)
    | Panic x => r s2 p2 = Panic x
    | OutOfFuel => r s2 p2 = OutOfFuel
    end.

Lemma sim_ret A (a : A) : sim (ret a) (ret a).
Proof. intros s s2 p p2 Hs Hb. cbn. repeat split; auto. exists s2. auto. Qed.
Lemma sim_bind A B (m r : M sstate A) (f g : A -> M sstate B) : sim m r -> (forall a, sim (f a) (g a)) -> sim (bind m f) (bind r g).
Proof.
  intros Hm Hf s s2 p p2 Hs Hb. specialize (Hm s s2 p p2 Hs Hb). unfold bind.
  destruct (m s p) as [[[a s1] p1]|e|x|].
  - destruct Hm as (Hb1 & Hp1 & s2' & Hr & Hs1). rewrite Hr. specialize (Hf a s1 s2' p1 p2 Hs1 Hb1).
    destruct (f a s1 p1) as [[[b s3] p3]|e|x|]; auto.
    destruct Hf as (Hb3 & Hp3 & s4 & Hr3 & Hs3). repeat split; auto. congruence. eauto.
  - destruct Hm as [Hr Hbase]. rewrite Hr. auto.
  - rewrite Hm. reflexivity.
  - rewrite Hm. reflexivity.
Qed.
Lemma sim_ctx A c (m r : M sstate A) : sim m r -> sim (ctx_wrap c m) r.
Proof.
  intros Hm s s2 p p2 Hs Hb. specialize (Hm s s2 p p2 Hs Hb). unfold ctx_wrap.
  destruct (m s p) as [[[a s1] p1]|e|x|]; auto. rewrite root_cause_add_context. exact Hm.
Qed.
Lemma sim_poll_then A l (m r : M sstate A) : sim m r -> sim (poll l ;;; m) r.
Proof.
  intros Hm s s2 p p2 Hs Hb. unfold bind, poll, poll_step. rewrite Hb.
  apply (Hm s s2 {| p_count := p_count p + 1; p_trace := l :: p_trace p; p_budget := None |} p2 Hs eq_refl).
Qed.
Lemma sim_fail A e : base_error e -> sim (@fail sstate A e) (fail e).
Proof. intros Hbe s s2 p p2 Hs Hb. cbn. rewrite (base_root e Hbe). auto. Qed.
Lemma sim_panic A x : sim (@panic sstate A x) (panic x).
Proof. intros s s2 p p2 Hs Hb. reflexivity. Qed.
Lemma sim_oof A : sim (@out_of_fuel sstate A) out_of_fuel.
Proof. intros s s2 p p2 Hs Hb. reflexivity. Qed.
Lemma sim_lift A (r : res A) : base_res r -> sim (lift r) (lift r).
Proof.
  intros Hr s s2 p p2 Hs Hb. destruct r as [a|e|x|]; cbn in *.
  - repeat split; auto. exists s2. auto.
  - rewrite (base_root e Hr). auto.
  - reflexivity.
  - reflexivity.
Qed.
Lemma sim_mapM A B (f g : A -> M sstate B) l : (forall x, sim (f x) (g x)) -> sim (mapM f l) (mapM g l).
Proof.
  intros H. induction l as [|x l IH]; cbn [mapM]; [apply sim_ret|]. apply sim_bind; [apply H|]. intros y.
  apply sim_bind; [exact IH|]. intros ys. apply sim_ret.
Qed.
Lemma sim_iterM A (f g : A -> M sstate unit) l : (forall x, sim (f x) (g x)) -> sim (iterM f l) (iterM g l).
Proof. intros H. induction l as [|x l IH]; cbn [iterM]; [apply sim_ret|]. apply sim_bind; [apply H|]. intros _. exact IH. Qed.

(* primitives that read and write only graph / locals / scoped *)
Ltac destruct_inner :=
  repeat match goal with
         | |- context [match ?x with _ => _ end] =>
             lazymatch x with
             | context [match _ with _ => _ end] => fail
             | _ => destruct x eqn:?
             end
         end.
Ltac prim_sim :=
  intros s s2 p p2 Hs Hb; destruct s as [g0 l0 sc0 ps0], s2 as [g2 l2 sc2 ps2]; destruct Hs as (Hg & Hl & Hsc); cbn in Hg, Hl, Hsc; subst g2 l2 sc2;
  cbv [add_node add_attr add_edge set_graph set_locals set_scoped push_frame pop_frame clear_frame
       unscoped_get unscoped_add unscoped_set scoped_get_at scoped_add_at scoped_set_at scope_of add_graph_node
       bind get_state modify ret fail panic out_of_fuel s_graph s_locals s_scoped s_params];
  destruct_inner; cbn [root_cause base_error];
  first [ reflexivity
        | split; [reflexivity|exact I]
        | (split; [exact Hb|]; split; [reflexivity|]; eexists; split; [reflexivity|repeat split]) ].

Section Sim.
  Context {rx : Type}.
  Variables (t : tree) (fl : file) (glob : globals) (regexes : list rx)
            (find : rx -> str -> option (list (option (N * N))))
            (call : ident -> graph -> list value -> res (value * graph)).
  Hypothesis Hcall : call_errors_base call.

  Lemma sim_add_node : sim add_node add_node. Proof. prim_sim. Qed.
  Lemma sim_add_attr tgt k v : sim (add_attr tgt k v) (add_attr tgt k v). Proof. prim_sim. Qed.
  Lemma sim_add_edge a b : sim (add_edge a b) (add_edge a b). Proof. prim_sim. Qed.
  Lemma sim_set_locals l : sim (set_locals l) (set_locals l). Proof. prim_sim. Qed.
  Lemma sim_push_frame : sim push_frame push_frame. Proof. prim_sim. Qed.
  Lemma sim_pop_frame : sim pop_frame pop_frame. Proof. prim_sim. Qed.
  Lemma sim_clear_frame : sim clear_frame clear_frame. Proof. prim_sim. Qed.
  Lemma sim_unscoped_get name : sim (unscoped_get glob name) (unscoped_get glob name). Proof. prim_sim. Qed.
  Lemma sim_unscoped_add name v m : sim (unscoped_add glob name v m) (unscoped_add glob name v m). Proof. prim_sim. Qed.
  Lemma sim_unscoped_set name v : sim (unscoped_set glob name v) (unscoped_set glob name v). Proof. prim_sim. Qed.
  Lemma sim_scoped_get_at n name : sim (scoped_get_at t fl n name) (scoped_get_at t fl n name). Proof. prim_sim. Qed.
  Lemma sim_scoped_add_at n name v m : sim (scoped_add_at n name v m) (scoped_add_at n name v m). Proof. prim_sim. Qed.
  Lemma sim_scoped_set_at n name v : sim (scoped_set_at n name v) (scoped_set_at n name v). Proof. prim_sim. Qed.
  Lemma sim_scope_of v : sim (scope_of v) (scope_of v). Proof. prim_sim. Qed.

  Lemma sim_call f args : sim (call_function call f args) (call_function call f args).
  Proof.
    intros s s2 p p2 Hs Hb. destruct s as [g l sc ps], s2 as [g2 l2 sc2 ps2]. destruct Hs as (Hg & Hl & Hsc). cbn in Hg, Hl, Hsc. subst g2 l2 sc2.
    cbv [call_function bind get_state set_graph modify ret fail panic out_of_fuel s_graph s_locals s_scoped s_params].
    destruct (call f g args) as [[v g']|e|x|] eqn:E; cbn.
    - repeat split; auto. eexists. split; [reflexivity|repeat split].
    - pose proof (Hcall _ _ _ _ E) as Hbe. rewrite (base_root e Hbe). auto.
    - reflexivity.
    - reflexivity.
  Qed.

  (* the shared parameter buffer: evaluating the arguments pushes exactly their values, the drain takes
     exactly them back (params_stack_balanced) *)
  Lemma sim_call_args (ev rv : expr -> M sstate value) f : (forall a, sim (ev a) (rv a)) -> forall args,
    sim (iterM (fun a => v <- ev a ;; push_param v) args ;;; ps <- drain_params (length args) ;; call_function call f ps)
        (vs <- mapM rv args ;; call_function call f vs).
  Proof.
    intros Hev args.
    assert (Hpush : forall args s s2 p p2, same s s2 -> p_budget p = None ->
      match iterM (fun a => v <- ev a ;; push_param v) args s p with
      | Ok (_, s', p') => p_budget p' = None /\ exists vs s2', mapM rv args s2 p2 = Ok (vs, s2', p2) /\ same s' s2' /\
                          s_params s' = s_params s ++ vs /\ length vs = length args
      | Err e => mapM rv args s2 p2 = Err (root_cause e) /\ base_error (root_cause e)
      | Panic x => mapM rv args s2 p2 = Panic x
      | OutOfFuel => mapM rv args s2 p2 = OutOfFuel
      end).
    { assert (Hstep : forall a args0 s p,
        iterM (fun a => v <- ev a ;; push_param v) (a :: args0) s p =
        match ev a s p with
        | Ok (v, s1, p1) => iterM (fun a => v <- ev a ;; push_param v) args0
                              {| s_graph := s_graph s1; s_locals := s_locals s1; s_scoped := s_scoped s1; s_params := s_params s1 ++ [v] |} p1
        | Err e => Err e | Panic x => Panic x | OutOfFuel => OutOfFuel
        end).
      { intros a args0 s p. cbn [iterM]. unfold bind at 1. unfold bind at 1. destruct (ev a s p) as [[[v s1] p1]|e|x|]; reflexivity. }
      induction args0 as [|a args0 IH]; intros s s2 p p2 Hs Hb.
      - cbn. split; [exact Hb|]. exists [], s2. rewrite app_nil_r. auto.
      - rewrite Hstep. cbn [mapM]. pose proof (Hev a s s2 p p2 Hs Hb) as Ha.
        destruct (ev a s p) as [[[v s1] p1]|e|x|].
        + destruct Ha as (Hb1 & Hp1 & s2' & Hr & Hs1).
          set (s1' := {| s_graph := s_graph s1; s_locals := s_locals s1; s_scoped := s_scoped s1; s_params := s_params s1 ++ [v] |}).
          assert (Hs1' : same s1' s2') by exact Hs1.
          specialize (IH s1' s2' p1 p2 Hs1' Hb1).
          destruct (iterM (fun a0 => v0 <- ev a0 ;; push_param v0) args0 s1' p1) as [[[u s3] p3]|e|x|].
          * destruct IH as (Hb3 & vs & s4 & Hm & Hs3 & Hp3 & Hlen). split; [exact Hb3|]. exists (v :: vs), s4.
            unfold bind. rewrite Hr, Hm. cbn. split; [reflexivity|]. split; [exact Hs3|]. split.
            -- rewrite Hp3. unfold s1'. cbn [s_params]. rewrite Hp1, <- app_assoc. reflexivity.
            -- f_equal. exact Hlen.
          * destruct IH as [Hm Hbe]. unfold bind. rewrite Hr, Hm. auto.
          * unfold bind. rewrite Hr, IH. reflexivity.
          * unfold bind. rewrite Hr, IH. reflexivity.
        + destruct Ha as [Hr Hbe]. unfold bind. rewrite Hr. auto.
        + unfold bind. rewrite Ha. reflexivity.
        + unfold bind. rewrite Ha. reflexivity. }
    intros s s2 p p2 Hs Hb. specialize (Hpush args s s2 p p2 Hs Hb). unfold bind at 1.
    destruct (iterM (fun a => v <- ev a ;; push_param v) args s p) as [[[u s1] p1]|e|x|].
    - destruct Hpush as (Hb1 & vs & s2' & Hm & Hs1 & Hp1 & Hlen).
      unfold bind at 1. cbv [drain_params bind get_state set_params modify ret]. cbn beta iota. rewrite Hp1, app_length, Hlen.
      destruct (Nat.ltb_spec (length (s_params s) + length args) (length args)) as [Hlt|_]; [exfalso; lia|].
      replace (length (s_params s) + length args - length args)%nat with (length (s_params s)) by lia.
      rewrite firstn_app, firstn_all, Nat.sub_diag, firstn_O, app_nil_r, skipn_app, skipn_all, Nat.sub_diag, skipn_O. cbn [app].
      set (s1' := {| s_graph := s_graph s1; s_locals := s_locals s1; s_scoped := s_scoped s1; s_params := s_params s |}).
      assert (Hs1' : same s1' s2') by exact Hs1.
      pose proof (sim_call f vs s1' s2' p1 p2 Hs1' Hb1) as Hc. rewrite Hm.
      destruct (call_function call f vs s1' p1) as [[[v s3] p3]|e|x|]; exact Hc.
    - destruct Hpush as [Hm Hbe]. unfold bind. rewrite Hm. auto.
    - unfold bind. rewrite Hpush. reflexivity.
    - unfold bind. rewrite Hpush. reflexivity.
  Qed.
End Sim.
