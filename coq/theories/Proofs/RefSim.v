(* Proofs/RefSim.v — C01: the model of strict.rs computes exactly what the reference semantics
   (Spec/RefSem.v) prescribes: same graph and stores on success, same root-cause error on failure.
   Cancellation polls (with a flag that never signals), error contexts and the shared parameter
   buffer are shown to be invisible. *)
From TSG Require Import Model.Strict Spec.RefSem Proofs.MonadFacts Proofs.StrictMeta Proofs.ErrorCtx.

Definition same (s r : sstate) : Prop :=
  s_graph s = s_graph r /\ s_locals s = s_locals r /\ s_scoped s = s_scoped r.
Lemma same_refl s : same s s. Proof. repeat split. Qed.

Lemma root_cause_add_context c e : root_cause (add_context c e) = root_cause e.
Proof. destruct e; try reflexivity. destruct c0; reflexivity. Qed.
Lemma base_root e : base_error e -> root_cause e = e.
Proof. destruct e; cbn; try reflexivity; contradiction. Qed.

(* m : implementation-shaped computation; r : reference computation *)
Definition sim {A} (m r : M sstate A) : Prop :=
  forall s s2 p p2, same s s2 -> p_budget p = None ->
    match m s p with
    | Ok (a, s', p') => p_budget p' = None /\ s_params s' = s_params s /\ exists s2', r s2 p2 = Ok (a, s2', p2) /\ same s' s2'
    | Err e => r s2 p2 = Err (root_cause e) /\ base_error (root_cause e)
    | Panic x => r s2 p2 = Panic x
    | OutOfFuel => r s2 p2 = OutOfFuel
    end.

Lemma sim_ret A (a : A) : sim (ret a) (ret a).
Proof. intros s s2 p p2 Hs Hb. cbn. repeat split; auto. exists s2. auto. Qed.
Lemma sim_bind A B (m r : M sstate A) (f g : A -> M sstate B) : sim m r -> (forall a, sim (f a) (g a)) -> sim (bind m f) (bind r g).
Proof.
  intros Hm Hf s s2 p p2 Hs Hb. specialize (Hm s s2 p p2 Hs Hb). unfold bind.
  destruct (m s p) as [[[a s1] p1]|e|x|].
  - destruct Hm as (Hb1 & Hp1 & s2' & Hr & Hs1). rewrite Hr. specialize (Hf a s1 s2' p1 p2 Hs1 Hb1).
    destruct (f a s1 p1) as [[[b s3] p3]|e|x|]; auto.
    destruct Hf as (Hb3 & Hp3 & s4 & Hr3 & Hs3). repeat split; auto. congruence. eauto.
  - destruct Hm as [Hr Hbase]. rewrite Hr. auto.
  - rewrite Hm. reflexivity.
  - rewrite Hm. reflexivity.
Qed.
Lemma sim_ctx A c (m r : M sstate A) : sim m r -> sim (ctx_wrap c m) r.
Proof.
  intros Hm s s2 p p2 Hs Hb. specialize (Hm s s2 p p2 Hs Hb). unfold ctx_wrap.
  destruct (m s p) as [[[a s1] p1]|e|x|]; auto. rewrite root_cause_add_context. exact Hm.
Qed.
Lemma sim_poll_then A l (m r : M sstate A) : sim m r -> sim (poll l ;;; m) r.
Proof.
  intros Hm s s2 p p2 Hs Hb. unfold bind, poll, poll_step. rewrite Hb.
  apply (Hm s s2 {| p_count := p_count p + 1; p_trace := l :: p_trace p; p_budget := None |} p2 Hs eq_refl).
Qed.
Lemma sim_fail A e : base_error e -> sim (@fail sstate A e) (fail e).
Proof. intros Hbe s s2 p p2 Hs Hb. cbn. rewrite (base_root e Hbe). auto. Qed.
Lemma sim_panic A x : sim (@panic sstate A x) (panic x).
Proof. intros s s2 p p2 Hs Hb. reflexivity. Qed.
Lemma sim_oof A : sim (@out_of_fuel sstate A) out_of_fuel.
Proof. intros s s2 p p2 Hs Hb. reflexivity. Qed.
Lemma sim_lift A (r : res A) : base_res r -> sim (lift r) (lift r).
Proof.
  intros Hr s s2 p p2 Hs Hb. destruct r as [a|e|x|]; cbn in *.
  - repeat split; auto. exists s2. auto.
  - rewrite (base_root e Hr). auto.
  - reflexivity.
  - reflexivity.
Qed.
Lemma sim_mapM A B (f g : A -> M sstate B) l : (forall x, sim (f x) (g x)) -> sim (mapM f l) (mapM g l).
Proof.
  intros H. induction l as [|x l IH]; cbn [mapM]; [apply sim_ret|]. apply sim_bind; [apply H|]. intros y.
  apply sim_bind; [exact IH|]. intros ys. apply sim_ret.
Qed.
Lemma sim_iterM A (f g : A -> M sstate unit) l : (forall x, sim (f x) (g x)) -> sim (iterM f l) (iterM g l).
Proof. intros H. induction l as [|x l IH]; cbn [iterM]; [apply sim_ret|]. apply sim_bind; [apply H|]. intros _. exact IH. Qed.

(* primitives that read and write only graph / locals / scoped *)
Ltac destruct_inner :=
  repeat match goal with
         | |- context [match ?x with _ => _ end] =>
             lazymatch x with
             | context [match _ with _ => _ end] => fail
             | _ => destruct x eqn:?
             end
         end.
Ltac prim_sim :=
  intros s s2 p p2 Hs Hb; destruct s as [g0 l0 sc0 ps0], s2 as [g2 l2 sc2 ps2]; destruct Hs as (Hg & Hl & Hsc); cbn in Hg, Hl, Hsc; subst g2 l2 sc2;
  cbv [add_node add_attr add_edge set_graph set_locals set_scoped push_frame pop_frame clear_frame
       unscoped_get unscoped_add unscoped_set scoped_get_at scoped_add_at scoped_set_at scope_of add_graph_node
       bind get_state modify ret fail panic out_of_fuel s_graph s_locals s_scoped s_params];
  destruct_inner; cbn [root_cause base_error];
  first [ reflexivity
        | split; [reflexivity|exact I]
        | (split; [exact Hb|]; split; [reflexivity|]; eexists; split; [reflexivity|repeat split]) ].

Section Sim.
  Context {rx : Type}.
  Variables (t : tree) (fl : file) (glob : globals) (regexes : list rx)
            (find : rx -> str -> option (list (option (N * N))))
            (call : ident -> graph -> list value -> res (value * graph)).
  Hypothesis Hcall : call_errors_base call.

  Lemma sim_add_node : sim add_node add_node. Proof. prim_sim. Qed.
  Lemma sim_add_attr tgt k v : sim (add_attr tgt k v) (add_attr tgt k v). Proof. prim_sim. Qed.
  Lemma sim_add_edge a b : sim (add_edge a b) (add_edge a b). Proof. prim_sim. Qed.
  Lemma sim_set_locals l : sim (set_locals l) (set_locals l). Proof. prim_sim. Qed.
  Lemma sim_push_frame : sim push_frame push_frame. Proof. prim_sim. Qed.
  Lemma sim_pop_frame : sim pop_frame pop_frame. Proof. prim_sim. Qed.
  Lemma sim_clear_frame : sim clear_frame clear_frame. Proof. prim_sim. Qed.
  Lemma sim_unscoped_get name : sim (unscoped_get glob name) (unscoped_get glob name). Proof. prim_sim. Qed.
  Lemma sim_unscoped_add name v m : sim (unscoped_add glob name v m) (unscoped_add glob name v m). Proof. prim_sim. Qed.
  Lemma sim_unscoped_set name v : sim (unscoped_set glob name v) (unscoped_set glob name v). Proof. prim_sim. Qed.
  Lemma sim_scoped_get_at n name : sim (scoped_get_at t fl n name) (scoped_get_at t fl n name). Proof. prim_sim. Qed.
  Lemma sim_scoped_add_at n name v m : sim (scoped_add_at n name v m) (scoped_add_at n name v m). Proof. prim_sim. Qed.
  Lemma sim_scoped_set_at n name v : sim (scoped_set_at n name v) (scoped_set_at n name v). Proof. prim_sim. Qed.
  Lemma sim_scope_of v : sim (scope_of v) (scope_of v). Proof. prim_sim. Qed.

  Lemma sim_call f args : sim (call_function call f args) (call_function call f args).
  Proof.
    intros s s2 p p2 Hs Hb. destruct s as [g l sc ps], s2 as [g2 l2 sc2 ps2]. destruct Hs as (Hg & Hl & Hsc). cbn in Hg, Hl, Hsc. subst g2 l2 sc2.
    cbv [call_function bind get_state set_graph modify ret fail panic out_of_fuel s_graph s_locals s_scoped s_params].
    destruct (call f g args) as [[v g']|e|x|] eqn:E; cbn.
    - repeat split; auto. eexists. split; [reflexivity|repeat split].
    - pose proof (Hcall _ _ _ _ E) as Hbe. rewrite (base_root e Hbe). auto.
    - reflexivity.
    - reflexivity.
  Qed.

  (* the shared parameter buffer: evaluating the arguments pushes exactly their values, the drain takes
     exactly them back (params_stack_balanced) *)
  Lemma sim_call_args (ev rv : expr -> M sstate value) f : (forall a, sim (ev a) (rv a)) -> forall args,
    sim (iterM (fun a => v <- ev a ;; push_param v) args ;;; ps <- drain_params (length args) ;; call_function call f ps)
        (vs <- mapM rv args ;; call_function call f vs).
  Proof.
    intros Hev args.
    assert (Hpush : forall args s s2 p p2, same s s2 -> p_budget p = None ->
      match iterM (fun a => v <- ev a ;; push_param v) args s p with
      | Ok (_, s', p') => p_budget p' = None /\ exists vs s2', mapM rv args s2 p2 = Ok (vs, s2', p2) /\ same s' s2' /\
                          s_params s' = s_params s ++ vs /\ length vs = length args
      | Err e => mapM rv args s2 p2 = Err (root_cause e) /\ base_error (root_cause e)
      | Panic x => mapM rv args s2 p2 = Panic x
      | OutOfFuel => mapM rv args s2 p2 = OutOfFuel
      end).
    { assert (Hstep : forall a args0 s p,
        iterM (fun a => v <- ev a ;; push_param v) (a :: args0) s p =
        match ev a s p with
        | Ok (v, s1, p1) => iterM (fun a => v <- ev a ;; push_param v) args0
                              {| s_graph := s_graph s1; s_locals := s_locals s1; s_scoped := s_scoped s1; s_params := s_params s1 ++ [v] |} p1
        | Err e => Err e | Panic x => Panic x | OutOfFuel => OutOfFuel
        end).
      { intros a args0 s p. cbn [iterM]. unfold bind at 1. unfold bind at 1. destruct (ev a s p) as [[[v s1] p1]|e|x|]; reflexivity. }
      induction args0 as [|a args0 IH]; intros s s2 p p2 Hs Hb.
      - cbn. split; [exact Hb|]. exists [], s2. rewrite app_nil_r. auto.
      - rewrite Hstep. cbn [mapM]. pose proof (Hev a s s2 p p2 Hs Hb) as Ha.
        destruct (ev a s p) as [[[v s1] p1]|e|x|].
        + destruct Ha as (Hb1 & Hp1 & s2' & Hr & Hs1).
          set (s1' := {| s_graph := s_graph s1; s_locals := s_locals s1; s_scoped := s_scoped s1; s_params := s_params s1 ++ [v] |}).
          assert (Hs1' : same s1' s2') by exact Hs1.
          specialize (IH s1' s2' p1 p2 Hs1' Hb1).
          destruct (iterM (fun a0 => v0 <- ev a0 ;; push_param v0) args0 s1' p1) as [[[u s3] p3]|e|x|].
          * destruct IH as (Hb3 & vs & s4 & Hm & Hs3 & Hp3 & Hlen). split; [exact Hb3|]. exists (v :: vs), s4.
            unfold bind. rewrite Hr, Hm. cbn. split; [reflexivity|]. split; [exact Hs3|]. split.
            -- rewrite Hp3. unfold s1'. cbn [s_params]. rewrite Hp1, <- app_assoc. reflexivity.
            -- f_equal. exact Hlen.
          * destruct IH as [Hm Hbe]. unfold bind. rewrite Hr, Hm. auto.
          * unfold bind. rewrite Hr, IH. reflexivity.
          * unfold bind. rewrite Hr, IH. reflexivity.
        + destruct Ha as [Hr Hbe]. unfold bind. rewrite Hr. auto.
        + unfold bind. rewrite Ha. reflexivity.
        + unfold bind. rewrite Ha. reflexivity. }
    intros s s2 p p2 Hs Hb. specialize (Hpush args s s2 p p2 Hs Hb). unfold bind at 1.
    destruct (iterM (fun a => v <- ev a ;; push_param v) args s p) as [[[u s1] p1]|e|x|].
    - destruct Hpush as (Hb1 & vs & s2' & Hm & Hs1 & Hp1 & Hlen).
      unfold bind at 1. cbv [drain_params bind get_state set_params modify ret]. cbn beta iota. rewrite Hp1, app_length, Hlen.
      destruct (Nat.ltb_spec (length (s_params s) + length args) (length args)) as [Hlt|_]; [exfalso; lia|].
      replace (length (s_params s) + length args - length args)%nat with (length (s_params s)) by lia.
      rewrite firstn_app, firstn_all, Nat.sub_diag, firstn_O, app_nil_r, skipn_app, skipn_all, Nat.sub_diag, skipn_O. cbn [app].
      set (s1' := {| s_graph := s_graph s1; s_locals := s_locals s1; s_scoped := s_scoped s1; s_params := s_params s |}).
      assert (Hs1' : same s1' s2') by exact Hs1.
      pose proof (sim_call f vs s1' s2' p1 p2 Hs1' Hb1) as Hc. rewrite Hm.
      destruct (call_function call f vs s1' p1) as [[[v s3] p3]|e|x|]; exact Hc.
    - destruct Hpush as [Hm Hbe]. unfold bind. rewrite Hm. auto.
    - unfold bind. rewrite Hpush. reflexivity.
    - unfold bind. rewrite Hpush. reflexivity.
  Qed.

  Ltac sim_prim :=
    first [ apply sim_ret | apply sim_add_node | apply sim_add_attr | apply sim_add_edge | apply sim_set_locals
          | apply sim_push_frame | apply sim_pop_frame | apply sim_clear_frame | apply sim_unscoped_get | apply sim_unscoped_add
          | apply sim_unscoped_set | apply sim_scoped_get_at | apply sim_scoped_add_at | apply sim_scoped_set_at | apply sim_scope_of
          | apply sim_call | apply sim_panic | apply sim_oof | apply sim_fail; exact I
          | apply sim_lift; first [apply base_as_bool | apply base_as_str | apply base_as_list | apply base_as_gnode | apply base_from_nodes] ].
  Ltac sim_step :=
    first [ sim_prim
          | apply sim_bind; [|intros ?]
          | apply sim_mapM; intros ?
          | apply sim_iterM; intros ?
          | match goal with |- sim (match ?x with _ => _ end) (match ?x with _ => _ end) => destruct x end
          | match goal with |- sim (if ?x then _ else _) (if ?x then _ else _) => destruct x end ].
  Ltac sims := repeat sim_step.

  Notation eval' := (eval t fl glob call).
  Notation ref_eval' := (ref_eval t fl glob call).

  Lemma sim_eval : forall fuel le e, sim (eval' fuel le e) (ref_eval' fuel (le_match le) (le_caps le) e).
  Proof.
    induction fuel as [|fuel IH]; intros le e; [apply sim_oof|].
    destruct e; cbn [eval ref_eval]; try (sims; apply IH).
    - (* call *) apply sim_call_args. intros a. apply IH.
  Qed.

  Lemma sim_var_add fuel le v x m :
    sim (var_add t fl glob call fuel le v x m) (ref_var_add t fl glob call fuel (le_match le) (le_caps le) v x m).
  Proof. destruct v; cbn [var_add ref_var_add]; sims; apply sim_eval. Qed.
  Lemma sim_var_set fuel le v x :
    sim (var_set t fl glob call fuel le v x) (ref_var_set t fl glob call fuel (le_match le) (le_caps le) v x).
  Proof. destruct v; cbn [var_set ref_var_set]; sims; apply sim_eval. Qed.
  Lemma sim_cond fuel le c :
    sim (test_cond t fl glob call fuel le c) (ref_cond t fl glob call fuel (le_match le) (le_caps le) c).
  Proof. destruct c; cbn [test_cond ref_cond]; sims; apply sim_eval. Qed.

  Lemma sim_get_state_locals A (f g : sstate -> M sstate A) :
    (forall s s2, same s s2 -> sim (f s) (g s2)) -> sim (s <- get_state ;; f s) (s <- get_state ;; g s).
  Proof. intros H s s2 p p2 Hs Hb. unfold bind, get_state. apply (H s s2 Hs s s2 p p2 Hs Hb). Qed.

  Lemma sim_attr : forall fuel le tgt a,
    sim (exec_attr t fl glob call fuel le tgt a) (ref_attr t fl glob call fuel (le_match le) (le_caps le) tgt a).
  Proof.
    induction fuel as [|fuel IH]; intros le tgt a; [apply sim_oof|].
    destruct a as [name value]. cbn [exec_attr ref_attr]. apply sim_poll_then.
    apply sim_bind; [apply sim_eval|intros v]. destruct (find_shorthand name (f_shorthands fl)) as [sh|]; [|apply sim_add_attr].
    apply sim_get_state_locals. intros s s2 Hs. cbv zeta. destruct Hs as (_ & Hl & _). rewrite Hl.
    sims. apply IH.
  Qed.

  Notation exec_stmt' := (exec_stmt t fl config0 glob regexes find call).
  Notation ref_stmt' := (ref_stmt t fl glob regexes find call).

  Lemma sim_scan_loop run_arm rrun arms rs subject :
    (forall caps body, sim (run_arm caps body) (rrun caps body)) ->
    forall sfuel i, sim (scan_loop find run_arm arms rs subject sfuel i) (ref_scan_loop find rrun arms rs subject sfuel i).
  Proof.
    intros Hrun. induction sfuel as [|sfuel IHs]; intros i; cbn [scan_loop ref_scan_loop]; [apply sim_oof|].
    destruct (N.ltb i (N.of_nat (length subject))); [|apply sim_ret]. apply sim_poll_then. cbv zeta.
    destruct (arm_select find rs (skipn (N.to_nat i) subject)) as [|k|k caps]; [apply sim_ret|apply sim_fail; exact I|].
    destruct (nth_error arms (N.to_nat k)) as [[[r body] l']|]; [|apply sim_panic].
    apply sim_bind; [apply sim_push_frame|intros _]. apply sim_bind; [apply Hrun|intros _].
    apply sim_bind; [apply sim_pop_frame|intros _]. apply IHs.
  Qed.
  Lemma sim_if_loop test rtest run rrun :
    (forall c, sim (test c) (rtest c)) -> (forall body, sim (run body) (rrun body)) ->
    forall arms, sim (if_loop test run arms) (if_loop rtest rrun arms).
  Proof.
    intros Ht Hr. induction arms as [|[[conds body] l'] arms IHa]; cbn [if_loop]; [apply sim_ret|].
    apply sim_bind; [apply sim_mapM; intros c; apply Ht|intros bs]. destruct (forallb (fun b => b) bs); [|exact IHa].
    apply sim_bind; [apply sim_push_frame|intros _]. apply sim_bind; [apply Hr|intros _]. apply sim_pop_frame.
  Qed.

  Lemma sim_stmt : forall fuel le s, sim (exec_stmt' fuel le s) (ref_stmt' fuel (le_match le) (le_caps le) s).
  Proof.
    induction fuel as [|fuel IH]; intros le s; [apply sim_oof|].
    assert (Hblock : forall le' (wrap : M sstate unit -> M sstate unit) body,
               (forall m r, sim m r -> sim (wrap m) r) ->
               sim (iterM (fun st => let c := ctx_update (le_ctx le') st in
                                     ctx_wrap (CtxStmts [c]) (wrap (exec_stmt' fuel (le_with_ctx le' c) st))) body)
                   (iterM (ref_stmt' fuel (le_match le') (le_caps le')) body)).
    { intros le' wrap body Hw. apply sim_iterM. intros st. cbv zeta. apply sim_ctx, Hw. apply (IH (le_with_ctx le' (ctx_update (le_ctx le') st)) st). }
    destruct s; cbn [exec_stmt ref_stmt]; apply sim_poll_then.
    - apply sim_bind; [apply sim_eval|intros x; apply sim_var_add].
    - apply sim_bind; [apply sim_eval|intros x; apply sim_var_add].
    - apply sim_bind; [apply sim_eval|intros x; apply sim_var_set].
    - (* node: no debug attributes in the reference configuration *)
      apply sim_bind; [apply sim_add_node|intros n]. cbn [config0 c_var_attr c_loc_attr c_match_attr opt_attr].
      change (sim (var_add t fl glob call fuel le v (VGraph n) false) (ref_var_add t fl glob call fuel (le_match le) (le_caps le) v (VGraph n) false)).
      apply sim_var_add.
    - apply sim_bind; [apply sim_eval|intros nv]. apply sim_bind; [apply sim_lift, base_as_gnode|intros n].
      apply sim_iterM. intros a. apply sim_attr.
    - apply sim_bind; [apply sim_bind; [apply sim_eval|intros x; apply sim_lift, base_as_gnode]|intros a].
      apply sim_bind; [apply sim_bind; [apply sim_eval|intros x; apply sim_lift, base_as_gnode]|intros b].
      apply sim_bind; [apply sim_add_edge|intros isnew]. cbn [config0 c_loc_attr opt_attr]. destruct isnew; apply sim_ret.
    - apply sim_bind; [apply sim_bind; [apply sim_eval|intros x; apply sim_lift, base_as_gnode]|intros a].
      apply sim_bind; [apply sim_bind; [apply sim_eval|intros x; apply sim_lift, base_as_gnode]|intros b].
      apply sim_iterM. intros at'. apply sim_attr.
    - apply sim_bind; [apply sim_eval|intros sv]. apply sim_bind; [apply sim_lift, base_as_str|intros subject].
      destruct (arm_table regexes arms) as [rs|]; [|apply sim_panic].
      apply sim_scan_loop. intros caps body. apply (Hblock (le_with_caps le caps) (ctx_wrap CtxOther) body).
      intros m r Hm. apply sim_ctx, Hm.
    - apply sim_iterM. intros e. destruct e; try apply sim_ret. all: apply sim_bind; [apply sim_eval|intros _; apply sim_ret].
    - apply sim_if_loop; [intros c; apply sim_cond|]. intros body. apply (Hblock le (fun m => m) body). auto.
    - apply sim_bind; [apply sim_eval|intros lv]. apply sim_bind; [apply sim_lift, base_as_list|intros vals].
      apply sim_bind; [apply sim_push_frame|intros _]. apply sim_bind; [|intros _; apply sim_pop_frame].
      apply sim_iterM. intros v. apply sim_bind; [apply sim_clear_frame|intros _].
      apply sim_bind; [apply sim_unscoped_add|intros _]. apply (Hblock le (fun m => m) body). auto.
  Qed.

  Lemma sim_stanza fuel st m :
    sim (exec_stanza t fl config0 glob regexes find call fuel st m) (ref_stanza t fl glob regexes find call fuel st m).
  Proof.
    unfold exec_stanza, ref_stanza. apply sim_bind; [apply sim_clear_frame|intros _]. apply sim_iterM. intros s. cbv zeta.
    destruct (nodes_for_capture m (st_full_stanza_idx st)); [apply sim_panic|]. apply sim_ctx.
    apply (sim_stmt fuel (le_with_ctx {| le_match := m; le_full := st_full_stanza_idx st; le_caps := []; le_ctx := {| sc_stmt := (0, 0); sc_stanza := st_start st; sc_node := 0 |} |}
                                      {| sc_stmt := stmt_loc s; sc_stanza := st_start st; sc_node := n |}) s).
  Qed.

  Lemma sim_file fuel : forall sts ms,
    sim (exec_file t fl config0 glob regexes find call fuel sts ms) (ref_file t fl glob regexes find call fuel sts ms).
  Proof.
    induction sts as [|st sts IH]; intros [|m ms]; cbn [exec_file ref_file]; try apply sim_ret.
    apply sim_bind; [apply sim_iterM; intros x; apply sim_stanza|intros _]. apply IH.
  Qed.
End Sim.

(* File::execute (strict mode, no debug attributes, a flag that never signals) returns exactly what the
   reference prescribes: the same graph, or an error with the same root cause — and panics / divergence of
   the model coincide too *)
Theorem strict_refines_reference_lemma {rx : Type} t fl supplied (regexes : list rx) find call fuel matches g0 :
  call_errors_base call ->
  match run_strict t fl config0 supplied None regexes find call fuel matches g0 with
  | Ok (s, _) => ref_run t fl supplied regexes find call fuel matches g0 = Ok (s_graph s)
  | Err e => ref_run t fl supplied regexes find call fuel matches g0 = Err (root_cause e)
  | Panic x => ref_run t fl supplied regexes find call fuel matches g0 = Panic x
  | OutOfFuel => ref_run t fl supplied regexes find call fuel matches g0 = OutOfFuel
  end.
Proof.
  intros Hcall. unfold run_strict, ref_run.
  destruct (check_globals (f_globals fl) (globals_nested supplied)) as [glob|e|x|] eqn:Eg; try reflexivity.
  - pose proof (sim_file t fl glob regexes find call Hcall fuel (f_stanzas fl) matches (sinit g0) (sinit g0) (polls0 None) (polls0 None) (same_refl _) eq_refl) as H.
    destruct (exec_file t fl config0 glob regexes find call fuel (f_stanzas fl) matches (sinit g0) (polls0 None)) as [[[u s] p]|e|x|].
    + destruct H as (_ & _ & s2 & Hr & (Hg & _)). rewrite Hr. rewrite Hg. reflexivity.
    + destruct H as [Hr _]. rewrite Hr. reflexivity.
    + rewrite H. reflexivity.
    + rewrite H. reflexivity.
  - (* check_globals errors are base errors *)
    f_equal. symmetry. apply base_root.
    revert Eg. generalize (globals_nested supplied). induction (f_globals fl) as [|d ds IH]; intros g; cbn [check_globals obind]; [discriminate|].
    unfold check_global. repeat match goal with |- context [match ?x with _ => _ end] => destruct x eqn:? end; cbn [obind]; try discriminate;
      try (intros H; inversion H; subst; exact I); try apply IH.
Qed.
