(* Proofs/LocalFrag2.v — C06 locality, part 3b: the purity hypotheses of the strict/lazy whole-run theorem with
   scoped variables (C02 version 2, Proofs/SL2*.v: `fexpr2 true` in eager positions, `fbind2`, `fmut2`) follow from
   `check_file = CkOk` for a purity declaration `purev` that coincides with the checker's bits (`pv_file`,
   Model/Locality.v: the file uses every variable name consistently).
   `fstmt2_ns` is `fstmt2` without ANY demand on the purity mode of unscoped-variable values and eager positions; what
   stays: called functions, capture indices, no `var`/`set` of scoped variables, and restriction (c) of Props/C02.v —
   the scope expression of a DEFINITION is pure — which is not a rule of the checker. *)
From TSG Require Import Model.Lazy Model.Locality Proofs.BaseFacts Proofs.Checker Proofs.SLExpr Proofs.SL2Expr Proofs.SL2Stmt Proofs.SL2Whole
  Proofs.LocalCheck Proofs.LocalPos Proofs.LocalFrag.

Section Frag2Rest.
  Variable okfn : ident -> Prop.
  Variable purev : ident -> bool.
  Variable m : qmatch.
  Notation fexpr_ns' := (fexpr_ns okfn m).
  Notation fexpr2' := (fexpr2 okfn purev m).

  Definition fattr2_ns (a : attr) : Prop := match a with Attr _ e => fexpr_ns' e end.
  Fixpoint fstmt2_ns (s : stmt) : Prop :=
    match s with
    | SLet v e _ => match v with VarU _ _ => fexpr_ns' e | VarS sc _ _ => fexpr2' true sc /\ fexpr_ns' e end
    | SVar v e _ | SSet v e _ => match v with VarU _ _ => fexpr_ns' e | VarS _ _ _ => False end
    | SNode v _ _ => match v with VarU _ _ => True | VarS sc _ _ => fexpr2' true sc end
    | SAttrNode n attrs _ => fexpr_ns' n /\ All fattr2_ns attrs
    | SEdge a b _ => fexpr_ns' a /\ fexpr_ns' b
    | SAttrEdge a b attrs _ => fexpr_ns' a /\ fexpr_ns' b /\ All fattr2_ns attrs
    | SScan v arms _ => fexpr_ns' v /\ All (fun arm : N * list stmt * loc => All fstmt2_ns (snd (fst arm))) arms
    | SPrint vs _ => All fexpr_ns' vs
    | SIf arms _ => All (fun arm : list cond * list stmt * loc => All (fcond_ns okfn m) (fst (fst arm)) /\ All fstmt2_ns (snd (fst arm))) arms
    | SFor _ _ v body _ => fexpr_ns' v /\ All fstmt2_ns body
    end.

  Variable G : ident -> bool.
  Hypothesis HG : forall x, G x = true -> purev x = true.
  (* every bit of the static environment is the declared purity of its name *)
  Definition env_agrees (env : lenv) : Prop := Forall (Forall (fun kb : ident * bool => purev (fst kb) = snd kb)) env.

  Lemma env_agrees_get env x b : env_agrees env -> lenv_get env x = Some b -> purev x = b.
  Proof.
    induction 1 as [|fr env Hf He IH]; cbn [lenv_get]; [discriminate|]. destruct (alist_get x fr) as [b'|] eqn:E; [|exact IH].
    intros [= ->]. apply alist_get_In in E. rewrite Forall_forall in Hf. exact (Hf _ E).
  Qed.
  Lemma env_agrees_bind env x b : env_agrees env -> purev x = b -> env_agrees (lenv_bind env x b).
  Proof.
    intros H Hx. destruct env as [|fr env]; [exact H|]. inversion H as [|a0 b0 Hf He]. cbn [lenv_bind]. constructor; [|exact He].
    apply Forall_app. split; [exact Hf|]. constructor; [exact Hx|constructor].
  Qed.
  Lemma env_agrees_push env fr : env_agrees env -> Forall (fun kb : ident * bool => purev (fst kb) = snd kb) fr -> env_agrees (fr :: env).
  Proof. intros H Hf. constructor; assumption. Qed.

  Lemma eager_ok_fexpr2 e : forall env, env_agrees env -> eager_ok G env e = true -> pv_expr purev e = true -> fexpr_ns' e -> fexpr2' true e.
  Proof.
    induction e using expr_ind'; intros env Hag; cbn [eager_ok pv_expr fexpr_ns fexpr2]; auto; try discriminate.
    - intros He Hp. apply All_impl_In. intros x Hx. rewrite Forall_forall in H. rewrite forallb_forall in He, Hp. exact (H x Hx env Hag (He x Hx) (Hp x Hx)).
    - intros He Hp. apply All_impl_In. intros x Hx. rewrite Forall_forall in H. rewrite forallb_forall in He, Hp. exact (H x Hx env Hag (He x Hx) (Hp x Hx)).
    - rewrite !andb_true_iff. intros [H1 H2] [[P0 P1] P2] [F1 F2]. split; [|exact (IHe2 _ Hag H1 P2 F2)].
      apply (IHe1 ([(x, true)] :: env)); [apply env_agrees_push; [exact Hag|constructor; [exact P0|constructor]]|exact H2|exact P1|exact F1].
    - rewrite !andb_true_iff. intros [H1 H2] [[P0 P1] P2] [F1 F2]. split; [|exact (IHe2 _ Hag H1 P2 F2)].
      apply (IHe1 ([(x, true)] :: env)); [apply env_agrees_push; [exact Hag|constructor; [exact P0|constructor]]|exact H2|exact P1|exact F1].
    - unfold name_ok. intros Hn _ _ _. apply orb_true_iff in Hn. destruct Hn as [Hn|Hn]; [exact (HG _ Hn)|].
      destruct (lenv_get env x) as [[|]|] eqn:E; try discriminate. exact (env_agrees_get _ _ _ Hag E).
    - intros He Hp [Hf Ha]. split; [exact Hf|]. revert Ha. apply All_impl_In. intros x Hx. rewrite Forall_forall in H. rewrite forallb_forall in He, Hp.
      exact (H x Hx env Hag (He x Hx) (Hp x Hx)).
  Qed.

  Lemma expr_eok_fexpr2 e : forall env, env_agrees env -> expr_eok G env e = true -> pv_expr purev e = true -> fexpr_ns' e -> fexpr2' false e.
  Proof.
    induction e using expr_ind'; intros env Hag; cbn [expr_eok pv_expr fexpr_ns fexpr2]; auto; try discriminate.
    - intros He Hp. apply All_impl_In. intros x Hx. rewrite Forall_forall in H. rewrite forallb_forall in He, Hp. exact (H x Hx env Hag (He x Hx) (Hp x Hx)).
    - intros He Hp. apply All_impl_In. intros x Hx. rewrite Forall_forall in H. rewrite forallb_forall in He, Hp. exact (H x Hx env Hag (He x Hx) (Hp x Hx)).
    - rewrite !andb_true_iff. intros [H1 H2] [[P0 P1] P2] [F1 F2]. split; [|exact (eager_ok_fexpr2 _ _ Hag H1 P2 F2)].
      apply (IHe1 ([(x, true)] :: env)); [apply env_agrees_push; [exact Hag|constructor; [exact P0|constructor]]|exact H2|exact P1|exact F1].
    - rewrite !andb_true_iff. intros [H1 H2] [[P0 P1] P2] [F1 F2]. split; [|exact (eager_ok_fexpr2 _ _ Hag H1 P2 F2)].
      apply (IHe1 ([(x, true)] :: env)); [apply env_agrees_push; [exact Hag|constructor; [exact P0|constructor]]|exact H2|exact P1|exact F1].
    - intros He Hp Hf. split; [reflexivity|]. exact (IHe _ Hag He Hp Hf).
    - intros He Hp [Hf Ha]. split; [exact Hf|]. revert Ha. apply All_impl_In. intros x Hx. rewrite Forall_forall in H. rewrite forallb_forall in He, Hp.
      exact (H x Hx env Hag (He x Hx) (Hp x Hx)).
  Qed.

  Lemma attrs_fexpr2 env attrs : env_agrees env -> forallb (attr_eok G env) attrs = true -> forallb (pv_attr purev) attrs = true ->
    All fattr2_ns attrs -> All (fattr2 okfn purev m) attrs.
  Proof.
    intros Hag He Hp. apply All_impl_In. intros [name e] Hin Hf. rewrite forallb_forall in He, Hp.
    exact (expr_eok_fexpr2 e env Hag (He _ Hin) (Hp _ Hin) Hf).
  Qed.

  Lemma env_agrees_stmt env s : env_agrees env -> pv_stmt purev G env s = true -> env_agrees (stmt_env G env s).
  Proof.
    intros Hag. destruct s; cbn [pv_stmt stmt_env]; auto; destruct v; cbn [bind_var]; auto; rewrite ?andb_true_iff.
    - intros [_ H]. apply env_agrees_bind; [exact Hag|]. apply Bool.eqb_prop. exact H.
    - intros [_ H]. apply env_agrees_bind; [exact Hag|]. apply negb_true_iff. exact H.
    - intros H. apply env_agrees_bind; assumption.
  Qed.

  Lemma block_fstmt2 body :
    Forall (fun s => forall env, env_agrees env -> stmt_eok G env s = true -> pv_stmt purev G env s = true -> fstmt2_ns s -> fstmt2 okfn purev m s) body ->
    forall env, env_agrees env -> seq_eok (stmt_eok G) (stmt_env G) env body = true -> seq_eok (pv_stmt purev G) (stmt_env G) env body = true ->
    All fstmt2_ns body -> All (fstmt2 okfn purev m) body.
  Proof.
    induction 1 as [|s body Hs Hb IH]; intros env Hag; cbn [seq_eok All]; [auto|].
    rewrite !andb_true_iff. intros [E1 E2] [P1 P2] [S1 S2]. split; [exact (Hs _ Hag E1 P1 S1)|]. apply (IH (stmt_env G env s)); try assumption.
    apply env_agrees_stmt; assumption.
  Qed.

  Lemma stmt_fstmt2 s : forall env, env_agrees env -> stmt_eok G env s = true -> pv_stmt purev G env s = true -> fstmt2_ns s -> fstmt2 okfn purev m s.
  Proof.
    induction s using stmt_ind'; intros env Hag; cbn [stmt_eok pv_stmt fstmt2_ns fstmt2]; rewrite ?andb_true_iff.
    - destruct v as [x vl|sc x vl]; cbn [var_eok fbind2]; intros [He Hv] [Pe Pv] Hf.
      + destruct (purev x) eqn:Ex; [|exact (expr_eok_fexpr2 e env Hag He Pe Hf)].
        apply Bool.eqb_prop in Pv. exact (eager_ok_fexpr2 e env Hag (eq_sym Pv) Pe Hf).
      + destruct Hf as [F1 F2]. split; [exact F1|exact (expr_eok_fexpr2 e env Hag He Pe F2)].
    - destruct v as [x vl|sc x vl]; cbn [var_eok fmut2]; intros [He Hv] [Pe Pv] Hf; [|exact Hf].
      apply negb_true_iff in Pv. rewrite Pv. exact (expr_eok_fexpr2 e env Hag He Pe Hf).
    - destruct v as [x vl|sc x vl]; cbn [var_eok fmut2]; intros [He Hv] [Pe Pv] Hf; [|exact Hf].
      apply negb_true_iff in Pv. rewrite Pv. exact (expr_eok_fexpr2 e env Hag He Pe Hf).
    - destruct v; auto.
    - intros [He Ha] [Pe Pa] [Fe Fa]. split; [exact (expr_eok_fexpr2 n env Hag He Pe Fe)|exact (attrs_fexpr2 env attrs Hag Ha Pa Fa)].
    - intros [Ha Hb] [Pa Pb] [Fa Fb]. split; [exact (expr_eok_fexpr2 a env Hag Ha Pa Fa)|exact (expr_eok_fexpr2 b env Hag Hb Pb Fb)].
    - intros [[Ha Hb] Hat] [[Pa Pb] Pat] (Fa & Fb & Fat). split; [exact (expr_eok_fexpr2 a env Hag Ha Pa Fa)|].
      split; [exact (expr_eok_fexpr2 b env Hag Hb Pb Fb)|exact (attrs_fexpr2 env attrs Hag Hat Pat Fat)].
    - intros [Hv Harms] [Pv Parms] [Fv Fa]. split; [exact (eager_ok_fexpr2 v env Hag Hv Pv Fv)|].
      rewrite forallb_forall in Harms, Parms. revert Fa. apply All_impl_In. intros [[rxi body] al] Hin Hb. cbn [fst snd] in *.
      rewrite Forall_forall in H. specialize (H _ Hin). specialize (Harms _ Hin). specialize (Parms _ Hin). cbv beta iota in Harms, Parms.
      apply (block_fstmt2 body H ([] :: env)); try assumption. apply env_agrees_push; [exact Hag|constructor].
    - intros He Hp. rewrite forallb_forall in He, Hp. apply All_impl_In. intros x Hx Hf. exact (expr_eok_fexpr2 x env Hag (He _ Hx) (Hp _ Hx) Hf).
    - intros Harms Parms. rewrite forallb_forall in Harms, Parms. apply All_impl_In. intros [[conds body] al] Hin [Hc Hb]. cbn [fst snd] in *.
      rewrite Forall_forall in H. specialize (H _ Hin). specialize (Harms _ Hin). specialize (Parms _ Hin). cbv beta iota in Harms, Parms.
      apply andb_true_iff in Harms. destruct Harms as [A1 A2]. apply andb_true_iff in Parms. destruct Parms as [Q1 Q2]. split.
      + revert Hc. apply All_impl_In. intros c Hcin Hcns. rewrite forallb_forall in A1, Q1. specialize (A1 _ Hcin). specialize (Q1 _ Hcin).
        destruct c; cbn [cond_expr fcond_ns fcond2] in *; exact (eager_ok_fexpr2 _ env Hag A1 Q1 Hcns).
      + apply (block_fstmt2 body H ([] :: env)); try assumption. apply env_agrees_push; [exact Hag|constructor].
    - intros [Hv Hbody] [[Px Pv] Pbody] [Fv Fb]. split; [exact (eager_ok_fexpr2 v env Hag Hv Pv Fv)|].
      apply (block_fstmt2 body H ([(x, true)] :: env)); try assumption. apply env_agrees_push; [exact Hag|constructor; [exact Px|constructor]].
  Qed.

  Lemma stanza_fstmt2 st : block_eok G [[]] (st_stmts st) = true -> seq_eok (pv_stmt purev G) (stmt_env G) [[]] (st_stmts st) = true ->
    All fstmt2_ns (st_stmts st) -> All (fstmt2 okfn purev m) (st_stmts st).
  Proof.
    unfold block_eok. apply block_fstmt2; [|constructor; constructor]. apply Forall_forall. intros s _. apply stmt_fstmt2.
  Qed.
End Frag2Rest.

Definition match_ok2_ns (okfn : ident -> Prop) (purev : ident -> bool) (fl : file) (st : stanza) (m : qmatch) : Prop :=
  All (fstmt2_ns okfn purev m) (st_stmts st) /\
  Forall (fun sh => purev (sh_var sh) = false /\ All (fattr2 okfn purev m) (sh_attrs sh)) (f_shorthands fl) /\
  nodes_for_capture m (st_full_file_idx st) <> [].
Fixpoint file_ok2_ns (okfn : ident -> Prop) (purev : ident -> bool) (fl : file) (sts : list stanza) (ms : list (list qmatch)) : Prop :=
  match sts, ms with
  | st :: sts', m :: ms' => Forall (match_ok2_ns okfn purev fl st) m /\ file_ok2_ns okfn purev fl sts' ms'
  | _, [] => True
  | [], _ :: _ => False
  end.

Lemma file_eok_file_ok2 okfn purev fl : file_eok fl = true -> pv_file purev fl = true ->
  forall sts ms, (forall st, In st sts -> In st (f_stanzas fl)) -> file_ok2_ns okfn purev fl sts ms -> file_ok2 okfn purev fl sts ms.
Proof.
  intros Hf Hp. unfold file_eok in Hf. unfold pv_file in Hp. apply andb_true_iff in Hp. destruct Hp as [Hg Hs].
  rewrite forallb_forall in Hf, Hg, Hs.
  assert (HG : forall x, is_global fl x = true -> purev x = true).
  { intros x Hx. unfold is_global in Hx. apply existsb_exists in Hx. destruct Hx as (g & Hin & E). apply str_eqb_eq in E. subst x. exact (Hg _ Hin). }
  induction sts as [|st sts IH]; intros [|qs ms] Hsub; cbn [file_ok2_ns file_ok2]; auto.
  intros [H1 H2]. split; [|apply IH; [intros s Hin; apply Hsub; right; exact Hin|exact H2]].
  eapply Forall_impl; [|exact H1]. intros m (A & B & C). split; [|split; assumption].
  assert (Hst : In st (f_stanzas fl)) by (apply Hsub; left; reflexivity).
  exact (stanza_fstmt2 okfn purev m (is_global fl) HG st (Hf _ Hst) (Hs _ Hst) A).
Qed.
Lemma checked_file_ok2 q f fl okfn purev ms : check_file q f = CkOk fl -> pv_file purev fl = true ->
  file_ok2_ns okfn purev fl (f_stanzas fl) ms -> file_ok2 okfn purev fl (f_stanzas fl) ms.
Proof. intros H Hp. apply file_eok_file_ok2; [exact (check_file_eok_with _ _ _ _ H)|exact Hp|auto]. Qed.
