(* Proofs/SLF2Store.v — C02, failure direction WITH scoped variables (fragment v2), part 1: the thunk store and the scoped
   cells after the point where strict execution failed.
   From that point on the lazy interpreter keeps running code the strict one never reached: later thunks are arbitrary and
   the CELLS of the scoped variables receive further definitions.  What is kept, for the world w reached at the failure
   point (Proofs/SL2Force.v: value of every early thunk, list of the early scoped definitions):
   * `K w ls`: every early thunk is forced to its value, or unforced with a body that denotes it, or BEING forced; the
     cell of every name is unforced and begins with the early definitions of that name (pure scopes denoting their node,
     value = the recorded thunk) followed by arbitrary later pairs, or is being forced, or is forced to a map that begins
     with the early definitions and has no duplicate key.  For an INHERITED name every pair of the cell has a literal
     syntax node as scope, and that node lies in the static set `D name` (see `sdef` below).
   * PARTIAL CORRECTNESS of forcing (`evJ`, induction on the fuel only): if evaluating ANY lazy value on a K-state returns
     Ok, the state is a K-state again and, if the value denotes v in w (`den2 w false`), the result is v.  (The total
     forcing lemmas of SL2Force.v are not available here: forcing an early cell evaluates the scopes of the later pairs,
     which may fail.)  A scoped read of an inherited name resolves to the recorded definer because the keys of the forced
     map lie in `D name`, an ANTICHAIN of the tree (`Hanti`): no later definition can shadow the one strict read.
   * dooms carried by the invariant `J w dt dc`: a doomed thunk (as in SLFailStore.v) and a doomed cell — a pair whose
     scope cannot evaluate to a syntax node; both are reached by the final sweep `evaluate_all`.
   * `jok2`: every successful lazy computation preserves J — statements under the static condition `sdef`. *)
From TSG Require Import Model.Lazy Proofs.BaseFacts Proofs.Containers Proofs.MonadFacts Proofs.StrictMeta
  Proofs.SLGraph Proofs.SLForce Proofs.SLExpr Proofs.Extends Proofs.Scoped Proofs.SL2Force Proofs.SLFailGraph Proofs.SLFailStore.

Lemma nres_poll_any {S} l (s : S) p (Phi : unit -> S -> polls -> Prop) : (forall p', Phi tt s p') -> nres (poll l s p) Phi.
Proof. intros H. destruct (poll l s p) as [[[u s'] p']|e|x|] eqn:E; cbn [nres]; auto. apply poll_ok in E. destruct E as (-> & _). destruct u. apply H. Qed.
Lemma as_syn_ok v k : as_syn v = Ok k -> v = VSyn k.
Proof. destruct v; cbn; try discriminate. intros H. inversion H. reflexivity. Qed.
Lemma nmap_get_in_keys (m : list (N * lvalue)) k : nmap_get m k <> None -> In k (map fst m).
Proof.
  induction m as [|[k0 v0] m IH]; cbn [nmap_get map fst]; [congruence|]. destruct (N.eqb_spec k k0) as [->|Hn]; [intros _; left; reflexivity|].
  intros H. right. apply IH, H.
Qed.
Lemma nmap_get_nodup_in (m : list (N * lvalue)) k v : NoDup (map fst m) -> In (k, v) m -> nmap_get m k = Some v.
Proof.
  induction m as [|[k0 v0] m IH]; intros Hnd Hin; [destruct Hin|]. cbn [map fst] in Hnd. inversion Hnd as [|? ? Hnot Hnd']; subst. cbn [nmap_get].
  destruct Hin as [E|Hin].
  - inversion E; subst. rewrite N.eqb_refl. reflexivity.
  - destruct (N.eqb_spec k k0) as [->|Hn]; [|apply IH; assumption]. exfalso. apply Hnot. apply in_map_iff. exists (k0, v). split; [reflexivity|exact Hin].
Qed.
Lemma nmap_get_app_none (m : list (N * lvalue)) k : nmap_get m k = None -> ~ In k (map fst m).
Proof.
  induction m as [|[k0 v0] m IH]; intros H Hin; [destruct Hin|]. cbn [nmap_get map fst] in *. destruct (N.eqb_spec k k0) as [->|Hn]; [discriminate|].
  destruct Hin as [E|Hin]; [congruence|]. apply (IH H Hin).
Qed.
Lemma NoDup_snoc2 {A} (l : list A) a : NoDup l -> ~ In a l -> NoDup (l ++ [a]).
Proof.
  induction l as [|x l IH]; intros Hnd Hn; cbn [app]; [constructor; [intros []|constructor]|].
  inversion Hnd as [|? ? Hx Hnd']; subst. constructor.
  - intros Hin. apply in_app_or in Hin. destruct Hin as [Hin|[->|[]]]; [contradiction|]. apply Hn. left. reflexivity.
  - apply IH; [exact Hnd'|]. intros Hin. apply Hn. right. exact Hin.
Qed.
Lemma alist_get_in_keys {V} (l : list (ident * V)) k : alist_get k l <> None -> In k (map fst l).
Proof.
  induction l as [|[k0 v0] l IH]; cbn [alist_get map fst]; [congruence|]. destruct (str_eqb_spec k k0) as [->|Hn]; [intros _; left; reflexivity|].
  intros H. right. apply IH, H.
Qed.
Lemma wcut_wext k w : wext (wcut k w) w.
Proof.
  split; [|split; [apply prefix_refl|split; reflexivity]]. cbn [wcut w_rho]. exists (skipn k (w_rho w)). symmetry. apply firstn_skipn.
Qed.
Lemma forced_map_keys ds : map fst (forced_map ds) = map fst ds.
Proof. unfold forced_map. rewrite map_map. reflexivity. Qed.
Lemma forced_map_app a b : forced_map (a ++ b) = forced_map a ++ forced_map b.
Proof. unfold forced_map. apply map_app. Qed.

(* ---------------- the static condition on the definitions of inherited names ---------------- *)
(* `D name k`: the syntax node k MAY receive a definition of the inherited name `name`.  A definition of an inherited name
   must have a capture as its scope expression, and the nodes of that capture in the match must lie in D. *)
Section SDef.
  Variable fl : file.
  Variable D : ident -> N -> Prop.
  Variable m : qmatch.
  Definition inh_scope_ok (v : variable) : Prop :=
    match v with
    | VarU _ _ => True
    | VarS sc name _ => inherited fl name = true ->
        exists nm q fi si l, sc = ECapture nm q fi si l /\ forall k, In k (nodes_for_capture m fi) -> D name k
    end.
  Fixpoint sdef (s : stmt) : Prop :=
    match s with
    | SLet v _ _ | SNode v _ _ => inh_scope_ok v
    | SScan _ arms _ => All (fun arm : N * list stmt * loc => All sdef (snd (fst arm))) arms
    | SIf arms _ => All (fun arm : list cond * list stmt * loc => All sdef (snd (fst arm))) arms
    | SFor _ _ _ body _ => All sdef body
    | _ => True
    end.
End SDef.

Section K2.
  Variable call : ident -> graph -> list value -> res (value * graph).
  Variables (t : tree) (fl : file).
  Variable D : ident -> N -> Prop.
  Hypothesis Hanti : forall name n a, inherited fl name = true -> D name n -> D name a -> In a (anc t n) -> False.
  Notation den2 := (den2 call).
  Notation eval_lv' := (eval_lv t fl call).
  Notation force_thunk' := (force_thunk t fl call).
  Notation force_scoped' := (force_scoped t fl call).

  (* ---------------- the invariant ---------------- *)
  Definition thunkK (w : world) (i : nat) (th : thunk) : Prop :=
    exists v pb, nth_error (w_rho w) i = Some (v, pb) /\
      match th_state th with TForced v' => v' = v | TUnforced lv => den2 w false lv v | TForcing => True end.
  Definition storeK (w : world) (st : list thunk) : Prop :=
    (length (w_rho w) <= length st)%nat /\ forall i th, (i < length (w_rho w))%nat -> nth_error st i = Some th -> thunkK w i th.
  Definition pairK (w : world) (pr : lvalue * lvalue * stmt_ctx) (d : N * nat) : Prop :=
    snd (fst pr) = LVar (N.of_nat (snd d)) /\ den2 w false (fst (fst pr)) (VSyn (fst d)).
  Definition pairD (name : ident) (pr : lvalue * lvalue * stmt_ctx) : Prop :=
    inherited fl name = true -> exists v, fst (fst pr) = LValue v /\ forall k, v = VSyn k -> D name k.
  Definition mapK (w : world) (name : ident) (m : list (N * lvalue)) : Prop :=
    (exists extra, m = forced_map (sig_for name (w_sig w)) ++ extra) /\ NoDup (map fst m) /\
    (inherited fl name = true -> forall k, In k (map fst m) -> D name k).
  Definition cellK (w : world) (name : ident) (c : option scoped_values) : Prop :=
    match c with
    | None => sig_for name (w_sig w) = []
    | Some (SVUnforced pairs) =>
        (exists early extra, pairs = early ++ extra /\ Forall2 (pairK w) early (sig_for name (w_sig w))) /\ Forall (pairD name) pairs
    | Some SVForcing => True
    | Some (SVForced m) => mapK w name m
    end.
  Definition K (w : world) (ls : lstate) : Prop :=
    storeK w (l_store ls) /\ forall name, cellK w name (alist_get name (l_scoped ls)).

  Definition evs (F : nat) (scope : lvalue) : M lstate N := sv <- eval_lv' F scope ;; lift (as_syn sv).
  Definition bad_lv2 (w : world) (lv : lvalue) : Prop := forall F ls p, K w ls -> nok (eval_lv' F lv ls p).
  Definition bad_scope (w : world) (slv : lvalue) : Prop := forall F ls p, K w ls -> nok (evs F slv ls p).

  Definition dtl (w : world) (dt : option (nat * lvalue)) (st : list thunk) : Prop :=
    match dt with
    | None => True
    | Some (loc, lv) => (length (w_rho w) <= loc)%nat /\ bad_lv2 w lv /\ exists dbg, nth_error st loc = Some {| th_state := TUnforced lv; th_dbg := dbg |}
    end.
  Definition dcl (w : world) (dc : option (ident * lvalue)) (cells : list (ident * scoped_values)) : Prop :=
    match dc with
    | None => True
    | Some (name, slv) => bad_scope w slv /\
        match alist_get name cells with
        | Some (SVUnforced pairs) => exists v dbg, In (slv, v, dbg) pairs
        | Some SVForcing => True
        | _ => False
        end
    end.
  Definition J (w : world) (dt : option (nat * lvalue)) (dc : option (ident * lvalue)) (ls : lstate) : Prop :=
    K w ls /\ dtl w dt (l_store ls) /\ dcl w dc (l_scoped ls).
  Lemma J_K w dt dc ls : J w dt dc ls -> K w ls. Proof. intros H. apply H. Qed.
  Lemma K_J w ls : K w ls -> J w None None ls. Proof. intros H. split; [exact H|split; exact I]. Qed.

  Lemma J_same w dt dc ls ls' : l_store ls' = l_store ls -> l_scoped ls' = l_scoped ls -> J w dt dc ls -> J w dt dc ls'.
  Proof. intros E1 E2 ((H1 & H2) & H3 & H4). unfold J, K. rewrite E1, E2. auto. Qed.

  (* ---- store updates ---- *)
  Lemma storeK_app w st th : storeK w st -> storeK w (st ++ [th]).
  Proof.
    intros [Hl H]. split; [rewrite app_length; lia|]. intros i th0 Hi Hn. rewrite nth_error_app1 in Hn by lia. apply H; assumption.
  Qed.
  Lemma storeK_forcing w st loc : storeK w st -> storeK w (list_update loc (fun th => {| th_state := TForcing; th_dbg := th_dbg th |}) st).
  Proof.
    intros [Hl H]. split; [rewrite list_update_length; exact Hl|]. intros i th0 Hi Hn. rewrite nth_error_list_update in Hn.
    destruct (Nat.eqb_spec i loc) as [->|Hne]; [|apply H; assumption].
    destruct (nth_error st loc) as [th1|] eqn:E; [|discriminate]. cbn in Hn. inversion Hn; subst th0.
    destruct (H loc th1 Hi E) as (v & pb & Hv & _). exists v, pb. split; [exact Hv|exact I].
  Qed.
  Lemma storeK_forced w st loc v : storeK w st -> (forall v0 pb, nth_error (w_rho w) loc = Some (v0, pb) -> v = v0) ->
    storeK w (list_update loc (fun th => {| th_state := TForced v; th_dbg := th_dbg th |}) st).
  Proof.
    intros [Hl H] Hv. split; [rewrite list_update_length; exact Hl|]. intros i th0 Hi Hn. rewrite nth_error_list_update in Hn.
    destruct (Nat.eqb_spec i loc) as [->|Hne]; [|apply H; assumption].
    destruct (nth_error st loc) as [th1|] eqn:E; [|discriminate]. cbn in Hn. inversion Hn; subst th0.
    destruct (H loc th1 Hi E) as (v0 & pb & Hv0 & _). exists v0, pb. split; [exact Hv0|]. cbn [th_state]. apply (Hv v0 pb Hv0).
  Qed.
  Lemma dtl_other w dt st loc f : dtl w dt st -> (forall dloc dlv, dt = Some (dloc, dlv) -> dloc <> loc) -> dtl w dt (list_update loc f st).
  Proof.
    destruct dt as [[dloc dlv]|]; [|auto]. intros (A1 & A2 & dbg & A3) Hd. split; [exact A1|]. split; [exact A2|]. exists dbg.
    rewrite nth_error_update_other; [exact A3|]. apply (Hd dloc dlv eq_refl).
  Qed.
  Lemma dtl_app w dt st th : dtl w dt st -> dtl w dt (st ++ [th]).
  Proof.
    destruct dt as [[dloc dlv]|]; [|auto]. intros (A1 & A2 & dbg & A3). split; [exact A1|]. split; [exact A2|]. exists dbg.
    rewrite nth_error_app1; [exact A3|]. apply nth_error_Some. congruence.
  Qed.

  (* ---- cell updates ---- *)
  Lemma J_set_cell w dt dc ls name c : J w dt dc ls -> cellK w name (Some c) ->
    (forall slv, dc = Some (name, slv) -> match c with SVUnforced pairs => exists v dbg, In (slv, v, dbg) pairs | SVForcing => True | SVForced _ => False end) ->
    J w dt dc (set_scoped_l (alist_set name c (l_scoped ls)) ls).
  Proof.
    intros ((Hs & Hc) & Hdt & Hdc) Hcell Hd. split; [split; [exact Hs|]|split; [exact Hdt|]].
    - intros name'. cbn [set_scoped_l l_scoped]. rewrite alist_get_set. destruct (str_eqb_spec name' name) as [->|Hne]; [exact Hcell|apply Hc].
    - cbn [set_scoped_l l_scoped]. destruct dc as [[n0 slv]|]; [|exact I]. destruct Hdc as [Hb Hdc]. split; [exact Hb|].
      rewrite alist_get_set. destruct (str_eqb_spec n0 name) as [->|Hne]; [|exact Hdc]. specialize (Hd slv eq_refl). destruct c; auto.
  Qed.

  (* ---------------- resolving a scoped read on a forced map ---------------- *)
  Lemma resolve_K w name m n a loc : wstatic t fl w -> mapK w name m ->
    (a = n \/ (winh w name = true /\ In a (anc (w_tree w) n))) -> In (a, name, loc) (w_sig w) ->
    match nmap_get m n with
    | Some v => Some v
    | None => if linherited fl name then
                lancestor_lookup t (S (length (t_nodes t))) m (match node_at t n with Some nd => tn_parent nd | None => None end)
              else None
    end = Some (LVar (N.of_nat loc)).
  Proof.
    intros [Wt Wi] ((extra & Em) & Hnd & HD) Ha Hin.
    assert (Hin' : In (a, LVar (N.of_nat loc)) m).
    { rewrite Em. apply in_or_app. left. unfold forced_map. apply in_map_iff. exists (a, loc). split; [reflexivity|apply sig_for_in, Hin]. }
    pose proof (nmap_get_nodup_in m a _ Hnd Hin') as Ga.
    destruct Ha as [->|[Hinh Hanc]]; [rewrite Ga; reflexivity|].
    assert (Hi : inherited fl name = true) by (unfold inherited; rewrite <- Wi; exact Hinh).
    rewrite Wt in Hanc.
    assert (Da : D name a) by (apply (HD Hi); apply nmap_get_in_keys; congruence).
    destruct (nmap_get m n) as [x|] eqn:En.
    - exfalso. apply (Hanti name n a Hi); [apply (HD Hi); apply nmap_get_in_keys; congruence|exact Da|exact Hanc].
    - assert (El : linherited fl name = true) by exact Hi. rewrite El. rewrite lancestor_lookup_nearest. fold (parent_of t n). fold (anc t n).
      apply (first_some_unique _ _ a); [exact Hanc|exact Ga|]. intros a' Ha' Hne. destruct (nmap_get m a') as [x|] eqn:Ea'; [|reflexivity]. exfalso.
      assert (Da' : D name a') by (apply (HD Hi); apply nmap_get_in_keys; congruence).
      destruct (anc_chain t n a' a Ha' Hanc) as [E|[H|H]]; [contradiction| |].
      + apply (Hanti name a' a Hi Da' Da H).
      + apply (Hanti name a a' Hi Da Da' H).
  Qed.

  (* ---------------- partial correctness of forcing, and preservation of J ---------------- *)
  Section Ev.
    Variables (w : world) (dt : option (nat * lvalue)) (dc : option (ident * lvalue)).
    Hypothesis Hws : wstatic t fl w.
    Notation J' := (J w dt dc).

    Definition postE (lv : lvalue) (ls : lstate) : value -> lstate -> polls -> Prop :=
      fun v' ls' _ => J' ls' /\ l_params ls' = l_params ls /\ forall v, den2 w false lv v -> v' = v.
    Definition specE (ev : lvalue -> M lstate value) : Prop := forall lv ls p, J' ls -> nres (ev lv ls p) (postE lv ls).
    Definition postT (loc : N) (ls : lstate) : value -> lstate -> polls -> Prop :=
      fun v' ls' _ => J' ls' /\ l_params ls' = l_params ls /\ forall v pb, nth_error (w_rho w) (N.to_nat loc) = Some (v, pb) -> v' = v.
    Definition postS (name : ident) (cell : scoped_values) (ls : lstate) : list (N * lvalue) -> lstate -> polls -> Prop :=
      fun m ls' _ => J' ls' /\ l_params ls' = l_params ls /\ mapK w name m /\ cell <> SVForcing /\
                     forall pairs slv v dbg, cell = SVUnforced pairs -> In (slv, v, dbg) pairs -> bad_scope w slv -> False.

    Lemma n_mapM ev : specE ev -> forall es ls p, J' ls ->
      nres (mapM ev es ls p) (fun vs' ls' _ => J' ls' /\ l_params ls' = l_params ls /\ forall vs, Forall2 (den2 w false) es vs -> vs' = vs).
    Proof.
      intros Hev. induction es as [|e es IH]; intros ls p HJ; cbn [mapM].
      - apply nres_ret. split; [exact HJ|]. split; [reflexivity|]. intros vs HF. inversion HF. reflexivity.
      - apply nres_bind. eapply nres_mono; [apply (Hev e ls p HJ)|]. intros v1 ls1 p1 (HJ1 & Hp1 & Hd1).
        apply nres_bind. eapply nres_mono; [apply (IH ls1 p1 HJ1)|]. intros vs1 ls2 p2 (HJ2 & Hp2 & Hd2). apply nres_ret.
        split; [exact HJ2|]. split; [congruence|]. intros vs HF. inversion HF as [|? v ? vs0 Hv HF']; subst. rewrite (Hd1 v Hv), (Hd2 vs0 HF'). reflexivity.
    Qed.

    Lemma n_push_args ev : specE ev -> forall es ls p, J' ls ->
      nres (iterM (fun a => v <- ev a ;; lpush_param v) es ls p)
           (fun _ ls' _ => J' ls' /\ exists vs', l_params ls' = l_params ls ++ vs' /\ length vs' = length es /\ forall vs, Forall2 (den2 w false) es vs -> vs' = vs).
    Proof.
      intros Hev. induction es as [|e es IH]; intros ls p HJ; cbn [iterM].
      - apply nres_ret. split; [exact HJ|]. exists []. split; [rewrite app_nil_r; reflexivity|]. split; [reflexivity|]. intros vs HF. inversion HF. reflexivity.
      - apply nres_bind. apply nres_bind. eapply nres_mono; [apply (Hev e ls p HJ)|]. intros v1 ls1 p1 (HJ1 & Hp1 & Hd1).
        unfold lpush_param at 1. apply nres_get. unfold set_lparams, Lazy.upd. apply nres_modify.
        match goal with |- nres (iterM _ es ?s p1) _ => assert (HJs : J' s) by (eapply J_same; [| |exact HJ1]; reflexivity); eapply nres_mono; [apply (IH s p1 HJs)|] end.
        intros _ ls2 p2 (HJ2 & vs2 & Hp2 & Hl2 & Hd2). split; [exact HJ2|]. exists (v1 :: vs2). cbn [l_params] in Hp2.
        split; [rewrite Hp2, Hp1, <- app_assoc; reflexivity|]. split; [cbn [length]; congruence|].
        intros vs HF. inversion HF as [|? v ? vs0 Hv HF']; subst. rewrite (Hd1 v Hv), (Hd2 vs0 HF'). reflexivity.
    Qed.

    Lemma n_call ev f args ls p : specE ev -> J' ls ->
      nres ((iterM (fun a => x <- ev a ;; lpush_param x) args ;;; ps <- ldrain_params (length args) ;; lcall_function call f ps) ls p) (postE (LCall f args) ls).
    Proof.
      intros Hev HJ. apply nres_bind. eapply nres_mono; [apply (n_push_args ev Hev args ls p HJ)|]. intros _ ls1 p1 (HJ1 & vs' & Hp1 & Hl1 & Hd1).
      apply nres_bind. unfold ldrain_params. apply nres_get. rewrite Hp1, app_length, Hl1.
      destruct (Nat.ltb_spec (length (l_params ls) + length args) (length args)) as [Hlt|_]; [exfalso; lia|].
      replace (length (l_params ls) + length args - length args)%nat with (length (l_params ls)) by lia.
      rewrite firstn_app, firstn_all, Nat.sub_diag, firstn_O, app_nil_r, skipn_app, skipn_all, Nat.sub_diag, skipn_O. cbn [app].
      apply nres_bind. unfold set_lparams, Lazy.upd. apply nres_modify. apply nres_ret.
      unfold lcall_function. apply nres_get. cbn [l_graph].
      destruct (call f (l_graph ls1) vs') as [[v g']|e|x|] eqn:Ec; cbn [nres]; try exact I.
      apply nres_bind. unfold set_lgraph, Lazy.upd. apply nres_modify. apply nres_ret.
      split; [eapply J_same; [| |exact HJ1]; reflexivity|]. split; [reflexivity|].
      intros v0 Hd. inversion Hd as [| | | | |f0 args0 vs v1 HF Hc]; subst. rewrite (Hd1 vs HF) in Ec. rewrite (Hc (l_graph ls1)) in Ec. inversion Ec. reflexivity.
    Qed.

    (* the scope of a definition *)
    Lemma evs_spec F scope ls p : specE (eval_lv' F) -> J' ls ->
      nres (evs F scope ls p) (fun k ls' _ => J' ls' /\ l_params ls' = l_params ls /\ (forall n, den2 w false scope (VSyn n) -> k = n) /\
                                              (forall v, scope = LValue v -> v = VSyn k) /\ ~ bad_scope w scope).
    Proof.
      intros He HJ.
      assert (H1 : nres (evs F scope ls p) (fun k ls' _ => J' ls' /\ l_params ls' = l_params ls /\ (forall n, den2 w false scope (VSyn n) -> k = n) /\
                                                           (forall v, scope = LValue v -> v = VSyn k))).
      { unfold evs. apply nres_bind. eapply nres_mono; [apply (He scope ls p HJ)|]. intros sv ls1 p1 (HJ1 & Hp1 & Hd1).
        apply nres_lift. intros k Hk. apply as_syn_ok in Hk. subst sv. split; [exact HJ1|]. split; [exact Hp1|]. split.
        - intros n Hn. specialize (Hd1 _ Hn). inversion Hd1. reflexivity.
        - intros v ->. symmetry. apply Hd1. constructor. }
      destruct (evs F scope ls p) as [[[k ls'] p']|e|x|] eqn:E; cbn [nres] in *; auto.
      destruct H1 as (A & B & C & C'). split; [exact A|]. split; [exact B|]. split; [exact C|]. split; [exact C'|]. intros Hbad. specialize (Hbad F ls p (J_K _ _ _ _ HJ)). rewrite E in Hbad. exact Hbad.
    Qed.

    Definition postP (name : ident) (ps : list (lvalue * lvalue * stmt_ctx)) (ls : lstate) : list (N * lvalue) -> lstate -> polls -> Prop :=
      fun m ls' _ => J' ls' /\ l_params ls' = l_params ls /\ NoDup (map fst m) /\ (inherited fl name = true -> forall k, In k (map fst m) -> D name k) /\
                     forall pr, In pr ps -> ~ bad_scope w (fst (fst pr)).

    (* the later pairs of a cell: arbitrary scopes *)
    Lemma n_force_pairs_any F name : specE (eval_lv' F) -> forall ps values dbgs ls p, J' ls -> NoDup (map fst values) ->
      Forall (pairD name) ps -> (inherited fl name = true -> forall k, In k (map fst values) -> D name k) ->
      nres (force_pairs (evs F) ps values dbgs ls p) (fun m ls' p' => postP name ps ls m ls' p' /\ exists new, m = values ++ new).
    Proof.
      intros He. induction ps as [|[[scope v] dbg] ps IH]; intros values dbgs ls p HJ Hnd HD Hk; cbn [force_pairs].
      - apply nres_ret. split; [|exists []; rewrite app_nil_r; reflexivity]. split; [exact HJ|]. split; [reflexivity|]. split; [exact Hnd|]. split; [exact Hk|]. intros pr [].
      - inversion HD as [|? ? Hd1 HD']; subst. apply nres_bind. apply nres_ctx. apply nres_ctx.
        eapply nres_mono; [apply (evs_spec F scope ls p He HJ)|]. intros k ls1 p1 (HJ1 & Hp1 & _ & Hlit & Hnb).
        destruct (nmap_get values k) eqn:Eg; [destruct (dbg_get dbgs k); exact I|].
        assert (Hnd1 : NoDup (map fst (values ++ [(k, v)]))) by (rewrite map_app; cbn [map fst]; apply NoDup_snoc2; [exact Hnd|apply nmap_get_app_none, Eg]).
        assert (Hk1 : inherited fl name = true -> forall k0, In k0 (map fst (values ++ [(k, v)])) -> D name k0).
        { intros Hi k0 Hin. rewrite map_app in Hin. apply in_app_or in Hin. destruct Hin as [Hin|[<-|[]]]; [apply (Hk Hi), Hin|].
          destruct (Hd1 Hi) as (v0 & Ev & Hv0). cbn [fst] in Ev. apply Hv0. apply (Hlit v0 Ev). }
        eapply nres_mono; [apply (IH (values ++ [(k, v)]) (dbgs ++ [(k, dbg)]) ls1 p1 HJ1 Hnd1 HD' Hk1)|].
        intros m ls2 p2 ((HJ2 & Hp2 & Hnd2 & Hk2 & Hb2) & new & ->). split; [|exists ((k, v) :: new); rewrite <- app_assoc; reflexivity].
        split; [exact HJ2|]. split; [congruence|]. split; [exact Hnd2|]. split; [exact Hk2|]. intros pr [<-|Hin]; [exact Hnb|apply Hb2, Hin].
    Qed.
    (* the early pairs: their scopes denote the recorded nodes *)
    Lemma n_force_pairs_early F name : specE (eval_lv' F) -> forall early ds, Forall2 (pairK w) early ds ->
      forall extra done dbgs ls p, J' ls -> NoDup (map fst (forced_map done)) -> Forall (pairD name) (early ++ extra) ->
      (inherited fl name = true -> forall k, In k (map fst (forced_map done)) -> D name k) ->
      nres (force_pairs (evs F) (early ++ extra) (forced_map done) dbgs ls p)
           (fun m ls' p' => postP name (early ++ extra) ls m ls' p' /\ exists new, m = forced_map (done ++ ds) ++ new).
    Proof.
      intros He early ds HF. induction HF as [|[[scope v] dbg] [n loc] early ds [Hlv Hsc] HF IH]; intros extra done dbgs ls p HJ Hnd HD Hk.
      - cbn [app]. rewrite app_nil_r. apply (n_force_pairs_any F name He extra (forced_map done) dbgs ls p HJ Hnd HD Hk).
      - cbn [fst snd] in Hlv, Hsc. cbn [app force_pairs]. cbn [app] in HD. inversion HD as [|? ? Hd1 HD']; subst. apply nres_bind. apply nres_ctx. apply nres_ctx.
        eapply nres_mono; [apply (evs_spec F scope ls p He HJ)|]. intros k ls1 p1 (HJ1 & Hp1 & Hden & Hlit & Hnb).
        rewrite (Hden n Hsc). destruct (nmap_get (forced_map done) n) eqn:Eg; [destruct (dbg_get dbgs n); exact I|].
        assert (E : forced_map done ++ [(n, LVar (N.of_nat loc))] = forced_map (done ++ [(n, loc)])) by (rewrite forced_map_app; reflexivity).
        rewrite E.
        assert (Hnd1 : NoDup (map fst (forced_map (done ++ [(n, loc)])))).
        { rewrite <- E, map_app. cbn [map fst]. apply NoDup_snoc2; [exact Hnd|apply nmap_get_app_none, Eg]. }
        assert (Hk1 : inherited fl name = true -> forall k0, In k0 (map fst (forced_map (done ++ [(n, loc)]))) -> D name k0).
        { intros Hi k0 Hin. rewrite <- E, map_app in Hin. apply in_app_or in Hin. destruct Hin as [Hin|[<-|[]]]; [apply (Hk Hi), Hin|].
          destruct (Hd1 Hi) as (v0 & Ev & Hv0). cbn [fst] in Ev. apply Hv0. rewrite (Hlit v0 Ev), (Hden n Hsc). reflexivity. }
        eapply nres_mono; [apply (IH extra (done ++ [(n, loc)]) (dbgs ++ [(n, dbg)]) ls1 p1 HJ1 Hnd1 HD' Hk1)|].
        intros m ls2 p2 ((HJ2 & Hp2 & Hnd2 & Hk2 & Hb2) & new & ->). split; [|exists new; rewrite <- app_assoc; reflexivity].
        split; [exact HJ2|]. split; [congruence|]. split; [exact Hnd2|]. split; [exact Hk2|]. intros pr [<-|Hin]; [exact Hnb|apply Hb2, Hin].
    Qed.

    Lemma store_set_nres loc st0 ls p (Phi : unit -> lstate -> polls -> Prop) :
      Phi tt (set_store (list_update (N.to_nat loc) (fun th => {| th_state := st0; th_dbg := th_dbg th |}) (l_store ls)) ls) p ->
      nres (store_set_state loc st0 ls p) Phi.
    Proof. intros H. rewrite store_set_state_eq. exact H. Qed.
    Lemma cell_set_nres name c ls p (Phi : unit -> lstate -> polls -> Prop) :
      Phi tt (set_scoped_l (alist_set name c (l_scoped ls)) ls) p -> nres (cell_set name c ls p) Phi.
    Proof. intros H. exact H. Qed.

    Theorem evJ : forall F,
      specE (eval_lv' F) /\
      (forall loc ls p, J' ls -> nres (force_thunk' F loc ls p) (postT loc ls)) /\
      (forall name cell ls p, J' ls -> cellK w name (Some cell) -> nres (force_scoped' F name cell ls p) (postS name cell ls)).
    Proof.
      induction F as [|F (IHe & IHt & IHs)]; [split; [intros lv ls p _|split; [intros loc ls p _|intros name cell ls p _ _]]; exact I|].
      split; [|split].
      - (* eval_lv *)
        intros lv ls p HJ. cbn [eval_lv]. apply nres_bind. unfold lpoll. apply nres_poll_any. intros p0.
        destruct lv as [v|es|es|loc|scope name|f args].
        + apply nres_ret. split; [exact HJ|]. split; [reflexivity|]. intros v0 Hd. inversion Hd. reflexivity.
        + apply nres_bind. eapply nres_mono; [apply (n_mapM _ IHe es ls p0 HJ)|]. intros vs' ls1 p1 (HJ1 & Hp1 & Hd1). apply nres_ret.
          split; [exact HJ1|]. split; [exact Hp1|]. intros v0 Hd. inversion Hd as [|? vs HF| | | |]; subst. rewrite (Hd1 vs HF). reflexivity.
        + apply nres_bind. eapply nres_mono; [apply (n_mapM _ IHe es ls p0 HJ)|]. intros vs' ls1 p1 (HJ1 & Hp1 & Hd1). apply nres_ret.
          split; [exact HJ1|]. split; [exact Hp1|]. intros v0 Hd. inversion Hd as [| |? vs HF| | |]; subst. rewrite (Hd1 vs HF). reflexivity.
        + eapply nres_mono; [apply (IHt loc ls p0 HJ)|]. intros v' ls1 p1 (HJ1 & Hp1 & Hd1). split; [exact HJ1|]. split; [exact Hp1|].
          intros v0 Hd. inversion Hd as [| | |? ? pb Hn _| |]; subst. apply (Hd1 v0 pb Hn).
        + (* scoped read *)
          apply nres_bind. apply nres_ctx. eapply nres_mono; [apply (evs_spec F scope ls p0 IHe HJ)|]. intros n' ls1 p1 (HJ1 & Hp1 & Hden & _ & _).
          apply nres_bind. unfold cell_get. apply nres_get. apply nres_ret. destruct (alist_get name (l_scoped ls1)) as [cell|] eqn:Ec; [|exact I].
          (* regroup as force_cell followed by the lookup *)
          apply nres_bind. apply cell_set_nres.
          assert (Hcell : cellK w name (Some cell)) by (destruct HJ1 as ((_ & Hc) & _); specialize (Hc name); rewrite Ec in Hc; exact Hc).
          assert (HJ2 : J' (set_scoped_l (alist_set name SVForcing (l_scoped ls1)) ls1)).
          { apply J_set_cell; [exact HJ1|exact I|]. intros slv _. exact I. }
          apply nres_bind. eapply nres_mono; [apply (IHs name cell _ p1 HJ2 Hcell)|]. intros m ls3 p3 (HJ3 & Hp3 & Hm & Hnf & Hnb).
          assert (Hdc : forall slv, dc <> Some (name, slv)).
          { intros slv Edc. destruct HJ1 as (_ & _ & Hd). rewrite Edc in Hd. destruct Hd as [Hbad Hd]. rewrite Ec in Hd.
            destruct cell as [pairs| |m0]; [|congruence|exact Hd]. destruct Hd as (v & dbg & Hin). apply (Hnb pairs slv v dbg eq_refl Hin Hbad). }
          cbv zeta. apply nres_bind. apply cell_set_nres.
          assert (HJ4 : J' (set_scoped_l (alist_set name (SVForced m) (l_scoped ls3)) ls3)).
          { apply J_set_cell; [exact HJ3|exact Hm|]. intros slv Edc. exfalso. apply (Hdc slv Edc). }
          match goal with |- nres (match ?r with Some _ => _ | None => _ end _ _) _ => destruct r as [rv|] eqn:Er end; [|exact I].
          eapply nres_mono; [apply (IHe rv _ p3 HJ4)|]. intros v' ls5 p5 (HJ5 & Hp5 & Hd5).
          split; [exact HJ5|]. split; [cbn [set_scoped_l l_params] in *; congruence|].
          intros v0 Hd. inversion Hd as [| | | |sv nm n a loc v1 pb _ Hsv Ha Hin Hn|]; subst.
          rewrite (Hden n Hsv) in Er. rewrite (resolve_K w name m n a loc Hws Hm Ha Hin) in Er. inversion Er; subst rv.
          apply Hd5. apply (d2_var call w false _ v0 pb); [rewrite Nnat.Nat2N.id; exact Hn|discriminate].
        + apply (n_call _ f args ls p0 IHe HJ).
      - (* force_thunk *)
        intros loc ls p HJ. cbn [force_thunk]. apply nres_get. destruct (nth_error (l_store ls) (N.to_nat loc)) as [th|] eqn:Eth; [|exact I].
        apply nres_ctx. destruct (th_state th) as [inner| |v0] eqn:Es.
        + apply nres_bind. apply store_set_nres.
          set (st1 := list_update (N.to_nat loc) (fun th0 => {| th_state := TForcing; th_dbg := th_dbg th0 |}) (l_store ls)).
          assert (HK1 : K w (set_store st1 ls)).
          { destruct HJ as ((Hs & Hc) & _). split; [apply storeK_forcing, Hs|exact Hc]. }
          assert (Hcase : (exists dlv, dt = Some (N.to_nat loc, dlv)) \/ (forall dloc dlv, dt = Some (dloc, dlv) -> dloc <> N.to_nat loc)).
          { destruct dt as [[dloc dlv]|]; [|right; discriminate]. destruct (Nat.eq_dec dloc (N.to_nat loc)) as [->|Hne]; [left; eauto|right]. intros ? ? [= <- <-]. exact Hne. }
          destruct Hcase as [[dlv Edt]|Hother].
          * (* the doomed thunk *)
            apply nok_nres. apply nok_bind. destruct HJ as (_ & Hd & _). rewrite Edt in Hd. destruct Hd as (_ & Hbad & dbg & Hn). rewrite Eth in Hn. inversion Hn; subst th.
            cbn [th_state] in Es. inversion Es; subst inner. apply Hbad. exact HK1.
          * assert (HJ1 : J' (set_store st1 ls)).
            { split; [exact HK1|]. destruct HJ as (_ & Hd & Hcd). split; [apply dtl_other; assumption|exact Hcd]. }
            apply nres_bind. eapply nres_mono; [apply (IHe inner _ p HJ1)|]. intros v ls2 p2 (HJ2 & Hp2 & Hd2).
            assert (Hv : forall v1 pb, nth_error (w_rho w) (N.to_nat loc) = Some (v1, pb) -> v = v1).
            { intros v1 pb Hn. destruct HJ as (((Hl & Hs) & _) & _). assert (Hlt : (N.to_nat loc < length (w_rho w))%nat) by (apply nth_error_Some; congruence).
              destruct (Hs _ _ Hlt Eth) as (v2 & pb2 & Hn2 & Hst). rewrite Es in Hst. rewrite Hn in Hn2. inversion Hn2; subst v2 pb2. apply Hd2, Hst. }
            apply nres_bind. apply store_set_nres. apply nres_ret. split; [|split; [exact Hp2|exact Hv]].
            destruct HJ2 as ((Hs2 & Hc2) & Hdt2 & Hdc2). split; [split; [apply storeK_forced; assumption|exact Hc2]|]. split; [apply dtl_other; assumption|exact Hdc2].
        + exact I.
        + apply nres_ret. split; [exact HJ|]. split; [reflexivity|]. intros v1 pb Hn. destruct HJ as (((Hl & Hs) & _) & _).
          assert (Hlt : (N.to_nat loc < length (w_rho w))%nat) by (apply nth_error_Some; congruence).
          destruct (Hs _ _ Hlt Eth) as (v2 & pb2 & Hn2 & Hst). rewrite Es in Hst. congruence.
      - (* force_scoped *)
        intros name cell ls p HJ Hcell. cbn [force_scoped]. destruct cell as [pairs| |m].
        + destruct Hcell as [(early & extra & -> & HF) HD]. change (@nil (N * lvalue)) with (forced_map []).
          eapply nres_mono; [apply (n_force_pairs_early F name IHe early _ HF extra [] [] ls p HJ (NoDup_nil _) HD)|]; [intros _ k []|].
          intros m ls1 p1 ((HJ1 & Hp1 & Hnd & Hk & Hb) & new & Em). cbn [app] in Em.
          split; [exact HJ1|]. split; [exact Hp1|]. split; [split; [exists new; exact Em|split; assumption]|]. split; [discriminate|].
          intros pairs slv v dbg [= <-] Hin Hbad. apply (Hb _ Hin). exact Hbad.
        + exact I.
        + apply nres_ret. split; [exact HJ|]. split; [reflexivity|]. split; [exact Hcell|]. split; [discriminate|]. intros pairs slv v dbg E. discriminate.
    Qed.
    (* one step of the final sweep `LazyScopedVariables::evaluate_all` *)
    Definition sweep_step (F : nat) (name : ident) : M lstate unit :=
      c <- cell_get name ;;
      match c with
      | None => ret tt
      | Some cell => cell_set name SVForcing ;;; map <- force_scoped' F name cell ;; cell_set name (SVForced map)
      end.
    Lemma n_sweep_step F name ls p : J' ls ->
      nres (sweep_step F name ls p)
           (fun _ ls' _ => J' ls' /\ (alist_get name (l_scoped ls) <> None -> (forall slv, dc <> Some (name, slv)) /\ exists m, mapK w name m)).
    Proof.
      intros HJ. destruct (evJ F) as (_ & _ & IHs). unfold sweep_step. apply nres_bind. unfold cell_get. apply nres_get. apply nres_ret.
      destruct (alist_get name (l_scoped ls)) as [cell|] eqn:Ec; [|apply nres_ret; split; [exact HJ|congruence]].
      apply nres_bind. apply cell_set_nres.
      assert (Hcell : cellK w name (Some cell)) by (destruct HJ as ((_ & Hc) & _); specialize (Hc name); rewrite Ec in Hc; exact Hc).
      assert (HJ2 : J' (set_scoped_l (alist_set name SVForcing (l_scoped ls)) ls)).
      { apply J_set_cell; [exact HJ|exact I|]. intros slv _. exact I. }
      apply nres_bind. eapply nres_mono; [apply (IHs name cell _ p HJ2 Hcell)|]. intros m ls3 p3 (HJ3 & Hp3 & Hm & Hnf & Hnb).
      assert (Hdc : forall slv, dc <> Some (name, slv)).
      { intros slv Edc. destruct HJ as (_ & _ & Hd). rewrite Edc in Hd. destruct Hd as [Hbad Hd]. rewrite Ec in Hd.
        destruct cell as [pairs| |m0]; [|congruence|exact Hd]. destruct Hd as (v & dbg & Hin). apply (Hnb pairs slv v dbg eq_refl Hin Hbad). }
      apply cell_set_nres. split; [apply J_set_cell; [exact HJ3|exact Hm|]; intros slv Edc; exfalso; apply (Hdc slv Edc)|].
      intros _. split; [exact Hdc|exists m; exact Hm].
    Qed.
  End Ev.
End K2.
