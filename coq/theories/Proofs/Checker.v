(* Proofs/Checker.v — facts about Model/Checker.v: unfolding equations, induction principles for the
   nested AST, resolution (check_resolves), the unused-capture list (check_deterministic_names),
   absence of panics (no_panic_check), locality (local_is_pure_partial). *)
From TSG Require Import Model.Checker Spec.Rules Proofs.BaseFacts Proofs.OrderFacts.
From Coq Require Import Sorted Permutation.

(* ------------------------------------------------------------------ outcome monad *)
Lemma obind_ok {E A B} (m : outcome E A) (f : A -> outcome E B) b :
  obind m f = Ok b -> exists a, m = Ok a /\ f a = Ok b.
Proof. destruct m; cbn [obind]; try discriminate. eauto. Qed.
Lemma obind_err {E A B} (m : outcome E A) (f : A -> outcome E B) e :
  obind m f = Err e -> m = Err e \/ exists a, m = Ok a /\ f a = Err e.
Proof. destruct m; cbn [obind]; try discriminate; [eauto | intros [= ->]; auto]. Qed.

Definition benign {E A} (r : outcome E A) : Prop := match r with Ok _ | Err _ => True | _ => False end.
Lemma benign_obind {E A B} (m : outcome E A) (f : A -> outcome E B) :
  benign m -> (forall a, m = Ok a -> benign (f a)) -> benign (obind m f).
Proof. destruct m; cbn [obind benign]; auto; tauto. Qed.

(* ------------------------------------------------------------------ induction principles *)
Section ExprInd.
  Variable P : expr -> Prop.
  Hypothesis HFalse : P EFalse.
  Hypothesis HNull : P ENull.
  Hypothesis HTrue : P ETrue.
  Hypothesis HInt : forall n, P (EInt n).
  Hypothesis HStr : forall s, P (EStr s).
  Hypothesis HList : forall es, Forall P es -> P (EList es).
  Hypothesis HSet : forall es, Forall P es -> P (ESet es).
  Hypothesis HListComp : forall el x xl v l, P el -> P v -> P (EListComp el x xl v l).
  Hypothesis HSetComp : forall el x xl v l, P el -> P v -> P (ESetComp el x xl v l).
  Hypothesis HCapture : forall n q fi si l, P (ECapture n q fi si l).
  Hypothesis HUnscoped : forall x l, P (EUnscoped x l).
  Hypothesis HScoped : forall s x l, P s -> P (EScoped s x l).
  Hypothesis HCall : forall f args, Forall P args -> P (ECall f args).
  Hypothesis HRegexCap : forall i, P (ERegexCap i).
  Fixpoint expr_ind' (e : expr) : P e :=
    let fix go (l : list expr) : Forall P l :=
      match l with [] => Forall_nil _ | x :: l' => Forall_cons x (expr_ind' x) (go l') end in
    match e with
    | EFalse => HFalse | ENull => HNull | ETrue => HTrue | EInt n => HInt n | EStr s => HStr s
    | EList es => HList es (go es) | ESet es => HSet es (go es)
    | EListComp el x xl v l => HListComp el x xl v l (expr_ind' el) (expr_ind' v)
    | ESetComp el x xl v l => HSetComp el x xl v l (expr_ind' el) (expr_ind' v)
    | ECapture n q fi si l => HCapture n q fi si l
    | EUnscoped x l => HUnscoped x l
    | EScoped s x l => HScoped s x l (expr_ind' s)
    | ECall f args => HCall f args (go args)
    | ERegexCap i => HRegexCap i
    end.
End ExprInd.

Definition arm_body {A} (arm : A * list stmt * loc) : list stmt := snd (fst arm).

Section StmtInd.
  Variable P : stmt -> Prop.
  Hypothesis HLet : forall v e l, P (SLet v e l).
  Hypothesis HVar : forall v e l, P (SVar v e l).
  Hypothesis HSet : forall v e l, P (SSet v e l).
  Hypothesis HNode : forall v t l, P (SNode v t l).
  Hypothesis HAttrNode : forall n attrs l, P (SAttrNode n attrs l).
  Hypothesis HEdge : forall a b l, P (SEdge a b l).
  Hypothesis HAttrEdge : forall a b attrs l, P (SAttrEdge a b attrs l).
  Hypothesis HScan : forall v arms l, Forall (fun arm => Forall P (arm_body arm)) arms -> P (SScan v arms l).
  Hypothesis HPrint : forall vs l, P (SPrint vs l).
  Hypothesis HIf : forall arms l, Forall (fun arm => Forall P (arm_body arm)) arms -> P (SIf arms l).
  Hypothesis HFor : forall x xl v body l, Forall P body -> P (SFor x xl v body l).
  Fixpoint stmt_ind' (s : stmt) : P s :=
    let fix go (l : list stmt) : Forall P l :=
      match l with [] => Forall_nil _ | x :: l' => Forall_cons x (stmt_ind' x) (go l') end in
    match s with
    | SLet v e l => HLet v e l | SVar v e l => HVar v e l | SSet v e l => HSet v e l
    | SNode v t l => HNode v t l | SAttrNode n attrs l => HAttrNode n attrs l
    | SEdge a b l => HEdge a b l | SAttrEdge a b attrs l => HAttrEdge a b attrs l
    | SScan v arms l =>
        HScan v arms l ((fix goa (arms : list (N * list stmt * loc)) : Forall (fun arm => Forall P (arm_body arm)) arms :=
           match arms with [] => Forall_nil _ | a :: arms' => Forall_cons a (go (arm_body a)) (goa arms') end) arms)
    | SPrint vs l => HPrint vs l
    | SIf arms l =>
        HIf arms l ((fix goa (arms : list (list cond * list stmt * loc)) : Forall (fun arm => Forall P (arm_body arm)) arms :=
           match arms with [] => Forall_nil _ | a :: arms' => Forall_cons a (go (arm_body a)) (goa arms') end) arms)
    | SFor x xl v body l => HFor x xl v body l (go body)
    end.
End StmtInd.

(* ------------------------------------------------------------------ unfolding equations *)
Definition check_comp (cx : cctx) (env : cenv) (mk : expr -> ident -> loc -> expr -> loc -> expr)
    (el : expr) (x : ident) (xl : loc) (v : expr) (l : loc) : ck (expr * eres) :=
  obind (check_expr cx env v) (fun '(v', vr) =>
  if negb (er_local vr) then Err (CkExpectedLocal l) else
  if negb (is_list_q (er_quant vr)) then Err (CkExpectedList l) else
  obind (unscoped_check_add cx (varmap_nested env) x xl (vres_of vr) false) (fun loop_env =>
  obind (check_expr cx loop_env el) (fun '(el', er) =>
  Ok (mk el' x xl v' l, {| er_local := er_local er; er_quant := QStar; er_used := er_used vr ++ er_used er |})))).
Definition check_elems (cx : cctx) (env : cenv) (mk : list expr -> expr) (q : quant) (es : list expr) : ck (expr * eres) :=
  obind (mapM (check_expr cx env) es) (fun rs =>
  Ok (mk (map fst rs), {| er_local := all_local rs; er_quant := q; er_used := all_used rs |})).

Lemma check_expr_list cx env es : check_expr cx env (EList es) = check_elems cx env EList QStar es.
Proof. reflexivity. Qed.
Lemma check_expr_set cx env es : check_expr cx env (ESet es) = check_elems cx env ESet QStar es.
Proof. reflexivity. Qed.
Lemma check_expr_call cx env f es : check_expr cx env (ECall f es) = check_elems cx env (ECall f) QOne es.
Proof. reflexivity. Qed.
Lemma check_expr_listcomp cx env el x xl v l :
  check_expr cx env (EListComp el x xl v l) = check_comp cx env EListComp el x xl v l.
Proof. reflexivity. Qed.
Lemma check_expr_setcomp cx env el x xl v l :
  check_expr cx env (ESetComp el x xl v l) = check_comp cx env ESetComp el x xl v l.
Proof. reflexivity. Qed.
Lemma check_expr_scoped cx env s x l :
  check_expr cx env (EScoped s x l) =
  obind (check_expr cx env s) (fun '(s', sr) => Ok (EScoped s' x l, {| er_local := false; er_quant := QOne; er_used := er_used sr |})).
Proof. reflexivity. Qed.

Definition scan_arm (cx : cctx) (env0 : cenv) (arm : N * list stmt * loc) : ck ((N * list stmt * loc) * cenv * list ident) :=
  let '(rx, body, al) := arm in
  if nullable_rx cx rx then Err (CkNullableRegex rx al) else
  obind (check_block cx (varmap_nested env0) body) (fun '(body', env1, u) => Ok ((rx, body', al), varmap_pop env1, u)).
Definition if_arm (cx : cctx) (env0 : cenv) (arm : list cond * list stmt * loc) : ck ((list cond * list stmt * loc) * cenv * list ident) :=
  let '(conds, body, al) := arm in
  obind (mapM (check_cond cx env0) conds) (fun crs =>
  obind (check_block cx (varmap_nested env0) body) (fun '(body', env1, u) =>
  Ok ((map fst crs, body', al), varmap_pop env1, concat (map snd crs) ++ u))).

Lemma check_stmt_scan cx env v arms l :
  check_stmt cx env (SScan v arms l) =
  obind (check_expr cx env v) (fun '(v', r) =>
  if negb (er_local r) then Err (CkExpectedLocal l) else
  obind (check_seq (scan_arm cx) env arms) (fun '(arms', env', u) => Ok (SScan v' arms' l, env', er_used r ++ u))).
Proof. reflexivity. Qed.
Lemma check_stmt_if cx env arms l :
  check_stmt cx env (SIf arms l) =
  obind (check_seq (if_arm cx) env arms) (fun '(arms', env', u) => Ok (SIf arms' l, env', u)).
Proof. reflexivity. Qed.
Lemma check_stmt_for cx env x xl v body l :
  check_stmt cx env (SFor x xl v body l) =
  obind (check_expr cx env v) (fun '(v', r) =>
  if negb (er_local r) then Err (CkExpectedLocal l) else
  if negb (is_list_q (er_quant r)) then Err (CkExpectedList l) else
  obind (unscoped_check_add cx (varmap_nested env) x xl (vres_of r) false) (fun loop_env =>
  obind (check_block cx loop_env body) (fun '(body', env1, u) =>
  Ok (SFor x xl v' body' l, varmap_pop env1, er_used r ++ u)))).
Proof. reflexivity. Qed.

(* ------------------------------------------------------------------ generic facts about mapM / check_seq *)
Ltac bind_ok H x Hx :=
  let H' := fresh in apply obind_ok in H; destruct H as (x & Hx & H'); rename H' into H.

Lemma mapM_ok {A B} (f : A -> ck B) l ys : mapM f l = Ok ys -> Forall2 (fun x y => f x = Ok y) l ys.
Proof.
  revert ys; induction l as [|x l IH]; cbn [mapM]; intros ys H.
  - inversion H; constructor.
  - bind_ok H y Hy. bind_ok H ys' Hys. inversion H; subst. constructor; auto.
Qed.

(* ================================================================== check_resolves *)
Definition cap_ok (cx : cctx) (c : cap_node) : Prop :=
  let '(name, q, fi, si) := c in
  name_index name (cx_stanza_names cx) = Some si /\ name_index name (cx_file_names cx) = Some fi /\
  exists row, cx_file_quants cx = Some row /\ nth_error row (N.to_nat fi) = Some q.

Definition expr_res_ok (cx : cctx) (e e' : expr) (r : eres) : Prop :=
  erase_expr e' = erase_expr e /\ Forall (cap_ok cx) (expr_caps e') /\ er_used r = map cap_name (expr_caps e).

Lemma elems_res_ok cx env es : 
  Forall (fun e => forall env e' r, check_expr cx env e = Ok (e', r) -> expr_res_ok cx e e' r) es ->
  forall rs, mapM (check_expr cx env) es = Ok rs ->
  map erase_expr (map fst rs) = map erase_expr es /\ Forall (cap_ok cx) (flat_map expr_caps (map fst rs)) /\
  all_used rs = map cap_name (flat_map expr_caps es).
Proof.
  induction 1 as [|e es He Hes IH]; cbn [mapM]; intros rs H.
  - inversion H; subst. cbn. auto.
  - bind_ok H y Hy. bind_ok H ys Hys. inversion H; subst. destruct y as [e' r].
    destruct (He _ _ _ Hy) as (H1 & H2 & H3). destruct (IH _ Hys) as (H4 & H5 & H6).
    unfold all_used in *. cbn [map fst snd flat_map concat]. rewrite H1, H4, H3, H6, map_app. 
    split; [reflexivity|]. split; [|reflexivity]. apply Forall_app; auto.
Qed.

Lemma check_capture_res_ok cx name q0 fi0 si0 l e' r :
  check_capture cx name l = Ok (e', r) -> expr_res_ok cx (ECapture name q0 fi0 si0 l) e' r.
Proof.
  unfold check_capture. destruct (name_index name (cx_stanza_names cx)) as [si|] eqn:Es; [|discriminate].
  destruct (name_index name (cx_file_names cx)) as [fi|] eqn:Ef; [|discriminate].
  destruct (cx_file_quants cx) as [row|] eqn:Er; [|discriminate].
  destruct (nth_error row (N.to_nat fi)) as [q|] eqn:Eq; [|discriminate].
  intros [= <- <-]. repeat split; cbn; auto. constructor; [|constructor]. cbn. eauto.
Qed.

Lemma check_expr_resolves cx e : forall env e' r, check_expr cx env e = Ok (e', r) -> expr_res_ok cx e e' r.
Proof.
  induction e using expr_ind'; intros env e' r Hc;
    try (cbn in Hc; inversion Hc; subst; repeat split; cbn; auto; fail).
  - rewrite check_expr_list in Hc. unfold check_elems in Hc. bind_ok Hc rs Hrs. inversion Hc; subst.
    destruct (elems_res_ok _ _ _ H _ Hrs) as (H1 & H2 & H3). repeat split; cbn [erase_expr expr_caps er_used]; congruence || auto.
  - rewrite check_expr_set in Hc. unfold check_elems in Hc. bind_ok Hc rs Hrs. inversion Hc; subst.
    destruct (elems_res_ok _ _ _ H _ Hrs) as (H1 & H2 & H3). repeat split; cbn [erase_expr expr_caps er_used]; congruence || auto.
  - rewrite check_expr_listcomp in Hc. unfold check_comp in Hc. bind_ok Hc a Ha. destruct a as [v' vr]. cbv beta iota in Hc.
    destruct (er_local vr); cbn [negb] in Hc; [|discriminate].
    destruct (is_list_q (er_quant vr)); cbn [negb] in Hc; [|discriminate].
    bind_ok Hc lenv Hl. bind_ok Hc b Hb. destruct b as [el' er]. cbv beta iota in Hc. inversion Hc; subst.
    destruct (IHe2 _ _ _ Ha) as (A1 & A2 & A3). destruct (IHe1 _ _ _ Hb) as (B1 & B2 & B3).
    repeat split; cbn [erase_expr expr_caps er_used].
    + congruence.
    + apply Forall_app; auto.
    + rewrite map_app. congruence.
  - rewrite check_expr_setcomp in Hc. unfold check_comp in Hc. bind_ok Hc a Ha. destruct a as [v' vr]. cbv beta iota in Hc.
    destruct (er_local vr); cbn [negb] in Hc; [|discriminate].
    destruct (is_list_q (er_quant vr)); cbn [negb] in Hc; [|discriminate].
    bind_ok Hc lenv Hl. bind_ok Hc b Hb. destruct b as [el' er]. cbv beta iota in Hc. inversion Hc; subst.
    destruct (IHe2 _ _ _ Ha) as (A1 & A2 & A3). destruct (IHe1 _ _ _ Hb) as (B1 & B2 & B3).
    repeat split; cbn [erase_expr expr_caps er_used].
    + congruence.
    + apply Forall_app; auto.
    + rewrite map_app. congruence.
  - cbn [check_expr] in Hc. eapply check_capture_res_ok; eauto.
  - cbn [check_expr] in Hc. bind_ok Hc r0 Hr. inversion Hc; subst. unfold unscoped_check_get in Hr.
    destruct (varmap_get (cx_globals cx) x); [inversion Hr; subst; repeat split; cbn; auto|].
    destruct (varmap_get env x); inversion Hr; subst. repeat split; cbn; auto.
  - rewrite check_expr_scoped in Hc. bind_ok Hc a Ha. destruct a as [s' sr]. cbv beta iota in Hc. inversion Hc; subst.
    destruct (IHe _ _ _ Ha) as (A1 & A2 & A3). repeat split; cbn [erase_expr expr_caps er_used]; congruence || auto.
  - rewrite check_expr_call in Hc. unfold check_elems in Hc. bind_ok Hc rs Hrs. inversion Hc; subst.
    destruct (elems_res_ok _ _ _ H _ Hrs) as (H1 & H2 & H3). repeat split; cbn [erase_expr expr_caps er_used]; congruence || auto.
Qed.

Section SeqRes.
  Context {A B C : Type} (cx : cctx) (eA : A -> C) (eB : B -> C) (cA : A -> list cap_node) (cB : B -> list cap_node).
  Definition item_res_ok (x : A) (x' : B) (u : list ident) : Prop :=
    eB x' = eA x /\ Forall (cap_ok cx) (cB x') /\ u = map cap_name (cA x).

  Lemma check_seq_res_ok (f : cenv -> A -> ck (B * cenv * list ident)) l :
    Forall (fun x => forall env x' env' u, f env x = Ok (x', env', u) -> item_res_ok x x' u) l ->
    forall env l' env' u, check_seq f env l = Ok (l', env', u) ->
      map eB l' = map eA l /\ Forall (cap_ok cx) (flat_map cB l') /\ u = map cap_name (flat_map cA l).
  Proof.
    induction 1 as [|x l Hx Hl IH]; cbn [check_seq]; intros env l' env' u H.
    - inversion H; subst. cbn. auto.
    - bind_ok H a Ha. destruct a as [[x' env1] u1]. cbv beta iota in H.
      bind_ok H b Hb. destruct b as [[l'' env2] u2]. cbv beta iota in H. inversion H; subst.
      destruct (Hx _ _ _ _ Ha) as (H1 & H2 & H3). destruct (IH _ _ _ _ Hb) as (H4 & H5 & H6).
      cbn [map flat_map]. rewrite H1, H4, H3, H6, map_app. split; [reflexivity|]. split; [|reflexivity].
      apply Forall_app; auto.
  Qed.

  Lemma mapM_res_ok (f : A -> ck (B * list ident)) l :
    Forall (fun x => forall x' u, f x = Ok (x', u) -> item_res_ok x x' u) l ->
    forall rs, mapM f l = Ok rs ->
      map eB (map fst rs) = map eA l /\ Forall (cap_ok cx) (flat_map cB (map fst rs)) /\
      concat (map snd rs) = map cap_name (flat_map cA l).
  Proof.
    induction 1 as [|x l Hx Hl IH]; cbn [mapM]; intros rs H.
    - inversion H; subst. cbn. auto.
    - bind_ok H a Ha. destruct a as [x' u1]. bind_ok H b Hb. inversion H; subst.
      destruct (Hx _ _ Ha) as (H1 & H2 & H3). destruct (IH _ Hb) as (H4 & H5 & H6).
      cbn [map flat_map fst snd concat]. rewrite H1, H4, H3, H6, map_app. split; [reflexivity|]. split; [|reflexivity].
      apply Forall_app; auto.
  Qed.
End SeqRes.

Lemma check_var_add_res_ok cx env v val m v' env' u :
  check_var_add cx env v val m = Ok (v', env', u) ->
  item_res_ok cx erase_variable erase_variable variable_caps variable_caps v v' u.
Proof.
  destruct v as [x l|s x l]; cbn [check_var_add]; intros H.
  - bind_ok H a Ha. inversion H; subst. repeat split; cbn; auto.
  - bind_ok H a Ha. destruct a as [s' sr]. cbv beta iota in H. inversion H; subst.
    destruct (check_expr_resolves _ _ _ _ _ Ha) as (A1 & A2 & A3). repeat split; cbn [erase_variable variable_caps]; congruence || auto.
Qed.
Lemma check_var_set_res_ok cx env v val v' env' u :
  check_var_set cx env v val = Ok (v', env', u) ->
  item_res_ok cx erase_variable erase_variable variable_caps variable_caps v v' u.
Proof.
  destruct v as [x l|s x l]; cbn [check_var_set]; intros H.
  - bind_ok H a Ha. inversion H; subst. repeat split; cbn; auto.
  - bind_ok H a Ha. destruct a as [s' sr]. cbv beta iota in H. inversion H; subst.
    destruct (check_expr_resolves _ _ _ _ _ Ha) as (A1 & A2 & A3). repeat split; cbn [erase_variable variable_caps]; congruence || auto.
Qed.
Lemma check_attr_res_ok cx env a a' u :
  check_attr cx env a = Ok (a', u) -> item_res_ok cx erase_attr erase_attr attr_caps attr_caps a a' u.
Proof.
  destruct a as [n v]; cbn [check_attr]; intros H. bind_ok H a Ha. destruct a as [v' r]. cbv beta iota in H. inversion H; subst.
  destruct (check_expr_resolves _ _ _ _ _ Ha) as (A1 & A2 & A3). repeat split; cbn [erase_attr attr_caps]; congruence || auto.
Qed.
Lemma check_cond_res_ok cx env c c' u :
  check_cond cx env c = Ok (c', u) -> item_res_ok cx erase_cond erase_cond cond_caps cond_caps c c' u.
Proof.
  destruct c as [e l|e l|e l]; cbn [check_cond]; intros H; bind_ok H a Ha; destruct a as [e' r]; cbv beta iota in H;
    (destruct (er_local r); cbn [negb] in H; [|discriminate]);
    try (destruct (is_opt_q (er_quant r)); cbn [negb] in H; [|discriminate]);
    inversion H; subst; destruct (check_expr_resolves _ _ _ _ _ Ha) as (A1 & A2 & A3);
    repeat split; cbn [erase_cond cond_caps]; congruence || auto.
Qed.
Lemma attrs_res_ok cx env attrs ars :
  mapM (check_attr cx env) attrs = Ok ars ->
  map erase_attr (map fst ars) = map erase_attr attrs /\ Forall (cap_ok cx) (flat_map attr_caps (map fst ars)) /\
  concat (map snd ars) = map cap_name (flat_map attr_caps attrs).
Proof.
  apply mapM_res_ok. apply Forall_forall. intros a _ a' u. apply check_attr_res_ok.
Qed.
Lemma conds_res_ok cx env conds crs :
  mapM (check_cond cx env) conds = Ok crs ->
  map erase_cond (map fst crs) = map erase_cond conds /\ Forall (cap_ok cx) (flat_map cond_caps (map fst crs)) /\
  concat (map snd crs) = map cap_name (flat_map cond_caps conds).
Proof.
  apply mapM_res_ok. apply Forall_forall. intros a _ a' u. apply check_cond_res_ok.
Qed.
Lemma exprs_res_ok cx env es rs :
  mapM (check_expr cx env) es = Ok rs ->
  map erase_expr (map fst rs) = map erase_expr es /\ Forall (cap_ok cx) (flat_map expr_caps (map fst rs)) /\
  all_used rs = map cap_name (flat_map expr_caps es).
Proof.
  apply elems_res_ok. apply Forall_forall. intros e _ env' e' r. apply check_expr_resolves.
Qed.

Definition stmt_res_ok (cx : cctx) := item_res_ok cx erase_stmt erase_stmt stmt_caps stmt_caps.
Definition erase_scan_arm (arm : N * list stmt * loc) := (fst (fst arm), map erase_stmt (snd (fst arm)), snd arm).
Definition erase_if_arm (arm : list cond * list stmt * loc) := (map erase_cond (fst (fst arm)), map erase_stmt (snd (fst arm)), snd arm).
Definition scan_arm_caps (arm : N * list stmt * loc) := flat_map stmt_caps (snd (fst arm)).
Definition if_arm_caps (arm : list cond * list stmt * loc) := flat_map cond_caps (fst (fst arm)) ++ flat_map stmt_caps (snd (fst arm)).

Lemma check_stmt_resolves cx s : forall env s' env' u, check_stmt cx env s = Ok (s', env', u) -> stmt_res_ok cx s s' u.
Proof.
  unfold stmt_res_ok.
  induction s using stmt_ind'; intros env s' env' u Hc.
  - cbn [check_stmt] in Hc. bind_ok Hc a Ha. destruct a as [e' r]. cbv beta iota in Hc. bind_ok Hc b Hb. destruct b as [[v' env1] u1].
    cbv beta iota in Hc. inversion Hc; subst. destruct (check_expr_resolves _ _ _ _ _ Ha) as (A1 & A2 & A3).
    destruct (check_var_add_res_ok _ _ _ _ _ _ _ _ Hb) as (B1 & B2 & B3).
    repeat split; cbn [erase_stmt stmt_caps]; [congruence | apply Forall_app; auto | rewrite map_app; congruence].
  - cbn [check_stmt] in Hc. bind_ok Hc a Ha. destruct a as [e' r]. cbv beta iota in Hc. bind_ok Hc b Hb. destruct b as [[v' env1] u1].
    cbv beta iota in Hc. inversion Hc; subst. destruct (check_expr_resolves _ _ _ _ _ Ha) as (A1 & A2 & A3).
    destruct (check_var_add_res_ok _ _ _ _ _ _ _ _ Hb) as (B1 & B2 & B3).
    repeat split; cbn [erase_stmt stmt_caps]; [congruence | apply Forall_app; auto | rewrite map_app; congruence].
  - cbn [check_stmt] in Hc. bind_ok Hc a Ha. destruct a as [e' r]. cbv beta iota in Hc. bind_ok Hc b Hb. destruct b as [[v' env1] u1].
    cbv beta iota in Hc. inversion Hc; subst. destruct (check_expr_resolves _ _ _ _ _ Ha) as (A1 & A2 & A3).
    destruct (check_var_set_res_ok _ _ _ _ _ _ _ Hb) as (B1 & B2 & B3).
    repeat split; cbn [erase_stmt stmt_caps]; [congruence | apply Forall_app; auto | rewrite map_app; congruence].
  - cbn [check_stmt] in Hc. bind_ok Hc b Hb. destruct b as [[v' env1] u1]. cbv beta iota in Hc. inversion Hc; subst.
    destruct (check_var_add_res_ok _ _ _ _ _ _ _ _ Hb) as (B1 & B2 & B3).
    repeat split; cbn [erase_stmt stmt_caps]; [congruence | auto | congruence].
  - cbn [check_stmt] in Hc. bind_ok Hc a Ha. destruct a as [n' r]. cbv beta iota in Hc. bind_ok Hc ars Hars. inversion Hc; subst.
    destruct (check_expr_resolves _ _ _ _ _ Ha) as (A1 & A2 & A3). destruct (attrs_res_ok _ _ _ _ Hars) as (B1 & B2 & B3).
    repeat split; cbn [erase_stmt stmt_caps]; [congruence | apply Forall_app; auto | rewrite map_app; congruence].
  - cbn [check_stmt] in Hc. bind_ok Hc p Ha. destruct p as [a' r1]. cbv beta iota in Hc. bind_ok Hc b0 Hb. destruct b0 as [b' r2].
    cbv beta iota in Hc. inversion Hc; subst.
    destruct (check_expr_resolves _ _ _ _ _ Ha) as (A1 & A2 & A3). destruct (check_expr_resolves _ _ _ _ _ Hb) as (B1 & B2 & B3).
    repeat split; cbn [erase_stmt stmt_caps]; [congruence | apply Forall_app; auto | rewrite map_app; congruence].
  - cbn [check_stmt] in Hc. bind_ok Hc p Ha. destruct p as [a' r1]. cbv beta iota in Hc. bind_ok Hc b0 Hb. destruct b0 as [b' r2].
    cbv beta iota in Hc. bind_ok Hc ars Hars. inversion Hc; subst.
    destruct (check_expr_resolves _ _ _ _ _ Ha) as (A1 & A2 & A3). destruct (check_expr_resolves _ _ _ _ _ Hb) as (B1 & B2 & B3).
    destruct (attrs_res_ok _ _ _ _ Hars) as (C1 & C2 & C3).
    repeat split; cbn [erase_stmt stmt_caps]; [congruence | repeat (apply Forall_app; split); auto | rewrite !map_app; congruence].
  - rewrite check_stmt_scan in Hc. bind_ok Hc a Ha. destruct a as [v' r]. cbv beta iota in Hc.
    destruct (er_local r); cbn [negb] in Hc; [|discriminate].
    bind_ok Hc b Hb. destruct b as [[arms' env1] u1]. cbv beta iota in Hc. inversion Hc; subst.
    destruct (check_expr_resolves _ _ _ _ _ Ha) as (A1 & A2 & A3).
    assert (Harms : map erase_scan_arm arms' = map erase_scan_arm arms /\ Forall (cap_ok cx) (flat_map scan_arm_caps arms') /\
                    u1 = map cap_name (flat_map scan_arm_caps arms)).
    { eapply check_seq_res_ok; [|exact Hb]. eapply Forall_impl; [|exact H].
      intros [[rx body] al] Hbody env0 x' env2 u2 Harm. unfold scan_arm in Harm.
      destruct (nullable_rx cx rx); [discriminate|]. bind_ok Harm c Hc'. destruct c as [[body' env3] u3]. cbv beta iota in Harm.
      inversion Harm; subst. unfold check_block in Hc'.
      destruct (check_seq_res_ok cx erase_stmt erase_stmt stmt_caps stmt_caps _ _ Hbody _ _ _ _ Hc') as (B1 & B2 & B3).
      unfold arm_body in B1, B3; cbn [fst snd] in B1, B3.
      unfold item_res_ok, erase_scan_arm, scan_arm_caps; cbn [fst snd]. repeat split; congruence || auto. }
    destruct Harms as (B1 & B2 & B3).
    repeat split; cbn [erase_stmt stmt_caps]; [f_equal; auto | apply Forall_app; auto | rewrite map_app, A3, B3; reflexivity].
  - cbn [check_stmt] in Hc. bind_ok Hc rs Hrs. inversion Hc; subst. destruct (exprs_res_ok _ _ _ _ Hrs) as (B1 & B2 & B3).
    repeat split; cbn [erase_stmt stmt_caps]; [congruence | auto | auto].
  - rewrite check_stmt_if in Hc. bind_ok Hc b Hb. destruct b as [[arms' env1] u1]. cbv beta iota in Hc. inversion Hc; subst.
    assert (Harms : map erase_if_arm arms' = map erase_if_arm arms /\ Forall (cap_ok cx) (flat_map if_arm_caps arms') /\
                    u = map cap_name (flat_map if_arm_caps arms)).
    { eapply check_seq_res_ok; [|exact Hb]. eapply Forall_impl; [|exact H].
      intros [[conds body] al] Hbody env0 x' env2 u2 Harm. unfold if_arm in Harm.
      bind_ok Harm crs Hcrs. bind_ok Harm c Hc'. destruct c as [[body' env3] u3]. cbv beta iota in Harm.
      inversion Harm; subst. unfold check_block in Hc'. destruct (conds_res_ok _ _ _ _ Hcrs) as (C1 & C2 & C3).
      destruct (check_seq_res_ok cx erase_stmt erase_stmt stmt_caps stmt_caps _ _ Hbody _ _ _ _ Hc') as (B1 & B2 & B3).
      unfold arm_body in B1, B3; cbn [fst snd] in B1, B3.
      unfold item_res_ok, erase_if_arm, if_arm_caps; cbn [fst snd]. repeat split; [congruence | apply Forall_app; auto | rewrite map_app; congruence]. }
    destruct Harms as (B1 & B2 & B3).
    repeat split; cbn [erase_stmt stmt_caps]; [f_equal; auto | auto | rewrite B3; reflexivity].
  - rewrite check_stmt_for in Hc. bind_ok Hc a Ha. destruct a as [v' r]. cbv beta iota in Hc.
    destruct (er_local r); cbn [negb] in Hc; [|discriminate].
    destruct (is_list_q (er_quant r)); cbn [negb] in Hc; [|discriminate].
    bind_ok Hc lenv Hl. bind_ok Hc b Hb. destruct b as [[body' env1] u1]. cbv beta iota in Hc. inversion Hc; subst.
    destruct (check_expr_resolves _ _ _ _ _ Ha) as (A1 & A2 & A3). unfold check_block in Hb.
    destruct (check_seq_res_ok cx erase_stmt erase_stmt stmt_caps stmt_caps _ _ H _ _ _ _ Hb) as (B1 & B2 & B3).
    repeat split; cbn [erase_stmt stmt_caps]; [congruence | apply Forall_app; auto | rewrite map_app; congruence].
Qed.

Lemma check_block_resolves cx body : forall env body' env' u, check_block cx env body = Ok (body', env', u) ->
  map erase_stmt body' = map erase_stmt body /\ Forall (cap_ok cx) (flat_map stmt_caps body') /\
  u = map cap_name (flat_map stmt_caps body).
Proof.
  intros env body' env' u H. unfold check_block in H.
  eapply (check_seq_res_ok cx erase_stmt erase_stmt stmt_caps stmt_caps); [|exact H].
  apply Forall_forall. intros s _. apply check_stmt_resolves.
Qed.

Lemma cap_ok_resolved q globals i names c :
  nth_error (qt_stanza_names q) i = Some names ->
  cap_ok (stanza_ctx q globals i names) c -> capture_resolved q i c.
Proof.
  destruct c as [[[name qu] fi] si]. unfold cap_ok, capture_resolved, stanza_ctx; cbn.
  intros Hn (H1 & H2 & row & H3 & H4). exists names, row. auto.
Qed.

Lemma check_stanza_resolves order q globals i st st' :
  check_stanza order q globals i st = Ok st' -> erase_stanza st' = erase_stanza st /\ stanza_resolved q i st'.
Proof.
  unfold check_stanza. destruct (nth_error (qt_stanza_names q) i) as [names|] eqn:En; [|discriminate].
  destruct (name_index FULL_MATCH (qt_file_names q)) as [ff|] eqn:Ef; [|discriminate].
  intros H. bind_ok H a Ha. destruct a as [[stmts' env'] used]. cbv beta iota in H. bind_ok H un Hun.
  destruct un; [|discriminate]. inversion H; subst.
  destruct (check_block_resolves _ _ _ _ _ _ Ha) as (B1 & B2 & B3).
  split.
  - unfold erase_stanza; cbn. congruence.
  - split; cbn; [|assumption]. eapply Forall_impl; [|exact B2]. intros c. apply cap_ok_resolved. assumption.
Qed.

Lemma check_stanzas_resolves order q globals sts : forall i sts',
  check_stanzas order q globals i sts = Ok sts' ->
  map erase_stanza sts' = map erase_stanza sts /\
  forall j st, nth_error sts' j = Some st -> stanza_resolved q (i + j) st.
Proof.
  induction sts as [|st sts IH]; cbn [check_stanzas]; intros i sts' H.
  - inversion H; subst. split; [reflexivity|]. intros [|j] st; discriminate.
  - bind_ok H st' Hst. bind_ok H sts'' Hsts. inversion H; subst.
    destruct (check_stanza_resolves _ _ _ _ _ _ Hst) as (A1 & A2). destruct (IH _ _ Hsts) as (B1 & B2).
    split; [cbn [map]; congruence|]. intros [|j] st0 Hj; cbn [nth_error] in Hj.
    + inversion Hj; subst. rewrite Nat.add_0_r. assumption.
    + rewrite Nat.add_succ_r. apply (B2 j st0 Hj).
Qed.

Lemma check_resolves_lemma order q f f' :
  check_file_with order q f = CkOk f' -> erase_resolution f' = erase_resolution f /\ file_resolved q f'.
Proof.
  unfold check_file_with, to_result. destruct (check_file_ck order q f) as [f0| | |] eqn:E; try discriminate.
  intros [= <-]. unfold check_file_ck in E. bind_ok E g Hg. bind_ok E sts' Hs. inversion E; subst.
  destruct (check_stanzas_resolves _ _ _ _ _ _ Hs) as (A1 & A2).
  split; [unfold erase_resolution; cbn; congruence|]. intros i st Hi. cbn in Hi. apply (A2 i st Hi).
Qed.

(* ================================================================== check_deterministic_names *)
Lemma insert_str_sorted x l : StronglySorted str_le l -> StronglySorted str_le (insert_sorted str_ltb x l).
Proof.
  induction 1 as [|y l Hs IH Hall]; cbn [insert_sorted].
  - repeat constructor.
  - destruct (str_ltb x y) eqn:E.
    + constructor; [constructor; assumption|]. constructor.
      * apply str_ltb_true_le; assumption.
      * eapply Forall_impl; [|exact Hall]. intros z Hz. eapply str_le_trans; [apply str_ltb_true_le; eassumption|exact Hz].
    + constructor; [exact IH|]. apply Forall_forall. intros z Hz.
      eapply Permutation_in in Hz; [|symmetry; apply insert_sorted_perm].
      destruct Hz as [<-|Hz]; [apply str_ltb_false_le; assumption|].
      rewrite Forall_forall in Hall. auto.
Qed.
Lemma sort_str_sorted l : StronglySorted str_le (sort_by str_ltb l).
Proof. unfold sort_by. induction l as [|x l IH]; cbn [fold_right]; [constructor|]. apply insert_str_sorted. exact IH. Qed.

Lemma str_le_antisym a b : str_le a b -> str_le b a -> a = b.
Proof.
  unfold str_le. rewrite (str_cmp_antisym a b). destruct (str_cmp a b) eqn:E; cbn [CompOpp]; intros H1 H2; try congruence.
  apply str_cmp_eq; assumption.
Qed.

Lemma sorted_perm_eq l : forall l', StronglySorted str_le l -> StronglySorted str_le l' -> Permutation l l' -> l = l'.
Proof.
  induction l as [|x l IH]; intros l' Hs Hs' Hp.
  - apply Permutation_nil in Hp. congruence.
  - destruct l' as [|y l']; [apply Permutation_sym, Permutation_nil in Hp; discriminate|].
    apply StronglySorted_inv in Hs as [Hs Hx]. apply StronglySorted_inv in Hs' as [Hs' Hy].
    rewrite Forall_forall in Hx, Hy.
    assert (x = y).
    { assert (Hin1 : In x (y :: l')) by (eapply Permutation_in; [exact Hp|left; reflexivity]).
      assert (Hin2 : In y (x :: l)) by (eapply Permutation_in; [symmetry; exact Hp|left; reflexivity]).
      destruct Hin1 as [->|Hin1]; [reflexivity|]. destruct Hin2 as [->|Hin2]; [reflexivity|].
      apply str_le_antisym; auto. }
    subst y. f_equal. apply IH; auto. eapply Permutation_cons_inv; eassumption.
Qed.

Lemma sort_perm_eq l l' : Permutation l l' -> sort_by str_ltb l = sort_by str_ltb l'.
Proof.
  intros Hp. apply sorted_perm_eq; try apply sort_str_sorted.
  rewrite <- (sort_by_perm str_ltb l), <- (sort_by_perm str_ltb l'). exact Hp.
Qed.

Lemma sorted_nodup_lt (l : list str) : StronglySorted str_le l -> NoDup l -> StronglySorted str_lt l.
Proof.
  induction 1 as [|x l Hs IH Hall]; intros Hnd; [constructor|].
  inversion Hnd as [|? ? Hnotin Hnd']; subst. constructor; [auto|].
  rewrite Forall_forall in *. intros y Hy. specialize (Hall _ Hy). unfold str_le in Hall. unfold str_lt.
  destruct (str_cmp x y) eqn:E; try congruence. apply str_cmp_eq in E. subst. contradiction.
Qed.

Lemma filter_perm {A} (p : A -> bool) l l' : Permutation l l' -> Permutation (filter p l) (filter p l').
Proof.
  induction 1; cbn [filter].
  - constructor.
  - destruct (p x); [constructor|]; assumption.
  - destruct (p x), (p y); try apply perm_swap; reflexivity.
  - etransitivity; eassumption.
Qed.

Lemma mem_In x l : mem x l = true <-> In x l.
Proof.
  unfold mem. rewrite existsb_exists. split.
  - intros (y & Hy & E). apply str_eqb_eq in E. subst. assumption.
  - intros H. exists x. split; [assumption|apply str_eqb_refl].
Qed.
Lemma mem_false x l : mem x l = false <-> ~ In x l.
Proof. rewrite <- mem_In. destruct (mem x l); split; congruence. Qed.

Lemma dedup_In x l : In x (dedup l) <-> In x l.
Proof.
  induction l as [|y l IH]; cbn [dedup]; [tauto|].
  destruct (mem y l) eqn:E.
  - rewrite IH. cbn [In]. apply mem_In in E. split; [auto|]. intros [->|H]; auto.
  - cbn [In]. rewrite IH. tauto.
Qed.
Lemma dedup_NoDup l : NoDup (dedup l).
Proof.
  induction l as [|y l IH]; cbn [dedup]; [constructor|].
  destruct (mem y l) eqn:E; [assumption|]. constructor; [|assumption]. rewrite dedup_In. apply mem_false. assumption.
Qed.

Lemma NoDup_map_cons (c : N) (l : list str) : NoDup l -> NoDup (map (fun n => c :: n) l).
Proof.
  induction 1 as [|x l Hn Hnd IH]; cbn [map]; constructor; [|assumption].
  rewrite in_map_iff. intros (y & E & Hy). inversion E; subst. contradiction.
Qed.

Definition shown_unused (order : list ident -> list ident) (all used : list ident) : list str :=
  map (fun n => 64 :: n)
      (filter (fun n => negb (starts_with_underscore n)) (filter (fun n => negb (mem n used)) (order (dedup all)))).

Lemma unused_captures_eq order names full used :
  unused_captures order names full used =
  obind (non_full_names names names full) (fun all => Ok (sort_by str_ltb (shown_unused order all used))).
Proof. reflexivity. Qed.

Lemma shown_unused_perm order all used :
  (forall l, Permutation l (order l)) -> Permutation (shown_unused order all used) (shown_unused (fun l => l) all used).
Proof.
  intros Ho. unfold shown_unused. apply Permutation_map. apply filter_perm. apply filter_perm. symmetry. apply Ho.
Qed.

Lemma shown_unused_NoDup order all used : (forall l, Permutation l (order l)) -> NoDup (shown_unused order all used).
Proof.
  intros Ho. unfold shown_unused. apply NoDup_map_cons. apply NoDup_filter. apply NoDup_filter.
  eapply Permutation_NoDup; [apply Ho|]. apply dedup_NoDup.
Qed.

Lemma unused_captures_order order names full used :
  (forall l, Permutation l (order l)) ->
  unused_captures order names full used = unused_captures (fun l => l) names full used.
Proof.
  intros Ho. rewrite !unused_captures_eq. destruct (non_full_names names names full); cbn [obind]; try reflexivity.
  f_equal. apply sort_perm_eq. apply shown_unused_perm. assumption.
Qed.

Lemma unused_captures_sorted order names full used un :
  (forall l, Permutation l (order l)) -> unused_captures order names full used = Ok un -> StronglySorted str_lt un.
Proof.
  intros Ho. rewrite unused_captures_eq. intros H. bind_ok H al0 Hall. inversion H; subst.
  apply sorted_nodup_lt; [apply sort_str_sorted|].
  eapply Permutation_NoDup; [apply sort_by_perm|]. apply shown_unused_NoDup. assumption.
Qed.

Lemma non_full_names_In names all full r :
  non_full_names names all full = Ok r -> forall n, In n r <-> (In n names /\ name_index n all <> Some full).
Proof.
  revert r. induction names as [|m names IH]; cbn [non_full_names]; intros r H n.
  - inversion H; subst. cbn. tauto.
  - destruct (name_index m all) as [i|] eqn:Ei; [|discriminate]. bind_ok H r' Hr. inversion H; subst.
    specialize (IH _ Hr n). destruct (N.eqb_spec i full) as [->|Hne]; cbn [In]; rewrite IH.
    + split; [tauto|]. intros [[->|Hin] Hn]; [congruence|tauto].
    + split.
      * intros [->|[Hin Hn]]; [split; [auto|congruence]|tauto].
      * intros [[->|Hin] Hn]; auto.
Qed.

Lemma unused_captures_In order names full used un :
  (forall l, Permutation l (order l)) -> unused_captures order names full used = Ok un ->
  forall s, In s un <-> exists n, s = 64 :: n /\ In n names /\ name_index n names <> Some full /\
                                  starts_with_underscore n = false /\ ~ In n used.
Proof.
  intros Ho. rewrite unused_captures_eq. intros H s. bind_ok H al0 Hall. inversion H; subst.
  rewrite sort_by_In. unfold shown_unused. rewrite in_map_iff.
  split.
  - intros (n & <- & Hn). apply filter_In in Hn as [Hn H1]. apply filter_In in Hn as [Hn H2].
    eapply Permutation_in in Hn; [|symmetry; apply Ho]. rewrite dedup_In in Hn.
    apply (non_full_names_In _ _ _ _ Hall) in Hn as [Hn Hf].
    exists n. repeat split; auto.
    + destruct (starts_with_underscore n); [discriminate|reflexivity].
    + apply mem_false. destruct (mem n used); [discriminate|reflexivity].
  - intros (n & -> & Hn & Hf & Hu & Hnu). exists n. split; [reflexivity|].
    apply filter_In. split; [|rewrite Hu; reflexivity]. apply filter_In. split.
    + eapply Permutation_in; [apply Ho|]. rewrite dedup_In. apply (non_full_names_In _ _ _ _ Hall). auto.
    + apply mem_false in Hnu. rewrite Hnu. reflexivity.
Qed.

(* the whole checker does not depend on the iteration order *)
Lemma check_stanza_order order q globals i st :
  (forall l, Permutation l (order l)) -> check_stanza order q globals i st = check_stanza (fun l => l) q globals i st.
Proof.
  intros Ho. unfold check_stanza. destruct (nth_error (qt_stanza_names q) i); [|reflexivity].
  destruct (name_index FULL_MATCH (qt_file_names q)); [|reflexivity].
  destruct (check_block _ _ _) as [[[s e] u]| | |]; cbn [obind]; try reflexivity.
  rewrite (unused_captures_order order) by assumption. reflexivity.
Qed.
Lemma check_stanzas_order order q globals sts : forall i,
  (forall l, Permutation l (order l)) -> check_stanzas order q globals i sts = check_stanzas (fun l => l) q globals i sts.
Proof.
  induction sts as [|st sts IH]; intros i Ho; cbn [check_stanzas]; [reflexivity|].
  rewrite (check_stanza_order order) by assumption. destruct (check_stanza _ _ _ _ _); cbn [obind]; try reflexivity.
  rewrite IH by assumption. reflexivity.
Qed.
Lemma check_file_order order q f :
  (forall l, Permutation l (order l)) -> check_file_with order q f = check_file q f.
Proof.
  intros Ho. unfold check_file, check_file_with, check_file_ck.
  destruct (check_global_table _ _); cbn [obind]; try reflexivity.
  rewrite (check_stanzas_order order) by assumption. reflexivity.
Qed.

(* ------------------------------------------------------------------ where errors come from *)
Lemma mapM_err {A B} (f : A -> ck B) l e :
  mapM f l = Err e -> exists pre x post ys, l = pre ++ x :: post /\ Forall2 (fun x y => f x = Ok y) pre ys /\ f x = Err e.
Proof.
  induction l as [|x l IH]; cbn [mapM]; intros H; [discriminate|].
  apply obind_err in H as [H|(y & Hy & H)].
  - exists [], x, l, []. repeat split; auto.
  - apply obind_err in H as [H|(ys & Hys & H)]; [|discriminate].
    destruct (IH H) as (pre & x0 & post & ys & -> & HF & Hx). exists (x :: pre), x0, post, (y :: ys). repeat split; auto.
Qed.

(* no error of an expression, condition or statement is UnusedCaptures *)
Definition plain_error (e : check_error) : Prop := match e with CkUnusedCaptures _ _ => False | _ => True end.
Lemma plain_names e : plain_error e -> ce_names e = [].
Proof. destruct e; cbn; tauto. Qed.

Lemma mapM_err_plain {A B} (f : A -> ck B) l e :
  Forall (fun x => forall e, f x = Err e -> plain_error e) l -> mapM f l = Err e -> plain_error e.
Proof.
  intros HF H. destruct (mapM_err _ _ _ H) as (pre & x & post & ys & -> & _ & Hx).
  rewrite Forall_forall in HF. apply (HF x); [apply in_or_app; right; left; reflexivity|assumption].
Qed.
Lemma check_seq_err_plain {A B} (f : cenv -> A -> ck (B * cenv * list ident)) l :
  Forall (fun x => forall env e, f env x = Err e -> plain_error e) l ->
  forall env e, check_seq f env l = Err e -> plain_error e.
Proof.
  induction 1 as [|x l Hx Hl IH]; cbn [check_seq]; intros env e H; [discriminate|].
  apply obind_err in H as [H|(a & Ha & H)]; [eauto|]. destruct a as [[x' env1] u1]. cbv beta iota in H.
  apply obind_err in H as [H|(b & Hb & H)]; [eauto|]. destruct b as [[l'' env2] u2]. discriminate.
Qed.

Lemma unscoped_check_add_plain cx env x l v m e : unscoped_check_add cx env x l v m = Err e -> plain_error e.
Proof.
  unfold unscoped_check_add. destruct (varmap_get (cx_globals cx) x); [intros [= <-]; exact I|].
  destruct (varmap_add _ _ _ _); [discriminate|intros [= <-]; exact I].
Qed.
Lemma unscoped_check_set_plain cx env x l v e : unscoped_check_set cx env x l v = Err e -> plain_error e.
Proof.
  unfold unscoped_check_set. destruct (varmap_get (cx_globals cx) x); [intros [= <-]; exact I|].
  destruct (varmap_set _ _ _); [discriminate|intros [= <-]; exact I].
Qed.

Lemma check_expr_err_plain cx e : forall env ce, check_expr cx env e = Err ce -> plain_error ce.
Proof.
  induction e using expr_ind'; intros env ce Hc; try (cbn in Hc; discriminate).
  - rewrite check_expr_list in Hc. unfold check_elems in Hc. apply obind_err in Hc as [Hc|(a & _ & Hc)]; [|discriminate].
    eapply mapM_err_plain; [|exact Hc]. eapply Forall_impl; [|exact H]. intros a Ha ce'. apply Ha.
  - rewrite check_expr_set in Hc. unfold check_elems in Hc. apply obind_err in Hc as [Hc|(a & _ & Hc)]; [|discriminate].
    eapply mapM_err_plain; [|exact Hc]. eapply Forall_impl; [|exact H]. intros a Ha ce'. apply Ha.
  - rewrite check_expr_listcomp in Hc. unfold check_comp in Hc. apply obind_err in Hc as [Hc|(a & _ & Hc)]; [eauto|].
    destruct a as [v' vr]. cbv beta iota in Hc. destruct (negb (er_local vr)); [inversion Hc; exact I|].
    destruct (negb (is_list_q (er_quant vr))); [inversion Hc; exact I|].
    apply obind_err in Hc as [Hc|(lenv & _ & Hc)]; [eapply unscoped_check_add_plain; eassumption|].
    apply obind_err in Hc as [Hc|(b & _ & Hc)]; [eauto|]. destruct b; discriminate.
  - rewrite check_expr_setcomp in Hc. unfold check_comp in Hc. apply obind_err in Hc as [Hc|(a & _ & Hc)]; [eauto|].
    destruct a as [v' vr]. cbv beta iota in Hc. destruct (negb (er_local vr)); [inversion Hc; exact I|].
    destruct (negb (is_list_q (er_quant vr))); [inversion Hc; exact I|].
    apply obind_err in Hc as [Hc|(lenv & _ & Hc)]; [eapply unscoped_check_add_plain; eassumption|].
    apply obind_err in Hc as [Hc|(b & _ & Hc)]; [eauto|]. destruct b; discriminate.
  - cbn [check_expr] in Hc. unfold check_capture in Hc. destruct (name_index n (cx_stanza_names cx)); [|inversion Hc; exact I].
    destruct (name_index n (cx_file_names cx)); [|discriminate]. destruct (cx_file_quants cx) as [row|]; [|discriminate].
    destruct (nth_error row (N.to_nat n1)); discriminate.
  - cbn [check_expr] in Hc. apply obind_err in Hc as [Hc|(a & _ & Hc)]; [|discriminate]. unfold unscoped_check_get in Hc.
    destruct (varmap_get (cx_globals cx) x); [discriminate|]. destruct (varmap_get env x); [discriminate|inversion Hc; exact I].
  - rewrite check_expr_scoped in Hc. apply obind_err in Hc as [Hc|(a & _ & Hc)]; [eauto|]. destruct a; discriminate.
  - rewrite check_expr_call in Hc. unfold check_elems in Hc. apply obind_err in Hc as [Hc|(a & _ & Hc)]; [|discriminate].
    eapply mapM_err_plain; [|exact Hc]. eapply Forall_impl; [|exact H]. intros a Ha ce'. apply Ha.
Qed.

Lemma check_exprs_err_plain cx env es ce : mapM (check_expr cx env) es = Err ce -> plain_error ce.
Proof. apply mapM_err_plain. apply Forall_forall. intros e _ ce'. apply check_expr_err_plain. Qed.

Lemma check_var_add_err_plain cx env v val m ce : check_var_add cx env v val m = Err ce -> plain_error ce.
Proof.
  destruct v as [x l|s x l]; cbn [check_var_add]; intros H; apply obind_err in H as [H|(a & _ & H)].
  - eapply unscoped_check_add_plain; eassumption.
  - discriminate.
  - eapply check_expr_err_plain; eassumption.
  - destruct a; discriminate.
Qed.
Lemma check_var_set_err_plain cx env v val ce : check_var_set cx env v val = Err ce -> plain_error ce.
Proof.
  destruct v as [x l|s x l]; cbn [check_var_set]; intros H; apply obind_err in H as [H|(a & _ & H)].
  - eapply unscoped_check_set_plain; eassumption.
  - discriminate.
  - eapply check_expr_err_plain; eassumption.
  - destruct a; discriminate.
Qed.
Lemma check_attrs_err_plain cx env attrs ce : mapM (check_attr cx env) attrs = Err ce -> plain_error ce.
Proof.
  apply mapM_err_plain. apply Forall_forall. intros [n v] _ ce'. cbn [check_attr]. intros H.
  apply obind_err in H as [H|(a & _ & H)]; [eapply check_expr_err_plain; eassumption|destruct a; discriminate].
Qed.
Lemma check_conds_err_plain cx env conds ce : mapM (check_cond cx env) conds = Err ce -> plain_error ce.
Proof.
  apply mapM_err_plain. apply Forall_forall. intros c _ ce'. 
  destruct c as [e l|e l|e l]; cbn [check_cond]; intros H; (apply obind_err in H as [H|(a & _ & H)]; [eapply check_expr_err_plain; eassumption|]);
    destruct a as [e' r]; cbv beta iota in H; (destruct (negb (er_local r)); [inversion H; exact I|]);
    try (destruct (negb (is_opt_q (er_quant r))); [inversion H; exact I|]); discriminate.
Qed.

Ltac err_step H :=
  match type of H with
  | obind ?m ?f = Err _ =>
      let a := fresh "a" in let Ha := fresh "Ha" in
      apply obind_err in H as [H|(a & Ha & H)]
  end.

Lemma check_stmt_err_plain cx s : forall env ce, check_stmt cx env s = Err ce -> plain_error ce.
Proof.
  induction s using stmt_ind'; intros env ce Hc.
  - cbn [check_stmt] in Hc. err_step Hc; [eapply check_expr_err_plain; eassumption|]. destruct a as [e' r]. cbv beta iota in Hc.
    err_step Hc; [eapply check_var_add_err_plain; eassumption|]. destruct a as [[? ?] ?]. discriminate.
  - cbn [check_stmt] in Hc. err_step Hc; [eapply check_expr_err_plain; eassumption|]. destruct a as [e' r]. cbv beta iota in Hc.
    err_step Hc; [eapply check_var_add_err_plain; eassumption|]. destruct a as [[? ?] ?]. discriminate.
  - cbn [check_stmt] in Hc. err_step Hc; [eapply check_expr_err_plain; eassumption|]. destruct a as [e' r]. cbv beta iota in Hc.
    err_step Hc; [eapply check_var_set_err_plain; eassumption|]. destruct a as [[? ?] ?]. discriminate.
  - cbn [check_stmt] in Hc. err_step Hc; [eapply check_var_add_err_plain; eassumption|]. destruct a as [[? ?] ?]. discriminate.
  - cbn [check_stmt] in Hc. err_step Hc; [eapply check_expr_err_plain; eassumption|]. destruct a as [e' r]. cbv beta iota in Hc.
    err_step Hc; [eapply check_attrs_err_plain; eassumption|]. discriminate.
  - cbn [check_stmt] in Hc. err_step Hc; [eapply check_expr_err_plain; eassumption|]. destruct a0 as [e' r]. cbv beta iota in Hc.
    err_step Hc; [eapply check_expr_err_plain; eassumption|]. destruct a0 as [? ?]. discriminate.
  - cbn [check_stmt] in Hc. err_step Hc; [eapply check_expr_err_plain; eassumption|]. destruct a0 as [e' r]. cbv beta iota in Hc.
    err_step Hc; [eapply check_expr_err_plain; eassumption|]. destruct a0 as [? ?]. cbv beta iota in Hc.
    err_step Hc; [eapply check_attrs_err_plain; eassumption|]. discriminate.
  - rewrite check_stmt_scan in Hc. err_step Hc; [eapply check_expr_err_plain; eassumption|]. destruct a as [v' r]. cbv beta iota in Hc.
    destruct (negb (er_local r)); [inversion Hc; exact I|].
    err_step Hc; [|destruct a as [[? ?] ?]; discriminate].
    eapply check_seq_err_plain; [|exact Hc]. eapply Forall_impl; [|exact H].
    intros [[rx body] al] Hbody env0 ce0 Harm. unfold scan_arm in Harm. destruct (nullable_rx cx rx); [inversion Harm; exact I|].
    err_step Harm; [|destruct a as [[? ?] ?]; discriminate]. unfold check_block in Harm.
    eapply check_seq_err_plain; [|exact Harm]. exact Hbody.
  - cbn [check_stmt] in Hc. err_step Hc; [eapply check_exprs_err_plain; eassumption|]. discriminate.
  - rewrite check_stmt_if in Hc. err_step Hc; [|destruct a as [[? ?] ?]; discriminate].
    eapply check_seq_err_plain; [|exact Hc]. eapply Forall_impl; [|exact H].
    intros [[conds body] al] Hbody env0 ce0 Harm. unfold if_arm in Harm.
    err_step Harm; [eapply check_conds_err_plain; eassumption|].
    err_step Harm; [|destruct a0 as [[? ?] ?]; discriminate]. unfold check_block in Harm.
    eapply check_seq_err_plain; [|exact Harm]. exact Hbody.
  - rewrite check_stmt_for in Hc. err_step Hc; [eapply check_expr_err_plain; eassumption|]. destruct a as [v' r]. cbv beta iota in Hc.
    destruct (negb (er_local r)); [inversion Hc; exact I|].
    destruct (negb (is_list_q (er_quant r))); [inversion Hc; exact I|].
    err_step Hc; [eapply unscoped_check_add_plain; eassumption|].
    err_step Hc; [|destruct a0 as [[? ?] ?]; discriminate]. unfold check_block in Hc.
    eapply check_seq_err_plain; [|exact Hc]. exact H.
Qed.
Lemma check_block_err_plain cx env body ce : check_block cx env body = Err ce -> plain_error ce.
Proof.
  unfold check_block. apply check_seq_err_plain. apply Forall_forall. intros s _. apply check_stmt_err_plain.
Qed.

Lemma non_full_names_no_err names all full e : non_full_names names all full <> Err e.
Proof.
  induction names as [|n names IH]; cbn [non_full_names]; [discriminate|].
  destruct (name_index n all); [|discriminate]. destruct (non_full_names names all full); cbn [obind]; congruence.
Qed.
Lemma unused_captures_no_err order names full used e : unused_captures order names full used <> Err e.
Proof.
  rewrite unused_captures_eq. pose proof (non_full_names_no_err names names full) as Hn.
  destruct (non_full_names names names full) as [|e0| |]; cbn [obind]; try congruence. exfalso. apply (Hn e0). reflexivity.
Qed.

Lemma check_stanza_err_sorted order q globals i st e :
  (forall l, Permutation l (order l)) -> check_stanza order q globals i st = Err e -> StronglySorted str_lt (ce_names e).
Proof.
  intros Ho. unfold check_stanza. destruct (nth_error (qt_stanza_names q) i) as [names|]; [|discriminate].
  destruct (name_index FULL_MATCH (qt_file_names q)); [|discriminate].
  intros H. err_step H.
  - apply check_block_err_plain in H. rewrite (plain_names _ H). constructor.
  - destruct a as [[stmts' env'] used]. cbv beta iota in H. err_step H.
    + exfalso. eapply unused_captures_no_err; eassumption.
    + destruct a; [discriminate|]. inversion H; subst. cbn [ce_names]. eapply unused_captures_sorted; eassumption.
Qed.
Lemma check_stanzas_err_sorted order q globals sts : forall i e,
  (forall l, Permutation l (order l)) -> check_stanzas order q globals i sts = Err e -> StronglySorted str_lt (ce_names e).
Proof.
  induction sts as [|st sts IH]; cbn [check_stanzas]; intros i e Ho H; [discriminate|].
  err_step H; [eapply check_stanza_err_sorted; eassumption|]. err_step H; [eauto|discriminate].
Qed.
Lemma check_file_names_sorted order q f v l names :
  (forall l, Permutation l (order l)) -> check_file_with order q f = CkErr v l names -> StronglySorted str_lt names.
Proof.
  intros Ho. unfold check_file_with, to_result. destruct (check_file_ck order q f) as [|e| |] eqn:E; try discriminate.
  intros [= <- <- <-]. unfold check_file_ck in E. err_step E.
  - assert (Hp : plain_error e); [|rewrite (plain_names _ Hp); constructor].
    revert E. generalize ([[]] : cenv). induction (f_globals f) as [|g gs IH]; cbn [check_global_table]; intros m E; [discriminate|].
    destruct (varmap_add m (gl_name g) _ false); [eauto|inversion E; exact I].
  - err_step E; [eapply check_stanzas_err_sorted; eassumption|discriminate].
Qed.

Lemma sorted_lt_NoDup (l : list str) : StronglySorted str_lt l -> NoDup l.
Proof.
  induction 1 as [|x l Hs IH Hall]; constructor; [|assumption].
  intros Hin. rewrite Forall_forall in Hall. specialize (Hall _ Hin). unfold str_lt in Hall. rewrite str_cmp_refl in Hall. discriminate.
Qed.

(* ================================================================== no_panic_check *)
Lemma name_pos_Some n l i : name_pos n l = Some i -> nth_error l i = Some n.
Proof.
  revert i; induction l as [|m l IH]; cbn [name_pos]; intros i H; [discriminate|].
  destruct (str_eqb_spec n m) as [->|Hne]; [inversion H; reflexivity|].
  destruct (name_pos n l) as [j|]; [|discriminate]. inversion H; subst. cbn [nth_error]. auto.
Qed.
Lemma name_pos_None n l : name_pos n l = None <-> ~ In n l.
Proof.
  induction l as [|m l IH]; cbn [name_pos In]; [tauto|].
  destruct (str_eqb_spec n m) as [->|Hne]; [split; [discriminate|intros H; exfalso; apply H; auto]|].
  destruct (name_pos n l); cbn [option_map]; [split; [discriminate|]|].
  - intros H. exfalso. apply H. right. destruct IH as [_ IH]. destruct (in_dec (list_eq_dec N.eq_dec) n l) as [Hi|Hi]; [assumption|].
    specialize (IH Hi). discriminate.
  - split; [|reflexivity]. intros _ [E|Hin]; [congruence|]. apply IH in Hin; auto.
Qed.
Lemma name_pos_In n l : In n l -> exists i, name_pos n l = Some i.
Proof.
  intros Hin. destruct (name_pos n l) as [i|] eqn:E; [eauto|]. apply name_pos_None in E. contradiction.
Qed.
Lemma name_index_In n l : In n l -> exists i, name_index n l = Some i.
Proof. intros Hin. destruct (name_pos_In _ _ Hin) as (i & E). unfold name_index. rewrite E. cbn. eauto. Qed.
Lemma name_index_Some_In n l i : name_index n l = Some i -> In n l.
Proof.
  unfold name_index. destruct (name_pos n l) as [j|] eqn:E; [|discriminate]. intros _.
  apply name_pos_Some in E. eapply nth_error_In; eassumption.
Qed.

Definition ctx_consistent (cx : cctx) : Prop :=
  (forall n, In n (cx_stanza_names cx) -> In n (cx_file_names cx)) /\
  exists row, cx_file_quants cx = Some row /\ length row = length (cx_file_names cx).

Lemma benign_mapM {A B} (f : A -> ck B) l : Forall (fun x => benign (f x)) l -> benign (mapM f l).
Proof.
  induction 1 as [|x l Hx Hl IH]; cbn [mapM]; [exact I|].
  apply benign_obind; [assumption|]. intros y _. apply benign_obind; [assumption|]. intros ys _. exact I.
Qed.
Lemma benign_check_seq {A B} (f : cenv -> A -> ck (B * cenv * list ident)) l :
  Forall (fun x => forall env, benign (f env x)) l -> forall env, benign (check_seq f env l).
Proof.
  induction 1 as [|x l Hx Hl IH]; cbn [check_seq]; intros env; [exact I|].
  apply benign_obind; [apply Hx|]. intros [[x' env1] u1] _. apply benign_obind; [apply IH|]. intros [[l'' env2] u2] _. exact I.
Qed.

Lemma benign_unscoped_check_add cx env x l v m : benign (unscoped_check_add cx env x l v m).
Proof. unfold unscoped_check_add. destruct (varmap_get _ _); [exact I|]. destruct (varmap_add _ _ _ _); exact I. Qed.
Lemma benign_unscoped_check_set cx env x l v : benign (unscoped_check_set cx env x l v).
Proof. unfold unscoped_check_set. destruct (varmap_get _ _); [exact I|]. destruct (varmap_set _ _ _); exact I. Qed.

Lemma benign_check_capture cx name l : ctx_consistent cx -> benign (check_capture cx name l).
Proof.
  intros (Hsub & row & Hrow & Hlen). unfold check_capture.
  destruct (name_index name (cx_stanza_names cx)) as [si|] eqn:Es; [|exact I].
  apply name_index_Some_In in Es. apply Hsub in Es. unfold name_index.
  destruct (name_pos name (cx_file_names cx)) as [j|] eqn:Ej; [|apply name_pos_None in Ej; contradiction].
  cbn [option_map]. rewrite Hrow, Nnat.Nat2N.id.
  destruct (nth_error row j) eqn:En; [exact I|]. apply nth_error_None in En. apply name_pos_Some in Ej.
  assert (j < length (cx_file_names cx))%nat by (apply nth_error_Some; congruence). lia.
Qed.

Lemma benign_check_expr cx : ctx_consistent cx -> forall e env, benign (check_expr cx env e).
Proof.
  intros Hcx. induction e using expr_ind'; intros env; try exact I.
  - rewrite check_expr_list. unfold check_elems. apply benign_obind; [|intros; exact I].
    apply benign_mapM. eapply Forall_impl; [|exact H]. intros a Ha. apply Ha.
  - rewrite check_expr_set. unfold check_elems. apply benign_obind; [|intros; exact I].
    apply benign_mapM. eapply Forall_impl; [|exact H]. intros a Ha. apply Ha.
  - rewrite check_expr_listcomp. unfold check_comp. apply benign_obind; [apply IHe2|]. intros [v' vr] _.
    destruct (negb (er_local vr)); [exact I|]. destruct (negb (is_list_q (er_quant vr))); [exact I|].
    apply benign_obind; [apply benign_unscoped_check_add|]. intros lenv _.
    apply benign_obind; [apply IHe1|]. intros [el' er] _. exact I.
  - rewrite check_expr_setcomp. unfold check_comp. apply benign_obind; [apply IHe2|]. intros [v' vr] _.
    destruct (negb (er_local vr)); [exact I|]. destruct (negb (is_list_q (er_quant vr))); [exact I|].
    apply benign_obind; [apply benign_unscoped_check_add|]. intros lenv _.
    apply benign_obind; [apply IHe1|]. intros [el' er] _. exact I.
  - cbn [check_expr]. apply benign_check_capture. assumption.
  - cbn [check_expr]. apply benign_obind; [|intros; exact I]. unfold unscoped_check_get.
    destruct (varmap_get _ _); [exact I|]. destruct (varmap_get _ _); exact I.
  - rewrite check_expr_scoped. apply benign_obind; [apply IHe|]. intros [s' sr] _. exact I.
  - rewrite check_expr_call. unfold check_elems. apply benign_obind; [|intros; exact I].
    apply benign_mapM. eapply Forall_impl; [|exact H]. intros a Ha. apply Ha.
Qed.

Lemma benign_check_exprs cx env es : ctx_consistent cx -> benign (mapM (check_expr cx env) es).
Proof. intros Hcx. apply benign_mapM. apply Forall_forall. intros e _. apply benign_check_expr. assumption. Qed.
Lemma benign_check_var_add cx env v val m : ctx_consistent cx -> benign (check_var_add cx env v val m).
Proof.
  intros Hcx. destruct v as [x l|s x l]; cbn [check_var_add].
  - apply benign_obind; [apply benign_unscoped_check_add|intros; exact I].
  - apply benign_obind; [apply benign_check_expr; assumption|]. intros [s' sr] _. exact I.
Qed.
Lemma benign_check_var_set cx env v val : ctx_consistent cx -> benign (check_var_set cx env v val).
Proof.
  intros Hcx. destruct v as [x l|s x l]; cbn [check_var_set].
  - apply benign_obind; [apply benign_unscoped_check_set|intros; exact I].
  - apply benign_obind; [apply benign_check_expr; assumption|]. intros [s' sr] _. exact I.
Qed.
Lemma benign_check_attrs cx env attrs : ctx_consistent cx -> benign (mapM (check_attr cx env) attrs).
Proof.
  intros Hcx. apply benign_mapM. apply Forall_forall. intros [n v] _. cbn [check_attr].
  apply benign_obind; [apply benign_check_expr; assumption|]. intros [v' r] _. exact I.
Qed.
Lemma benign_check_conds cx env conds : ctx_consistent cx -> benign (mapM (check_cond cx env) conds).
Proof.
  intros Hcx. apply benign_mapM. apply Forall_forall. intros c _.
  destruct c as [e l|e l|e l]; cbn [check_cond]; (apply benign_obind; [apply benign_check_expr; assumption|]); intros [e' r] _;
    (destruct (negb (er_local r)); [exact I|]); try (destruct (negb (is_opt_q (er_quant r))); [exact I|]); exact I.
Qed.

Lemma benign_check_stmt cx : ctx_consistent cx -> forall s env, benign (check_stmt cx env s).
Proof.
  intros Hcx. induction s using stmt_ind'; intros env.
  - cbn [check_stmt]. apply benign_obind; [apply benign_check_expr; assumption|]. intros [e' r] _.
    apply benign_obind; [apply benign_check_var_add; assumption|]. intros [[v' env'] u] _. exact I.
  - cbn [check_stmt]. apply benign_obind; [apply benign_check_expr; assumption|]. intros [e' r] _.
    apply benign_obind; [apply benign_check_var_add; assumption|]. intros [[v' env'] u] _. exact I.
  - cbn [check_stmt]. apply benign_obind; [apply benign_check_expr; assumption|]. intros [e' r] _.
    apply benign_obind; [apply benign_check_var_set; assumption|]. intros [[v' env'] u] _. exact I.
  - cbn [check_stmt]. apply benign_obind; [apply benign_check_var_add; assumption|]. intros [[v' env'] u] _. exact I.
  - cbn [check_stmt]. apply benign_obind; [apply benign_check_expr; assumption|]. intros [e' r] _.
    apply benign_obind; [apply benign_check_attrs; assumption|]. intros ars _. exact I.
  - cbn [check_stmt]. apply benign_obind; [apply benign_check_expr; assumption|]. intros [e' r] _.
    apply benign_obind; [apply benign_check_expr; assumption|]. intros [e2 r2] _. exact I.
  - cbn [check_stmt]. apply benign_obind; [apply benign_check_expr; assumption|]. intros [e' r] _.
    apply benign_obind; [apply benign_check_expr; assumption|]. intros [e2 r2] _.
    apply benign_obind; [apply benign_check_attrs; assumption|]. intros ars _. exact I.
  - rewrite check_stmt_scan. apply benign_obind; [apply benign_check_expr; assumption|]. intros [v' r] _.
    destruct (negb (er_local r)); [exact I|]. apply benign_obind; [|intros [[? ?] ?] _; exact I].
    apply benign_check_seq. eapply Forall_impl; [|exact H]. intros [[rx body] al] Hbody env0. unfold scan_arm.
    destruct (nullable_rx cx rx); [exact I|]. apply benign_obind; [|intros [[? ?] ?] _; exact I].
    unfold check_block. apply benign_check_seq. exact Hbody.
  - cbn [check_stmt]. apply benign_obind; [apply benign_check_exprs; assumption|]. intros rs _. exact I.
  - rewrite check_stmt_if. apply benign_obind; [|intros [[? ?] ?] _; exact I].
    apply benign_check_seq. eapply Forall_impl; [|exact H]. intros [[conds body] al] Hbody env0. unfold if_arm.
    apply benign_obind; [apply benign_check_conds; assumption|]. intros crs _.
    apply benign_obind; [|intros [[? ?] ?] _; exact I]. unfold check_block. apply benign_check_seq. exact Hbody.
  - rewrite check_stmt_for. apply benign_obind; [apply benign_check_expr; assumption|]. intros [v' r] _.
    destruct (negb (er_local r)); [exact I|]. destruct (negb (is_list_q (er_quant r))); [exact I|].
    apply benign_obind; [apply benign_unscoped_check_add|]. intros lenv _.
    apply benign_obind; [|intros [[? ?] ?] _; exact I]. unfold check_block. apply benign_check_seq. exact H.
Qed.
Lemma benign_check_block cx env body : ctx_consistent cx -> benign (check_block cx env body).
Proof.
  intros Hcx. unfold check_block. apply benign_check_seq. apply Forall_forall. intros s _. apply benign_check_stmt. assumption.
Qed.

Lemma benign_non_full_names names all full : (forall n, In n names -> In n all) -> benign (non_full_names names all full).
Proof.
  induction names as [|n names IH]; cbn [non_full_names]; intros Hsub; [exact I|].
  destruct (name_index_In n all) as (i & ->); [apply Hsub; left; reflexivity|].
  apply benign_obind; [apply IH; intros m Hm; apply Hsub; right; assumption|]. intros r _. exact I.
Qed.

(* the boolean hypothesis, as propositions *)
Lemma tables_consistent_spec q f : tables_consistent q f = true ->
  length (qt_stanza_names q) = length (f_stanzas f) /\ length (qt_file_quants q) = length (f_stanzas f) /\
  (forall row, In row (qt_file_quants q) -> length row = length (qt_file_names q)) /\
  (forall names n, In names (qt_stanza_names q) -> In n names -> In n (qt_file_names q)) /\
  In FULL_MATCH (qt_file_names q).
Proof.
  unfold tables_consistent. rewrite !andb_true_iff, !Nat.eqb_eq, !forallb_forall, mem_In.
  intros ((((H1 & H2) & H3) & H4) & H5). repeat split; auto.
  - intros row Hrow. apply Nat.eqb_eq. auto.
  - intros names n Hn Hin. specialize (H4 _ Hn). rewrite forallb_forall in H4. apply mem_In. auto.
Qed.

Lemma benign_check_stanza order q f globals i st :
  tables_consistent q f = true -> (i < length (f_stanzas f))%nat -> benign (check_stanza order q globals i st).
Proof.
  intros Ht Hi. destruct (tables_consistent_spec _ _ Ht) as (L1 & L2 & Hrows & Hsub & Hfull).
  unfold check_stanza. destruct (nth_error (qt_stanza_names q) i) as [names|] eqn:En;
    [|apply nth_error_None in En; lia].
  destruct (name_index_In _ _ Hfull) as (ff & ->).
  assert (Hcx : ctx_consistent (stanza_ctx q globals i names)).
  { split; cbn.
    - intros n Hn. eapply Hsub; [eapply nth_error_In; eassumption|assumption].
    - destruct (nth_error (qt_file_quants q) i) as [row|] eqn:Er; [|apply nth_error_None in Er; lia].
      exists row. split; [reflexivity|]. apply Hrows. eapply nth_error_In; eassumption. }
  apply benign_obind; [apply benign_check_block; assumption|]. intros [[stmts' env'] used] _.
  apply benign_obind.
  - rewrite unused_captures_eq. apply benign_obind; [apply benign_non_full_names; auto|]. intros; exact I.
  - intros [|u un] _; exact I.
Qed.
Lemma benign_check_stanzas order q f globals sts : forall i,
  tables_consistent q f = true -> (i + length sts = length (f_stanzas f))%nat -> benign (check_stanzas order q globals i sts).
Proof.
  induction sts as [|st sts IH]; cbn [check_stanzas length]; intros i Ht Hi; [exact I|].
  apply benign_obind; [eapply benign_check_stanza; [eassumption|lia]|]. intros st' _.
  apply benign_obind; [apply IH; [assumption|lia]|]. intros; exact I.
Qed.
Lemma no_panic_check_lemma order q f :
  tables_consistent q f = true -> forall s, check_file_with order q f <> CkPanic s.
Proof.
  intros Ht s. unfold check_file_with. assert (Hb : benign (check_file_ck order q f)).
  { unfold check_file_ck. apply benign_obind.
    - generalize ([[]] : cenv). induction (f_globals f) as [|g gs IH]; cbn [check_global_table]; intros m; [exact I|].
      destruct (varmap_add m (gl_name g) _ false); [apply IH|exact I].
    - intros globals _. apply benign_obind; [eapply benign_check_stanzas; [eassumption|reflexivity]|]. intros; exact I. }
  destruct (check_file_ck order q f); cbn [to_result benign] in *; try discriminate; contradiction.
Qed.

(* ================================================================== local_is_pure_partial *)
Lemma varmap_get_find (env : cenv) x : varmap_get env x = option_map fst (env_find env x).
Proof.
  induction env as [|fr env IH]; cbn [varmap_get env_find]; [reflexivity|].
  destruct (alist_get x fr) as [[v m]|]; [reflexivity|assumption].
Qed.

Lemma pure_expr_mono e : forall (ok1 ok2 : ident -> bool),
  (forall y, ok1 y = true -> ok2 y = true) -> pure_expr ok1 e = true -> pure_expr ok2 e = true.
Proof.
  induction e using expr_ind'; intros ok1 ok2 Hm; cbn [pure_expr]; auto.
  - rewrite !forallb_forall. intros Hp a Ha. rewrite Forall_forall in H. eapply H; eauto.
  - rewrite !forallb_forall. intros Hp a Ha. rewrite Forall_forall in H. eapply H; eauto.
  - rewrite !andb_true_iff. intros [H1 H2]. split; [eapply IHe2; eauto|]. eapply IHe1; [|exact H2].
    intros y. cbv beta. rewrite !orb_true_iff. intros [Hy|Hy]; auto.
  - rewrite !andb_true_iff. intros [H1 H2]. split; [eapply IHe2; eauto|]. eapply IHe1; [|exact H2].
    intros y. cbv beta. rewrite !orb_true_iff. intros [Hy|Hy]; auto.
  - rewrite !forallb_forall. intros Hp a Ha. rewrite Forall_forall in H. eapply H; eauto.
Qed.

Lemma env_inv_nested env : env_inv env -> env_inv (varmap_nested env).
Proof. unfold env_inv, varmap_nested. intros H fr x v m [<-|Hin] Hb; [destruct Hb|eauto]. Qed.
Lemma env_inv_pop env : env_inv env -> env_inv (varmap_pop env).
Proof. unfold env_inv, varmap_pop. intros H fr x v m Hin. apply H. destruct env; [destruct Hin|right; assumption]. Qed.
Lemma env_inv_init : env_inv [[]].
Proof. intros fr x v m [<-|[]] []. Qed.

Lemma unscoped_check_add_shape cx env x l v m env' :
  unscoped_check_add cx env x l v m = Ok env' ->
  varmap_get (cx_globals cx) x = None /\
  exists fr up, env = fr :: up /\ alist_get x fr = None /\
    env' = (fr ++ [(x, ((if m then {| vr_local := false; vr_quant := vr_quant v |} else v), m))]) :: up.
Proof.
  unfold unscoped_check_add. destruct (varmap_get (cx_globals cx) x); [discriminate|].
  destruct env as [|fr up]; cbn [varmap_add]; [discriminate|].
  destruct (alist_get x fr) eqn:E; [discriminate|]. intros [= <-]. split; [reflexivity|]. exists fr, up. auto.
Qed.

Lemma env_inv_add cx env x l v m env' : unscoped_check_add cx env x l v m = Ok env' -> env_inv env -> env_inv env'.
Proof.
  intros H Hinv. apply unscoped_check_add_shape in H as (_ & fr & up & -> & _ & ->).
  intros fr0 y v0 m0 [<-|Hin] Hb Hl.
  - apply in_app_or in Hb as [Hb|[Hb|[]]]; [eapply Hinv; [left; reflexivity|eassumption|assumption]|].
    inversion Hb; subst. destruct m0; [cbn in Hl; discriminate|reflexivity].
  - eapply Hinv; [right; eassumption|eassumption|assumption].
Qed.

Lemma alist_set_In {V} (k : ident) (b : V) l k' b' : In (k', b') (alist_set k b l) -> (k', b') = (k, b) \/ In (k', b') l.
Proof.
  induction l as [|[k0 b0] l IH]; cbn [alist_set]; [intros [H|[]]; auto|].
  destruct (str_eqb k k0); cbn [In]; intros [H|H]; auto. destruct (IH H); auto.
Qed.

Lemma varmap_set_inv (env : cenv) x v env' :
  varmap_set env x v = inl env' -> env_inv env -> vr_local v = false -> env_inv env'.
Proof.
  revert env'. induction env as [|fr up IH]; cbn [varmap_set]; intros env' H Hinv Hl; [discriminate|].
  destruct (alist_get x fr) as [[v0 [|]]|] eqn:E; try discriminate.
  - inversion H; subst. intros fr0 y v1 m1 [<-|Hin] Hb Hl1.
    + apply alist_set_In in Hb as [Hb|Hb]; [inversion Hb; subst; congruence|].
      eapply Hinv; [left; reflexivity|eassumption|assumption].
    + eapply Hinv; [right; eassumption|eassumption|assumption].
  - destruct (varmap_set up x v) as [up'|] eqn:E2; [|discriminate]. inversion H; subst.
    assert (Hup : env_inv up') by (apply IH; [reflexivity| |assumption]; intros fr0 y v1 m1 Hin; apply Hinv; right; assumption).
    intros fr0 y v1 m1 [<-|Hin] Hb Hl1; [eapply Hinv; [left; reflexivity|eassumption|assumption]|eapply Hup; eassumption].
Qed.
Lemma env_inv_set cx env x l v env' : unscoped_check_set cx env x l v = Ok env' -> env_inv env -> env_inv env'.
Proof.
  unfold unscoped_check_set. destruct (varmap_get (cx_globals cx) x); [discriminate|].
  destruct (varmap_set env x _) as [e1|] eqn:E; [|discriminate]. intros [= <-] Hinv.
  eapply varmap_set_inv; [exact E|assumption|reflexivity].
Qed.

Lemma varmap_set_mutable (env : cenv) x v env' : varmap_set env x v = inl env' -> exists v0, env_find env x = Some (v0, true).
Proof.
  revert env'. induction env as [|fr up IH]; cbn [varmap_set env_find]; intros env' H; [discriminate|].
  destruct (alist_get x fr) as [[v0 [|]]|] eqn:E; try discriminate; [eauto|].
  destruct (varmap_set up x v) as [up'|] eqn:E2; [|discriminate]. eapply IH. reflexivity.
Qed.
Lemma set_needs_mutable_lemma cx env x l v env' :
  unscoped_check_set cx env x l v = Ok env' ->
  varmap_get (cx_globals cx) x = None /\ exists v0, env_find env x = Some (v0, true).
Proof.
  unfold unscoped_check_set. destruct (varmap_get (cx_globals cx) x); [discriminate|].
  destruct (varmap_set env x _) as [e1|] eqn:E; [|discriminate]. intros _. split; [reflexivity|].
  eapply varmap_set_mutable; eassumption.
Qed.

Lemma all_local_Forall rs : all_local rs = true -> Forall (fun r : expr * eres => er_local (snd r) = true) rs.
Proof. unfold all_local. rewrite forallb_forall. intros H. apply Forall_forall. exact H. Qed.

Lemma elems_pure cx env es rs :
  env_inv env ->
  Forall (fun e => forall env e' r, check_expr cx env e = Ok (e', r) -> er_local r = true -> env_inv env ->
                   pure_expr (stable_name cx env) e = true) es ->
  mapM (check_expr cx env) es = Ok rs -> all_local rs = true -> forallb (pure_expr (stable_name cx env)) es = true.
Proof.
  intros Hinv HF Hm Hl. apply mapM_ok in Hm. apply all_local_Forall in Hl.
  apply forallb_forall. revert HF Hl. induction Hm as [|e [e' r] es rs He Hes IH]; intros HF Hl x Hx; [destruct Hx|].
  inversion HF; subst. inversion Hl; subst. destruct Hx as [<-|Hx]; [eapply H1; eauto|apply IH; auto].
Qed.

Lemma stable_name_loop cx env x v y :
  stable_name cx ([(x, (v, false))] :: env) y = true -> (str_eqb y x || stable_name cx env y) = true.
Proof.
  unfold stable_name. destruct (varmap_get (cx_globals cx) y); [intros _; apply orb_true_r|].
  cbn [env_find alist_get]. destruct (str_eqb y x); [reflexivity|]. cbn [orb]. auto.
Qed.

Lemma local_is_pure_lemma cx e : forall env e' r,
  check_expr cx env e = Ok (e', r) -> er_local r = true -> env_inv env -> pure_expr (stable_name cx env) e = true.
Proof.
  induction e using expr_ind'; intros env e' r Hc Hl Hinv; try reflexivity.
  - rewrite check_expr_list in Hc. unfold check_elems in Hc. bind_ok Hc rs Hrs. inversion Hc; subst. cbn [er_local] in Hl.
    cbn [pure_expr]. eapply elems_pure; eauto.
  - rewrite check_expr_set in Hc. unfold check_elems in Hc. bind_ok Hc rs Hrs. inversion Hc; subst. cbn [er_local] in Hl.
    cbn [pure_expr]. eapply elems_pure; eauto.
  - rewrite check_expr_listcomp in Hc. unfold check_comp in Hc. bind_ok Hc a Ha. destruct a as [v' vr]. cbv beta iota in Hc.
    destruct (er_local vr) eqn:Elv; cbn [negb] in Hc; [|discriminate].
    destruct (is_list_q (er_quant vr)); cbn [negb] in Hc; [|discriminate].
    bind_ok Hc lenv Hle. bind_ok Hc b Hb. destruct b as [el' er]. cbv beta iota in Hc. inversion Hc; subst. cbn [er_local] in Hl.
    cbn [pure_expr]. apply andb_true_iff. split; [eapply IHe2; eauto|].
    pose proof (env_inv_add _ _ _ _ _ _ _ Hle (env_inv_nested _ Hinv)) as Hinv'.
    apply unscoped_check_add_shape in Hle as (_ & fr & up & Efr & _ & ->). unfold varmap_nested in Efr. inversion Efr; subst.
    eapply pure_expr_mono; [|eapply IHe1; eauto]. intros y. apply stable_name_loop.
  - rewrite check_expr_setcomp in Hc. unfold check_comp in Hc. bind_ok Hc a Ha. destruct a as [v' vr]. cbv beta iota in Hc.
    destruct (er_local vr) eqn:Elv; cbn [negb] in Hc; [|discriminate].
    destruct (is_list_q (er_quant vr)); cbn [negb] in Hc; [|discriminate].
    bind_ok Hc lenv Hle. bind_ok Hc b Hb. destruct b as [el' er]. cbv beta iota in Hc. inversion Hc; subst. cbn [er_local] in Hl.
    cbn [pure_expr]. apply andb_true_iff. split; [eapply IHe2; eauto|].
    pose proof (env_inv_add _ _ _ _ _ _ _ Hle (env_inv_nested _ Hinv)) as Hinv'.
    apply unscoped_check_add_shape in Hle as (_ & fr & up & Efr & _ & ->). unfold varmap_nested in Efr. inversion Efr; subst.
    eapply pure_expr_mono; [|eapply IHe1; eauto]. intros y. apply stable_name_loop.
  - cbn [check_expr] in Hc. bind_ok Hc r0 Hr. inversion Hc; subst. cbn [pure_expr]. unfold unscoped_check_get in Hr. unfold stable_name.
    destruct (varmap_get (cx_globals cx) x); [reflexivity|]. rewrite varmap_get_find in Hr.
    destruct (env_find env x) as [[v m]|] eqn:Ef; cbn [option_map fst] in Hr; [|discriminate]. inversion Hr; subst. cbn in Hl.
    assert (m = false); [|subst; assumption].
    clear -Ef Hinv Hl. induction env as [|fr up IH]; cbn [env_find] in Ef; [discriminate|].
    destruct (alist_get x fr) as [b|] eqn:E.
    + inversion Ef; subst. apply alist_get_In in E. eapply Hinv; [left; reflexivity|eassumption|assumption].
    + apply IH; [assumption|]. intros fr0 y v1 m1 Hin. apply Hinv. right. assumption.
  - rewrite check_expr_scoped in Hc. bind_ok Hc a Ha. destruct a as [s' sr]. cbv beta iota in Hc. inversion Hc; subst. discriminate.
  - rewrite check_expr_call in Hc. unfold check_elems in Hc. bind_ok Hc rs Hrs. inversion Hc; subst. cbn [er_local] in Hl.
    cbn [pure_expr]. eapply elems_pure; eauto.
Qed.

(* the invariant holds in every environment the checker reaches *)
Lemma check_seq_inv {A B} (f : cenv -> A -> ck (B * cenv * list ident)) l :
  Forall (fun x => forall env x' env' u, f env x = Ok (x', env', u) -> env_inv env -> env_inv env') l ->
  forall env l' env' u, check_seq f env l = Ok (l', env', u) -> env_inv env -> env_inv env'.
Proof.
  induction 1 as [|x l Hx Hl IH]; cbn [check_seq]; intros env l' env' u H Hinv.
  - inversion H; subst. assumption.
  - bind_ok H a Ha. destruct a as [[x' env1] u1]. cbv beta iota in H. bind_ok H b Hb. destruct b as [[l'' env2] u2].
    cbv beta iota in H. inversion H; subst. eauto.
Qed.
Lemma check_var_add_inv cx env v val m v' env' u : check_var_add cx env v val m = Ok (v', env', u) -> env_inv env -> env_inv env'.
Proof.
  destruct v as [x l|s x l]; cbn [check_var_add]; intros H Hinv.
  - bind_ok H a Ha. inversion H; subst. eapply env_inv_add; eassumption.
  - bind_ok H a Ha. destruct a. cbv beta iota in H. inversion H; subst. assumption.
Qed.
Lemma check_var_set_inv cx env v val v' env' u : check_var_set cx env v val = Ok (v', env', u) -> env_inv env -> env_inv env'.
Proof.
  destruct v as [x l|s x l]; cbn [check_var_set]; intros H Hinv.
  - bind_ok H a Ha. inversion H; subst. eapply env_inv_set; eassumption.
  - bind_ok H a Ha. destruct a. cbv beta iota in H. inversion H; subst. assumption.
Qed.

Lemma check_stmt_inv cx s : forall env s' env' u, check_stmt cx env s = Ok (s', env', u) -> env_inv env -> env_inv env'.
Proof.
  induction s using stmt_ind'; intros env s' env' u Hc Hinv.
  - cbn [check_stmt] in Hc. bind_ok Hc p Hp. destruct p as [e' r]. cbv beta iota in Hc. bind_ok Hc b Hb. destruct b as [[v' env1] u1].
    cbv beta iota in Hc. inversion Hc; subst. eapply check_var_add_inv; eassumption.
  - cbn [check_stmt] in Hc. bind_ok Hc p Hp. destruct p as [e' r]. cbv beta iota in Hc. bind_ok Hc b Hb. destruct b as [[v' env1] u1].
    cbv beta iota in Hc. inversion Hc; subst. eapply check_var_add_inv; eassumption.
  - cbn [check_stmt] in Hc. bind_ok Hc p Hp. destruct p as [e' r]. cbv beta iota in Hc. bind_ok Hc b Hb. destruct b as [[v' env1] u1].
    cbv beta iota in Hc. inversion Hc; subst. eapply check_var_set_inv; eassumption.
  - cbn [check_stmt] in Hc. bind_ok Hc b Hb. destruct b as [[v' env1] u1]. cbv beta iota in Hc. inversion Hc; subst.
    eapply check_var_add_inv; eassumption.
  - cbn [check_stmt] in Hc. bind_ok Hc p Hp. destruct p as [e' r]. cbv beta iota in Hc. bind_ok Hc ars Hars. inversion Hc; subst. assumption.
  - cbn [check_stmt] in Hc. bind_ok Hc p Hp. destruct p as [e' r]. cbv beta iota in Hc. bind_ok Hc p2 Hp2. destruct p2 as [e2 r2].
    cbv beta iota in Hc. inversion Hc; subst. assumption.
  - cbn [check_stmt] in Hc. bind_ok Hc p Hp. destruct p as [e' r]. cbv beta iota in Hc. bind_ok Hc p2 Hp2. destruct p2 as [e2 r2].
    cbv beta iota in Hc. bind_ok Hc ars Hars. inversion Hc; subst. assumption.
  - rewrite check_stmt_scan in Hc. bind_ok Hc p Hp. destruct p as [v' r]. cbv beta iota in Hc.
    destruct (negb (er_local r)); [discriminate|]. bind_ok Hc b Hb. destruct b as [[arms' env1] u1]. cbv beta iota in Hc.
    inversion Hc; subst. eapply check_seq_inv; [|exact Hb|assumption]. eapply Forall_impl; [|exact H].
    intros [[rx body] al] Hbody env0 x' env2 u2 Harm Hinv0. unfold scan_arm in Harm. destruct (nullable_rx cx rx); [discriminate|].
    bind_ok Harm c Hc'. destruct c as [[body' env3] u3]. cbv beta iota in Harm. inversion Harm; subst.
    apply env_inv_pop. unfold check_block in Hc'. eapply check_seq_inv; [exact Hbody|exact Hc'|]. apply env_inv_nested. assumption.
  - cbn [check_stmt] in Hc. bind_ok Hc rs Hrs. inversion Hc; subst. assumption.
  - rewrite check_stmt_if in Hc. bind_ok Hc b Hb. destruct b as [[arms' env1] u1]. cbv beta iota in Hc.
    inversion Hc; subst. eapply check_seq_inv; [|exact Hb|assumption]. eapply Forall_impl; [|exact H].
    intros [[conds body] al] Hbody env0 x' env2 u2 Harm Hinv0. unfold if_arm in Harm.
    bind_ok Harm crs Hcrs. bind_ok Harm c Hc'. destruct c as [[body' env3] u3]. cbv beta iota in Harm. inversion Harm; subst.
    apply env_inv_pop. unfold check_block in Hc'. eapply check_seq_inv; [exact Hbody|exact Hc'|]. apply env_inv_nested. assumption.
  - rewrite check_stmt_for in Hc. bind_ok Hc p Hp. destruct p as [v' r]. cbv beta iota in Hc.
    destruct (negb (er_local r)); [discriminate|]. destruct (negb (is_list_q (er_quant r))); [discriminate|].
    bind_ok Hc lenv Hle. bind_ok Hc b Hb. destruct b as [[body' env1] u1]. cbv beta iota in Hc. inversion Hc; subst.
    apply env_inv_pop. unfold check_block in Hb. eapply check_seq_inv; [exact H|exact Hb|].
    eapply env_inv_add; [exact Hle|]. apply env_inv_nested. assumption.
Qed.
Lemma check_block_inv cx body env body' env' u : check_block cx env body = Ok (body', env', u) -> env_inv env -> env_inv env'.
Proof.
  unfold check_block. apply check_seq_inv. apply Forall_forall. intros s _. apply check_stmt_inv.
Qed.
