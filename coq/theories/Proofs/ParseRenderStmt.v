(* Proofs/ParseRenderStmt.v — the round trip, Part B: attributes, conditions, statements, blocks. *)
From TSG Require Import Model.Parser Spec.Render Proofs.BaseFacts Proofs.Parser Proofs.ParseRender.

Section StmtInd.
  Variable P : stmt -> Prop.
  Hypothesis HLet : forall v e l, P (SLet v e l).
  Hypothesis HVar : forall v e l, P (SVar v e l).
  Hypothesis HSet : forall v e l, P (SSet v e l).
  Hypothesis HNode : forall v t l, P (SNode v t l).
  Hypothesis HAttrNode : forall n a l, P (SAttrNode n a l).
  Hypothesis HEdge : forall a b l, P (SEdge a b l).
  Hypothesis HAttrEdge : forall a b at_ l, P (SAttrEdge a b at_ l).
  Hypothesis HScan : forall v arms l, Forall (fun arm : N * list stmt * loc => Forall P (snd (fst arm))) arms -> P (SScan v arms l).
  Hypothesis HPrint : forall vs l, P (SPrint vs l).
  Hypothesis HIf : forall arms l, Forall (fun arm : list cond * list stmt * loc => Forall P (snd (fst arm))) arms -> P (SIf arms l).
  Hypothesis HFor : forall v vl val body l, Forall P body -> P (SFor v vl val body l).
  Fixpoint stmt_ind' (st : stmt) : P st :=
    let all := fix all (l : list stmt) : Forall P l :=
      match l with [] => Forall_nil P | s :: l' => Forall_cons s (stmt_ind' s) (all l') end in
    match st with
    | SLet v e l => HLet v e l | SVar v e l => HVar v e l | SSet v e l => HSet v e l
    | SNode v t l => HNode v t l | SAttrNode n a l => HAttrNode n a l | SEdge a b l => HEdge a b l
    | SAttrEdge a b at_ l => HAttrEdge a b at_ l
    | SScan v arms l =>
        HScan v arms l
          ((fix go (a : list (N * list stmt * loc)) : Forall (fun arm : N * list stmt * loc => Forall P (snd (fst arm))) a :=
              match a with
              | [] => Forall_nil _
              | arm :: a' => Forall_cons arm (all (snd (fst arm))) (go a')
              end) arms)
    | SPrint vs l => HPrint vs l
    | SIf arms l =>
        HIf arms l
          ((fix go (a : list (list cond * list stmt * loc)) : Forall (fun arm : list cond * list stmt * loc => Forall P (snd (fst arm))) a :=
              match a with
              | [] => Forall_nil _
              | arm :: a' => Forall_cons arm (all (snd (fst arm))) (go a')
              end) arms)
    | SFor v vl val body l => HFor v vl val body l (all body)
    end.
End StmtInd.

Section RTS.
  Variable X : ext.
  Variable F : nat.
  Hypothesis Sane : UnicodeSane X.

  (* ---------------------------------------------------------------- automation *)
  Ltac wfgap := solve [auto 6 using WfLayout_gap, WfLayout_sub, sep_wf].
  Ltac wflay := solve [auto 6 using WfLayout_sub].
  (* r starts no gap / no `.` / no identifier character *)
  Ltac nogap :=
    first [ assumption
          | apply (wfident_no_gap X Sane); assumption
          | apply (expr_text_props X Sane); assumption
          | solve [split; [discriminate | reflexivity]] ].
  Ltac nodot := first [ assumption | apply (expr_text_props X Sane); assumption | discriminate | exact I ].
  Ltac noident_r := first [ assumption | reflexivity | exact I ].
  Ltac noident :=
    first [ assumption
          | solve [auto]
          | apply (sep_follow X Sane); [wfgap | first [assumption | reflexivity] | first [ discriminate | intros _; noident_r ] ]
          | apply (gap_follow X Sane); [wfgap | noident_r]
          | noident_r ].
  Ltac follow :=
    split; [wfgap | split; [nogap | split; [nodot | first [ intros _; noident | intros ? ; noident ] ]]].

  Ltac step_tok :=
    unfold bind at 1;
    lazymatch goal with
    | |- context [consume_token ?tok (st_after ?s ?acc ?rest)] =>
        erewrite (consume_token_ok tok (st_after s acc rest)) by reflexivity; rewrite st_after_app
    end.
  Ltac step_ws E HF :=
    unfold bind at 1;
    lazymatch goal with
    | |- context [consume_whitespace ?X' ?F' (st_after ?s ?acc ?rest)] =>
        lazymatch rest with
        | G ?L ?k ++ ?r =>
            rewrite (consume_whitespace_ok X' F' (l_gap L [k]) (st_after s acc rest) r);
            [rewrite st_after_app | wfgap | nogap | reflexivity | lensolve E HF]
        | Gs ?L ?k ?a ?b ++ ?r =>
            rewrite (consume_whitespace_ok X' F' (sep a b (l_gap L [k])) (st_after s acc rest) r);
            [rewrite st_after_app | wfgap | nogap | reflexivity | lensolve E HF]
        | render_gap ?g ++ ?r =>
            rewrite (consume_whitespace_ok X' F' g (st_after s acc rest) r);
            [rewrite st_after_app | wfgap | nogap | reflexivity | lensolve E HF]
        | _ =>
            rewrite (consume_whitespace_noop X' F' (st_after s acc rest)); [ | cbn [p_rest st_after]; nogap | lensolve E HF]
        end
    end.
  Ltac step_name E HF :=
    unfold bind at 1;
    lazymatch goal with
    | |- context [parse_name ?X' ?F' ?w (st_after ?s ?acc (?n ++ ?r))] =>
        rewrite (parse_name_ok X' F' w n (st_after s acc (n ++ r)) r);
        [rewrite st_after_app | first [assumption | solve [split; reflexivity]] | noident | reflexivity | lensolve E HF]
    end.
  Ltac step_expr E HF :=
    unfold bind at 1;
    lazymatch goal with
    | |- context [parse_expression ?X' ?F' (st_after ?s ?acc (rtext ?L ?e ++ ?rest))] =>
        lazymatch rest with
        | G ?L2 ?k ++ ?r =>
            rewrite (parse_render_expr_lemma X' F' Sane e L (st_after s acc (rtext L e ++ rest)) (l_gap L2 [k]) r);
            [rewrite st_after_app, ?p_loc_st_after | assumption | wflay | follow | reflexivity | lensolve E HF]
        | Gs ?L2 ?k ?a ?b ++ ?r =>
            rewrite (parse_render_expr_lemma X' F' Sane e L (st_after s acc (rtext L e ++ rest)) (sep a b (l_gap L2 [k])) r);
            [rewrite st_after_app, ?p_loc_st_after | assumption | wflay | follow | reflexivity | lensolve E HF]
        | render_gap ?g ++ ?r =>
            rewrite (parse_render_expr_lemma X' F' Sane e L (st_after s acc (rtext L e ++ rest)) g r);
            [rewrite st_after_app, ?p_loc_st_after | assumption | wflay | follow | reflexivity | lensolve E HF]
        end
    end.
  Ltac step_skip :=
    unfold bind at 1;
    lazymatch goal with
    | |- context [skip_unwrap ?site (st_after ?s ?acc (?c :: ?r))] =>
        rewrite (skip_unwrap_eq site (st_after s acc (c :: r)) c r eq_refl), advance_st_after, st_after_app
    end.
  Ltac normE E := repeat (progress (cbn [app] in E; repeat rewrite <- app_assoc in E)).
  Ltac normG := repeat (progress (cbn [app]; repeat rewrite <- app_assoc)).
  Ltac step_loc := unfold bind at 1; unfold get_loc at 1.
  (* bring the initial state into the form st_after s [] text *)
  Ltac start E := rewrite <- (st_after_nil' _ _ E) at 1.
  Ltac norm :=
    unfold G, Gs, t_comma, t_lparen, t_rparen, t_lbrack, t_rbrack, t_lbrace, t_rbrace, t_dot, t_eq, t_quote, t_at, t_hash, t_dollar;
    rewrite ?st_after_app, ?p_loc_st_after; repeat rewrite <- pos_after_app;
    repeat (progress (cbn [app]; repeat rewrite <- app_assoc)).

  (* ---------------------------------------------------------------- attributes *)
  (* what may follow an attribute list: the gap g, then r starting neither a gap, nor `,` `=` `.` *)
  Definition no_eq_start (r : list N) : Prop := match r with [] => True | c :: _ => c <> 61 end.
  Definition no_comma_start (r : list N) : Prop := match r with [] => True | c :: _ => c <> 44 end.
  Definition attr_follow (ends_w : bool) (g : gap) (r : list N) : Prop :=
    expr_follow X ends_w g r /\ no_eq_start r.
  Definition attrs_follow (ends_w : bool) (g : gap) (r : list N) : Prop :=
    attr_follow ends_w g r /\ no_comma_start r.

  Lemma peek_is_false c s : match p_rest s with [] => True | d :: _ => d <> c end -> peek_is c s = false.
  Proof.
    unfold peek_is. destruct (p_rest s) as [|d r]; [reflexivity|]. intros H. apply N.eqb_neq. exact H.
  Qed.

  Lemma parse_attribute_ok L a s g r : WfAttr X a -> WfLayout X L ->
    attr_follow (attr_ends_word L a) g r ->
    p_rest s = attr_text L a ++ render_gap g ++ r -> (len s < F)%nat ->
    parse_attribute X F s = ROk (attr_loc L (p_loc s) a) (st_after s (attr_text L a ++ render_gap g) r).
  Proof.
    destruct a as [n v]. intros [Hn Hv] HL [[Hg [Hr [Hd Hw]]] Hc] E HF.
    unfold attr_text, attr_loc, attr_ends_word in *. unfold parse_attribute. start E.
    destruct (attr_bare L (Attr n v)) eqn:Eb.
    - (* bare name *)
      step_name E HF. step_ws E HF.
      rewrite peek_is_false by (cbn [p_rest st_after]; exact Hc).
      norm. reflexivity.
    - repeat rewrite <- app_assoc in E. repeat rewrite <- app_assoc.
      step_name E HF. step_ws E HF.
      unfold peek_is at 1. cbn [p_rest st_after app]. cbn [N.eqb Pos.eqb].
      step_tok. step_ws E HF. step_expr E HF. unfold ret. norm. reflexivity.
  Qed.

  Lemma attr_text_no_gap L a r : WfAttr X a -> no_gap_start X (attr_text L a ++ r).
  Proof.
    destruct a as [n v]. intros [Hn _]. unfold attr_text.
    destruct (attr_bare L (Attr n v)); repeat rewrite <- app_assoc; apply (wfident_no_gap X Sane); exact Hn.
  Qed.
  Ltac nogap ::=
    first [ assumption
          | apply (wfident_no_gap X Sane); assumption
          | apply (expr_text_props X Sane); assumption
          | apply attr_text_no_gap; assumption
          | solve [split; [discriminate | reflexivity]] ].

  (* the attribute list as attributes_loop meets it: after attribute i and its gap *)
  Definition attrs_tail (L : layout) (i : nat) (l : list attr) (g : gap) : list N :=
    match l with
    | [] => []
    | _ :: _ => [44] ++ G L (3 * i + 2) ++ attrs_text L (S i) l ++ render_gap g
    end.

  Lemma attributes_loop_ok l : forall L i s g r k, Forall (WfAttr X) l -> WfLayout X L ->
    (l <> [] -> attr_follow (attrs_ends_word L (S i) l) g r) -> no_comma_start r ->
    p_rest s = attrs_tail L i l g ++ r -> (len s < k)%nat -> (len s < F)%nat ->
    attributes_loop X F k s =
      ROk (attrs_loc L (S i) (pos_after (p_loc s) ([44] ++ G L (3 * i + 2))) l) (st_after s (attrs_tail L i l g) r).
  Proof.
    induction l as [|a l IH]; intros L i s g r k Hwf HL Hfol Hcomma E Hk HF;
      (destruct k as [|k]; [lia|]); cbn [attributes_loop attrs_tail attrs_loc] in *.
    - rewrite peek_is_false by (rewrite E; exact Hcomma). rewrite st_after_nil' by exact E. reflexivity.
    - inversion Hwf as [|? ? Ha Hl]; subst. specialize (Hfol ltac:(discriminate)).
      cbn [attrs_text attrs_ends_word] in *. repeat rewrite <- app_assoc in E. cbn [app] in E.
      unfold peek_is. rewrite E. cbn [N.eqb Pos.eqb]. start E.
      step_skip. step_ws E HF.
      destruct l as [|b l].
      + (* a is the last attribute: its gap is g *)
        cbn [app] in *. destruct Hfol as [Hef Heq]. pose proof Hef as [Hg [Hr [Hd Hw]]]. unfold bind at 1.
        rewrite (parse_attribute_ok (sub L (3 * S i)) a _ g r Ha) by (try wflay; try (split; assumption); try reflexivity; lensolve E HF).
        rewrite st_after_app, p_loc_st_after. step_ws E HF.
        unfold bind at 1.
        rewrite (IH L (S i) _ g r k) by (try assumption; try reflexivity; try congruence; lensolve E Hk || lensolve E HF).
        unfold ret. cbn [attrs_tail attrs_loc]. norm. rewrite ?app_nil_r. reflexivity.
      + normE E. normG. unfold bind at 1.
        rewrite (parse_attribute_ok (sub L (3 * S i)) a _ (l_gap L [(3 * S i + 1)%nat])
                   ([44] ++ G L (3 * S i + 2) ++ attrs_text L (S (S i)) (b :: l) ++ render_gap g ++ r) Ha)
          by (try wflay; try reflexivity; try (split; [follow | discriminate]); lensolve E HF).
        rewrite st_after_app, p_loc_st_after. step_ws E HF. unfold bind at 1.
        rewrite (IH L (S i) _ g r k) by (try assumption; try (intros _; exact Hfol); try (cbn [attrs_tail]; repeat rewrite <- app_assoc; reflexivity); lensolve E Hk || lensolve E HF).
        unfold ret. cbn [attrs_tail attrs_loc]. norm. reflexivity.
  Qed.

  Lemma parse_attributes_ok l L s g r : l <> [] -> Forall (WfAttr X) l -> WfLayout X L ->
    attrs_follow (attrs_ends_word L 0 l) g r ->
    p_rest s = attrs_text L 0 l ++ render_gap g ++ r -> (len s < F)%nat ->
    parse_attributes X F s = ROk (attrs_loc L 0 (p_loc s) l) (st_after s (attrs_text L 0 l ++ render_gap g) r).
  Proof.
    intros Hne Hwf HL [Hfol Hcomma] E HF. destruct l as [|a l]; [congruence|]. clear Hne.
    inversion Hwf as [|? ? Ha Hl]; subst. cbn [attrs_text attrs_ends_word attrs_loc] in *.
    unfold parse_attributes. start E. destruct l as [|b l].
    - cbn [app] in *. rewrite app_nil_r in *. destruct Hfol as [Hef Heq]. pose proof Hef as [Hg [Hr [Hd Hw]]]. unfold bind at 1.
      rewrite (parse_attribute_ok (sub L (3 * 0)) a _ g r Ha) by (try wflay; try (split; assumption); try reflexivity; lensolve E HF).
      rewrite st_after_app, p_loc_st_after. step_ws E HF. unfold bind at 1.
      rewrite (attributes_loop_ok [] L 0 _ g r F) by (try assumption; try constructor; try reflexivity; try congruence; lensolve E HF).
      unfold ret. cbn [attrs_tail attrs_loc]. norm. rewrite ?app_nil_r. reflexivity.
    - normE E. normG. unfold bind at 1.
      rewrite (parse_attribute_ok (sub L (3 * 0)) a _ (l_gap L [(3 * 0 + 1)%nat])
                 ([44] ++ G L (3 * 0 + 2) ++ attrs_text L 1 (b :: l) ++ render_gap g ++ r) Ha)
        by (try wflay; try reflexivity; try (split; [follow | discriminate]); lensolve E HF).
      rewrite st_after_app, p_loc_st_after. step_ws E HF. unfold bind at 1.
      rewrite (attributes_loop_ok (b :: l) L 0 _ g r F) by (try assumption; try (intros _; exact Hfol); try (cbn [attrs_tail]; repeat rewrite <- app_assoc; reflexivity); lensolve E HF).
      unfold ret. cbn [attrs_tail]. norm. reflexivity.
  Qed.

  (* ---------------------------------------------------------------- conditions *)
  Lemma consume_keyword_ok kw s r : p_rest s = kw ++ r -> no_ident_start X r ->
    consume_keyword X kw s = ROk tt (st_after s kw r).
  Proof.
    intros E Hr. unfold consume_keyword. rewrite E, starts_with_app, skipn_app_exact. cbn [andb].
    replace (negb match r with [] => false | c :: _ => is_ident X c end) with true.
    - apply consume_n_ok. exact E.
    - destruct r as [|c r']; [reflexivity|]. cbn in Hr. rewrite Hr. reflexivity.
  Qed.
  Lemma consume_keyword_fail kw s : starts_with kw (p_rest s) = false ->
    consume_keyword X kw s = RErr (PEExpectedToken kw (p_loc s)).
  Proof. intros E. unfold consume_keyword. rewrite E. reflexivity. Qed.

  (* an expression that begins with an identifier: its text is that identifier followed by a
     non-identifier character *)
  Lemma head_ident_text e : forall L n r, WfExpr X e -> WfLayout X L -> head_ident e = Some n ->
    (ends_word e = true -> no_ident_start X r) ->
    exists rest', rtext L e ++ r = n ++ rest' /\ no_ident_start X rest' /\ WfIdent X n.
  Proof.
    induction e; intros L n0 r Hwf HL Hh Hr; cbn [head_ident] in Hh; try discriminate.
    - injection Hh as <-. cbn [rtext WfExpr] in *. exists r. split; [reflexivity|]. split; [apply Hr; reflexivity | exact Hwf].
    - cbn [rtext WfExpr] in *. destruct Hwf as [Hsc Hn]. repeat rewrite <- app_assoc.
      apply (IHe (sub L 0) n0 (G L 1 ++ [46] ++ G L 2 ++ name ++ r) Hsc (WfLayout_sub X L 0 HL) Hh).
      intros _. apply (gap_follow X Sane); [apply WfLayout_gap; exact HL | reflexivity].
  Qed.
  Lemma head_none_text e : forall L, WfExpr X e -> head_ident e = None ->
    exists c t, rtext L e = c :: t /\ c <> 115 /\ c <> 110.
  Proof.
    induction e; intros L Hwf Hh; cbn [head_ident] in Hh; try discriminate; cbn [rtext];
      try (eexists; eexists; split; [reflexivity|]; split; discriminate).
    - destruct (render_int_head (l_zeros L []) n) as [c [t [E Hd]]]. exists c, t. split; [exact E|].
      split; apply (ne_by ascii_digit); (exact Hd || reflexivity).
    - destruct es; eexists; eexists; (split; [reflexivity|]); split; discriminate.
    - destruct es; eexists; eexists; (split; [reflexivity|]); split; discriminate.
    - cbn [WfExpr] in Hwf. destruct Hwf as [Hsc _]. destruct (IHe (sub L 0) Hsc Hh) as [c [t [E Hc]]].
      exists c. eexists. rewrite E. split; [reflexivity | exact Hc].
  Qed.

  Lemma starts_with_head_ne tok c0 c t : tok = c0 :: t -> forall r, c <> c0 -> starts_with tok (c :: r) = false.
  Proof. intros -> r H. cbn [starts_with]. replace (c0 =? c) with false by (symmetry; apply N.eqb_neq; congruence). reflexivity. Qed.

  Lemma cond_bool_keywords_fail e L s r : WfExpr X e -> WfLayout X L ->
    match head_ident e with Some n => n <> t_some /\ n <> t_none | None => True end ->
    (ends_word e = true -> no_ident_start X r) -> p_rest s = rtext L e ++ r ->
    consume_keyword X t_some s = RErr (PEExpectedToken t_some (p_loc s)) /\
    consume_keyword X t_none s = RErr (PEExpectedToken t_none (p_loc s)).
  Proof.
    intros Hwf HL Hh Hr E. destruct (head_ident e) as [n|] eqn:Eh.
    - destruct (head_ident_text e L n r Hwf HL Eh Hr) as [rest' [Et [Hrest Hn]]]. rewrite Et in E.
      destruct Hh as [H1 H2]. split; apply (consume_keyword_ident X _ n rest'); try assumption; try discriminate; reflexivity.
    - destruct (head_none_text e L Hwf Eh) as [c [t [Et [H1 H2]]]]. rewrite Et in E. cbn [app] in E.
      split; apply consume_keyword_fail; rewrite E; eapply starts_with_head_ne; (reflexivity || assumption).
  Qed.

  Lemma parse_condition_ok c L s g r : WfCond X c -> WfLayout X L ->
    expr_follow X (ends_word (cond_expr c)) g r ->
    p_rest s = cond_text L c ++ render_gap g ++ r -> (len s < F)%nat ->
    parse_condition X F s = ROk (cond_loc L (p_loc s) c) (st_after s (cond_text L c ++ render_gap g) r).
  Proof.
    intros [Hwf Hhead] HL Hf E HF. pose proof Hf as [Hg [Hr [Hd Hw]]].
    unfold parse_condition. step_loc. unfold bind at 1.
    destruct c as [e l|e l|e l]; cbn [cond_text cond_loc cond_expr] in *; normE E; normG.
    - unfold if_ok at 1.
      rewrite (consume_keyword_ok t_some s (Gs L 0 true (starts_word e) ++ rtext (sub L 1) e ++ render_gap g ++ r) E)
        by (apply (sep_follow X Sane); [wfgap | reflexivity | apply (expr_text_props X Sane); exact Hwf]).
      step_ws E HF. step_expr E HF. unfold ret at 1. step_ws E HF. unfold ret. norm. reflexivity.
    - unfold if_ok at 1. rewrite consume_keyword_fail by (rewrite E; reflexivity).
      unfold if_ok at 1.
      rewrite (consume_keyword_ok t_none s (Gs L 0 true (starts_word e) ++ rtext (sub L 1) e ++ render_gap g ++ r) E)
        by (apply (sep_follow X Sane); [wfgap | reflexivity | apply (expr_text_props X Sane); exact Hwf]).
      step_ws E HF. step_expr E HF. unfold ret at 1. step_ws E HF. unfold ret. norm. reflexivity.
    - destruct (cond_bool_keywords_fail e (sub L 1) s (render_gap g ++ r) Hwf (WfLayout_sub X L 1 HL) Hhead Hw E) as [K1 K2].
      unfold if_ok at 1. rewrite K1. unfold if_ok at 1. rewrite K2.
      rewrite (parse_render_expr_lemma X F Sane e (sub L 1) s g r Hwf (WfLayout_sub X L 1 HL) Hf E HF).
      step_ws E HF. unfold ret at 1. step_ws E HF. unfold ret. reflexivity.
  Qed.

  (* what follows a condition list (the `{` of the block): starts no gap, `.`, `,`, identifier char *)
  Definition block_start (r : list N) : Prop :=
    no_gap_start X r /\ no_dot_start r /\ no_ident_start X r /\ no_comma_start r.

  Lemma cond_text_no_gap L c r : WfCond X c -> no_gap_start X (cond_text L c ++ r).
  Proof.
    intros [Hwf _]. destruct c; cbn [cond_text cond_expr] in *; normG;
      first [ solve [split; [discriminate | reflexivity]] | apply (expr_text_props X Sane); exact Hwf ].
  Qed.
  Lemma conds_text_no_gap L i c l r : Forall (WfCond X) (c :: l) -> no_gap_start X (conds_text L i (c :: l) ++ r).
  Proof.
    intros H. inversion H; subst. cbn [conds_text]. repeat rewrite <- app_assoc. apply cond_text_no_gap. assumption.
  Qed.
  Ltac nogap ::=
    first [ assumption
          | apply (wfident_no_gap X Sane); assumption
          | apply (expr_text_props X Sane); assumption
          | apply attr_text_no_gap; assumption
          | apply cond_text_no_gap; assumption
          | apply conds_text_no_gap; assumption
          | solve [split; [discriminate | reflexivity]] ].

  Lemma conditions_loop_ok l : forall L i s r k, l <> [] -> Forall (WfCond X) l -> WfLayout X L ->
    block_start r -> p_rest s = conds_text L i l ++ r -> (len s < k)%nat -> (len s < F)%nat ->
    conditions_loop X F k s = ROk (conds_loc L i (p_loc s) l) (st_after s (conds_text L i l) r).
  Proof.
    induction l as [|c l IH]; intros L i s r k Hne Hwf HL [Hr [Hd [Hi Hc]]] E Hk HF; [congruence|].
    destruct k as [|k]; [lia|]. inversion Hwf as [|? ? Hwc Hwl]; subst.
    cbn [conditions_loop conds_text conds_loc] in *. normE E. normG. start E. unfold bind at 1.
    destruct l as [|c2 l].
    - rewrite app_nil_r in *.
      rewrite (parse_condition_ok c (sub L (3 * i)) _ (l_gap L [(3 * i + 1)%nat]) r Hwc)
        by (try wflay; try reflexivity; try follow; lensolve E HF).
      rewrite st_after_app, p_loc_st_after. step_ws E HF.
      rewrite peek_is_false by (cbn [p_rest st_after]; exact Hc). norm. reflexivity.
    - normE E. normG.
      rewrite (parse_condition_ok c (sub L (3 * i)) _ (l_gap L [(3 * i + 1)%nat])
                 ([44] ++ G L (3 * i + 2) ++ conds_text L (S i) (c2 :: l) ++ r) Hwc)
        by (try wflay; try reflexivity; try follow; lensolve E HF).
      rewrite st_after_app, p_loc_st_after. step_ws E HF.
      unfold peek_is at 1. cbn [p_rest st_after app]. cbn [N.eqb Pos.eqb].
      step_tok. step_ws E HF. unfold bind at 1.
      rewrite (IH L (S i) _ r k) by (try assumption; try discriminate; try (repeat split; assumption); try reflexivity; lensolve E Hk || lensolve E HF).
      unfold ret. norm. reflexivity.
  Qed.

  (* ---------------------------------------------------------------- statements *)
  Variable tbl : list str.

  Definition add_pats (l : list str) (s : pst) : pst :=
    {| p_rest := p_rest s; p_off := p_off s; p_row := p_row s; p_col := p_col s; p_pats := rev l ++ p_pats s |}.
  Lemma add_pats_nil s : add_pats [] s = s.
  Proof. destruct s; reflexivity. Qed.
  Lemma add_pats_app l1 l2 s : add_pats l2 (add_pats l1 s) = add_pats (l1 ++ l2) s.
  Proof. unfold add_pats. cbn. rewrite rev_app_distr, app_assoc. reflexivity. Qed.
  Lemma st_after_add_pats l s t r : st_after (add_pats l s) t r = add_pats l (st_after s t r).
  Proof. reflexivity. Qed.

  Ltac fin :=
    repeat (rewrite st_after_add_pats || rewrite st_after_app || rewrite add_pats_app);
    rewrite ?p_loc_st_after, ?p_pats_st_after;
    repeat match goal with |- context [pos_after ?p []] => change (pos_after p []) with p end;
    norm; reflexivity.
  Ltac pats_norm :=
    rewrite ?p_loc_st_after, ?p_pats_st_after;
    repeat match goal with
           | |- context [p_loc (add_pats ?l ?s0)] => change (p_loc (add_pats l s0)) with (p_loc s0)
           | |- context [p_pats (add_pats ?l ?s0)] => change (p_pats (add_pats l s0)) with (rev l ++ p_pats s0)
           end;
    rewrite ?app_length, ?rev_length, ?app_length; cbn [length Nat.add].
  (* close a goal ROk a s1 = ROk b s2 whose sides agree up to associativity and arithmetic *)
  Ltac fin2 :=
    unfold ret; pats_norm;
    repeat (rewrite st_after_add_pats || rewrite st_after_app || rewrite add_pats_app);
    rewrite ?p_loc_st_after, ?p_pats_st_after;
    repeat match goal with |- context [pos_after ?p []] => change (pos_after p []) with p end;
    norm; rewrite ?app_nil_r;
    repeat (match goal with |- @eq ?T _ _ => lazymatch T with nat => fail 1 | _ => progress f_equal end end);
    try reflexivity; lia.
  (* bring a state into the form st_after (add_pats l s) acc rest *)
  Ltac to_base := rewrite ?st_after_app; repeat rewrite <- st_after_add_pats; rewrite ?add_pats_app.

  Definition stmt_rec_n (n : nat) : M stmt := fun s' => parse_statement_n X F n s'.

  (* what may follow a statement and its gap: the next statement (a keyword) or the closing brace *)
  Definition stmt_follow (ends_w : bool) (g : gap) (r : list N) : Prop :=
    expr_follow X ends_w g r /\ no_comma_start r /\ no_eq_start r /\
    starts_with t_elif r = false /\ starts_with t_else r = false.

  Definition Sstmt (st : stmt) : Prop := forall L n s g r, WfLayout X L ->
    stmt_follow (stmt_ends_word L st) g r ->
    p_rest s = stext tbl L st ++ render_gap g ++ r -> (len s <= n)%nat -> (len s < F)%nat ->
    (st0 <- statement_body X F (stmt_rec_n n) ;; consume_whitespace X F ;;; ret st0) s =
      ROk (sloc tbl L (p_loc s) (length (p_pats s)) st)
          (add_pats (stmt_pats tbl st) (st_after s (stext tbl L st ++ render_gap g) r)).

  Lemma expr_no_ident e L r : WfExpr X e -> starts_word e = false -> no_ident_start X (rtext L e ++ r).
  Proof. intros Hwf Hs. apply (expr_text_props X Sane); assumption. Qed.
  Ltac noident_r ::=
    first [ assumption | reflexivity | exact I
          | apply expr_no_ident; assumption ].
  Ltac noident ::=
    first [ assumption
          | solve [auto]
          | apply (sep_follow X Sane); [wfgap | first [assumption | reflexivity] | first [ discriminate | intros ?; noident_r ] ]
          | apply (gap_follow X Sane); [wfgap | noident_r]
          | noident_r ].

  Lemma var_loc_eq L p v : expr_as_variable (rloc L p (var_expr v)) = Some (vloc L p v).
  Proof. destruct v; reflexivity. Qed.

  Ltac kw_dispatch :=
    repeat match goal with
           | |- context [str_eqb ?a ?b] =>
               let v := eval vm_compute in (str_eqb a b) in change (str_eqb a b) with v; cbv iota
           end.

  (* parse_variable on a rendered variable *)
  Lemma parse_variable_ok v L s g r : WfVar X v -> WfLayout X L -> expr_follow X true g r ->
    p_rest s = rtext L (var_expr v) ++ render_gap g ++ r -> (len s < F)%nat ->
    parse_variable X F s = ROk (vloc L (p_loc s) v) (st_after s (rtext L (var_expr v) ++ render_gap g) r).
  Proof.
    intros Hwf HL Hf E HF. unfold parse_variable, parse_variable_with. step_loc. unfold bind at 1.
    assert (Hew : ends_word (var_expr v) = true) by (destruct v; reflexivity).
    rewrite (parse_render_expr_lemma X F Sane (var_expr v) L s g r Hwf HL) by (try rewrite Hew; assumption).
    rewrite var_loc_eq. reflexivity.
  Qed.

  Lemma assignment_tail_ok v e L s0 acc g r :
    WfVar X v -> WfExpr X e -> WfLayout X L -> expr_follow X (ends_word e) g r ->
    forall rest, rest = rtext (sub L 1) (var_expr v) ++ G L 2 ++ [61] ++ G L 3 ++ rtext (sub L 4) e ++ render_gap g ++ r ->
    (length rest < F)%nat ->
    assignment_tail X F (st_after s0 acc rest) =
      ROk (vloc (sub L 1) (pos_after (p_loc s0) acc) v,
           rloc (sub L 4) (pos_after (pos_after (p_loc s0) acc) (rtext (sub L 1) (var_expr v) ++ G L 2 ++ [61] ++ G L 3)) e)
          (st_after s0 (acc ++ rtext (sub L 1) (var_expr v) ++ G L 2 ++ [61] ++ G L 3 ++ rtext (sub L 4) e ++ render_gap g) r).
  Proof.
    intros Hv He HL Hf rest -> Hlen. pose proof Hf as [Hg [Hr [Hd Hw]]].
    unfold assignment_tail. unfold bind at 1.
    rewrite (parse_variable_ok v (sub L 1) _ (l_gap L [2%nat]) ([61] ++ G L 3 ++ rtext (sub L 4) e ++ render_gap g ++ r) Hv)
      by (try wflay; try follow; try reflexivity; rewrite len_st_after; repeat (rewrite app_length in * || cbn [length] in * ); lia).
    rewrite st_after_app, p_loc_st_after.
    assert (E : p_rest (st_after s0 acc (rtext (sub L 1) (var_expr v) ++ G L 2 ++ [61] ++ G L 3 ++ rtext (sub L 4) e ++ render_gap g ++ r)) = rtext (sub L 1) (var_expr v) ++ G L 2 ++ [61] ++ G L 3 ++ rtext (sub L 4) e ++ render_gap g ++ r) by reflexivity.
    assert (HF : Nat.lt (len (st_after s0 acc (rtext (sub L 1) (var_expr v) ++ G L 2 ++ [61] ++ G L 3 ++ rtext (sub L 4) e ++ render_gap g ++ r))) F) by (rewrite len_st_after; exact Hlen).
    step_ws E HF. step_tok. step_ws E HF. step_expr E HF. unfold ret. norm. reflexivity.
  Qed.

  Ltac enter E :=
    unfold statement_body; start E; unfold bind at 1; step_loc.

  Lemma S_let v e l : WfVar X v -> WfExpr X e -> Sstmt (SLet v e l).
  Proof.
    intros Hv He L n s g r HL [Hf [Hc [Heq [Hel Hes]]]] E Hn HF. pose proof Hf as [Hg [Hr [Hd Hw]]].
    cbn [stext sloc stmt_pats stmt_ends_word] in *. unfold assign_text, assign_locs in *. normE E. rewrite add_pats_nil.
    enter E. step_name E HF. step_ws E HF. kw_dispatch. unfold bind at 1.
    erewrite (assignment_tail_ok v e L s _ g r Hv He HL Hf) by (try reflexivity; lensolve E HF).
    unfold ret at 1. cbn [fst snd]. step_ws E HF. unfold ret. norm. reflexivity.
  Qed.
  Lemma S_var v e l : WfVar X v -> WfExpr X e -> Sstmt (SVar v e l).
  Proof.
    intros Hv He L n s g r HL [Hf [Hc [Heq [Hel Hes]]]] E Hn HF. pose proof Hf as [Hg [Hr [Hd Hw]]].
    cbn [stext sloc stmt_pats stmt_ends_word] in *. unfold assign_text, assign_locs in *. normE E. rewrite add_pats_nil.
    enter E. step_name E HF. step_ws E HF. kw_dispatch. unfold bind at 1.
    erewrite (assignment_tail_ok v e L s _ g r Hv He HL Hf) by (try reflexivity; lensolve E HF).
    unfold ret at 1. cbn [fst snd]. step_ws E HF. unfold ret. norm. reflexivity.
  Qed.
  Lemma S_set v e l : WfVar X v -> WfExpr X e -> Sstmt (SSet v e l).
  Proof.
    intros Hv He L n s g r HL [Hf [Hc [Heq [Hel Hes]]]] E Hn HF. pose proof Hf as [Hg [Hr [Hd Hw]]].
    cbn [stext sloc stmt_pats stmt_ends_word] in *. unfold assign_text, assign_locs in *. normE E. rewrite add_pats_nil.
    enter E. step_name E HF. step_ws E HF. kw_dispatch. unfold bind at 1.
    erewrite (assignment_tail_ok v e L s _ g r Hv He HL Hf) by (try reflexivity; lensolve E HF).
    unfold ret at 1. cbn [fst snd]. step_ws E HF. unfold ret. norm. reflexivity.
  Qed.

  Lemma S_node v t l : WfVar X v -> t = display_variable (dpenv_of (x_print X)) v -> Sstmt (SNode v t l).
  Proof.
    intros Hv -> L n s g r HL [Hf [Hc [Heq [Hel Hes]]]] E Hn HF. pose proof Hf as [Hg [Hr [Hd Hw]]].
    cbn [stext sloc stmt_pats stmt_ends_word] in *. normE E. rewrite add_pats_nil.
    enter E. step_name E HF. step_ws E HF. kw_dispatch. unfold bind at 1.
    rewrite (parse_variable_ok v (sub L 1) _ g r Hv) by (try wflay; try assumption; try reflexivity; lensolve E HF).
    rewrite st_after_app, p_loc_st_after. unfold ret at 1. rewrite display_variable_vloc. step_ws E HF. unfold ret. norm. reflexivity.
  Qed.

  Lemma S_edge a b l : WfExpr X a -> WfExpr X b -> Sstmt (SEdge a b l).
  Proof.
    intros Ha Hb L n s g r HL [Hf [Hc [Heq [Hel Hes]]]] E Hn HF. pose proof Hf as [Hg [Hr [Hd Hw]]].
    cbn [stext sloc stmt_pats stmt_ends_word] in *. normE E. rewrite add_pats_nil.
    enter E. step_name E HF. step_ws E HF. kw_dispatch.
    step_expr E HF. step_ws E HF. step_tok. step_ws E HF. step_expr E HF.
    unfold ret at 1. step_ws E HF. unfold ret. norm. reflexivity.
  Qed.

  Ltac step_peek :=
    unfold bind at 1; cbn [app];
    lazymatch goal with
    | |- context [peek (st_after ?s ?acc (?c :: ?r))] =>
        rewrite (peek_eq (st_after s acc (c :: r)) c r eq_refl)
    end.

  Lemma attrs_text_no_gap L i a l r : Forall (WfAttr X) (a :: l) -> no_gap_start X (attrs_text L i (a :: l) ++ r).
  Proof.
    intros H. inversion H; subst. cbn [attrs_text]. repeat rewrite <- app_assoc. apply attr_text_no_gap. assumption.
  Qed.

  Lemma S_attrnode nd attrs l : WfExpr X nd -> attrs <> [] -> Forall (WfAttr X) attrs -> Sstmt (SAttrNode nd attrs l).
  Proof.
    intros Hn Hne Hattrs L n s g r HL [Hf [Hc [Heq [Hel Hes]]]] E Hn' HF. pose proof Hf as [Hg [Hr [Hd Hw]]].
    cbn [stext sloc stmt_pats stmt_ends_word] in *. normE E. rewrite add_pats_nil.
    enter E. step_name E HF. step_ws E HF. kw_dispatch.
    step_tok. step_ws E HF. step_expr E HF. step_ws E HF. step_peek. cbn [N.eqb Pos.eqb].
    step_ws E HF. step_tok.
    assert (Hng : no_gap_start X (attrs_text (sub L 5) 0 attrs ++ render_gap g ++ r)).
    { destruct attrs as [|a attrs]; [congruence|]. apply attrs_text_no_gap; assumption. }
    step_ws E HF. unfold bind at 1.
    rewrite (parse_attributes_ok attrs (sub L 5) _ g r Hne Hattrs)
      by (try wflay; try (split; [split|]; assumption); try reflexivity; lensolve E HF).
    rewrite st_after_app, p_loc_st_after. unfold ret at 1. step_ws E HF. unfold ret. norm. reflexivity.
  Qed.

  Lemma S_attredge a b attrs l : WfExpr X a -> WfExpr X b -> attrs <> [] -> Forall (WfAttr X) attrs ->
    Sstmt (SAttrEdge a b attrs l).
  Proof.
    intros Ha Hb Hne Hattrs L n s g r HL [Hf [Hc [Heq [Hel Hes]]]] E Hn' HF. pose proof Hf as [Hg [Hr [Hd Hw]]].
    cbn [stext sloc stmt_pats stmt_ends_word] in *. normE E. rewrite add_pats_nil.
    enter E. step_name E HF. step_ws E HF. kw_dispatch.
    step_tok. step_ws E HF. step_expr E HF. step_ws E HF.
    unfold bind at 1. unfold t_arrow at 1. cbn [app].
    match goal with |- context [peek (st_after ?s0 ?acc (?c :: ?r0))] => rewrite (peek_eq (st_after s0 acc (c :: r0)) c r0 eq_refl) end.
    cbn [N.eqb Pos.eqb]. change (45 :: 62 :: ?x) with (t_arrow ++ x).
    step_tok. step_ws E HF. step_expr E HF. step_ws E HF. step_tok.
    assert (Hng : no_gap_start X (attrs_text (sub L 5) 0 attrs ++ render_gap g ++ r)).
    { destruct attrs as [|a0 attrs]; [congruence|]. apply attrs_text_no_gap; assumption. }
    step_ws E HF. unfold bind at 1.
    rewrite (parse_attributes_ok attrs (sub L 5) _ g r Hne Hattrs)
      by (try wflay; try (split; [split|]; assumption); try reflexivity; lensolve E HF).
    rewrite st_after_app, p_loc_st_after. unfold ret at 1. step_ws E HF. unfold ret. norm. reflexivity.
  Qed.

  (* the value list as print_loop meets it: after value i and its gap *)
  Definition print_tail (L : layout) (i : nat) (l : list expr) (g : gap) : list N :=
    match l with
    | [] => []
    | _ :: _ => [44] ++ G L (3 * i + 2) ++ print_text L (S i) l ++ render_gap g
    end.
  Lemma print_text_no_gap L i v l r : Forall (WfExpr X) (v :: l) -> no_gap_start X (print_text L i (v :: l) ++ r).
  Proof.
    intros H. inversion H; subst. cbn [print_text]. repeat rewrite <- app_assoc. apply (expr_text_props X Sane). assumption.
  Qed.

  Lemma print_loop_ok l : forall L i s g r k, Forall (WfExpr X) l -> WfLayout X L ->
    (l <> [] -> expr_follow X (ends_word (last l EFalse)) g r) -> no_comma_start r ->
    p_rest s = print_tail L i l g ++ r -> (len s < k)%nat -> (len s < F)%nat ->
    print_loop X F k s =
      ROk (print_loc L (S i) (pos_after (p_loc s) ([44] ++ G L (3 * i + 2))) l) (st_after s (print_tail L i l g) r).
  Proof.
    induction l as [|v l IH]; intros L i s g r k Hwf HL Hfol Hcomma E Hk HF;
      (destruct k as [|k]; [lia|]); cbn [print_loop print_tail print_loc] in *.
    - rewrite peek_is_false by (rewrite E; exact Hcomma). rewrite st_after_nil' by exact E. reflexivity.
    - inversion Hwf as [|? ? Hv Hl]; subst. specialize (Hfol ltac:(discriminate)).
      cbn [print_text] in *. normE E.
      unfold peek_is. rewrite E. cbn [N.eqb Pos.eqb]. start E. change (44 :: ?x) with (t_comma ++ x) at 1.
      step_tok. step_ws E HF.
      destruct l as [|v2 l].
      + cbn [app last] in *. pose proof Hfol as [Hg [Hr [Hd Hw]]]. rewrite app_nil_r in *.
        step_expr E HF. step_ws E HF. unfold bind at 1.
        rewrite (IH L (S i) _ g r k) by (try assumption; try reflexivity; try congruence; lensolve E Hk || lensolve E HF).
        unfold ret. cbn [print_tail print_loc]. norm. rewrite ?app_nil_r. reflexivity.
      + normE E. normG. change (last (v :: v2 :: l) EFalse) with (last (v2 :: l) EFalse) in Hfol.
        step_expr E HF. step_ws E HF. unfold bind at 1.
        rewrite (IH L (S i) _ g r k) by (try assumption; try (intros _; exact Hfol); try (cbn [print_tail]; repeat rewrite <- app_assoc; reflexivity); lensolve E Hk || lensolve E HF).
        unfold ret. cbn [print_tail print_loc]. norm. reflexivity.
  Qed.

  Lemma S_print vs l : vs <> [] -> Forall (WfExpr X) vs -> Sstmt (SPrint vs l).
  Proof.
    intros Hne Hvs L n s g r HL [Hf [Hc [Heq [Hel Hes]]]] E Hn' HF. pose proof Hf as [Hg [Hr [Hd Hw]]].
    cbn [stext sloc stmt_pats stmt_ends_word] in *. normE E. rewrite add_pats_nil.
    destruct vs as [|v vs]; [congruence|]. inversion Hvs as [|? ? Hv Hvs']; subst.
    cbn [print_text print_loc next_starts_word] in *.
    destruct vs as [|v2 vs].
    - cbn [app last] in *. rewrite app_nil_r in *. normE E.
      enter E. step_name E HF. step_ws E HF. kw_dispatch. step_expr E HF. step_ws E HF. unfold bind at 1.
      rewrite (print_loop_ok [] (sub L 1) 0 _ g r F) by (try assumption; try constructor; try wflay; try reflexivity; try congruence; lensolve E HF).
      cbn [print_tail print_loc]. step_ws E HF. unfold ret at 1. step_ws E HF. unfold ret. norm. rewrite ?app_nil_r. reflexivity.
    - normE E. normG. change (last (v :: v2 :: vs) EFalse) with (last (v2 :: vs) EFalse) in *.
      enter E. step_name E HF. step_ws E HF. kw_dispatch.
      step_expr E HF. step_ws E HF. unfold bind at 1.
      rewrite (print_loop_ok (v2 :: vs) (sub L 1) 0 _ g r F) by (try assumption; try wflay; try (intros _; exact Hf); try (cbn [print_tail]; repeat rewrite <- app_assoc; reflexivity); lensolve E HF).
      cbn [print_tail]. rewrite st_after_app. step_ws E HF. unfold ret at 1. step_ws E HF. unfold ret. norm. reflexivity.
  Qed.

  (* ---------------------------------------------------------------- blocks *)
  Definition stmt_keywords : list str := [t_let; t_var; t_set; t_node; t_edge; t_attr; t_print; t_scan; t_if; t_for].
  Lemma stext_kw L st : exists kw t, stext tbl L st = kw ++ t /\ In kw stmt_keywords.
  Proof.
    destruct st; cbn [stext]; unfold assign_text;
      try (eexists; eexists; split; [reflexivity|]; cbn; tauto).
    destruct arms as [|[[c0 b0] l0] rest].
    - exists t_if, []. split; [reflexivity | cbn; tauto].
    - eexists; eexists; split; [reflexivity|]; cbn; tauto.
  Qed.

  (* what comes after a statement in a block: the next statement, or the closing brace *)
  Definition stmt_next (r : list N) : Prop :=
    (exists kw t, r = kw ++ t /\ In kw stmt_keywords) \/ (exists t, r = 125 :: t).
  Lemma stmt_next_props r : stmt_next r ->
    no_gap_start X r /\ no_dot_start r /\ no_comma_start r /\ no_eq_start r /\
    starts_with t_elif r = false /\ starts_with t_else r = false /\
    exists c t, r = c :: t /\ ((c = 125 /\ no_ident_start X r) \/ (c <> 125 /\ exists kw t', r = kw ++ t' /\ In kw stmt_keywords)).
  Proof.
    intros [[kw [t [-> Hin]]]|[t ->]].
    - cbn [stmt_keywords In] in Hin.
      repeat (destruct Hin as [<-|Hin]; [repeat split; try discriminate; try reflexivity;
        eexists; eexists; (split; [reflexivity|]); right; (split; [discriminate|]);
        eexists; eexists; (split; [reflexivity|]); cbn; tauto|]).
      destruct Hin.
    - repeat split; try discriminate; try reflexivity. exists 125, t. split; [reflexivity|]. left. split; reflexivity.
  Qed.

  Lemma stmts_text_next L i l r0 : stmt_next (stmts_text tbl L i l ++ [125] ++ r0).
  Proof.
    destruct l as [|st l]; cbn [stmts_text app].
    - right. eexists. reflexivity.
    - left. destruct (stext_kw (sub L (2 * i)) st) as [kw [t [E Hin]]]. rewrite E.
      exists kw. eexists. split; [|exact Hin]. repeat rewrite <- app_assoc. reflexivity.
  Qed.

  Lemma bind_ws_assoc {A B} (m : M A) (f : A -> M B) s :
    (x <- m ;; consume_whitespace X F ;;; f x) s =
    (x <- (x <- m ;; consume_whitespace X F ;;; ret x) ;; f x) s.
  Proof.
    unfold bind. destruct (m s) as [a s1| | | |]; try reflexivity.
    destruct (consume_whitespace X F s1); reflexivity.
  Qed.

  Lemma Sstmt_rec st : Sstmt st -> forall L n s g r, WfLayout X L ->
    stmt_follow (stmt_ends_word L st) g r ->
    p_rest s = stext tbl L st ++ render_gap g ++ r -> (len s < n)%nat -> (len s < F)%nat ->
    (st0 <- stmt_rec_n n ;; consume_whitespace X F ;;; ret st0) s =
      ROk (sloc tbl L (p_loc s) (length (p_pats s)) st)
          (add_pats (stmt_pats tbl st) (st_after s (stext tbl L st ++ render_gap g) r)).
  Proof.
    intros HS L n s g r HL Hf E Hn HF. destruct n as [|n]; [lia|].
    specialize (HS L n s g r HL Hf E ltac:(lia) HF). unfold bind in *. unfold stmt_rec_n at 1.
    cbn [parse_statement_n]. exact HS.
  Qed.

  Lemma stmts_follow L i st l r0 : WfLayout X L ->
    stmt_follow (stmt_ends_word (sub L (2 * i)) st)
      (sep (stmt_ends_word (sub L (2 * i)) st) (match l with [] => false | _ :: _ => true end) (l_gap L [(2 * i + 1)%nat]))
      (stmts_text tbl L (S i) l ++ [125] ++ r0).
  Proof.
    intros HL. destruct (stmt_next_props _ (stmts_text_next L (S i) l r0)) as [H1 [H2 [H3 [H4 [H5 [H6 [c [t [Ec Hc]]]]]]]]].
    split; [|repeat split; assumption].
    split; [apply sep_wf, WfLayout_gap; exact HL|]. split; [exact H1|]. split; [exact H2|].
    intros Hew. apply (sep_follow X Sane); [apply WfLayout_gap; exact HL | exact Hew |].
    intros Hb. destruct l as [|st2 l]; [|discriminate]. cbn [stmts_text app]. reflexivity.
  Qed.

  Lemma statements_loop_ok l : Forall Sstmt l -> forall L i n s r0 k, WfLayout X L ->
    p_rest s = stmts_text tbl L i l ++ [125] ++ r0 -> (len s < n)%nat -> (len s < k)%nat -> (len s < F)%nat ->
    statements_loop X F (stmt_rec_n n) k s =
      ROk (stmts_loc tbl L i (p_loc s) (length (p_pats s)) l)
          (add_pats (stmts_pats tbl l) (st_after s (stmts_text tbl L i l) ([125] ++ r0))).
  Proof.
    induction 1 as [|st l HS Hl IH]; intros L i n s r0 k HL E Hn Hk HF; (destruct k as [|k]; [lia|]);
      cbn [statements_loop stmts_text stmts_loc stmts_pats] in *.
    - unfold bind at 1. rewrite (peek_eq s 125 r0 E). cbn [N.eqb Pos.eqb]. unfold ret.
      rewrite add_pats_nil, st_after_nil' by exact E. reflexivity.
    - repeat rewrite <- app_assoc in E.
      destruct (stext_kw (sub L (2 * i)) st) as [kw [t [Ekw Hin]]].
      assert (Hhead : exists c t', stext tbl (sub L (2 * i)) st = c :: t' /\ c <> 125).
      { rewrite Ekw. cbn [stmt_keywords In] in Hin.
        repeat (destruct Hin as [<-|Hin]; [eexists; eexists; split; [reflexivity | discriminate]|]). destruct Hin. }
      destruct Hhead as [c [t' [Ec Hc]]]. pose proof E as E'. rewrite Ec in E'. cbn [app] in E'.
      unfold bind at 1. rewrite (peek_eq s c _ E').
      replace (c =? 125) with false by (symmetry; apply N.eqb_neq; exact Hc).
      rewrite bind_ws_assoc. unfold bind at 1.
      rewrite (Sstmt_rec st HS (sub L (2 * i)) n s _ _ (WfLayout_sub X L (2 * i) HL) (stmts_follow L i st l r0 HL) E Hn HF).
      rewrite <- st_after_add_pats. unfold bind at 1.
      rewrite (IH L (S i) n _ r0 k HL) by (try reflexivity; rewrite len_st_after; unfold len in *; rewrite E' in *; repeat (rewrite app_length in * || cbn [length] in * ); lia).
      unfold ret. rewrite p_loc_st_after. change (p_loc (add_pats (stmt_pats tbl st) s)) with (p_loc s).
      change (p_pats (st_after (add_pats (stmt_pats tbl st) s) ?a ?b)) with (rev (stmt_pats tbl st) ++ p_pats s).
      rewrite app_length, rev_length, (Nat.add_comm (length (stmt_pats tbl st))).
      rewrite st_after_app, !st_after_add_pats, add_pats_app. unfold Gs. repeat rewrite <- app_assoc. reflexivity.
  Qed.

  Lemma parse_statements_ok l : Forall Sstmt l -> forall L n s r, WfLayout X L ->
    p_rest s = block_text tbl L l ++ r -> (len s <= n)%nat -> (len s < F)%nat ->
    parse_statements X F (stmt_rec_n n) s =
      ROk (block_loc tbl L (p_loc s) (length (p_pats s)) l)
          (add_pats (stmts_pats tbl l) (st_after s (block_text tbl L l) r)).
  Proof.
    intros Hl L n s r HL E Hn HF. unfold block_text, block_loc in *. normE E.
    destruct (stmt_next_props _ (stmts_text_next (sub L 1) 0 l r)) as [H1 _].
    unfold parse_statements. start E. step_tok. step_ws E HF. unfold bind at 1.
    rewrite (statements_loop_ok l Hl (sub L 1) 0 n _ r F) by (try wflay; try reflexivity; lensolve E Hn || lensolve E HF).
    rewrite <- st_after_add_pats. step_tok. unfold ret.
    rewrite st_after_add_pats, !st_after_app, p_loc_st_after, p_pats_st_after. norm. reflexivity.
  Qed.

  (* ---------------------------------------------------------------- for *)
  Lemma parse_unscoped_variable_ok v s0 acc (L : layout) g r rest : WfLayout X L -> WfIdent X v -> expr_follow X true g r ->
    rest = v ++ render_gap g ++ r -> (length rest < F)%nat ->
    parse_unscoped_variable X F (st_after s0 acc rest) =
      ROk (v, pos_after (p_loc s0) acc) (st_after s0 (acc ++ v ++ render_gap g) r).
  Proof.
    intros HL Hv Hf -> Hlen. unfold parse_unscoped_variable, parse_unscoped_variable_with, parse_variable_with.
    unfold bind at 1. unfold bind at 1. unfold get_loc at 1. unfold bind at 1.
    rewrite (parse_render_expr_lemma X F Sane (EUnscoped v (0, 0)) L (st_after s0 acc (v ++ render_gap g ++ r)) g r)
      by (try exact Hv; try exact Hf; try exact HL; try reflexivity; rewrite ?len_st_after; exact Hlen).
    cbn [rloc rtext expr_as_variable]. unfold ret. rewrite st_after_app, p_loc_st_after. reflexivity.
  Qed.

  Lemma block_text_no_gap L l r : no_gap_start X (block_text tbl L l ++ r).
  Proof. unfold block_text. cbn [app]. split; [discriminate | reflexivity]. Qed.
  Ltac nogap ::=
    first [ assumption
          | lazymatch goal with
            | |- no_gap_start _ (block_text _ _ _ ++ _) => apply block_text_no_gap
            | |- no_gap_start _ (rtext _ _ ++ _) => apply (expr_text_props X Sane); assumption
            | |- no_gap_start _ (attr_text _ _ ++ _) => apply attr_text_no_gap; assumption
            | |- no_gap_start _ (cond_text _ _ ++ _) => apply cond_text_no_gap; assumption
            | |- no_gap_start _ (conds_text _ _ _ ++ _) => apply conds_text_no_gap; assumption
            end
          | solve [split; [discriminate | reflexivity]]
          | apply (wfident_no_gap X Sane); assumption ].
  Lemma block_text_follow L l r : no_dot_start (block_text tbl L l ++ r) /\ no_ident_start X (block_text tbl L l ++ r).
  Proof. unfold block_text. cbn [app]. split; [discriminate | reflexivity]. Qed.

  Lemma S_for v vl val body l : WfIdent X v -> WfExpr X val -> Forall Sstmt body -> Sstmt (SFor v vl val body l).
  Proof.
    intros Hv Hval Hbody L n s g r HL [Hf [Hc [Heq [Hel Hes]]]] E Hn HF. pose proof Hf as [Hg [Hr [Hd Hw]]].
    change (stext tbl L (SFor v vl val body l)) with
      (t_for ++ Gs L 0 true true ++ v ++ Gs L 1 true true ++ t_in ++ Gs L 2 true (starts_word val)
        ++ rtext (sub L 3) val ++ G L 4 ++ block_text tbl (sub L 5) body) in *.
    change (stmt_pats tbl (SFor v vl val body l)) with (stmts_pats tbl body).
    change (sloc tbl L (p_loc s) (length (p_pats s)) (SFor v vl val body l)) with
      (let pv := pos_after (p_loc s) (t_for ++ Gs L 0 true true) in
       let p2 := pos_after pv (v ++ Gs L 1 true true ++ t_in ++ Gs L 2 true (starts_word val)) in
       let p3 := pos_after p2 (rtext (sub L 3) val ++ G L 4) in
       SFor v pv (rloc (sub L 3) p2 val) (block_loc tbl (sub L 5) p3 (length (p_pats s)) body) (p_loc s)).
    cbv zeta. normE E.
    enter E. step_name E HF. step_ws E HF. kw_dispatch. step_ws E HF. unfold bind at 1.
    match goal with |- context [parse_unscoped_variable X F (st_after ?s0 ?acc (v ++ Gs ?L1 ?k1 ?a ?b ++ ?r0))] =>
      rewrite (parse_unscoped_variable_ok v s0 acc L (sep a b (l_gap L1 [k1])) r0 (v ++ Gs L1 k1 a b ++ r0) HL Hv)
        by (try reflexivity; try follow; lensolve E HF) end.
    step_ws E HF. step_tok. step_ws E HF.
    destruct (block_text_follow (sub L 5) body (render_gap g ++ r)) as [Hb1 Hb2].
    step_expr E HF. step_ws E HF. unfold bind at 1.
    rewrite (parse_statements_ok body Hbody (sub L 5) n _ (render_gap g ++ r)) by (try wflay; try reflexivity; lensolve E Hn || lensolve E HF).
    rewrite <- st_after_add_pats. unfold ret at 1. cbn [fst snd]. step_ws E HF. unfold ret. fin.
  Qed.

  (* ---------------------------------------------------------------- scan *)
  Lemma arms_text_head L i arms r0 : exists c t, arms_text tbl L i arms ++ [125] ++ r0 = c :: t /\ (c = 34 \/ c = 125).
  Proof.
    destruct arms as [|[[idx body] al] arms]; cbn [arms_text app].
    - eexists; eexists; split; [reflexivity | right; reflexivity].
    - unfold render_string. cbn [app]. eexists; eexists; split; [reflexivity | left; reflexivity].
  Qed.
  Lemma arms_text_no_gap L i arms r0 : no_gap_start X (arms_text tbl L i arms ++ [125] ++ r0).
  Proof.
    destruct (arms_text_head L i arms r0) as [c [t [-> [-> | ->]]]]; split; (discriminate || reflexivity).
  Qed.

  Lemma push_pat_eq s a b p :
    {| p_rest := p_rest (st_after s a b); p_off := p_off (st_after s a b); p_row := p_row (st_after s a b);
       p_col := p_col (st_after s a b); p_pats := p :: p_pats (st_after s a b) |} = st_after (add_pats [p] s) a b.
  Proof. reflexivity. Qed.

  Definition arm_ok (arm : N * list stmt * loc) : Prop :=
    x_regex X (pat tbl (fst (fst arm))) = Some true /\ Forall Sstmt (snd (fst arm)).

  Lemma scan_arms_loop_ok arms : Forall arm_ok arms -> forall L i n s r0 k kl, WfLayout X L ->
    p_rest s = arms_text tbl L i arms ++ [125] ++ r0 -> (len s <= n)%nat -> (len s < k)%nat -> (len s < F)%nat ->
    scan_arms_loop X F (stmt_rec_n n) kl k s =
      ROk (arms_loc tbl kl L i (p_loc s) (length (p_pats s)) arms)
          (add_pats (arms_pats tbl arms) (st_after s (arms_text tbl L i arms) ([125] ++ r0))).
  Proof.
    induction 1 as [|[[idx body] al] arms [Hrx Hbody] Harms IH]; intros L i n s r0 k kl HL E Hn Hk HF;
      (destruct k as [|k]; [lia|]); cbn [scan_arms_loop arms_text arms_loc arms_pats fst snd] in *.
    - unfold bind at 1. rewrite (peek_eq s 125 r0 E). cbn [N.eqb Pos.eqb]. unfold ret.
      rewrite add_pats_nil, st_after_nil' by exact E. reflexivity.
    - normE E. pose proof E as E'. unfold render_string in E'. cbn [app] in E'.
      unfold bind at 1. rewrite (peek_eq s 34 _ E'). cbn [N.eqb Pos.eqb].
      start E. step_loc. unfold bind at 1.
      match goal with |- context [parse_string F (st_after ?s0 ?acc (render_string ?es ?v ++ ?rr))] =>
        rewrite (parse_string_ok F es v (st_after s0 acc (render_string es v ++ rr)) rr eq_refl) by lensolve E HF end.
      rewrite st_after_app. unfold bind at 1. rewrite Hrx.
      rewrite push_pat_eq, p_pats_st_after.
      pose proof (arms_text_no_gap L (S i) arms r0) as Hng.
      step_ws E HF. unfold bind at 1.
      rewrite (parse_statements_ok body Hbody (sub L (3 * i)) n _ (G L (3 * i + 2) ++ arms_text tbl L (S i) arms ++ [125] ++ r0))
        by (try wflay; try reflexivity; lensolve E Hn || lensolve E HF).
      to_base. step_ws E HF. unfold bind at 1.
      rewrite (IH L (S i) n _ r0 k kl HL) by (try reflexivity; lensolve E Hn || lensolve E' Hk || lensolve E HF).
      fin2.
  Qed.

  Lemma S_scan val arms l : WfExpr X val -> Forall arm_ok arms -> Sstmt (SScan val arms l).
  Proof.
    intros Hval Harms L n s g r HL [Hf [Hc [Heq [Hel Hes]]]] E Hn HF. pose proof Hf as [Hg [Hr [Hd Hw]]].
    change (stext tbl L (SScan val arms l)) with
      (t_scan ++ Gs L 0 true (starts_word val) ++ rtext (sub L 1) val ++ G L 2 ++ [123] ++ G L 3
        ++ arms_text tbl (sub L 4) 0 arms ++ [125]) in *.
    change (stmt_pats tbl (SScan val arms l)) with (arms_pats tbl arms).
    change (sloc tbl L (p_loc s) (length (p_pats s)) (SScan val arms l)) with
      (let p1 := pos_after (p_loc s) (t_scan ++ Gs L 0 true (starts_word val)) in
       let p2 := pos_after p1 (rtext (sub L 1) val ++ G L 2 ++ [123] ++ G L 3) in
       SScan (rloc (sub L 1) p1 val) (arms_loc tbl (p_loc s) (sub L 4) 0 p2 (length (p_pats s)) arms) (p_loc s)).
    cbv zeta. normE E.
    pose proof (arms_text_no_gap (sub L 4) 0 arms (render_gap g ++ r)) as Hng. cbn [app] in Hng.
    enter E. step_name E HF. step_ws E HF. kw_dispatch.
    step_expr E HF. step_ws E HF. change (123 :: ?x) with (t_lbrace ++ x) at 1. step_tok. step_ws E HF. unfold bind at 1.
    rewrite (scan_arms_loop_ok arms Harms (sub L 4) 0 n _ (render_gap g ++ r) F) by (try wflay; try reflexivity; lensolve E Hn || lensolve E HF).
    to_base. change ([125] ++ ?x) with (t_rbrace ++ x). step_tok. unfold ret at 1. step_ws E HF.
    fin2.
  Qed.

  (* ---------------------------------------------------------------- if / elif / else *)
  Definition ifarm := (list cond * list stmt * loc)%type.
  (* the gap in front of arm i (its own, or the statement's trailing gap after the last arm) *)
  Definition lead_gap (L : layout) (i : nat) (rest : list ifarm) (g : gap) : gap :=
    match rest with [] => g | _ :: _ => l_gap L [(4 * i + 1)%nat] end.
  Definition arm_head (L : layout) (i : nat) (c : list cond) : list N :=
    match c with
    | [] => t_else ++ G L (4 * i + 2)
    | _ :: _ => t_elif ++ Gs L (4 * i + 2) true (conds_starts_word c) ++ conds_text (sub L (4 * i + 3)) 0 c
    end.
  Fixpoint after_lead (L : layout) (i : nat) (rest : list ifarm) (g : gap) (r : list N) : list N :=
    match rest with
    | [] => r
    | (c, b, _) :: rest' =>
        arm_head L i c ++ block_text tbl (sub L (4 * i)) b ++ render_gap (lead_gap L (S i) rest' g)
        ++ after_lead L (S i) rest' g r
    end.
  Lemma ifrest_split L rest : forall i g r,
    ifrest_text tbl L i rest ++ render_gap g ++ r = render_gap (lead_gap L i rest g) ++ after_lead L i rest g r.
  Proof.
    induction rest as [|[[c b] al] rest IH]; intros i g r; cbn [ifrest_text lead_gap after_lead]; [reflexivity|].
    fold (arm_head L i c). repeat rewrite <- app_assoc. rewrite IH. reflexivity.
  Qed.
  Lemma after_lead_app L rest : forall i g r, after_lead L i rest g r = after_lead L i rest g [] ++ r.
  Proof.
    induction rest as [|[[c b] al] rest IH]; intros i g r; cbn [after_lead]; [reflexivity|].
    rewrite (IH (S i) g r). repeat rewrite <- app_assoc. reflexivity.
  Qed.
  (* the located arms, given the position q1 of the keyword of arm i *)
  Fixpoint ifrest_loc' (L : layout) (i : nat) (q1 : loc) (k : nat) (rest : list ifarm) (g : gap) : list ifarm :=
    match rest with
    | [] => []
    | (c, b, _) :: rest' =>
        let q3 := pos_after q1 (arm_head L i c) in
        (match c with [] => [] | _ :: _ => conds_loc (sub L (4 * i + 3)) 0 (pos_after q1 (t_elif ++ Gs L (4 * i + 2) true (conds_starts_word c))) c end,
         block_loc tbl (sub L (4 * i)) q3 k b, q1) ::
        ifrest_loc' L (S i) (pos_after (pos_after q3 (block_text tbl (sub L (4 * i)) b)) (render_gap (lead_gap L (S i) rest' g)))
                    (k + length (stmts_pats tbl b))%nat rest' g
    end.
  Lemma ifrest_loc_eq L rest : forall i q k g,
    ifrest_loc tbl L i q k rest = ifrest_loc' L i (pos_after q (render_gap (lead_gap L i rest g))) k rest g.
  Proof.
    induction rest as [|[[c b] al] rest IH]; intros i q k g; cbn [ifrest_loc ifrest_loc' lead_gap]; [reflexivity|].
    destruct c as [|c0 c]; cbn [arm_head]; cbv zeta; rewrite (IH _ _ _ g); unfold G;
      repeat rewrite pos_after_app; reflexivity.
  Qed.

  Lemma bind_assoc {A B C} (m : M A) (f : A -> M B) (h : B -> M C) s :
    bind (bind m f) h s = bind m (fun x => bind (f x) h) s.
  Proof. unfold bind. destruct (m s); reflexivity. Qed.
  Lemma if_ok_bind_ok {A B C} (m : M A) (th el : M B) (h : B -> M C) s a s1 :
    m s = ROk a s1 -> bind (if_ok m th el) h s = bind th h s1.
  Proof. intros H. unfold bind, if_ok. rewrite H. reflexivity. Qed.
  Lemma if_ok_bind_err {A B C} (m : M A) (th el : M B) (h : B -> M C) s e :
    m s = RErr e -> bind (if_ok m th el) h s = bind el h s.
  Proof. intros H. unfold bind, if_ok. rewrite H. reflexivity. Qed.

  (* the computation of statement_body after the first arm and the whitespace behind it *)
  Definition if_tail {A} (rec : M stmt) (k : nat) (K : list ifarm -> A) : M A :=
    bind get_loc (fun location =>
    bind (elif_loop X F rec k location) (fun elifs =>
    bind get_loc (fun location2 =>
    bind (if_ok (consume_token t_else)
            (consume_whitespace X F ;;;
             statements2 <- parse_statements X F rec ;;
             consume_whitespace X F ;;;
             consume_whitespace X F ;;;
             ret [([], statements2, location2)])
            (ret [])) (fun else_arm =>
    ret (K (elifs ++ else_arm)))))).

  Definition ifarm_ok (arm : ifarm) : Prop := Forall Sstmt (snd (fst arm)).

  Lemma conds_text_block_start L b r : block_start (block_text tbl L b ++ r).
  Proof. unfold block_text. cbn [app]. repeat split; (discriminate || reflexivity). Qed.

  Lemma if_tail_ok rest : forall A (K : list ifarm -> A) L i n s g r k,
    WfIfRest X rest -> Forall ifarm_ok rest -> WfLayout X L -> WfGap X g -> no_gap_start X r ->
    starts_with t_elif r = false -> starts_with t_else r = false ->
    p_rest s = after_lead L i rest g r -> (len s <= n)%nat -> (len s < k)%nat -> (len s < F)%nat ->
    if_tail (stmt_rec_n n) k K s =
      ROk (K (ifrest_loc' L i (p_loc s) (length (p_pats s)) rest g))
          (add_pats (ifarms_pats tbl rest) (st_after s (after_lead L i rest g []) r)).
  Proof.
    induction rest as [|[[c b] al] rest IH]; intros A K L i n s g r k Hwf Hok HL Hg Hr Hel Hes E Hn Hk HF;
      (destruct k as [|k]; [lia|]); cbn [after_lead ifrest_loc' ifarms_pats] in *.
    - unfold if_tail. unfold bind at 1. unfold get_loc at 1. cbn [elif_loop].
      rewrite (if_ok_bind_err _ _ _ _ s _ (consume_token_fail t_elif s ltac:(rewrite E; exact Hel))).
      unfold bind at 1. unfold ret at 1. unfold bind at 1. unfold get_loc at 1.
      rewrite (if_ok_bind_err _ _ _ _ s _ (consume_token_fail t_else s ltac:(rewrite E; exact Hes))).
      unfold bind, ret. rewrite add_pats_nil, st_after_nil' by exact E. reflexivity.
    - destruct Hwf as [Hlast [Hconds Hwf]]. inversion Hok as [|? ? Hb Hok']; subst. unfold ifarm_ok in Hb. cbn [fst snd] in Hb.
      assert (Hlead : WfGap X (lead_gap L (S i) rest g)) by (destruct rest; [exact Hg | apply WfLayout_gap; exact HL]).
      assert (Hnext : no_gap_start X (after_lead L (S i) rest g r)).
      { destruct rest as [|[[c2 b2] al2] rest]; cbn [after_lead]; [exact Hr|].
        destruct c2; cbn [arm_head]; repeat rewrite <- app_assoc; split; (discriminate || reflexivity). }
      destruct c as [|c0 c]; cbn [arm_head] in *.
      + (* else: the last arm *)
        specialize (Hlast eq_refl). subst rest. cbn [after_lead lead_gap ifrest_loc' ifarms_pats] in *.
        normE E. normG. rewrite app_nil_r in *.
        unfold if_tail. unfold bind at 1. unfold get_loc at 1. cbn [elif_loop].
        rewrite (if_ok_bind_err _ _ _ _ s _ (consume_token_fail t_elif s ltac:(rewrite E; reflexivity))).
        unfold bind at 1. unfold ret at 1. unfold bind at 1. unfold get_loc at 1.
        rewrite (if_ok_bind_ok _ _ _ _ s tt _ (consume_token_ok t_else s _ E)).
        rewrite <- (st_after_nil' s _ E) at 1. rewrite st_after_app.
        rewrite bind_assoc. step_ws E HF. rewrite bind_assoc. unfold bind at 1.
        rewrite (parse_statements_ok b Hb (sub L (4 * i)) n _ (render_gap g ++ r)) by (try wflay; try reflexivity; lensolve E Hn || lensolve E HF).
        to_base. rewrite bind_assoc. step_ws E HF. rewrite bind_assoc. step_ws E HF.
        unfold bind at 1. unfold ret at 1. unfold ret. cbn [app]. fin2.
      + (* elif *)
        normE E. normG.
        unfold if_tail. unfold bind at 1. unfold get_loc at 1. cbn [elif_loop].
        rewrite (if_ok_bind_ok _ _ _ _ s tt _ (consume_token_ok t_elif s _ E)).
        rewrite <- (st_after_nil' s _ E) at 1. rewrite st_after_app.
        rewrite bind_assoc. step_ws E HF. rewrite bind_assoc. unfold bind at 1. unfold parse_conditions.
        rewrite (conditions_loop_ok (c0 :: c) (sub L (4 * i + 3)) 0 _ (block_text tbl (sub L (4 * i)) b ++ render_gap (lead_gap L (S i) rest g) ++ after_lead L (S i) rest g r) F)
          by (try discriminate; try assumption; try wflay; try apply conds_text_block_start; try reflexivity; lensolve E HF).
        rewrite st_after_app, p_loc_st_after.
        rewrite bind_assoc. step_ws E HF. rewrite bind_assoc. unfold bind at 1.
        rewrite (parse_statements_ok b Hb (sub L (4 * i)) n _ (render_gap (lead_gap L (S i) rest g) ++ after_lead L (S i) rest g r))
          by (try wflay; try reflexivity; lensolve E Hn || lensolve E HF).
        to_base. rewrite bind_assoc. step_ws E HF. rewrite bind_assoc. step_ws E HF.
        (* the rest of the chain is if_tail again, with the arm just read in front *)
        lazymatch goal with |- bind _ _ (st_after ?base ?acc ?rr) = _ =>
            transitivity (if_tail (stmt_rec_n n) k
              (fun l => K ((conds_loc (sub L (4 * i + 3)) 0
                              (pos_after (p_loc s) (t_elif ++ Gs L (4 * i + 2) true (conds_starts_word (c0 :: c)))) (c0 :: c),
                            block_loc tbl (sub L (4 * i))
                              (pos_after (p_loc s) (t_elif ++ Gs L (4 * i + 2) true (conds_starts_word (c0 :: c)) ++ conds_text (sub L (4 * i + 3)) 0 (c0 :: c)))
                              (length (p_pats s)) b, p_loc s) :: l))
              (st_after base acc rr))
        end.
        { unfold if_tail, bind, get_loc, ret. pats_norm.
          match goal with |- context [elif_loop X F ?a ?b ?c ?d] => destruct (elif_loop X F a b c d) end; reflexivity. }
        pose proof E as E'. unfold t_elif in E'.
        rewrite (IH A _ L (S i) n _ g r k Hwf Hok' HL Hg Hr Hel Hes) by (try reflexivity; lensolve E Hn || lensolve E' Hk || lensolve E HF).
        fin2.
  Qed.

  Lemma conds_no_ident L i c l r : Forall (WfCond X) (c :: l) -> conds_starts_word (c :: l) = false ->
    no_ident_start X (conds_text L i (c :: l) ++ r).
  Proof.
    intros H Hs. inversion H as [|? ? [Hwf _] _]; subst. destruct c as [e le|e le|e le]; cbn [conds_starts_word] in Hs; try discriminate.
    cbn [conds_text cond_text cond_expr] in *. repeat rewrite <- app_assoc. apply expr_no_ident; assumption.
  Qed.
  Ltac noident_r ::=
    first [ assumption | reflexivity | exact I
          | apply expr_no_ident; assumption
          | apply conds_no_ident; assumption ].

  Lemma S_if c0 b0 l0 rest l : c0 <> [] -> Forall (WfCond X) c0 -> WfIfRest X rest ->
    Forall Sstmt b0 -> Forall ifarm_ok rest -> Sstmt (SIf ((c0, b0, l0) :: rest) l).
  Proof.
    intros Hc0 Hconds Hrest Hb0 Hok L n s g r HL [Hf [Hc [Heq [Hel Hes]]]] E Hn HF. pose proof Hf as [Hg [Hr [Hd Hw]]].
    change (stext tbl L (SIf ((c0, b0, l0) :: rest) l)) with
      (t_if ++ Gs L 0 true (conds_starts_word c0) ++ conds_text (sub L 1) 0 c0 ++ block_text tbl (sub L 2) b0
        ++ ifrest_text tbl (sub L 3) 0 rest) in *.
    change (stmt_pats tbl (SIf ((c0, b0, l0) :: rest) l)) with (stmts_pats tbl b0 ++ ifarms_pats tbl rest).
    change (sloc tbl L (p_loc s) (length (p_pats s)) (SIf ((c0, b0, l0) :: rest) l)) with
      (let p1 := pos_after (p_loc s) (t_if ++ Gs L 0 true (conds_starts_word c0)) in
       let p2 := pos_after p1 (conds_text (sub L 1) 0 c0) in
       SIf ((conds_loc (sub L 1) 0 p1 c0, block_loc tbl (sub L 2) p2 (length (p_pats s)) b0, p_loc s) ::
            ifrest_loc tbl (sub L 3) 0 (pos_after p2 (block_text tbl (sub L 2) b0))
              (length (p_pats s) + length (stmts_pats tbl b0)) rest) (p_loc s)).
    cbv zeta. rewrite (ifrest_loc_eq (sub L 3) rest 0 _ _ g).
    normE E. rewrite ifrest_split in E.
    replace ((t_if ++ Gs L 0 true (conds_starts_word c0) ++ conds_text (sub L 1) 0 c0 ++ block_text tbl (sub L 2) b0
               ++ ifrest_text tbl (sub L 3) 0 rest) ++ render_gap g)
      with (t_if ++ Gs L 0 true (conds_starts_word c0) ++ conds_text (sub L 1) 0 c0 ++ block_text tbl (sub L 2) b0
               ++ render_gap (lead_gap (sub L 3) 0 rest g) ++ after_lead (sub L 3) 0 rest g [])
      by (repeat rewrite <- app_assoc; rewrite <- ifrest_split, app_nil_r; reflexivity).
    assert (Hlead : WfGap X (lead_gap (sub L 3) 0 rest g)) by (destruct rest; [exact Hg | apply WfLayout_gap, WfLayout_sub; exact HL]).
    assert (Hnext : no_gap_start X (after_lead (sub L 3) 0 rest g r)).
    { destruct rest as [|[[c2 b2] al2] rest']; cbn [after_lead]; [exact Hr|].
      destruct c2; cbn [arm_head]; repeat rewrite <- app_assoc; split; (discriminate || reflexivity). }
    pose proof (conds_text_block_start (sub L 2) b0 (render_gap (lead_gap (sub L 3) 0 rest g) ++ after_lead (sub L 3) 0 rest g r)) as Hbs.
    destruct c0 as [|c00 c0]; [congruence|].
    enter E. step_name E HF. step_ws E HF. kw_dispatch. step_ws E HF. unfold bind at 1. unfold parse_conditions.
    rewrite (conditions_loop_ok (c00 :: c0) (sub L 1) 0 _ (block_text tbl (sub L 2) b0 ++ render_gap (lead_gap (sub L 3) 0 rest g) ++ after_lead (sub L 3) 0 rest g r) F)
      by (try discriminate; try assumption; try wflay; try reflexivity; lensolve E HF).
    rewrite st_after_app, p_loc_st_after. step_ws E HF. unfold bind at 1.
    rewrite (parse_statements_ok b0 Hb0 (sub L 2) n _ (render_gap (lead_gap (sub L 3) 0 rest g) ++ after_lead (sub L 3) 0 rest g r))
      by (try wflay; try reflexivity; lensolve E Hn || lensolve E HF).
    to_base. step_ws E HF.
    lazymatch goal with |- context [st_after (add_pats ?P s) ?acc (after_lead ?L3 0 rest g r)] =>
      pose proof (if_tail_ok rest stmt
        (fun arms => SIf ((conds_loc (sub L 1) 0 (pos_after (p_loc s) (t_if ++ Gs L 0 true (conds_starts_word (c00 :: c0)))) (c00 :: c0),
                           block_loc tbl (sub L 2)
                             (pos_after (p_loc s) ((t_if ++ Gs L 0 true (conds_starts_word (c00 :: c0))) ++ conds_text (sub L 1) 0 (c00 :: c0)))
                             (length (p_pats s)) b0, p_loc s) :: arms) (p_loc s))
        L3 0%nat n (st_after (add_pats P s) acc (after_lead L3 0 rest g r)) g r F Hrest Hok (WfLayout_sub X L 3 HL) Hg Hr Hel Hes eq_refl) as HT
    end.
    unfold if_tail in HT. cbv beta in HT.
    revert HT. pats_norm. norm.
    repeat match goal with |- context [pos_after ?p []] => change (pos_after p []) with p end. intros HT.
    rewrite HT by (lensolve E Hn || lensolve E HF). clear HT.
    pose proof E as E2. rewrite after_lead_app in E2.
    to_base. step_ws E2 HF. fin2.
  Qed.

  (* ---------------------------------------------------------------- all statements *)
  Fixpoint wf_stmts (l : list stmt) : Prop :=
    match l with [] => True | s :: l' => WfStmt X tbl s /\ wf_stmts l' end.
  Fixpoint wf_arms (a : list (N * list stmt * loc)) : Prop :=
    match a with [] => True | (idx, body, _) :: a' => x_regex X (pat tbl idx) = Some true /\ wf_stmts body /\ wf_arms a' end.
  Fixpoint wf_ifarms (a : list ifarm) : Prop :=
    match a with [] => True | (_, body, _) :: a' => wf_stmts body /\ wf_ifarms a' end.

  Lemma wf_stmts_S l : Forall (fun st => WfStmt X tbl st -> Sstmt st) l -> wf_stmts l -> Forall Sstmt l.
  Proof.
    induction 1 as [|st l H Hl IH]; intros Hw; [constructor|]. destruct Hw as [H1 H2].
    constructor; [apply H; exact H1 | apply IH; exact H2].
  Qed.

  Lemma Sstmt_all st : WfStmt X tbl st -> Sstmt st.
  Proof.
    induction st using stmt_ind'; intros Hwf.
    - destruct Hwf. apply S_let; assumption.
    - destruct Hwf. apply S_var; assumption.
    - destruct Hwf. apply S_set; assumption.
    - destruct Hwf as [Hwf Ht]. apply S_node; assumption.
    - destruct Hwf as [H1 [H2 H3]]. apply S_attrnode; assumption.
    - destruct Hwf. apply S_edge; assumption.
    - destruct Hwf as [H1 [H2 [H3 H4]]]. apply S_attredge; assumption.
    - change (WfStmt X tbl (SScan v arms l)) with (WfExpr X v /\ wf_arms arms) in Hwf. destruct Hwf as [Hv Harms].
      apply S_scan; [exact Hv|]. clear Hv. induction H as [|[[idx body] al] arms Hb Hrest IH]; [constructor|].
      destruct Harms as [Hrx [Hwb Hwa]]. constructor; [|apply IH; exact Hwa].
      split; [exact Hrx | apply wf_stmts_S; assumption].
    - destruct Hwf. apply S_print; assumption.
    - destruct arms as [|[[c0 b0] l0] rest]; [contradiction|].
      change (WfStmt X tbl (SIf ((c0, b0, l0) :: rest) l)) with
        (c0 <> [] /\ Forall (WfCond X) c0 /\ WfIfRest X rest /\ wf_ifarms ((c0, b0, l0) :: rest)) in Hwf.
      destruct Hwf as [H1 [H2 [H3 [Hb0 Hrest]]]]. inversion H as [|? ? Hb0' Hrest']; subst. cbn [fst snd] in Hb0'.
      apply S_if; try assumption.
      + apply wf_stmts_S; assumption.
      + clear -Hrest Hrest'. induction Hrest' as [|[[c b] al] rest' Hb Hr IH]; [constructor|].
        destruct Hrest as [Hwb Hwr]. constructor; [|apply IH; exact Hwr].
        unfold ifarm_ok. cbn [fst snd] in *. apply wf_stmts_S; assumption.
    - change (WfStmt X tbl (SFor v vl val body l)) with (WfIdent X v /\ WfExpr X val /\ wf_stmts body) in Hwf.
      destruct Hwf as [H1 [H2 H3]]. apply S_for; try assumption. apply wf_stmts_S; assumption.
  Qed.

  (* the block of a stanza *)
  Lemma parse_render_block_lemma l L s r : wf_stmts l -> WfLayout X L ->
    p_rest s = block_text tbl L l ++ r -> (len s < F)%nat ->
    parse_stanza_statements X F s =
      ROk (block_loc tbl L (p_loc s) (length (p_pats s)) l)
          (add_pats (stmts_pats tbl l) (st_after s (block_text tbl L l) r)).
  Proof.
    intros Hwf HL E HF. unfold parse_stanza_statements, parse_statement.
    change (parse_statement_n X F F) with (fun s' => parse_statement_n X F F s').
    apply (parse_statements_ok l) with (n := F); try assumption; try lia.
    clear -Hwf Sane. induction l as [|st l IH]; [constructor|]. destruct Hwf as [H1 H2].
    constructor; [apply Sstmt_all; exact H1 | apply IH; exact H2].
  Qed.

  (* one statement, followed by its gap and what may follow a statement *)
  Lemma parse_render_stmt_lemma st L s g r : WfStmt X tbl st -> WfLayout X L ->
    stmt_follow (stmt_ends_word L st) g r ->
    p_rest s = stext tbl L st ++ render_gap g ++ r -> (len s < F)%nat ->
    (st0 <- parse_statement X F ;; consume_whitespace X F ;;; ret st0) s =
      ROk (sloc tbl L (p_loc s) (length (p_pats s)) st)
          (add_pats (stmt_pats tbl st) (st_after s (stext tbl L st ++ render_gap g) r)).
  Proof.
    intros Hwf HL Hf E HF. unfold parse_statement.
    exact (Sstmt_rec st (Sstmt_all st Hwf) L F s g r HL Hf E HF HF).
  Qed.

  (* ================================================================ Part C: files *)
  Lemma skip_query_loop_ok q : forall a b c s r k, qscan a b c q = Some (false, false, false) ->
    p_rest s = q ++ 123 :: r -> (len s < k)%nat ->
    skip_query_loop k a b c s = ROk q (st_after s q (123 :: r)).
  Proof.
    induction q as [|ch q IH]; intros a b c s r k Hq E Hk; (destruct k as [|k]; [lia|]); cbn [skip_query_loop qscan] in *.
    - injection Hq as -> -> ->. cbn [app] in E. unfold bind at 1. rewrite (peek_eq s 123 r E).
      cbn [N.eqb Pos.eqb]. unfold ret. rewrite st_after_nil' by exact E. reflexivity.
    - cbn [app] in E. unfold bind at 1. rewrite (peek_eq s ch _ E).
      assert (Hstep : forall a' b' c', qscan a' b' c' q = Some (false, false, false) ->
                (skip_unwrap 4 ;;; l <- skip_query_loop k a' b' c' ;; ret (ch :: l)) s = ROk (ch :: q) (st_after s (ch :: q) (123 :: r))).
      { intros a' b' c' Hq'. unfold bind at 1. rewrite (skip_unwrap_eq 4 s ch _ E), advance_st_after. unfold bind at 1.
        rewrite (IH a' b' c' _ r k Hq') by (try reflexivity; lensolve E Hk). unfold ret. rewrite st_after_app. reflexivity. }
      destruct b; [apply Hstep; exact Hq|]. destruct a.
      { destruct (ch =? 92); [apply Hstep; exact Hq|]. destruct ((ch =? 34) || (ch =? 10)); apply Hstep; exact Hq. }
      destruct c; [apply Hstep; exact Hq|]. destruct (ch =? 34); [apply Hstep; exact Hq|].
      destruct (ch =? 123); [discriminate|]. destruct (ch =? 59); apply Hstep; exact Hq.
  Qed.

  Lemma parse_query_ok q s r n idx : qscan false false false q = Some (false, false, false) ->
    x_query X (p_off s) (p_off s + bytes q) = Some (QOk n (Some idx)) -> (1 <? n) = false ->
    p_rest s = q ++ 123 :: r -> (len s < F)%nat ->
    parse_query X F s = ROk (idx, (q ++ full_match_suffix) ++ [10]) (st_after s q (123 :: r)).
  Proof.
    intros Hq Hx Hn E HF. unfold parse_query. unfold bind at 1. unfold get_loc at 1. unfold bind at 1. unfold get_off at 1.
    unfold bind at 1. unfold skip_query. rewrite (skip_query_loop_ok q false false false s r F Hq E HF).
    unfold bind at 1. unfold get_off at 1. rewrite p_off_st_after, Hx, Hn. reflexivity.
  Qed.

  Lemma parse_stanza_ok q z L s r n : WfQuery X q -> wf_stmts (st_stmts z) -> WfLayout X L ->
    x_query X (p_off s) (p_off s + bytes q) = Some (QOk n (Some (st_full_stanza_idx z))) -> (1 <? n) = false ->
    p_rest s = (q ++ block_text tbl (sub L 1) (st_stmts z)) ++ r -> (len s < F)%nat ->
    parse_stanza X F s =
      ROk ({| st_stmts := block_loc tbl (sub L 1) (pos_after (p_loc s) q) (length (p_pats s)) (st_stmts z);
              st_full_stanza_idx := st_full_stanza_idx z; st_full_file_idx := u32_max; st_start := p_loc s |},
           (q ++ full_match_suffix) ++ [10])
          (add_pats (stmts_pats tbl (st_stmts z)) (st_after s (q ++ block_text tbl (sub L 1) (st_stmts z)) r)).
  Proof.
    intros [Hq _] Hwf HL Hx Hn E HF. repeat rewrite <- app_assoc in E.
    assert (E' : p_rest s = q ++ 123 :: (G (sub L 1) 0 ++ stmts_text tbl (sub (sub L 1) 1) 0 (st_stmts z) ++ [125]) ++ r).
    { rewrite E. unfold block_text. cbn [app]. repeat rewrite <- app_assoc. reflexivity. }
    unfold parse_stanza. unfold bind at 1. unfold get_loc at 1. unfold bind at 1.
    rewrite (parse_query_ok q s _ n _ Hq Hx Hn E' HF).
    change (123 :: (G (sub L 1) 0 ++ stmts_text tbl (sub (sub L 1) 1) 0 (st_stmts z) ++ [125]) ++ r)
      with (block_text tbl (sub L 1) (st_stmts z) ++ r).
    unfold bind at 1. rewrite consume_whitespace_noop by (try apply block_text_no_gap; lensolve E HF).
    unfold bind at 1.
    rewrite (parse_render_block_lemma (st_stmts z) (sub L 1) _ r Hwf) by (try wflay; try reflexivity; lensolve E HF).
    unfold ret. cbn [fst snd]. rewrite p_loc_st_after, p_pats_st_after, st_after_app. reflexivity.
  Qed.

  (* ---------------------------------------------------------------- items *)
  Definition acc_add (a : facc) (it : item) : facc :=
    match it with
    | IGlobal g => {| a_globals := a_globals a ++ [g]; a_inherited := a_inherited a; a_shorthands := a_shorthands a; a_stanzas := a_stanzas a; a_query_source := a_query_source a |}
    | IInherit n => {| a_globals := a_globals a; a_inherited := a_inherited a ++ [n]; a_shorthands := a_shorthands a; a_stanzas := a_stanzas a; a_query_source := a_query_source a |}
    | IShorthand h => {| a_globals := a_globals a; a_inherited := a_inherited a; a_shorthands := a_shorthands a ++ [h]; a_stanzas := a_stanzas a; a_query_source := a_query_source a |}
    | IStanza q z => {| a_globals := a_globals a; a_inherited := a_inherited a; a_shorthands := a_shorthands a; a_stanzas := a_stanzas a ++ [z]; a_query_source := a_query_source a ++ q ++ full_match_suffix ++ [10] |}
    end.
  Lemma acc_of_items_cons it l a : acc_of_items (it :: l) a = acc_of_items l (acc_add a it).
  Proof. destruct it; reflexivity. Qed.

  (* the body of one iteration of file_loop, up to the whitespace behind the item *)
  Definition item_step (a : facc) : M facc :=
    a' <- if_ok (consume_token t_attribute)
            (consume_whitespace X F ;;;
             sh <- parse_shorthand X F ;;
             ret {| a_globals := a_globals a; a_inherited := a_inherited a;
                    a_shorthands := a_shorthands a ++ [sh]; a_stanzas := a_stanzas a;
                    a_query_source := a_query_source a |})
            (if_ok (consume_token t_global)
               (consume_whitespace X F ;;;
                g <- parse_global X F ;;
                ret {| a_globals := a_globals a ++ [g]; a_inherited := a_inherited a;
                       a_shorthands := a_shorthands a; a_stanzas := a_stanzas a;
                       a_query_source := a_query_source a |})
               (if_ok (consume_token t_inherit)
                  (consume_whitespace X F ;;;
                   consume_token t_dot ;;;
                   name <- parse_name X F w_inherit ;;
                   ret {| a_globals := a_globals a; a_inherited := a_inherited a ++ [name];
                          a_shorthands := a_shorthands a; a_stanzas := a_stanzas a;
                          a_query_source := a_query_source a |})
                  (p <- parse_stanza X F ;;
                   ret {| a_globals := a_globals a; a_inherited := a_inherited a;
                          a_shorthands := a_shorthands a; a_stanzas := a_stanzas a ++ [fst p];
                          a_query_source := a_query_source a ++ snd p |}))) ;;
    consume_whitespace X F ;;; ret a'.

  (* what follows an item and its gap: the end of the file or the next item; after a bare global
     (name without quantifier and default) no quantifier character *)
  Definition item_follow (ends_w bare : bool) (g : gap) (r : list N) : Prop :=
    expr_follow X ends_w g r /\ no_comma_start r /\ no_eq_start r /\
    (bare = true -> no_quant_start (render_gap g ++ r)).

  Lemma ws_not_quant c : is_whitespace X c = true -> quant_char c = false.
  Proof.
    intros H. unfold quant_char.
    destruct (N.eqb_spec c 63) as [->|_]; [vm_compute in H; discriminate|].
    destruct (N.eqb_spec c 42) as [->|_]; [vm_compute in H; discriminate|].
    destruct (N.eqb_spec c 43) as [->|_]; [vm_compute in H; discriminate|]. reflexivity.
  Qed.
  Lemma gap_no_quant' g r : WfGap X g -> (g = [] -> no_quant_start r) -> no_quant_start (render_gap g ++ r).
  Proof.
    intros Hg Hr. destruct g as [|i g]; [apply Hr; reflexivity|]. inversion Hg as [|? ? Hi _]; subst.
    destruct i as [c|b]; cbn [render_gap map concat render_gap_item app no_quant_start].
    - apply ws_not_quant. exact Hi.
    - reflexivity.
  Qed.
  Lemma gap_no_quant g r : WfGap X g -> no_quant_start r -> no_quant_start (render_gap g ++ r).
  Proof. intros Hg Hr. apply gap_no_quant'; [exact Hg | intros _; exact Hr]. Qed.
  Lemma sep_no_quant b g r : WfGap X g -> (b = false -> no_quant_start r) ->
    no_quant_start (render_gap (sep true b g) ++ r).
  Proof.
    intros Hg Hr. unfold sep. cbn [andb]. destruct b.
    - destruct g as [|i g]; [reflexivity|]. apply gap_no_quant'; [exact Hg | discriminate].
    - apply gap_no_quant; [exact Hg | apply Hr; reflexivity].
  Qed.

  Lemma parse_quantifier_ok q s rest : q <> QZero -> (q = QOne -> no_quant_start rest) ->
    p_rest s = quant_text q ++ rest -> parse_quantifier s = ROk q (st_after s (quant_text q) rest).
  Proof.
    intros Hq Hr E. unfold parse_quantifier. rewrite E.
    destruct q; try congruence; cbn [quant_text app] in *;
      try (cbn [quantifier_of N.eqb Pos.eqb]; unfold bind; rewrite (skip_unwrap_eq 3 s _ rest E), advance_st_after; reflexivity).
    rewrite (st_after_nil' s rest E).
    destruct rest as [|c rest']; [reflexivity|]. specialize (Hr eq_refl). cbn [no_quant_start] in Hr.
    unfold quant_char in Hr. apply orb_false_iff in Hr. destruct Hr as [Hr H3]. apply orb_false_iff in Hr. destruct Hr as [H1 H2].
    unfold quantifier_of. rewrite H1, H2, H3. reflexivity.
  Qed.
  Lemma quant_text_no_ident q rest : q <> QZero -> (q = QOne -> no_ident_start X rest) ->
    no_ident_start X (quant_text q ++ rest).
  Proof.
    intros Hq Hr. destruct q; try congruence; cbn [quant_text app no_ident_start]; try reflexivity. apply Hr; reflexivity.
  Qed.

  Lemma parse_global_ok g0 L s g r : WfIdent X (gl_name g0) -> gl_quant g0 <> QZero -> WfLayout X L ->
    item_follow (global_bare g0) (global_bare g0) g r ->
    p_rest s = gl_name g0 ++ quant_text (gl_quant g0)
           ++ match gl_default g0 with None => [] | Some d => G L 1 ++ [61] ++ G L 2 ++ render_string (l_esc L []) d end
           ++ render_gap g ++ r ->
    (len s < F)%nat ->
    (x <- parse_global X F ;; consume_whitespace X F ;;; ret x) s =
      ROk {| gl_name := gl_name g0; gl_quant := gl_quant g0; gl_default := gl_default g0; gl_loc := p_loc s |}
          (st_after s (gl_name g0 ++ quant_text (gl_quant g0)
                        ++ match gl_default g0 with None => [] | Some d => G L 1 ++ [61] ++ G L 2 ++ render_string (l_esc L []) d end
                        ++ render_gap g) r).
  Proof.
    intros Hn Hq HL [[Hg [Hr [Hd Hw]]] [Hc [He Hb]]] E HF.
    set (tail := match gl_default g0 with None => [] | Some d => G L 1 ++ [61] ++ G L 2 ++ render_string (l_esc L []) d end) in *.
    (* what follows the name and the quantifier character continues neither *)
    assert (Htail : gl_quant g0 = QOne -> no_ident_start X (tail ++ render_gap g ++ r) /\ no_quant_start (tail ++ render_gap g ++ r)).
    { intros Hone. subst tail. unfold global_bare in Hw, Hb. rewrite Hone in Hw, Hb. destruct (gl_default g0) as [d|].
      - unfold G. repeat rewrite <- app_assoc.
        split; [apply (gap_follow X Sane); [wfgap | reflexivity] | apply gap_no_quant; [wfgap | reflexivity]].
      - split; [apply Hw; reflexivity | apply Hb; reflexivity]. }
    unfold parse_global. start E. unfold bind at 1. step_loc.
    unfold bind at 1.
    rewrite (parse_name_ok X F w_global (gl_name g0) _ (quant_text (gl_quant g0) ++ tail ++ render_gap g ++ r) Hn)
      by (first [ apply quant_text_no_ident; [exact Hq | intros Hone; apply (Htail Hone)] | reflexivity | lensolve E HF ]).
    rewrite st_after_app.
    unfold bind at 1.
    rewrite (parse_quantifier_ok (gl_quant g0) _ (tail ++ render_gap g ++ r) Hq) by (first [ intros Hone; apply (Htail Hone) | reflexivity ]).
    rewrite st_after_app. clear Htail.
    subst tail. destruct (gl_default g0) as [d|].
    - normE E. normG. step_ws E HF. unfold bind at 1. unfold if_ok at 1.
      match goal with |- context [consume_token t_eq (st_after ?s1 ?a1 ?r1)] =>
        erewrite (consume_token_ok t_eq (st_after s1 a1 r1)) by reflexivity end.
      rewrite st_after_app. step_ws E HF. unfold bind at 1.
      match goal with |- context [parse_string F (st_after ?s1 ?a1 (render_string ?es ?v ++ ?rr))] =>
        rewrite (parse_string_ok F es v (st_after s1 a1 (render_string es v ++ rr)) rr eq_refl) by lensolve E HF end.
      rewrite st_after_app. unfold ret at 1. unfold ret at 1. step_ws E HF. unfold ret. norm. reflexivity.
    - cbn [app] in *. step_ws E HF. unfold bind at 1. unfold if_ok at 1.
      rewrite consume_token_fail by (cbn [p_rest st_after]; destruct r as [|c' r']; [reflexivity | apply starts_with_single_ne; exact He]).
      unfold ret at 1. unfold ret at 1. step_ws E HF. unfold ret. norm. reflexivity.
  Qed.

  Lemma parse_shorthand_ok h L s g r : WfIdent X (sh_name h) -> WfIdent X (sh_var h) -> sh_attrs h <> [] ->
    Forall (WfAttr X) (sh_attrs h) -> WfLayout X L ->
    attrs_follow (attrs_ends_word (sub L 5) 0 (sh_attrs h)) g r ->
    p_rest s = sh_name h ++ G L 1 ++ [61] ++ G L 2 ++ sh_var h ++ G L 3 ++ t_arrow2 ++ G L 4
               ++ attrs_text (sub L 5) 0 (sh_attrs h) ++ render_gap g ++ r ->
    (len s < F)%nat ->
    parse_shorthand X F s =
      ROk {| sh_name := sh_name h; sh_var := sh_var h;
             sh_vloc := pos_after (p_loc s) (sh_name h ++ G L 1 ++ [61] ++ G L 2);
             sh_attrs := attrs_loc (sub L 5) 0
                           (pos_after (pos_after (p_loc s) (sh_name h ++ G L 1 ++ [61] ++ G L 2)) (sh_var h ++ G L 3 ++ t_arrow2 ++ G L 4))
                           (sh_attrs h);
             sh_loc := p_loc s |}
          (st_after s (sh_name h ++ G L 1 ++ [61] ++ G L 2 ++ sh_var h ++ G L 3 ++ t_arrow2 ++ G L 4
                       ++ attrs_text (sub L 5) 0 (sh_attrs h) ++ render_gap g) r).
  Proof.
    intros Hn Hv Hne Hattrs HL Hfol E HF.
    unfold parse_shorthand. start E. unfold bind at 1. step_loc. step_name E HF. step_ws E HF. step_tok. step_ws E HF.
    unfold bind at 1.
    match goal with |- context [parse_unscoped_variable X F (st_after ?s0 ?acc (sh_var h ++ G ?L1 ?k1 ++ ?r0))] =>
      rewrite (parse_unscoped_variable_ok (sh_var h) s0 acc L (l_gap L1 [k1]) r0 (sh_var h ++ G L1 k1 ++ r0) HL Hv)
        by (try reflexivity; try follow; lensolve E HF) end.
    step_ws E HF. step_tok.
    assert (Hng : no_gap_start X (attrs_text (sub L 5) 0 (sh_attrs h) ++ render_gap g ++ r)).
    { destruct (sh_attrs h) as [|a0 attrs]; [congruence|]. apply attrs_text_no_gap; assumption. }
    step_ws E HF.
    rewrite (parse_attributes_ok (sh_attrs h) (sub L 5) _ g r Hne Hattrs) by (try wflay; try exact Hfol; try reflexivity; lensolve E HF).
    unfold ret. cbn [fst snd]. fin.
  Qed.

  Lemma bind_ret_swap {A B} (m : M A) (f : A -> B) s :
    (a' <- (x <- m ;; ret (f x)) ;; consume_whitespace X F ;;; ret a') s =
    (x <- (x <- m ;; consume_whitespace X F ;;; ret x) ;; ret (f x)) s.
  Proof.
    unfold bind, ret. destruct (m s) as [a s1| | | |]; try reflexivity. destruct (consume_whitespace X F s1); reflexivity.
  Qed.

  (* the first characters of an item decide the branch of the dispatch *)
  Lemma item_step_ok it L a s g r : WfItem X tbl it -> WfLayout X L ->
    item_follow (item_ends_word L it) (item_bare it) g r ->
    match it with
    | IStanza q z => exists n, x_query X (p_off s) (p_off s + bytes q) = Some (QOk n (Some (st_full_stanza_idx z))) /\ (1 <? n) = false
    | _ => True
    end ->
    p_rest s = item_text tbl L it ++ render_gap g ++ r -> (len s < F)%nat ->
    item_step a s =
      ROk (acc_add a (item_loc tbl L (p_loc s) (length (p_pats s)) it))
          (add_pats (item_pats tbl it) (st_after s (item_text tbl L it ++ render_gap g) r)).
  Proof.
    intros Hwf HL Hfol Hq E HF. pose proof Hfol as [[Hg [Hr [Hd Hw]]] [Hc [He Hb]]].
    unfold item_step. destruct it as [g0|n|h|q z]; cbn [item_text item_loc item_pats item_ends_word item_bare acc_add WfItem] in *.
    - (* global *)
      destruct Hwf as [Hn Hqz]. normE E. rewrite add_pats_nil.
      rewrite (if_ok_bind_err _ _ _ _ s _ (consume_token_fail t_attribute s ltac:(rewrite E; reflexivity))).
      rewrite (if_ok_bind_ok _ _ _ _ s tt _ (consume_token_ok t_global s _ E)).
      rewrite <- (st_after_nil' s _ E) at 1. rewrite st_after_app.
      rewrite bind_assoc. step_ws E HF.
      rewrite bind_ret_swap. unfold bind at 1.
      rewrite (parse_global_ok g0 L _ g r Hn Hqz HL Hfol) by (try reflexivity; lensolve E HF).
      unfold ret. fin.
    - (* inherit *)
      normE E. rewrite add_pats_nil. unfold bind at 1. unfold if_ok at 1.
      rewrite consume_token_fail by (rewrite E; reflexivity).
      unfold if_ok at 1. rewrite consume_token_fail by (rewrite E; reflexivity).
      unfold if_ok at 1. rewrite (consume_token_ok t_inherit s _ E).
      rewrite <- (st_after_nil' s _ E) at 1. rewrite st_after_app. step_ws E HF. step_tok. step_name E HF.
      unfold ret at 1. step_ws E HF. unfold ret. fin.
    - (* shorthand *)
      destruct Hwf as [Hn [Hv [Hne Hattrs]]]. normE E. rewrite add_pats_nil. unfold bind at 1. unfold if_ok at 1.
      rewrite (consume_token_ok t_attribute s _ E).
      rewrite <- (st_after_nil' s _ E) at 1. rewrite st_after_app. step_ws E HF. unfold bind at 1.
      rewrite (parse_shorthand_ok h L _ g r Hn Hv Hne Hattrs HL) by (try (destruct Hfol as [K1 [K2 [K3 _]]]; split; [split; assumption | assumption]); try reflexivity; lensolve E HF).
      unfold ret at 1. step_ws E HF. unfold ret. fin.
    - (* stanza *)
      destruct Hwf as [[Hqs [Hq1 [Hq2 [Hq3 [Hq4 Hq5]]]]] Hstmts]. destruct Hq as [n [Hx Hn]].
      assert (Hpre : forall tok, ~ In 123 tok -> starts_with tok (q ++ [123]) = false -> starts_with tok (p_rest s) = false).
      { intros tok Hni Ht. rewrite E. unfold block_text. repeat rewrite <- app_assoc.
        clear -Ht Hni. revert tok Ht Hni. generalize (G (sub L 1) 0 ++ stmts_text tbl (sub (sub L 1) 1) 0 (st_stmts z) ++ [125] ++ render_gap g ++ r).
        induction q as [|c q IHq]; intros t0 tok Ht Hni; cbn [app] in *.
        - destruct tok as [|t1 tok]; [discriminate|]. cbn [starts_with] in *.
          replace (t1 =? 123) with false by (symmetry; apply N.eqb_neq; intros ->; apply Hni; left; reflexivity). reflexivity.
        - destruct tok as [|t1 tok]; [discriminate|]. cbn [starts_with] in *. destruct (t1 =? c); [|reflexivity].
          cbn [andb] in *. apply IHq; [exact Ht | intros Hin; apply Hni; right; exact Hin]. }
      assert (Hni : forall tok, tok = t_attribute \/ tok = t_global \/ tok = t_inherit -> ~ In 123 tok).
      { intros tok [-> | [-> | ->]] Hin; cbn in Hin; repeat (destruct Hin as [Hin|Hin]; [discriminate|]); exact Hin. }
      unfold bind at 1. unfold if_ok at 1. rewrite consume_token_fail by (apply Hpre; [apply Hni; auto | exact Hq1]).
      unfold if_ok at 1. rewrite consume_token_fail by (apply Hpre; [apply Hni; auto | exact Hq2]).
      unfold if_ok at 1. rewrite consume_token_fail by (apply Hpre; [apply Hni; auto | exact Hq3]).
      unfold bind at 1.
      rewrite (parse_stanza_ok q z L s (render_gap g ++ r) n) by (try assumption; try (repeat split; assumption); try (rewrite E; repeat rewrite <- app_assoc; reflexivity)).
      unfold ret at 1. cbn [fst snd]. to_base.
      assert (E2 : p_rest s = (q ++ block_text tbl (sub L 1) (st_stmts z)) ++ render_gap g ++ r) by exact E.
      step_ws E2 HF. unfold ret. rewrite <- !app_assoc. fin2.
  Qed.

  (* ---------------------------------------------------------------- the file loop *)
  (* the first character of an item *)
  Lemma item_text_head it L r : WfItem X tbl it -> exists c t,
    item_text tbl L it ++ r = c :: t /\ no_gap_start X (c :: t) /\ c <> 61 /\ c <> 44 /\ c <> 46 /\
    (item_starts_word X it = false -> is_ident X c = false) /\
    (item_starts_quant it = false -> quant_char c = false).
  Proof.
    intros Hwf. destruct it as [g0|n|h|q z]; cbn [item_text item_starts_word item_starts_quant];
      try (eexists; eexists; split; [reflexivity|]; repeat split; try discriminate; try reflexivity).
    destruct Hwf as [[_ [_ [_ [_ [Hng Hc]]]]] _]. destruct q as [|c q].
    - cbn [app] in *. unfold block_text. cbn [app]. eexists; eexists; split; [reflexivity|]. repeat split; try discriminate; reflexivity.
    - cbn [app] in *. exists c. eexists. split; [reflexivity|]. destruct Hc as [H1 [H2 H3]]. destruct Hng as [Hg1 Hg2].
      repeat split; try assumption; auto.
  Qed.

  Lemma item_bare_ends_word L it : item_bare it = true -> item_ends_word L it = true.
  Proof. destruct it; cbn [item_bare item_ends_word]; congruence. Qed.

  (* what follows item it0 (written under L0) and its gap when the items l come next *)
  Lemma items_text_follow L0 it0 L i l g0 : Forall (WfItem X tbl) l -> WfGap X g0 ->
    item_follow (item_ends_word L0 it0) (item_bare it0)
      (sep (item_ends_word L0 it0) (next_clash X it0 l) g0) (items_text tbl X L i l).
  Proof.
    intros Hwf Hg. destruct l as [|it l]; cbn [items_text next_clash].
    - repeat split; try exact I. + apply sep_wf; exact Hg.
      + intros ->. apply (sep_follow X Sane); [exact Hg | reflexivity | intros _; exact I].
      + intros Hb. rewrite (item_bare_ends_word L0 it0 Hb). apply sep_no_quant; [exact Hg | intros _; exact I].
    - inversion Hwf as [|? ? Hit _]; subst. repeat rewrite <- app_assoc.
      destruct (item_text_head it (sub L (2 * i)) (Gs L (2 * i + 1) (item_ends_word (sub L (2 * i)) it) (next_clash X it l) ++ items_text tbl X L (S i) l) Hit)
        as [c [t [Ec [Hng [H61 [H44 [H46 [Hsw Hsq]]]]]]]]. rewrite Ec.
      repeat split; try assumption. + apply sep_wf; exact Hg. + apply Hng. + apply Hng.
      + intros ->. apply (sep_follow X Sane); [exact Hg | reflexivity |].
        intros Hnc. apply orb_false_iff in Hnc. apply Hsw. apply Hnc.
      + intros Hb. rewrite (item_bare_ends_word L0 it0 Hb). apply sep_no_quant; [exact Hg|].
        intros Hnc. apply orb_false_iff in Hnc. destruct Hnc as [_ Hnc]. rewrite Hb in Hnc. apply Hsq. exact Hnc.
  Qed.

  Lemma file_loop_ok l : forall L i a s k, Forall (WfItem X tbl) l -> WfLayout X L ->
    queries_ok X tbl L i (p_off s) l -> p_rest s = items_text tbl X L i l ->
    (len s < k)%nat -> (len s < F)%nat ->
    file_loop X F k a s =
      ROk (acc_of_items (items_loc tbl X L i (p_loc s) (length (p_pats s)) l) a)
          (add_pats (concat (map (item_pats tbl) l)) (st_after s (items_text tbl X L i l) [])).
  Proof.
    induction l as [|it l IH]; intros L i a s k Hwf HL Hq E Hk HF; (destruct k as [|k]; [lia|]);
      cbn [file_loop items_text items_loc map concat] in *.
    - rewrite E. rewrite add_pats_nil, st_after_nil' by exact E. reflexivity.
    - inversion Hwf as [|? ? Hit Hl]; subst. destruct Hq as [Hqi Hql].
      set (gp := sep (item_ends_word (sub L (2 * i)) it) (next_clash X it l) (l_gap L [(2 * i + 1)%nat])) in *.
      assert (E1 : p_rest s = item_text tbl (sub L (2 * i)) it ++ render_gap gp ++ items_text tbl X L (S i) l) by (rewrite E; reflexivity).
      destruct (item_text_head it (sub L (2 * i)) (render_gap gp ++ items_text tbl X L (S i) l) Hit) as [c [t [Ec _]]].
      assert (Hlen1 : (1 <= length (item_text tbl (sub L (2 * i)) it))%nat).
      { destruct (item_text_head it (sub L (2 * i)) [] Hit) as [c' [t' [E' _]]]. rewrite app_nil_r in E'. rewrite E'. cbn. lia. }
      rewrite E1, Ec.
      rewrite bind_ws_assoc. fold (item_step a). unfold bind at 1.
      rewrite (item_step_ok it (sub L (2 * i)) a s gp (items_text tbl X L (S i) l) Hit (WfLayout_sub X L (2 * i) HL)
                 (items_text_follow (sub L (2 * i)) it L (S i) l _ Hl (WfLayout_gap X L (2 * i + 1) HL)))
        by (try exact E1; try exact HF; destruct it; try exact I; exact Hqi).
      to_base.
      rewrite (IH L (S i) _ _ k Hl HL) by (first [ exact Hql | reflexivity | (rewrite len_st_after; unfold len in *; rewrite Ec in E1; apply (f_equal (@length N)) in Ec; rewrite E1 in Hk, HF; repeat (rewrite app_length in * || cbn [length] in * ); lia) ]).
      rewrite acc_of_items_cons. fin2.
  Qed.

  Lemma acc_query_source l : forall a,
    a_query_source (acc_of_items l a) = a_query_source a ++ concat (map item_query_source l).
  Proof.
    induction l as [|it l IH]; intros a; cbn [map concat]; [rewrite app_nil_r; reflexivity|].
    rewrite acc_of_items_cons, IH. destruct it; cbn [acc_add a_query_source item_query_source app]; try reflexivity.
    repeat rewrite <- app_assoc. reflexivity.
  Qed.
  Lemma items_loc_query_source l : forall L i p k,
    map item_query_source (items_loc tbl X L i p k l) = map item_query_source l.
  Proof.
    induction l as [|it l IH]; intros L i p k; cbn [items_loc map]; [reflexivity|]. rewrite IH.
    destruct it; reflexivity.
  Qed.

  Lemma parse_into_file_ok items L s : Forall (WfItem X tbl) items -> WfLayout X L ->
    queries_ok X tbl (sub L 1) 0 (p_off s + bytes (G L 0)) items ->
    x_merged X (concat (map item_query_source items)) = Some true ->
    p_rest s = file_text tbl X L items -> (len s < F)%nat ->
    parse_into_file X F s =
      ROk (acc_of_items (items_loc tbl X (sub L 1) 0 (pos_after (p_loc s) (G L 0)) (length (p_pats s)) items) empty_acc)
          (add_pats (concat (map (item_pats tbl) items)) (st_after s (file_text tbl X L items) [])).
  Proof.
    intros Hwf HL Hq Hm E HF. unfold file_text in *. unfold parse_into_file. start E.
    assert (Hng : no_gap_start X (items_text tbl X (sub L 1) 0 items)).
    { destruct (items_text_follow L (IInherit []) (sub L 1) 0 items [] Hwf ltac:(constructor)) as [[_ [H _]] _]. exact H. }
    step_ws E HF. unfold bind at 1.
    rewrite (file_loop_ok items (sub L 1) 0 _ _ F Hwf) by (first [ wflay | exact Hq | reflexivity | lensolve E HF ]).
    rewrite p_loc_st_after, p_pats_st_after.
    rewrite acc_query_source, items_loc_query_source. cbn [a_query_source app]. rewrite Hm.
    unfold ret. fin.
  Qed.
End RTS.

(* ---------------------------------------------------------------- the whole file *)
Lemma parse_render_file_lemma X tbl items L : UnicodeSane X ->
  Forall (WfItem X tbl) items -> WfLayout X L ->
  queries_ok X tbl (sub L 1) 0 (bytes (G L 0)) items ->
  x_merged X (concat (map item_query_source items)) = Some true ->
  let text := file_text tbl X L items in
  parse X (fuel_of text) text =
    POk (file_of_items (file_items_loc tbl X L items)) (concat (map (item_pats tbl) items)).
Proof.
  intros HS Hwf HL Hq Hm text. unfold parse.
  rewrite (parse_into_file_ok X (fuel_of text) HS tbl items L (init_state text) Hwf HL Hq Hm eq_refl)
    by (unfold len, fuel_of, init_state; cbn; lia).
  cbn [p_pats add_pats st_after init_state]. rewrite app_nil_r, rev_involutive. reflexivity.
Qed.
