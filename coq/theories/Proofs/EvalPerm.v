(* Proofs/EvalPerm.v — the deferred graph operations of lazy evaluation, read as partial functions on graphs
   (Proofs/SLGraph.v), give the same result in every order: attribute insertions up to the order in which
   an attribute map lists its entries, edge insertions exactly (on well-formed graphs). *)
From Coq Require Import Permutation.
From TSG Require Import Model.Graph Proofs.BaseFacts Proofs.Containers Proofs.SLGraph.

(* ---------------- attribute maps as maps ---------------- *)
Definition amap_eq (m1 m2 : amap) : Prop := forall k, alist_get k m1 = alist_get k m2.
Lemma amap_eq_refl m : amap_eq m m. Proof. intros k. reflexivity. Qed.
Lemma amap_eq_sym m1 m2 : amap_eq m1 m2 -> amap_eq m2 m1. Proof. intros H k. symmetry. apply H. Qed.
Lemma amap_eq_trans m1 m2 m3 : amap_eq m1 m2 -> amap_eq m2 m3 -> amap_eq m1 m3. Proof. intros H1 H2 k. rewrite H1. apply H2. Qed.

(* attrs_add respects amap_eq *)
Lemma attrs_add_eq m1 m2 k v : amap_eq m1 m2 ->
  snd (attrs_add m1 k v) = snd (attrs_add m2 k v) /\ amap_eq (fst (attrs_add m1 k v)) (fst (attrs_add m2 k v)).
Proof.
  intros H. destruct (attrs_add_refines m1 k v) as [S1 F1]. destruct (attrs_add_refines m2 k v) as [S2 F2].
  assert (Hs : forall k', fst (spec_attrs_add (abs_attrs m1) k v) k' = fst (spec_attrs_add (abs_attrs m2) k v) k' /\
                          snd (spec_attrs_add (abs_attrs m1) k v) = snd (spec_attrs_add (abs_attrs m2) k v)).
  { intros k'. unfold spec_attrs_add, abs_attrs, upd. rewrite (H k). destruct (alist_get k m2) as [old|]; [destruct (value_eqb old v)|]; cbn [fst snd]; rewrite ?(H k'); auto. }
  split; [rewrite S1, S2; apply (Hs k)|]. intros k'. change (abs_attrs (fst (attrs_add m1 k v)) k' = abs_attrs (fst (attrs_add m2 k v)) k'). rewrite F1, F2. apply Hs.
Qed.

(* two successful insertions into one map commute (up to amap_eq) *)
Lemma attrs_add_swap m k1 v1 k2 v2 m1 m12 :
  attrs_add m k1 v1 = (m1, None) -> attrs_add m1 k2 v2 = (m12, None) ->
  exists m2 m21, attrs_add m k2 v2 = (m2, None) /\ attrs_add m2 k1 v1 = (m21, None) /\ amap_eq m12 m21.
Proof.
  intros H1 H2. destruct (str_eqb_spec k1 k2) as [->|Hk].
  - (* same name: the second insertion succeeded, so the values are equal *)
    assert (Hv : v1 = v2).
    { pose proof (attr_add_then_get_lemma m k2 v1) as Hg. rewrite H1 in Hg. cbn [fst] in Hg. unfold attrs_get in Hg.
      unfold attrs_add in H2. rewrite Hg in H2. destruct (value_eqb v1 v2) eqn:E; [apply value_eqb_eq, E|discriminate]. }
    subst v2. exists m1, m12. split; [exact H1|]. split; [exact H2|apply amap_eq_refl].
  - destruct (attrs_add_refines m k1 v1) as [S1 F1]. rewrite H1 in S1, F1. cbn [fst snd] in S1, F1.
    destruct (attrs_add_refines m1 k2 v2) as [S2 F2]. rewrite H2 in S2, F2. cbn [fst snd] in S2, F2.
    destruct (attrs_add m k2 v2) as [m2 c2] eqn:E2. destruct (attrs_add_refines m k2 v2) as [S3 F3]. rewrite E2 in S3, F3. cbn [fst snd] in S3, F3.
    destruct (attrs_add m2 k1 v1) as [m21 c21] eqn:E21. destruct (attrs_add_refines m2 k1 v1) as [S4 F4]. rewrite E21 in S4, F4. cbn [fst snd] in S4, F4.
    assert (Hne : str_eqb k2 k1 = false) by (apply str_eqb_neq; congruence).
    assert (Hne' : str_eqb k1 k2 = false) by (apply str_eqb_neq; congruence).
    (* lookups of the other name are not affected by an insertion *)
    assert (G1 : abs_attrs m1 k2 = abs_attrs m k2).
    { rewrite F1. unfold spec_attrs_add. destruct (abs_attrs m k1) as [o|]; [destruct (value_eqb o v1)|]; cbn [fst]; unfold upd; rewrite ?Hne; reflexivity. }
    assert (G2 : abs_attrs m2 k1 = abs_attrs m k1).
    { rewrite F3. unfold spec_attrs_add. destruct (abs_attrs m k2) as [o|]; [destruct (value_eqb o v2)|]; cbn [fst]; unfold upd; rewrite ?Hne'; reflexivity. }
    assert (C2 : c2 = None).
    { rewrite S3. transitivity (snd (spec_attrs_add (abs_attrs m1) k2 v2)); [|symmetry; exact S2].
      unfold spec_attrs_add. rewrite G1. destruct (abs_attrs m k2) as [o|]; [destruct (value_eqb o v2)|]; reflexivity. }
    assert (C21 : c21 = None).
    { rewrite S4. transitivity (snd (spec_attrs_add (abs_attrs m) k1 v1)); [|symmetry; exact S1].
      unfold spec_attrs_add. rewrite G2. destruct (abs_attrs m k1) as [o|]; [destruct (value_eqb o v1)|]; reflexivity. }
    exists m2, m21. split; [rewrite ?E2; f_equal; exact C2|]. split; [rewrite ?E21; f_equal; exact C21|].
    intros k. change (abs_attrs m12 k = abs_attrs m21 k). rewrite F2, F4. unfold spec_attrs_add. rewrite G1, G2.
    unfold spec_attrs_add in S1, S2, S3. rewrite G1 in S2.
    destruct (abs_attrs m k1) as [o1|] eqn:A1; destruct (abs_attrs m k2) as [o2|] eqn:A2.
    all: repeat match goal with
         | H : snd (if ?b then _ else _) = None |- _ => destruct b eqn:?; cbn [snd] in H; try discriminate
         | H : None = snd (if ?b then _ else _) |- _ => destruct b eqn:?; cbn [snd] in H; try discriminate
         end.
    all: cbn [fst]; rewrite ?F1, ?F3; unfold spec_attrs_add; rewrite ?A1, ?A2;
         repeat match goal with H : value_eqb _ _ = true |- _ => rewrite H end; cbn [fst]; unfold upd;
         destruct (str_eqb k k1) eqn:?; destruct (str_eqb k k2) eqn:?; try reflexivity.
    all: try (exfalso; apply Hk; transitivity k; [symmetry|]; apply str_eqb_eq; assumption).
    all: rewrite ?F1, ?F3; unfold spec_attrs_add; rewrite ?A1, ?A2;
         repeat match goal with H : value_eqb _ _ = true |- _ => rewrite H end; cbn [fst]; unfold upd;
         repeat match goal with H : str_eqb _ _ = _ |- _ => rewrite H end; try reflexivity.
Qed.

(* ---------------- edge vectors and graphs up to amap_eq ---------------- *)
Definition edge_eq (x y : N * amap) : Prop := fst x = fst y /\ amap_eq (snd x) (snd y).
Definition edges_eq (e1 e2 : edges) : Prop := Forall2 edge_eq e1 e2.
Definition node_eq (a b : gnode) : Prop := amap_eq (g_attrs a) (g_attrs b) /\ edges_eq (g_edges a) (g_edges b).
Definition geq (g1 g2 : graph) : Prop := Forall2 node_eq g1 g2.

Lemma edges_eq_refl e : edges_eq e e. Proof. induction e as [|x e IH]; constructor; [split; [reflexivity|apply amap_eq_refl]|exact IH]. Qed.
Lemma node_eq_refl a : node_eq a a. Proof. split; [apply amap_eq_refl|apply edges_eq_refl]. Qed.
Lemma geq_refl g : geq g g. Proof. induction g; constructor; [apply node_eq_refl|assumption]. Qed.
Lemma edges_eq_sym e1 e2 : edges_eq e1 e2 -> edges_eq e2 e1.
Proof. induction 1 as [|x y e1 e2 [H1 H2] _ IH]; constructor; [split; [congruence|apply amap_eq_sym, H2]|exact IH]. Qed.
Lemma edges_eq_trans e1 e2 e3 : edges_eq e1 e2 -> edges_eq e2 e3 -> edges_eq e1 e3.
Proof.
  intros H. revert e3. induction H as [|x y e1 e2 [H1 H2] _ IH]; intros e3 H3; inversion H3 as [|y' z e2' e3' [H4 H5] H6]; subst; constructor.
  - split; [congruence|eapply amap_eq_trans; eauto].
  - apply IH; assumption.
Qed.
Lemma node_eq_sym a b : node_eq a b -> node_eq b a. Proof. intros [H1 H2]. split; [apply amap_eq_sym, H1|apply edges_eq_sym, H2]. Qed.
Lemma node_eq_trans a b c : node_eq a b -> node_eq b c -> node_eq a c.
Proof. intros [H1 H2] [H3 H4]. split; [eapply amap_eq_trans; eauto|eapply edges_eq_trans; eauto]. Qed.
Lemma geq_sym g1 g2 : geq g1 g2 -> geq g2 g1. Proof. induction 1; constructor; [apply node_eq_sym|]; assumption. Qed.
Lemma geq_trans g1 g2 g3 : geq g1 g2 -> geq g2 g3 -> geq g1 g3.
Proof. intros H. revert g3. induction H as [|a b g1 g2 Hab _ IH]; intros g3 H3; inversion H3; subst; constructor; [eapply node_eq_trans; eauto|apply IH; assumption]. Qed.

Lemma edges_get_eq d e1 e2 : edges_eq e1 e2 ->
  match edges_get d e1, edges_get d e2 with Some m1, Some m2 => amap_eq m1 m2 | None, None => True | _, _ => False end.
Proof.
  induction 1 as [|[s1 a1] [s2 a2] e1 e2 [H1 H2] _ IH]; cbn [edges_get]; [exact I|]. cbn [fst snd] in *. subst s2.
  destruct (N.compare d s1); [exact H2|exact I|exact IH].
Qed.
Lemma edges_set_eq d m1 m2 e1 e2 : amap_eq m1 m2 -> edges_eq e1 e2 -> edges_eq (edges_set d m1 e1) (edges_set d m2 e2).
Proof.
  intros Hm. induction 1 as [|[s1 a1] [s2 a2] e1 e2 [H1 H2] Hr IH]; cbn [edges_set]; [constructor|]. cbn [fst snd] in *. subst s2.
  destruct (N.eqb d s1); constructor; try assumption; split; cbn [fst snd]; auto.
Qed.
Lemma edges_add_eq d e1 e2 : edges_eq e1 e2 -> fst (edges_add d e1) = fst (edges_add d e2) /\ edges_eq (snd (edges_add d e1)) (snd (edges_add d e2)).
Proof.
  induction 1 as [|[s1 a1] [s2 a2] e1 e2 [H1 H2] Hr IH]; cbn [edges_add].
  - split; [reflexivity|apply edges_eq_refl].
  - cbn [fst snd] in *. subst s2. destruct (N.compare d s1).
    + split; [reflexivity|]. constructor; [split; auto|exact Hr].
    + split; [reflexivity|]. constructor; [split; [reflexivity|apply amap_eq_refl]|]. constructor; [split; auto|exact Hr].
    + destruct (edges_add d e1) as [b1 r1], (edges_add d e2) as [b2 r2]. cbn [fst snd] in *. destruct IH as [Hb Hrr]. split; [exact Hb|].
      constructor; [split; auto|exact Hrr].
Qed.

Lemma geq_nth g1 g2 n : geq g1 g2 ->
  match nth_error g1 n, nth_error g2 n with Some a, Some b => node_eq a b | None, None => True | _, _ => False end.
Proof. intros H. revert n. induction H as [|a b g1 g2 Hab _ IH]; intros [|n]; cbn [nth_error]; auto. apply IH. Qed.
Lemma geq_update g1 g2 n f1 f2 : geq g1 g2 -> (forall a b, node_eq a b -> node_eq (f1 a) (f2 b)) -> geq (list_update n f1 g1) (list_update n f2 g2).
Proof. intros H Hf. revert n. induction H as [|a b g1 g2 Hab Hr IH]; intros [|n]; cbn [list_update]; constructor; auto. apply IH. Qed.
Lemma geq_length g1 g2 : geq g1 g2 -> length g1 = length g2.
Proof. induction 1; cbn; congruence. Qed.

(* the operations respect geq: same success, related results *)
Lemma apply_attr_geq o g1 g2 : geq g1 g2 ->
  match apply_attr o g1, apply_attr o g2 with Some a, Some b => geq a b | None, None => True | _, _ => False end.
Proof.
  intros H. destruct o as [n k v|a b k v]; cbn [apply_attr]; unfold gnode_at, graph_update.
  - pose proof (geq_nth g1 g2 (N.to_nat n) H) as Hn. destruct (nth_error g1 (N.to_nat n)) as [x|], (nth_error g2 (N.to_nat n)) as [y|]; try contradiction; [|exact I].
    destruct Hn as [Ha He]. destruct (attrs_add_eq _ _ k v Ha) as [Hs Hf].
    destruct (attrs_add (g_attrs x) k v) as [m1 c1], (attrs_add (g_attrs y) k v) as [m2 c2]. cbn [fst snd] in *. subst c2.
    destruct c1; [exact I|]. apply geq_update; [exact H|]. intros p q [_ Hpq]. split; [exact Hf|exact Hpq].
  - pose proof (geq_nth g1 g2 (N.to_nat a) H) as Hn. destruct (nth_error g1 (N.to_nat a)) as [x|], (nth_error g2 (N.to_nat a)) as [y|]; try contradiction; [|exact I].
    destruct Hn as [Ha He]. pose proof (edges_get_eq b _ _ He) as Hg.
    destruct (edges_get b (g_edges x)) as [mx|], (edges_get b (g_edges y)) as [my|]; try contradiction; [|exact I].
    destruct (attrs_add_eq _ _ k v Hg) as [Hs Hf].
    destruct (attrs_add mx k v) as [m1 c1], (attrs_add my k v) as [m2 c2]. cbn [fst snd] in *. subst c2.
    destruct c1; [exact I|]. apply geq_update; [exact H|]. intros p q [Hpq _]. split; [exact Hpq|]. cbn [with_edges g_edges]. apply edges_set_eq; assumption.
Qed.
Lemma apply_edge_geq e g1 g2 : geq g1 g2 ->
  match apply_edge e g1, apply_edge e g2 with Some a, Some b => geq a b | None, None => True | _, _ => False end.
Proof.
  intros H. destruct e as [a b]. unfold apply_edge, graph_add_edge, gnode_at, graph_update. cbn [fst snd].
  pose proof (geq_nth g1 g2 (N.to_nat a) H) as Hn. destruct (nth_error g1 (N.to_nat a)) as [x|], (nth_error g2 (N.to_nat a)) as [y|]; try contradiction; [|exact I].
  destruct Hn as [Ha He]. destruct (edges_add_eq b _ _ He) as [Hb Hr].
  destruct (edges_add b (g_edges x)) as [b1 r1], (edges_add b (g_edges y)) as [b2 r2]. cbn [fst snd] in *.
  apply geq_update; [exact H|]. intros p q [Hpq _]. split; [exact Hpq|exact Hr].
Qed.
Lemma apply_attrs_geq ops : forall g1 g2, geq g1 g2 ->
  match apply_attrs ops g1, apply_attrs ops g2 with Some a, Some b => geq a b | None, None => True | _, _ => False end.
Proof.
  induction ops as [|o ops IH]; intros g1 g2 H; cbn [ofold]; [exact H|].
  pose proof (apply_attr_geq o g1 g2 H) as Ho. destruct (apply_attr o g1), (apply_attr o g2); try contradiction; [apply IH, Ho|exact I].
Qed.

(* ---------------- one attribute insertion = a function on one node ---------------- *)
Definition tgt (o : aop) : N := match o with AN n _ _ => n | AE a _ _ _ => a end.
Definition node_op (o : aop) (nd : gnode) : option gnode :=
  match o with
  | AN _ k v => match attrs_add (g_attrs nd) k v with (m', None) => Some (with_attrs m' nd) | (_, Some _) => None end
  | AE _ b k v =>
      match edges_get b (g_edges nd) with
      | None => None
      | Some m => match attrs_add m k v with (m', None) => Some (with_edges (edges_set b m' (g_edges nd)) nd) | (_, Some _) => None end
      end
  end.
Lemma list_update_const {A} n (f : A -> A) l x : nth_error l n = Some x -> list_update n f l = list_update n (fun _ => f x) l.
Proof. revert n. induction l as [|y l IH]; intros [|n]; cbn [nth_error list_update]; try discriminate; [intros [= ->]; reflexivity|]. intros H. f_equal. apply IH, H. Qed.
Lemma apply_attr_node o g :
  apply_attr o g = match nth_error g (N.to_nat (tgt o)) with
                   | None => None
                   | Some nd => match node_op o nd with Some nd' => Some (list_update (N.to_nat (tgt o)) (fun _ => nd') g) | None => None end
                   end.
Proof.
  destruct o as [n k v|a b k v]; cbn [apply_attr tgt node_op]; unfold gnode_at, graph_update.
  - destruct (nth_error g (N.to_nat n)) as [nd|] eqn:E; [|reflexivity]. destruct (attrs_add (g_attrs nd) k v) as [m' [c|]]; [reflexivity|].
    f_equal. apply (list_update_const _ _ _ nd E).
  - destruct (nth_error g (N.to_nat a)) as [nd|] eqn:E; [|reflexivity]. destruct (edges_get b (g_edges nd)) as [m|]; [|reflexivity].
    destruct (attrs_add m k v) as [m' [c|]]; [reflexivity|]. f_equal. apply (list_update_const _ _ _ nd E).
Qed.

Lemma edges_get_set_same b m m' es : edges_get b es = Some m -> edges_get b (edges_set b m' es) = Some m'.
Proof.
  induction es as [|[s a] es IH]; cbn [edges_get edges_set]; [discriminate|]. destruct (N.compare b s) eqn:Ec.
  - apply N.compare_eq in Ec. subst s. rewrite N.eqb_refl. cbn [edges_get]. rewrite N.compare_refl. reflexivity.
  - discriminate.
  - intros H. destruct (N.eqb_spec b s) as [->|_]; [rewrite N.compare_refl in Ec; discriminate|]. cbn [edges_get]. rewrite Ec. apply IH, H.
Qed.
Lemma edges_get_set_other b d m' es : b <> d -> edges_get d (edges_set b m' es) = edges_get d es.
Proof.
  intros Hbd. induction es as [|[s a] es IH]; cbn [edges_get edges_set]; [reflexivity|].
  destruct (N.eqb_spec b s) as [->|Hn]; cbn [edges_get].
  - destruct (N.compare d s) eqn:Ec; try reflexivity. apply N.compare_eq in Ec. congruence.
  - destruct (N.compare d s); [reflexivity|reflexivity|exact IH].
Qed.
Lemma edges_set_set_same b x y es : edges_set b x (edges_set b y es) = edges_set b x es.
Proof. induction es as [|[s a] es IH]; cbn [edges_set]; [reflexivity|]. destruct (N.eqb b s) eqn:E; cbn [edges_set]; rewrite E; [reflexivity|]. f_equal. exact IH. Qed.
Lemma edges_set_set_comm b d x y es : b <> d -> edges_set b x (edges_set d y es) = edges_set d y (edges_set b x es).
Proof.
  intros Hbd. induction es as [|[s a] es IH]; cbn [edges_set]; [reflexivity|].
  destruct (N.eqb_spec d s) as [->|Hd]; destruct (N.eqb_spec b s) as [->|Hb]; cbn [edges_set]; rewrite ?N.eqb_refl.
  - congruence.
  - destruct (N.eqb_spec b s); [congruence|]. reflexivity.
  - destruct (N.eqb_spec d s); [congruence|]. reflexivity.
  - destruct (N.eqb_spec b s); [congruence|]. destruct (N.eqb_spec d s); [congruence|]. f_equal. exact IH.
Qed.

(* two successful insertions on ONE node commute up to node_eq *)
Lemma node_op_swap o1 o2 nd nd1 nd12 : node_op o1 nd = Some nd1 -> node_op o2 nd1 = Some nd12 ->
  exists nd2 nd21, node_op o2 nd = Some nd2 /\ node_op o1 nd2 = Some nd21 /\ node_eq nd12 nd21.
Proof.
  destruct o1 as [n1 k1 v1|a1 b1 k1 v1], o2 as [n2 k2 v2|a2 b2 k2 v2]; cbn [node_op].
  - (* node / node *)
    destruct (attrs_add (g_attrs nd) k1 v1) as [m1 [c|]] eqn:E1; [discriminate|]. intros [= <-]. cbn [with_attrs g_attrs].
    destruct (attrs_add m1 k2 v2) as [m12 [c|]] eqn:E2; [discriminate|]. intros [= <-].
    destruct (attrs_add_swap _ _ _ _ _ _ _ E1 E2) as (m2 & m21 & E3 & E4 & Heq).
    rewrite E3. eexists. eexists. split; [reflexivity|]. cbn [with_attrs g_attrs]. rewrite E4. split; [reflexivity|].
    split; [exact Heq|apply edges_eq_refl].
  - (* node then edge: different fields *)
    destruct (attrs_add (g_attrs nd) k1 v1) as [m1 [c|]] eqn:E1; [discriminate|]. intros [= <-]. cbn [with_attrs g_edges].
    destruct (edges_get b2 (g_edges nd)) as [m|] eqn:Eg; [|discriminate]. destruct (attrs_add m k2 v2) as [m' [c|]] eqn:E2; [discriminate|]. intros [= <-].
    eexists. eexists. split; [reflexivity|]. cbn [with_edges g_attrs]. rewrite E1. split; [reflexivity|]. apply node_eq_refl.
  - (* edge then node *)
    destruct (edges_get b1 (g_edges nd)) as [m|] eqn:Eg; [|discriminate]. destruct (attrs_add m k1 v1) as [m' [c|]] eqn:E1; [discriminate|]. intros [= <-].
    cbn [with_edges g_attrs]. destruct (attrs_add (g_attrs nd) k2 v2) as [m2 [c|]] eqn:E2; [discriminate|]. intros [= <-].
    eexists. eexists. split; [reflexivity|]. cbn [with_attrs g_edges]. rewrite Eg, E1. split; [reflexivity|]. apply node_eq_refl.
  - (* edge / edge *)
    destruct (edges_get b1 (g_edges nd)) as [ma|] eqn:Ega; [|discriminate]. destruct (attrs_add ma k1 v1) as [ma' [c|]] eqn:E1; [discriminate|]. intros [= <-].
    cbn [with_edges g_edges]. destruct (N.eq_dec b1 b2) as [<-|Hb].
    + rewrite (edges_get_set_same _ _ ma' _ Ega). destruct (attrs_add ma' k2 v2) as [m12 [c|]] eqn:E2; [discriminate|]. intros [= <-].
      destruct (attrs_add_swap _ _ _ _ _ _ _ E1 E2) as (m2 & m21 & E3 & E4 & Heq).
      rewrite Ega, E3. eexists. eexists. split; [reflexivity|]. cbn [with_edges g_edges]. rewrite (edges_get_set_same _ _ m2 _ Ega), E4. split; [reflexivity|].
      split; [apply amap_eq_refl|]. cbn [with_edges g_edges]. rewrite !edges_set_set_same. apply edges_set_eq; [exact Heq|apply edges_eq_refl].
    + rewrite (edges_get_set_other _ _ ma' _ Hb). destruct (edges_get b2 (g_edges nd)) as [mb|] eqn:Egb; [|discriminate].
      destruct (attrs_add mb k2 v2) as [mb' [c|]] eqn:E2; [discriminate|]. intros [= <-].
      rewrite ?Egb, ?E2. eexists. eexists. split; [reflexivity|]. cbn [with_edges g_edges]. rewrite (edges_get_set_other b2 b1 mb' _ (fun H => Hb (eq_sym H))), Ega, E1.
      split; [reflexivity|]. split; [apply amap_eq_refl|]. cbn [with_edges g_edges].
      rewrite (edges_set_set_comm b2 b1 mb' ma' _ (fun H => Hb (eq_sym H))). apply edges_eq_refl.
Qed.

(* two successful insertions into one graph commute up to geq *)
Lemma apply_attr_swap o1 o2 g g1 g12 : apply_attr o1 g = Some g1 -> apply_attr o2 g1 = Some g12 ->
  exists g2 g21, apply_attr o2 g = Some g2 /\ apply_attr o1 g2 = Some g21 /\ geq g12 g21.
Proof.
  rewrite !apply_attr_node. set (i1 := N.to_nat (tgt o1)). set (i2 := N.to_nat (tgt o2)).
  destruct (nth_error g i1) as [x1|] eqn:X1; [|discriminate]. destruct (node_op o1 x1) as [x1'|] eqn:O1; [|discriminate]. intros [= <-].
  fold i2. rewrite nth_error_list_update. destruct (Nat.eqb_spec i2 i1) as [Hi|Hi].
  - (* same node *)
    rewrite Hi, X1. cbn [option_map]. destruct (node_op o2 x1') as [x12|] eqn:O2; [|discriminate]. intros [= <-].
    destruct (node_op_swap _ _ _ _ _ O1 O2) as (x2 & x21 & O3 & O4 & Heq).
    rewrite ?Hi, ?X1, O3. eexists. eexists. split; [reflexivity|].
    rewrite (apply_attr_node o1). fold i1. rewrite (nth_error_update_same _ _ _ _ X1), O4. split; [reflexivity|].
    rewrite !list_update_twice. apply geq_update; [apply geq_refl|]. intros a b _. exact Heq.
  - (* different nodes: exact commutation *)
    destruct (nth_error g i2) as [x2|] eqn:X2; [|discriminate]. destruct (node_op o2 x2) as [x2'|] eqn:O2; [|discriminate]. intros [= <-].
    rewrite ?X2, ?O2. eexists. eexists. split; [reflexivity|].
    rewrite (apply_attr_node o1). fold i1. rewrite nth_error_update_other by congruence. rewrite X1, O1. split; [reflexivity|].
    rewrite list_update_comm by congruence. apply geq_refl.
Qed.

(* ---------------- attribute insertions in any order ---------------- *)
Theorem apply_attrs_perm_lemma ops ops' : Permutation ops ops' -> forall g g' g1, geq g g' -> apply_attrs ops g = Some g1 ->
  exists g1', apply_attrs ops' g' = Some g1' /\ geq g1 g1'.
Proof.
  induction 1 as [|x l l' _ IH|x y l|l1 l2 l3 _ IH1 _ IH2]; intros g g' g1 Hg H.
  - cbn [ofold] in *. inversion H; subst. exists g'. auto.
  - cbn [ofold] in *. pose proof (apply_attr_geq x g g' Hg) as Hx. destruct (apply_attr x g) as [gx|]; [|discriminate].
    destruct (apply_attr x g') as [gx'|]; [|contradiction]. apply (IH gx gx' g1 Hx H).
  - cbn [ofold] in H. destruct (apply_attr y g) as [gy|] eqn:Ey; [|discriminate]. destruct (apply_attr x gy) as [gyx|] eqn:Ex; [|discriminate].
    destruct (apply_attr_swap _ _ _ _ _ Ey Ex) as (gx & gxy & Ex' & Ey' & Heq).
    pose proof (apply_attrs_geq l gyx gxy Heq) as Hl. rewrite H in Hl. destruct (apply_attrs l gxy) as [r|] eqn:Er; [|contradiction].
    assert (Hall : apply_attrs (x :: y :: l) g = Some r) by (cbn [ofold]; rewrite Ex', Ey'; exact Er).
    pose proof (apply_attrs_geq (x :: y :: l) g g' Hg) as Hc. rewrite Hall in Hc. destruct (apply_attrs (x :: y :: l) g') as [r'|]; [|contradiction].
    exists r'. split; [reflexivity|]. eapply geq_trans; eauto.
  - destruct (IH1 g g g1 (geq_refl g) H) as (g2 & H2 & Hq2). destruct (IH2 g g' g2 Hg H2) as (g3 & H3 & Hq3).
    exists g3. split; [exact H3|eapply geq_trans; eauto].
Qed.

(* ---------------- edge insertions in any order (sorted edge vectors: exact equality) ---------------- *)
Lemma edges_ext e1 : forall e2, edges_wf e1 -> edges_wf e2 -> (forall k, edges_get k e1 = edges_get k e2) -> e1 = e2.
Proof.
  unfold edges_wf. induction e1 as [|[s1 a1] e1 IH]; intros [|[s2 a2] e2] W1 W2 H.
  - reflexivity.
  - specialize (H s2). cbn [edges_get] in H. rewrite N.compare_refl in H. discriminate.
  - specialize (H s1). cbn [edges_get] in H. rewrite N.compare_refl in H. discriminate.
  - cbn [sinks map fst] in W1, W2. inversion W1 as [|? ? W1' A1]; inversion W2 as [|? ? W2' A2]; subst.
    assert (Hs : s1 = s2).
    { pose proof (H s1) as H1. pose proof (H s2) as H2. cbn [edges_get] in H1, H2. rewrite N.compare_refl in H1, H2.
      destruct (N.compare_spec s1 s2) as [E|L|G]; [exact E|discriminate|]. destruct (N.compare_spec s2 s1); try lia; discriminate. }
    subst s2. pose proof (H s1) as Ha. cbn [edges_get] in Ha. rewrite N.compare_refl in Ha. inversion Ha; subst a2. f_equal.
    apply IH; [exact W1'|exact W2'|]. intros k. specialize (H k). cbn [edges_get] in H.
    destruct (N.compare_spec k s1) as [E|L|G]; [| |exact H].
    + rewrite E. rewrite (edges_get_lt_hd s1 e1 W1' A1), (edges_get_lt_hd s1 e2 W2' A2). reflexivity.
    + rewrite (edges_get_lt_hd k e1 W1'), (edges_get_lt_hd k e2 W2'); [reflexivity| |]; (eapply Forall_impl; [|eassumption]); cbn; intros; lia.
Qed.
Lemma edges_add_comm b d es : edges_wf es -> snd (edges_add d (snd (edges_add b es))) = snd (edges_add b (snd (edges_add d es))).
Proof.
  intros W. pose proof (edges_add_spec b es W) as Sb. pose proof (edges_add_spec d es W) as Sd.
  destruct (edges_add b es) as [nb eb]. destruct (edges_add d es) as [nd ed]. cbn [snd].
  destruct Sb as (Wb & _ & Gb & _). destruct Sd as (Wd & _ & Gd & _).
  pose proof (edges_add_spec d eb Wb) as Sdb. pose proof (edges_add_spec b ed Wd) as Sbd.
  destruct (edges_add d eb) as [n1 e1]. destruct (edges_add b ed) as [n2 e2]. cbn [snd].
  destruct Sdb as (W1 & _ & G1 & _). destruct Sbd as (W2 & _ & G2 & _).
  apply edges_ext; [exact W1|exact W2|]. intros k. rewrite G1, G2. rewrite !Gb, !Gd.
  repeat match goal with |- context [N.eqb ?x ?y] => destruct (N.eqb_spec x y); subst; try congruence end;
  repeat match goal with |- context [edges_get ?x es] => destruct (edges_get x es) end; reflexivity.
Qed.

Definition edges_sorted (g : graph) : Prop := Forall (fun nd => edges_wf (g_edges nd)) g.
Lemma graph_wf_sorted g : graph_wf g -> edges_sorted g.
Proof. apply Forall_impl. intros nd (_ & H & _). exact H. Qed.
Lemma apply_edge_sorted e g g' : edges_sorted g -> apply_edge e g = Some g' -> edges_sorted g'.
Proof.
  destruct e as [a b]. unfold apply_edge, graph_add_edge, gnode_at, graph_update. cbn [fst snd]. intros W.
  destruct (nth_error g (N.to_nat a)) as [nd|] eqn:E; [|discriminate]. destruct (edges_add b (g_edges nd)) as [isnew es] eqn:Ea. intros [= <-].
  apply list_update_Forall; [exact W|]. intros x Hx. cbn [with_edges g_edges].
  (* the updated node is nd itself *)
  unfold edges_sorted in W. rewrite Forall_forall in W. pose proof (W nd (nth_error_In _ _ E)) as Wn.
  pose proof (edges_add_wf b _ Wn) as H. rewrite Ea in H. exact H.
Qed.
Lemma apply_edge_swap e1 e2 g g1 g12 : edges_sorted g -> apply_edge e1 g = Some g1 -> apply_edge e2 g1 = Some g12 ->
  exists g2, apply_edge e2 g = Some g2 /\ apply_edge e1 g2 = Some g12.
Proof.
  destruct e1 as [a b], e2 as [c d]. unfold apply_edge, graph_add_edge, gnode_at, graph_update. cbn [fst snd]. intros W.
  destruct (nth_error g (N.to_nat a)) as [na|] eqn:Ea; [|discriminate]. destruct (edges_add b (g_edges na)) as [nb eb] eqn:Eb. intros [= <-].
  rewrite nth_error_list_update. destruct (Nat.eqb_spec (N.to_nat c) (N.to_nat a)) as [Hca|Hca].
  - rewrite Hca, Ea. cbn [option_map with_edges g_edges]. destruct (edges_add d eb) as [n1 e1] eqn:E1. intros [= <-].
    destruct (edges_add d (g_edges na)) as [nd ed] eqn:Ed. eexists. split; [reflexivity|].
    rewrite (nth_error_update_same _ _ _ _ Ea). cbn [with_edges g_edges]. destruct (edges_add b ed) as [n2 e2] eqn:E2.
    f_equal. rewrite !list_update_twice. apply list_update_ext. intros x. unfold with_edges. cbn [g_attrs g_edges]. f_equal.
    unfold edges_sorted in W. rewrite Forall_forall in W. pose proof (edges_add_comm b d _ (W na (nth_error_In _ _ Ea))) as Hc.
    rewrite Eb, Ed in Hc. cbn [snd] in Hc. rewrite E1, E2 in Hc. cbn [snd] in Hc. symmetry. exact Hc.
  - destruct (nth_error g (N.to_nat c)) as [nc|] eqn:Ec; [|discriminate]. destruct (edges_add d (g_edges nc)) as [nd ed] eqn:Ed. intros [= <-].
    eexists. split; [reflexivity|]. rewrite nth_error_update_other by congruence. rewrite Ea, Eb. f_equal. apply list_update_comm. congruence.
Qed.
Theorem apply_edges_perm_lemma es es' : Permutation es es' -> forall g g1, edges_sorted g -> apply_edges es g = Some g1 -> apply_edges es' g = Some g1.
Proof.
  induction 1 as [|x l l' _ IH|x y l|l1 l2 l3 _ IH1 _ IH2]; intros g g1 W H.
  - exact H.
  - cbn [ofold] in *. destruct (apply_edge x g) as [gx|] eqn:Ex; [|discriminate]. apply IH; [eapply apply_edge_sorted; eauto|exact H].
  - cbn [ofold] in *. destruct (apply_edge y g) as [gy|] eqn:Ey; [|discriminate]. destruct (apply_edge x gy) as [gyx|] eqn:Ex; [|discriminate].
    destruct (apply_edge_swap _ _ _ _ _ W Ey Ex) as (gx & Ex' & Ey'). rewrite Ex', Ey'. exact H.
  - apply IH2; [exact W|]. apply IH1; assumption.
Qed.
Lemma apply_edges_sorted es : forall g g', edges_sorted g -> apply_edges es g = Some g' -> edges_sorted g'.
Proof. induction es as [|e es IH]; intros g g' W; cbn [ofold]; [intros [= <-]; exact W|]. destruct (apply_edge e g) eqn:E; [|discriminate]. apply IH. eapply apply_edge_sorted; eauto. Qed.

(* ---------------- both phases together ---------------- *)
Theorem deferred_ops_any_order_lemma es es' ops ops' g g1 g2 :
  Permutation es es' -> Permutation ops ops' -> edges_sorted g ->
  apply_edges es g = Some g1 -> apply_attrs ops g1 = Some g2 ->
  exists g2', apply_edges es' g = Some g1 /\ apply_attrs ops' g1 = Some g2' /\ geq g2 g2'.
Proof.
  intros Pe Po W He Ho. destruct (apply_attrs_perm_lemma ops ops' Po g1 g1 g2 (geq_refl g1) Ho) as (g2' & Ho' & Hq).
  exists g2'. split; [apply (apply_edges_perm_lemma es es' Pe g g1 W He)|]. auto.
Qed.
(* failure is order-independent too *)
Theorem deferred_attrs_fail_any_order_lemma ops ops' g : Permutation ops ops' -> apply_attrs ops g = None -> apply_attrs ops' g = None.
Proof.
  intros P H. destruct (apply_attrs ops' g) as [r|] eqn:E; [|reflexivity].
  destruct (apply_attrs_perm_lemma ops' ops (Permutation_sym P) g g r (geq_refl g) E) as (r' & H' & _). congruence.
Qed.
