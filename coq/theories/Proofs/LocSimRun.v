(* Proofs/LocSimRun.v — whole lazy runs (config0) of two files related by location erasure and per-block renaming of the
   file capture indices.
   * one-sided (`run_lazy_img`): flF carries, block by block, the `reloc_stanza rho` image of the stanza of fl, and its
     match answers at `rho i` what the match of fl answers at `i`;
   * two-sided (`run_lazy_reloc`): fl and fl' have a common image (`erase_file_locs fl'`): every outcome of one is the
     outcome of the other up to the statement contexts stored in the state; in particular Ok runs return the same graph. *)
From TSG Require Import Model.Lazy Model.LocErase Proofs.LocSim Proofs.LocSimEval Proofs.LocSimExec Proofs.StanzaPerm.

Definition block_img (fl flF : file) (b bF : option stanza * qmatch) : Prop :=
  match fst b, fst bF with
  | Some st, Some stF =>
      exists rho, stF = reloc_stanza rho st /\ f_shorthands flF = map (reloc_shorthand rho) (f_shorthands fl) /\
                  forall i, nodes_for_capture (snd bF) (rho i) = nodes_for_capture (snd b) i
  | None, None => True
  | _, _ => False
  end.

(* outcome of a run of fl vs outcome of the run of its image *)
Definition run_img (r rF : outcome exec_error (lstate * polls)) : Prop :=
  match r, rF with
  | Ok (s, p), Ok (sF, pF) => sF = estate s /\ pF = p
  | Err _, Err _ => True
  | Panic x, Panic x' => x = x'
  | OutOfFuel, OutOfFuel => True
  | _, _ => False
  end.
(* outcomes of two runs with a common image *)
Definition run_same (r r' : outcome exec_error (lstate * polls)) : Prop :=
  match r, r' with
  | Ok (s, p), Ok (s', p') => estate s' = estate s /\ p' = p
  | Err _, Err _ => True
  | Panic x, Panic x' => x = x'
  | OutOfFuel, OutOfFuel => True
  | _, _ => False
  end.
Lemma run_img_join r r' rF : run_img r rF -> run_img r' rF -> run_same r r'.
Proof.
  destruct r as [[s p]|e|x|], r' as [[s' p']|e'|x'|], rF as [[sF pF]|eF|xF|]; cbn [run_img run_same]; try tauto.
  - intros (-> & ->) (E & ->). auto.
  - intros -> ->. reflexivity.
Qed.
Lemma run_same_graph s p s' p' : run_same (Ok (s, p)) (Ok (s', p')) -> l_graph s' = l_graph s /\ p' = p.
Proof. cbn [run_same]. intros (E & ->). split; [|reflexivity]. exact (f_equal l_graph E). Qed.

Lemma check_globals_erase ds g : check_globals (map erase_global_loc ds) g = check_globals ds g.
Proof.
  revert g. induction ds as [|d ds IH]; intros g; cbn [map check_globals]; [reflexivity|].
  replace (check_global (erase_global_loc d) g) with (check_global d g) by (destruct d; reflexivity).
  destruct (check_global d g); cbn [obind]; [apply IH|reflexivity..].
Qed.

Lemma sim_iterM2 {A A'} (f : A -> M lstate unit) (f' : A' -> M lstate unit) l l' :
  Forall2 (fun x y => simeq (f x) (f' y)) l l' -> simeq (iterM f l) (iterM f' l').
Proof.
  induction 1 as [|x y l l' H _ IH]; cbn [iterM]; [apply sim_ret; reflexivity|].
  eapply sim_bind; [exact H|]. intros _ _ _. exact IH.
Qed.

Section Run.
  Context {rx : Type}.
  Variables (t : tree) (regexes : list rx) (find : rx -> str -> option (list (option (N * N))))
            (call : ident -> graph -> list value -> res (value * graph)).

  Lemma sim_blk_step fl flF glob fuel b bF :
    f_inherited flF = f_inherited fl -> block_img fl flF b bF ->
    simeq (blk_step t config0 glob regexes find call fl fuel b) (blk_step t config0 glob regexes find call flF fuel bF).
  Proof.
    intros Hinh. unfold block_img, blk_step. destruct (fst b) as [st|], (fst bF) as [stF|]; try contradiction; [|intros _; apply sim_panic].
    intros (rho & -> & Hsh & Hm). apply (sim_lexec_stanza t fl flF glob regexes find call rho Hinh Hsh). exact Hm.
  Qed.

  Lemma run_lazy_img fl flF supplied budget fuel ms msF g0 :
    f_inherited flF = f_inherited fl -> f_globals flF = map erase_global_loc (f_globals fl) ->
    Forall2 (block_img fl flF) (blocks_of fl ms) (blocks_of flF msF) ->
    run_img (run_lazy t fl config0 supplied budget regexes find call fuel ms g0)
            (run_lazy t flF config0 supplied budget regexes find call fuel msF g0).
  Proof.
    intros Hinh Hg HB. unfold run_lazy. rewrite Hg, check_globals_erase.
    destruct (check_globals (f_globals fl) (globals_nested supplied)) as [glob|e|x|]; cbn [run_img]; auto.
    rewrite !lexec_file_as_blocks.
    match goal with |- run_img (match ?a (linit g0) ?p with _ => _ end) (match ?b _ _ with _ => _ end) => set (m1 := a); set (m2 := b) end.
    assert (S : simeq m1 m2).
    { subst m1 m2. eapply sim_bind.
      - apply sim_iterM2. induction HB as [|b bF l l' H _ IH]; constructor; [apply sim_blk_step; assumption|exact IH].
      - intros _ _ _. apply sim_evaluate_phase. exact Hinh. }
    specialize (S (linit g0) (polls0 budget)). change (estate (linit g0)) with (linit g0) in S. unfold orel in S.
    destruct (m1 (linit g0) (polls0 budget)) as [[[a s1] p1]|e|x|], (m2 (linit g0) (polls0 budget)) as [[[a' s1'] p1']|e'|x'|];
      cbn [run_img]; try contradiction; auto.
    destruct S as (_ & -> & ->). auto.
  Qed.
End Run.

(* the image of a file under erasure alone *)
Lemma blocks_of_erase fl ms :
  blocks_of (erase_file_locs fl) ms = map (fun b : option stanza * qmatch => (option_map erase_stanza_locs (fst b), snd b)) (blocks_of fl ms).
Proof.
  unfold blocks_of. rewrite map_map. apply map_ext. intros [j m]. cbn [fst snd erase_file_locs f_stanzas]. rewrite nth_error_map. reflexivity.
Qed.
Lemma nodes_idN m i : nodes_for_capture m (idN i) = nodes_for_capture m i.
Proof. reflexivity. Qed.
Lemma erase_blocks_img fl ms : Forall2 (block_img fl (erase_file_locs fl)) (blocks_of fl ms) (blocks_of (erase_file_locs fl) ms).
Proof.
  rewrite blocks_of_erase. induction (blocks_of fl ms) as [|[o m] l IH]; cbn [map]; constructor; [|exact IH].
  unfold block_img. cbn [fst snd]. destruct o as [st|]; cbn [option_map]; [|exact I].
  exists idN. split; [reflexivity|]. split; [reflexivity|]. intros i. reflexivity.
Qed.

(* (1) the run of a file and of its location-erased copy, on the same matches *)
Lemma run_lazy_erase {rx} t fl supplied budget (regexes : list rx) find call fuel ms g0 :
  run_img (run_lazy t fl config0 supplied budget regexes find call fuel ms g0)
          (run_lazy t (erase_file_locs fl) config0 supplied budget regexes find call fuel ms g0).
Proof. apply run_lazy_img; [reflexivity|reflexivity|apply erase_blocks_img]. Qed.

(* two files: block k of fl' is, up to locations, the `rho_k`-renamed block k of fl *)
Definition block_rel (fl fl' : file) (b b' : option stanza * qmatch) : Prop :=
  match fst b, fst b' with
  | Some st, Some st' =>
      exists rho, reloc_stanza rho st = erase_stanza_locs st' /\
                  map (reloc_shorthand rho) (f_shorthands fl) = map erase_shorthand_locs (f_shorthands fl') /\
                  forall i, nodes_for_capture (snd b') (rho i) = nodes_for_capture (snd b) i
  | None, None => True
  | _, _ => False
  end.
Definition reloc_rest (fl fl' : file) : Prop :=
  f_inherited fl' = f_inherited fl /\ map erase_global_loc (f_globals fl') = map erase_global_loc (f_globals fl).

Lemma run_lazy_reloc {rx} t fl fl' supplied budget (regexes : list rx) find call fuel ms ms' g0 :
  reloc_rest fl fl' -> Forall2 (block_rel fl fl') (blocks_of fl ms) (blocks_of fl' ms') ->
  run_same (run_lazy t fl config0 supplied budget regexes find call fuel ms g0)
           (run_lazy t fl' config0 supplied budget regexes find call fuel ms' g0).
Proof.
  intros (Hinh & Hg) HB.
  apply (run_img_join _ _ (run_lazy t (erase_file_locs fl') config0 supplied budget regexes find call fuel ms' g0)); [|apply run_lazy_erase].
  apply run_lazy_img; [exact Hinh|exact Hg|]. rewrite blocks_of_erase.
  induction HB as [|[o m] [o' m'] l l' H _ IH]; cbn [map]; constructor; [|exact IH].
  unfold block_rel in H. unfold block_img. cbn [fst snd] in *. destruct o as [st|], o' as [st'|]; cbn [option_map]; try contradiction; [|exact I].
  destruct H as (rho & E & Hsh & Hm). exists rho. split; [symmetry; exact E|]. split; [symmetry; exact Hsh|exact Hm].
Qed.

(* renamed matches answer at rho i what the original answers at i *)
Lemma nodes_rename_match rho m : (forall i j, rho i = rho j -> i = j) -> forall i, nodes_for_capture (rename_match rho m) (rho i) = nodes_for_capture m i.
Proof.
  intros Hinj i. induction m as [|[j ns] m IH]; cbn [rename_match map nodes_for_capture fst snd]; [reflexivity|].
  fold (rename_match rho m). rewrite IH.
  destruct (N.eqb i j) eqn:E.
  - apply N.eqb_eq in E. subst j. rewrite N.eqb_refl. reflexivity.
  - destruct (N.eqb (rho i) (rho j)) eqn:E'; [|reflexivity]. apply N.eqb_eq, Hinj in E'. subst j. rewrite N.eqb_refl in E. discriminate.
Qed.
