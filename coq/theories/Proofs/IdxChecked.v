(* Proofs/IdxChecked.v — the locality predicates of the checker bridge (Model/Locality.v: `file_eok`, `pv_file`) do not look at capture
   indices: they hold of `normalize_file fl` iff they hold of fl.  Hence for a file ACCEPTED BY THE CHECKER the purity / locality demands of the
   fragments on the normalized file follow from `check_file q f = CkOk fl` as they do for the file itself (Props/C02.v, Props/C08.v
   `.._checked_real..`). *)
From TSG Require Import Model.Lazy Model.Checker Model.Locality Model.IdxBridge Proofs.BaseFacts Proofs.Checker Proofs.LocalCheck Proofs.LocalFrag Proofs.LocalFrag2
  Proofs.SL2Whole Proofs.ScPermExec.

Lemma forallb_map_eq {A B} (f : B -> bool) (g : A -> bool) (h : A -> B) l : Forall (fun x => f (h x) = g x) l -> forallb f (map h l) = forallb g l.
Proof. intros H. induction H as [|x l Hx _ IH]; cbn [map forallb]; [reflexivity|]. rewrite Hx, IH. reflexivity. Qed.

Section Norm.
  Variable G : ident -> bool.

  Lemma eager_ok_norm e : forall env, eager_ok G env (norm_expr e) = eager_ok G env e.
  Proof.
    induction e using expr_ind'; intros env; cbn [norm_expr eager_ok]; try reflexivity.
    - apply forallb_map_eq. eapply Forall_impl; [|exact H]. intros x Hx. apply Hx.
    - apply forallb_map_eq. eapply Forall_impl; [|exact H]. intros x Hx. apply Hx.
    - rewrite IHe1, IHe2. reflexivity.
    - rewrite IHe1, IHe2. reflexivity.
    - apply forallb_map_eq. eapply Forall_impl; [|exact H]. intros x Hx. apply Hx.
  Qed.
  Lemma expr_eok_norm e : forall env, expr_eok G env (norm_expr e) = expr_eok G env e.
  Proof.
    induction e using expr_ind'; intros env; cbn [norm_expr expr_eok]; try reflexivity.
    - apply forallb_map_eq. eapply Forall_impl; [|exact H]. intros x Hx. apply Hx.
    - apply forallb_map_eq. eapply Forall_impl; [|exact H]. intros x Hx. apply Hx.
    - rewrite eager_ok_norm, IHe1. reflexivity.
    - rewrite eager_ok_norm, IHe1. reflexivity.
    - apply IHe.
    - apply forallb_map_eq. eapply Forall_impl; [|exact H]. intros x Hx. apply Hx.
  Qed.
  Lemma var_eok_norm env v : var_eok G env (norm_var v) = var_eok G env v.
  Proof. destruct v; cbn [norm_var var_eok]; [reflexivity|apply expr_eok_norm]. Qed.
  Lemma attrs_eok_norm env attrs : forallb (attr_eok G env) (map norm_attr attrs) = forallb (attr_eok G env) attrs.
  Proof. apply forallb_map_eq. apply Forall_forall. intros [n e] _. cbn [norm_attr attr_eok]. apply expr_eok_norm. Qed.
  Lemma bind_var_norm env v b : bind_var env (norm_var v) b = bind_var env v b.
  Proof. destruct v; reflexivity. Qed.
  Lemma stmt_env_norm env s : stmt_env G env (norm_stmt s) = stmt_env G env s.
  Proof. destruct s; cbn [norm_stmt stmt_env]; rewrite ?bind_var_norm, ?eager_ok_norm; reflexivity. Qed.
  Lemma conds_norm (f : expr -> bool) conds : (forall e, f (norm_expr e) = f e) ->
    forallb (fun c => f (cond_expr c)) (map norm_cond conds) = forallb (fun c => f (cond_expr c)) conds.
  Proof. intros H. apply forallb_map_eq. apply Forall_forall. intros [e l|e l|e l] _; cbn [norm_cond cond_expr]; apply H. Qed.

  Lemma seq_eok_norm (ok : Locality.lenv -> stmt -> bool) body : Forall (fun s => forall env, ok env (norm_stmt s) = ok env s) body ->
    forall env, seq_eok ok (stmt_env G) env (map norm_stmt body) = seq_eok ok (stmt_env G) env body.
  Proof. intros H. induction H as [|s l Hs _ IH]; intros env; cbn [map seq_eok]; [reflexivity|]. rewrite Hs, stmt_env_norm, IH. reflexivity. Qed.

  Lemma stmt_eok_norm s : forall env, stmt_eok G env (norm_stmt s) = stmt_eok G env s.
  Proof.
    induction s using stmt_ind'; intros env; cbn [norm_stmt stmt_eok]; rewrite ?expr_eok_norm, ?var_eok_norm, ?attrs_eok_norm, ?eager_ok_norm; try reflexivity.
    - f_equal. apply forallb_map_eq. eapply Forall_impl; [|exact H]. intros [[r body] l'] Hb. cbn [fst snd]. apply seq_eok_norm. exact Hb.
    - apply forallb_map_eq. apply Forall_forall. intros e _. apply expr_eok_norm.
    - apply forallb_map_eq. eapply Forall_impl; [|exact H]. intros [[conds body] l'] Hb. cbn [fst snd].
      rewrite (conds_norm (eager_ok G env)); [|intros e; apply eager_ok_norm]. f_equal. apply seq_eok_norm. exact Hb.
    - f_equal. apply seq_eok_norm. exact H.
  Qed.

  Variable purev : ident -> bool.
  Lemma pv_expr_norm e : pv_expr purev (norm_expr e) = pv_expr purev e.
  Proof.
    induction e using expr_ind'; cbn [norm_expr pv_expr]; try reflexivity.
    - apply forallb_map_eq. exact H.
    - apply forallb_map_eq. exact H.
    - rewrite IHe1, IHe2. reflexivity.
    - rewrite IHe1, IHe2. reflexivity.
    - exact IHe.
    - apply forallb_map_eq. exact H.
  Qed.
  Lemma pv_attrs_norm attrs : forallb (pv_attr purev) (map norm_attr attrs) = forallb (pv_attr purev) attrs.
  Proof. apply forallb_map_eq. apply Forall_forall. intros [n e] _. cbn [norm_attr pv_attr]. apply pv_expr_norm. Qed.
  Lemma pv_stmt_norm s : forall env, pv_stmt purev G env (norm_stmt s) = pv_stmt purev G env s.
  Proof.
    induction s using stmt_ind'; intros env; cbn [norm_stmt pv_stmt]; rewrite ?pv_expr_norm, ?pv_attrs_norm, ?eager_ok_norm; try reflexivity.
    - destruct v; cbn [norm_var]; rewrite ?pv_expr_norm; reflexivity.
    - destruct v; cbn [norm_var]; rewrite ?pv_expr_norm; reflexivity.
    - destruct v; cbn [norm_var]; rewrite ?pv_expr_norm; reflexivity.
    - destruct v; cbn [norm_var]; rewrite ?pv_expr_norm; reflexivity.
    - f_equal. apply forallb_map_eq. eapply Forall_impl; [|exact H]. intros [[r body] l'] Hb. cbn [fst snd]. apply seq_eok_norm. exact Hb.
    - apply forallb_map_eq. apply Forall_forall. intros e _. apply pv_expr_norm.
    - apply forallb_map_eq. eapply Forall_impl; [|exact H]. intros [[conds body] l'] Hb. cbn [fst snd].
      rewrite (conds_norm (pv_expr purev)); [|apply pv_expr_norm]. f_equal. apply seq_eok_norm. exact Hb.
    - f_equal. apply seq_eok_norm. exact H.
  Qed.
End Norm.

Lemma file_eok_norm fl : file_eok (normalize_file fl) = file_eok fl.
Proof.
  unfold file_eok. cbn [normalize_file f_stanzas]. apply forallb_map_eq. apply Forall_forall. intros st _.
  unfold stanza_eok, block_eok. cbn [norm_stanza st_stmts]. change (is_global (normalize_file fl)) with (is_global fl).
  apply seq_eok_norm. apply Forall_forall. intros s _. apply stmt_eok_norm.
Qed.
Lemma pv_file_norm purev fl : pv_file purev (normalize_file fl) = pv_file purev fl.
Proof.
  unfold pv_file. cbn [normalize_file f_globals f_stanzas]. f_equal. apply forallb_map_eq. apply Forall_forall. intros st _.
  cbn [norm_stanza st_stmts]. change (is_global (normalize_file fl)) with (is_global fl).
  apply seq_eok_norm. apply Forall_forall. intros s _. apply pv_stmt_norm.
Qed.

(* for a file accepted by the checker, the locality demands of the fragments hold of its normalization *)
Lemma checked_pm_ok2_real q f fl okfn ms : check_file q f = CkOk fl ->
  Forall (pm_ok2_ns (normalize_file fl) okfn) ms -> Forall (pm_ok2 (normalize_file fl) okfn) ms.
Proof. intros H. apply file_eok_pm_ok2. rewrite file_eok_norm. exact (check_file_eok_with _ _ _ _ H). Qed.
Lemma checked_file_ok2_real q f fl okfn purev ms : check_file q f = CkOk fl -> pv_file purev fl = true ->
  file_ok2_ns okfn purev (normalize_file fl) (f_stanzas (normalize_file fl)) ms -> file_ok2 okfn purev (normalize_file fl) (f_stanzas (normalize_file fl)) ms.
Proof.
  intros H Hp. apply file_eok_file_ok2; [rewrite file_eok_norm; exact (check_file_eok_with _ _ _ _ H)|rewrite pv_file_norm; exact Hp|auto].
Qed.
