(* Proofs/Stdlib.v — the model of the standard library (Model/Stdlib.v) against its documented
   contracts (Spec/StdlibDoc.v). *)
From TSG Require Import Model.Stdlib Spec.StdlibDoc Proofs.BaseFacts.

(* ---- dispatch by name ---- *)
Lemma fn_of_name_name f : fn_of_name (fn_name f) = Some f.
Proof. destruct f; vm_compute; reflexivity. Qed.

Lemma fn_of_name_sound name f : fn_of_name name = Some f -> name = fn_name f.
Proof.
  unfold fn_of_name. intros H. apply find_some in H. destruct H as [_ H]. apply str_eqb_eq in H. exact H.
Qed.

Lemma stdlib_call_fn rx t f g args : stdlib_call rx t (fn_name f) g args = stdlib_fn rx t f g args.
Proof. unfold stdlib_call. rewrite fn_of_name_name. reflexivity. Qed.

Lemma unknown_function_lemma rx t name g args :
  (forall f, name <> fn_name f) -> stdlib_call rx t name g args = Err EUndefinedFunction.
Proof.
  intros H. unfold stdlib_call. destruct (fn_of_name name) as [f|] eqn:E; [|reflexivity].
  apply fn_of_name_sound in E. exfalso. exact (H f E).
Qed.

Lemma agrees_lift rx t f g args :
  agrees (stdlib_pure rx t f g args) (doc_value rx t f g args) ->
  agrees (stdlib_fn rx t f g args) (doc rx t f g args).
Proof.
  unfold stdlib_fn, doc, agrees. destruct (doc_value rx t f g args) as [v|]; cbn [option_map].
  - intros ->. cbn [obind]. destruct f; reflexivity.
  - intros [e ->]. exists e. reflexivity.
Qed.

Ltac is_err := match goal with |- exists _, _ => eexists; reflexivity end.

(* ---- eq ---- *)
Lemma value_eqb_bool x y : value_eqb (VBool x) (VBool y) = Bool.eqb x y.
Proof. destruct x, y; reflexivity. Qed.
Lemma value_eqb_int x y : value_eqb (VInt x) (VInt y) = N.eqb x y.
Proof. unfold value_eqb. cbn [value_cmp]. rewrite N.eqb_compare. reflexivity. Qed.
Lemma value_eqb_syn x y : value_eqb (VSyn x) (VSyn y) = N.eqb x y.
Proof. unfold value_eqb. cbn [value_cmp]. rewrite N.eqb_compare. reflexivity. Qed.
Lemma value_eqb_graph x y : value_eqb (VGraph x) (VGraph y) = N.eqb x y.
Proof. unfold value_eqb. cbn [value_cmp]. rewrite N.eqb_compare. reflexivity. Qed.
Lemma value_eqb_str x y : value_eqb (VStr x) (VStr y) = str_eqb x y.
Proof.
  apply eq_true_iff_eq. rewrite value_eqb_eq, str_eqb_eq. split; [intros [= ->]; reflexivity | intros ->; reflexivity].
Qed.

Lemma eq_values_doc a b :
  eq_values a b = match doc_eq a b with Some r => Ok r | None => Err EFunctionFailed end.
Proof.
  destruct a, b; try reflexivity; unfold doc_eq; cbn [is_null orb andb tag eq_values];
    change (N.eqb ?x ?x) with true; cbn match.
  all: try reflexivity.
  - rewrite value_eqb_bool; reflexivity.
  - rewrite value_eqb_int; reflexivity.
  - rewrite value_eqb_str; reflexivity.
  - rewrite value_eqb_syn; reflexivity.
  - rewrite value_eqb_graph; reflexivity.
Qed.

Lemma eq_pure rx t g args : agrees (stdlib_pure rx t FEq g args) (doc_value rx t FEq g args).
Proof.
  destruct args as [|a [|b [|c r]]]; cbn [stdlib_pure doc_value param finish obind agrees]; try is_err.
  rewrite eq_values_doc. destruct (doc_eq a b) as [r|]; cbn [obind option_map agrees]; [reflexivity | is_err].
Qed.

Lemma is_null_pure rx t g args : agrees (stdlib_pure rx t FIsNull g args) (doc_value rx t FIsNull g args).
Proof.
  destruct args as [|a [|b r]]; cbn [stdlib_pure doc_value param finish obind agrees]; try is_err.
  destruct a; reflexivity.
Qed.

Lemma node_pure rx t g args : agrees (stdlib_pure rx t FNode g args) (doc_value rx t FNode g args).
Proof.
  destruct args as [|a r]; cbn [stdlib_pure doc_value param finish obind agrees]; [reflexivity | is_err].
Qed.

Lemma not_pure rx t g args : agrees (stdlib_pure rx t FNot g args) (doc_value rx t FNot g args).
Proof.
  destruct args as [|a [|b r]]; cbn [stdlib_pure doc_value param finish obind agrees]; try is_err.
  - destruct a; cbn [as_bool obind finish agrees]; try is_err. reflexivity.
  - destruct a; cbn [as_bool obind finish agrees]; is_err.
Qed.

(* ---- the `while let Ok(p) = param()` loops: collect-then-compute ---- *)
Lemma and_loop_spec ps : forall acc,
  and_loop ps acc = match collect get_bool ps with
                    | Some bs => Ok (acc && forallb (fun b => b) bs)
                    | None => Err EExpectedBoolean
                    end.
Proof.
  induction ps as [|v ps IH]; intros acc; cbn [and_loop collect forallb].
  - rewrite andb_true_r. reflexivity.
  - destruct v; cbn [as_bool obind get_bool]; try reflexivity.
    rewrite IH. destruct (collect get_bool ps); cbn [forallb]; [rewrite andb_assoc|]; reflexivity.
Qed.
Lemma or_loop_spec ps : forall acc,
  or_loop ps acc = match collect get_bool ps with
                   | Some bs => Ok (acc || existsb (fun b => b) bs)
                   | None => Err EExpectedBoolean
                   end.
Proof.
  induction ps as [|v ps IH]; intros acc; cbn [or_loop collect existsb].
  - rewrite orb_false_r. reflexivity.
  - destruct v; cbn [as_bool obind get_bool]; try reflexivity.
    rewrite IH. destruct (collect get_bool ps); cbn [existsb]; [rewrite orb_assoc|]; reflexivity.
Qed.
Lemma concat_loop_spec ps : forall acc,
  concat_loop ps acc = match collect get_list ps with
                       | Some ls => Ok (acc ++ concat ls)
                       | None => Err EExpectedList
                       end.
Proof.
  induction ps as [|v ps IH]; intros acc; cbn [concat_loop collect concat].
  - rewrite app_nil_r. reflexivity.
  - destruct v; cbn [as_list obind get_list]; try reflexivity.
    rewrite IH. destruct (collect get_list ps); cbn [concat]; [rewrite app_assoc|]; reflexivity.
Qed.

Lemma and_pure rx t g args : agrees (stdlib_pure rx t FAnd g args) (doc_value rx t FAnd g args).
Proof.
  cbn [stdlib_pure doc_value]. rewrite and_loop_spec.
  destruct (collect get_bool args); cbn [obind option_map agrees andb]; [reflexivity | is_err].
Qed.
Lemma or_pure rx t g args : agrees (stdlib_pure rx t FOr g args) (doc_value rx t FOr g args).
Proof.
  cbn [stdlib_pure doc_value]. rewrite or_loop_spec.
  destruct (collect get_bool args); cbn [obind option_map agrees orb]; [reflexivity | is_err].
Qed.
Lemma concat_pure rx t g args : agrees (stdlib_pure rx t FConcat g args) (doc_value rx t FConcat g args).
Proof.
  cbn [stdlib_pure doc_value]. rewrite concat_loop_spec.
  destruct (collect get_list args); cbn [obind option_map agrees app]; [reflexivity | is_err].
Qed.

(* ---- plus: running checked_add = exact sum bounded by 2^32 ---- *)
Lemma two32_max : two32 = u32_max + 1.
Proof. reflexivity. Qed.

Lemma plus_loop_ints ns : forall acc, acc <= u32_max ->
  plus_loop (map VInt ns) acc =
  if acc + sum ns <=? u32_max then Ok (acc + sum ns) else Err EFunctionFailed.
Proof.
  induction ns as [|n ns IH]; intros acc Hacc; cbn [map plus_loop sum fold_right as_int obind].
  - rewrite N.add_0_r. destruct (N.leb_spec acc u32_max) as [H|H]; [reflexivity | lia].
  - fold (sum ns). destruct (N.leb_spec (acc + n) u32_max) as [H|H].
    + rewrite IH by exact H. rewrite N.add_assoc. reflexivity.
    + destruct (N.leb_spec (acc + (n + sum ns)) u32_max) as [H'|H']; [lia | reflexivity].
Qed.

Lemma collect_ints ps : forall ns, collect get_int ps = Some ns -> ps = map VInt ns.
Proof.
  induction ps as [|v ps IH]; intros ns; cbn [collect].
  - intros [= <-]. reflexivity.
  - destruct v; cbn [get_int]; try discriminate.
    destruct (collect get_int ps) as [r|]; [|discriminate]. intros [= <-]. cbn [map]. rewrite <- (IH r eq_refl). reflexivity.
Qed.
Lemma collect_ints_map ns : collect get_int (map VInt ns) = Some ns.
Proof. induction ns as [|n ns IH]; cbn [map collect get_int]; [reflexivity | rewrite IH; reflexivity]. Qed.

Lemma plus_loop_bad ps : collect get_int ps = None -> forall acc,
  exists e, plus_loop ps acc = Err e /\ (e = EExpectedInteger \/ e = EFunctionFailed).
Proof.
  induction ps as [|v ps IH]; cbn [collect]; [discriminate|]. intros H acc.
  destruct v; cbn [plus_loop as_int obind get_int] in *; try (eexists; split; [reflexivity | left; reflexivity]).
  destruct (acc + n <=? u32_max).
  - apply IH. destruct (collect get_int ps); [discriminate | reflexivity].
  - eexists; split; [reflexivity | right; reflexivity].
Qed.

Lemma plus_pure rx t g args : agrees (stdlib_pure rx t FPlus g args) (doc_value rx t FPlus g args).
Proof.
  cbn [stdlib_pure doc_value]. destruct (collect get_int args) as [ns|] eqn:E.
  - apply collect_ints in E. subst args. rewrite plus_loop_ints by apply N.le_0_l.
    unfold doc_plus. rewrite N.add_0_l.
    destruct (N.leb_spec (sum ns) u32_max) as [H|H], (N.ltb_spec (sum ns) two32) as [H'|H'];
      rewrite two32_max in H'; try lia; cbn [obind option_map agrees]; [reflexivity | is_err].
  - destruct (plus_loop_bad args E 0) as [e [-> _]]. cbn [obind agrees]. is_err.
Qed.

(* plus: result is the exact sum, or an error; never a wrapped value *)
Lemma plus_no_wrap_lemma rx t g args :
  match stdlib_call rx t (fn_name FPlus) g args with
  | Ok (v, g') => exists ns, args = map VInt ns /\ v = VInt (sum ns) /\ sum ns <= u32_max /\ g' = g
  | Err e => (e = EExpectedInteger /\ collect get_int args = None) \/
             (e = EFunctionFailed /\ forall ns, args = map VInt ns -> u32_max < sum ns)
  | _ => False
  end.
Proof.
  rewrite stdlib_call_fn. unfold stdlib_fn. cbn [stdlib_pure].
  destruct (collect get_int args) as [ns|] eqn:E.
  - apply collect_ints in E. subst args. rewrite plus_loop_ints by apply N.le_0_l. rewrite N.add_0_l.
    destruct (N.leb_spec (sum ns) u32_max) as [H|H]; cbn [obind].
    + exists ns. auto.
    + right. split; [reflexivity|]. intros ns' Hm.
      assert (Some ns = Some ns') as [= <-] by (rewrite <- (collect_ints_map ns), Hm; apply collect_ints_map). exact H.
  - destruct (plus_loop_bad args E 0) as [e [-> He]]. cbn [obind].
    destruct He as [-> | ->]; [left; auto|]. right. split; [reflexivity|].
    intros ns ->. rewrite collect_ints_map in E. discriminate.
Qed.

(* ---- format: the char loop = tokenise, then run the tokens ---- *)
Fixpoint run_toks (t : tree) (toks : list tok) (ps : params) : res (str * params) :=
  match toks with
  | [] => Ok ([], ps)
  | Lit c :: r => push [c] (run_toks t r ps)
  | Hole :: r => obind (param ps) (fun '(v, ps') => push (display_value t v) (run_toks t r ps'))
  | Bad :: _ => Err EFunctionFailed
  end.

Lemma format_loop_toks t : forall n fmt, (length fmt <= n)%nat -> forall ps,
  format_loop t fmt ps = run_toks t (tokenise fmt) ps.
Proof.
  induction n as [|n IH]; intros fmt Hn ps.
  - destruct fmt; [reflexivity | cbn in Hn; lia].
  - destruct fmt as [|c r]; [reflexivity|]. cbn [length] in Hn.
    cbn [format_loop tokenise].
    destruct (c =? c_open).
    + destruct r as [|d r']; [reflexivity|]. cbn [length] in Hn.
      destruct (d =? c_open); [cbn [run_toks]; rewrite IH by lia; reflexivity|].
      destruct (d =? c_close); [|reflexivity].
      cbn [run_toks]. destruct ps as [|v ps']; cbn [param obind]; [reflexivity|]. rewrite IH by lia. reflexivity.
    + destruct (c =? c_close).
      * destruct r as [|d r']; [reflexivity|]. cbn [length] in Hn.
        destruct (d =? c_close); [|reflexivity]. cbn [run_toks]. rewrite IH by lia. reflexivity.
      * cbn [run_toks]. rewrite IH by lia. reflexivity.
Qed.

Lemma run_toks_good t toks : existsb is_bad toks = false -> forall ps,
  run_toks t toks ps =
  if (holes toks <=? length ps)%nat then Ok (fill t toks ps, skipn (holes toks) ps) else Err EInvalidParameters.
Proof.
  induction toks as [|k toks IH]; cbn [existsb]; intros Hb ps.
  - reflexivity.
  - destruct k; cbn [is_bad orb] in Hb; [| |discriminate]; cbn [run_toks fill]; unfold holes in *; cbn [filter is_hole length].
    + rewrite IH by exact Hb. destruct (length (filter is_hole toks) <=? length ps)%nat; reflexivity.
    + destruct ps as [|v ps']; cbn [param obind length]; [reflexivity|].
      rewrite IH by exact Hb. cbn [Nat.leb skipn].
      destruct (length (filter is_hole toks) <=? length ps')%nat; reflexivity.
Qed.

Lemma run_toks_bad t toks : existsb is_bad toks = true -> forall ps,
  run_toks t toks ps = Err EFunctionFailed \/ run_toks t toks ps = Err EInvalidParameters.
Proof.
  induction toks as [|k toks IH]; cbn [existsb]; [discriminate|]. intros Hb ps.
  destruct k; cbn [is_bad orb] in Hb; cbn [run_toks].
  - destruct (IH Hb ps) as [-> | ->]; [left | right]; reflexivity.
  - destruct ps as [|v ps']; cbn [param obind]; [right; reflexivity|].
    destruct (IH Hb ps') as [-> | ->]; [left | right]; reflexivity.
  - left; reflexivity.
Qed.

Lemma format_pure_good rx t g fmt rest : existsb is_bad (tokenise fmt) = false ->
  stdlib_pure rx t FFormat g (VStr fmt :: rest) =
  if (holes (tokenise fmt) =? length rest)%nat then Ok (VStr (fill t (tokenise fmt) rest))
  else Err EInvalidParameters.
Proof.
  intros Hb. cbn [stdlib_pure param obind as_str].
  rewrite (format_loop_toks t (length fmt)) by lia. rewrite run_toks_good by exact Hb.
  destruct (Nat.leb_spec (holes (tokenise fmt)) (length rest)) as [H|H],
           (Nat.eqb_spec (holes (tokenise fmt)) (length rest)) as [E|E]; try lia; cbn [obind].
  - rewrite skipn_all2 by lia. reflexivity.
  - destruct (skipn (holes (tokenise fmt)) rest) as [|x l] eqn:Es; [|reflexivity].
    pose proof (skipn_length (holes (tokenise fmt)) rest) as Hl. rewrite Es in Hl. cbn [length] in Hl. lia.
  - reflexivity.
Qed.

Lemma format_pure_bad rx t g fmt rest : existsb is_bad (tokenise fmt) = true ->
  stdlib_pure rx t FFormat g (VStr fmt :: rest) = Err EFunctionFailed \/
  stdlib_pure rx t FFormat g (VStr fmt :: rest) = Err EInvalidParameters.
Proof.
  intros Hb. cbn [stdlib_pure param obind as_str].
  rewrite (format_loop_toks t (length fmt)) by lia.
  destruct (run_toks_bad t _ Hb rest) as [-> | ->]; [left | right]; reflexivity.
Qed.

Lemma format_pure rx t g args : agrees (stdlib_pure rx t FFormat g args) (doc_value rx t FFormat g args).
Proof.
  destruct args as [|v rest]; [cbn; is_err|].
  destruct v; try (cbn [stdlib_pure doc_value param obind as_str agrees]; is_err).
  cbn [doc_value]. unfold doc_format.
  destruct (existsb is_bad (tokenise s)) eqn:Hb.
  - cbn [option_map agrees]. destruct (format_pure_bad rx t g s rest Hb) as [-> | ->]; is_err.
  - rewrite format_pure_good by exact Hb.
    destruct (holes (tokenise s) =? length rest)%nat; cbn [option_map agrees]; [reflexivity | is_err].
Qed.

Lemma lift_ok rx t f g args v : stdlib_pure rx t f g args = Ok v -> f <> FNode ->
  stdlib_fn rx t f g args = Ok (v, g).
Proof. intros H Hf. unfold stdlib_fn. rewrite H. cbn [obind]. destruct f; try reflexivity. congruence. Qed.
Lemma lift_err rx t f g args e : stdlib_pure rx t f g args = Err e -> stdlib_fn rx t f g args = Err e.
Proof. intros H. unfold stdlib_fn. rewrite H. reflexivity. Qed.

Lemma format_spec_lemma rx t g fmt args :
  let call := stdlib_call rx t (fn_name FFormat) g (VStr fmt :: args) in
  let toks := tokenise fmt in
  (existsb is_bad toks = false -> holes toks = length args -> call = Ok (VStr (fill t toks args), g)) /\
  (existsb is_bad toks = false -> holes toks <> length args -> call = Err EInvalidParameters) /\
  (existsb is_bad toks = true -> call = Err EFunctionFailed \/ call = Err EInvalidParameters).
Proof.
  cbv zeta. rewrite stdlib_call_fn. repeat split.
  - intros Hb Hh. apply lift_ok; [|discriminate]. rewrite format_pure_good by exact Hb.
    rewrite Hh, Nat.eqb_refl. reflexivity.
  - intros Hb Hh. apply lift_err. rewrite format_pure_good by exact Hb.
    destruct (Nat.eqb_spec (holes (tokenise fmt)) (length args)); [contradiction | reflexivity].
  - intros Hb. destruct (format_pure_bad rx t g fmt args Hb) as [H|H]; [left | right]; apply lift_err; exact H.
Qed.

(* a format string without braces is copied; "{{" and "}}" give one brace; "{}" is a placeholder *)
Lemma tokenise_plain s : forallb (fun c => negb (c =? c_open) && negb (c =? c_close)) s = true ->
  tokenise s = map Lit s.
Proof.
  induction s as [|c s IH]; cbn [forallb tokenise map]; [reflexivity|].
  intros H. apply andb_true_iff in H. destruct H as [Hc Hs]. apply andb_true_iff in Hc. destruct Hc as [H1 H2].
  destruct (c =? c_open); [discriminate|]. destruct (c =? c_close); [discriminate|]. rewrite IH by exact Hs. reflexivity.
Qed.
Lemma tokenise_open s : tokenise (c_open :: c_open :: s) = Lit c_open :: tokenise s.
Proof. reflexivity. Qed.
Lemma tokenise_close s : tokenise (c_close :: c_close :: s) = Lit c_close :: tokenise s.
Proof. reflexivity. Qed.
Lemma tokenise_hole s : tokenise (c_open :: c_close :: s) = Hole :: tokenise s.
Proof. reflexivity. Qed.

(* ---- replace ---- *)
Lemma replace_pure rx t g args : rx_coherent rx ->
  agrees (stdlib_pure rx t FReplace g args) (doc_value rx t FReplace g args).
Proof.
  intros Hc. cbn [stdlib_pure doc_value].
  destruct args as [|v1 r1]; [cbn; is_err|].
  destruct v1; try (cbn; is_err).
  destruct r1 as [|v2 r2]; [cbn; is_err|].
  destruct v2; try (cbn; is_err).
  cbn [param obind as_str].
  destruct (rx s s0 []) as [probe|] eqn:E0.
  - destruct r2 as [|v3 r3]; [cbn; is_err|].
    destruct v3; try (cbn; is_err).
    destruct r3 as [|v4 r4]; [|cbn; is_err].
    cbn [param obind as_str finish]. destruct (rx s s0 s1); cbn [option_map agrees]; [reflexivity | is_err].
  - destruct r2 as [|v3 r3]; [cbn; is_err|].
    destruct v3; try (destruct r3; cbn; is_err).
    destruct r3 as [|v4 r4]; [|cbn; is_err].
    rewrite (Hc _ _ _ s1 E0). cbn. is_err.
Qed.

(* ---- is-empty, length, join ---- *)
Lemma is_empty_pure rx t g args : agrees (stdlib_pure rx t FIsEmpty g args) (doc_value rx t FIsEmpty g args).
Proof.
  destruct args as [|a [|b r]]; [cbn; is_err | |].
  - destruct a; try (cbn; is_err). destruct l; reflexivity.
  - destruct a; cbn; is_err.
Qed.

Lemma as_u32_small n : n <= u32_max -> as_u32 n = n.
Proof. intros H. unfold as_u32. apply N.mod_small. unfold u32_max in H. lia. Qed.
Lemma fits_le n : fits n = true -> n <= u32_max.
Proof. unfold fits. intros H. apply N.leb_le. exact H. Qed.

Lemma length_pure rx t g args : args_u32 t args = true ->
  agrees (stdlib_pure rx t FLength g args) (doc_value rx t FLength g args).
Proof.
  intros Hu. destruct args as [|a [|b r]]; [cbn; is_err | |].
  - destruct a; try (cbn; is_err).
    cbn [args_u32 forallb arg_u32] in Hu. rewrite andb_true_r in Hu. apply fits_le in Hu.
    cbn [stdlib_pure doc_value param obind as_list finish]. rewrite as_u32_small by exact Hu.
    destruct (N.ltb_spec (N.of_nat (length l)) two32) as [H|H]; [reflexivity|].
    rewrite two32_max in H. lia.
  - destruct a; cbn; is_err.
Qed.

Lemma intercalate_doc sep l : intercalate sep l = doc_join sep l.
Proof.
  destruct l as [|x l]; [reflexivity|]. revert x.
  induction l as [|y l IH]; intros x.
  - cbn. rewrite app_nil_r. reflexivity.
  - change (intercalate sep (x :: y :: l)) with (x ++ sep ++ intercalate sep (y :: l)).
    rewrite IH. cbn [doc_join map concat]. rewrite <- !app_assoc. reflexivity.
Qed.

Lemma join_pure rx t g args : agrees (stdlib_pure rx t FJoin g args) (doc_value rx t FJoin g args).
Proof.
  destruct args as [|a r]; [cbn; is_err|].
  destruct a; try (cbn; is_err).
  destruct r as [|b r].
  - cbn [stdlib_pure doc_value param obind as_list finish agrees]. rewrite intercalate_doc. reflexivity.
  - destruct b; try (cbn; is_err).
    destruct r as [|c r]; [|cbn; is_err].
    cbn [stdlib_pure doc_value param obind as_list as_str finish agrees]. rewrite intercalate_doc. reflexivity.
Qed.

(* ---- syntax functions ---- *)
Lemma syn_pure_generic t args body k :
  args_valid t args = true -> args_u32 t args = true ->
  (forall n x, node_at t n = Some x -> span_ok t x = true -> parent_ok t x = true -> node_u32 t x = true ->
               agrees (body n x) (k n x)) ->
  agrees (with_syntax_node t args body) (on_node t args k).
Proof.
  intros Hv Hu Hb. unfold with_syntax_node, on_node.
  destruct args as [|v r]; [cbn; is_err|].
  destruct v; try (destruct r; cbn; is_err).
  cbn [args_valid forallb syn_valid args_u32 arg_u32] in Hv, Hu.
  cbn [param obind as_syn].
  destruct (node_at t n) as [x|] eqn:En; [|discriminate].
  apply andb_true_iff in Hv. destruct Hv as [Hx _]. apply andb_true_iff in Hx. destruct Hx as [Hs Hp].
  apply andb_true_iff in Hu. destruct Hu as [Hux _].
  destruct r as [|w r]; cbn [finish obind agrees]; [|is_err].
  apply Hb; assumption.
Qed.

Lemma filter_length_le' {A} (f : A -> bool) l : (length (filter f l) <= length l)%nat.
Proof. induction l as [|x l IH]; cbn [filter length]; [lia|]. destruct (f x); cbn [length]; lia. Qed.

Lemma index_of_bound x l : forall k i, index_of x l k = Some i -> k <= i /\ i < k + N.of_nat (length l).
Proof.
  induction l as [|y l IH]; intros k i; cbn [index_of length]; [discriminate|].
  destruct (x =? y).
  - intros [= <-]. lia.
  - intros H. apply IH in H. lia.
Qed.

(* the index that would cause ts_node_named_child to return the node: first position holding it *)
Lemma index_of_spec x l : forall k i, index_of x l k = Some i <->
  (k <= i /\ nth_error l (N.to_nat (i - k)) = Some x /\
   forall j, (j < N.to_nat (i - k))%nat -> nth_error l j <> Some x).
Proof.
  induction l as [|y l IH]; intros k i; cbn [index_of].
  - split; [discriminate|]. intros [_ [H _]]. destruct (N.to_nat (i - k)); discriminate.
  - destruct (N.eqb_spec x y) as [->|Hn].
    + split.
      * intros [= <-]. rewrite N.sub_diag. cbn. repeat split; [lia | intros j Hj; lia].
      * intros [Hk [Hnth Hfirst]]. destruct (N.to_nat (i - k)) as [|m] eqn:Em; [f_equal; lia|].
        exfalso. apply (Hfirst 0%nat); [lia | reflexivity].
    + rewrite IH. split.
      * intros [Hk [Hnth Hfirst]]. replace (N.to_nat (i - k)) with (S (N.to_nat (i - (k + 1)))) by lia.
        repeat split; [lia | exact Hnth |]. intros [|j] Hj; cbn [nth_error]; [congruence | apply Hfirst; lia].
      * intros [Hk [Hnth Hfirst]]. destruct (N.to_nat (i - k)) as [|m] eqn:Em.
        -- cbn [nth_error] in Hnth. congruence.
        -- replace (N.to_nat (i - (k + 1))) with m by lia. repeat split; [lia | exact Hnth |].
           intros j Hj. apply (Hfirst (S j)). lia.
Qed.

Ltac syn_start Hv Hu :=
  cbn [stdlib_pure doc_value]; apply syn_pure_generic; [exact Hv | exact Hu |];
  intros n x En Hs Hp Hx; unfold node_u32 in Hx; repeat rewrite andb_true_iff in Hx;
  destruct Hx as [[[[[Hsr Hsc] Her] Hec] Hnc] Hpc].

Lemma syn_pure rx t f g args :
  match f with
  | FNamedChildIndex | FSourceText | FStartRow | FStartColumn | FEndRow | FEndColumn | FNodeType
  | FNamedChildCount => True
  | _ => False
  end ->
  args_valid t args = true -> args_u32 t args = true ->
  agrees (stdlib_pure rx t f g args) (doc_value rx t f g args).
Proof.
  intros Hf Hv Hu. destruct f; try contradiction; syn_start Hv Hu.
  - (* named-child-index *)
    unfold named_child_index_body. unfold parent_ok in Hp.
    destruct (tn_parent x) as [p|]; [|cbn; is_err].
    destruct (node_at t p) as [px|]; [|discriminate].
    destruct (index_of n (named_children t px) 0) as [i|] eqn:Ei; [|cbn; is_err].
    apply index_of_bound in Ei. apply fits_le in Hpc.
    pose proof (filter_length_le' (is_named t) (tn_children px)) as Hl. fold (named_children t px) in Hl.
    cbn [option_map agrees]. rewrite as_u32_small by lia. reflexivity.
  - (* source-text *)
    unfold source_text_body. unfold span_ok in Hs. destruct (tn_span x) as [a b]. rewrite Hs. reflexivity.
  - cbn [agrees]. rewrite as_u32_small by (apply fits_le; assumption). reflexivity.
  - cbn [agrees]. rewrite as_u32_small by (apply fits_le; assumption). reflexivity.
  - cbn [agrees]. rewrite as_u32_small by (apply fits_le; assumption). reflexivity.
  - cbn [agrees]. rewrite as_u32_small by (apply fits_le; assumption). reflexivity.
  - reflexivity.
  - cbn [agrees]. pose proof (filter_length_le' (is_named t) (tn_children x)) as Hl. fold (named_children t x) in Hl.
    rewrite as_u32_small; [reflexivity|]. apply fits_le in Hnc. lia.
Qed.

(* ---- all 21 functions ---- *)
Lemma stdlib_refines_doc_lemma rx t f g args :
  rx_coherent rx -> args_valid t args = true -> args_u32 t args = true ->
  agrees (stdlib_call rx t (fn_name f) g args) (doc rx t f g args).
Proof.
  intros Hc Hv Hu. rewrite stdlib_call_fn. apply agrees_lift.
  destruct f;
    first [ apply eq_pure | apply is_null_pure | apply node_pure | apply not_pure | apply and_pure | apply or_pure
          | apply plus_pure | apply format_pure | apply concat_pure | apply is_empty_pure | apply join_pure
          | apply replace_pure; exact Hc | apply length_pure; exact Hu
          | apply syn_pure; [exact I | exact Hv | exact Hu] ].
Qed.

(* functions whose contract needs no hypothesis at all *)
Lemma refines_unconditional rx t f g args :
  match f with
  | FEq | FIsNull | FNode | FNot | FAnd | FOr | FPlus | FFormat | FConcat | FIsEmpty | FJoin => True
  | _ => False
  end ->
  agrees (stdlib_call rx t (fn_name f) g args) (doc rx t f g args).
Proof.
  intros Hf. rewrite stdlib_call_fn. apply agrees_lift.
  destruct f; try contradiction;
    first [ apply eq_pure | apply is_null_pure | apply node_pure | apply not_pure | apply and_pure | apply or_pure
          | apply plus_pure | apply format_pure | apply concat_pure | apply is_empty_pure | apply join_pure ].
Qed.

Lemma replace_refines rx t g args : rx_coherent rx ->
  agrees (stdlib_call rx t (fn_name FReplace) g args) (doc rx t FReplace g args).
Proof. intros Hc. rewrite stdlib_call_fn. apply agrees_lift. apply replace_pure. exact Hc. Qed.
Lemma length_refines rx t g args : args_u32 t args = true ->
  agrees (stdlib_call rx t (fn_name FLength) g args) (doc rx t FLength g args).
Proof. intros Hu. rewrite stdlib_call_fn. apply agrees_lift. apply length_pure. exact Hu. Qed.
Lemma syntax_refines rx t f g args :
  match f with
  | FNamedChildIndex | FSourceText | FStartRow | FStartColumn | FEndRow | FEndColumn | FNodeType
  | FNamedChildCount => True
  | _ => False
  end ->
  args_valid t args = true -> args_u32 t args = true ->
  agrees (stdlib_call rx t (fn_name f) g args) (doc rx t f g args).
Proof. intros Hf Hv Hu. rewrite stdlib_call_fn. apply agrees_lift. apply syn_pure; assumption. Qed.

(* the documented contract never accepts a wrong number of arguments *)
Lemma doc_respects_arity rx t f g args : arity_ok f (length args) = false -> doc rx t f g args = None.
Proof.
  intros H. unfold doc. replace (doc_value rx t f g args) with (@None value); [reflexivity|].
  destruct f; destruct args as [|a [|b [|c [|d r]]]]; cbn in H; try discriminate; cbn [doc_value on_node];
    repeat match goal with |- context [match ?v with _ => _ end] => is_var v; destruct v end; reflexivity.
Qed.

(* ---- wrong arity of a fixed-arity function ---- *)
Lemma arity_pure rx t f g args k :
  fixed_arity f = Some k -> length args <> k -> args_valid t args = true ->
  (exists e, stdlib_pure rx t f g args = Err e) /\
  (well_typed f args = true -> pattern_ok rx f args = true -> stdlib_pure rx t f g args = Err EInvalidParameters).
Proof.
  intros Hk Hlen Hv.
  destruct f; cbn in Hk; try discriminate; injection Hk as <-.
  (* the eight syntax functions *)
  3-10: destruct args as [|a [|b r]]; cbn [length] in Hlen; try congruence; [split; [is_err | reflexivity]|];
       cbn [stdlib_pure]; unfold with_syntax_node;
       destruct a; cbn [param obind as_syn]; try (split; [is_err | discriminate]);
       cbn [args_valid forallb syn_valid] in Hv; destruct (node_at t n); [|discriminate];
       cbn [finish obind]; (split; [is_err | reflexivity]).
  (* eq *)
  - destruct args as [|a [|b [|c r]]]; cbn [length] in Hlen; try congruence; (split; [is_err | reflexivity]).
  (* is-null *)
  - destruct args as [|a [|b r]]; cbn [length] in Hlen; try congruence; (split; [is_err | reflexivity]).
  (* node *)
  - destruct args as [|a r]; cbn [length] in Hlen; try congruence. split; [is_err | reflexivity].
  (* not *)
  - destruct args as [|a [|b r]]; cbn [length] in Hlen; try congruence; [split; [is_err | reflexivity]|].
    destruct a; cbn; (split; [is_err | first [reflexivity | discriminate]]).
  (* replace *)
  - cbn [stdlib_pure].
    destruct args as [|v1 r1]; [split; [is_err | reflexivity]|].
    destruct v1; try (cbn; split; [is_err | discriminate]).
    destruct r1 as [|v2 r2]; [split; [is_err | reflexivity]|].
    destruct v2; try (cbn; split; [is_err | discriminate]).
    cbn [param obind as_str pattern_ok].
    destruct (rx s s0 []) as [probe|]; [|split; [is_err | discriminate]].
    destruct r2 as [|v3 r3]; [split; [is_err | reflexivity]|].
    destruct v3; try (cbn; split; [is_err | intros H; repeat rewrite ?andb_false_r in H; discriminate]).
    destruct r3 as [|v4 r4]; [cbn [length] in Hlen; congruence|].
    cbn. split; [is_err | reflexivity].
  (* is-empty *)
  - destruct args as [|a [|b r]]; cbn [length] in Hlen; try congruence; [split; [is_err | reflexivity]|].
    destruct a; cbn; (split; [is_err | first [reflexivity | discriminate]]).
  (* length *)
  - destruct args as [|a [|b r]]; cbn [length] in Hlen; try congruence; [split; [is_err | reflexivity]|].
    destruct a; cbn; (split; [is_err | first [reflexivity | discriminate]]).
Qed.

Lemma arity_errors_lemma rx t f g args k :
  fixed_arity f = Some k -> length args <> k -> args_valid t args = true ->
  (exists e, stdlib_call rx t (fn_name f) g args = Err e) /\
  (well_typed f args = true -> pattern_ok rx f args = true ->
   stdlib_call rx t (fn_name f) g args = Err EInvalidParameters).
Proof.
  intros Hk Hlen Hv. rewrite stdlib_call_fn.
  destruct (arity_pure rx t f g args k Hk Hlen Hv) as [[e He] H2]. split.
  - exists e. apply lift_err. exact He.
  - intros Hw Hp. apply lift_err. apply H2; assumption.
Qed.

(* ---- no panic, and only the expected error variants: a predicate closed under bind ---- *)
Section Tame.
  (* P = False: "never panics"; P = True: only constrains the error variants *)
  Variable P : Prop.
  Definition tame {A} (r : res A) : Prop :=
    match r with Ok _ => True | Err e => stdlib_error e = true | _ => P end.

  Lemma tame_bind {A B} (m : res A) (k : A -> res B) :
    tame m -> (forall a, tame (k a)) -> tame (obind m k).
  Proof. destruct m; cbn; auto. Qed.
  Lemma tame_param ps : tame (param ps).
  Proof. destruct ps; cbn; auto. Qed.
  Lemma tame_finish ps : tame (finish ps).
  Proof. destruct ps; cbn; auto. Qed.
  Lemma tame_as_bool v : tame (as_bool v).
  Proof. destruct v; cbn; auto. Qed.
  Lemma tame_as_int v : tame (as_int v).
  Proof. destruct v; cbn; auto. Qed.
  Lemma tame_as_str v : tame (as_str v).
  Proof. destruct v; cbn; auto. Qed.
  Lemma tame_as_list v : tame (as_list v).
  Proof. destruct v; cbn; auto. Qed.
  Lemma tame_as_syn v : tame (as_syn v).
  Proof. destruct v; cbn; auto. Qed.
  Lemma tame_eq_values a b : tame (eq_values a b).
  Proof. destruct a, b; cbn; auto. Qed.
  Lemma tame_and_loop ps : forall acc, tame (and_loop ps acc).
  Proof. induction ps as [|v ps IH]; intros acc; cbn [and_loop]; [exact I|]. apply tame_bind; [apply tame_as_bool | intros; apply IH]. Qed.
  Lemma tame_or_loop ps : forall acc, tame (or_loop ps acc).
  Proof. induction ps as [|v ps IH]; intros acc; cbn [or_loop]; [exact I|]. apply tame_bind; [apply tame_as_bool | intros; apply IH]. Qed.
  Lemma tame_concat_loop ps : forall acc, tame (concat_loop ps acc).
  Proof. induction ps as [|v ps IH]; intros acc; cbn [concat_loop]; [exact I|]. apply tame_bind; [apply tame_as_list | intros; apply IH]. Qed.
  Lemma tame_plus_loop ps : forall acc, tame (plus_loop ps acc).
  Proof.
    induction ps as [|v ps IH]; intros acc; cbn [plus_loop]; [exact I|].
    apply tame_bind; [apply tame_as_int | intros n]. destruct (acc + n <=? u32_max); [apply IH | reflexivity].
  Qed.
  Lemma tame_push s r : tame r -> tame (push s r).
  Proof. intros H. unfold push. apply tame_bind; [exact H | intros [s' ps]; exact I]. Qed.
  Lemma tame_run_toks t toks : forall ps, tame (run_toks t toks ps).
  Proof.
    induction toks as [|k toks IH]; intros ps; cbn [run_toks]; [exact I|].
    destruct k; [apply tame_push, IH | | reflexivity].
    apply tame_bind; [apply tame_param | intros [v ps']; apply tame_push, IH].
  Qed.
  Lemma tame_format_loop t fmt ps : tame (format_loop t fmt ps).
  Proof. rewrite (format_loop_toks t (length fmt)) by lia. apply tame_run_toks. Qed.

  Lemma tame_with_syntax_node t args body :
    P \/ args_valid t args = true -> (forall n x, node_at t n = Some x -> P \/ syn_valid t (VSyn n) = true -> tame (body n x)) ->
    tame (with_syntax_node t args body).
  Proof.
    intros Hv Hb. unfold with_syntax_node.
    destruct args as [|v r]; [reflexivity|]. cbn [param obind].
    destruct v; try reflexivity. cbn [as_syn obind].
    destruct (node_at t n) as [x|] eqn:En.
    - apply tame_bind; [apply tame_finish | intros _]. apply Hb; [exact En|].
      destruct Hv as [Hp|Hv]; [left; exact Hp | right].
      cbn [args_valid forallb] in Hv. apply andb_true_iff in Hv. apply Hv.
    - cbn [tame]. destruct Hv as [Hp|Hv]; [exact Hp|].
      cbn [args_valid forallb syn_valid] in Hv. rewrite En in Hv. discriminate.
  Qed.

  Lemma tame_pure rx t f g args : P \/ args_valid t args = true -> tame (stdlib_pure rx t f g args).
  Proof.
    intros Hv. destruct f; cbn [stdlib_pure].
    - apply tame_bind; [apply tame_param | intros [a ps1]]. apply tame_bind; [apply tame_param | intros [b ps2]].
      apply tame_bind; [apply tame_finish | intros _]. apply tame_bind; [apply tame_eq_values | intros; exact I].
    - apply tame_bind; [apply tame_param | intros [a ps1]]. apply tame_bind; [apply tame_finish | intros; exact I].
    - (* named-child-index *)
      apply tame_with_syntax_node; [exact Hv|]. intros n x En Hx. unfold named_child_index_body.
      destruct (tn_parent x) as [p|] eqn:Ep; [|reflexivity].
      destruct (node_at t p) as [px|] eqn:Epx.
      + destruct (index_of n (named_children t px) 0); [exact I | reflexivity].
      + cbn [tame]. destruct Hx as [Hp|Hx]; [exact Hp|].
        cbn [syn_valid] in Hx. rewrite En in Hx. unfold parent_ok in Hx. rewrite Ep, Epx in Hx.
        rewrite andb_false_r in Hx. discriminate.
    - (* source-text *)
      apply tame_with_syntax_node; [exact Hv|]. intros n x En Hx. unfold source_text_body.
      destruct (tn_span x) as [a b] eqn:Es.
      destruct ((a <=? b) && (b <=? N.of_nat (length (t_src t)))) eqn:Eb; [exact I|].
      cbn [tame]. destruct Hx as [Hp|Hx]; [exact Hp|].
      cbn [syn_valid] in Hx. rewrite En in Hx. unfold span_ok in Hx. rewrite Es, Eb in Hx. discriminate.
    - apply tame_with_syntax_node; [exact Hv | intros; exact I].
    - apply tame_with_syntax_node; [exact Hv | intros; exact I].
    - apply tame_with_syntax_node; [exact Hv | intros; exact I].
    - apply tame_with_syntax_node; [exact Hv | intros; exact I].
    - apply tame_with_syntax_node; [exact Hv | intros; exact I].
    - apply tame_with_syntax_node; [exact Hv | intros; exact I].
    - apply tame_bind; [apply tame_finish | intros; exact I].
    - apply tame_bind; [apply tame_param | intros [a ps1]]. apply tame_bind; [apply tame_as_bool | intros b].
      apply tame_bind; [apply tame_finish | intros; exact I].
    - apply tame_bind; [apply tame_and_loop | intros; exact I].
    - apply tame_bind; [apply tame_or_loop | intros; exact I].
    - apply tame_bind; [apply tame_plus_loop | intros; exact I].
    - apply tame_bind; [apply tame_param | intros [a ps1]]. apply tame_bind; [apply tame_as_str | intros fmt].
      apply tame_bind; [apply tame_format_loop | intros [s ps2]]. apply tame_bind; [apply tame_finish | intros; exact I].
    - apply tame_bind; [apply tame_param | intros [v1 ps1]]. apply tame_bind; [apply tame_as_str | intros text].
      apply tame_bind; [apply tame_param | intros [v2 ps2]]. apply tame_bind; [apply tame_as_str | intros pat].
      destruct (rx text pat []); [|reflexivity].
      apply tame_bind; [apply tame_param | intros [v3 ps3]]. apply tame_bind; [apply tame_as_str | intros rep].
      apply tame_bind; [apply tame_finish | intros _]. destruct (rx text pat rep); [exact I | reflexivity].
    - apply tame_bind; [apply tame_concat_loop | intros; exact I].
    - apply tame_bind; [apply tame_param | intros [a ps1]]. apply tame_bind; [apply tame_as_list | intros l].
      apply tame_bind; [apply tame_finish | intros; exact I].
    - apply tame_bind; [apply tame_param | intros [a ps1]]. apply tame_bind; [apply tame_as_list | intros l].
      apply tame_bind.
      + destruct ps1 as [|v2 ps2]; [exact I|]. apply tame_bind; [apply tame_as_str | intros; exact I].
      + intros [sep ps2]. apply tame_bind; [apply tame_finish | intros; exact I].
    - apply tame_bind; [apply tame_param | intros [a ps1]]. apply tame_bind; [apply tame_as_list | intros l].
      apply tame_bind; [apply tame_finish | intros; exact I].
  Qed.

  Lemma tame_call rx t name g args : P \/ args_valid t args = true -> tame (stdlib_call rx t name g args).
  Proof.
    intros Hv. unfold stdlib_call. destruct (fn_of_name name) as [f|]; [|reflexivity].
    unfold stdlib_fn. apply tame_bind; [apply tame_pure; exact Hv | intros; exact I].
  Qed.
End Tame.

Lemma no_panic_lemma rx t name g args : args_valid t args = true ->
  match stdlib_call rx t name g args with Ok _ | Err _ => True | Panic _ | OutOfFuel => False end.
Proof.
  intros Hv. pose proof (tame_call False rx t name g args (or_intror Hv)) as H.
  destruct (stdlib_call rx t name g args); cbn [tame] in H; auto.
Qed.
Lemma error_classes_lemma rx t name g args e :
  stdlib_call rx t name g args = Err e -> stdlib_error e = true.
Proof.
  intros He. pose proof (tame_call True rx t name g args (or_introl I)) as H. rewrite He in H. exact H.
Qed.

(* ---- node: a fresh graph node ---- *)
Lemma node_fresh_lemma rx t g :
  stdlib_call rx t (fn_name FNode) g [] = Ok (VGraph (N.of_nat (length g)), g ++ [new_gnode]) /\
  gnode_at g (N.of_nat (length g)) = None /\
  gnode_at (g ++ [new_gnode]) (N.of_nat (length g)) = Some new_gnode /\
  (forall i x, gnode_at g i = Some x -> gnode_at (g ++ [new_gnode]) i = Some x).
Proof.
  rewrite stdlib_call_fn. unfold gnode_at. rewrite Nat2N.id. repeat split.
  - apply nth_error_None. lia.
  - rewrite nth_error_app2 by lia. rewrite Nat.sub_diag. reflexivity.
  - intros i x H. rewrite nth_error_app1; [exact H|]. apply nth_error_Some. congruence.
Qed.

(* ---- eq: typed equality, null comparable to anything ---- *)
Lemma eq_spec_lemma rx t g a b :
  match stdlib_call rx t (fn_name FEq) g [a; b] with
  | Ok (v, g') => g' = g /\ (is_null a = true \/ is_null b = true \/ tag a = tag b) /\
                  ((v = VBool true /\ a = b) \/ (v = VBool false /\ a <> b))
  | Err e => e = EFunctionFailed /\ is_null a = false /\ is_null b = false /\ tag a <> tag b
  | _ => False
  end.
Proof.
  rewrite stdlib_call_fn. unfold stdlib_fn. cbn [stdlib_pure param finish obind].
  rewrite eq_values_doc. unfold doc_eq.
  destruct (is_null a) eqn:Ea; [|destruct (is_null b) eqn:Eb]; cbn [orb andb obind].
  - destruct a; try discriminate. split; [reflexivity|]. split; [left; reflexivity|].
    destruct b; cbn [is_null]; [left; split; reflexivity | right; split; [reflexivity | discriminate] ..].
  - destruct b; try discriminate. split; [reflexivity|]. split; [right; left; reflexivity|].
    right. split; [reflexivity|]. destruct a; discriminate.
  - destruct (N.eqb_spec (tag a) (tag b)) as [Et|Et]; cbn [obind].
    + split; [reflexivity|]. split; [right; right; exact Et|].
      destruct (value_eqb a b) eqn:E; [left | right]; (split; [reflexivity|]);
        [apply value_eqb_eq | apply value_eqb_neq]; exact E.
    + auto.
Qed.

(* ---- named-child-index: the position ts_node_named_child would use ---- *)
Lemma named_child_index_spec_lemma rx t g n x i g' :
  node_at t n = Some x ->
  stdlib_call rx t (fn_name FNamedChildIndex) g [VSyn n] = Ok (VInt i, g') ->
  exists p px j, tn_parent x = Some p /\ node_at t p = Some px /\ i = as_u32 j /\ g' = g /\
    nth_error (named_children t px) (N.to_nat j) = Some n /\
    (forall k, (k < N.to_nat j)%nat -> nth_error (named_children t px) k <> Some n).
Proof.
  intros En. rewrite stdlib_call_fn. unfold stdlib_fn. cbn [stdlib_pure]. unfold with_syntax_node.
  cbn [param obind as_syn]. rewrite En. cbn [finish obind]. unfold named_child_index_body.
  destruct (tn_parent x) as [p|]; [|discriminate].
  destruct (node_at t p) as [px|] eqn:Epx; [|discriminate].
  destruct (index_of n (named_children t px) 0) as [j|] eqn:Ej; [|discriminate].
  cbn [obind]. intros [= <- <-]. exists p, px, j.
  apply index_of_spec in Ej. rewrite N.sub_0_r in Ej. destruct Ej as [_ [Hn Hf]].
  repeat split; auto.
Qed.

(* ---- the decimal printer prints decimal numerals ---- *)
Fixpoint undec_aux (s : str) (a : N) : N :=
  match s with [] => a | d :: s' => undec_aux s' (10 * a + (d - 48)) end.
Definition undec (s : str) : N := undec_aux s 0.
Definition is_digit (d : N) : bool := (48 <=? d) && (d <=? 57).

Lemma dec_go_value fuel : forall n acc a, n < 10 ^ N.of_nat fuel ->
  exists k, undec_aux (dec_go fuel n acc) a = undec_aux acc (a * 10 ^ k + n).
Proof.
  induction fuel as [|fuel IH]; intros n acc a Hn.
  - exists 0. cbn [dec_go]. change (10 ^ N.of_nat 0) with 1 in Hn. f_equal. lia.
  - cbn [dec_go]. destruct (N.ltb_spec n 10) as [Hs|Hs].
    + exists 1. cbn [undec_aux]. rewrite N.mod_small by exact Hs. f_equal. lia.
    + rewrite Nat2N.inj_succ, N.pow_succ_r' in Hn.
      assert (Hd : n / 10 < 10 ^ N.of_nat fuel) by (apply N.div_lt_upper_bound; lia).
      destruct (IH (n / 10) ((48 + n mod 10) :: acc) a Hd) as [k Hk]. exists (k + 1).
      rewrite Hk. cbn [undec_aux]. f_equal. rewrite N.pow_add_r, N.pow_1_r.
      rewrite N.mul_assoc. generalize (a * 10 ^ k). intros Y.
      pose proof (N.div_mod' n 10) as Hdm. clear Hk Hd IH Hn Hs. revert Hdm. generalize (n / 10), (n mod 10). intros q m Hdm. lia.
Qed.

Lemma pos_lt_pow2 p : N.pos p < 2 ^ N.of_nat (Pos.size_nat p).
Proof.
  induction p as [p IH|p IH|]; cbn [Pos.size_nat]; rewrite ?Nat2N.inj_succ, ?N.pow_succ_r'; try lia.
Qed.
Lemma dec_fuel_enough n : n < 10 ^ N.of_nat (S (N.size_nat n)).
Proof.
  rewrite Nat2N.inj_succ, N.pow_succ_r'.
  assert (H : n < 2 ^ N.of_nat (N.size_nat n)).
  { destruct n as [|p]; [reflexivity | apply pos_lt_pow2]. }
  assert (H2 : 2 ^ N.of_nat (N.size_nat n) <= 10 ^ N.of_nat (N.size_nat n)) by (apply N.pow_le_mono_l; lia).
  lia.
Qed.

Lemma dec_roundtrip_lemma n : undec (dec n) = n.
Proof.
  unfold undec, dec. destruct (dec_go_value (S (N.size_nat n)) n [] 0 (dec_fuel_enough n)) as [k Hk].
  rewrite Hk. cbn [undec_aux]. lia.
Qed.

Lemma dec_go_digits fuel : forall n acc, forallb is_digit acc = true -> forallb is_digit (dec_go fuel n acc) = true.
Proof.
  induction fuel as [|fuel IH]; intros n acc Ha; cbn [dec_go]; [exact Ha|].
  assert (Hd : is_digit (48 + n mod 10) = true).
  { unfold is_digit. assert (Hm : n mod 10 < 10) by (apply N.mod_upper_bound; discriminate).
    revert Hm. generalize (n mod 10). intros m Hm. apply andb_true_iff. split; apply N.leb_le; lia. }
  destruct (n <? 10); [|apply IH]; cbn [forallb]; rewrite Hd, Ha; reflexivity.
Qed.
Lemma dec_digits_lemma n : forallb is_digit (dec n) = true.
Proof. apply dec_go_digits. reflexivity. Qed.

(* no leading zero, except for 0 itself *)
Lemma dec_go_head fuel : forall n acc, 0 < n -> n < 10 ^ N.of_nat fuel ->
  exists d r, dec_go fuel n acc = d :: r /\ d <> 48.
Proof.
  induction fuel as [|fuel IH]; intros n acc Hp Hn.
  - change (10 ^ N.of_nat 0) with 1 in Hn. lia.
  - cbn [dec_go]. destruct (N.ltb_spec n 10) as [Hs|Hs].
    + eexists; eexists; split; [reflexivity|]. rewrite N.mod_small by exact Hs. lia.
    + rewrite Nat2N.inj_succ, N.pow_succ_r' in Hn. apply IH.
      * apply N.div_str_pos. lia.
      * apply N.div_lt_upper_bound; lia.
Qed.
Lemma dec_no_leading_zero_lemma n : 0 < n -> exists d r, dec n = d :: r /\ d <> 48.
Proof. intros H. apply dec_go_head; [exact H | apply dec_fuel_enough]. Qed.

(* the hypothesis args_u32 of `length` cannot be dropped: `list.len() as u32` truncates *)
Lemma length_wraps_lemma rx t g l : N.of_nat (length l) = two32 ->
  stdlib_call rx t (fn_name FLength) g [VList l] = Ok (VInt 0, g).
Proof.
  intros H. rewrite stdlib_call_fn. unfold stdlib_fn. cbn [stdlib_pure param obind as_list finish].
  rewrite H. reflexivity.
Qed.

(* ---- example data for the non-vacuity Examples of Props/C13.v ---- *)
Definition ex_tree : tree :=
  {| t_src := [120; 61; 233; 10];                                    (* "x=é\n" *)
     t_nodes :=
       [ {| tn_kind := [109]; tn_named := true; tn_error := false; tn_missing := false; tn_parent := None;
            tn_children := [1; 2; 3]; tn_start := (0, 0); tn_end := (1, 0); tn_span := (0, 4) |};
         {| tn_kind := [105; 100]; tn_named := true; tn_error := false; tn_missing := false; tn_parent := Some 0;
            tn_children := []; tn_start := (0, 0); tn_end := (0, 1); tn_span := (0, 1) |};
         {| tn_kind := [61]; tn_named := false; tn_error := false; tn_missing := false; tn_parent := Some 0;
            tn_children := []; tn_start := (0, 1); tn_end := (0, 2); tn_span := (1, 2) |};
         {| tn_kind := [105; 100]; tn_named := true; tn_error := false; tn_missing := false; tn_parent := Some 0;
            tn_children := []; tn_start := (0, 2); tn_end := (0, 4); tn_span := (2, 3) |} ] |}.
(* an oracle in which exactly the pattern "(" does not compile and every match is replaced *)
Definition ex_rx : regex_oracle := fun text pat rep => if str_eqb pat [40] then None else Some rep.

