(* Proofs/SLFailExample.v — C02, failure direction: concrete programs of the fragment on which strict execution fails and
   lazy execution fails as well (all on the tree and the match of Proofs/SLExample.v):
     fe1  node n  edge n -> "s"                          a type error in a DEFERRED position (the sink of an edge)
     fe2  node n  attr (n) k = 1  attr (n) k = 2         a conflicting attribute (deferred)
     fe3  if (not 3) { node n }                          an EAGER failure (the condition of `if`)
     fe4  let x = (plus "a" 1)  node n                   a failing value that nothing ever reads (forced by evaluate_all)
   and the program that shows why UndefinedEdge is excluded:
     fe5  node a  node b  attr (a -> b) k = 1  edge a -> b     strict: UndefinedEdge; lazy: Ok (edges are evaluated first)
   and the program that shows why "lazy execution returns Err" cannot be concluded in general:
     fe6  attribute a = x => a = x      let y = (plus "a" 1)  node n  attr (n) a = 1
          strict: Err at `let`; lazy: goes on to the recursive shorthand (known finding K2) and runs out of EVERY fuel *)
From TSG Require Import Model.Run Model.Stdlib Proofs.K7 Proofs.MonadFacts Proofs.SLForce Proofs.SLExpr Proofs.SLConv Proofs.StrictLazy Proofs.SLExample
  Proofs.SLFailGraph Proofs.SLFailExpr Proofs.SLFailStmt.
Open Scope N_scope.

Definition fe_file (stmts : list stmt) : file :=
  {| f_globals := []; f_inherited := []; f_shorthands := [];
     f_stanzas := [{| st_stmts := stmts; st_full_stanza_idx := 1; st_full_file_idx := 1; st_start := l0 |}] |}.
Definition fe_node (c : N) : stmt := SNode (VarU [c] l0) [c] l0.

Definition fe1_file : file := fe_file [fe_node 110; SEdge (va 110) (EStr [115]) l0].
Definition fe2_file : file := fe_file [fe_node 110; SAttrNode (va 110) [Attr [107] (EInt 1)] l0; SAttrNode (va 110) [Attr [107] (EInt 2)] l0].
Definition fe3_file : file := fe_file [SIf [([CBool (ECall Lit.not [EInt 3]) l0], [fe_node 110], l0)] l0].
Definition fe4_file : file := fe_file [SLet (VarU [120] l0) (ex_plus (EStr [97]) (EInt 1)) l0; fe_node 110].
Definition fe5_file : file := fe_file [fe_node 97; fe_node 98; SAttrEdge (va 97) (va 98) [Attr [107] (EInt 1)] l0; SEdge (va 97) (va 98) l0].

Definition fe_okfn (f : ident) : Prop := f = Lit.plus \/ f = Lit.not.
Definition fe_call := the_call k7_tree [].

Lemma fe_pure : forall f, fe_okfn f -> pure_fn fe_call f.
Proof. intros f [->| ->]; apply stdlib_pure_fn; vm_compute; discriminate. Qed.
Lemma fe_pure_err : forall f, fe_okfn f -> pure_err_fn fe_call f.
Proof. intros f [->| ->]; apply stdlib_pure_err_fn; vm_compute; discriminate. Qed.
Lemma fe_graph_ext : call_graph_ext fe_call.
Proof. apply stdlib_call_graph_ext. Qed.

Ltac fe_ok := cbn [file_ok fe_file f_stanzas ex_matches]; split; [|exact I]; constructor; [|constructor];
              unfold match_ok, fe_okfn; cbn; repeat split; try reflexivity; try discriminate; auto; repeat constructor.
Lemma fe1_file_ok : file_ok fe_okfn fe1_file (f_stanzas fe1_file) ex_matches. Proof. fe_ok. Qed.
Lemma fe2_file_ok : file_ok fe_okfn fe2_file (f_stanzas fe2_file) ex_matches. Proof. fe_ok. Qed.
Lemma fe3_file_ok : file_ok fe_okfn fe3_file (f_stanzas fe3_file) ex_matches. Proof. fe_ok. Qed.
Lemma fe4_file_ok : file_ok fe_okfn fe4_file (f_stanzas fe4_file) ex_matches. Proof. fe_ok. Qed.
Lemma fe5_file_ok : file_ok fe_okfn fe5_file (f_stanzas fe5_file) ex_matches. Proof. fe_ok. Qed.

Definition fe_strict (f : file) := run_strict k7_tree f config0 [[]] None ([] : list regex) rx_captures fe_call default_fuel ex_matches [].
Definition fe_lazy (f : file) := run_lazy k7_tree f config0 [[]] None ([] : list regex) rx_captures fe_call default_fuel (lmatches_of ex_matches) [].
Definition err_cause {A} (r : outcome exec_error A) : option exec_error := match r with Err e => Some (root_cause e) | _ => None end.

Lemma fe1_strict : err_cause (fe_strict fe1_file) = Some EExpectedGraphNode. Proof. vm_compute. reflexivity. Qed.
Lemma fe1_lazy : err_cause (fe_lazy fe1_file) = Some EExpectedGraphNode. Proof. vm_compute. reflexivity. Qed.
Lemma fe2_strict : err_cause (fe_strict fe2_file) = Some EDuplicateAttribute. Proof. vm_compute. reflexivity. Qed.
Lemma fe2_lazy : err_cause (fe_lazy fe2_file) = Some EDuplicateAttribute. Proof. vm_compute. reflexivity. Qed.
Lemma fe3_strict : err_cause (fe_strict fe3_file) = Some EExpectedBoolean. Proof. vm_compute. reflexivity. Qed.
Lemma fe3_lazy : err_cause (fe_lazy fe3_file) = Some EExpectedBoolean. Proof. vm_compute. reflexivity. Qed.
Lemma fe4_strict : err_cause (fe_strict fe4_file) = Some EExpectedInteger. Proof. vm_compute. reflexivity. Qed.
Lemma fe4_lazy : err_cause (fe_lazy fe4_file) = Some EExpectedInteger. Proof. vm_compute. reflexivity. Qed.
Lemma fe5_strict : err_cause (fe_strict fe5_file) = Some EUndefinedEdge. Proof. vm_compute. reflexivity. Qed.
Lemma fe5_lazy : lgraph_of (fe_lazy fe5_file) = Ok [ {| g_attrs := []; g_edges := [(1, [([107], VInt 1)])] |}; {| g_attrs := []; g_edges := [] |} ].
Proof. vm_compute. reflexivity. Qed.

(* the hypotheses of the no-panic theorem hold of fe1 as well *)
From TSG Require Proofs.NoPanicStrict Proofs.NoPanicLazy.
Lemma fe1_nopanic_hyps :
  NoPanicStrict.WellFormedFile ([] : list regex) fe1_file /\ NoPanicLazy.GoodMatchesLazy (NoPanicStrict.syn_ok k7_tree) fe1_file (lmatches_of ex_matches) /\
  NoPanicStrict.GoodGlobals (NoPanicStrict.syn_ok k7_tree) [] [[]] /\ NoPanicStrict.GoodCall (NoPanicStrict.syn_ok k7_tree) fe_call.
Proof.
  split; [reflexivity|]. split; [|split; [|apply NoPanicStrict.stdlib_good_call]].
  - constructor; [|constructor]. split; [discriminate|]. split; [reflexivity|]. repeat constructor.
  - repeat constructor.
Qed.

(* ---------------- strict fails, lazy diverges ---------------- *)
Definition fe6_file : file :=
  {| f_globals := []; f_inherited := [];
     f_shorthands := [{| sh_name := [97]; sh_var := [120]; sh_vloc := l0; sh_attrs := [Attr [97] (va 120)]; sh_loc := l0 |}];
     f_stanzas := [{| st_stmts := [SLet (VarU [121] l0) (ex_plus (EStr [97]) (EInt 1)) l0; fe_node 110; SAttrNode (va 110) [Attr [97] (EInt 1)] l0];
                      st_full_stanza_idx := 1; st_full_file_idx := 1; st_start := l0 |}] |}.
Definition fe6_glob : globals := [[]; []].
Lemma fe6_attr_diverges : forall f ll v s p, nob p ->
  (v = EInt 1 \/ (v = va 120 /\ exists lv, varmap_get (l_locals s) [120] = Some lv)) ->
  lexec_attr k7_tree fe6_file fe6_glob fe_call f ll (Attr [97] v) s p = OutOfFuel.
Proof.
  induction f as [|f IH]; intros ll v s p Hb Hv; [reflexivity|]. cbn [lexec_attr].
  destruct (poll_nob L_exec_attr s p Hb) as (p' & Ep & Hb'). unfold lpoll. rewrite (bind_ok_eq' _ _ _ _ _ _ _ Ep).
  destruct f as [|f']; [reflexivity|].
  assert (Hl : exists lv, leval k7_tree fe6_file fe6_glob fe_call (S f') ll v s p' = Ok (lv, s, p')).
  { destruct Hv as [->|(-> & lv & Hlv)]; [eexists; reflexivity|]. exists lv. cbn [leval va]. unfold lunscoped_get. cbn [fe6_glob globals_get alist_get]. unfold bind, get_state. rewrite Hlv. reflexivity. }
  destruct Hl as (lv & El). rewrite (bind_ok_eq' _ _ _ _ _ _ _ El).
  replace (find_shorthand [97] (f_shorthands fe6_file)) with (Some {| sh_name := [97]; sh_var := [120]; sh_vloc := l0; sh_attrs := [Attr [97] (va 120)]; sh_loc := l0 |}) by reflexivity.
  cbn [sh_var sh_attrs mapM]. unfold lunscoped_add. cbn [fe6_glob globals_get alist_get].
  cbv [bind get_state set_llocals store_add set_lstore Lazy.upd modify ret l_store l_locals varmap_add alist_get app].
  rewrite IH; [reflexivity|exact Hb'|]. right. split; [reflexivity|]. eexists. cbn [l_locals varmap_get alist_get str_eqb list_eqb]. rewrite N.eqb_refl. reflexivity.
Qed.


Lemma bind_oof_eq {S A B} (m : M S A) (k : A -> M S B) s p : m s p = OutOfFuel -> bind m k s p = OutOfFuel.
Proof. intros H. unfold bind. rewrite H. reflexivity. Qed.

Lemma fe6_stmt_diverges : forall f ll s p, nob p -> (exists lv, varmap_get (l_locals s) [110] = Some lv) ->
  lexec_stmt k7_tree fe6_file config0 fe6_glob ([] : list regex) rx_captures fe_call f ll (SAttrNode (va 110) [Attr [97] (EInt 1)] l0) s p = OutOfFuel.
Proof.
  intros f ll s p Hb (lv & Hlv). destruct f as [|f]; [reflexivity|]. cbn [lexec_stmt].
  destruct (poll_nob L_exec_stmt s p Hb) as (p' & Ep & Hb'). unfold lpoll. rewrite (bind_ok_eq' _ _ _ _ _ _ _ Ep).
  destruct f as [|f']; [reflexivity|].
  assert (El : leval k7_tree fe6_file fe6_glob fe_call (S f') ll (va 110) s p' = Ok (lv, s, p')).
  { cbn [leval va]. unfold lunscoped_get. cbn [fe6_glob globals_get alist_get]. unfold bind, get_state. rewrite Hlv. reflexivity. }
  rewrite (bind_ok_eq' _ _ _ _ _ _ _ El). cbn [mapM]. apply bind_oof_eq. apply bind_oof_eq. apply fe6_attr_diverges; [exact Hb'|left; reflexivity].
Qed.

Ltac step := match goal with |- bind ?m ?k ?s ?p = OutOfFuel =>
  let r := eval vm_compute in (m s p) in
  match r with Ok (?a, ?s1, ?p1) => rewrite (bind_ok_eq' m k s p a s1 p1 ltac:(vm_compute; reflexivity)); cbv beta end end.

Lemma fe6_lazy_diverges : forall lfuel,
  run_lazy k7_tree fe6_file config0 [[]] None ([] : list regex) rx_captures fe_call lfuel (lmatches_of ex_matches) [] = OutOfFuel.
Proof.
  intros lfuel. destruct lfuel as [|[|[|f]]]; [vm_compute; reflexivity|vm_compute; reflexivity|vm_compute; reflexivity|].
  unfold run_lazy. assert (Eg : check_globals (f_globals fe6_file) (globals_nested [[]]) = Ok fe6_glob) by reflexivity. rewrite Eg.
  assert (H : lexec_file k7_tree fe6_file config0 fe6_glob ([] : list regex) rx_captures fe_call (S (S (S f))) (lmatches_of ex_matches) (linit []) (polls0 None) = OutOfFuel);
    [|rewrite H; reflexivity].
  unfold lexec_file. apply bind_oof_eq. cbn [lmatches_of lmatches_from ex_matches map app iterM fst snd]. apply bind_oof_eq.
  change (nth_error (f_stanzas fe6_file) (N.to_nat 0)) with (Some {| st_stmts := [SLet (VarU [121] l0) (ex_plus (EStr [97]) (EInt 1)) l0; fe_node 110; SAttrNode (va 110) [Attr [97] (EInt 1)] l0];
                      st_full_stanza_idx := 1; st_full_file_idx := 1; st_start := l0 |}).
  unfold lexec_stanza. cbn [st_stmts st_full_file_idx st_start]. step. step.
  cbn [nodes_for_capture N.eqb Pos.eqb app iterM]. step. step.
  apply bind_oof_eq. unfold ctx_wrap. rewrite fe6_stmt_diverges; [reflexivity|reflexivity|]. eexists. vm_compute. reflexivity.
Qed.

Lemma fe6_file_ok : file_ok fe_okfn fe6_file (f_stanzas fe6_file) ex_matches.
Proof.
  cbn [file_ok fe6_file f_stanzas ex_matches]. split; [|exact I]. constructor; [|constructor].
  unfold match_ok, fe_okfn. cbn. repeat split; try reflexivity; try discriminate; auto; repeat constructor.
Qed.
Lemma fe6_strict : err_cause (fe_strict fe6_file) = Some EExpectedInteger. Proof. vm_compute. reflexivity. Qed.
