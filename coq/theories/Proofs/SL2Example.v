(* Proofs/SL2Example.v — C02 version 2: a concrete program in the fragment of Proofs/SL2Whole.v in which one stanza
   reads scoped variables that ANOTHER stanza defined on other matches; both interpreters succeed with the same
   six-node graph.  Source "p\nq\nr\n" (the tree of Proofs/K7.v):
       (identifier) @x
       { node @x.n   attr (@x.n) k = 1 }
       (expression_statement (identifier) @y) @s
       { node @s.st   edge @s.st -> @y.n   let p = @y.n   let @s.owner = @y
         attr (@s.st) c = p, o = @s.owner.n
         let q = @y   if some q { attr (q.n) t = #true }   print @y.n }
   `@y.n` is defined by the first stanza (three matches); `@s.owner.n` is a scoped read whose scope is a scoped read;
   `q` is the only variable declared pure (it is used in the condition of `if`). *)
From TSG Require Import Model.Run Model.Stdlib Proofs.BaseFacts Proofs.K7 Proofs.SLExpr Proofs.StrictLazy Proofs.SL2Force Proofs.SL2Expr Proofs.SL2Stmt Proofs.SL2Whole.
Open Scope N_scope.

Definition e0 : loc := (0, 0).
Definition capx : expr := ECapture [120] QOne 0 0 e0.      (* @x / @y : capture 0 *)
Definition caps : expr := ECapture [115] QOne 1 1 e0.      (* @s : capture 1 (the full match) *)
Definition nm_n : ident := [110].
Definition nm_st : ident := [115;116].
Definition nm_owner : ident := [111;119;110;101;114].
Definition ex2_file : file :=
  {| f_globals := []; f_inherited := []; f_shorthands := [];
     f_stanzas := [
       {| st_stmts := [
            SNode (VarS capx nm_n e0) [110] e0;
            SAttrNode (EScoped capx nm_n e0) [Attr [107] (EInt 1)] e0 ];
          st_full_stanza_idx := 1; st_full_file_idx := 1; st_start := e0 |};
       {| st_stmts := [
            SNode (VarS caps nm_st e0) [115;116] e0;
            SEdge (EScoped caps nm_st e0) (EScoped capx nm_n e0) e0;
            SLet (VarU [112] e0) (EScoped capx nm_n e0) e0;
            SLet (VarS caps nm_owner e0) capx e0;
            SAttrNode (EScoped caps nm_st e0)
              [Attr [99] (EUnscoped [112] e0); Attr [111] (EScoped (EScoped caps nm_owner e0) nm_n e0)] e0;
            SLet (VarU [113] e0) capx e0;
            SIf [([CSome (EUnscoped [113] e0) e0], [SAttrNode (EScoped (EUnscoped [113] e0) nm_n e0) [Attr [116] ETrue] e0], e0)] e0;
            SPrint [EScoped capx nm_n e0] e0 ];
          st_full_stanza_idx := 1; st_full_file_idx := 1; st_start := e0 |} ] |}.
Definition ex2_matches : list (list qmatch) :=
  [ [ [(0, [2]); (1, [2])]; [(0, [4]); (1, [4])]; [(0, [6]); (1, [6])] ];
    [ [(0, [2]); (1, [1])]; [(0, [4]); (1, [3])]; [(0, [6]); (1, [5])] ] ].
Definition ex2_okfn (f : ident) : Prop := False.
Definition ex2_purev (x : ident) : bool := str_eqb x [113].

Lemma ex2_pure : forall f, ex2_okfn f -> pure_fn (the_call k7_tree []) f.
Proof. intros f []. Qed.

Lemma ex2_file_ok : file_ok2 ex2_okfn ex2_purev ex2_file (f_stanzas ex2_file) ex2_matches.
Proof.
  cbn [file_ok2 ex2_file f_stanzas ex2_matches]. repeat split; repeat constructor; unfold match_ok2; cbn;
    repeat split; try reflexivity; try discriminate; try (intros; discriminate); constructor.
Qed.

Definition ex2_graph : graph :=
  [ {| g_attrs := [([107], VInt 1); ([116], VBool true)]; g_edges := [] |};
    {| g_attrs := [([107], VInt 1); ([116], VBool true)]; g_edges := [] |};
    {| g_attrs := [([107], VInt 1); ([116], VBool true)]; g_edges := [] |};
    {| g_attrs := [([99], VGraph 0); ([111], VGraph 0)]; g_edges := [(0, [])] |};
    {| g_attrs := [([99], VGraph 1); ([111], VGraph 1)]; g_edges := [(1, [])] |};
    {| g_attrs := [([99], VGraph 2); ([111], VGraph 2)]; g_edges := [(2, [])] |} ].

Lemma ex2_strict_ok :
  graph_of (run_strict k7_tree ex2_file config0 [[]] None ([] : list regex) rx_captures (the_call k7_tree []) default_fuel ex2_matches []) = Ok ex2_graph.
Proof. vm_compute. reflexivity. Qed.
Lemma ex2_lazy_ok :
  lgraph_of (run_lazy k7_tree ex2_file config0 [[]] None ([] : list regex) rx_captures (the_call k7_tree []) default_fuel (lmatches_of ex2_matches) []) = Ok ex2_graph.
Proof. vm_compute. reflexivity. Qed.

(* ---- an inherited name:  inherit .scope
       (module) @m                 { node @m.scope }
       (identifier) @x             { node @x.ref   edge @x.ref -> @x.scope   attr (@x.ref) s = @x.scope }
   `scope` is defined on the root only; the identifiers (grandchildren of the root) read it through inheritance.
   The final strict store defines `scope` on node 0 only, so no definer has a defining proper ancestor. *)
Definition nm_scope : ident := [115;99;111;112;101].
Definition nm_ref : ident := [114;101;102].
Definition ex3_file : file :=
  {| f_globals := []; f_inherited := [nm_scope]; f_shorthands := [];
     f_stanzas := [
       {| st_stmts := [ SNode (VarS capx nm_scope e0) [115] e0 ];
          st_full_stanza_idx := 1; st_full_file_idx := 1; st_start := e0 |};
       {| st_stmts := [
            SNode (VarS capx nm_ref e0) [114] e0;
            SEdge (EScoped capx nm_ref e0) (EScoped capx nm_scope e0) e0;
            SAttrNode (EScoped capx nm_ref e0) [Attr [115] (EScoped capx nm_scope e0)] e0 ];
          st_full_stanza_idx := 1; st_full_file_idx := 1; st_start := e0 |} ] |}.
Definition ex3_matches : list (list qmatch) :=
  [ [ [(0, [0]); (1, [0])] ];
    [ [(0, [2]); (1, [2])]; [(0, [4]); (1, [4])]; [(0, [6]); (1, [6])] ] ].
Definition ex3_purev (x : ident) : bool := false.

Lemma ex3_file_ok : file_ok2 ex2_okfn ex3_purev ex3_file (f_stanzas ex3_file) ex3_matches.
Proof.
  cbn [file_ok2 ex3_file f_stanzas ex3_matches]. repeat split; repeat constructor; unfold match_ok2; cbn;
    repeat split; try reflexivity; try discriminate; try (intros; discriminate); constructor.
Qed.

Definition ex3_graph : graph :=
  [ {| g_attrs := []; g_edges := [] |};
    {| g_attrs := [([115], VGraph 0)]; g_edges := [(0, [])] |};
    {| g_attrs := [([115], VGraph 0)]; g_edges := [(0, [])] |};
    {| g_attrs := [([115], VGraph 0)]; g_edges := [(0, [])] |} ].

Lemma ex3_strict_ok : exists s p,
  run_strict k7_tree ex3_file config0 [[]] None ([] : list regex) rx_captures (the_call k7_tree []) default_fuel ex3_matches [] = Ok (s, p) /\
  inh_antichain k7_tree ex3_file (s_scoped s) /\ s_graph s = ex3_graph.
Proof.
  eexists. eexists. split; [vm_compute; reflexivity|]. split; [|reflexivity].
  intros name n a Hi Ha Hn _. cbn [s_scoped] in Hn. unfold scoped_lookup in Hn. cbn [scopes_get] in Hn.
  destruct (N.eqb_spec n 0) as [->|Hne]; [vm_compute in Ha; destruct Ha|]. cbn [scopes_get] in Hn.
  destruct (N.eqb_spec n 2), (N.eqb_spec n 4), (N.eqb_spec n 6); subst; try (apply Hn; reflexivity).
  all: cbn [alist_get] in Hn; unfold inherited in Hi; cbn [ex3_file f_inherited existsb] in Hi; rewrite Bool.orb_false_r in Hi; apply str_eqb_eq in Hi; subst name; vm_compute in Hn; apply Hn; reflexivity.
Qed.
Lemma ex3_lazy_ok :
  lgraph_of (run_lazy k7_tree ex3_file config0 [[]] None ([] : list regex) rx_captures (the_call k7_tree []) default_fuel (lmatches_of ex3_matches) []) = Ok ex3_graph.
Proof. vm_compute. reflexivity. Qed.

(* ---- why the scope expression of a definition must be DEEPLY pure (condition (c) of the fragment): a variant of K7
   whose cycle goes through local variables; every definition scope is syntactically free of scoped reads (a capture
   or a local variable), strict execution succeeds, lazy execution fails (model only; K7 itself is replayed on the
   implementation):
       node n   let @x.a = @y   let t = @x.a   let t.b = @z   let u = t.b   let u.a = 5   attr (n) r = u.a
   forcing `u.a` forces the thunk of `u`, which forces the cell of `b`, whose scope `t` forces the cell of `a`, whose
   second definition has scope `u`: the thunk of `u` is being forced. *)
Definition k7b_cx := ECapture [120] QOne 0 0 e0.
Definition k7b_file : file := {| f_globals := []; f_inherited := []; f_shorthands := []; f_stanzas := [{| st_stmts := [
  SNode (VarU [110] e0) [110] e0;
  SLet (VarS k7b_cx [97] e0) (ECapture [121] QOne 1 1 e0) e0;
  SLet (VarU [116] e0) (EScoped k7b_cx [97] e0) e0;
  SLet (VarS (EUnscoped [116] e0) [98] e0) (ECapture [122] QOne 2 2 e0) e0;
  SLet (VarU [117] e0) (EScoped (EUnscoped [116] e0) [98] e0) e0;
  SLet (VarS (EUnscoped [117] e0) [97] e0) (EInt 5) e0;
  SAttrNode (EUnscoped [110] e0) [Attr [114] (EScoped (EUnscoped [117] e0) [97] e0)] e0 ];
  st_full_stanza_idx := 4; st_full_file_idx := 4; st_start := e0 |}] |}.
Lemma k7b_strict_ok :
  graph_of (run_strict k7_tree k7b_file config0 [[]] None [] rx_captures (the_call k7_tree []) default_fuel k7_smatches [])
  = Ok [{| g_attrs := [([114], VInt 5)]; g_edges := [] |}].
Proof. vm_compute. reflexivity. Qed.
Lemma k7b_lazy_fails :
  exists e, run_lazy k7_tree k7b_file config0 [[]] None [] rx_captures (the_call k7_tree []) default_fuel k7_lmatches [] = Err e /\
            root_cause e = ERecursivelyDefinedVariable.
Proof. eexists. split; [vm_compute; reflexivity|reflexivity]. Qed.
