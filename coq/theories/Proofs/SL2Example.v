(* Proofs/SL2Example.v — C02 version 2: a concrete program in the fragment of Proofs/SL2Whole.v in which one stanza
   reads scoped variables that ANOTHER stanza defined on other matches; both interpreters succeed with the same
   six-node graph.  Source "p\nq\nr\n" (the tree of Proofs/K7.v):
       (identifier) @x
       { node @x.n   attr (@x.n) k = 1 }
       (expression_statement (identifier) @y) @s
       { node @s.st   edge @s.st -> @y.n   let p = @y.n   let @s.owner = @y
         attr (@s.st) c = p, o = @s.owner.n
         let q = @y   if some q { attr (q.n) t = #true }   print @y.n }
   `@y.n` is defined by the first stanza (three matches); `@s.owner.n` is a scoped read whose scope is a scoped read;
   `q` is the only variable declared pure (it is used in the condition of `if`). *)
From TSG Require Import Model.Run Model.Stdlib Proofs.K7 Proofs.SLExpr Proofs.StrictLazy Proofs.SL2Expr Proofs.SL2Stmt Proofs.SL2Whole.
Open Scope N_scope.

Definition e0 : loc := (0, 0).
Definition capx : expr := ECapture [120] QOne 0 0 e0.      (* @x / @y : capture 0 *)
Definition caps : expr := ECapture [115] QOne 1 1 e0.      (* @s : capture 1 (the full match) *)
Definition nm_n : ident := [110].
Definition nm_st : ident := [115;116].
Definition nm_owner : ident := [111;119;110;101;114].
Definition ex2_file : file :=
  {| f_globals := []; f_inherited := []; f_shorthands := [];
     f_stanzas := [
       {| st_stmts := [
            SNode (VarS capx nm_n e0) [110] e0;
            SAttrNode (EScoped capx nm_n e0) [Attr [107] (EInt 1)] e0 ];
          st_full_stanza_idx := 1; st_full_file_idx := 1; st_start := e0 |};
       {| st_stmts := [
            SNode (VarS caps nm_st e0) [115;116] e0;
            SEdge (EScoped caps nm_st e0) (EScoped capx nm_n e0) e0;
            SLet (VarU [112] e0) (EScoped capx nm_n e0) e0;
            SLet (VarS caps nm_owner e0) capx e0;
            SAttrNode (EScoped caps nm_st e0)
              [Attr [99] (EUnscoped [112] e0); Attr [111] (EScoped (EScoped caps nm_owner e0) nm_n e0)] e0;
            SLet (VarU [113] e0) capx e0;
            SIf [([CSome (EUnscoped [113] e0) e0], [SAttrNode (EScoped (EUnscoped [113] e0) nm_n e0) [Attr [116] ETrue] e0], e0)] e0;
            SPrint [EScoped capx nm_n e0] e0 ];
          st_full_stanza_idx := 1; st_full_file_idx := 1; st_start := e0 |} ] |}.
Definition ex2_matches : list (list qmatch) :=
  [ [ [(0, [2]); (1, [2])]; [(0, [4]); (1, [4])]; [(0, [6]); (1, [6])] ];
    [ [(0, [2]); (1, [1])]; [(0, [4]); (1, [3])]; [(0, [6]); (1, [5])] ] ].
Definition ex2_okfn (f : ident) : Prop := False.
Definition ex2_purev (x : ident) : bool := str_eqb x [113].

Lemma ex2_pure : forall f, ex2_okfn f -> pure_fn (the_call k7_tree []) f.
Proof. intros f []. Qed.

Lemma ex2_file_ok : file_ok2 ex2_okfn ex2_purev ex2_file (f_stanzas ex2_file) ex2_matches.
Proof.
  cbn [file_ok2 ex2_file f_stanzas ex2_matches]. repeat split; repeat constructor; unfold match_ok2; cbn;
    repeat split; try reflexivity; try discriminate; try (intros; discriminate); constructor.
Qed.

Definition ex2_graph : graph :=
  [ {| g_attrs := [([107], VInt 1); ([116], VBool true)]; g_edges := [] |};
    {| g_attrs := [([107], VInt 1); ([116], VBool true)]; g_edges := [] |};
    {| g_attrs := [([107], VInt 1); ([116], VBool true)]; g_edges := [] |};
    {| g_attrs := [([99], VGraph 0); ([111], VGraph 0)]; g_edges := [(0, [])] |};
    {| g_attrs := [([99], VGraph 1); ([111], VGraph 1)]; g_edges := [(1, [])] |};
    {| g_attrs := [([99], VGraph 2); ([111], VGraph 2)]; g_edges := [(2, [])] |} ].

Lemma ex2_strict_ok :
  graph_of (run_strict k7_tree ex2_file config0 [[]] None ([] : list regex) rx_captures (the_call k7_tree []) default_fuel ex2_matches []) = Ok ex2_graph.
Proof. vm_compute. reflexivity. Qed.
Lemma ex2_lazy_ok :
  lgraph_of (run_lazy k7_tree ex2_file config0 [[]] None ([] : list regex) rx_captures (the_call k7_tree []) default_fuel (lmatches_of ex2_matches) []) = Ok ex2_graph.
Proof. vm_compute. reflexivity. Qed.
