(* Proofs/PermFacts.v — C08 building block: forcing the definitions of a scoped variable does not
   depend on the order in which the stanzas contributed them. *)
From TSG Require Import Model.Lazy Proofs.Scoped.
From Coq Require Import Permutation.

Section Perm.
  Variable node_of : lvalue -> N.
  Notation nodes_of ps := (map (fun q : lvalue * lvalue * stmt_ctx => node_of (fst (fst q))) ps).
  Notation pick n := (fun q : lvalue * lvalue * stmt_ctx => if N.eqb n (node_of (fst (fst q))) then Some (snd (fst q)) else None).

  Lemma first_some_unique n ps v :
    NoDup (nodes_of ps) -> In v ps -> node_of (fst (fst v)) = n -> first_some (pick n) ps = Some (snd (fst v)).
  Proof.
    induction ps as [|q ps IH]; intros Hnd Hin Hn; [destruct Hin|]. cbn [first_some map] in *. inversion Hnd as [|? ? Hnot Hnd']; subst.
    destruct Hin as [->|Hin].
    - rewrite N.eqb_refl. reflexivity.
    - destruct (N.eqb_spec (node_of (fst (fst v))) (node_of (fst (fst q)))) as [E|_]; [|apply IH; auto].
      exfalso. apply Hnot. rewrite <- E. apply in_map_iff. exists v. auto.
  Qed.
  Lemma first_some_none n ps : ~ In n (nodes_of ps) -> first_some (pick n) ps = None.
  Proof.
    induction ps as [|q ps IH]; intros H; [reflexivity|]. cbn [first_some map] in *.
    destruct (N.eqb_spec n (node_of (fst (fst q)))) as [->|_]; [exfalso; apply H; left; reflexivity|]. apply IH. intros Hi. apply H. right. exact Hi.
  Qed.

  Lemma first_some_perm n ps ps' : Permutation ps ps' -> NoDup (nodes_of ps) -> first_some (pick n) ps = first_some (pick n) ps'.
  Proof.
    intros Hp Hnd.
    assert (Hnd' : NoDup (nodes_of ps')) by (eapply Permutation_NoDup; [apply Permutation_map, Hp|exact Hnd]).
    destruct (in_dec N.eq_dec n (nodes_of ps)) as [Hin|Hout].
    - apply in_map_iff in Hin as (v & Hv & Hin).
      rewrite (first_some_unique n ps v Hnd Hin Hv). symmetry. apply first_some_unique; auto. eapply Permutation_in; eauto.
    - rewrite (first_some_none n ps Hout). symmetry. apply first_some_none. intros Hi. apply Hout.
      eapply Permutation_in; [apply Permutation_sym, Permutation_map, Hp|exact Hi].
  Qed.

  (* success does not depend on the order, and neither does the value found for any node *)
  Theorem scoped_force_perm_lemma ps ps' : Permutation ps ps' ->
    ((exists m, build node_of ps [] [] = inl m) <-> (exists m', build node_of ps' [] [] = inl m')) /\
    (forall m m' n, build node_of ps [] [] = inl m -> build node_of ps' [] [] = inl m' -> nmap_get m n = nmap_get m' n).
  Proof.
    intros Hp.
    assert (Hk : same_keys [] []) by (intros n; split; reflexivity).
    split.
    - rewrite (build_ok_iff node_of ps [] [] Hk), (build_ok_iff node_of ps' [] [] Hk).
      split; intros [Hnd _]; (split; [|intros; reflexivity]).
      + eapply Permutation_NoDup; [apply Permutation_map, Hp|exact Hnd].
      + eapply Permutation_NoDup; [apply Permutation_sym, Permutation_map, Hp|exact Hnd].
    - intros m m' n H H'.
      assert (Hnd : NoDup (nodes_of ps)).
      { apply (build_ok_iff node_of ps [] [] Hk). eauto. }
      rewrite (build_lookup node_of ps [] [] m n H), (build_lookup node_of ps' [] [] m' n H').
      + cbn [nmap_get]. apply first_some_perm; assumption.
      + intros k Hne. exfalso. apply Hne. reflexivity.
      + intros k Hne. exfalso. apply Hne. reflexivity.
  Qed.
End Perm.
