(* Proofs/SLConv.v — C02 (strict/lazy whole-run simulation), adequacy part 1: SOME lazy fuel suffices.
   `conv f`: the fuel-indexed family of results f converges — from some fuel on it is one fixed Ok result.
   Forcing a lazy value that denotes a value on a well-formed store converges (well-founded: thunk bodies only
   mention earlier store locations); so does the lazy "evaluation" of every expression of the fragment whose
   strict evaluation succeeds.  The invariants of the limit are those of Proofs/SLExpr.v. *)
From TSG Require Import Model.Lazy Proofs.BaseFacts Proofs.Containers Proofs.MonadFacts Proofs.SLGraph Proofs.SLForce Proofs.SLExpr.

Definition conv {R : Type} (f : nat -> outcome exec_error R) : Prop :=
  exists B r, forall lf, (B <= lf)%nat -> f lf = Ok r.

Section ConvFacts.
  Context {S : Type}.
  Lemma conv_const {R} (x : outcome exec_error R) r : x = Ok r -> conv (fun _ => x).
  Proof. intros ->. exists 0%nat, r. auto. Qed.
  Lemma conv_shift {R} (f g : nat -> outcome exec_error R) : (forall lf, f (Datatypes.S lf) = g lf) -> conv g -> conv f.
  Proof.
    intros E (B & r & H). exists (Datatypes.S B), r. intros lf Hlf. destruct lf as [|lf]; [lia|]. rewrite E. apply H. lia.
  Qed.
  Lemma conv_ext {R} (f g : nat -> outcome exec_error R) : (forall lf, f lf = g lf) -> conv g -> conv f.
  Proof. intros E (B & r & H). exists B, r. intros lf Hlf. rewrite E. auto. Qed.
  Lemma conv_reindex {R} (g : nat -> outcome exec_error R) (h : nat -> nat) : (forall lf, (lf <= h lf)%nat) -> conv g -> conv (fun lf => g (h lf)).
  Proof. intros Hh (B & r & H). exists B, r. intros lf Hlf. apply H. specialize (Hh lf). lia. Qed.
  Lemma conv_bind {A B} (m : nat -> M S A) (f : nat -> A -> M S B) s p :
    conv (fun lf => m lf s p) ->
    (forall a s1 p1 B0, (forall lf, (B0 <= lf)%nat -> m lf s p = Ok (a, s1, p1)) -> conv (fun lf => f lf a s1 p1)) ->
    conv (fun lf => bind (m lf) (f lf) s p).
  Proof.
    intros (B1 & [[a s1] p1] & H1) Hf. destruct (Hf a s1 p1 B1 H1) as (B2 & r & H2). exists (Nat.max B1 B2), r.
    intros lf Hlf. unfold bind. rewrite H1 by lia. apply H2. lia.
  Qed.
  Lemma conv_ctx {A} c (m : nat -> M S A) s p : conv (fun lf => m lf s p) -> conv (fun lf => ctx_wrap c (m lf) s p).
  Proof. intros (B & r & H). exists B, r. intros lf Hlf. unfold ctx_wrap. rewrite H by exact Hlf. reflexivity. Qed.
  Lemma bind_ok_eq' {A B} (m : M S A) (f : A -> M S B) s p a s' p' : m s p = Ok (a, s', p') -> bind m f s p = f a s' p'.
  Proof. intros H. unfold bind. rewrite H. reflexivity. Qed.
  Lemma poll_nob l (s : S) p : nob p -> exists p', poll l s p = Ok (tt, s, p') /\ nob p'.
  Proof. intros Hb. unfold poll, poll_step. rewrite Hb. eexists. split; reflexivity. Qed.
End ConvFacts.

(* the limit of a convergent family satisfies whatever holds of every non-failing result *)
Lemma conv_lres {S A} (f : nat -> outcome exec_error (A * S * polls)) Phi B a s p :
  (forall lf, (B <= lf)%nat -> f lf = Ok (a, s, p)) -> (forall lf, lres (f lf) Phi) -> Phi a s p.
Proof. intros H HL. specialize (HL B). rewrite (H B (le_n B)) in HL. exact HL. Qed.

Section Force.
  Variable call : ident -> graph -> list value -> res (value * graph).
  Variables (t : tree) (fl : file).
  Notation den := (den call).
  Notation store_below := (store_below call).
  Notation eval_lv' := (eval_lv t fl call).
  Notation force_thunk' := (force_thunk t fl call).

  (* induction on a denotation, with the induction hypothesis for the elements of lists and arguments *)
  Lemma den_ind2 (rho : list value) (P : lvalue -> value -> Prop) :
    (forall v, P (LValue v) v) ->
    (forall ls vs, Forall2 (fun l v => den rho l v /\ P l v) ls vs -> P (LList ls) (VList vs)) ->
    (forall ls vs, Forall2 (fun l v => den rho l v /\ P l v) ls vs -> P (LSet ls) (VSet (set_of_list vs))) ->
    (forall loc v, nth_error rho (N.to_nat loc) = Some v -> P (LVar loc) v) ->
    (forall f args vs v, Forall2 (fun l v => den rho l v /\ P l v) args vs -> (forall g, call f g vs = Ok (v, g)) -> P (LCall f args) v) ->
    forall lv v, den rho lv v -> P lv v.
  Proof.
    intros H1 H2 H3 H4 H5. fix IH 3. intros lv v H. destruct H as [v|ls vs HF|ls vs HF|loc v Hn|f args vs v HF Hc].
    - apply H1.
    - apply H2. revert ls vs HF. fix IHF 3. intros ls vs HF. destruct HF as [|x y l l' Hxy HF]; constructor; [split; [exact Hxy|apply IH, Hxy]|apply IHF, HF].
    - apply H3. revert ls vs HF. fix IHF 3. intros ls vs HF. destruct HF as [|x y l l' Hxy HF]; constructor; [split; [exact Hxy|apply IH, Hxy]|apply IHF, HF].
    - apply H4, Hn.
    - apply (H5 f args vs v); [|exact Hc]. clear Hc. revert args vs HF. fix IHF 3. intros args vs HF.
      destruct HF as [|x y l l' Hxy HF]; constructor; [split; [exact Hxy|apply IH, Hxy]|apply IHF, HF].
  Qed.

  Lemma ldrain_eq base vs ls pl (args : list lvalue) : l_params ls = base ++ vs -> length args = length vs ->
    ldrain_params (length args) ls pl = Ok (vs, set_params_l base ls, pl).
  Proof.
    intros E El. unfold ldrain_params, bind, get_state. rewrite E, app_length, El.
    destruct (Nat.ltb_spec (length base + length vs) (length vs)) as [Hlt|_]; [exfalso; lia|].
    replace (length base + length vs - length vs)%nat with (length base) by lia.
    rewrite firstn_app, firstn_all, Nat.sub_diag, firstn_O, app_nil_r, skipn_app, skipn_all, Nat.sub_diag, skipn_O. reflexivity.
  Qed.

  Definition fconv (k : nat) (rho : list value) (lv : lvalue) : Prop :=
    forall ls p, store_below k rho (l_store ls) -> nob p -> conv (fun F => eval_lv' F lv ls p).

  (* the limit of forcing satisfies force_post *)
  Lemma force_limit k rho lv v ls p B a s p' : store_below k rho (l_store ls) -> den (firstn k rho) lv v -> nob p ->
    (forall F, (B <= F)%nat -> eval_lv' F lv ls p = Ok (a, s, p')) -> force_post call k rho v ls a s p'.
  Proof.
    intros Hst Hd Hb H. apply (conv_lres (fun F => eval_lv' F lv ls p) _ B _ _ _ H). intros F.
    destruct (force_all call t fl F) as [He _]. apply (He k rho lv v ls p Hst Hd Hb).
  Qed.

  Lemma fconv_mapM k rho : forall es vs, Forall2 (fun l v => den (firstn k rho) l v /\ fconv k rho l) es vs ->
    forall ls p, store_below k rho (l_store ls) -> nob p -> conv (fun F => mapM (eval_lv' F) es ls p).
  Proof.
    intros es vs HF. induction HF as [|e v es vs [Hd Hc] _ IH]; intros ls p Hst Hb; cbn [mapM].
    - eapply conv_const. reflexivity.
    - apply conv_bind; [apply (Hc ls p Hst Hb)|]. intros v' ls1 p1 B0 HB.
      pose proof (force_limit k rho e v ls p B0 _ _ _ Hst Hd Hb HB) as (-> & Hb1 & st1 & -> & Hst1 & _).
      apply conv_bind; [apply (IH (set_store st1 ls) p1 Hst1 Hb1)|]. intros vs' ls2 p2 B1 _. eapply conv_const. reflexivity.
  Qed.
  Lemma mapM_limit k rho es vs ls p B a s p' : Forall2 (den (firstn k rho)) es vs -> store_below k rho (l_store ls) -> nob p ->
    (forall F, (B <= F)%nat -> mapM (eval_lv' F) es ls p = Ok (a, s, p')) -> force_post call k rho vs ls a s p'.
  Proof.
    intros HF Hst Hb H. apply (conv_lres (fun F => mapM (eval_lv' F) es ls p) _ B _ _ _ H). intros F.
    destruct (force_all call t fl F) as [He _]. apply (force_mapM call k rho _ (He k rho) es vs ls p HF Hst Hb).
  Qed.
  Lemma Forall2_fst {A B} (P Q : A -> B -> Prop) l l' : Forall2 (fun a b => P a b /\ Q a b) l l' -> Forall2 P l l'.
  Proof. intros H. induction H as [|a b l l' [H1 _] _ IH]; constructor; assumption. Qed.

  Lemma fconv_push_args k rho : forall es vs, Forall2 (fun l v => den (firstn k rho) l v /\ fconv k rho l) es vs ->
    forall ls p, store_below k rho (l_store ls) -> nob p -> conv (fun F => iterM (fun a => v <- eval_lv' F a ;; lpush_param v) es ls p).
  Proof.
    intros es vs HF. induction HF as [|e v es vs [Hd Hc] _ IH]; intros ls p Hst Hb; cbn [iterM].
    - eapply conv_const. reflexivity.
    - apply conv_bind.
      + apply conv_bind; [apply (Hc ls p Hst Hb)|]. intros v' ls1 p1 B0 _. eapply conv_const. reflexivity.
      + intros u ls2 p2 B0 HB.
        assert (HP : nob p2 /\ exists st', ls2 = set_params_l (l_params ls ++ [v]) (set_store st' ls) /\ store_below k rho st').
        { apply (conv_lres (fun F => (v0 <- eval_lv' F e ;; lpush_param v0) ls p) (fun _ s p' => nob p' /\ exists st', s = set_params_l (l_params ls ++ [v]) (set_store st' ls) /\ store_below k rho st') B0 _ _ _ HB). intros F.
          destruct (force_all call t fl F) as [He _]. apply lres_bind. eapply lres_mono; [apply (He k rho e v ls p Hst Hd Hb)|].
          intros v' ls1 p1 (-> & Hb1 & st1 & -> & Hst1 & _). unfold lpush_param. apply lres_get. unfold set_lparams, Lazy.upd. apply lres_modify.
          split; [exact Hb1|]. exists st1. split; [reflexivity|exact Hst1]. }
        destruct HP as (Hb2 & st' & -> & Hst'). apply (IH (set_params_l (l_params ls ++ [v]) (set_store st' ls)) p2 Hst' Hb2).
  Qed.

  Lemma force_conv rho : forall k lv v, den (firstn k rho) lv v -> fconv k rho lv.
  Proof.
    induction k as [k IHk] using lt_wf_ind. intros lv v Hd. revert lv v Hd. apply den_ind2.
    - (* value *) intros v ls p Hst Hb. eapply conv_shift; [intros F; cbn [eval_lv]; reflexivity|].
      destruct (poll_nob L_eval_value ls p Hb) as (p' & E & _). eapply conv_const. unfold bind, lpoll. rewrite E. reflexivity.
    - (* list *) intros es vs HF ls p Hst Hb. eapply conv_shift; [intros F; cbn [eval_lv]; reflexivity|].
      destruct (poll_nob L_eval_value ls p Hb) as (p' & E & Hb'). unfold bind at 1, lpoll. rewrite E.
      apply conv_bind; [apply (fconv_mapM k rho es vs HF ls p' Hst Hb')|]. intros vs' ls1 p1 B0 _. eapply conv_const. reflexivity.
    - (* set *) intros es vs HF ls p Hst Hb. eapply conv_shift; [intros F; cbn [eval_lv]; reflexivity|].
      destruct (poll_nob L_eval_value ls p Hb) as (p' & E & Hb'). unfold bind at 1, lpoll. rewrite E.
      apply conv_bind; [apply (fconv_mapM k rho es vs HF ls p' Hst Hb')|]. intros vs' ls1 p1 B0 _. eapply conv_const. reflexivity.
    - (* variable: force the thunk; an unforced body lives below loc *)
      intros loc v Hn ls p Hst Hb. apply nth_error_firstn_lt in Hn. destruct Hn as [Hlt Hn].
      eapply conv_shift; [intros F; cbn [eval_lv]; reflexivity|].
      destruct (poll_nob L_eval_value ls p Hb) as (p' & E & Hb'). unfold bind at 1, lpoll. rewrite E.
      eapply conv_shift; [intros F; cbn [force_thunk]; reflexivity|]. unfold bind at 1, get_state.
      destruct Hst as [Hlen Hok].
      destruct (nth_error (l_store ls) (N.to_nat loc)) as [th|] eqn:Eth.
      2:{ exfalso. apply nth_error_None in Eth. assert (N.to_nat loc < length rho)%nat by (apply nth_error_Some; congruence). lia. }
      apply conv_ctx. destruct (Hok _ _ Hlt Eth) as (v0 & Hv0 & Hs). assert (v0 = v) by congruence. subst v0.
      destruct (th_state th) as [inner| |v'] eqn:Es; [| contradiction |].
      + set (st1 := list_update (N.to_nat loc) (fun th0 => {| th_state := TForcing; th_dbg := th_dbg th0 |}) (l_store ls)).
        assert (Hst1 : store_below (N.to_nat loc) rho st1).
        { split; [unfold st1; rewrite list_update_length; exact Hlen|]. intros i th0 Hi Hni. unfold st1 in Hni.
          rewrite nth_error_update_other in Hni by lia. apply (Hok i th0); [lia|exact Hni]. }
        unfold bind at 1. unfold store_set_state at 1. unfold bind at 1, get_state, set_lstore, Lazy.upd, modify.
        apply conv_bind; [apply (IHk (N.to_nat loc) Hlt inner v Hs (set_store st1 ls) p' Hst1 Hb')|].
        intros v' ls2 p2 B0 _. eapply conv_const. reflexivity.
      + eapply conv_const. reflexivity.
    - (* call *) intros f args vs v HF Hc ls p Hst Hb. eapply conv_shift; [intros F; cbn [eval_lv]; reflexivity|].
      destruct (poll_nob L_eval_value ls p Hb) as (p' & E & Hb'). unfold bind at 1, lpoll. rewrite E.
      apply conv_bind; [apply (fconv_push_args k rho args vs HF ls p' Hst Hb')|]. intros u ls1 p1 B0 HB.
      pose proof (Forall2_fst _ _ _ _ HF) as HF'.
      assert (HP : nob p1 /\ exists st', ls1 = set_params_l (l_params ls ++ vs) (set_store st' ls) /\ store_below k rho st' /\
                                                                   (forall i, (k <= i)%nat -> nth_error st' i = nth_error (l_store ls) i)).
      { apply (conv_lres (fun F => iterM (fun a => v0 <- eval_lv' F a ;; lpush_param v0) args ls p')
                 (fun _ s p'' => nob p'' /\ exists st', s = set_params_l (l_params ls ++ vs) (set_store st' ls) /\ store_below k rho st' /\
                                   (forall i, (k <= i)%nat -> nth_error st' i = nth_error (l_store ls) i)) B0 _ _ _ HB). intros F.
        destruct (force_all call t fl F) as [He _]. apply (force_push_args call k rho _ (He k rho) args vs ls p' HF' Hst Hb'). }
      destruct HP as (Hb1 & st' & -> & _).
      eapply conv_const. unfold bind at 1.
      rewrite (ldrain_eq (l_params ls) vs (set_params_l (l_params ls ++ vs) (set_store st' ls)) p1 args eq_refl (Forall2_len _ _ _ HF')).
      unfold lcall_function, bind, get_state. cbn [l_graph set_params_l set_store]. rewrite (Hc (l_graph ls)). reflexivity.
  Qed.

  (* forcing one thunk converges *)
  Lemma thunk_conv rho k loc v ls p : store_below k rho (l_store ls) -> (N.to_nat loc < k)%nat -> nth_error rho (N.to_nat loc) = Some v -> nob p ->
    conv (fun F => force_thunk' F loc ls p).
  Proof.
    intros Hst Hlt Hn Hb.
    eapply conv_shift; [intros F; cbn [force_thunk]; reflexivity|]. unfold bind at 1, get_state.
    destruct Hst as [Hlen Hok].
    destruct (nth_error (l_store ls) (N.to_nat loc)) as [th|] eqn:Eth.
    2:{ exfalso. apply nth_error_None in Eth. assert (N.to_nat loc < length rho)%nat by (apply nth_error_Some; congruence). lia. }
    apply conv_ctx. destruct (Hok _ _ Hlt Eth) as (v0 & Hv0 & Hs). assert (v0 = v) by congruence. subst v0.
    destruct (th_state th) as [inner| |v'] eqn:Es; [| contradiction |].
    + set (st1 := list_update (N.to_nat loc) (fun th0 => {| th_state := TForcing; th_dbg := th_dbg th0 |}) (l_store ls)).
      assert (Hst1 : store_below (N.to_nat loc) rho st1).
      { split; [unfold st1; rewrite list_update_length; exact Hlen|]. intros i th0 Hi Hni. unfold st1 in Hni.
        rewrite nth_error_update_other in Hni by lia. apply (Hok i th0); [lia|exact Hni]. }
      unfold bind at 1. unfold store_set_state at 1. unfold bind at 1, get_state, set_lstore, Lazy.upd, modify.
      apply conv_bind; [apply (force_conv rho (N.to_nat loc) inner v Hs (set_store st1 ls) p Hst1 Hb)|].
      intros v' ls2 p2 B0 _. eapply conv_const. reflexivity.
    + eapply conv_const. reflexivity.
  Qed.

  Lemma force_full_conv F0 rho lv v ls p : store_wf call rho (l_store ls) -> den rho lv v -> nob p ->
    exists B st' p', (forall lf, (B <= lf)%nat -> eval_lv' (lf + F0) lv ls p = Ok (v, set_store st' ls, p')) /\ nob p' /\ store_wf call rho st'.
  Proof.
    intros Hst Hd Hb. pose proof (proj1 Hst) as Hlen. pose proof Hd as Hd'. rewrite <- (firstn_len_eq rho _ Hlen) in Hd'.
    destruct (force_conv rho _ lv v Hd' ls p Hst Hb) as (B & [[v' ls'] p'] & H).
    assert (HP : full_post call rho v ls v' ls' p').
    { apply (conv_lres (fun F => eval_lv' F lv ls p) _ B _ _ _ H). intros F. apply (force_full call t fl F rho lv v ls p Hst Hd Hb). }
    destruct HP as (-> & Hb' & st' & -> & Hst'). exists B, st', p'. split; [|split; assumption].
    intros lf Hlf. apply H. lia.
  Qed.
End Force.

(* ---------------- convergence with a postcondition: the calculus parallel to `lres` ---------------- *)
Definition convP {S A} (f : nat -> outcome exec_error (A * S * polls)) (Phi : A -> S -> polls -> Prop) : Prop :=
  exists Bd a s p, (forall lf, (Bd <= lf)%nat -> f lf = Ok (a, s, p)) /\ Phi a s p.

Section ConvP.
  Context {S : Type}.
  Lemma convP_mono {A} (f : nat -> outcome exec_error (A * S * polls)) (Phi Psi : A -> S -> polls -> Prop) :
    convP f Phi -> (forall a s p, Phi a s p -> Psi a s p) -> convP f Psi.
  Proof. intros (Bd & a & s & p & H & HP) Himp. exists Bd, a, s, p. auto. Qed.
  Lemma convP_bind {A B} (m : nat -> M S A) (f : nat -> A -> M S B) s p Phi :
    convP (fun lf => m lf s p) (fun a s1 p1 => convP (fun lf => f lf a s1 p1) Phi) -> convP (fun lf => bind (m lf) (f lf) s p) Phi.
  Proof.
    intros (B1 & a & s1 & p1 & H1 & (B2 & b & s2 & p2 & H2 & HP)). exists (Nat.max B1 B2), b, s2, p2. split; [|exact HP].
    intros lf Hlf. unfold bind. rewrite H1 by lia. apply H2. lia.
  Qed.
  Lemma convP_const {A} (x : outcome exec_error (A * S * polls)) a s p (Phi : A -> S -> polls -> Prop) :
    x = Ok (a, s, p) -> Phi a s p -> convP (fun _ => x) Phi.
  Proof. intros -> HP. exists 0%nat, a, s, p. auto. Qed.
  Lemma convP_ret {A} (a : A) s p (Phi : A -> S -> polls -> Prop) : Phi a s p -> convP (fun _ : nat => ret a s p) Phi.
  Proof. intros HP. eapply convP_const; [reflexivity|exact HP]. Qed.
  Lemma convP_ctx {A} c (m : nat -> M S A) s p Phi : convP (fun lf => m lf s p) Phi -> convP (fun lf => ctx_wrap c (m lf) s p) Phi.
  Proof. intros (Bd & a & s1 & p1 & H & HP). exists Bd, a, s1, p1. split; [|exact HP]. intros lf Hlf. unfold ctx_wrap. rewrite H by exact Hlf. reflexivity. Qed.
  Lemma convP_poll l s p (Phi : unit -> S -> polls -> Prop) : nob p -> (forall p', nob p' -> Phi tt s p') -> convP (fun _ : nat => poll l s p) Phi.
  Proof. intros Hb H. destruct (poll_nob l s p Hb) as (p' & E & Hb'). eapply convP_const; [exact E|apply H, Hb']. Qed.
  Lemma convP_lift {A} (r : res A) a s p (Phi : A -> S -> polls -> Prop) : r = Ok a -> Phi a s p -> convP (fun _ : nat => lift r s p) Phi.
  Proof. intros -> H. eapply convP_const; [reflexivity|exact H]. Qed.
  Lemma convP_get {A} (f : nat -> S -> M S A) s p Phi : convP (fun lf => f lf s s p) Phi -> convP (fun lf => bind get_state (f lf) s p) Phi.
  Proof. auto. Qed.
  Lemma convP_modify (f : S -> S) s p (Phi : unit -> S -> polls -> Prop) : Phi tt (f s) p -> convP (fun _ : nat => modify f s p) Phi.
  Proof. intros H. eapply convP_const; [reflexivity|exact H]. Qed.
  Lemma convP_shift {A} (f g : nat -> outcome exec_error (A * S * polls)) Phi : (forall lf, f (Datatypes.S lf) = g lf) -> convP g Phi -> convP f Phi.
  Proof.
    intros E (Bd & a & s & p & H & HP). exists (Datatypes.S Bd), a, s, p. split; [|exact HP]. intros lf Hlf. destruct lf as [|lf]; [lia|]. rewrite E. apply H. lia.
  Qed.
  Lemma convP_reindex {A} (g : nat -> outcome exec_error (A * S * polls)) (h : nat -> nat) Phi :
    (forall lf, (lf <= h lf)%nat) -> convP g Phi -> convP (fun lf => g (h lf)) Phi.
  Proof. intros Hh (Bd & a & s & p & H & HP). exists Bd, a, s, p. split; [|exact HP]. intros lf Hlf. apply H. specialize (Hh lf). lia. Qed.
  Lemma convP_ext {A} (f g : nat -> outcome exec_error (A * S * polls)) Phi : (forall lf, f lf = g lf) -> convP g Phi -> convP f Phi.
  Proof. intros E (Bd & a & s & p & H & HP). exists Bd, a, s, p. split; [|exact HP]. intros lf Hlf. rewrite E. auto. Qed.
  (* a fuel-independent computation that cannot run out of fuel *)
  Lemma convP_of_lres {A} (x : outcome exec_error (A * S * polls)) Phi : lres x Phi -> x <> OutOfFuel -> convP (fun _ => x) Phi.
  Proof. destruct x as [[[a s] p]|e|y|]; cbn [lres]; intros H Hn; try contradiction. eapply convP_const; [reflexivity|exact H]. Qed.
  (* convergence plus an invariant of all non-failing results *)
  Lemma convP_of_conv {A} (f : nat -> outcome exec_error (A * S * polls)) Phi : conv f -> (forall lf, lres (f lf) Phi) -> convP f Phi.
  Proof. intros (Bd & [[a s] p] & H) HL. exists Bd, a, s, p. split; [exact H|]. apply (conv_lres f Phi Bd a s p H HL). Qed.
End ConvP.

Section ExprConv.
  Context {rx : Type}.
  Variables (t : tree) (fl : file) (glob : globals) (regexes : list rx)
            (find : rx -> str -> option (list (option (N * N))))
            (call : ident -> graph -> list value -> res (value * graph)).
  Variable okfn : ident -> Prop.
  Hypothesis Hpure : forall f, okfn f -> pure_fn call f.
  Variable m : qmatch.

  Notation den := (den call).
  Notation Renv := (Renv call).
  Notation epost := (epost call).
  Notation Qden := (Qden call).
  Notation fexpr' := (fexpr okfn m).
  Notation env_rel' := (env_rel m).
  Notation eval' := (eval t fl glob call).
  Notation leval' := (leval t fl glob call).

  Definition econv {A B} (Q : list value -> B -> A -> Prop) (ms : M sstate A) (mlf : nat -> M lstate B) : Prop :=
    forall ss p a ss' p', ms ss p = Ok (a, ss', p') ->
      forall rho ls pl, Renv rho ss ls -> nob pl -> convP (fun lf => mlf lf ls pl) (epost Q rho a ss ss' ls).

  Lemma trav_conv {X A B} (F : X -> M sstate A) (F' : nat -> X -> M lstate B) (Q : list value -> B -> A -> Prop) (P : X -> Prop) :
    Qmono Q -> (forall x, P x -> econv Q (F x) (fun lf => F' lf x)) ->
    forall l, All P l -> econv (fun r bs as_ => Forall2 (Q r) bs as_) (mapM F l) (fun lf => mapM (F' lf) l).
  Proof.
    intros HQ HF. induction l as [|x l IH]; intros HP ss p as_ ss' p' H rho ls pl HR Hb; cbn [mapM] in *.
    - apply ret_ok in H. destruct H as (-> & -> & ->). apply convP_ret. apply epost_here; [exact HR|exact Hb|constructor].
    - destruct HP as [Px HP]. apply bind_ok in H. destruct H as (a & s1 & p1 & H1 & H).
      apply bind_ok in H. destruct H as (as1 & s2 & p2 & H2 & H). apply ret_ok in H. destruct H as (-> & -> & ->).
      apply convP_bind. eapply convP_mono; [apply (HF x Px _ _ _ _ _ H1 rho ls pl HR Hb)|]. intros b ls1 pl1 (Hb1 & S1 & Hf1 & rho1 & Hp1 & HR1 & Q1).
      apply convP_bind. eapply convP_mono; [apply (IH HP _ _ _ _ _ H2 rho1 ls1 pl1 HR1 Hb1)|]. intros bs ls2 pl2 HP2.
      apply convP_ret. eapply epost_chain; [exact S1|exact Hf1|exact Hp1|exact HP2|].
      intros r Hr HF2. constructor; [apply (HQ rho1 r _ _ Hr Q1)|exact HF2].
  Qed.

  Lemma force_full_convP rho lv v ls p : store_wf call rho (l_store ls) -> den rho lv v -> nob p ->
    convP (fun F => eval_lv t fl call F lv ls p) (full_post call rho v ls).
  Proof.
    intros Hst Hd Hb. apply convP_of_conv.
    - pose proof (proj1 Hst) as Hlen. pose proof Hd as Hd'. rewrite <- (firstn_len_eq rho _ Hlen) in Hd'.
      apply (force_conv call t fl rho _ lv v Hd' ls p Hst Hb).
    - intros F. apply (force_full call t fl F rho lv v ls p Hst Hd Hb).
  Qed.

  Lemma unscoped_get_conv name : econv Qden (unscoped_get glob name) (fun _ => lunscoped_get glob name).
  Proof.
    intros ss p v ss' p' H rho ls pl HR Hb. apply convP_of_lres; [apply (unscoped_get_sim glob call name _ _ _ _ _ H rho ls pl HR Hb)|].
    unfold lunscoped_get. destruct (globals_get glob name); [discriminate|]. unfold bind, get_state. destruct (varmap_get (l_locals ls) name); discriminate.
  Qed.
  Lemma lunscoped_add_noof ll name lv mu ls pl : lunscoped_add glob ll name lv mu ls pl <> OutOfFuel.
  Proof.
    unfold lunscoped_add. destruct (globals_get glob name); [discriminate|]. rewrite (bind_ok_eq' _ _ _ _ _ _ _ (store_add_eq lv (ll_ctx ll) ls pl)).
    unfold bind, get_state. cbn [set_store l_locals]. destruct (varmap_add (l_locals ls) name _ mu); discriminate.
  Qed.
  Lemma lunscoped_set_noof ll name lv ls pl : lunscoped_set glob ll name lv ls pl <> OutOfFuel.
  Proof.
    unfold lunscoped_set. destruct (globals_get glob name); [discriminate|]. rewrite (bind_ok_eq' _ _ _ _ _ _ _ (store_add_eq lv (ll_ctx ll) ls pl)).
    unfold bind, get_state. cbn [set_store l_locals]. destruct (varmap_set (l_locals ls) name _); [discriminate|]. destruct (varmap_get (l_locals ls) name); discriminate.
  Qed.
  Lemma unscoped_add_conv ll name v lv mu ss p u ss' p' rho ls pl :
    unscoped_add glob name v mu ss p = Ok (u, ss', p') -> Renv rho ss ls -> den rho lv v -> nob pl ->
    convP (fun _ : nat => lunscoped_add glob ll name lv mu ls pl) (epost (@Qtrue unit unit) rho tt ss ss' ls).
  Proof. intros H HR Hd Hb. apply convP_of_lres; [apply (unscoped_add_sim glob call ll name v lv mu _ _ _ _ _ rho ls pl H HR Hd Hb)|apply lunscoped_add_noof]. Qed.
  Lemma unscoped_set_conv ll name v lv ss p u ss' p' rho ls pl :
    unscoped_set glob name v ss p = Ok (u, ss', p') -> Renv rho ss ls -> den rho lv v -> nob pl ->
    convP (fun _ : nat => lunscoped_set glob ll name lv ls pl) (epost (@Qtrue unit unit) rho tt ss ss' ls).
  Proof. intros H HR Hd Hb. apply convP_of_lres; [apply (unscoped_set_sim glob call ll name v lv _ _ _ _ _ rho ls pl H HR Hd Hb)|apply lunscoped_set_noof]. Qed.
  Lemma lpop_frame_conv rho ss ls pl f up : Renv rho ss ls -> s_locals ss = f :: up -> nob pl ->
    convP (fun _ : nat => lpop_frame ls pl) (epost (@Qtrue unit unit) rho tt ss (sset_locals up ss) ls).
  Proof.
    intros HR E Hb. apply convP_of_lres; [apply (lpop_frame_sim call rho ss ls pl f up HR E Hb)|].
    unfold lpop_frame, bind, get_state. destruct (l_locals ls); discriminate.
  Qed.

  (* eager evaluation *)
  Lemma eager_conv (mlf : nat -> M lstate lvalue) (h : nat -> nat) rho v ss ss' ls pl : (forall lf, (lf <= h lf)%nat) ->
    convP (fun lf => mlf lf ls pl) (epost Qden rho v ss ss' ls) ->
    convP (fun lf => bind (mlf lf) (eval_lv t fl call (h lf)) ls pl) (eager_post call rho v ss ss' ls).
  Proof.
    intros Hh H. apply (convP_bind mlf (fun lf lv => eval_lv t fl call (h lf) lv)). eapply convP_mono; [exact H|].
    intros lv ls1 pl1 (Hb1 & S1 & Hf1 & rho1 & Hp1 & [Hst1 Hl1] & Hd).
    apply (convP_reindex (fun F => eval_lv t fl call F lv ls1 pl1) h _ Hh).
    eapply convP_mono; [apply (force_full_convP rho1 lv v ls1 pl1 Hst1 Hd Hb1)|]. intros v' ls2 pl2 (-> & Hb2 & st2 & -> & Hst2).
    split; [reflexivity|]. split; [exact Hb2|]. split; [exact S1|]. split; [eapply lframe_trans; [exact Hf1|apply lframe_set_store]|].
    exists rho1. split; [exact Hp1|]. split; [|exact I]. split; [exact Hst2|exact Hl1].
  Qed.

  Lemma args_conv (ev : expr -> M sstate value) (lev : nat -> expr -> M lstate lvalue) :
    forall args, (forall e, In e args -> econv Qden (ev e) (fun lf => lev lf e)) ->
    forall ss p u ss' p', iterM (fun a => v <- ev a ;; push_param v) args ss p = Ok (u, ss', p') ->
    forall rho ls pl, Renv rho ss ls -> nob pl ->
      convP (fun lf => mapM (lev lf) args ls pl)
           (fun lvs ls' pl' => nob pl' /\ lframe ls ls' /\ exists rho' vs, prefix rho rho' /\ Renv rho' ss' ls' /\ Forall2 (den rho') lvs vs /\
                                 length vs = length args /\ s_graph ss' = s_graph ss /\ s_params ss' = s_params ss ++ vs).
  Proof.
    induction args as [|a args IH]; intros Hev ss p u ss' p' H rho ls pl HR Hb; cbn [iterM mapM] in *.
    - apply ret_ok in H. destruct H as (-> & -> & ->). apply convP_ret. split; [exact Hb|]. split; [apply lframe_refl|].
      exists rho, []. rewrite app_nil_r. repeat split; try apply HR; try apply prefix_refl. constructor.
    - apply bind_ok in H. destruct H as (u1 & s2 & p2 & Hhd & Htl). apply bind_ok in Hhd. destruct Hhd as (v & s1 & p1 & H1 & Hpush).
      rewrite push_param_eq in Hpush. inversion Hpush; subst; clear Hpush.
      apply convP_bind. eapply convP_mono; [apply (Hev a (or_introl eq_refl) _ _ _ _ _ H1 rho ls pl HR Hb)|].
      intros lv ls1 pl1 (Hb1 & [Sg Sp] & Hf1 & rho1 & Hp1 & HR1 & Q1).
      apply convP_bind.
      assert (HR1' : Renv rho1 (sset_params (s_params s1 ++ [v]) s1) ls1) by exact HR1.
      eapply convP_mono; [apply (IH (fun e He => Hev e (or_intror He)) _ _ _ _ _ Htl rho1 ls1 pl1 HR1' Hb1)|].
      intros lvs ls2 pl2 (Hb2 & Hf2 & rho2 & vs & Hp2 & HR2 & HF & Hlen & Hg & Hps). apply convP_ret.
      split; [exact Hb2|]. split; [eapply lframe_trans; eauto|]. exists rho2, (v :: vs). split; [eapply prefix_trans; eauto|].
      split; [exact HR2|]. split; [constructor; [eapply den_mono; [exact Hp2|exact Q1]|exact HF]|]. split; [cbn [length]; congruence|].
      cbn [sset_params s_graph s_params] in Hg, Hps. split; [congruence|]. rewrite Hps, Sp, <- app_assoc. reflexivity.
  Qed.

  Lemma comp_conv (ev : expr -> M sstate value) (lev : nat -> expr -> M lstate lvalue) (K : list value -> value) ll (h : nat -> nat) elem var value :
    (forall lf, (lf <= h lf)%nat) ->
    econv Qden (ev value) (fun lf => lev lf value) -> econv Qden (ev elem) (fun lf => lev lf elem) ->
    econv (fun r lvs v => exists outs, v = K outs /\ Forall2 (den r) lvs outs)
      (lv <- ev value ;; vals <- lift (as_list lv) ;; push_frame ;;;
       out <- mapM (fun v => clear_frame ;;; unscoped_add glob var v false ;;; ev elem) vals ;; pop_frame ;;; ret (K out))
      (fun lf => lv <- (lv <- lev lf value ;; eval_lv t fl call (h lf) lv) ;; vals <- lift (as_list lv) ;; lpush_frame ;;;
       out <- mapM (fun v => lclear_frame ;;; lunscoped_add glob ll var (LValue v) false ;;; lev lf elem) vals ;; lpop_frame ;;; ret out).
  Proof.
    intros Hh Hval Helem ss p r ss' p' H rho ls pl HR Hb.
    apply bind_ok in H. destruct H as (lv0 & s1 & p1 & H1 & H). apply bind_ok in H. destruct H as (vals & s2 & p2 & H2 & H).
    apply lift_ok in H2. destruct H2 as (Hal & -> & ->). apply bind_ok in H. destruct H as (u3 & s3 & p3 & H3 & H).
    rewrite push_frame_eq in H3. inversion H3; subst; clear H3. apply bind_ok in H. destruct H as (out & s4 & p4 & H4 & H).
    apply bind_ok in H. destruct H as (u5 & s5 & p5 & H5 & H). apply ret_ok in H. destruct H as (-> & -> & ->).
    apply pop_frame_ok in H5. destruct H5 as (f & up & El & -> & ->).
    apply convP_bind. eapply convP_mono; [apply (eager_conv (fun lf => lev lf value) h _ _ _ _ _ _ Hh (Hval _ _ _ _ _ H1 rho ls pl HR Hb))|].
    intros v' ls1 pl1 (-> & Hb1 & S1 & Hf1 & rho1 & Hp1 & HR1 & _).
    apply convP_bind. eapply convP_lift; [exact Hal|]. apply convP_bind. eapply convP_const; [apply lpush_frame_eq|].
    assert (HR2 : Renv rho1 (sset_locals ([] :: s_locals s1) s1) (lset_locals ([] :: l_locals ls1) ls1)).
    { destruct HR1 as [A1 A2]. split; [exact A1|]. constructor; [constructor|exact A2]. }
    apply convP_bind.
    assert (Hiter : forall v, True -> econv Qden (fun s p => (clear_frame ;;; unscoped_add glob var v false ;;; ev elem) s p)
                                          (fun lf s p => (lclear_frame ;;; lunscoped_add glob ll var (LValue v) false ;;; lev lf elem) s p)).
    { intros v _ ss0 p0 a ss0' p0' H0 rho0 ls0 pl0 HR0 Hb0.
      apply bind_ok in H0. destruct H0 as (u1 & t1 & q1 & G1 & H0). rewrite clear_frame_eq in G1. inversion G1; subst; clear G1.
      apply bind_ok in H0. destruct H0 as (u2 & t2 & q2 & G2 & G3).
      apply (convP_bind (fun _ => lclear_frame) (fun lf _ => lunscoped_add glob ll var (LValue v) false ;;; lev lf elem)).
      eapply convP_const; [apply lclear_frame_eq|].
      assert (HRc : Renv rho0 (sset_locals (varmap_clear (s_locals ss0)) ss0) (lset_locals (varmap_clear (l_locals ls0)) ls0)).
      { destruct HR0 as [A1 A2]. split; [exact A1|apply locals_clear, A2]. }
      apply (convP_bind (fun _ => lunscoped_add glob ll var (LValue v) false) (fun lf _ => lev lf elem)).
      eapply convP_mono; [apply (unscoped_add_conv ll var v (LValue v) false _ _ _ _ _ rho0 _ pl0 G2 HRc (den_value call rho0 v) Hb0)|].
      intros _ ls1' pl1' (Hb1' & S1' & Hf1' & rho1' & Hp1' & HR1' & _).
      eapply convP_mono; [apply (Helem _ _ _ _ _ G3 rho1' ls1' pl1' HR1' Hb1')|]. intros lv ls2' pl2' HP.
      eapply epost_chain; [exact S1'|eapply lframe_trans; [apply lframe_set_locals|exact Hf1']|exact Hp1'|exact HP|]. intros r _ HQ. exact HQ. }
    eapply convP_mono; [apply (trav_conv _ (fun lf v s p => (lclear_frame ;;; lunscoped_add glob ll var (LValue v) false ;;; lev lf elem) s p) Qden (fun _ => True) (Qden_mono call) Hiter vals ltac:(clear; induction vals; cbn; auto) _ _ _ _ _ H4 rho1 _ pl1 HR2 Hb1)|].
    intros lvs ls4 pl4 (Hb4 & S4 & Hf4 & rho4 & Hp4 & HR4 & HF).
    apply convP_bind. eapply convP_mono; [apply (lpop_frame_conv rho4 s4 ls4 pl4 f up HR4 El Hb4)|].
    intros _ ls5 pl5 (Hb5 & S5 & Hf5 & rho5 & Hp5 & HR5 & _). apply convP_ret.
    split; [exact Hb5|]. split; [eapply SP_trans; [exact S1|]; eapply SP_trans; [|exact S5]; eapply SP_trans; [|exact S4]; split; reflexivity|].
    split; [eapply lframe_trans; [exact Hf1|]; eapply lframe_trans; [apply lframe_set_locals|]; eapply lframe_trans; [exact Hf4|exact Hf5]|].
    exists rho5. split; [eapply prefix_trans; [exact Hp1|]; eapply prefix_trans; [exact Hp4|exact Hp5]|]. split; [exact HR5|].
    exists out. split; [reflexivity|]. eapply den_list_mono; [exact Hp5|exact HF].
  Qed.

  Lemma le_h1 : forall lf, (lf <= S lf + default_eval_fuel)%nat. Proof. intros; lia. Qed.
  Lemma le_h2 : forall lf, (lf <= lf + default_eval_fuel)%nat. Proof. intros; lia. Qed.

  Lemma eval_conv : forall fuel le ll e, fexpr' e -> env_rel' le ll -> econv Qden (eval' fuel le e) (fun lf => leval' lf ll e).
  Proof.
    induction fuel as [|fuel IH]; intros le ll e Hf Henv ss p v ss' p' H rho ls pl HR Hb; [discriminate|].
    destruct e; cbn [eval] in H; cbn [fexpr] in Hf; (eapply convP_shift; [intros lf; cbn [leval]; reflexivity|]).
    - apply ret_ok in H. destruct H as (-> & -> & ->). apply convP_ret. apply epost_here; [exact HR|exact Hb|constructor].
    - apply ret_ok in H. destruct H as (-> & -> & ->). apply convP_ret. apply epost_here; [exact HR|exact Hb|constructor].
    - apply ret_ok in H. destruct H as (-> & -> & ->). apply convP_ret. apply epost_here; [exact HR|exact Hb|constructor].
    - apply ret_ok in H. destruct H as (-> & -> & ->). apply convP_ret. apply epost_here; [exact HR|exact Hb|constructor].
    - apply ret_ok in H. destruct H as (-> & -> & ->). apply convP_ret. apply epost_here; [exact HR|exact Hb|constructor].
    - (* list *)
      apply bind_ok in H. destruct H as (vs & s1 & p1 & H1 & H). apply ret_ok in H. destruct H as (-> & -> & ->).
      apply convP_bind. eapply convP_mono; [apply (trav_conv _ (fun lf => leval' lf ll) Qden fexpr' (Qden_mono call) (fun x Px => IH le ll x Px Henv) es Hf _ _ _ _ _ H1 rho ls pl HR Hb)|].
      intros lvs ls1 pl1 HP. apply convP_ret. eapply epost_impl; [exact HP|]. intros r HF. constructor. exact HF.
    - (* set *)
      apply bind_ok in H. destruct H as (vs & s1 & p1 & H1 & H). apply ret_ok in H. destruct H as (-> & -> & ->).
      apply convP_bind. eapply convP_mono; [apply (trav_conv _ (fun lf => leval' lf ll) Qden fexpr' (Qden_mono call) (fun x Px => IH le ll x Px Henv) es Hf _ _ _ _ _ H1 rho ls pl HR Hb)|].
      intros lvs ls1 pl1 HP. apply convP_ret. eapply epost_impl; [exact HP|]. intros r HF. constructor. exact HF.
    - (* list comprehension *)
      destruct Hf as [Hfe Hfv]. apply convP_bind.
      eapply convP_mono; [apply (comp_conv (eval' fuel le) (fun lf => leval' lf ll) VList ll (fun lf => (S lf + default_eval_fuel)%nat) e1 var e2 le_h1 (IH le ll e2 Hfv Henv) (IH le ll e1 Hfe Henv) _ _ _ _ _ H rho ls pl HR Hb)|].
      intros lvs ls1 pl1 HP. apply convP_ret. eapply epost_impl; [exact HP|]. intros r (outs & -> & HF). constructor. exact HF.
    - (* set comprehension *)
      destruct Hf as [Hfe Hfv]. apply convP_bind.
      eapply convP_mono; [apply (comp_conv (eval' fuel le) (fun lf => leval' lf ll) (fun o => VSet (set_of_list o)) ll (fun lf => (S lf + default_eval_fuel)%nat) e1 var e2 le_h1 (IH le ll e2 Hfv Henv) (IH le ll e1 Hfe Henv) _ _ _ _ _ H rho ls pl HR Hb)|].
      intros lvs ls1 pl1 HP. apply convP_ret. eapply epost_impl; [exact HP|]. intros r (outs & -> & HF). constructor. exact HF.
    - (* capture *)
      apply lift_ok in H. destruct H as (Hfn & -> & ->). destruct Henv as (E1 & E2 & E3). rewrite E1 in Hfn. rewrite E2, <- Hf.
      apply convP_bind. eapply convP_lift; [exact Hfn|]. apply convP_ret. apply epost_here; [exact HR|exact Hb|constructor].
    - (* unscoped variable *) apply (unscoped_get_conv name _ _ _ _ _ H rho ls pl HR Hb).
    - contradiction.
    - (* call *)
      destruct Hf as [Hok Hargs].
      apply bind_ok in H. destruct H as (u & s1 & p1 & H1 & H). apply bind_ok in H. destruct H as (ps & s2 & p2 & H2 & H3).
      apply convP_bind.
      eapply convP_mono; [apply (args_conv (eval' fuel le) (fun lf => leval' lf ll) args (fun e He => IH le ll e (All_In _ _ _ Hargs He) Henv) _ _ _ _ _ H1 rho ls pl HR Hb)|].
      intros lvs ls1 pl1 (Hb1 & Hf1 & rho1 & vs & Hp1 & HR1 & HF & Hlen & Hg1 & Hps1). apply convP_ret.
      rewrite <- Hlen in H2. destruct (drain_ok _ _ _ _ _ _ _ Hps1 H2) as (-> & -> & ->).
      unfold call_function, bind, get_state in H3. cbn [sset_params s_graph] in H3.
      destruct (call f (s_graph s1) vs) as [[v0 g']|e0|x0|] eqn:Ec; try discriminate.
      unfold set_graph, modify, ret in H3. inversion H3; subst; clear H3.
      destruct (Hpure f Hok _ _ _ _ Ec) as [-> Hall].
      split; [exact Hb1|]. split; [split; cbn [s_graph s_params sset_params]; [exact Hg1|reflexivity]|]. split; [exact Hf1|].
      exists rho1. split; [exact Hp1|]. split; [exact HR1|]. apply (den_call call rho1 f lvs vs v HF Hall).
    - (* regex capture *)
      destruct Henv as (E1 & E2 & E3). rewrite <- E3. destruct (nth_error (le_caps le) (N.to_nat i)) as [s0|]; [|discriminate].
      apply ret_ok in H. destruct H as (-> & -> & ->). apply convP_ret. apply epost_here; [exact HR|exact Hb|constructor].
  Qed.

  Lemma leager_conv fuel le ll e ss p v ss' p' rho ls pl : fexpr' e -> env_rel' le ll ->
    eval' fuel le e ss p = Ok (v, ss', p') -> Renv rho ss ls -> nob pl ->
    convP (fun lf => leager t fl glob call lf ll e ls pl) (eager_post call rho v ss ss' ls).
  Proof.
    intros Hf Henv H HR Hb. unfold leager.
    apply (eager_conv (fun lf => leval' lf ll e) (fun lf => (lf + default_eval_fuel)%nat) rho v ss ss' ls pl le_h2).
    apply (eval_conv fuel le ll e Hf Henv _ _ _ _ _ H rho ls pl HR Hb).
  Qed.
End ExprConv.
