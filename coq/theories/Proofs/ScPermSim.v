(* Proofs/ScPermSim.v — C08 WITH scoped variables, part 5: SHIFT EQUIVARIANCE of the execution of one block on the
   fragment `sstmt`: everything of `fstmt` (Proofs/SLExpr.v) plus
     - definitions of scoped variables  `let @cap.name = e`, `node @cap.name`  (scope = a capture, value scoped-free),
     - scoped reads `@(scope).name` (scope: any expression of the fragment, or again a scoped read) in DEFERRED positions: node / source / sink of attr and edge statements, attribute
       values (of attributes that are not shorthands), print arguments; possibly inside list literals.
   The two-run relation R' extends the relation R of Proofs/BlockPermSim.v: the deferred statements may contain scoped
   reads (`mvall`), and the scoped cells of the two runs are their (arbitrary, unforced) start values with the SAME
   definitions appended, shifted (`RC`).  Everything the fragment `fstmt` does is inherited from BlockPermSim.v by
   re-basing R at the current deferred lists and cells (`lift_old`): those statements neither read nor write them. *)
From TSG Require Import Model.Lazy Proofs.BaseFacts Proofs.OrderFacts Proofs.Containers Proofs.MonadFacts Proofs.SLGraph Proofs.SLExpr
  Proofs.BlockPermRen Proofs.BlockPermSim Proofs.ScPermSound.

(* ---------------- scoped definitions as data ---------------- *)
Definition sdef : Type := ident * (lvalue * lvalue * stmt_ctx).
Definition add_def (cells : list (ident * scoped_values)) (d : sdef) : list (ident * scoped_values) :=
  match alist_get (fst d) cells with
  | None => alist_set (fst d) (SVUnforced [snd d]) cells
  | Some (SVUnforced ps) => alist_set (fst d) (SVUnforced (ps ++ [snd d])) cells
  | Some _ => cells
  end.
Definition addl (defs : list sdef) (cells : list (ident * scoped_values)) : list (ident * scoped_values) := fold_left add_def defs cells.
Definition dfren (rg rl : N -> N) (d : sdef) : sdef :=
  (fst d, (lvren rg rl (fst (fst (snd d))), lvren rg rl (snd (fst (snd d))), snd (snd d))).
Definition allunf (cells : list (ident * scoped_values)) : Prop := forall name c, alist_get name cells = Some c -> exists ps, c = SVUnforced ps.

Lemma addl_app a b cells : addl (a ++ b) cells = addl b (addl a cells). Proof. apply fold_left_app. Qed.
Lemma allunf_add cells d : allunf cells -> allunf (add_def cells d).
Proof.
  intros H name c. unfold add_def. destruct (alist_get (fst d) cells) as [[ps| |m]|] eqn:E; try apply H.
  - rewrite alist_get_set. destruct (str_eqb name (fst d)); [intros [= <-]; eauto|apply H].
  - rewrite alist_get_set. destruct (str_eqb name (fst d)); [intros [= <-]; eauto|apply H].
Qed.
Lemma allunf_addl defs : forall cells, allunf cells -> allunf (addl defs cells).
Proof. induction defs as [|d defs IH]; intros cells H; [exact H|]. apply IH, allunf_add, H. Qed.

(* ---------------- the fragment ---------------- *)
Section Frag2.
  Variable fl : file.
  Variable okfn : ident -> Prop.
  Variable m : qmatch.
  Definition is_capture (e : expr) : Prop := match e with ECapture _ _ _ _ _ => True | _ => False end.
  (* expressions in deferred positions *)
  Fixpoint mexpr (e : expr) : Prop :=
    fexpr okfn m e \/
    match e with
    | EScoped sc _ _ => mexpr sc
    | EList es => All mexpr es
    | _ => False
    end.
  Definition mattr (a : attr) : Prop :=
    match a with Attr name e => fexpr okfn m e \/ (mexpr e /\ find_shorthand name (f_shorthands fl) = None) end.
  Definition svar (v : variable) : Prop := match v with VarU _ _ => True | VarS sc _ _ => is_capture sc /\ fexpr okfn m sc end.
  Fixpoint sstmt (s : stmt) : Prop :=
    match s with
    | SLet v e _ => svar v /\ fexpr okfn m e
    | SVar v e _ | SSet v e _ => fvar v /\ fexpr okfn m e
    | SNode v _ _ => svar v
    | SAttrNode n attrs _ => mexpr n /\ All mattr attrs
    | SEdge a b _ => mexpr a /\ mexpr b
    | SAttrEdge a b attrs _ => mexpr a /\ mexpr b /\ All mattr attrs
    | SScan v arms _ => fexpr okfn m v /\ All (fun arm : N * list stmt * loc => All sstmt (snd (fst arm))) arms
    | SPrint vs _ => All mexpr vs
    | SIf arms _ => All (fun arm : list cond * list stmt * loc => All (fcond okfn m) (fst (fst arm)) /\ All sstmt (snd (fst arm))) arms
    | SFor _ _ v body _ => fexpr okfn m v /\ All sstmt body
    end.
End Frag2.

(* ---------------- typing of lazy values in deferred positions ---------------- *)
Fixpoint mvall (okfn : ident -> Prop) (D L : N -> Prop) (lv : lvalue) : Prop :=
  lvall okfn D L lv \/
  match lv with
  | LScoped sc _ => mvall okfn D L sc
  | LList ls => (fix all (l : list lvalue) : Prop := match l with [] => True | x :: l' => mvall okfn D L x /\ all l' end) ls
  | _ => False
  end.
Lemma mvall_all okfn D L l :
  (fix all (l : list lvalue) : Prop := match l with [] => True | x :: l' => mvall okfn D L x /\ all l' end) l <-> Forall (mvall okfn D L) l.
Proof.
  induction l as [|x l IH]; [split; constructor|]. split.
  - intros [H1 H2]. constructor; [exact H1|apply IH, H2].
  - intros H. inversion H; subst. split; [assumption|apply IH; assumption].
Qed.
Lemma mvall_local okfn D L lv : lvall okfn D L lv -> mvall okfn D L lv.
Proof. intros H. destruct lv; left; exact H. Qed.
Lemma mvall_impl okfn (D D' L L' : N -> Prop) lv : (forall i, D i -> D' i) -> (forall i, L i -> L' i) -> mvall okfn D L lv -> mvall okfn D' L' lv.
Proof.
  intros HD HL. induction lv as [v|l IH|l IH|loc|sc name IH|f args IH] using lv_ind; cbn [mvall]; intros [H|H]; try (left; eapply lvall_impl; eauto; fail); try contradiction.
  - right. apply mvall_all in H. apply mvall_all. rewrite Forall_forall in *. intros x Hx. apply IH; auto.
  - right. apply IH, H.
Qed.
Lemma mvall_ext okfn (D L : N -> Prop) rg rg' rl rl' lv : (forall i, D i -> rg i = rg' i) -> (forall i, L i -> rl i = rl' i) ->
  mvall okfn D L lv -> lvren rg rl lv = lvren rg' rl' lv.
Proof.
  intros HD HL. induction lv as [v|l IH|l IH|loc|sc name IH|f args IH] using lv_ind; cbn [mvall]; intros [H|H]; try (eapply lvren_ext; eauto; fail); try contradiction.
  - apply mvall_all in H. cbn [lvren]. f_equal. apply map_ext_in. intros x Hx. rewrite Forall_forall in *. apply IH; auto.
  - cbn [lvren]. f_equal. apply IH, H.
Qed.

Definition matall (okfn : ident -> Prop) (D L : N -> Prop) (a : ident * lvalue) : Prop := mvall okfn D L (snd a).
Definition msall (eaok : amap -> Prop) (okfn : ident -> Prop) (D L : N -> Prop) (st : lstmt) : Prop :=
  match st with
  | LSAttrNode n attrs _ => mvall okfn D L n /\ Forall (matall okfn D L) attrs
  | LSEdge a b ea _ => mvall okfn D L a /\ mvall okfn D L b /\ eaok ea
  | LSAttrEdge a b attrs _ => mvall okfn D L a /\ mvall okfn D L b /\ Forall (matall okfn D L) attrs
  | LSPrint args _ => Forall (fun o => match o with Some lv => mvall okfn D L lv | None => True end) args
  end.
Lemma msall_impl eaok okfn (D D' L L' : N -> Prop) st : (forall i, D i -> D' i) -> (forall i, L i -> L' i) -> msall eaok okfn D L st -> msall eaok okfn D' L' st.
Proof.
  intros HD HL. assert (Hat : forall l, Forall (matall okfn D L) l -> Forall (matall okfn D' L') l).
  { intros l H. eapply Forall_impl; [|exact H]. intros a. apply mvall_impl; assumption. }
  destruct st; cbn [msall].
  - intros [H1 H2]. split; [eapply mvall_impl; eauto|apply Hat, H2].
  - intros (H1 & H2 & H3). split; [|split]; [eapply mvall_impl; eauto..|exact H3].
  - intros (H1 & H2 & H3). split; [|split]; [eapply mvall_impl; eauto..|apply Hat, H3].
  - intros H. eapply Forall_impl; [|exact H]. intros [lv|]; auto. apply mvall_impl; assumption.
Qed.
Lemma msall_local eaok okfn D L st : lsall eaok okfn D L st -> msall eaok okfn D L st.
Proof.
  assert (Hat : forall l, Forall (atall okfn D L) l -> Forall (matall okfn D L) l).
  { intros l H. eapply Forall_impl; [|exact H]. intros a. apply mvall_local. }
  destruct st; cbn [lsall msall].
  - intros [H1 H2]. split; [apply mvall_local, H1|apply Hat, H2].
  - intros (H1 & H2 & H3). split; [|split]; [apply mvall_local; assumption..|exact H3].
  - intros (H1 & H2 & H3). split; [|split]; [apply mvall_local; assumption..|apply Hat, H3].
  - intros H. eapply Forall_impl; [|exact H]. intros [lv|]; auto. apply mvall_local.
Qed.
Lemma msall_ext eaok okfn (D L : N -> Prop) rg rg' rl rl' st : (forall i, D i -> rg i = rg' i) -> (forall i, L i -> rl i = rl' i) ->
  msall eaok okfn D L st -> lsren rg rl st = lsren rg' rl' st.
Proof.
  intros HD HL. assert (Hat : forall l, Forall (matall okfn D L) l -> map (atren rg rl) l = map (atren rg' rl') l).
  { intros l H. apply map_ext_in. intros [k lv] Hin. unfold atren. cbn [fst snd]. f_equal. rewrite Forall_forall in H. apply (mvall_ext okfn D L); auto. apply (H _ Hin). }
  destruct st; cbn [msall lsren].
  - intros [H1 H2]. rewrite (mvall_ext okfn D L rg rg' rl rl' node HD HL H1), (Hat _ H2). reflexivity.
  - intros (H1 & H2 & _). rewrite (mvall_ext okfn D L rg rg' rl rl' src HD HL H1), (mvall_ext okfn D L rg rg' rl rl' snk HD HL H2). reflexivity.
  - intros (H1 & H2 & H3). rewrite (mvall_ext okfn D L rg rg' rl rl' src HD HL H1), (mvall_ext okfn D L rg rg' rl rl' snk HD HL H2), (Hat _ H3). reflexivity.
  - intros H. f_equal. apply map_ext_in. intros [lv|] Hin; cbn [option_map]; [|reflexivity]. f_equal. rewrite Forall_forall in H. apply (mvall_ext okfn D L); auto. apply (H _ Hin).
Qed.

(* a definition: literal id-free scope, value = a thunk of the block *)
Definition defall (L : N -> Prop) (d : sdef) : Prop :=
  (exists v, fst (fst (snd d)) = LValue v /\ vall noid v) /\ (exists loc, snd (fst (snd d)) = LVar loc /\ L loc).
Lemma defall_impl (L L' : N -> Prop) d : (forall i, L i -> L' i) -> defall L d -> defall L' d.
Proof. intros HL [H1 (loc & H2 & H3)]. split; [exact H1|]. exists loc. auto. Qed.
Lemma dfren_ext (L : N -> Prop) rg rg' rl rl' d : (forall i, L i -> rl i = rl' i) -> defall L d -> dfren rg rl d = dfren rg' rl' d.
Proof.
  intros HL [(v & Hv & Hn) (loc & Hl & HLl)]. destruct d as [name [[sc val] dbg]]. cbn [fst snd] in *. subst sc val. unfold dfren. cbn [fst snd lvren].
  rewrite !(vren_noid _ v Hn), (HL _ HLl). reflexivity.
Qed.

Section Shift2.
  Variable eaok : amap -> Prop.
  Variable okfn : ident -> Prop.
  Variables n0 gb1 kb1 gb2 kb2 : N.
  Hypothesis Hbase1 : n0 <= gb1.
  Hypothesis Hbase2 : n0 <= gb2.
  Variables (G1 G2 : graph) (S1 S2 : list thunk) (BE1 BE2 BA1 BA2 BP1 BP2 : list lstmt).
  Variables (SC1 SC2 : list (ident * scoped_values)) (PV1 PV2 : list (elem_key * stmt_ctx)) (PA1 PA2 : list value).
  Hypothesis HG1 : N.of_nat (length G1) = gb1.
  Hypothesis HG2 : N.of_nat (length G2) = gb2.
  Hypothesis HS1 : N.of_nat (length S1) = kb1.
  Hypothesis HS2 : N.of_nat (length S2) = kb2.
  Hypothesis Hunf1 : allunf SC1.
  Hypothesis Hunf2 : allunf SC2.

  Notation sg := (sg gb1 gb2).
  Notation sl := (sl kb1 kb2).
  Notation Dn := (Dn n0 gb1).
  Notation Lm := (Lm kb1).
  Notation lr := (lvren sg sl).
  Notation Rold XE1 XE2 XA1 XA2 XP1 XP2 C1 C2 := (R eaok okfn n0 gb1 kb1 gb2 kb2 G1 G2 S1 S2 XE1 XE2 XA1 XA2 XP1 XP2 C1 C2 PV1 PV2 PA1 PA2).
  Notation bsimo XE1 XE2 XA1 XA2 XP1 XP2 C1 C2 := (bsim eaok okfn n0 gb1 kb1 gb2 kb2 G1 G2 S1 S2 XE1 XE2 XA1 XA2 XP1 XP2 C1 C2 PV1 PV2 PA1 PA2).

  Lemma Dn_mono' n n' i : n <= n' -> Dn n i -> Dn n' i. Proof. unfold BlockPermSim.Dn. lia. Qed.
  Lemma Lm_mono' m m' i : m <= m' -> Lm m i -> Lm m' i. Proof. unfold BlockPermSim.Lm. lia. Qed.

  (* deferred statements that may contain scoped reads; the cells *)
  Definition RD' (K : lstmt -> Prop) (n m : N) (X1 X2 l1 l2 : list lstmt) : Prop :=
    exists es, l1 = X1 ++ es /\ l2 = X2 ++ map (lsren sg sl) es /\ Forall K es /\ Forall (msall eaok okfn (Dn n) (Lm m)) es.
  Definition RC (m : N) (c1 c2 : list (ident * scoped_values)) : Prop :=
    exists defs, c1 = addl defs SC1 /\ c2 = addl (map (dfren sg sl) defs) SC2 /\ Forall (defall (Lm m)) defs.
  Definition R' (s1 s2 : lstate) : Prop :=
    Rold (l_edges s1) (l_edges s2) (l_attrs s1) (l_attrs s2) (l_prints s1) (l_prints s2) (l_scoped s1) (l_scoped s2) s1 s2 /\
    RD' is_estmt (gn s1) (sn s1) BE1 BE2 (l_edges s1) (l_edges s2) /\ RD' is_astmt (gn s1) (sn s1) BA1 BA2 (l_attrs s1) (l_attrs s2) /\
    RD' is_pstmt (gn s1) (sn s1) BP1 BP2 (l_prints s1) (l_prints s2) /\ RC (sn s1) (l_scoped s1) (l_scoped s2).

  Lemma RD'_mono K n m n' m' X1 X2 a b : n <= n' -> m <= m' -> RD' K n m X1 X2 a b -> RD' K n' m' X1 X2 a b.
  Proof.
    intros Hn Hm (es & H1 & H2 & H0 & H3). exists es. split; [exact H1|]. split; [exact H2|]. split; [exact H0|].
    eapply Forall_impl; [|exact H3]. intros st. apply msall_impl; [intros i; apply Dn_mono', Hn|intros i; apply Lm_mono', Hm].
  Qed.
  Lemma RC_mono m m' a b : m <= m' -> RC m a b -> RC m' a b.
  Proof.
    intros Hm (defs & H1 & H2 & H3). exists defs. split; [exact H1|]. split; [exact H2|]. eapply Forall_impl; [|exact H3]. intros d. apply defall_impl. intros i. apply Lm_mono', Hm.
  Qed.
  Lemma RD'_app K n m X1 X2 l1 l2 es : RD' K n m X1 X2 l1 l2 -> Forall K es -> Forall (msall eaok okfn (Dn n) (Lm m)) es ->
    RD' K n m X1 X2 (l1 ++ es) (l2 ++ map (lsren sg sl) es).
  Proof.
    intros (es0 & -> & -> & H0 & H) HK Hes. exists (es0 ++ es). rewrite map_app, !app_assoc. split; [reflexivity|]. split; [reflexivity|].
    split; apply Forall_app; split; assumption.
  Qed.

  Definition bsim' {A B} (n m : N) (P : A -> B -> N -> N -> Prop) (c1 : M lstate A) (c2 : M lstate B) : Prop :=
    forall s1 s2 p, R' s1 s2 -> n <= gn s1 -> m <= sn s1 ->
      match c1 s1 p with
      | Ok (a, s1', p') => exists b s2', c2 s2 p = Ok (b, s2', p') /\ R' s1' s2' /\ l_params s1' = l_params s1 /\
                             gn s1 <= gn s1' /\ sn s1 <= sn s1' /\ P a b (gn s1') (sn s1')
      | Err e => c2 s2 p = Err e
      | Panic x => c2 s2 p = Panic x
      | OutOfFuel => c2 s2 p = OutOfFuel
      end.

  (* re-basing: whatever BlockPermSim.v proves for all start values of the deferred lists and cells holds for R' *)
  Lemma R_rebase XE1 XE2 XA1 XA2 XP1 XP2 C1 C2 s1 s2 : Rold XE1 XE2 XA1 XA2 XP1 XP2 C1 C2 s1 s2 ->
    Rold (l_edges s1) (l_edges s2) (l_attrs s1) (l_attrs s2) (l_prints s1) (l_prints s2) (l_scoped s1) (l_scoped s2) s1 s2.
  Proof.
    intros (HG & HS & HL & HE & HA & HP & HPa & Hsc1 & Hsc2 & Hpv1 & Hpv2). unfold R.
    split; [exact HG|]. split; [exact HS|]. split; [exact HL|].
    split; [exists []; rewrite !app_nil_r; repeat split; constructor|]. split; [exists []; rewrite !app_nil_r; repeat split; constructor|].
    split; [exists []; rewrite !app_nil_r; repeat split; constructor|]. split; [exact HPa|]. repeat split; assumption.
  Qed.
  Lemma lift_old {A B} n m (P : A -> B -> N -> N -> Prop) c1 c2 :
    (forall XE1 XE2 XA1 XA2 XP1 XP2 C1 C2, bsimo XE1 XE2 XA1 XA2 XP1 XP2 C1 C2 n m P c1 c2) -> bsim' n m P c1 c2.
  Proof.
    intros H s1 s2 p (HR & HE & HA & HP & HC) Hn Hm.
    specialize (H (l_edges s1) (l_edges s2) (l_attrs s1) (l_attrs s2) (l_prints s1) (l_prints s2) (l_scoped s1) (l_scoped s2) s1 s2 p HR Hn Hm).
    destruct (c1 s1 p) as [[[a s1'] p']|e|x|]; try exact H. destruct H as (b & s2' & E2 & HR1 & Hpa & Hg & Hs & HPost).
    exists b, s2'. split; [exact E2|]. split; [|split; [exact Hpa|split; [exact Hg|split; [exact Hs|exact HPost]]]].
    pose proof HR1 as (_ & _ & _ & (es & Ee1 & Ee2 & Ke & Le) & (as_ & Ea1 & Ea2 & Ka & La) & (ps & Ep1 & Ep2 & Kp & Lp) & _ & Hsc1 & Hsc2 & _).
    assert (Hloc : forall l, Forall (lsall eaok okfn (Dn (gn s1')) (Lm (sn s1'))) l -> Forall (msall eaok okfn (Dn (gn s1')) (Lm (sn s1'))) l).
    { intros l Hl. eapply Forall_impl; [|exact Hl]. intros st. apply msall_local. }
    split; [apply (R_rebase _ _ _ _ _ _ _ _ _ _ HR1)|]. split; [|split; [|split]].
    - rewrite Ee1, Ee2. apply RD'_app; [eapply RD'_mono; eauto|exact Ke|apply Hloc, Le].
    - rewrite Ea1, Ea2. apply RD'_app; [eapply RD'_mono; eauto|exact Ka|apply Hloc, La].
    - rewrite Ep1, Ep2. apply RD'_app; [eapply RD'_mono; eauto|exact Kp|apply Hloc, Lp].
    - rewrite Hsc1, Hsc2. eapply RC_mono; eauto.
  Qed.

  (* ---------------- the combinators, for R' ---------------- *)
  Lemma bsim'_ret A B n m (P : A -> B -> N -> N -> Prop) a b : (forall n1 m1, n <= n1 -> m <= m1 -> P a b n1 m1) -> bsim' n m P (ret a) (ret b).
  Proof. intros H s1 s2 p HR Hn Hm. cbn. exists b, s2. split; [reflexivity|]. split; [exact HR|]. split; [reflexivity|]. split; [lia|]. split; [lia|]. apply H; assumption. Qed.
  Lemma bsim'_bind A B C D n m (P : A -> B -> N -> N -> Prop) (Q : C -> D -> N -> N -> Prop) c1 c2 (f1 : A -> M lstate C) (f2 : B -> M lstate D) :
    bsim' n m P c1 c2 ->
    (forall a b n1 m1, n <= n1 -> m <= m1 -> P a b n1 m1 -> bsim' n1 m1 Q (f1 a) (f2 b)) ->
    bsim' n m Q (bind c1 f1) (bind c2 f2).
  Proof.
    intros Hc Hf s1 s2 p HR Hn Hm. specialize (Hc s1 s2 p HR Hn Hm). unfold bind.
    destruct (c1 s1 p) as [[[a s1'] p']|e|x|]; [|rewrite Hc; reflexivity..].
    destruct Hc as (b & s2' & E & HR' & Hpa & Hg & Hs & HP). rewrite E.
    specialize (Hf a b (gn s1') (sn s1') ltac:(lia) ltac:(lia) HP s1' s2' p' HR' (N.le_refl _) (N.le_refl _)).
    destruct (f1 a s1' p') as [[[c s1''] p'']|e|x|]; try exact Hf.
    destruct Hf as (d & s2'' & E2 & HR'' & Hpa2 & Hg2 & Hs2 & HQ). exists d, s2''. split; [exact E2|]. split; [exact HR''|]. split; [congruence|]. split; [lia|]. split; [lia|exact HQ].
  Qed.
  Lemma bsim'_conseq A B n m (P Q : A -> B -> N -> N -> Prop) c1 c2 :
    (forall a b n1 m1, n <= n1 -> m <= m1 -> P a b n1 m1 -> Q a b n1 m1) -> bsim' n m P c1 c2 -> bsim' n m Q c1 c2.
  Proof.
    intros HPQ H s1 s2 p HR Hn Hm. specialize (H s1 s2 p HR Hn Hm). destruct (c1 s1 p) as [[[a s1'] p']|e|x|]; try exact H.
    destruct H as (b & s2' & E & HR' & Hpa & Hg & Hs & HP). exists b, s2'. split; [exact E|]. split; [exact HR'|]. split; [exact Hpa|]. split; [exact Hg|]. split; [exact Hs|].
    apply HPQ; [lia|lia|exact HP].
  Qed.
  Lemma bsim'_seq A B C D n m (P : A -> B -> N -> N -> Prop) (Q : C -> D -> N -> N -> Prop) c1 c2 (k1 : M lstate C) (k2 : M lstate D) :
    bsim' n m P c1 c2 -> (forall n1 m1, n <= n1 -> m <= m1 -> bsim' n1 m1 Q k1 k2) -> bsim' n m Q (c1 ;;; k1) (c2 ;;; k2).
  Proof. intros H1 H2. eapply bsim'_bind; [exact H1|]. intros a b n1 m1 Hn Hm _. apply H2; assumption. Qed.
  Lemma bsim'_fail A B n m (P : A -> B -> N -> N -> Prop) e : bsim' n m P (fail e) (fail e). Proof. intros s1 s2 p _ _ _. reflexivity. Qed.
  Lemma bsim'_panic A B n m (P : A -> B -> N -> N -> Prop) x : bsim' n m P (panic x) (panic x). Proof. intros s1 s2 p _ _ _. reflexivity. Qed.
  Lemma bsim'_oof A B n m (P : A -> B -> N -> N -> Prop) : bsim' n m P out_of_fuel out_of_fuel. Proof. intros s1 s2 p _ _ _. reflexivity. Qed.
  Lemma bsim'_lift2 A B n m (P : A -> B -> N -> N -> Prop) (r1 : res A) (r2 : res B) :
    match r1 with
    | Ok a => exists b, r2 = Ok b /\ forall n1 m1, n <= n1 -> m <= m1 -> P a b n1 m1
    | Err e => r2 = Err e | Panic x => r2 = Panic x | OutOfFuel => r2 = OutOfFuel
    end -> bsim' n m P (lift r1) (lift r2).
  Proof.
    intros H s1 s2 p HR Hn Hm. unfold lift. destruct r1 as [a|e|x|]; [|rewrite H; reflexivity..].
    destruct H as (b & -> & H). exists b, s2. split; [reflexivity|]. split; [exact HR|]. split; [reflexivity|]. split; [lia|]. split; [lia|]. apply H; assumption.
  Qed.
  Lemma bsim'_lift A n m (r : res A) : bsim' n m (@PE A) (lift r) (lift r).
  Proof. apply bsim'_lift2. destruct r; try reflexivity. eexists. split; [reflexivity|]. intros; reflexivity. Qed.
  Lemma bsim'_poll n m l : bsim' n m (@PU unit unit) (lpoll l) (lpoll l).
  Proof.
    intros s1 s2 p HR Hn Hm. unfold lpoll, poll. destruct (poll_step l p) as [q c]. destruct c; [reflexivity|].
    exists tt, s2. split; [reflexivity|]. split; [exact HR|]. split; [reflexivity|]. split; [lia|]. split; [lia|exact I].
  Qed.
  Lemma bsim'_ctx A B n m (P : A -> B -> N -> N -> Prop) c c1 c2 : bsim' n m P c1 c2 -> bsim' n m P (ctx_wrap c c1) (ctx_wrap c c2).
  Proof.
    intros H s1 s2 p HR Hn Hm. specialize (H s1 s2 p HR Hn Hm). unfold ctx_wrap.
    destruct (c1 s1 p) as [[[a s1'] p']|e|x|]; [|rewrite H; reflexivity..].
    destruct H as (b & s2' & E & H). rewrite E. exists b, s2'. split; [reflexivity|exact H].
  Qed.
  Lemma bsim'_get A B n m (P : A -> B -> N -> N -> Prop) (f1 : lstate -> M lstate A) (f2 : lstate -> M lstate B) :
    (forall s1 s2, R' s1 s2 -> n <= gn s1 -> m <= sn s1 -> bsim' (gn s1) (sn s1) P (f1 s1) (f2 s2)) ->
    bsim' n m P (s <- get_state ;; f1 s) (s <- get_state ;; f2 s).
  Proof. intros H s1 s2 p HR Hn Hm. unfold bind, get_state. apply (H s1 s2 HR Hn Hm s1 s2 p HR (N.le_refl _) (N.le_refl _)). Qed.
  Lemma bsim'_mapM A A' B B' n m (P : B -> B' -> N -> N -> Prop) (f1 : A -> M lstate B) (f2 : A' -> M lstate B') (Rel : A -> A' -> N -> N -> Prop) l l' :
    pmono P -> pmono Rel ->
    (forall x y n1 m1, n <= n1 -> m <= m1 -> In x l -> Rel x y n1 m1 -> bsim' n1 m1 P (f1 x) (f2 y)) ->
    Forall2 (fun x y => Rel x y n m) l l' ->
    bsim' n m (PL P) (mapM f1 l) (mapM f2 l').
  Proof.
    intros HP HRel. revert n m l'. induction l as [|x l IH]; intros n m l' Hf HF; inversion HF as [|? y ? l2 Hxy HF']; subst; cbn [mapM].
    - apply bsim'_ret. intros; constructor.
    - eapply bsim'_bind; [apply Hf; [apply N.le_refl|apply N.le_refl|left; reflexivity|exact Hxy]|]. intros b b' n1 m1 Hn1 Hm1 Hb.
      eapply bsim'_bind.
      + apply IH.
        * intros x0 y0 n2 m2 Hn2 Hm2 Hin. apply Hf; [lia|lia|right; exact Hin].
        * eapply Forall2_impl; [|exact HF']. intros x0 y0. apply HRel; assumption.
      + intros bs bs' n2 m2 Hn2 Hm2 Hbs. apply bsim'_ret. intros n3 m3 Hn3 Hm3. constructor; [eapply HP; [| |exact Hb]; lia|].
        eapply (PL_mono _ _ P HP); [| |exact Hbs]; assumption.
  Qed.
  Lemma bsim'_iterM A A' n m (f1 : A -> M lstate unit) (f2 : A' -> M lstate unit) (Rel : A -> A' -> N -> N -> Prop) l l' :
    pmono Rel ->
    (forall x y n1 m1, n <= n1 -> m <= m1 -> In x l -> Rel x y n1 m1 -> bsim' n1 m1 (@PU unit unit) (f1 x) (f2 y)) ->
    Forall2 (fun x y => Rel x y n m) l l' ->
    bsim' n m (@PU unit unit) (iterM f1 l) (iterM f2 l').
  Proof.
    intros HRel. revert n m l'. induction l as [|x l IH]; intros n m l' Hf HF; inversion HF as [|? y ? l2 Hxy HF']; subst; cbn [iterM].
    - apply bsim'_ret. intros; exact I.
    - eapply bsim'_bind; [apply Hf; [apply N.le_refl|apply N.le_refl|left; reflexivity|exact Hxy]|]. intros b b' n1 m1 Hn1 Hm1 _.
      apply IH.
      + intros x0 y0 n2 m2 Hn2 Hm2 Hin. apply Hf; [lia|lia|right; exact Hin].
      + eapply Forall2_impl; [|exact HF']. intros x0 y0. apply HRel; assumption.
  Qed.
  Lemma bsim'_mapM_same A B B' n m (P : B -> B' -> N -> N -> Prop) (f1 : A -> M lstate B) (f2 : A -> M lstate B') l :
    pmono P -> (forall x n1 m1, n <= n1 -> m <= m1 -> In x l -> bsim' n1 m1 P (f1 x) (f2 x)) -> bsim' n m (PL P) (mapM f1 l) (mapM f2 l).
  Proof.
    intros HP Hf. apply (bsim'_mapM _ _ _ _ n m P f1 f2 (fun x y _ _ => x = y)); [exact HP|intros a b n1 m1 n2 m2 _ _ H; exact H| |apply Forall2_same; reflexivity].
    intros x y n1 m1 Hn1 Hm1 Hin <-. apply Hf; assumption.
  Qed.
  Lemma bsim'_iterM_same A n m (f1 f2 : A -> M lstate unit) l :
    (forall x n1 m1, n <= n1 -> m <= m1 -> In x l -> bsim' n1 m1 (@PU unit unit) (f1 x) (f2 x)) -> bsim' n m (@PU unit unit) (iterM f1 l) (iterM f2 l).
  Proof.
    intros Hf. apply (bsim'_iterM _ _ n m f1 f2 (fun x y _ _ => x = y)); [intros a b n1 m1 n2 m2 _ _ H; exact H| |apply Forall2_same; reflexivity].
    intros x y n1 m1 Hn1 Hm1 Hin <-. apply Hf; assumption.
  Qed.

  Lemma bsim'_strengthen A B n m (P : A -> B -> N -> N -> Prop) (Q : A -> Prop) c1 c2 :
    bsim' n m P c1 c2 -> (forall s p a s' p', c1 s p = Ok (a, s', p') -> Q a) -> bsim' n m (fun a b n1 m1 => P a b n1 m1 /\ Q a) c1 c2.
  Proof.
    intros H HQ s1 s2 p HR Hn Hm. specialize (H s1 s2 p HR Hn Hm). destruct (c1 s1 p) as [[[a s1'] p']|e|x|] eqn:E1; try exact H.
    destruct H as (b & s2' & E & HR' & Hpa & Hg & Hs & HP). exists b, s2'. split; [exact E|]. split; [exact HR'|]. split; [exact Hpa|]. split; [exact Hg|]. split; [exact Hs|]. split; [exact HP|eapply HQ; eauto].
  Qed.

  (* states that only differ in the deferred lists and the cells *)
  Lemma Rold_frame XE1 XE2 XA1 XA2 XP1 XP2 C1 C2 s1 s2 s1' s2' : Rold XE1 XE2 XA1 XA2 XP1 XP2 C1 C2 s1 s2 ->
    l_graph s1' = l_graph s1 -> l_graph s2' = l_graph s2 -> l_store s1' = l_store s1 -> l_store s2' = l_store s2 ->
    l_locals s1' = l_locals s1 -> l_locals s2' = l_locals s2 -> l_params s1' = l_params s1 -> l_params s2' = l_params s2 ->
    l_prev s1' = l_prev s1 -> l_prev s2' = l_prev s2 ->
    Rold (l_edges s1') (l_edges s2') (l_attrs s1') (l_attrs s2') (l_prints s1') (l_prints s2') (l_scoped s1') (l_scoped s2') s1' s2'.
  Proof.
    intros (HG & HS & HL & _ & _ & _ & HPa & _ & _ & Hpv1 & Hpv2) G1' G2' T1' T2' L1' L2' A1' A2' V1' V2'. unfold R, gn, sn in *.
    rewrite G1', G2', T1', T2', L1', L2', A1', A2', V1', V2'. split; [exact HG|]. split; [exact HS|]. split; [exact HL|].
    split; [exists []; rewrite !app_nil_r; repeat split; constructor|]. split; [exists []; rewrite !app_nil_r; repeat split; constructor|].
    split; [exists []; rewrite !app_nil_r; repeat split; constructor|]. split; [exact HPa|]. repeat split; assumption.
  Qed.

  Lemma bsim'_push_lstmt n m st : msall eaok okfn (Dn n) (Lm m) st -> bsim' n m (@PU unit unit) (push_lstmt st) (push_lstmt (lsren sg sl st)).
  Proof.
    intros Hst s1 s2 p (HR & HE & HA & HP & HC) Hn Hm. unfold push_lstmt, upd, modify.
    assert (Hst' : msall eaok okfn (Dn (gn s1)) (Lm (sn s1)) st).
    { eapply msall_impl; [| |exact Hst]; [intros i; apply Dn_mono', Hn|intros i; apply Lm_mono', Hm]. }
    destruct st as [nd attrs dbg|a b ea dbg|a b attrs dbg|args dbg]; cbn [lsren];
      (exists tt; eexists; split; [reflexivity|]; split; [|split; [reflexivity|split; [apply N.le_refl|split; [apply N.le_refl|exact I]]]]);
      (split; [eapply Rold_frame; [exact HR|reflexivity..]|]); unfold gn, sn in *; cbn [l_graph l_store l_edges l_attrs l_prints l_scoped].
    - split; [exact HE|]. split; [|split; [exact HP|exact HC]].
      apply (RD'_app is_astmt _ _ _ _ _ _ [LSAttrNode nd attrs dbg] HA); [repeat constructor|constructor; [exact Hst'|constructor]].
    - split; [|split; [exact HA|split; [exact HP|exact HC]]].
      apply (RD'_app is_estmt _ _ _ _ _ _ [LSEdge a b ea dbg] HE); [repeat constructor|constructor; [exact Hst'|constructor]].
    - split; [exact HE|]. split; [|split; [exact HP|exact HC]].
      apply (RD'_app is_astmt _ _ _ _ _ _ [LSAttrEdge a b attrs dbg] HA); [repeat constructor|constructor; [exact Hst'|constructor]].
    - split; [exact HE|]. split; [exact HA|]. split; [|exact HC].
      apply (RD'_app is_pstmt _ _ _ _ _ _ [LSPrint args dbg] HP); [repeat constructor|constructor; [exact Hst'|constructor]].
  Qed.

  Lemma scoped_add_eq sc name v dbg s p : allunf (l_scoped s) ->
    scoped_store_add sc name v dbg s p = Ok (tt, ScPermSound.wscoped (add_def (l_scoped s) (name, (sc, v, dbg))) s, p).
  Proof.
    intros Hu. unfold scoped_store_add, cell_get, bind, get_state, ret, add_def. cbn [fst snd].
    destruct (alist_get name (l_scoped s)) as [c|] eqn:E; [|reflexivity]. destruct (Hu _ _ E) as [ps ->]. reflexivity.
  Qed.
  Lemma bsim'_scoped_add n m sv name loc dbg : vall noid sv -> Lm m loc ->
    bsim' n m (@PU unit unit) (scoped_store_add (LValue sv) name (LVar loc) dbg) (scoped_store_add (LValue sv) name (LVar (sl loc)) dbg).
  Proof.
    intros Hsv Hloc s1 s2 p (HR & HE & HA & HP & (defs & Ec1 & Ec2 & Hd)) Hn Hm.
    assert (U1 : allunf (l_scoped s1)) by (rewrite Ec1; apply allunf_addl, Hunf1).
    assert (U2 : allunf (l_scoped s2)) by (rewrite Ec2; apply allunf_addl, Hunf2).
    rewrite (scoped_add_eq _ _ _ _ s1 p U1), (scoped_add_eq _ _ _ _ s2 p U2). exists tt. eexists. split; [reflexivity|].
    split; [|split; [reflexivity|split; [apply N.le_refl|split; [apply N.le_refl|exact I]]]].
    split; [eapply Rold_frame; [exact HR|reflexivity..]|]. split; [exact HE|]. split; [exact HA|]. split; [exact HP|].
    exists (defs ++ [(name, (LValue sv, LVar loc, dbg))]). cbn [ScPermSound.wscoped l_scoped]. rewrite map_app, !addl_app, <- Ec1, <- Ec2. split; [reflexivity|].
    split; [cbn [map addl fold_left]; unfold dfren; cbn [fst snd lvren]; rewrite (vren_noid _ sv Hsv); reflexivity|].
    apply Forall_app. split; [exact Hd|]. constructor; [|constructor]. split; cbn [fst snd]; [eauto|]. exists loc. split; [reflexivity|]. eapply Lm_mono'; [exact Hm|exact Hloc].
  Qed.

  Section Interp2.
    Context {rx : Type}.
    Variables (t : tree) (fl : file) (cfg : config) (glob : globals) (regexes : list rx)
              (find : rx -> str -> option (list (option (N * N))))
              (call : ident -> graph -> list value -> res (value * graph)).
    Hypothesis Hcall : forall f, okfn f -> call_ok call f.
    Hypothesis Hglob : forall name v, globals_get glob name = Some v -> vall (fun i => i < n0) v.
    Hypothesis Hea : forall l : loc, eaok (match c_loc_attr cfg with Some k => [(k, VStr (loc_text l))] | None => [] end).
    Variable qm : qmatch.
    Hypothesis Hsh : Forall (fun sh => All (fattr okfn qm) (sh_attrs sh)) (f_shorthands fl).

    Ltac old L := apply lift_old; intros XE1 XE2 XA1 XA2 XP1 XP2 C1 C2;
      eapply (L eaok okfn n0 gb1 kb1 gb2 kb2 Hbase1 Hbase2 G1 G2 S1 S2 XE1 XE2 XA1 XA2 XP1 XP2 C1 C2 PV1 PV2 PA1 PA2 HG1 HG2 HS1 HS2).

    Notation leval' := (leval t fl glob call).
    Notation PLV' := (PLV okfn n0 gb1 kb1 gb2 kb2).
    Notation PV' := (PV n0 gb1 gb2).
    Notation PAT' := (PAT okfn n0 gb1 kb1 gb2 kb2).

    Definition PMV : lvalue -> lvalue -> N -> N -> Prop := fun a b n m => b = lr a /\ mvall okfn (Dn n) (Lm m) a.
    Lemma PMV_mono : pmono PMV.
    Proof. intros a b n m n' m' Hn Hm [H1 H2]. split; [exact H1|]. eapply mvall_impl; [| |exact H2]; [intros i; apply Dn_mono', Hn|intros i; apply Lm_mono', Hm]. Qed.
    Lemma PL_PMV vs vs' n m : PL PMV vs vs' n m -> vs' = map lr vs /\ Forall (mvall okfn (Dn n) (Lm m)) vs.
    Proof. unfold PL. induction 1 as [|v w vs vs' [H1 H2] _ [IH1 IH2]]; [split; [reflexivity|constructor]|]. subst. split; [reflexivity|constructor; assumption]. Qed.
    Lemma from_nodes_noid' ns q v : from_nodes ns q = Ok v -> vall noid v.
    Proof.
      destruct q; cbn [from_nodes]; try discriminate.
      - destruct ns; [discriminate|]. intros [= <-]. exact I.
      - destruct ns; intros [= <-]; exact I.
      - intros [= <-]. rewrite vall_list. apply Forall_forall. intros x Hx. apply in_map_iff in Hx as (k & <- & _). exact I.
      - intros [= <-]. rewrite vall_list. apply Forall_forall. intros x Hx. apply in_map_iff in Hx as (k & <- & _). exact I.
    Qed.

    (* a capture: a literal, id-free value, the same in both runs *)
    Lemma bsim'_capture fuel le sc n m : is_capture sc ->
      bsim' n m (fun a b _ _ => b = a /\ exists v, a = LValue v /\ vall noid v) (leval' fuel le sc) (leval' fuel le sc).
    Proof.
      intros Hc. destruct sc; try contradiction. destruct fuel as [|fuel]; [apply bsim'_oof|]. cbn [leval].
      eapply bsim'_bind; [apply (bsim'_lift2 _ _ n m (fun a b _ _ => b = a /\ vall noid a))|].
      - destruct (from_nodes (nodes_for_capture (ll_match le) file_idx) q) as [v|e|x|] eqn:Ef; try reflexivity.
        exists v. split; [reflexivity|]. intros. split; [reflexivity|]. eapply from_nodes_noid'; eauto.
      - intros v v' n1 m1 _ _ [-> Hv]. apply bsim'_ret. intros. split; [reflexivity|eauto].
    Qed.

    Lemma bsim'_mleval : forall fuel le e n m, mexpr okfn qm e -> bsim' n m PMV (leval' fuel le e) (leval' fuel le e).
    Proof.
      induction fuel as [|fuel IH]; intros le e n m Hm; [apply bsim'_oof|].
      assert (Hloc : fexpr okfn qm e -> bsim' n m PMV (leval' (S fuel) le e) (leval' (S fuel) le e)).
      { intros Hf. eapply bsim'_conseq; [|old bsim_leval; eauto]. intros a b n1 m1 _ _ [-> Hl]. split; [reflexivity|apply mvall_local, Hl]. }
      destruct e; cbn [mexpr] in Hm; destruct Hm as [Hf|Hm]; try (apply Hloc, Hf); try contradiction.
      - cbn [leval]. eapply bsim'_bind; [apply bsim'_mapM_same; [apply PMV_mono|]; intros x n1 m1 _ _ Hin; apply IH; eapply All_In; eauto|].
        intros vs vs' n1 m1 _ _ Hvs. apply PL_PMV in Hvs. destruct Hvs as [-> Hall]. apply bsim'_ret. intros n2 m2 Hn2 Hm2. split; [reflexivity|].
        cbn [mvall]. right. apply mvall_all. eapply Forall_impl; [|exact Hall]. intros lv. apply mvall_impl; [intros i; apply Dn_mono', Hn2|intros i; apply Lm_mono', Hm2].
      - cbn [leval]. eapply bsim'_bind; [apply IH, Hm|]. intros sv sv' n1 m1 _ _ [-> Hsv].
        apply bsim'_ret. intros n2 m2 Hn2 Hm2. split; [reflexivity|]. cbn [mvall]. right.
        eapply mvall_impl; [| |exact Hsv]; [intros i; apply Dn_mono', Hn2|intros i; apply Lm_mono', Hm2].
    Qed.

    (* ---- attributes ---- *)
    Definition PMAT : list (ident * lvalue) -> list (ident * lvalue) -> N -> N -> Prop :=
      fun a b n m => b = map (atren sg sl) a /\ Forall (matall okfn (Dn n) (Lm m)) a.
    Lemma PMAT_mono : pmono PMAT.
    Proof.
      intros a b n m n' m' Hn Hm [H1 H2]. split; [exact H1|]. eapply Forall_impl; [|exact H2]. intros x. apply mvall_impl; [intros i; apply Dn_mono', Hn|intros i; apply Lm_mono', Hm].
    Qed.
    Lemma PL_PMAT outs outs' n m : PL PMAT outs outs' n m -> PMAT (concat outs) (concat outs') n m.
    Proof.
      unfold PL. induction 1 as [|a b outs outs' [H1 H2] _ [IH1 IH2]]; cbn [concat]; [split; [reflexivity|constructor]|]. subst.
      split; [rewrite map_app, IH1; reflexivity|]. apply Forall_app. split; assumption.
    Qed.
    Notation lexec_attr' := (lexec_attr t fl glob call).
    Lemma bsim'_mattr fuel le a n m : mattr fl okfn qm a -> bsim' n m PMAT (lexec_attr' fuel le a) (lexec_attr' fuel le a).
    Proof.
      destruct a as [name e]. cbn [mattr]. intros [Hf|[Hm Hns]].
      - eapply bsim'_conseq; [|old bsim_lexec_attr; eauto]. intros a b n1 m1 _ _ [-> Hl]. split; [reflexivity|].
        eapply Forall_impl; [|exact Hl]. intros x. apply mvall_local.
      - destruct fuel as [|fuel]; [apply bsim'_oof|]. cbn [lexec_attr]. eapply bsim'_seq; [apply bsim'_poll|]. intros n1 m1 _ _.
        eapply bsim'_bind; [apply bsim'_mleval, Hm|]. intros v v' n2 m2 _ _ [-> Hv]. rewrite Hns.
        apply bsim'_ret. intros n3 m3 Hn3 Hm3. split; [reflexivity|]. constructor; [|constructor]. unfold matall. cbn [snd].
        eapply mvall_impl; [| |exact Hv]; [intros i; apply Dn_mono', Hn3|intros i; apply Lm_mono', Hm3].
    Qed.
    Lemma bsim'_mattrs fuel le attrs n m : All (mattr fl okfn qm) attrs ->
      bsim' n m (fun a b n m => PMAT (concat a) (concat b) n m) (mapM (lexec_attr' fuel le) attrs) (mapM (lexec_attr' fuel le) attrs).
    Proof.
      intros Ha. eapply bsim'_conseq; [|apply bsim'_mapM_same; [apply PMAT_mono|]; intros a n1 m1 _ _ Hin; apply bsim'_mattr; eapply All_In; eauto].
      intros a b n1 m1 _ _ H. apply PL_PMAT, H.
    Qed.

    (* ---- definitions of variables ---- *)
    Lemma store_add_shape lv dbg s p a s' p' : store_add lv dbg s p = Ok (a, s', p') -> exists loc, a = LVar loc.
    Proof. rewrite store_add_eq. intros H. inversion H. eauto. Qed.
    Lemma bsim'_lvar_add_s fuel le v x n m : svar okfn qm v -> lvall okfn (Dn n) (Lm m) x ->
      bsim' n m (@PU unit unit) (lvar_add t fl glob call fuel le v x false) (lvar_add t fl glob call fuel le v (lr x) false).
    Proof.
      intros Hv Hx. destruct v as [name l|sc name l]; cbn [svar] in Hv.
      - old bsim_lvar_add; [exact I|exact Hx].
      - destruct Hv as [Hcap _]. cbn [lvar_add]. eapply bsim'_bind; [apply bsim'_capture, Hcap|]. intros sv sv' n1 m1 Hn1 Hm1 (-> & v0 & -> & Hv0).
        eapply bsim'_bind.
        + apply (bsim'_strengthen _ _ n1 m1 PLV' (fun a => exists loc, a = LVar loc)); [|intros s p a s' p' H; eapply store_add_shape; eauto].
          old bsim_store_add. eapply lvall_impl; [| |exact Hx]; [intros i; apply Dn_mono', Hn1|intros i; apply Lm_mono', Hm1].
        + intros var var' n2 m2 _ _ [[-> Hvar] [loc ->]]. cbn [lvall lvren] in *. apply bsim'_scoped_add; assumption.
    Qed.

    (* ---- loops ---- *)
    Lemma bsim'_lpoll_n k l n m : bsim' n m (@PU unit unit) (lpoll_n k l) (lpoll_n k l).
    Proof. revert n m. induction k as [|k IH]; intros n m; cbn [lpoll_n]; [apply bsim'_ret; intros; exact I|]. eapply bsim'_seq; [apply bsim'_poll|]. intros. apply IH. Qed.
    Lemma bsim'_lscan_loop (run1 run2 : list str -> list stmt -> M lstate unit) arms rs subject :
      (forall caps r body l n m, In (r, body, l) arms -> bsim' n m (@PU unit unit) (run1 caps body) (run2 caps body)) ->
      forall sfuel i n m, bsim' n m (@PU unit unit) (lscan_loop find run1 arms rs subject sfuel i) (lscan_loop find run2 arms rs subject sfuel i).
    Proof.
      intros Hrun. induction sfuel as [|sfuel IHs]; intros i n m; cbn [lscan_loop]; [apply bsim'_oof|].
      destruct (N.ltb i (N.of_nat (length subject))); [|apply bsim'_ret; intros; exact I]. cbv zeta.
      eapply bsim'_seq; [apply bsim'_lpoll_n|]. intros n1 m1 _ _.
      destruct (arm_select find rs (skipn (N.to_nat i) subject)) as [|k|k caps]; [apply bsim'_ret; intros; exact I|apply bsim'_fail|].
      destruct (nth_error arms (N.to_nat k)) as [[[r body] l']|] eqn:En; [|apply bsim'_panic].
      eapply bsim'_seq; [old bsim_lpush_frame|]. intros n2 m2 _ _. eapply bsim'_seq; [eapply Hrun, nth_error_In, En|]. intros n3 m3 _ _.
      eapply bsim'_seq; [old bsim_lpop_frame|]. intros n4 m4 _ _. apply IHs.
    Qed.
    Lemma bsim'_lif_loop (test : cond -> M lstate bool) (run1 run2 : list stmt -> M lstate unit) :
      forall arms, (forall c conds body l n m, In (conds, body, l) arms -> In c conds -> bsim' n m (@PE bool) (test c) (test c)) ->
      (forall conds body l n m, In (conds, body, l) arms -> bsim' n m (@PU unit unit) (run1 body) (run2 body)) ->
      forall n m, bsim' n m (@PU unit unit) (lif_loop test run1 arms) (lif_loop test run2 arms).
    Proof.
      induction arms as [|[[conds body] l'] arms IHa]; intros Ht Hr n m; cbn [lif_loop]; [apply bsim'_ret; intros; exact I|].
      eapply bsim'_bind; [apply bsim'_mapM_same; [apply PE_mono|]; intros c n1 m1 _ _ Hin; eapply Ht; [left; reflexivity|exact Hin]|].
      intros bs bs' n1 m1 _ _ Hbs. assert (bs' = bs) as -> by (clear -Hbs; unfold PL, PE in Hbs; induction Hbs; congruence).
      destruct (forallb (fun b => b) bs).
      - eapply bsim'_seq; [old bsim_lpush_frame|]. intros n2 m2 _ _. eapply bsim'_seq; [eapply Hr; left; reflexivity|]. intros n3 m3 _ _. old bsim_lpop_frame.
      - apply IHa; [intros c conds0 body0 l0 n2 m2 Hin; eapply Ht; right; exact Hin|intros conds0 body0 l0 n2 m2 Hin; eapply Hr; right; exact Hin].
    Qed.

    (* ---- statements ---- *)
    Notation sstmt' := (sstmt fl okfn qm).
    Notation lexec_stmt' := (lexec_stmt t fl cfg glob regexes find call).
    Definition PMOL : option lvalue -> option lvalue -> N -> N -> Prop :=
      fun a b n m => b = option_map lr a /\ match a with Some lv => mvall okfn (Dn n) (Lm m) lv | None => True end.
    Lemma PMOL_mono : pmono PMOL.
    Proof. intros a b n m n' m' Hn Hm [H1 H2]. split; [exact H1|]. destruct a; [eapply mvall_impl; [| |exact H2]; [intros i; apply Dn_mono', Hn|intros i; apply Lm_mono', Hm]|exact I]. Qed.
    Lemma PL_PMOL l l' n m : PL PMOL l l' n m -> l' = map (option_map lr) l /\ Forall (fun o => match o with Some lv => mvall okfn (Dn n) (Lm m) lv | None => True end) l.
    Proof. unfold PL. induction 1 as [|a b l l' [H1 H2] _ [IH1 IH2]]; [split; [reflexivity|constructor]|]. subst. split; [reflexivity|constructor; assumption]. Qed.

    Lemma bsim'_lexec_stmt : forall fuel le s n m, sstmt' s -> bsim' n m (@PU unit unit) (lexec_stmt' fuel le s) (lexec_stmt' fuel le s).
    Proof.
      induction fuel as [|fuel IH]; intros le s n m Hs; [apply bsim'_oof|].
      assert (Hblock : forall le' body n1 m1, All sstmt' body ->
                 bsim' n1 m1 (@PU unit unit) (iterM (fun st => lexec_stmt' fuel (ll_with_ctx le' (ctx_update (ll_ctx le') st)) st) body)
                      (iterM (fun st => lexec_stmt' fuel (ll_with_ctx le' (ctx_update (ll_ctx le') st)) st) body)).
      { intros le' body n1 m1 Hb. apply bsim'_iterM_same. intros st n2 m2 _ _ Hin. apply IH. eapply All_In; eauto. }
      assert (Harm : forall le' body n1 m1, All sstmt' body ->
                 bsim' n1 m1 (@PU unit unit)
                      (iterM (fun st => let c := ctx_update (ll_ctx le') st in
                                        ctx_wrap (CtxStmts [c]) (ctx_wrap CtxOther (lexec_stmt' fuel (ll_with_ctx le' c) st))) body)
                      (iterM (fun st => let c := ctx_update (ll_ctx le') st in
                                        ctx_wrap (CtxStmts [c]) (ctx_wrap CtxOther (lexec_stmt' fuel (ll_with_ctx le' c) st))) body)).
      { intros le' body n1 m1 Hb. apply bsim'_iterM_same. intros st n2 m2 _ _ Hin. cbv zeta. apply bsim'_ctx, bsim'_ctx. apply IH. eapply All_In; eauto. }
      assert (Hold : fstmt okfn qm s -> bsim' n m (@PU unit unit) (lexec_stmt' (S fuel) le s) (lexec_stmt' (S fuel) le s)).
      { intros Hf. old bsim_lexec_stmt; eauto. }
      destruct s; cbn [sstmt] in Hs.
      - (* let *) destruct Hs as [Hv He]. cbn [lexec_stmt]. eapply bsim'_seq; [apply bsim'_poll|intros n1 m1 _ _].
        eapply bsim'_bind; [old bsim_leval; eauto|]. intros x x' n2 m2 _ _ [-> Hx]. apply bsim'_lvar_add_s; assumption.
      - apply Hold. exact Hs.
      - apply Hold. exact Hs.
      - (* node *) cbn [lexec_stmt]. eapply bsim'_seq; [apply bsim'_poll|intros n1 m1 _ _].
        eapply bsim'_bind; [old bsim_ladd_node|]. intros a a' n2 m2 _ _ (-> & Ha1 & Ha2).
        eapply bsim'_seq; [old bsim_lopt_node_attr; [exact Ha1|exact Ha2|exact I]|]. intros n3 m3 Hn3 _.
        eapply bsim'_seq; [old bsim_lopt_node_attr; [exact Ha1|lia|exact I]|]. intros n4 m4 Hn4 _.
        apply (bsim'_seq unit unit unit unit n4 m4 (@PU unit unit) (@PU unit unit)).
        + destruct (c_match_attr cfg) as [k|]; [|apply bsim'_ret; intros; exact I].
          eapply bsim'_bind; [old bsim_lfull_match_node|]. intros mn mn' n5 m5 Hn5 _ <-. old bsim_ladd_node_attr; [exact Ha1|lia|exact I].
        + intros n5 m5 Hn5 _. apply (bsim'_lvar_add_s fuel le v (LValue (VGraph a)) n5 m5 Hs). cbn [lvall vall]. right. lia.
      - (* attr (node) *) destruct Hs as [Hn Ha]. cbn [lexec_stmt]. eapply bsim'_seq; [apply bsim'_poll|intros n1 m1 _ _].
        eapply bsim'_bind; [apply bsim'_mleval, Hn|]. intros nv nv' n2 m2 _ _ [-> Hnv].
        eapply bsim'_bind; [apply bsim'_mattrs, Ha|]. intros outs outs' n3 m3 Hn3 Hm3 [Ho1 Ho2]. cbv beta in Ho1. rewrite Ho1.
        apply (bsim'_push_lstmt n3 m3 (LSAttrNode nv (concat outs) (ll_ctx le))). cbn [msall]. split; [|exact Ho2].
        eapply mvall_impl; [| |exact Hnv]; [intros i; apply Dn_mono', Hn3|intros i; apply Lm_mono', Hm3].
      - (* edge *) destruct Hs as [Ha Hb]. cbn [lexec_stmt]. eapply bsim'_seq; [apply bsim'_poll|intros n1 m1 _ _].
        eapply bsim'_bind; [apply bsim'_mleval, Ha|]. intros a a' n2 m2 _ _ [-> Hla].
        eapply bsim'_bind; [apply bsim'_mleval, Hb|]. intros b b' n3 m3 Hn3 Hm3 [-> Hlb]. cbv zeta.
        apply (bsim'_push_lstmt n3 m3 (LSEdge a b _ (ll_ctx le))). cbn [msall]. split; [|split; [exact Hlb|apply Hea]].
        eapply mvall_impl; [| |exact Hla]; [intros i; apply Dn_mono', Hn3|intros i; apply Lm_mono', Hm3].
      - (* attr (edge) *) destruct Hs as (Ha & Hb & Hat). cbn [lexec_stmt]. eapply bsim'_seq; [apply bsim'_poll|intros n1 m1 _ _].
        eapply bsim'_bind; [apply bsim'_mleval, Ha|]. intros a a' n2 m2 _ _ [-> Hla].
        eapply bsim'_bind; [apply bsim'_mleval, Hb|]. intros b b' n3 m3 Hn3 Hm3 [-> Hlb].
        eapply bsim'_bind; [apply bsim'_mattrs, Hat|]. intros outs outs' n4 m4 Hn4 Hm4 [Ho1 Ho2]. cbv beta in Ho1. rewrite Ho1.
        apply (bsim'_push_lstmt n4 m4 (LSAttrEdge a b (concat outs) (ll_ctx le))). cbn [msall].
        split; [eapply mvall_impl; [| |exact Hla]; [intros i; apply Dn_mono'; lia|intros i; apply Lm_mono'; lia]|].
        split; [eapply mvall_impl; [| |exact Hlb]; [intros i; apply Dn_mono'; lia|intros i; apply Lm_mono'; lia]|exact Ho2].
      - (* scan *) destruct Hs as [Hv Harms]. cbn [lexec_stmt]. eapply bsim'_seq; [apply bsim'_poll|intros n1 m1 _ _].
        eapply bsim'_bind; [old bsim_leager; eauto|]. intros sv sv' n2 m2 _ _ [-> Hsv]. rewrite as_str_vr.
        eapply bsim'_bind; [apply bsim'_lift|]. intros subject subject' n3 m3 _ _ <-.
        destruct (arm_table regexes arms) as [rs|]; [|apply bsim'_panic].
        apply bsim'_lscan_loop. intros caps r body l' n4 m4 Hin. apply (Harm (ll_with_caps le caps) body). apply (All_In _ _ _ Harms Hin).
      - (* print *) cbn [lexec_stmt]. eapply bsim'_seq; [apply bsim'_poll|intros n1 m1 _ _]. eapply bsim'_bind.
        + apply (bsim'_mapM_same _ _ _ n1 m1 PMOL); [apply PMOL_mono|]. intros e n2 m2 _ _ Hin. pose proof (All_In _ _ _ Hs Hin) as He.
          assert (Hgen : bsim' n2 m2 PMOL (lv <- leval t fl glob call fuel le e ;; ret (Some lv)) (lv <- leval t fl glob call fuel le e ;; ret (Some lv))).
          { eapply bsim'_bind; [apply bsim'_mleval, He|]. intros lv lv' n3 m3 _ _ [-> Hlv]. apply bsim'_ret. intros n4 m4 Hn4 Hm4. split; [reflexivity|].
            eapply mvall_impl; [| |exact Hlv]; [intros i; apply Dn_mono', Hn4|intros i; apply Lm_mono', Hm4]. }
          destruct e; try exact Hgen. apply bsim'_ret. intros. split; [reflexivity|exact I].
        + intros args args' n2 m2 _ _ Hargs. apply PL_PMOL in Hargs. destruct Hargs as [-> Hall].
          apply (bsim'_push_lstmt n2 m2 (LSPrint args (ll_ctx le))). exact Hall.
      - (* if *) cbn [lexec_stmt]. eapply bsim'_seq; [apply bsim'_poll|intros n1 m1 _ _]. apply bsim'_lif_loop.
        + intros c conds body l' n2 m2 Hin Hc. old bsim_ltest_cond; eauto. pose proof (All_In _ _ _ Hs Hin) as [Hcs _]. apply (All_In _ _ _ Hcs Hc).
        + intros conds body l' n2 m2 Hin. apply Hblock. pose proof (All_In _ _ _ Hs Hin) as [_ Hb]. exact Hb.
      - (* for *) destruct Hs as [Hv Hbody]. cbn [lexec_stmt]. eapply bsim'_seq; [apply bsim'_poll|intros n1 m1 _ _].
        eapply bsim'_bind; [old bsim_leager; eauto|]. intros lv lv' n2 m2 _ _ [-> Hlv].
        eapply bsim'_bind; [old bsim_as_list; exact Hlv|]. intros vals vals' n3 m3 _ _ [-> Hvals].
        eapply bsim'_seq; [old bsim_lpush_frame|]. intros n4 m4 Hn4 _. eapply bsim'_seq; [|intros; old bsim_lpop_frame].
        apply (bsim'_iterM _ _ n4 m4 _ _ PV' vals (map (vren sg) vals)).
        + apply (PV_mono n0 gb1 kb1 gb2 kb2 Hbase1 Hbase2 G1 G2 S1 S2 HG1 HG2 HS1 HS2).
        + intros v w n5 m5 _ _ _ [-> Hv']. eapply bsim'_seq; [old bsim_lclear_frame|]. intros n6 m6 Hn6 _.
          eapply bsim'_seq; [old bsim_lunscoped_add; cbn [lvall]; eapply vall_impl; [|exact Hv']; intros i; apply Dn_mono', Hn6|].
          intros n7 m7 _ _. apply Hblock, Hbody.
        + apply Forall_PV. eapply valls_impl; [|exact Hvals]. intros i. apply Dn_mono', Hn4.
    Qed.

    Lemma bsim'_lexec_stanza fuel st n m : All sstmt' (st_stmts st) ->
      bsim' n m (@PU unit unit) (lexec_stanza t fl cfg glob regexes find call fuel st qm) (lexec_stanza t fl cfg glob regexes find call fuel st qm).
    Proof.
      intros Hst. unfold lexec_stanza. eapply bsim'_seq; [apply bsim'_poll|]. intros n1 m1 _ _. eapply bsim'_seq; [old bsim_lclear_frame|]. intros n2 m2 _ _.
      cbv zeta. destruct (nodes_for_capture qm (st_full_file_idx st)) as [|nd ns]; [apply bsim'_panic|].
      apply bsim'_iterM_same. intros s n3 m3 _ _ Hin. apply bsim'_ctx. apply bsim'_lexec_stmt. eapply All_In; eauto.
    Qed.
  End Interp2.
End Shift2.
