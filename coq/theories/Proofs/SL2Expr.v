(* Proofs/SL2Expr.v — C02 version 2, part 2: the fragment WITH scoped variables, the relation between the two
   interpreters' environments, and the simulation of expressions.
   Fragment (`fexpr2 b e`, b = true: PURE mode): pure expressions contain no scoped read and mention only
   variables whose name is declared pure (`purev`); every binding of a pure name has a pure defining expression
   (Proofs/SL2Stmt.v).  Eager positions (the list of a comprehension, conditions, scan subjects, loop lists) and
   the scope expressions of DEFINITIONS must be pure; the scope expression of a READ is arbitrary.
   Whenever the strict evaluation of a fragment expression returns v, the lazy "evaluation" returns (or runs out
   of fuel) a lazy value that denotes v (purely, in pure mode) in a world extending the current one with new
   store locations only; a scoped read denotes the value of the definition strict read (on the node itself or,
   for an inherited name, on the nearest defining ancestor at the time of the read). *)
From TSG Require Import Model.Lazy Proofs.BaseFacts Proofs.Containers Proofs.MonadFacts Proofs.SLGraph Proofs.SLForce Proofs.SLExpr
  Proofs.Scoped Proofs.SL2Force.

(* ---------------- the fragment ---------------- *)
Section Frag2.
  Variable okfn : ident -> Prop.        (* function names that may be called *)
  Variable purev : ident -> bool.       (* names of the unscoped variables that never depend on a scoped variable *)
  Variable m : qmatch.                  (* the match the code runs on *)

  Fixpoint fexpr2 (b : bool) (e : expr) {struct e} : Prop :=
    match e with
    | EList es | ESet es => All (fexpr2 b) es
    | EListComp elem _ _ value _ | ESetComp elem _ _ value _ => fexpr2 b elem /\ fexpr2 true value
    | ECapture _ _ file_idx stanza_idx _ => nodes_for_capture m stanza_idx = nodes_for_capture m file_idx
    | EUnscoped x _ => b = true -> purev x = true
    | EScoped scope _ _ => b = false /\ fexpr2 false scope
    | ECall f args => okfn f /\ All (fexpr2 b) args
    | _ => True
    end.
End Frag2.

(* strict: graph, parameter buffer and scoped store untouched *)
Definition SP2 (s s' : sstate) : Prop := s_graph s' = s_graph s /\ s_params s' = s_params s /\ s_scoped s' = s_scoped s.
Lemma SP2_refl s : SP2 s s. Proof. repeat split. Qed.
Lemma SP2_trans a b c : SP2 a b -> SP2 b c -> SP2 a c. Proof. intros (A1 & A2 & A3) (B1 & B2 & B3). repeat split; congruence. Qed.

(* expression-level world extension: new store locations, no new definitions *)
Definition wext0 (w w' : world) : Prop :=
  prefix (w_rho w) (w_rho w') /\ w_sig w' = w_sig w /\ w_tree w' = w_tree w /\ w_inhl w' = w_inhl w.
Lemma wext0_refl w : wext0 w w. Proof. split; [apply prefix_refl|repeat split]. Qed.
Lemma wext0_trans a b c : wext0 a b -> wext0 b c -> wext0 a c.
Proof. intros (A1 & A2 & A3 & A4) (B1 & B2 & B3 & B4). split; [eapply prefix_trans; eauto|]. repeat split; congruence. Qed.
Lemma wext0_wext w w' : wext0 w w' -> wext w w'.
Proof. intros (A1 & A2 & A3 & A4). split; [exact A1|]. split; [rewrite A2; apply prefix_refl|]. split; assumption. Qed.
Lemma wext0_sig w w' : wext0 w w' -> w_sig w' = w_sig w. Proof. intros H. apply H. Qed.

Section Sim2.
  Context {rx : Type}.
  Variables (t : tree) (fl : file) (glob : globals) (regexes : list rx)
            (find : rx -> str -> option (list (option (N * N))))
            (call : ident -> graph -> list value -> res (value * graph)).
  Variable okfn : ident -> Prop.
  Variable purev : ident -> bool.
  Hypothesis Hpure : forall f, okfn f -> pure_fn call f.

  Notation den2 := (den2 call).
  Notation Sfull := (Sfull call).

  (* ---------------- environments ---------------- *)
  Definition entry_rel2 (w : world) (x : ident * (value * bool)) (y : ident * (lvalue * bool)) : Prop :=
    fst x = fst y /\ snd (snd x) = snd (snd y) /\ den2 w (purev (fst x)) (fst (snd y)) (fst (snd x)).
  Definition frame_rel2 w := Forall2 (entry_rel2 w).
  Definition locals_rel2 w := Forall2 (frame_rel2 w).
  (* every strict scoped variable is a recorded definition whose value thunk denotes its value; the world is about
     this tree and this file *)
  Definition scoped_rel (w : world) (sc : list (N * vframe value)) : Prop :=
    wstatic t fl w /\
    forall n name v, scoped_lookup sc n name = Some v -> exists loc pb, In (n, name, loc) (w_sig w) /\ nth_error (w_rho w) loc = Some (v, pb).
  Definition Renv2 (w : world) (ss : sstate) (ls : lstate) : Prop :=
    Sfull w (l_store ls) /\ locals_rel2 w (s_locals ss) (l_locals ls) /\ scoped_rel w (s_scoped ss).

  Lemma frame_rel2_mono w w' f f' : wext w w' -> frame_rel2 w f f' -> frame_rel2 w' f f'.
  Proof. intros Hp H. induction H as [|x y f f' (H1 & H2 & H3) _ IH]; constructor; [|exact IH]. repeat split; auto. eapply den2_mono; eauto. Qed.
  Lemma locals_rel2_mono w w' l l' : wext w w' -> locals_rel2 w l l' -> locals_rel2 w' l l'.
  Proof. intros Hp H. induction H; constructor; [eapply frame_rel2_mono; eauto|assumption]. Qed.
  Lemma scoped_rel_mono w w' sc : wext w w' -> scoped_rel w sc -> scoped_rel w' sc.
  Proof.
    intros (Hr & Hs & Ht & Hi) [[W1 W2] H]. split; [split; congruence|]. intros n name v Hl. destruct (H n name v Hl) as (loc & pb & Hin & Hn). exists loc, pb.
    split; [apply (prefix_In _ _ _ Hs Hin)|apply (prefix_nth _ _ _ _ Hr Hn)].
  Qed.

  Lemma frame_get2 w f f' k : frame_rel2 w f f' ->
    match alist_get k f, alist_get k f' with
    | Some (v, mu), Some (lv, mu') => mu = mu' /\ den2 w (purev k) lv v
    | None, None => True
    | _, _ => False
    end.
  Proof.
    intros H. induction H as [|[k1 [v1 m1]] [k2 [lv2 m2]] f f' (H1 & H2 & H3) _ IH]; cbn [alist_get]; [exact I|].
    cbn [fst snd] in *. subst k2 m2. destruct (str_eqb_spec k k1) as [->|Hne]; [split; [reflexivity|exact H3]|exact IH].
  Qed.
  Lemma locals_get2 w l l' k v : locals_rel2 w l l' -> varmap_get l k = Some v -> exists lv, varmap_get l' k = Some lv /\ den2 w (purev k) lv v.
  Proof.
    intros H. induction H as [|f f' l l' Hf _ IH]; cbn [varmap_get]; [discriminate|].
    pose proof (frame_get2 w f f' k Hf) as G. destruct (alist_get k f) as [[v1 m1]|], (alist_get k f') as [[lv2 m2]|]; try contradiction.
    - intros [= ->]. exists lv2. split; [reflexivity|apply G].
    - exact IH.
  Qed.
  Lemma locals_add2 w l l' k v lv mu l1 : locals_rel2 w l l' -> den2 w (purev k) lv v -> varmap_add l k v mu = inl l1 ->
    exists l1', varmap_add l' k lv mu = inl l1' /\ locals_rel2 w l1 l1'.
  Proof.
    intros H Hd. destruct H as [|f f' l l' Hf Hl]; cbn [varmap_add]; [discriminate|].
    pose proof (frame_get2 w f f' k Hf) as G. destruct (alist_get k f) as [[v1 m1]|], (alist_get k f') as [[lv2 m2]|]; try contradiction; try discriminate.
    intros [= <-]. eexists. split; [reflexivity|]. constructor; [|exact Hl]. apply Forall2_app; [exact Hf|]. constructor; [|constructor]. repeat split; assumption.
  Qed.
  Lemma frame_set2 w f f' k v lv : frame_rel2 w f f' -> den2 w (purev k) lv v -> frame_rel2 w (alist_set k (v, true) f) (alist_set k (lv, true) f').
  Proof.
    intros H Hd. induction H as [|[k1 [v1 m1]] [k2 [lv2 m2]] f f' (H1 & H2 & H3) Hff IH]; cbn [alist_set].
    - constructor; [|constructor]. repeat split; assumption.
    - cbn [fst snd] in *. subst k2 m2. destruct (str_eqb k k1); constructor; try assumption; unfold entry_rel2; cbn [fst snd]; repeat split; try assumption; exact Hff.
  Qed.
  Lemma locals_set2 w l l' k v lv l1 : locals_rel2 w l l' -> den2 w (purev k) lv v -> varmap_set l k v = inl l1 ->
    exists l1', varmap_set l' k lv = inl l1' /\ locals_rel2 w l1 l1'.
  Proof.
    intros H Hd. revert l1. induction H as [|f f' l l' Hf Hl IH]; intros l1; cbn [varmap_set]; [discriminate|].
    pose proof (frame_get2 w f f' k Hf) as G. destruct (alist_get k f) as [[v1 m1]|], (alist_get k f') as [[lv2 m2]|]; try contradiction.
    - destruct G as [<- _]. destruct m1; [|discriminate]. intros [= <-]. eexists. split; [reflexivity|]. constructor; [|exact Hl]. apply frame_set2; assumption.
    - destruct (varmap_set l k v) as [up|e]; [|discriminate]. intros [= <-]. destruct (IH up eq_refl) as (up' & E & Hup). rewrite E.
      eexists. split; [reflexivity|]. constructor; assumption.
  Qed.
  Lemma locals_clear2 w l l' : locals_rel2 w l l' -> locals_rel2 w (varmap_clear l) (varmap_clear l').
  Proof. intros H. destruct H; cbn [varmap_clear]; constructor; [constructor|assumption]. Qed.

  (* result of an expression-level lazy computation, given that the strict one went from ss to ss' with result a *)
  Definition epost2 {A B} (Q : world -> B -> A -> Prop) (w : world) (a : A) (ss ss' : sstate) (ls : lstate)
    : B -> lstate -> polls -> Prop :=
    fun b ls' pl' => nob pl' /\ SP2 ss ss' /\ lframe ls ls' /\ exists w', wext0 w w' /\ Renv2 w' ss' ls' /\ Q w' b a.
  Definition esim2 {A B} (Q : world -> B -> A -> Prop) (ms : M sstate A) (ml : M lstate B) : Prop :=
    forall ss p a ss' p', ms ss p = Ok (a, ss', p') ->
      forall w ls pl, Renv2 w ss ls -> nob pl -> lres (ml ls pl) (epost2 Q w a ss ss' ls).
  Definition Qmono2 {A B} (Q : world -> B -> A -> Prop) : Prop := forall r r' b a, wext0 r r' -> Q r b a -> Q r' b a.
  Definition Qd (b : bool) : world -> lvalue -> value -> Prop := fun r lv v => den2 r b lv v.
  Definition Qtrue2 {A B} : world -> B -> A -> Prop := fun _ _ _ => True.
  Lemma Qd_mono b : Qmono2 (Qd b). Proof. intros r r' lv a Hp H. eapply den2_mono; [apply wext0_wext, Hp|exact H]. Qed.
  Lemma Qtrue2_mono {A B} : Qmono2 (@Qtrue2 A B). Proof. intros r r' b a _ _. exact I. Qed.

  Lemma epost2_here {A B} (Q : world -> B -> A -> Prop) w a ss ls b pl :
    Renv2 w ss ls -> nob pl -> Q w b a -> epost2 Q w a ss ss ls b ls pl.
  Proof. intros HR Hb HQ. split; [exact Hb|]. split; [apply SP2_refl|]. split; [apply lframe_refl|]. exists w. split; [apply wext0_refl|]. auto. Qed.
  Lemma epost2_chain {C D C' D'} (Q2 : world -> D -> C -> Prop) (Q3 : world -> D' -> C' -> Prop)
      w w1 c c' ss s1 s2 ls ls1 d d' ls2 pl2 :
    SP2 ss s1 -> lframe ls ls1 -> wext0 w w1 ->
    epost2 Q2 w1 c s1 s2 ls1 d ls2 pl2 ->
    (forall r, wext0 w1 r -> Q2 r d c -> Q3 r d' c') ->
    epost2 Q3 w c' ss s2 ls d' ls2 pl2.
  Proof.
    intros S1 F1 P1 (Hb & S2 & F2 & w2 & P2 & HR & HQ) Himp. split; [exact Hb|]. split; [eapply SP2_trans; eauto|].
    split; [eapply lframe_trans; eauto|]. exists w2. split; [eapply wext0_trans; eauto|]. split; [exact HR|]. apply Himp; assumption.
  Qed.
  Lemma epost2_impl {A B A' B'} (Q : world -> B -> A -> Prop) (Q' : world -> B' -> A' -> Prop) w a a' ss ss' ls b b' ls' pl' :
    epost2 Q w a ss ss' ls b ls' pl' -> (forall r, Q r b a -> Q' r b' a') -> epost2 Q' w a' ss ss' ls b' ls' pl'.
  Proof. intros (Hb & S1 & F1 & w1 & P1 & HR & HQ) Himp. split; [exact Hb|]. split; [exact S1|]. split; [exact F1|]. exists w1. auto. Qed.

  (* traversals of one list by both interpreters *)
  Lemma trav_sim2 {X A B} (F : X -> M sstate A) (F' : X -> M lstate B) (Q : world -> B -> A -> Prop) (P : X -> Prop) :
    Qmono2 Q -> (forall x, P x -> esim2 Q (F x) (F' x)) ->
    forall l, All P l -> esim2 (fun r bs as_ => Forall2 (Q r) bs as_) (mapM F l) (mapM F' l).
  Proof.
    intros HQ HF. induction l as [|x l IH]; intros HP ss p as_ ss' p' H w ls pl HR Hb; cbn [mapM] in *.
    - apply ret_ok in H. destruct H as (-> & -> & ->). apply lres_ret. apply epost2_here; [exact HR|exact Hb|constructor].
    - destruct HP as [Px HP]. apply bind_ok in H. destruct H as (a & s1 & p1 & H1 & H).
      apply bind_ok in H. destruct H as (as1 & s2 & p2 & H2 & H). apply ret_ok in H. destruct H as (-> & -> & ->).
      apply lres_bind. eapply lres_mono; [apply (HF x Px _ _ _ _ _ H1 w ls pl HR Hb)|]. intros b ls1 pl1 (Hb1 & S1 & Hf1 & w1 & Hp1 & HR1 & Q1).
      apply lres_bind. eapply lres_mono; [apply (IH HP _ _ _ _ _ H2 w1 ls1 pl1 HR1 Hb1)|]. intros bs ls2 pl2 HP2.
      apply lres_ret. eapply epost2_chain; [exact S1|exact Hf1|exact Hp1|exact HP2|].
      intros r Hr HF2. constructor; [apply (HQ w1 r _ _ Hr Q1)|exact HF2].
  Qed.

  (* ---------------- unscoped variables ---------------- *)
  Lemma unscoped_get_sim2 b name : (b = true -> purev name = true) -> esim2 (Qd b) (unscoped_get glob name) (lunscoped_get glob name).
  Proof.
    intros Hpn ss p v ss' p' H w ls pl HR Hb. unfold unscoped_get, lunscoped_get in *. destruct (globals_get glob name) as [gv|].
    - apply ret_ok in H. destruct H as (-> & -> & ->). apply lres_ret. apply epost2_here; [exact HR|exact Hb|constructor].
    - unfold bind, get_state in H. destruct (varmap_get (s_locals ss) name) as [v0|] eqn:E; [|discriminate].
      apply ret_ok in H. destruct H as (-> & -> & ->).
      destruct (locals_get2 w _ _ name _ (proj1 (proj2 HR)) E) as (lv & El & Hd). apply lres_get. rewrite El. apply lres_ret.
      apply epost2_here; [exact HR|exact Hb|]. eapply den2_to; [exact Hd|exact Hpn].
  Qed.

  (* the world after LazyStore::add of a value that denotes v in the mode of the variable's name *)
  Definition wadd (w : world) (v : value) (pb : bool) : world := W (w_rho w ++ [(v, pb)]) (w_sig w) (w_tree w) (w_inhl w).
  Lemma wadd_ext0 w v pb : wext0 w (wadd w v pb). Proof. split; [apply prefix_app|repeat split]. Qed.

  Lemma Renv2_add w ss ls lv v pb dbg : Renv2 w ss ls -> den2 w pb lv v ->
    Renv2 (wadd w v pb) ss (set_store (l_store ls ++ [{| th_state := TUnforced lv; th_dbg := dbg |}]) ls) /\
    den2 (wadd w v pb) pb (LVar (N.of_nat (length (l_store ls)))) v.
  Proof.
    intros (Hst & Hl & Hsc) Hd.
    destruct (Sfull_add call w (w_sig w) (l_store ls) lv v pb dbg Hst Hd (prefix_refl _)) as (Hx & Hst' & Hnew).
    split; [split; [exact Hst'|split; [eapply locals_rel2_mono; eauto|eapply scoped_rel_mono; eauto]]|].
    apply (d2_var call _ _ _ v pb); [rewrite Nnat.Nat2N.id; exact Hnew|auto].
  Qed.

  (* `let`/`var`/`node`/loop variables: the lazy side allocates a thunk for a value that denotes the strict one *)
  Lemma unscoped_add_sim2 ll name v lv mu ss p u ss' p' w ls pl :
    unscoped_add glob name v mu ss p = Ok (u, ss', p') -> Renv2 w ss ls -> den2 w (purev name) lv v -> nob pl ->
    lres (lunscoped_add glob ll name lv mu ls pl) (epost2 (@Qtrue2 unit unit) w tt ss ss' ls).
  Proof.
    intros H HR Hd Hb. unfold unscoped_add, lunscoped_add in *. destruct (globals_get glob name); [discriminate|].
    unfold bind, get_state in H. destruct (varmap_add (s_locals ss) name v mu) as [l1|e] eqn:E; [|discriminate].
    rewrite set_locals_eq in H. inversion H; subst; clear H.
    apply lres_bind. rewrite store_add_eq. cbn [lres]. apply lres_get. cbn [set_store l_locals].
    destruct (Renv2_add w ss ls lv v (purev name) (ll_ctx ll) HR Hd) as [(Hst' & Hl' & Hsc') Hd']. cbn [set_store l_locals l_store] in Hl', Hst'.
    destruct (locals_add2 _ _ _ name v _ mu l1 Hl' Hd' E) as (l1' & E' & Hl1).
    rewrite E'. rewrite set_llocals_eq. cbn [lres]. split; [exact Hb|]. split; [repeat split|]. split; [repeat split|].
    exists (wadd w v (purev name)). split; [apply wadd_ext0|]. split; [|exact I]. split; [exact Hst'|]. split; [exact Hl1|exact Hsc'].
  Qed.
  Lemma unscoped_set_sim2 ll name v lv ss p u ss' p' w ls pl :
    unscoped_set glob name v ss p = Ok (u, ss', p') -> Renv2 w ss ls -> den2 w (purev name) lv v -> nob pl ->
    lres (lunscoped_set glob ll name lv ls pl) (epost2 (@Qtrue2 unit unit) w tt ss ss' ls).
  Proof.
    intros H HR Hd Hb. unfold unscoped_set, lunscoped_set in *. destruct (globals_get glob name); [discriminate|].
    unfold bind, get_state in H. destruct (varmap_set (s_locals ss) name v) as [l1|e] eqn:E; [|destruct (varmap_get (s_locals ss) name); discriminate].
    rewrite set_locals_eq in H. inversion H; subst; clear H.
    apply lres_bind. rewrite store_add_eq. cbn [lres]. apply lres_get. cbn [set_store l_locals].
    destruct (Renv2_add w ss ls lv v (purev name) (ll_ctx ll) HR Hd) as [(Hst' & Hl' & Hsc') Hd']. cbn [set_store l_locals l_store] in Hl', Hst'.
    destruct (locals_set2 _ _ _ name v _ l1 Hl' Hd' E) as (l1' & E' & Hl1).
    rewrite E'. rewrite set_llocals_eq. cbn [lres]. split; [exact Hb|]. split; [repeat split|]. split; [repeat split|].
    exists (wadd w v (purev name)). split; [apply wadd_ext0|]. split; [|exact I]. split; [exact Hst'|]. split; [exact Hl1|exact Hsc'].
  Qed.

  (* ---------------- expressions ---------------- *)
  Variable m : qmatch.
  Notation fexpr2' := (fexpr2 okfn purev m).
  Notation env_rel' := (env_rel m).

  (* eager evaluation = lazy evaluation of a PURE expression, then forcing at level 0: exactly the strict value;
     no cell is touched *)
  Definition eager_post2 (w : world) (v : value) (ss ss' : sstate) (ls : lstate) : value -> lstate -> polls -> Prop :=
    fun v' ls' pl' => v' = v /\ epost2 (@Qtrue2 unit unit) w tt ss ss' ls tt ls' pl'.
  Lemma eager_of2 (ml : M lstate lvalue) F w v ss ss' ls pl :
    lres (ml ls pl) (epost2 (Qd true) w v ss ss' ls) -> lres (bind ml (eval_lv t fl call F) ls pl) (eager_post2 w v ss ss' ls).
  Proof.
    intros H. apply lres_bind. eapply lres_mono; [exact H|]. intros lv ls1 pl1 (Hb1 & S1 & Hf1 & w1 & Hp1 & (Hst1 & Hl1 & Hsc1) & Hd).
    eapply lres_mono; [apply (force0_full call t fl F w1 lv v ls1 pl1 Hst1 Hd Hb1)|]. intros v' ls2 pl2 (-> & Hb2 & st2 & -> & Hst2).
    split; [reflexivity|]. split; [exact Hb2|]. split; [exact S1|]. split; [eapply lframe_trans; [exact Hf1|apply lframe_set_store]|].
    exists w1. split; [exact Hp1|]. split; [|exact I]. split; [exact Hst2|]. split; [exact Hl1|exact Hsc1].
  Qed.

  Lemma lpop_frame_sim2 w ss ls pl f up : Renv2 w ss ls -> s_locals ss = f :: up -> nob pl ->
    lres (lpop_frame ls pl) (epost2 (@Qtrue2 unit unit) w tt ss (sset_locals up ss) ls).
  Proof.
    intros (Hst & Hl & Hsc) E Hb. rewrite E in Hl. inversion Hl as [|f0 f' up0 up' Hf Hup E1 E2]; subst. unfold lpop_frame. apply lres_get. rewrite <- E2.
    rewrite set_llocals_eq. cbn [lres]. split; [exact Hb|]. split; [repeat split|]. split; [repeat split|].
    exists w. split; [apply wext0_refl|]. split; [|exact I]. split; [exact Hst|]. split; [exact Hup|exact Hsc].
  Qed.

  (* arguments of a call: strict pushes the values on the parameter buffer, lazy collects the lazy values *)
  Lemma args_sim2 b (ev : expr -> M sstate value) (lev : expr -> M lstate lvalue) :
    forall args, (forall e, In e args -> esim2 (Qd b) (ev e) (lev e)) ->
    forall ss p u ss' p', iterM (fun a => v <- ev a ;; push_param v) args ss p = Ok (u, ss', p') ->
    forall w ls pl, Renv2 w ss ls -> nob pl ->
      lres (mapM lev args ls pl)
           (fun lvs ls' pl' => nob pl' /\ lframe ls ls' /\ exists w' vs, wext0 w w' /\ Renv2 w' ss' ls' /\ Forall2 (den2 w' b) lvs vs /\
                                 length vs = length args /\ s_graph ss' = s_graph ss /\ s_scoped ss' = s_scoped ss /\ s_params ss' = s_params ss ++ vs).
  Proof.
    induction args as [|a args IH]; intros Hev ss p u ss' p' H w ls pl HR Hb; cbn [iterM mapM] in *.
    - apply ret_ok in H. destruct H as (-> & -> & ->). apply lres_ret. split; [exact Hb|]. split; [apply lframe_refl|].
      exists w, []. rewrite app_nil_r. repeat split; try apply HR; try apply prefix_refl. constructor.
    - apply bind_ok in H. destruct H as (u1 & s2 & p2 & Hhd & Htl). apply bind_ok in Hhd. destruct Hhd as (v & s1 & p1 & H1 & Hpush).
      rewrite push_param_eq in Hpush. inversion Hpush; subst; clear Hpush.
      apply lres_bind. eapply lres_mono; [apply (Hev a (or_introl eq_refl) _ _ _ _ _ H1 w ls pl HR Hb)|].
      intros lv ls1 pl1 (Hb1 & (Sg & Sp & Ssc) & Hf1 & w1 & Hp1 & HR1 & Q1).
      apply lres_bind.
      assert (HR1' : Renv2 w1 (sset_params (s_params s1 ++ [v]) s1) ls1) by exact HR1.
      eapply lres_mono; [apply (IH (fun e He => Hev e (or_intror He)) _ _ _ _ _ Htl w1 ls1 pl1 HR1' Hb1)|].
      intros lvs ls2 pl2 (Hb2 & Hf2 & w2 & vs & Hp2 & HR2 & HF & Hlen & Hg & Hsc & Hps). apply lres_ret.
      split; [exact Hb2|]. split; [eapply lframe_trans; eauto|]. exists w2, (v :: vs). split; [eapply wext0_trans; eauto|].
      split; [exact HR2|]. split; [constructor; [eapply den2_mono; [apply wext0_wext, Hp2|exact Q1]|exact HF]|]. split; [cbn [length]; congruence|].
      cbn [sset_params s_graph s_params s_scoped] in Hg, Hps, Hsc. split; [congruence|]. split; [congruence|]. rewrite Hps, Sp, <- app_assoc. reflexivity.
  Qed.

  (* comprehensions; K is VList or VSet . set_of_list; the list is evaluated eagerly (pure), the element in mode b *)
  Lemma comp_sim2 b (ev : expr -> M sstate value) (lev : expr -> M lstate lvalue) (K : list value -> value) ll F elem var value :
    esim2 (Qd true) (ev value) (lev value) -> esim2 (Qd b) (ev elem) (lev elem) ->
    esim2 (fun r lvs v => exists outs, v = K outs /\ Forall2 (den2 r b) lvs outs)
      (lv <- ev value ;; vals <- lift (as_list lv) ;; push_frame ;;;
       out <- mapM (fun v => clear_frame ;;; unscoped_add glob var v false ;;; ev elem) vals ;; pop_frame ;;; ret (K out))
      (lv <- (lv <- lev value ;; eval_lv t fl call F lv) ;; vals <- lift (as_list lv) ;; lpush_frame ;;;
       out <- mapM (fun v => lclear_frame ;;; lunscoped_add glob ll var (LValue v) false ;;; lev elem) vals ;; lpop_frame ;;; ret out).
  Proof.
    intros Hval Helem ss p r ss' p' H w ls pl HR Hb.
    apply bind_ok in H. destruct H as (lv0 & s1 & p1 & H1 & H). apply bind_ok in H. destruct H as (vals & s2 & p2 & H2 & H).
    apply lift_ok in H2. destruct H2 as (Hal & -> & ->). apply bind_ok in H. destruct H as (u3 & s3 & p3 & H3 & H).
    rewrite push_frame_eq in H3. inversion H3; subst; clear H3. apply bind_ok in H. destruct H as (out & s4 & p4 & H4 & H).
    apply bind_ok in H. destruct H as (u5 & s5 & p5 & H5 & H). apply ret_ok in H. destruct H as (-> & -> & ->).
    apply pop_frame_ok in H5. destruct H5 as (f & up & El & -> & ->).
    apply lres_bind. eapply lres_mono; [apply (eager_of2 _ F _ _ _ _ _ _ (Hval _ _ _ _ _ H1 w ls pl HR Hb))|].
    intros v' ls1 pl1 (-> & Hb1 & S1 & Hf1 & w1 & Hp1 & HR1 & _).
    apply lres_bind. eapply lres_lift; [exact Hal|]. apply lres_bind. rewrite lpush_frame_eq. cbn [lres].
    assert (HR2 : Renv2 w1 (sset_locals ([] :: s_locals s1) s1) (lset_locals ([] :: l_locals ls1) ls1)).
    { destruct HR1 as (A1 & A2 & A3). split; [exact A1|]. split; [|exact A3]. constructor; [constructor|exact A2]. }
    apply lres_bind.
    assert (Hiter : forall v, True -> esim2 (Qd b) (fun s p => (clear_frame ;;; unscoped_add glob var v false ;;; ev elem) s p)
                                          (fun s p => (lclear_frame ;;; lunscoped_add glob ll var (LValue v) false ;;; lev elem) s p)).
    { intros v _ ss0 p0 a ss0' p0' H0 w0 ls0 pl0 HR0 Hb0.
      apply bind_ok in H0. destruct H0 as (u1 & t1 & q1 & G1 & H0). rewrite clear_frame_eq in G1. inversion G1; subst; clear G1.
      apply bind_ok in H0. destruct H0 as (u2 & t2 & q2 & G2 & G3).
      apply lres_bind. rewrite lclear_frame_eq. cbn [lres].
      assert (HRc : Renv2 w0 (sset_locals (varmap_clear (s_locals ss0)) ss0) (lset_locals (varmap_clear (l_locals ls0)) ls0)).
      { destruct HR0 as (A1 & A2 & A3). split; [exact A1|]. split; [apply locals_clear2, A2|exact A3]. }
      apply lres_bind. eapply lres_mono; [apply (unscoped_add_sim2 ll var v (LValue v) false _ _ _ _ _ w0 _ pl0 G2 HRc (d2_value call w0 _ v) Hb0)|].
      intros _ ls1' pl1' (Hb1' & S1' & Hf1' & w1' & Hp1' & HR1' & _).
      eapply lres_mono; [apply (Helem _ _ _ _ _ G3 w1' ls1' pl1' HR1' Hb1')|]. intros lv ls2' pl2' HP.
      eapply epost2_chain; [exact S1'|eapply lframe_trans; [apply lframe_set_locals|exact Hf1']|exact Hp1'|exact HP|]. intros r _ HQ. exact HQ. }
    eapply lres_mono; [apply (trav_sim2 _ _ (Qd b) (fun _ => True) (Qd_mono b) Hiter vals ltac:(clear; induction vals; cbn; auto) _ _ _ _ _ H4 w1 _ pl1 HR2 Hb1)|].
    intros lvs ls4 pl4 (Hb4 & S4 & Hf4 & w4 & Hp4 & HR4 & HF).
    apply lres_bind. eapply lres_mono; [apply (lpop_frame_sim2 w4 s4 ls4 pl4 f up HR4 El Hb4)|].
    intros _ ls5 pl5 (Hb5 & S5 & Hf5 & w5 & Hp5 & HR5 & _). apply lres_ret.
    split; [exact Hb5|]. split; [eapply SP2_trans; [exact S1|]; eapply SP2_trans; [|exact S5]; eapply SP2_trans; [|exact S4]; repeat split|].
    split; [eapply lframe_trans; [exact Hf1|]; eapply lframe_trans; [apply lframe_set_locals|]; eapply lframe_trans; [exact Hf4|exact Hf5]|].
    exists w5. split; [eapply wext0_trans; [exact Hp1|]; eapply wext0_trans; [exact Hp4|exact Hp5]|]. split; [exact HR5|].
    exists out. split; [reflexivity|]. eapply den2_list_mono; [apply wext0_wext, Hp5|exact HF].
  Qed.

  Notation eval' := (eval t fl glob call).
  Notation leval' := (leval t fl glob call).

  Lemma eval_sim2 : forall fuel le ll e b, fexpr2' b e -> env_rel' le ll -> forall lf, esim2 (Qd b) (eval' fuel le e) (leval' lf ll e).
  Proof.
    induction fuel as [|fuel IH]; intros le ll e b Hf Henv lf ss p v ss' p' H w ls pl HR Hb; [discriminate|].
    destruct lf as [|lf]; [exact I|].
    destruct e; cbn [eval] in H; cbn [fexpr2] in Hf; cbn [leval].
    - apply ret_ok in H. destruct H as (-> & -> & ->). apply lres_ret. apply epost2_here; [exact HR|exact Hb|constructor].
    - apply ret_ok in H. destruct H as (-> & -> & ->). apply lres_ret. apply epost2_here; [exact HR|exact Hb|constructor].
    - apply ret_ok in H. destruct H as (-> & -> & ->). apply lres_ret. apply epost2_here; [exact HR|exact Hb|constructor].
    - apply ret_ok in H. destruct H as (-> & -> & ->). apply lres_ret. apply epost2_here; [exact HR|exact Hb|constructor].
    - apply ret_ok in H. destruct H as (-> & -> & ->). apply lres_ret. apply epost2_here; [exact HR|exact Hb|constructor].
    - (* list *)
      apply bind_ok in H. destruct H as (vs & s1 & p1 & H1 & H). apply ret_ok in H. destruct H as (-> & -> & ->).
      apply lres_bind. eapply lres_mono; [apply (trav_sim2 _ _ (Qd b) (fexpr2' b) (Qd_mono b) (fun x Px => IH le ll x b Px Henv lf) es Hf _ _ _ _ _ H1 w ls pl HR Hb)|].
      intros lvs ls1 pl1 HP. apply lres_ret. eapply epost2_impl; [exact HP|]. intros r HF. constructor. exact HF.
    - (* set *)
      apply bind_ok in H. destruct H as (vs & s1 & p1 & H1 & H). apply ret_ok in H. destruct H as (-> & -> & ->).
      apply lres_bind. eapply lres_mono; [apply (trav_sim2 _ _ (Qd b) (fexpr2' b) (Qd_mono b) (fun x Px => IH le ll x b Px Henv lf) es Hf _ _ _ _ _ H1 w ls pl HR Hb)|].
      intros lvs ls1 pl1 HP. apply lres_ret. eapply epost2_impl; [exact HP|]. intros r HF. constructor. exact HF.
    - (* list comprehension *)
      destruct Hf as [Hfe Hfv]. apply lres_bind.
      eapply lres_mono; [apply (comp_sim2 b (eval' fuel le) (leval' lf ll) VList ll _ e1 var e2 (IH le ll e2 true Hfv Henv lf) (IH le ll e1 b Hfe Henv lf) _ _ _ _ _ H w ls pl HR Hb)|].
      intros lvs ls1 pl1 HP. apply lres_ret. eapply epost2_impl; [exact HP|]. intros r (outs & -> & HF). constructor. exact HF.
    - (* set comprehension *)
      destruct Hf as [Hfe Hfv]. apply lres_bind.
      eapply lres_mono; [apply (comp_sim2 b (eval' fuel le) (leval' lf ll) (fun o => VSet (set_of_list o)) ll _ e1 var e2 (IH le ll e2 true Hfv Henv lf) (IH le ll e1 b Hfe Henv lf) _ _ _ _ _ H w ls pl HR Hb)|].
      intros lvs ls1 pl1 HP. apply lres_ret. eapply epost2_impl; [exact HP|]. intros r (outs & -> & HF). constructor. exact HF.
    - (* capture *)
      apply lift_ok in H. destruct H as (Hfn & -> & ->). destruct Henv as (E1 & E2 & E3). rewrite E1 in Hfn. rewrite E2, <- Hf.
      apply lres_bind. eapply lres_lift; [exact Hfn|]. apply lres_ret. apply epost2_here; [exact HR|exact Hb|constructor].
    - (* unscoped variable *) apply (unscoped_get_sim2 b name Hf _ _ _ _ _ H w ls pl HR Hb).
    - (* scoped read: strict found the value of a definition already executed *)
      destruct Hf as [-> Hfs].
      apply bind_ok in H. destruct H as (sv & s1 & p1 & H1 & H). apply bind_ok in H. destruct H as (n & s2 & p2 & H2 & H3).
      assert (Esv : sv = VSyn n /\ s2 = s1 /\ p2 = p1).
      { unfold scope_of in H2. destruct sv; try discriminate. apply ret_ok in H2. destruct H2 as (-> & -> & ->). auto. }
      destruct Esv as (-> & -> & ->). clear H2.
      apply lres_bind. eapply lres_mono; [apply (IH le ll e false Hfs Henv lf _ _ _ _ _ H1 w ls pl HR Hb)|].
      intros slv ls1 pl1 (Hb1 & S1 & Hf1 & w1 & Hp1 & HR1 & Hd1). apply lres_ret.
      assert (Hres : exists a, (a = n \/ (inherited fl name = true /\ In a (anc t n))) /\ scoped_lookup (s_scoped s1) a name = Some v /\ ss' = s1 /\ p' = p1).
      { unfold scoped_get_at, bind, get_state in H3. destruct (scoped_lookup (s_scoped s1) n name) as [v0|] eqn:El.
        - apply ret_ok in H3. destruct H3 as (-> & -> & ->). exists n. auto.
        - destruct (inherited fl name) eqn:Ei; [|discriminate]. rewrite ancestor_lookup_nearest in H3.
          destruct (first_some _ _) as [v0|] eqn:Ef; [|discriminate]. apply ret_ok in H3. destruct H3 as (-> & -> & ->).
          apply first_some_In in Ef. destruct Ef as (a & Ha & Hl). exists a. split; [right; split; [reflexivity|exact Ha]|auto]. }
      destruct Hres as (a & Ha & El & -> & ->).
      destruct (proj2 (proj2 HR1)) as [[Wt Wi] Hsr]. destruct (Hsr a name v El) as (loc & pb & Hin & Hn).
      split; [exact Hb1|]. split; [exact S1|]. split; [exact Hf1|]. exists w1. split; [exact Hp1|]. split; [exact HR1|].
      apply (d2_scoped call w1 false slv name n a loc v pb eq_refl Hd1); [|exact Hin|exact Hn].
      destruct Ha as [->|[Hi Hanc]]; [left; reflexivity|right]. unfold winh. rewrite Wi, Wt. split; assumption.
    - (* call *)
      destruct Hf as [Hok Hargs].
      apply bind_ok in H. destruct H as (u & s1 & p1 & H1 & H). apply bind_ok in H. destruct H as (ps & s2 & p2 & H2 & H3).
      apply lres_bind.
      eapply lres_mono; [apply (args_sim2 b (eval' fuel le) (leval' lf ll) args (fun e He => IH le ll e b (All_In _ _ _ Hargs He) Henv lf) _ _ _ _ _ H1 w ls pl HR Hb)|].
      intros lvs ls1 pl1 (Hb1 & Hf1 & w1 & vs & Hp1 & HR1 & HF & Hlen & Hg1 & Hsc1 & Hps1). apply lres_ret.
      rewrite <- Hlen in H2. destruct (drain_ok _ _ _ _ _ _ _ Hps1 H2) as (-> & -> & ->).
      unfold call_function, bind, get_state in H3. cbn [sset_params s_graph] in H3.
      destruct (call f (s_graph s1) vs) as [[v0 g']|e0|x0|] eqn:Ec; try discriminate.
      unfold set_graph, modify, ret in H3. inversion H3; subst; clear H3.
      destruct (Hpure f Hok _ _ _ _ Ec) as [-> Hall].
      split; [exact Hb1|]. split; [repeat split; cbn [s_graph s_params s_scoped sset_params]; assumption|]. split; [exact Hf1|].
      exists w1. split; [exact Hp1|]. split; [exact HR1|]. apply (d2_call call w1 b f lvs vs v HF Hall).
    - (* regex capture *)
      destruct Henv as (E1 & E2 & E3). rewrite <- E3. destruct (nth_error (le_caps le) (N.to_nat i)) as [s0|]; [|discriminate].
      apply ret_ok in H. destruct H as (-> & -> & ->). apply lres_ret. apply epost2_here; [exact HR|exact Hb|constructor].
  Qed.

  (* conditions, scan subjects, loop lists: pure expressions; the lazy interpreter forces them and gets the strict value *)
  Lemma leager_sim2 fuel le ll e lf ss p v ss' p' w ls pl : fexpr2' true e -> env_rel' le ll ->
    eval' fuel le e ss p = Ok (v, ss', p') -> Renv2 w ss ls -> nob pl ->
    lres (leager t fl glob call lf ll e ls pl) (eager_post2 w v ss ss' ls).
  Proof. intros Hf Henv H HR Hb. unfold leager. apply eager_of2. apply (eval_sim2 fuel le ll e true Hf Henv lf _ _ _ _ _ H w ls pl HR Hb). Qed.
End Sim2.
