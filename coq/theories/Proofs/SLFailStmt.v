(* Proofs/SLFailStmt.v — C02, failure direction, part 5: statements, stanzas, files, and the theorem.
   `fsim ms ml`: whenever the strict computation ms FAILS (with an error whose root cause is neither UndefinedEdge nor
   Cancelled) from a state related to the lazy state by the execution-phase invariant `RelX` of Proofs/SLStmt.v, the lazy
   computation ml either does not return Ok or leaves a DOOMED state (Proofs/SLFailEval.v).  A sequence fails in its
   first part (then the rest of the lazy sequence only has to preserve `Doomed`: `dpres`, true of every computation of
   the lazy interpreter) or its first part is simulated (`xsim`, success direction) and the rest fails.
   Whole runs: strict execution fails => the lazy execution phase fails or ends in a doomed state => lazy execution
   (execution phase, then evaluation phase) never returns Ok. *)
From TSG Require Import Model.Lazy Model.Stdlib Proofs.BaseFacts Proofs.Containers Proofs.MonadFacts Proofs.StrictMeta
  Proofs.SLGraph Proofs.SLForce Proofs.SLExpr Proofs.SLConv Proofs.SLStmt Proofs.StrictLazy Proofs.Extends
  Proofs.SLFailGraph Proofs.SLFailStore Proofs.SLFailEval Proofs.SLFailExpr.

Lemma FrP_eq_prefix s s' : FrP (@eq (list lstmt)) s s' -> FrP (@prefix lstmt) s s'.
Proof. intros (H1 & H2 & H3 & H4). split; [exact H1|]. rewrite H2, H3, H4. repeat split; apply prefix_refl. Qed.
Lemma iterM_err_mapM {S X} (F : X -> M S unit) l s p e : iterM F l s p = Err e -> mapM F l s p = Err e.
Proof.
  revert s p. induction l as [|x l IH]; intros s p H; cbn [iterM mapM] in *; [discriminate|].
  unfold bind in *. destruct (F x s p) as [[[u s1] p1]|e1|x1|]; try discriminate; [rewrite (IH _ _ H); reflexivity|inversion H; reflexivity].
Qed.

Section FailStmt.
  Context {rx : Type}.
  Variables (t : tree) (fl : file) (glob : globals) (regexes : list rx)
            (find : rx -> str -> option (list (option (N * N))))
            (call : ident -> graph -> list value -> res (value * graph)).
  Variable okfn : ident -> Prop.
  Hypothesis Hpure : forall f, okfn f -> pure_fn call f.
  Hypothesis Hperr : forall f, okfn f -> pure_err_fn call f.
  Hypothesis Hcall : call_graph_ext call.
  Variable m : qmatch.
  Hypothesis Hsh : Forall (fun sh => All (fattr okfn m) (sh_attrs sh)) (f_shorthands fl).

  Notation den := (den call).
  Notation den_attrs := (den_attrs call).
  Notation Renv := (Renv call).
  Notation Rel := (Rel call).
  Notation RelX := (RelX call).
  Notation sbk := (sbk call).
  Notation Jst := (Jst call t fl).
  Notation bad_lv := (bad_lv call t fl).
  Notation bad_end := (bad_end call t fl).
  Notation bad_stmt := (bad_stmt call t fl).
  Notation bad_stmt_g := (bad_stmt_g call t fl).
  Notation jok := (jok call t fl).
  Notation pfr := (pfr t fl call).
  Notation Doomed := (Doomed call t fl).
  Notation dpres := (dpres call t fl).
  Notation xsim := (xsim call).
  Notation xsimU := (xsim (@anyQ unit unit)).
  Notation fexpr' := (fexpr okfn m).
  Notation fattr' := (fattr okfn m).
  Notation fstmt' := (fstmt okfn m).
  Notation env_rel' := (env_rel m).
  Notation eval' := (eval t fl glob call).
  Notation leval' := (leval t fl glob call).
  Notation exec_attr' := (exec_attr t fl glob call).
  Notation lexec_attr' := (lexec_attr t fl glob call).
  Notation exec_stmt' := (exec_stmt t fl config0 glob regexes find call).
  Notation lexec_stmt' := (lexec_stmt t fl config0 glob regexes find call).

  Definition dpost {B} : B -> lstate -> polls -> Prop := fun _ ls' pl' => nob pl' /\ Doomed ls'.
  Definition fsim {A B} (ms : M sstate A) (ml : M lstate B) : Prop :=
    forall ss p e, ms ss p = Err e -> okerr e -> forall ls pl, RelX ss ls -> nob pl -> nres (ml ls pl) dpost.

  (* ---------------- `Doomed` is preserved by whatever the lazy interpreter does next ---------------- *)
  Lemma dpres_of_pfr {B} (ml : M lstate B) : pfr ml -> dpres ml.
  Proof. intros [H1 H2]. apply dpres_of; [exact H1|]. intros s p a s' p' E. apply FrP_eq_prefix. eapply H2; eauto. Qed.
  Lemma dpres_lexec_stmt fuel le s : dpres (lexec_stmt' fuel le s).
  Proof. apply dpres_of; [intros; apply jk_lexec_stmt|apply fr_lexec_stmt, Hcall]. Qed.
  Lemma dpres_lexec_stanza fuel st q : dpres (lexec_stanza t fl config0 glob regexes find call fuel st q).
  Proof. apply dpres_of; [intros; apply jk_lexec_stanza|apply fr_lexec_stanza, Hcall]. Qed.
  Lemma dpres_push_lstmt st : dpres (push_lstmt st).
  Proof. apply dpres_of; [intros; apply jk_push_lstmt|apply fr_push_lstmt]. Qed.
  Lemma dpres_noresult {B} (ml : M lstate B) : (forall s p a s' p', ml s p <> Ok (a, s', p')) -> dpres ml.
  Proof. intros H. apply dpres_of_pfr, pfr_noresult, H. Qed.
  Lemma dpres_block fuel le body : dpres (iterM (fun st => lexec_stmt' fuel (ll_with_ctx le (ctx_update (ll_ctx le) st)) st) body).
  Proof. apply dpres_iterM. intros st. apply dpres_lexec_stmt. Qed.
  Lemma dpres_arm_block fuel le body :
    dpres (iterM (fun st => let c := ctx_update (ll_ctx le) st in ctx_wrap (CtxStmts [c]) (ctx_wrap CtxOther (lexec_stmt' fuel (ll_with_ctx le c) st))) body).
  Proof. apply dpres_iterM. intros st. cbv zeta. apply dpres_ctx, dpres_ctx, dpres_lexec_stmt. Qed.
  Lemma dpres_lscan_loop run' arms rs subject : (forall caps body, dpres (run' caps body)) ->
    forall sfuel i, dpres (lscan_loop find run' arms rs subject sfuel i).
  Proof.
    intros Hrun. induction sfuel as [|sfuel IH]; intros i; cbn [lscan_loop]; [apply dpres_noresult; discriminate|].
    destruct (N.ltb i (N.of_nat (length subject))); [|apply dpres_ret]. cbv zeta. apply dpres_bind; [apply dpres_of_pfr, pfr_lpoll_n|intros _].
    destruct (arm_select find rs (skipn (N.to_nat i) subject)) as [|k|k caps]; [apply dpres_ret|apply dpres_noresult; discriminate|].
    destruct (nth_error arms (N.to_nat k)) as [[[r body] l']|]; [|apply dpres_noresult; discriminate].
    apply dpres_bind; [apply dpres_of_pfr, pfr_lpush_frame|intros _]. apply dpres_bind; [apply Hrun|intros _].
    apply dpres_bind; [apply dpres_of_pfr, pfr_lpop_frame|intros _]. apply IH.
  Qed.
  Lemma dpres_lif_loop test' run' arms : (forall c, dpres (test' c)) -> (forall body, dpres (run' body)) -> dpres (lif_loop test' run' arms).
  Proof.
    intros Ht Hr. induction arms as [|[[conds body] l'] arms IH]; cbn [lif_loop]; [apply dpres_ret|].
    apply dpres_bind.
    - induction conds as [|c conds IHc]; cbn [mapM]; [apply dpres_ret|]. apply dpres_bind; [apply Ht|intros b]. apply dpres_bind; [exact IHc|intros bs; apply dpres_ret].
    - intros bs. destruct (forallb (fun b => b) bs); [|exact IH].
      apply dpres_bind; [apply dpres_of_pfr, pfr_lpush_frame|intros _]. apply dpres_bind; [apply Hr|intros _]. apply dpres_of_pfr, pfr_lpop_frame.
  Qed.

  (* ---------------- closure properties of fsim ---------------- *)
  Lemma fsim_noerr {A B} (ms : M sstate A) (ml : M lstate B) : (forall s p e, ms s p <> Err e) -> fsim ms ml.
  Proof. intros H ss p e Hs. exfalso. eapply H; eauto. Qed.
  Lemma fsim_nok {A B} (ms : M sstate A) (ml : M lstate B) :
    (forall ss p e, ms ss p = Err e -> okerr e -> forall ls pl, RelX ss ls -> nob pl -> nok (ml ls pl)) -> fsim ms ml.
  Proof. intros H ss p e Hs Ho ls pl HR Hb. apply nok_nres. eapply H; eauto. Qed.
  Lemma fsim_enok {A B} (ms : M sstate A) (ml : M lstate B) : enok call ms ml -> fsim ms ml.
  Proof. intros H. apply fsim_nok. intros ss p e Hs Ho ls pl [rho HR] Hb. apply (H _ _ _ Hs Ho rho ls pl (proj1 HR) Hb). Qed.
  Lemma fsim_bind {A B C D} (Q : A -> B -> Prop) (ms : M sstate A) (ml : M lstate B) (ks : A -> M sstate C) (kl : B -> M lstate D) :
    xsim Q ms ml -> fsim ms ml -> (forall b, dpres (kl b)) -> (forall a b, Q a b -> fsim (ks a) (kl b)) -> fsim (bind ms ks) (bind ml kl).
  Proof.
    intros Hx Hf Hd Hk ss p e H Ho ls pl HR Hb. apply bind_err in H. destruct H as [H|(a & s1 & p1 & H1 & H2)].
    - apply nres_bind. eapply nres_mono; [apply (Hf _ _ _ H Ho ls pl HR Hb)|]. intros b ls1 pl1 [Hb1 HD1]. apply (Hd b ls1 pl1 HD1 Hb1).
    - apply nres_bind. apply nres_of_lres. eapply lres_mono; [apply (Hx _ _ _ _ _ H1 ls pl HR Hb)|]. intros b ls1 pl1 (Hb1 & HR1 & HQ).
      apply (Hk a b HQ _ _ _ H2 Ho ls1 pl1 HR1 Hb1).
  Qed.
  Lemma fsim_seq {C D} (ms : M sstate unit) (ml : M lstate unit) (ks : M sstate C) (kl : M lstate D) :
    xsimU ms ml -> fsim ms ml -> dpres kl -> fsim ks kl -> fsim (ms ;;; ks) (ml ;;; kl).
  Proof. intros H1 H2 H3 H4. eapply fsim_bind; [exact H1|exact H2|intros _; exact H3|intros _ _ _; exact H4]. Qed.
  Lemma fsim_sctx {A B} c (ms : M sstate A) (ml : M lstate B) : fsim ms ml -> fsim (ctx_wrap c ms) ml.
  Proof. intros Hm ss p e H Ho. apply ctx_wrap_err in H. destruct H as (e0 & H & ->). apply okerr_add_context in Ho. apply (Hm _ _ _ H Ho). Qed.
  Lemma fsim_lctx {A B} c (ms : M sstate A) (ml : M lstate B) : fsim ms ml -> fsim ms (ctx_wrap c ml).
  Proof. intros Hm ss p e H Ho ls pl HR Hb. apply nres_ctx. apply (Hm _ _ _ H Ho ls pl HR Hb). Qed.
  Lemma fsim_spoll {A B} l (ms : M sstate A) (ml : M lstate B) : fsim ms ml -> fsim (poll l ;;; ms) ml.
  Proof.
    intros Hm ss p e H Ho. apply bind_err in H. destruct H as [H|(u & s1 & p1 & H1 & H2)]; [exfalso; eapply poll_okerr; eauto|].
    apply poll_ok in H1. destruct H1 as (-> & -> & _). apply (Hm _ _ _ H2 Ho).
  Qed.
  Lemma fsim_lpoll {A B} l (ms : M sstate A) (ml : M lstate B) : fsim ms ml -> fsim ms (lpoll l ;;; ml).
  Proof.
    intros Hm ss p e H Ho ls pl HR Hb. apply nres_bind. unfold lpoll. apply nres_poll; [exact Hb|]. intros pl0 Hb0. apply (Hm _ _ _ H Ho ls pl0 HR Hb0).
  Qed.
  Lemma fsim_lpoll_n {A B} n l (ms : M sstate A) (ml : M lstate B) : fsim ms ml -> fsim ms (lpoll_n n l ;;; ml).
  Proof.
    intros Hm ss p e H Ho ls pl HR Hb. apply nres_bind. apply nres_of_lres. eapply lres_mono; [apply lpoll_n_res, Hb|].
    intros _ ls0 pl0 [-> Hb0]. apply (Hm _ _ _ H Ho ls pl0 HR Hb0).
  Qed.
  Lemma fsim_lext {A B} (ms : M sstate A) (ml ml' : M lstate B) : (forall s p, ml s p = ml' s p) -> fsim ms ml' -> fsim ms ml.
  Proof. intros E H ss p e Hs Ho ls pl HR Hb. rewrite E. apply (H _ _ _ Hs Ho ls pl HR Hb). Qed.
  Lemma fsim_iter {X} (P : X -> Prop) (F : X -> M sstate unit) (F' : X -> M lstate unit) l :
    (forall x, P x -> xsimU (F x) (F' x)) -> (forall x, P x -> fsim (F x) (F' x)) -> (forall x, dpres (F' x)) -> All P l -> fsim (iterM F l) (iterM F' l).
  Proof.
    intros HX HF HD. induction l as [|x l IH]; intros HP; cbn [iterM]; [apply fsim_noerr; discriminate|]. destruct HP as [Px HP].
    apply fsim_seq; [apply HX, Px|apply HF, Px|apply dpres_iterM, HD|apply IH, HP].
  Qed.
  Lemma fsim_mapM {X A B} (Q : A -> B -> Prop) (P : X -> Prop) (F : X -> M sstate A) (F' : X -> M lstate B) l :
    (forall x, P x -> xsim Q (F x) (F' x)) -> (forall x, P x -> fsim (F x) (F' x)) -> (forall x, dpres (F' x)) -> All P l -> fsim (mapM F l) (mapM F' l).
  Proof.
    intros HX HF HD. induction l as [|x l IH]; intros HP; cbn [mapM]; [apply fsim_noerr; discriminate|]. destruct HP as [Px HP].
    assert (HDl : dpres (mapM F' l)).
    { clear -HD. induction l as [|y l IHl]; cbn [mapM]; [apply dpres_ret|]. apply dpres_bind; [apply HD|intros b]. apply dpres_bind; [exact IHl|intros bs; apply dpres_ret]. }
    eapply fsim_bind; [apply HX, Px|apply HF, Px| |].
    - intros b. apply dpres_bind; [exact HDl|intros bs; apply dpres_ret].
    - intros a b _. eapply fsim_bind; [apply (xsim_mapM call Q P F F' l HX HP)|apply IH, HP|intros bs; apply dpres_ret|]. intros as_ bs _. apply fsim_noerr. discriminate.
  Qed.

  (* ---------------- from the expression-level failure relations to doomed states ---------------- *)
  Lemma doomed_thunk rhoK d ls : Jst rhoK (Some d) (l_store ls) -> Doomed ls.
  Proof. intros HJ. exists rhoK, (Some d). split; [exact HJ|]. left. discriminate. Qed.
  Lemma doomed_stmt rhoK dt st ls : Jst rhoK dt (l_store ls) -> In st (l_edges ls) \/ In st (l_attrs ls) \/ In st (l_prints ls) -> bad_stmt rhoK st -> Doomed ls.
  Proof. intros HJ Hin Hbad. exists rhoK, dt. split; [exact HJ|]. right. left. exists st. auto. Qed.
  Lemma doomed_conflict rho rhoK ss ls ls1 st : Rel rho ss ls -> prefix rho rhoK -> EFr ls ls1 -> sbk rhoK (l_store ls1) ->
    bad_stmt_g rhoK (s_graph ss) st -> Doomed (lpush_attr st ls1).
  Proof.
    intros (_ & _ & _ & eops & aopss & g1 & He & Ha & Hg1 & Hg2) Hp (F1 & F2 & F3 & F4) Hs Hbad. exists rhoK, None.
    split; [apply Jst_none; exact Hs|]. right. right.
    exists (l_edges ls), [], (l_attrs ls), st, [], eops, aopss, (l_graph ls), g1, (s_graph ss). cbn [lpush_attr l_edges l_attrs l_graph].
    split; [rewrite app_nil_r; symmetry; exact F2|]. split; [rewrite F3; reflexivity|].
    split; [eapply Forall2_mono_l; [|exact He]; intros st0 e0; apply den_edge_mono, Hp|].
    split; [eapply Forall2_mono_l; [|exact Ha]; intros st0 e0; apply den_astmt_mono, Hp|]. auto.
  Qed.

  (* a bound variable: `let` / `var` / `set` *)
  Lemma store_add_doomed rhoK lv dbg ls : sbk rhoK (l_store ls) -> bad_lv rhoK lv ->
    Jst rhoK (Some (length (l_store ls), lv)) (l_store ls ++ [{| th_state := TUnforced lv; th_dbg := dbg |}]).
  Proof.
    intros Hs HB. split; [apply sbk_app, Hs|]. split; [apply (sbk_len call _ _ Hs)|]. split; [exact HB|]. exists dbg.
    rewrite nth_error_app2, Nat.sub_diag by lia. reflexivity.
  Qed.
  Lemma fsim_bind_var fuel le ll e lf name mu : fexpr' e -> env_rel' le ll ->
    fsim (x <- eval' fuel le e ;; unscoped_add glob name x mu) (x <- leval' lf ll e ;; lunscoped_add glob ll name x mu).
  Proof.
    intros Hf Henv ss p err H Ho ls pl [rho HR] Hb. apply bind_err in H. destruct H as [H|(x & s1 & p1 & H1 & H2)].
    - apply nres_bind. eapply nres_mono; [apply (eval_fail t fl glob call okfn Hpure Hperr Hcall m fuel le ll e Hf Henv lf _ _ _ H Ho rho ls pl (proj1 HR) Hb)|].
      intros lv ls1 pl1 (Hb1 & HF1 & rhoK & Hp & Hs & HB). unfold lunscoped_add. destruct (globals_get glob name); [exact I|].
      apply nres_bind. rewrite store_add_eq. cbn [nres]. apply nres_get.
      destruct (varmap_add (l_locals (set_store (l_store ls1 ++ [{| th_state := TUnforced lv; th_dbg := ll_ctx ll |}]) ls1)) name (LVar (N.of_nat (length (l_store ls1)))) mu) as [l1|e1]; [|exact I].
      rewrite set_llocals_eq. cbn [nres]. split; [exact Hb1|]. eapply doomed_thunk. cbn [lset_locals set_store l_store]. apply store_add_doomed; eassumption.
    - apply nres_bind. apply nres_of_lres.
      eapply lres_mono; [apply (eval_sim t fl glob call okfn Hpure m fuel le ll e Hf Henv lf _ _ _ _ _ H1 rho ls pl (proj1 HR) Hb)|].
      intros lv ls1 pl1 (Hb1 & _ & _ & rho1 & _ & HR1 & _). apply nok_nres. apply (unscoped_add_fail glob call ll name x lv mu _ _ _ H2 Ho rho1 ls1 pl1 HR1 Hb1).
  Qed.
  Lemma unscoped_set_fail ll name v lv : enok call (unscoped_set glob name v) (lunscoped_set glob ll name lv).
  Proof.
    intros ss p e H Ho rho ls pl [Hst Hl] Hb. unfold unscoped_set, lunscoped_set in *. destruct (globals_get glob name); [exact I|].
    unfold bind, get_state in H. destruct (varmap_set (s_locals ss) name v) as [l1|e1] eqn:E; [discriminate|].
    apply nres_bind. rewrite store_add_eq. cbn [nres]. apply nres_get. cbn [set_store l_locals].
    destruct (varmap_set (l_locals ls) name (LVar (N.of_nat (length (l_store ls))))) as [l1'|e1'] eqn:E'; [|destruct (varmap_get (l_locals ls) name); exact I].
    exfalso. clear H Hst. revert l1' E' e1 E. induction Hl as [|f f' l l' Hf Hl' IH]; intros l1' E' e1 E; cbn [varmap_set] in *; [discriminate|].
    pose proof (frame_get call rho f f' name Hf) as G. destruct (alist_get name f) as [[v1 m1]|], (alist_get name f') as [[lv2 m2]|]; try contradiction.
    - destruct G as [<- _]. destruct m1; discriminate.
    - destruct (varmap_set l name v) as [up|e2] eqn:Eu; [discriminate|]. destruct (varmap_set l' name (LVar (N.of_nat (length (l_store ls))))) as [up'|e2'] eqn:Eu'; [|discriminate].
      apply (IH up' eq_refl e2 eq_refl).
  Qed.
  Lemma fsim_set_var fuel le ll e lf name : fexpr' e -> env_rel' le ll ->
    fsim (x <- eval' fuel le e ;; unscoped_set glob name x) (x <- leval' lf ll e ;; lunscoped_set glob ll name x).
  Proof.
    intros Hf Henv ss p err H Ho ls pl [rho HR] Hb. apply bind_err in H. destruct H as [H|(x & s1 & p1 & H1 & H2)].
    - apply nres_bind. eapply nres_mono; [apply (eval_fail t fl glob call okfn Hpure Hperr Hcall m fuel le ll e Hf Henv lf _ _ _ H Ho rho ls pl (proj1 HR) Hb)|].
      intros lv ls1 pl1 (Hb1 & HF1 & rhoK & Hp & Hs & HB). unfold lunscoped_set. destruct (globals_get glob name); [exact I|].
      apply nres_bind. rewrite store_add_eq. cbn [nres]. apply nres_get.
      destruct (varmap_set (l_locals (set_store (l_store ls1 ++ [{| th_state := TUnforced lv; th_dbg := ll_ctx ll |}]) ls1)) name (LVar (N.of_nat (length (l_store ls1))))) as [l1|e1].
      + rewrite set_llocals_eq. cbn [nres]. split; [exact Hb1|]. eapply doomed_thunk. cbn [lset_locals set_store l_store]. apply store_add_doomed; eassumption.
      + destruct (varmap_get (l_locals (set_store (l_store ls1 ++ [{| th_state := TUnforced lv; th_dbg := ll_ctx ll |}]) ls1)) name); exact I.
    - apply nres_bind. apply nres_of_lres.
      eapply lres_mono; [apply (eval_sim t fl glob call okfn Hpure m fuel le ll e Hf Henv lf _ _ _ _ _ H1 rho ls pl (proj1 HR) Hb)|].
      intros lv ls1 pl1 (Hb1 & _ & _ & rho1 & _ & HR1 & _). apply nok_nres. apply (unscoped_set_fail ll name x lv _ _ _ H2 Ho rho1 ls1 pl1 HR1 Hb1).
  Qed.
End FailStmt.
