(* Proofs/SLFailStmt.v — C02, failure direction, part 5: statements, stanzas, files, and the theorem.
   `fsim ms ml`: whenever the strict computation ms FAILS (with an error whose root cause is neither UndefinedEdge nor
   Cancelled) from a state related to the lazy state by the execution-phase invariant `RelX` of Proofs/SLStmt.v, the lazy
   computation ml either does not return Ok or leaves a DOOMED state (Proofs/SLFailEval.v).  A sequence fails in its
   first part (then the rest of the lazy sequence only has to preserve `Doomed`: `dpres`, true of every computation of
   the lazy interpreter) or its first part is simulated (`xsim`, success direction) and the rest fails.
   Whole runs: strict execution fails => the lazy execution phase fails or ends in a doomed state => lazy execution
   (execution phase, then evaluation phase) never returns Ok. *)
From TSG Require Import Model.Lazy Model.Stdlib Proofs.BaseFacts Proofs.Containers Proofs.MonadFacts Proofs.StrictMeta
  Proofs.SLGraph Proofs.SLForce Proofs.SLExpr Proofs.SLConv Proofs.SLStmt Proofs.StrictLazy Proofs.Extends
  Proofs.SLFailGraph Proofs.SLFailStore Proofs.SLFailEval Proofs.SLFailExpr.
From TSG Require Proofs.NoPanicStrict Proofs.NoPanicLazy.

Lemma FrP_eq_prefix s s' : FrP (@eq (list lstmt)) s s' -> FrP (@prefix lstmt) s s'.
Proof. intros (H1 & H2 & H3 & H4). split; [exact H1|]. rewrite H2, H3, H4. repeat split; apply prefix_refl. Qed.
Lemma iterM_err_mapM {S X} (F : X -> M S unit) l s p e : iterM F l s p = Err e -> mapM F l s p = Err e.
Proof.
  revert s p. induction l as [|x l IH]; intros s p H; cbn [iterM mapM] in *; [discriminate|].
  unfold bind in *. destruct (F x s p) as [[[u s1] p1]|e1|x1|]; try discriminate; [rewrite (IH _ _ H); reflexivity|inversion H; reflexivity].
Qed.

Section FailStmt.
  Context {rx : Type}.
  Variables (t : tree) (fl : file) (glob : globals) (regexes : list rx)
            (find : rx -> str -> option (list (option (N * N))))
            (call : ident -> graph -> list value -> res (value * graph)).
  Variable okfn : ident -> Prop.
  Hypothesis Hpure : forall f, okfn f -> pure_fn call f.
  Hypothesis Hperr : forall f, okfn f -> pure_err_fn call f.
  Hypothesis Hcall : call_graph_ext call.
  Variable m : qmatch.
  Hypothesis Hsh : Forall (fun sh => All (fattr okfn m) (sh_attrs sh)) (f_shorthands fl).

  Notation den := (den call).
  Notation den_attrs := (den_attrs call).
  Notation Renv := (Renv call).
  Notation Rel := (Rel call).
  Notation RelX := (RelX call).
  Notation sbk := (sbk call).
  Notation Jst := (Jst call t fl).
  Notation bad_lv := (bad_lv call t fl).
  Notation bad_end := (bad_end call t fl).
  Notation bad_stmt := (bad_stmt call t fl).
  Notation bad_stmt_g := (bad_stmt_g call t fl).
  Notation jok := (jok call t fl).
  Notation pfr := (pfr t fl call).
  Notation Doomed := (Doomed call t fl).
  Notation dpres := (dpres call t fl).
  Notation xsim := (xsim call).
  Notation xsimU := (xsim (@anyQ unit unit)).
  Notation fexpr' := (fexpr okfn m).
  Notation fattr' := (fattr okfn m).
  Notation fstmt' := (fstmt okfn m).
  Notation env_rel' := (env_rel m).
  Notation eval' := (eval t fl glob call).
  Notation leval' := (leval t fl glob call).
  Notation exec_attr' := (exec_attr t fl glob call).
  Notation lexec_attr' := (lexec_attr t fl glob call).
  Notation exec_stmt' := (exec_stmt t fl config0 glob regexes find call).
  Notation lexec_stmt' := (lexec_stmt t fl config0 glob regexes find call).

  Definition dpost {B} : B -> lstate -> polls -> Prop := fun _ ls' pl' => nob pl' /\ Doomed ls'.
  Definition fsim {A B} (ms : M sstate A) (ml : M lstate B) : Prop :=
    forall ss p e, ms ss p = Err e -> okerr e -> forall ls pl, RelX ss ls -> nob pl -> nres (ml ls pl) dpost.

  (* ---------------- `Doomed` is preserved by whatever the lazy interpreter does next ---------------- *)
  Lemma dpres_of_pfr {B} (ml : M lstate B) : pfr ml -> dpres ml.
  Proof. intros [H1 H2]. apply dpres_of; [exact H1|]. intros s p a s' p' E. apply FrP_eq_prefix. eapply H2; eauto. Qed.
  Lemma dpres_lexec_stmt fuel le s : dpres (lexec_stmt' fuel le s).
  Proof. apply dpres_of; [intros; apply jk_lexec_stmt|apply fr_lexec_stmt, Hcall]. Qed.
  Lemma dpres_lexec_stanza fuel st q : dpres (lexec_stanza t fl config0 glob regexes find call fuel st q).
  Proof. apply dpres_of; [intros; apply jk_lexec_stanza|apply fr_lexec_stanza, Hcall]. Qed.
  Lemma dpres_push_lstmt st : dpres (push_lstmt st).
  Proof. apply dpres_of; [intros; apply jk_push_lstmt|apply fr_push_lstmt]. Qed.
  Lemma dpres_noresult {B} (ml : M lstate B) : (forall s p a s' p', ml s p <> Ok (a, s', p')) -> dpres ml.
  Proof. intros H. apply dpres_of_pfr, pfr_noresult, H. Qed.
  Lemma dpres_block fuel le body : dpres (iterM (fun st => lexec_stmt' fuel (ll_with_ctx le (ctx_update (ll_ctx le) st)) st) body).
  Proof. apply dpres_iterM. intros st. apply dpres_lexec_stmt. Qed.
  Lemma dpres_arm_block fuel le body :
    dpres (iterM (fun st => let c := ctx_update (ll_ctx le) st in ctx_wrap (CtxStmts [c]) (ctx_wrap CtxOther (lexec_stmt' fuel (ll_with_ctx le c) st))) body).
  Proof. apply dpres_iterM. intros st. cbv zeta. apply dpres_ctx, dpres_ctx, dpres_lexec_stmt. Qed.
  Lemma dpres_lscan_loop run' arms rs subject : (forall caps body, dpres (run' caps body)) ->
    forall sfuel i, dpres (lscan_loop find run' arms rs subject sfuel i).
  Proof.
    intros Hrun. induction sfuel as [|sfuel IH]; intros i; cbn [lscan_loop]; [apply dpres_noresult; discriminate|].
    destruct (N.ltb i (N.of_nat (length subject))); [|apply dpres_ret]. cbv zeta. apply dpres_bind; [apply dpres_of_pfr, pfr_lpoll_n|intros _].
    destruct (arm_select find rs (skipn (N.to_nat i) subject)) as [|k|k caps]; [apply dpres_ret|apply dpres_noresult; discriminate|].
    destruct (nth_error arms (N.to_nat k)) as [[[r body] l']|]; [|apply dpres_noresult; discriminate].
    apply dpres_bind; [apply dpres_of_pfr, pfr_lpush_frame|intros _]. apply dpres_bind; [apply Hrun|intros _].
    apply dpres_bind; [apply dpres_of_pfr, pfr_lpop_frame|intros _]. apply IH.
  Qed.
  Lemma dpres_lif_loop test' run' arms : (forall c, dpres (test' c)) -> (forall body, dpres (run' body)) -> dpres (lif_loop test' run' arms).
  Proof.
    intros Ht Hr. induction arms as [|[[conds body] l'] arms IH]; cbn [lif_loop]; [apply dpres_ret|].
    apply dpres_bind.
    - induction conds as [|c conds IHc]; cbn [mapM]; [apply dpres_ret|]. apply dpres_bind; [apply Ht|intros b]. apply dpres_bind; [exact IHc|intros bs; apply dpres_ret].
    - intros bs. destruct (forallb (fun b => b) bs); [|exact IH].
      apply dpres_bind; [apply dpres_of_pfr, pfr_lpush_frame|intros _]. apply dpres_bind; [apply Hr|intros _]. apply dpres_of_pfr, pfr_lpop_frame.
  Qed.

  (* ---------------- closure properties of fsim ---------------- *)
  Lemma fsim_noerr {A B} (ms : M sstate A) (ml : M lstate B) : (forall s p e, ms s p <> Err e) -> fsim ms ml.
  Proof. intros H ss p e Hs. exfalso. eapply H; eauto. Qed.
  Lemma fsim_nok {A B} (ms : M sstate A) (ml : M lstate B) :
    (forall ss p e, ms ss p = Err e -> okerr e -> forall ls pl, RelX ss ls -> nob pl -> nok (ml ls pl)) -> fsim ms ml.
  Proof. intros H ss p e Hs Ho ls pl HR Hb. apply nok_nres. eapply H; eauto. Qed.
  Lemma fsim_enok {A B} (ms : M sstate A) (ml : M lstate B) : enok call ms ml -> fsim ms ml.
  Proof. intros H. apply fsim_nok. intros ss p e Hs Ho ls pl [rho HR] Hb. apply (H _ _ _ Hs Ho rho ls pl (proj1 HR) Hb). Qed.
  Lemma fsim_bind {A B C D} (Q : A -> B -> Prop) (ms : M sstate A) (ml : M lstate B) (ks : A -> M sstate C) (kl : B -> M lstate D) :
    xsim Q ms ml -> fsim ms ml -> (forall b, dpres (kl b)) -> (forall a b, Q a b -> fsim (ks a) (kl b)) -> fsim (bind ms ks) (bind ml kl).
  Proof.
    intros Hx Hf Hd Hk ss p e H Ho ls pl HR Hb. apply bind_err in H. destruct H as [H|(a & s1 & p1 & H1 & H2)].
    - apply nres_bind. eapply nres_mono; [apply (Hf _ _ _ H Ho ls pl HR Hb)|]. intros b ls1 pl1 [Hb1 HD1]. apply (Hd b ls1 pl1 HD1 Hb1).
    - apply nres_bind. apply nres_of_lres. eapply lres_mono; [apply (Hx _ _ _ _ _ H1 ls pl HR Hb)|]. intros b ls1 pl1 (Hb1 & HR1 & HQ).
      apply (Hk a b HQ _ _ _ H2 Ho ls1 pl1 HR1 Hb1).
  Qed.
  Lemma fsim_seq {C D} (ms : M sstate unit) (ml : M lstate unit) (ks : M sstate C) (kl : M lstate D) :
    xsimU ms ml -> fsim ms ml -> dpres kl -> fsim ks kl -> fsim (ms ;;; ks) (ml ;;; kl).
  Proof. intros H1 H2 H3 H4. eapply fsim_bind; [exact H1|exact H2|intros _; exact H3|intros _ _ _; exact H4]. Qed.
  Lemma fsim_sctx {A B} c (ms : M sstate A) (ml : M lstate B) : fsim ms ml -> fsim (ctx_wrap c ms) ml.
  Proof. intros Hm ss p e H Ho. apply ctx_wrap_err in H. destruct H as (e0 & H & ->). apply okerr_add_context in Ho. apply (Hm _ _ _ H Ho). Qed.
  Lemma fsim_lctx {A B} c (ms : M sstate A) (ml : M lstate B) : fsim ms ml -> fsim ms (ctx_wrap c ml).
  Proof. intros Hm ss p e H Ho ls pl HR Hb. apply nres_ctx. apply (Hm _ _ _ H Ho ls pl HR Hb). Qed.
  Lemma fsim_spoll {A B} l (ms : M sstate A) (ml : M lstate B) : fsim ms ml -> fsim (poll l ;;; ms) ml.
  Proof.
    intros Hm ss p e H Ho. apply bind_err in H. destruct H as [H|(u & s1 & p1 & H1 & H2)]; [exfalso; eapply poll_okerr; eauto|].
    apply poll_ok in H1. destruct H1 as (-> & -> & _). apply (Hm _ _ _ H2 Ho).
  Qed.
  Lemma fsim_lpoll {A B} l (ms : M sstate A) (ml : M lstate B) : fsim ms ml -> fsim ms (lpoll l ;;; ml).
  Proof.
    intros Hm ss p e H Ho ls pl HR Hb. apply nres_bind. unfold lpoll. apply nres_poll; [exact Hb|]. intros pl0 Hb0. apply (Hm _ _ _ H Ho ls pl0 HR Hb0).
  Qed.
  Lemma fsim_lpoll_n {A B} n l (ms : M sstate A) (ml : M lstate B) : fsim ms ml -> fsim ms (lpoll_n n l ;;; ml).
  Proof.
    intros Hm ss p e H Ho ls pl HR Hb. apply nres_bind. apply nres_of_lres. eapply lres_mono; [apply lpoll_n_res, Hb|].
    intros _ ls0 pl0 [-> Hb0]. apply (Hm _ _ _ H Ho ls pl0 HR Hb0).
  Qed.
  Lemma fsim_lext {A B} (ms : M sstate A) (ml ml' : M lstate B) : (forall s p, ml s p = ml' s p) -> fsim ms ml' -> fsim ms ml.
  Proof. intros E H ss p e Hs Ho ls pl HR Hb. rewrite E. apply (H _ _ _ Hs Ho ls pl HR Hb). Qed.
  Lemma fsim_iter {X} (P : X -> Prop) (F : X -> M sstate unit) (F' : X -> M lstate unit) l :
    (forall x, P x -> xsimU (F x) (F' x)) -> (forall x, P x -> fsim (F x) (F' x)) -> (forall x, dpres (F' x)) -> All P l -> fsim (iterM F l) (iterM F' l).
  Proof.
    intros HX HF HD. induction l as [|x l IH]; intros HP; cbn [iterM]; [apply fsim_noerr; discriminate|]. destruct HP as [Px HP].
    apply fsim_seq; [apply HX, Px|apply HF, Px|apply dpres_iterM, HD|apply IH, HP].
  Qed.
  Lemma fsim_mapM {X A B} (Q : A -> B -> Prop) (P : X -> Prop) (F : X -> M sstate A) (F' : X -> M lstate B) l :
    (forall x, P x -> xsim Q (F x) (F' x)) -> (forall x, P x -> fsim (F x) (F' x)) -> (forall x, dpres (F' x)) -> All P l -> fsim (mapM F l) (mapM F' l).
  Proof.
    intros HX HF HD. induction l as [|x l IH]; intros HP; cbn [mapM]; [apply fsim_noerr; discriminate|]. destruct HP as [Px HP].
    assert (HDl : dpres (mapM F' l)).
    { clear -HD. induction l as [|y l IHl]; cbn [mapM]; [apply dpres_ret|]. apply dpres_bind; [apply HD|intros b]. apply dpres_bind; [exact IHl|intros bs; apply dpres_ret]. }
    eapply fsim_bind; [apply HX, Px|apply HF, Px| |].
    - intros b. apply dpres_bind; [exact HDl|intros bs; apply dpres_ret].
    - intros a b _. eapply fsim_bind; [apply (xsim_mapM call Q P F F' l HX HP)|apply IH, HP|intros bs; apply dpres_ret|]. intros as_ bs _. apply fsim_noerr. discriminate.
  Qed.

  (* ---------------- from the expression-level failure relations to doomed states ---------------- *)
  Lemma doomed_thunk rhoK d ls : Jst rhoK (Some d) (l_store ls) -> Doomed ls.
  Proof. intros HJ. exists rhoK, (Some d). split; [exact HJ|]. left. discriminate. Qed.
  Lemma doomed_stmt rhoK dt st ls : Jst rhoK dt (l_store ls) -> In st (l_edges ls) \/ In st (l_attrs ls) \/ In st (l_prints ls) -> bad_stmt rhoK st -> Doomed ls.
  Proof. intros HJ Hin Hbad. exists rhoK, dt. split; [exact HJ|]. right. left. exists st. auto. Qed.
  Lemma doomed_conflict rho rhoK ss ls ls1 st : Rel rho ss ls -> prefix rho rhoK -> EFr ls ls1 -> sbk rhoK (l_store ls1) ->
    bad_stmt_g rhoK (s_graph ss) st -> Doomed (lpush_attr st ls1).
  Proof.
    intros (_ & _ & _ & eops & aopss & g1 & He & Ha & Hg1 & Hg2) Hp (F1 & F2 & F3 & F4) Hs Hbad. exists rhoK, None.
    split; [apply Jst_none; exact Hs|]. right. right.
    exists (l_edges ls), [], (l_attrs ls), st, [], eops, aopss, (l_graph ls), g1, (s_graph ss). cbn [lpush_attr l_edges l_attrs l_graph].
    split; [rewrite app_nil_r; symmetry; exact F2|]. split; [rewrite F3; reflexivity|].
    split; [eapply Forall2_mono_l; [|exact He]; intros st0 e0; apply den_edge_mono, Hp|].
    split; [eapply Forall2_mono_l; [|exact Ha]; intros st0 e0; apply den_astmt_mono, Hp|]. auto.
  Qed.

  (* a bound variable: `let` / `var` / `set` *)
  Lemma store_add_doomed rhoK lv dbg ls : sbk rhoK (l_store ls) -> bad_lv rhoK lv ->
    Jst rhoK (Some (length (l_store ls), lv)) (l_store ls ++ [{| th_state := TUnforced lv; th_dbg := dbg |}]).
  Proof.
    intros Hs HB. split; [apply sbk_app, Hs|]. split; [apply (sbk_len call _ _ Hs)|]. split; [exact HB|]. exists dbg.
    rewrite nth_error_app2, Nat.sub_diag by lia. reflexivity.
  Qed.
  Lemma fsim_bind_var fuel le ll e lf name mu : fexpr' e -> env_rel' le ll ->
    fsim (x <- eval' fuel le e ;; unscoped_add glob name x mu) (x <- leval' lf ll e ;; lunscoped_add glob ll name x mu).
  Proof.
    intros Hf Henv ss p err H Ho ls pl [rho HR] Hb. apply bind_err in H. destruct H as [H|(x & s1 & p1 & H1 & H2)].
    - apply nres_bind. eapply nres_mono; [apply (eval_fail t fl glob call okfn Hpure Hperr Hcall m fuel le ll e Hf Henv lf _ _ _ H Ho rho ls pl (proj1 HR) Hb)|].
      intros lv ls1 pl1 (Hb1 & HF1 & rhoK & Hp & Hs & HB). unfold lunscoped_add. destruct (globals_get glob name); [exact I|].
      apply nres_bind. rewrite store_add_eq. cbn [nres]. apply nres_get.
      destruct (varmap_add (l_locals (set_store (l_store ls1 ++ [{| th_state := TUnforced lv; th_dbg := ll_ctx ll |}]) ls1)) name (LVar (N.of_nat (length (l_store ls1)))) mu) as [l1|e1]; [|exact I].
      rewrite set_llocals_eq. cbn [nres]. split; [exact Hb1|]. eapply doomed_thunk. cbn [lset_locals set_store l_store]. apply store_add_doomed; eassumption.
    - apply nres_bind. apply nres_of_lres.
      eapply lres_mono; [apply (eval_sim t fl glob call okfn Hpure m fuel le ll e Hf Henv lf _ _ _ _ _ H1 rho ls pl (proj1 HR) Hb)|].
      intros lv ls1 pl1 (Hb1 & _ & _ & rho1 & _ & HR1 & _). apply nok_nres. apply (unscoped_add_fail glob call ll name x lv mu _ _ _ H2 Ho rho1 ls1 pl1 HR1 Hb1).
  Qed.
  Lemma unscoped_set_fail ll name v lv : enok call (unscoped_set glob name v) (lunscoped_set glob ll name lv).
  Proof.
    intros ss p e H Ho rho ls pl [Hst Hl] Hb. unfold unscoped_set, lunscoped_set in *. destruct (globals_get glob name); [exact I|].
    unfold bind, get_state in H. destruct (varmap_set (s_locals ss) name v) as [l1|e1] eqn:E; [discriminate|].
    apply nres_bind. rewrite store_add_eq. cbn [nres]. apply nres_get. cbn [set_store l_locals].
    destruct (varmap_set (l_locals ls) name (LVar (N.of_nat (length (l_store ls))))) as [l1'|e1'] eqn:E'; [|destruct (varmap_get (l_locals ls) name); exact I].
    exfalso. clear H Hst. revert l1' E' e1 E. induction Hl as [|f f' l l' Hf Hl' IH]; intros l1' E' e1 E; cbn [varmap_set] in *; [discriminate|].
    pose proof (frame_get call rho f f' name Hf) as G. destruct (alist_get name f) as [[v1 m1]|], (alist_get name f') as [[lv2 m2]|]; try contradiction.
    - destruct G as [<- _]. destruct m1; discriminate.
    - destruct (varmap_set l name v) as [up|e2] eqn:Eu; [discriminate|]. destruct (varmap_set l' name (LVar (N.of_nat (length (l_store ls))))) as [up'|e2'] eqn:Eu'; [|discriminate].
      apply (IH up' eq_refl e2 eq_refl).
  Qed.
  Lemma fsim_set_var fuel le ll e lf name : fexpr' e -> env_rel' le ll ->
    fsim (x <- eval' fuel le e ;; unscoped_set glob name x) (x <- leval' lf ll e ;; lunscoped_set glob ll name x).
  Proof.
    intros Hf Henv ss p err H Ho ls pl [rho HR] Hb. apply bind_err in H. destruct H as [H|(x & s1 & p1 & H1 & H2)].
    - apply nres_bind. eapply nres_mono; [apply (eval_fail t fl glob call okfn Hpure Hperr Hcall m fuel le ll e Hf Henv lf _ _ _ H Ho rho ls pl (proj1 HR) Hb)|].
      intros lv ls1 pl1 (Hb1 & HF1 & rhoK & Hp & Hs & HB). unfold lunscoped_set. destruct (globals_get glob name); [exact I|].
      apply nres_bind. rewrite store_add_eq. cbn [nres]. apply nres_get.
      destruct (varmap_set (l_locals (set_store (l_store ls1 ++ [{| th_state := TUnforced lv; th_dbg := ll_ctx ll |}]) ls1)) name (LVar (N.of_nat (length (l_store ls1))))) as [l1|e1].
      + rewrite set_llocals_eq. cbn [nres]. split; [exact Hb1|]. eapply doomed_thunk. cbn [lset_locals set_store l_store]. apply store_add_doomed; eassumption.
      + destruct (varmap_get (l_locals (set_store (l_store ls1 ++ [{| th_state := TUnforced lv; th_dbg := ll_ctx ll |}]) ls1)) name); exact I.
    - apply nres_bind. apply nres_of_lres.
      eapply lres_mono; [apply (eval_sim t fl glob call okfn Hpure m fuel le ll e Hf Henv lf _ _ _ _ _ H1 rho ls pl (proj1 HR) Hb)|].
      intros lv ls1 pl1 (Hb1 & _ & _ & rho1 & _ & HR1 & _). apply nok_nres. apply (unscoped_set_fail ll name x lv _ _ _ H2 Ho rho1 ls1 pl1 HR1 Hb1).
  Qed.

  (* ---------------- graph statements ---------------- *)
  Lemma push_attr_eq st s p : (match st with LSAttrNode _ _ _ | LSAttrEdge _ _ _ _ => True | _ => False end) ->
    push_lstmt st s p = Ok (tt, lpush_attr st s, p).
  Proof. destruct st; try contradiction; reflexivity. Qed.
  Lemma push_edge_eq a b ea dbg s p : push_lstmt (LSEdge a b ea dbg) s p = Ok (tt, lpush_edge (LSEdge a b ea dbg) s, p).
  Proof. reflexivity. Qed.
  Lemma push_print_eq args dbg s p : push_lstmt (LSPrint args dbg) s p = Ok (tt, lpush_print (LSPrint args dbg) s, p).
  Proof. reflexivity. Qed.
  Lemma in_snoc {A} (l : list A) x : In x (l ++ [x]). Proof. apply in_or_app. right. left. reflexivity. Qed.

  Lemma endpoint_fail fuel le ll e lf : fexpr' e -> env_rel' le ll ->
    efail call bad_end (x <- eval' fuel le e ;; lift (as_gnode x)) (leval' lf ll e).
  Proof.
    intros Hf Henv ss p err H Ho rho ls pl HR Hb. apply bind_err in H. destruct H as [H|(x & s1 & p1 & H1 & H2)].
    - eapply nres_mono; [apply (eval_fail t fl glob call okfn Hpure Hperr Hcall m fuel le ll e Hf Henv lf _ _ _ H Ho rho ls pl HR Hb)|].
      intros lv ls1 pl1 (Hb1 & HF1 & rhoK & Hp & Hs & HB). split; [exact Hb1|]. split; [exact HF1|]. exists rhoK. split; [exact Hp|]. split; [exact Hs|]. apply bad_end_lv, HB.
    - apply lift_err in H2. apply nres_of_lres.
      eapply lres_mono; [apply (eval_sim t fl glob call okfn Hpure m fuel le ll e Hf Henv lf _ _ _ _ _ H1 rho ls pl HR Hb)|].
      intros lv ls1 pl1 (Hb1 & _ & Hf1 & rho1 & Hp1 & HR1 & Hd). split; [exact Hb1|]. split; [apply lframe_EFr, Hf1|]. exists rho1. split; [exact Hp1|].
      split; [apply (Renv_sbk call _ _ _ HR1)|]. apply (bad_end_type call t fl rho1 lv x Hd). intros n ->. discriminate.
  Qed.

  (* the attributes of an `attr` statement failed: the statement that is recorded dooms the state *)
  Lemma attrs_doomed tgt rho1 s1 ls1 outs ls2 pl2 (st : lstmt) :
    Rel rho1 s1 ls1 -> fpostA t fl call tgt (s_graph s1) rho1 ls1 outs ls2 pl2 ->
    (match st with LSAttrNode _ _ _ | LSAttrEdge _ _ _ _ => True | _ => False end) ->
    (forall rhoK key lv, prefix rho1 rhoK -> In (key, lv) outs -> bad_lv rhoK lv -> bad_stmt rhoK st) ->
    (forall rhoK pre key lv post kvs G' v, prefix rho1 rhoK -> outs = pre ++ (key, lv) :: post -> den_attrs rhoK pre kvs -> den rhoK lv v ->
       apply_attrs (map (mk tgt) kvs) (s_graph s1) = Some G' -> conflict (mk tgt (key, v)) G' -> bad_stmt_g rhoK (s_graph s1) st) ->
    nob pl2 /\ Doomed (lpush_attr st ls2).
  Proof.
    intros HR1 (Hb2 & HF2 & rhoK & dt & Hp & HJ & HB) Hst Hbad Hconf. split; [exact Hb2|]. destruct dt as [d|].
    - eapply doomed_thunk. cbn [lpush_attr l_store]. exact HJ.
    - destruct (HB eq_refl) as (pre & key & lv & post & kvs & G' & Eo & Hpre & HG & [Hlv|(v & Hv & Hc)]).
      + eapply (doomed_stmt rhoK None); [exact HJ|right; left; cbn [lpush_attr l_attrs]; apply in_snoc|].
        apply (Hbad rhoK key lv Hp); [rewrite Eo; apply in_or_app; right; left; reflexivity|exact Hlv].
      + apply (doomed_conflict rho1 rhoK s1 ls1 ls2 st HR1 Hp HF2 (Jst_sbk _ _ _ _ _ _ HJ)). eapply Hconf; eauto.
  Qed.

  Lemma fsim_attr_node fuel le ll lf node attrs : fexpr' node -> All fattr' attrs -> env_rel' le ll ->
    fsim (nv <- eval' fuel le node ;; n <- lift (as_gnode nv) ;; iterM (exec_attr' fuel le (TNode n)) attrs)
         (nv <- leval' lf ll node ;; outs <- mapM (lexec_attr' lf ll) attrs ;; push_lstmt (LSAttrNode nv (concat outs) (ll_ctx ll))).
  Proof.
    intros Hfn Hfa Henv ss p err H Ho ls pl [rho HR] Hb.
    assert (Hpa : pfr (mapM (lexec_attr' lf ll) attrs)) by (apply pfr_mapM; intros a; apply pfr_lexec_attr, Hcall).
    assert (H' : (x <- eval' fuel le node ;; lift (as_gnode x)) ss p = Err err \/
                 exists n s1 p1, (x <- eval' fuel le node ;; lift (as_gnode x)) ss p = Ok (n, s1, p1) /\ iterM (exec_attr' fuel le (TNode n)) attrs s1 p1 = Err err).
    { apply bind_err in H. destruct H as [H|(nv0 & s1 & p1 & H1 & H)]; [left; unfold bind; rewrite H; reflexivity|].
      apply bind_err in H. destruct H as [H|(n & s2 & p2 & H2 & H3)]; [left; unfold bind; rewrite H1; exact H|].
      right. exists n, s2, p2. split; [unfold bind at 1; rewrite H1; exact H2|exact H3]. }
    destruct H' as [H1|(n & s1 & p1 & H1 & H3)].
    - (* the node does not evaluate to a graph node *)
      apply nres_bind. eapply nres_mono; [apply (endpoint_fail fuel le ll node lf Hfn Henv _ _ _ H1 Ho rho ls pl (proj1 HR) Hb)|]. intros nv ls1 pl1 HP1.
      apply nres_bind.
      eapply nres_mono; [apply (fpostE_tail t fl call bad_end (fun r (_ : list (list (ident * lvalue))) => bad_end r nv) rho ls nv ls1 pl1 _ HP1 Hpa)|]; [auto|].
      intros outs ls2 pl2 (Hb2 & HF2 & rhoK & Hp & Hs & HB). rewrite push_attr_eq by exact I. cbn [nres]. split; [exact Hb2|].
      eapply (doomed_stmt rhoK None); [apply Jst_none; exact Hs|right; left; cbn [lpush_attr l_attrs]; apply in_snoc|]. apply bad_stmt_node_end, HB.
    - (* an attribute fails *)
      apply nres_bind. apply nres_of_lres.
      eapply lres_mono; [apply (endpoint_sim t fl glob call okfn Hpure m fuel le ll node lf Hfn Henv _ _ _ _ _ H1 rho ls pl (proj1 HR) Hb)|].
      intros nv ls1 pl1 HP1. destruct (rel_step call _ rho n ss s1 ls nv ls1 pl1 HR HP1) as (rho1 & Hp1 & HR1 & Hdn).
      apply nres_bind.
      eapply nres_mono; [apply (attrs_fail t fl call (TNode n) _ _ attrs (attrs_all_sim t fl glob call okfn Hpure m Hsh fuel le ll (TNode n) lf attrs Hfa Henv)
                                 (fun a Hin => attr_fail t fl glob call okfn Hpure Hperr Hcall m Hsh fuel le ll (TNode n) a (All_In _ _ _ Hfa Hin) Henv lf)
                                 (fun a => pfr_lexec_attr t fl glob call Hcall lf ll a) _ _ _ H3 Ho rho1 ls1 pl1 (proj1 HR1) (proj1 HP1))|].
      intros outs ls2 pl2 HP2. rewrite push_attr_eq by exact I. cbn [nres].
      apply (attrs_doomed (TNode n) rho1 s1 ls1 (concat outs) ls2 pl2 (LSAttrNode nv (concat outs) (ll_ctx ll)) HR1 HP2 I).
      + intros rhoK key lv _ Hin Hlv. apply (bad_stmt_node_attr call t fl rhoK nv (concat outs) (ll_ctx ll) key lv Hin Hlv).
      + intros rhoK pre key lv post kvs G' v Hp -> Hpre Hv HG Hc.
        apply (bad_stmt_node_conflict call t fl rhoK (s_graph s1) G' nv n pre kvs key lv v post (ll_ctx ll)); try assumption. eapply den_mono; eauto.
  Qed.

  Lemma add_edge_noerr a b s p e : add_edge a b s p <> Err e.
  Proof. unfold add_edge, bind, get_state. destruct (graph_add_edge (s_graph s) a b) as [[g' nw]|]; discriminate. Qed.

  Lemma fsim_edge fuel le ll lf src snk dbg : fexpr' src -> fexpr' snk -> env_rel' le ll ->
    fsim (a <- (x <- eval' fuel le src ;; lift (as_gnode x)) ;; b <- (x <- eval' fuel le snk ;; lift (as_gnode x)) ;;
          isnew <- add_edge a b ;; (if isnew : bool then ret tt else ret tt))
         (a <- leval' lf ll src ;; b <- leval' lf ll snk ;; push_lstmt (LSEdge a b [] dbg)).
  Proof.
    intros Hfa Hfb Henv ss p err H Ho ls pl [rho HR] Hb. apply bind_err in H. destruct H as [H|(a & s1 & p1 & H1 & H)].
    - apply nres_bind. eapply nres_mono; [apply (endpoint_fail fuel le ll src lf Hfa Henv _ _ _ H Ho rho ls pl (proj1 HR) Hb)|]. intros a' ls1 pl1 HP1.
      apply nres_bind.
      eapply nres_mono; [apply (fpostE_tail t fl call bad_end (fun r (_ : lvalue) => bad_end r a') rho ls a' ls1 pl1 _ HP1 (pfr_leval t fl glob call Hcall lf ll snk))|]; [auto|].
      intros b' ls2 pl2 (Hb2 & HF2 & rhoK & Hp & Hs & HB). rewrite push_edge_eq. cbn [nres]. split; [exact Hb2|].
      eapply (doomed_stmt rhoK None); [apply Jst_none; exact Hs|left; cbn [lpush_edge l_edges]; apply in_snoc|]. apply bad_stmt_edge_src, HB.
    - apply nres_bind. apply nres_of_lres.
      eapply lres_mono; [apply (endpoint_sim t fl glob call okfn Hpure m fuel le ll src lf Hfa Henv _ _ _ _ _ H1 rho ls pl (proj1 HR) Hb)|].
      intros a' ls1 pl1 HP1. destruct (rel_step call _ rho a ss s1 ls a' ls1 pl1 HR HP1) as (rho1 & Hp1 & HR1 & Hda).
      apply bind_err in H. destruct H as [H|(b & s2 & p2 & H2 & H)].
      + apply nres_bind. eapply nres_mono; [apply (endpoint_fail fuel le ll snk lf Hfb Henv _ _ _ H Ho rho1 ls1 pl1 (proj1 HR1) (proj1 HP1))|].
        intros b' ls2 pl2 (Hb2 & HF2 & rhoK & Hp & Hs & HB). rewrite push_edge_eq. cbn [nres]. split; [exact Hb2|].
        eapply (doomed_stmt rhoK None); [apply Jst_none; exact Hs|left; cbn [lpush_edge l_edges]; apply in_snoc|]. apply bad_stmt_edge_snk, HB.
      + exfalso. apply bind_err in H. destruct H as [H|(isnew & s3 & p3 & H3 & H4)]; [eapply add_edge_noerr; eauto|]. destruct isnew; eapply ret_noerr; eauto.
  Qed.

  Lemma fsim_attr_edge fuel le ll lf src snk attrs : fexpr' src -> fexpr' snk -> All fattr' attrs -> env_rel' le ll ->
    fsim (a <- (x <- eval' fuel le src ;; lift (as_gnode x)) ;; b <- (x <- eval' fuel le snk ;; lift (as_gnode x)) ;;
          iterM (exec_attr' fuel le (TEdge a b)) attrs)
         (a <- leval' lf ll src ;; b <- leval' lf ll snk ;; outs <- mapM (lexec_attr' lf ll) attrs ;;
          push_lstmt (LSAttrEdge a b (concat outs) (ll_ctx ll))).
  Proof.
    intros Hfa Hfb Hfat Henv ss p err H Ho ls pl [rho HR] Hb.
    assert (Hpa : pfr (mapM (lexec_attr' lf ll) attrs)) by (apply pfr_mapM; intros a0; apply pfr_lexec_attr, Hcall).
    apply bind_err in H. destruct H as [H|(a & s1 & p1 & H1 & H)].
    - apply nres_bind. eapply nres_mono; [apply (endpoint_fail fuel le ll src lf Hfa Henv _ _ _ H Ho rho ls pl (proj1 HR) Hb)|]. intros a' ls1 pl1 HP1.
      assert (Hk : pfr (b <- leval' lf ll snk ;; mapM (lexec_attr' lf ll) attrs)) by (apply pfr_bind; [apply pfr_leval, Hcall|intros _; exact Hpa]).
      apply nres_bind.
      eapply nres_mono; [apply (fpostE_tail t fl call bad_end (fun r (_ : lvalue) => bad_end r a') rho ls a' ls1 pl1 _ HP1 (pfr_leval t fl glob call Hcall lf ll snk))|]; [auto|].
      intros b' ls2 pl2 HP2. apply nres_bind.
      eapply nres_mono; [apply (fpostE_tail t fl call _ (fun r (_ : list (list (ident * lvalue))) => bad_end r a') rho ls b' ls2 pl2 _ HP2 Hpa)|]; [auto|].
      intros outs ls3 pl3 (Hb3 & HF3 & rhoK & Hp & Hs & HB). rewrite push_attr_eq by exact I. cbn [nres]. split; [exact Hb3|].
      eapply (doomed_stmt rhoK None); [apply Jst_none; exact Hs|right; left; cbn [lpush_attr l_attrs]; apply in_snoc|]. apply bad_stmt_aedge_src, HB.
    - apply nres_bind. apply nres_of_lres.
      eapply lres_mono; [apply (endpoint_sim t fl glob call okfn Hpure m fuel le ll src lf Hfa Henv _ _ _ _ _ H1 rho ls pl (proj1 HR) Hb)|].
      intros a' ls1 pl1 HP1. destruct (rel_step call _ rho a ss s1 ls a' ls1 pl1 HR HP1) as (rho1 & Hp1 & HR1 & Hda).
      apply bind_err in H. destruct H as [H|(b & s2 & p2 & H2 & H3)].
      + apply nres_bind. eapply nres_mono; [apply (endpoint_fail fuel le ll snk lf Hfb Henv _ _ _ H Ho rho1 ls1 pl1 (proj1 HR1) (proj1 HP1))|]. intros b' ls2 pl2 HP2.
        apply nres_bind.
        eapply nres_mono; [apply (fpostE_tail t fl call bad_end (fun r (_ : list (list (ident * lvalue))) => bad_end r b') rho1 ls1 b' ls2 pl2 _ HP2 Hpa)|]; [auto|].
        intros outs ls3 pl3 (Hb3 & HF3 & rhoK & Hp & Hs & HB). rewrite push_attr_eq by exact I. cbn [nres]. split; [exact Hb3|].
        eapply (doomed_stmt rhoK None); [apply Jst_none; exact Hs|right; left; cbn [lpush_attr l_attrs]; apply in_snoc|]. apply bad_stmt_aedge_snk, HB.
      + apply nres_bind. apply nres_of_lres.
        eapply lres_mono; [apply (endpoint_sim t fl glob call okfn Hpure m fuel le ll snk lf Hfb Henv _ _ _ _ _ H2 rho1 ls1 pl1 (proj1 HR1) (proj1 HP1))|].
        intros b' ls2 pl2 HP2. destruct (rel_step call _ rho1 b s1 s2 ls1 b' ls2 pl2 HR1 HP2) as (rho2 & Hp12 & HR2 & Hdb).
        apply nres_bind.
        eapply nres_mono; [apply (attrs_fail t fl call (TEdge a b) _ _ attrs (attrs_all_sim t fl glob call okfn Hpure m Hsh fuel le ll (TEdge a b) lf attrs Hfat Henv)
                                   (fun a0 Hin => attr_fail t fl glob call okfn Hpure Hperr Hcall m Hsh fuel le ll (TEdge a b) a0 (All_In _ _ _ Hfat Hin) Henv lf)
                                   (fun a0 => pfr_lexec_attr t fl glob call Hcall lf ll a0) _ _ _ H3 Ho rho2 ls2 pl2 (proj1 HR2) (proj1 HP2))|].
        intros outs ls3 pl3 HP3. rewrite push_attr_eq by exact I. cbn [nres].
        apply (attrs_doomed (TEdge a b) rho2 s2 ls2 (concat outs) ls3 pl3 (LSAttrEdge a' b' (concat outs) (ll_ctx ll)) HR2 HP3 I).
        * intros rhoK key lv _ Hin Hlv. apply (bad_stmt_aedge_attr call t fl rhoK a' b' (concat outs) (ll_ctx ll) key lv Hin Hlv).
        * intros rhoK pre key lv post kvs G' v Hp -> Hpre Hv HG Hc.
          apply (bad_stmt_edge_conflict call t fl rhoK (s_graph s2) G' a' b' a b pre kvs key lv v post (ll_ctx ll)); try assumption.
          -- eapply den_mono; [|exact Hda]. eapply prefix_trans; eauto.
          -- eapply den_mono; eauto.
  Qed.

  (* `print` *)
  Definition bad_arg (r : list value) (a : option lvalue) : Prop := exists lv, a = Some lv /\ bad_lv r lv.
  Lemma print_arg_fail fuel le ll lf e : fexpr' e -> env_rel' le ll ->
    efail call bad_arg (match e with EStr _ => ret tt | _ => eval' fuel le e ;;; ret tt end)
                       (match e with EStr _ => ret None | _ => lv <- leval' lf ll e ;; ret (Some lv) end).
  Proof.
    intros Hf Henv.
    assert (Hgen : efail call bad_arg (eval' fuel le e ;;; ret tt) (lv <- leval' lf ll e ;; ret (Some lv))).
    { intros ss p err H Ho rho ls pl HR Hb. apply bind_err in H. destruct H as [H|(v & s1 & p1 & H1 & H2)]; [|exfalso; eapply ret_noerr; eauto].
      apply nres_bind. eapply nres_mono; [apply (eval_fail t fl glob call okfn Hpure Hperr Hcall m fuel le ll e Hf Henv lf _ _ _ H Ho rho ls pl HR Hb)|].
      intros lv ls1 pl1 (Hb1 & HF1 & rhoK & Hp & Hs & HB). apply nres_ret. split; [exact Hb1|]. split; [exact HF1|]. exists rhoK. split; [exact Hp|]. split; [exact Hs|].
      exists lv. auto. }
    destruct e; try exact Hgen. intros ss p err H. exfalso. eapply ret_noerr; eauto.
  Qed.
  Lemma print_arg_pfr lf ll e : pfr (match e with EStr _ => ret None | _ => lv <- leval' lf ll e ;; ret (Some lv) end).
  Proof.
    assert (Hgen : pfr (lv <- leval' lf ll e ;; ret (Some lv))) by (apply pfr_bind; [apply pfr_leval, Hcall|intros lv; apply pfr_ret]).
    destruct e; try exact Hgen. apply pfr_ret.
  Qed.
  Lemma fsim_print fuel le ll lf values dbg : All fexpr' values -> env_rel' le ll ->
    fsim (iterM (fun e => match e with EStr _ => ret tt | _ => eval' fuel le e ;;; ret tt end) values)
         (args <- mapM (fun e => match e with EStr _ => ret None | _ => lv <- leval' lf ll e ;; ret (Some lv) end) values ;;
          push_lstmt (LSPrint args dbg)).
  Proof.
    intros Hf Henv ss p err H Ho ls pl [rho HR] Hb. apply iterM_err_mapM in H. apply nres_bind.
    eapply nres_mono; [apply (trav_fail t fl call _ _ (arg_ok call) bad_arg fexpr' (arg_ok_mono call)
                               (fun e He => print_arg_sim t fl glob call okfn Hpure m fuel le ll lf e He Henv)
                               (fun e He => print_arg_fail fuel le ll lf e He Henv) (fun e => print_arg_pfr lf ll e) values Hf _ _ _ H Ho rho ls pl (proj1 HR) Hb)|].
    intros args ls1 pl1 (Hb1 & HF1 & rhoK & Hp & Hs & pre & a & post & us & -> & _ & lv & -> & HB). rewrite push_print_eq. cbn [nres]. split; [exact Hb1|].
    eapply (doomed_stmt rhoK None); [apply Jst_none; exact Hs|right; right; cbn [lpush_print l_prints]; apply in_snoc|].
    apply (bad_stmt_print call t fl rhoK _ dbg lv); [apply in_or_app; right; left; reflexivity|exact HB].
  Qed.

  (* ---------------- control flow ---------------- *)
  Ltac dp := repeat first
    [ apply dpres_ret | apply dpres_lexec_stmt | apply dpres_push_lstmt | apply dpres_block | apply dpres_arm_block
    | apply dpres_of_pfr; first [ apply pfr_lpush_frame | apply pfr_lpop_frame | apply pfr_lclear_frame | apply pfr_lunscoped_add | apply pfr_lift
                                | apply pfr_leager; exact Hcall | apply pfr_leval; exact Hcall | apply pfr_ltest_cond; exact Hcall | apply pfr_lpoll | apply pfr_lpoll_n
                                | apply pfr_noresult; discriminate ]
    | apply dpres_ctx | apply dpres_iterM; intros ? | apply dpres_bind; [|intros ?] ].

  Lemma fsim_lift_same {A} (r : res A) : fsim (lift r) (lift r).
  Proof. apply fsim_nok. intros ss p e H _ ls pl _ _. apply lift_err in H. subst r. exact I. Qed.
  Lemma fsim_eager fuel le ll e lf : fexpr' e -> env_rel' le ll -> fsim (eval' fuel le e) (leager t fl glob call lf ll e).
  Proof. intros Hf Henv. apply fsim_enok. apply (leager_fail t fl glob call okfn Hpure Hperr Hcall m); assumption. Qed.

  Lemma fsim_cond fuel le ll lf c : fcond okfn m c -> env_rel' le ll -> fsim (test_cond t fl glob call fuel le c) (ltest_cond t fl glob call lf ll c).
  Proof.
    intros Hf Henv. destruct c; cbn [test_cond ltest_cond fcond] in *.
    - eapply fsim_bind; [apply (xsim_eager t fl glob call okfn Hpure m); eassumption|apply fsim_eager; assumption|intros b; dp|]. intros a b _. apply fsim_noerr. discriminate.
    - eapply fsim_bind; [apply (xsim_eager t fl glob call okfn Hpure m); eassumption|apply fsim_eager; assumption|intros b; dp|]. intros a b _. apply fsim_noerr. discriminate.
    - eapply fsim_bind; [apply (xsim_eager t fl glob call okfn Hpure m); eassumption|apply fsim_eager; assumption|intros b; dp|]. intros a b <-. apply fsim_lift_same.
  Qed.

  Lemma push_frame_noerr s p e : push_frame s p <> Err e. Proof. rewrite push_frame_eq. discriminate. Qed.
  Lemma clear_frame_noerr s p e : clear_frame s p <> Err e. Proof. rewrite clear_frame_eq. discriminate. Qed.

  Lemma fsim_if test test' run run' arms :
    All (fun arm : list cond * list stmt * loc =>
           All (fun c => xsim eq (test c) (test' c) /\ fsim (test c) (test' c)) (fst (fst arm)) /\
           xsimU (run (snd (fst arm))) (run' (snd (fst arm))) /\ fsim (run (snd (fst arm))) (run' (snd (fst arm)))) arms ->
    (forall c, dpres (test' c)) -> (forall body, dpres (run' body)) ->
    fsim (if_loop test run arms) (lif_loop test' run' arms).
  Proof.
    intros Harms Ht Hr. induction arms as [|[[conds body] l'] arms IH]; cbn [if_loop lif_loop All fst snd] in *; [apply fsim_noerr; discriminate|].
    destruct Harms as [[Hc [Hbx Hbf]] Hrest].
    assert (Hcx : All (fun c => xsim eq (test c) (test' c)) conds) by (eapply All_impl; [|exact Hc]; intros c [H _]; exact H).
    eapply fsim_bind; [apply (xsim_mapM call eq _ test test' conds (fun c Hc0 => Hc0) Hcx)| | |].
    - apply (fsim_mapM eq (fun c => xsim eq (test c) (test' c) /\ fsim (test c) (test' c)) test test' conds); [intros c [H _]; exact H|intros c [_ H]; exact H|exact Ht|exact Hc].
    - intros bs. destruct (forallb (fun b => b) bs); [dp; apply Hr|apply dpres_lif_loop; assumption].
    - intros bs bs' HF. apply Forall2_eq in HF. subst bs'. destruct (forallb (fun b => b) bs); [|apply IH, Hrest].
      apply fsim_seq; [apply xsim_push_frame|apply fsim_noerr, push_frame_noerr|dp; apply Hr|].
      apply fsim_seq; [exact Hbx|exact Hbf|dp|apply fsim_noerr, pop_frame_noerr].
  Qed.

  Lemma fsim_scan run run' arms rs subject :
    (forall caps k r body l', nth_error arms k = Some (r, body, l') -> xsimU (run caps body) (run' caps body)) ->
    (forall caps k r body l', nth_error arms k = Some (r, body, l') -> fsim (run caps body) (run' caps body)) ->
    (forall caps body, dpres (run' caps body)) ->
    forall sfuel i, fsim (scan_loop find run arms rs subject sfuel i) (lscan_loop find run' arms rs subject sfuel i).
  Proof.
    intros Hx Hf Hd. induction sfuel as [|sfuel IH]; intros i; cbn [scan_loop lscan_loop]; [apply fsim_noerr; discriminate|].
    destruct (N.ltb i (N.of_nat (length subject))); [|apply fsim_noerr; discriminate]. apply fsim_spoll. cbv zeta. apply fsim_lpoll_n.
    destruct (arm_select find rs (skipn (N.to_nat i) subject)) as [|k|k caps]; [apply fsim_noerr; discriminate|apply fsim_nok; intros; exact I|].
    destruct (nth_error arms (N.to_nat k)) as [[[r body] l']|] eqn:E; [|apply fsim_noerr; discriminate].
    assert (Hl : dpres (lscan_loop find run' arms rs subject sfuel (i + snd (cap0 caps)))) by (apply dpres_lscan_loop, Hd).
    apply fsim_seq; [apply xsim_push_frame|apply fsim_noerr, push_frame_noerr|dp; [apply Hd|exact Hl]|].
    apply fsim_seq; [apply (Hx _ _ _ _ _ E)|apply (Hf _ _ _ _ _ E)|dp; exact Hl|].
    apply fsim_seq; [apply xsim_pop_frame|apply fsim_noerr, pop_frame_noerr|exact Hl|apply IH].
  Qed.

  Lemma fsim_loof {A B} (ms : M sstate A) : fsim ms (@out_of_fuel lstate B).
  Proof. intros ss p e H Ho ls pl HR Hb. exact I. Qed.

  Lemma stmt_fail : forall fuel le ll s, fstmt' s -> env_rel' le ll -> forall lf, fsim (exec_stmt' fuel le s) (lexec_stmt' lf ll s).
  Proof.
    induction fuel as [|fuel IH]; intros le ll s Hf Henv lf; [apply fsim_noerr; discriminate|]. destruct lf as [|lf]; [apply fsim_loof|].
    assert (Hsim : forall le' ll' s', fstmt' s' -> env_rel' le' ll' -> xsimU (exec_stmt' fuel le' s') (lexec_stmt' lf ll' s'))
      by (intros le' ll' s' Hs' He'; apply (stmt_sim t fl glob regexes find call okfn Hpure m Hsh); assumption).
    assert (Hblockx : forall le' ll' body, env_rel' le' ll' -> All fstmt' body ->
               xsimU (iterM (fun st => let c := ctx_update (le_ctx le') st in
                                       ctx_wrap (CtxStmts [c]) (exec_stmt' fuel (le_with_ctx le' c) st)) body)
                     (iterM (fun st => lexec_stmt' lf (ll_with_ctx ll' (ctx_update (ll_ctx ll') st)) st) body)).
    { intros le' ll' body Henv' Hbody. apply (xsim_iter call fstmt'); [|exact Hbody]. intros st Hst. cbv zeta. apply xsim_sctx. apply Hsim; [exact Hst|exact Henv']. }
    assert (Hblock : forall le' ll' body, env_rel' le' ll' -> All fstmt' body ->
               fsim (iterM (fun st => let c := ctx_update (le_ctx le') st in
                                      ctx_wrap (CtxStmts [c]) (exec_stmt' fuel (le_with_ctx le' c) st)) body)
                    (iterM (fun st => lexec_stmt' lf (ll_with_ctx ll' (ctx_update (ll_ctx ll') st)) st) body)).
    { intros le' ll' body Henv' Hbody. apply (fsim_iter fstmt'); [| | |exact Hbody].
      - intros st Hst. cbv zeta. apply xsim_sctx. apply Hsim; [exact Hst|exact Henv'].
      - intros st Hst. cbv zeta. apply fsim_sctx. apply IH; [exact Hst|exact Henv'].
      - intros st. apply dpres_lexec_stmt. }
    assert (Harmx : forall le' ll' body, env_rel' le' ll' -> All fstmt' body ->
               xsimU (iterM (fun st => let c := ctx_update (le_ctx le') st in
                                       ctx_wrap (CtxStmts [c]) (ctx_wrap CtxOther (exec_stmt' fuel (le_with_ctx le' c) st))) body)
                     (iterM (fun st => let c := ctx_update (ll_ctx ll') st in
                                       ctx_wrap (CtxStmts [c]) (ctx_wrap CtxOther (lexec_stmt' lf (ll_with_ctx ll' c) st))) body)).
    { intros le' ll' body Henv' Hbody. apply (xsim_iter call fstmt'); [|exact Hbody]. intros st Hst. cbv zeta. apply xsim_sctx, xsim_sctx, xsim_lctx, xsim_lctx.
      apply Hsim; [exact Hst|exact Henv']. }
    assert (Harm : forall le' ll' body, env_rel' le' ll' -> All fstmt' body ->
               fsim (iterM (fun st => let c := ctx_update (le_ctx le') st in
                                      ctx_wrap (CtxStmts [c]) (ctx_wrap CtxOther (exec_stmt' fuel (le_with_ctx le' c) st))) body)
                    (iterM (fun st => let c := ctx_update (ll_ctx ll') st in
                                      ctx_wrap (CtxStmts [c]) (ctx_wrap CtxOther (lexec_stmt' lf (ll_with_ctx ll' c) st))) body)).
    { intros le' ll' body Henv' Hbody. apply (fsim_iter fstmt'); [| | |exact Hbody].
      - intros st Hst. cbv zeta. apply xsim_sctx, xsim_sctx, xsim_lctx, xsim_lctx. apply Hsim; [exact Hst|exact Henv'].
      - intros st Hst. cbv zeta. apply fsim_sctx, fsim_sctx, fsim_lctx, fsim_lctx. apply IH; [exact Hst|exact Henv'].
      - intros st. cbv zeta. apply dpres_ctx, dpres_ctx, dpres_lexec_stmt. }
    destruct s; cbn [exec_stmt lexec_stmt]; cbn [fstmt] in Hf; apply fsim_spoll, fsim_lpoll.
    - (* let *) destruct Hf as [Hv He]. destruct v; [|contradiction]. cbn [var_add lvar_add]. apply fsim_bind_var; assumption.
    - (* var *) destruct Hf as [Hv He]. destruct v; [|contradiction]. cbn [var_add lvar_add]. apply fsim_bind_var; assumption.
    - (* set *) destruct Hf as [Hv He]. destruct v; [|contradiction]. cbn [var_set lvar_set]. apply fsim_set_var; assumption.
    - (* node *) destruct v; [|contradiction]. cbn [config0 c_var_attr c_loc_attr c_match_attr opt_attr lopt_node_attr var_add lvar_add].
      eapply fsim_bind; [apply xsim_add_node|apply fsim_noerr; intros s0 p0 e0; rewrite add_node_eq; discriminate|intros n0; dp|]. intros n n' <-.
      apply fsim_seq; [apply xsim_ret; exact I|apply fsim_noerr; discriminate|dp|]. apply fsim_seq; [apply xsim_ret; exact I|apply fsim_noerr; discriminate|dp|].
      apply fsim_seq; [apply xsim_ret; exact I|apply fsim_noerr; discriminate|dp|]. apply fsim_enok. apply unscoped_add_fail.
    - (* attr on a node *) destruct Hf as [Hn Ha]. apply fsim_attr_node; assumption.
    - (* edge *) destruct Hf as [Ha Hb]. cbn [config0 c_loc_attr opt_attr]. apply fsim_edge; assumption.
    - (* attr on an edge *) destruct Hf as (Ha & Hb & Hat). apply fsim_attr_edge; assumption.
    - (* scan *) destruct Hf as [Hv Harms].
      eapply fsim_bind; [apply (xsim_eager t fl glob call okfn Hpure m); eassumption|apply fsim_eager; assumption| |].
      { intros sv. apply dpres_bind; [dp|intros subject]. destruct (arm_table regexes arms); [|dp]. apply dpres_lscan_loop. intros caps body. apply dpres_arm_block. }
      intros sv sv' <-. eapply fsim_bind; [apply xsim_lift|apply fsim_lift_same| |].
      { intros subject. destruct (arm_table regexes arms); [|dp]. apply dpres_lscan_loop. intros caps body. apply dpres_arm_block. }
      intros subject subject' <-. destruct (arm_table regexes arms) as [rs|]; [|apply fsim_noerr; discriminate].
      apply fsim_scan.
      + intros caps k r body l' E. apply Harmx; [apply env_rel_caps, Henv|]. apply (All_In _ _ _ Harms (nth_error_In _ _ E)).
      + intros caps k r body l' E. apply Harm; [apply env_rel_caps, Henv|]. apply (All_In _ _ _ Harms (nth_error_In _ _ E)).
      + intros caps body. apply dpres_arm_block.
    - (* print *) apply fsim_print; assumption.
    - (* if *) apply fsim_if.
      + eapply All_impl; [|exact Hf]. intros [[conds body] l'] [Hc Hb]. cbn [fst snd] in *. split.
        * eapply All_impl; [|exact Hc]. intros c Hfc. split; [apply (xsim_cond t fl glob call okfn Hpure m); assumption|apply fsim_cond; assumption].
        * split; [apply (Hblockx le ll body Henv Hb)|apply (Hblock le ll body Henv Hb)].
      + intros c. dp.
      + intros body. apply dpres_block.
    - (* for *) destruct Hf as [Hv Hbody].
      assert (Hiter : forall v, dpres (lclear_frame ;;; lunscoped_add glob ll var (LValue v) false ;;;
                                        iterM (fun st => lexec_stmt' lf (ll_with_ctx ll (ctx_update (ll_ctx ll) st)) st) body)) by (intros v; dp).
      eapply fsim_bind; [apply (xsim_eager t fl glob call okfn Hpure m); eassumption|apply fsim_eager; assumption| |].
      { intros lv. dp; try apply Hiter. }
      intros lv lv' <-. eapply fsim_bind; [apply xsim_lift|apply fsim_lift_same| |].
      { intros vals. dp; try apply Hiter. }
      intros vals vals' <-. apply fsim_seq; [apply xsim_push_frame|apply fsim_noerr, push_frame_noerr|dp; try apply Hiter|].
      apply fsim_seq; [| |dp|apply fsim_noerr, pop_frame_noerr].
      + apply (xsim_iter call (fun _ => True)); [|clear; induction vals; cbn; auto]. intros v _.
        apply xsim_seq; [apply xsim_clear_frame|]. apply xsim_seq; [apply xsim_unscoped_add|]. apply (Hblockx le ll body Henv Hbody).
      + apply (fsim_iter (fun _ => True)); [| |exact Hiter|clear; induction vals; cbn; auto].
        * intros v _. apply xsim_seq; [apply xsim_clear_frame|]. apply xsim_seq; [apply xsim_unscoped_add|]. apply (Hblockx le ll body Henv Hbody).
        * intros v _. apply fsim_seq; [apply xsim_clear_frame|apply fsim_noerr, clear_frame_noerr|dp|].
          apply fsim_seq; [apply xsim_unscoped_add|apply fsim_enok, unscoped_add_fail|dp|]. apply (Hblock le ll body Henv Hbody).
  Qed.

  (* one match of one stanza *)
  Lemma stanza_fail fuel lf st : All fstmt' (st_stmts st) -> nodes_for_capture m (st_full_file_idx st) <> [] ->
    fsim (exec_stanza t fl config0 glob regexes find call fuel st m) (lexec_stanza t fl config0 glob regexes find call lf st m).
  Proof.
    intros Hst Hfull. unfold exec_stanza, lexec_stanza. apply fsim_lpoll. cbv zeta.
    destruct (nodes_for_capture m (st_full_file_idx st)) as [|n' ns']; [contradiction|].
    apply fsim_seq; [apply xsim_clear_frame|apply fsim_noerr, clear_frame_noerr|apply dpres_iterM; intros s; apply dpres_ctx, dpres_lexec_stmt|].
    apply (fsim_iter fstmt'); [| | |exact Hst].
    - intros s Hs. destruct (nodes_for_capture m (st_full_stanza_idx st)) as [|n ns]; [apply xsim_spanic|].
      apply xsim_sctx, xsim_lctx. apply (stmt_sim t fl glob regexes find call okfn Hpure m Hsh); [exact Hs|]. repeat split.
    - intros s Hs. destruct (nodes_for_capture m (st_full_stanza_idx st)) as [|n ns]; [apply fsim_noerr; discriminate|].
      apply fsim_sctx, fsim_lctx. apply stmt_fail; [exact Hs|]. repeat split.
    - intros s. apply dpres_ctx, dpres_lexec_stmt.
  Qed.
End FailStmt.

(* ---------------- files ---------------- *)
Section FailWhole.
  Context {rx : Type}.
  Variables (t : tree) (fl : file) (glob : globals) (regexes : list rx)
            (find : rx -> str -> option (list (option (N * N))))
            (call : ident -> graph -> list value -> res (value * graph)).
  Variable okfn : ident -> Prop.
  Hypothesis Hpure : forall f, okfn f -> pure_fn call f.
  Hypothesis Hperr : forall f, okfn f -> pure_err_fn call f.
  Hypothesis Hcall : call_graph_ext call.

  Notation fsim := (fsim t fl call).
  Notation dpres := (dpres call t fl).
  Notation lstep := (lstep t fl glob regexes find call).

  Lemma dpres_lstep lf pm : dpres (lstep lf pm).
  Proof.
    unfold StrictLazy.lstep. destruct (nth_error (f_stanzas fl) (N.to_nat (fst pm))); [apply dpres_lexec_stanza, Hcall|].
    apply dpres_of_pfr, pfr_noresult. discriminate.
  Qed.

  Lemma stanza_matches_fail fuel lf st i : nth_error (f_stanzas fl) (N.to_nat i) = Some st ->
    forall qs, Forall (match_ok okfn fl st) qs ->
    fsim (iterM (exec_stanza t fl config0 glob regexes find call fuel st) qs) (iterM (lstep lf) (map (fun q => (i, q)) qs)).
  Proof.
    intros Hst. induction qs as [|q qs IH]; intros HF; cbn [iterM map]; [apply fsim_noerr; discriminate|].
    inversion HF as [|? ? (H1 & H2 & H3) HF']; subst. apply fsim_seq; [| |apply dpres_iterM; intros pm; apply dpres_lstep|apply IH, HF'].
    - unfold StrictLazy.lstep. cbn [fst snd]. rewrite Hst. apply (stanza_sim t fl glob regexes find call okfn Hpure q H2 fuel lf st H1 H3).
    - unfold StrictLazy.lstep. cbn [fst snd]. rewrite Hst. apply (stanza_fail t fl glob regexes find call okfn Hpure Hperr Hcall q H2 fuel lf st H1 H3).
  Qed.

  Lemma file_fail fuel lf : forall sts ms i,
    (forall j st, nth_error sts j = Some st -> nth_error (f_stanzas fl) (N.to_nat i + j) = Some st) ->
    file_ok okfn fl sts ms ->
    fsim (exec_file t fl config0 glob regexes find call fuel sts ms) (iterM (lstep lf) (lmatches_from i ms)).
  Proof.
    induction sts as [|st sts IH]; intros [|qs ms] i Hnth Hok; cbn [exec_file lmatches_from file_ok] in *; try (apply fsim_noerr; discriminate).
    destruct Hok as [Hqs Hrest]. eapply fsim_lext; [intros s p; apply iterM_app|].
    assert (Hst : nth_error (f_stanzas fl) (N.to_nat i) = Some st) by (rewrite <- (Nat.add_0_r (N.to_nat i)); apply Hnth; reflexivity).
    assert (Hn : forall j st', nth_error sts j = Some st' -> nth_error (f_stanzas fl) (N.to_nat (i + 1) + j) = Some st').
    { intros j st' Hj. rewrite N2Nat.inj_add. change (N.to_nat 1) with 1%nat. replace (N.to_nat i + 1 + j)%nat with (N.to_nat i + S j)%nat by lia. apply Hnth. exact Hj. }
    apply fsim_seq.
    - apply (stanza_matches_sim t fl glob regexes find call okfn Hpure fuel lf st i Hst qs Hqs).
    - apply (stanza_matches_fail fuel lf st i Hst qs Hqs).
    - apply dpres_iterM. intros pm. apply dpres_lstep.
    - apply IH; [exact Hn|exact Hrest].
  Qed.
End FailWhole.

(* ---------------- the theorem ---------------- *)
Theorem strict_fail_lazy_fail_lemma {rx : Type} t fl supplied (regexes : list rx) find call (okfn : ident -> Prop) fuel ms g0 e :
  (forall f, okfn f -> pure_fn call f) -> (forall f, okfn f -> pure_err_fn call f) -> call_graph_ext call ->
  file_ok okfn fl (f_stanzas fl) ms ->
  run_strict t fl config0 supplied None regexes find call fuel ms g0 = Err e -> okerr e ->
  forall lfuel,
    match run_lazy t fl config0 supplied None regexes find call lfuel (lmatches_of ms) g0 with
    | Ok _ => False
    | Err _ | Panic _ | OutOfFuel => True
    end.
Proof.
  intros Hpure Hperr Hcall Hok Hs Ho lfuel. unfold run_strict in Hs. unfold run_lazy.
  destruct (check_globals (f_globals fl) (globals_nested supplied)) as [glob|e0|x|]; try discriminate; [|exact I].
  destruct (exec_file t fl config0 glob regexes find call fuel (f_stanzas fl) ms (sinit g0) (polls0 None)) as [[[u s1] p1]|e0|x|] eqn:Es; try discriminate.
  inversion Hs; subst e0; clear Hs.
  assert (HR0 : RelX call (sinit g0) (linit g0)).
  { exists []. split; [split; [apply store_wf_nil|constructor; [constructor|constructor]]|]. split; [reflexivity|]. split; [constructor|].
    exists [], [], g0. repeat split; constructor. }
  pose proof (file_fail t fl glob regexes find call okfn Hpure Hperr Hcall fuel lfuel (f_stanzas fl) ms 0 (fun j st H => H) Hok _ _ _ Es Ho (linit g0) (polls0 None) HR0 eq_refl) as Hx.
  unfold lexec_file. fold (lstep t fl glob regexes find call lfuel). unfold lmatches_of.
  unfold bind. destruct (iterM (lstep t fl glob regexes find call lfuel) (lmatches_from 0 ms) (linit g0) (polls0 None)) as [[[u1 ls1] pl1]|e1|x1|]; cbn [nres] in Hx; try exact I.
  destruct Hx as [Hb1 HD1].
  pose proof (evaluate_doomed call Hcall t fl (lfuel + default_eval_fuel) ls1 pl1 HD1 Hb1) as Hv.
  destruct (evaluate_phase t fl call (lfuel + default_eval_fuel) ls1 pl1) as [[[u2 ls2] pl2]|e2|x2|]; cbn in Hv; [contradiction|exact I|exact I|exact I].
Qed.

(* with the hypotheses of the no-panic theorem of the lazy interpreter (Proofs/NoPanicLazy.v): lazy execution fails, or
   the model runs out of fuel *)
Theorem strict_fail_lazy_err_lemma {rx : Type} (sok : N -> Prop) t fl supplied (regexes : list rx) find call (okfn : ident -> Prop) fuel ms g0 e :
  (forall f, okfn f -> pure_fn call f) -> (forall f, okfn f -> pure_err_fn call f) -> call_graph_ext call ->
  file_ok okfn fl (f_stanzas fl) ms ->
  NoPanicStrict.WellFormedFile regexes fl -> NoPanicLazy.GoodMatchesLazy sok fl (lmatches_of ms) -> NoPanicStrict.GoodGlobals sok g0 supplied ->
  NoPanicStrict.GoodCall sok call ->
  run_strict t fl config0 supplied None regexes find call fuel ms g0 = Err e -> okerr e ->
  forall lfuel,
    match run_lazy t fl config0 supplied None regexes find call lfuel (lmatches_of ms) g0 with
    | Err _ | OutOfFuel => True
    | Ok _ | Panic _ => False
    end.
Proof.
  intros Hpure Hperr Hcall Hok Hwf Hm Hg Hgc Hs Ho lfuel.
  pose proof (strict_fail_lazy_fail_lemma t fl supplied regexes find call okfn fuel ms g0 e Hpure Hperr Hcall Hok Hs Ho lfuel) as H1.
  pose proof (NoPanicLazy.exec_no_panic_lazy sok t fl config0 supplied None regexes find call lfuel (lmatches_of ms) g0 Hwf Hm Hg Hgc) as H2.
  destruct (run_lazy t fl config0 supplied None regexes find call lfuel (lmatches_of ms) g0) as [r|e1|x|]; [contradiction|exact I|exact (H2 x eq_refl)|exact I].
Qed.

(* ---------------- the standard library ---------------- *)
(* a failing call of a function other than `node` fails in the same way on every graph *)
Lemma stdlib_pure_err_fn rxo t f : fn_of_name f <> Some FNode -> pure_err_fn (stdlib_call rxo t) f.
Proof.
  intros Hn g args e. unfold stdlib_call. destruct (fn_of_name f) as [fn|]; [|intros H g2; exact H]. unfold stdlib_fn.
  assert (Hp : forall g2, stdlib_pure rxo t fn g2 args = stdlib_pure rxo t fn g args) by (intros g2; destruct fn; try reflexivity; congruence).
  intros H g2. rewrite Hp. destruct (stdlib_pure rxo t fn g args) as [v0|e0|x|]; cbn [obind] in *; try discriminate. exact H.
Qed.
(* every function of the standard library (`node` included) only extends the graph *)
Lemma stdlib_call_graph_ext rxo t : call_graph_ext (stdlib_call rxo t).
Proof.
  intros f g args v g'. unfold stdlib_call. destruct (fn_of_name f) as [fn|]; [|discriminate]. unfold stdlib_fn.
  destruct (stdlib_pure rxo t fn g args) as [v0|e0|x|]; cbn [obind]; try discriminate. intros H. inversion H; subst.
  destruct fn; try apply graph_ext_refl. apply (proj1 (add_graph_node_ext g)).
Qed.
