(* Proofs/JsonText.v — C14, text level: the parser of Model/JsonText.v reads back what the printer writes
   (string escaping, numbers, layout), for every value tree; validity of the printed text. *)
From TSG Require Import Model.JsonText Proofs.BaseFacts Proofs.Containers Proofs.JsonFacts Proofs.PrettyFacts.

(* ================= small facts ================= *)
Lemma lt32_cases (P : N -> Prop) : (forall n, (n < 32)%nat -> P (N.of_nat n)) -> forall c, c < 32 -> P c.
Proof. intros H c Hc. rewrite <- (N2Nat.id c). apply H. lia. Qed.

Lemma is_digitb_spec c : is_digitb c = true <-> is_digit c.
Proof.
  unfold is_digitb, is_digit. rewrite andb_true_iff, !N.leb_le. reflexivity.
Qed.

Lemma digit_not_ws c : is_digit c -> is_ws c = false.
Proof.
  intros [H1 H2]. unfold is_ws.
  destruct (N.eqb_spec c 32); [lia|]. destruct (N.eqb_spec c 10); [lia|].
  destruct (N.eqb_spec c 13); [lia|]. destruct (N.eqb_spec c 9); [lia|]. reflexivity.
Qed.

(* ================= strings ================= *)
Lemma parse_chars_escape c rest : parse_chars (escape_char c ++ rest) = cons_res c (parse_chars rest).
Proof.
  destruct (N.ltb_spec c 32) as [Hlt|Hge].
  - revert c Hlt. apply lt32_cases. intros n Hn.
    do 32 (destruct n as [|n]; [reflexivity|]). lia.
  - unfold escape_char.
    destruct (N.eqb_spec c 34) as [->|N34]; [reflexivity|].
    destruct (N.eqb_spec c 92) as [->|N92]; [reflexivity|].
    destruct (N.eqb_spec c 8); [lia|]. destruct (N.eqb_spec c 9); [lia|].
    destruct (N.eqb_spec c 10); [lia|]. destruct (N.eqb_spec c 12); [lia|].
    destruct (N.eqb_spec c 13); [lia|].
    destruct (N.ltb_spec c 32) as [|_]; [lia|].
    cbn [app parse_chars].
    destruct (N.eqb_spec c 34); [contradiction|]. destruct (N.eqb_spec c 92); [contradiction|].
    destruct (N.ltb_spec c 32); [lia|]. reflexivity.
Qed.

Lemma escape_str_cons c s : escape_str (c :: s) = escape_char c ++ escape_str s.
Proof. reflexivity. Qed.

(* reading a string literal: everything up to the closing quote, every escape undone *)
Lemma parse_chars_escape_str s rest : parse_chars (escape_str s ++ 34 :: rest) = Some (s, rest).
Proof.
  induction s as [|c s IH].
  - reflexivity.
  - rewrite escape_str_cons, <- app_assoc, parse_chars_escape, IH. reflexivity.
Qed.

Lemma print_string_app s rest : print_string s ++ rest = 34 :: escape_str s ++ 34 :: rest.
Proof. unfold print_string. cbn [app]. rewrite <- app_assoc. reflexivity. Qed.

Lemma print_member_app k v rest : print_member k v ++ rest = 34 :: escape_str k ++ 34 :: 58 :: 32 :: v ++ rest.
Proof. unfold print_member. rewrite <- app_assoc, print_string_app. reflexivity. Qed.

Lemma escape_char_ge32 c : Forall (fun x => 32 <= x) (escape_char c).
Proof.
  destruct (N.ltb_spec c 32) as [Hlt|Hge].
  - revert c Hlt. apply lt32_cases. intros n Hn.
    do 32 (destruct n as [|n]; [repeat constructor; cbv; discriminate|]). lia.
  - unfold escape_char.
    destruct (c =? 34); [repeat constructor; cbv; discriminate|].
    destruct (c =? 92); [repeat constructor; cbv; discriminate|].
    destruct (N.eqb_spec c 8); [lia|]. destruct (N.eqb_spec c 9); [lia|].
    destruct (N.eqb_spec c 10); [lia|]. destruct (N.eqb_spec c 12); [lia|].
    destruct (N.eqb_spec c 13); [lia|]. destruct (N.ltb_spec c 32); [lia|].
    repeat constructor. exact Hge.
Qed.

Lemma escape_str_ge32 s : Forall (fun x => 32 <= x) (escape_str s).
Proof.
  induction s as [|c s IH]; [constructor|].
  rewrite escape_str_cons. apply Forall_app. split; [apply escape_char_ge32 | exact IH].
Qed.

(* ================= whitespace ================= *)
Lemma skip_ws_nows c t : is_ws c = false -> skip_ws (c :: t) = c :: t.
Proof. intros H. cbn [skip_ws]. rewrite H. reflexivity. Qed.

Lemma skip_ws_indent k t : skip_ws (indent k ++ t) = skip_ws t.
Proof. induction k as [|k IH]; [reflexivity|]. exact IH. Qed.

Lemma skip_ws_nl_indent k t : skip_ws (10 :: indent k ++ t) = skip_ws t.
Proof. exact (skip_ws_indent k t). Qed.

Lemma parse_value_ws f t t' : skip_ws t = skip_ws t' -> parse_value f t = parse_value f t'.
Proof. intros H. destruct f; [reflexivity|]. cbn [parse_value]. rewrite H. reflexivity. Qed.

Lemma skip_ws_member k v rest : skip_ws (print_member k v ++ rest) = 34 :: escape_str k ++ 34 :: 58 :: 32 :: v ++ rest.
Proof. rewrite print_member_app. reflexivity. Qed.

Lemma parse_value_sp f t : parse_value f (32 :: t) = parse_value f t.
Proof. apply parse_value_ws. reflexivity. Qed.

(* ================= numbers ================= *)
Definition ok_rest (rest : str) : Prop := match rest with [] => True | c :: _ => is_digitb c = false end.

Lemma span_digits_app ds rest : Forall is_digit ds -> ok_rest rest -> span_digits (ds ++ rest) = (ds, rest).
Proof.
  intros Hd Hr. induction Hd as [|c ds Hc _ IH].
  - cbn [app]. destruct rest as [|c r]; [reflexivity|]. cbn [span_digits]. cbn [ok_rest] in Hr. rewrite Hr. reflexivity.
  - cbn [app span_digits]. apply is_digitb_spec in Hc. rewrite Hc, IH. reflexivity.
Qed.

Lemma str_eqb_refl s : str_eqb s s = true.
Proof. induction s as [|c s IH]; [reflexivity|]. cbn [str_eqb list_eqb]. rewrite N.eqb_refl. exact IH. Qed.

Lemma parse_number_dec n rest : ok_rest rest -> parse_number (dec n ++ rest) = Some (n, rest).
Proof.
  intros Hr. unfold parse_number. rewrite (span_digits_app _ _ (dec_digits n) Hr).
  rewrite parse_dec_dec, str_eqb_refl. reflexivity.
Qed.

Lemma dec_head n : exists c r, dec n = c :: r /\ is_digit c.
Proof.
  pose proof (dec_digits n) as Hd. destruct (dec n) as [|c r] eqn:E.
  - exfalso. revert E. apply uint_str_nonnil, to_uint_nonnil.
  - exists c, r. split; [reflexivity|]. inversion Hd; assumption.
Qed.

(* ================= dispatch of parse_value on the first character ================= *)
Lemma parse_value_str f r :
  parse_value (S f) (34 :: r) = match parse_chars r with Some (s, r') => Some (JStr s, r') | None => None end.
Proof. reflexivity. Qed.

Lemma parse_value_arr f r :
  parse_value (S f) (91 :: r) =
  match skip_ws r with
  | c2 :: r2 => if c2 =? 93 then Some (JArr [], r2)
                else match parse_elems (parse_value f) f r with Some (l, r') => Some (JArr l, r') | None => None end
  | [] => None
  end.
Proof. reflexivity. Qed.

Lemma parse_value_obj f r :
  parse_value (S f) (123 :: r) =
  match skip_ws r with
  | c2 :: r2 => if c2 =? 125 then Some (JObj [], r2)
                else match parse_members (parse_value f) f r with Some (m, r') => Some (JObj m, r') | None => None end
  | [] => None
  end.
Proof. reflexivity. Qed.

Lemma parse_value_null f rest : parse_value (S f) (t_null ++ rest) = Some (JNull, rest).
Proof. reflexivity. Qed.
Lemma parse_value_true f rest : parse_value (S f) (t_true ++ rest) = Some (JBool true, rest).
Proof. reflexivity. Qed.
Lemma parse_value_false f rest : parse_value (S f) (t_false ++ rest) = Some (JBool false, rest).
Proof. reflexivity. Qed.

Lemma parse_value_num f c r : is_digit c ->
  parse_value (S f) (c :: r) = match parse_number (c :: r) with Some (n, r') => Some (JNum n, r') | None => None end.
Proof.
  intros Hd. cbn [parse_value]. rewrite (skip_ws_nows _ _ (digit_not_ws _ Hd)).
  pose proof Hd as [H1 H2].
  destruct (N.eqb_spec c 34); [lia|]. destruct (N.eqb_spec c 91); [lia|]. destruct (N.eqb_spec c 123); [lia|].
  destruct (N.eqb_spec c 110); [lia|]. destruct (N.eqb_spec c 116); [lia|]. destruct (N.eqb_spec c 102); [lia|].
  apply is_digitb_spec in Hd. rewrite Hd. reflexivity.
Qed.

(* ================= the first character of a printed value ================= *)
Definition value_head (t : str) : Prop :=
  exists c r, t = c :: r /\ is_ws c = false /\ c <> 93 /\ c <> 125.

Lemma print_items_head op cl ind items : exists r, print_items op cl ind items = op :: r.
Proof. destruct items; eexists; reflexivity. Qed.

Lemma print_at_head ind j : value_head (print_at ind j).
Proof.
  unfold value_head. destruct j as [|b|n|s|l|m]; cbn [print_at].
  - exists 110, [117;108;108]. repeat split; discriminate.
  - destruct b; [exists 116, [114;117;101] | exists 102, [97;108;115;101]]; repeat split; discriminate.
  - destruct (dec_head n) as (c & r & E & Hd). exists c, r. pose proof Hd as [H1 H2].
    split; [exact E|]. split; [apply digit_not_ws; exact Hd|]. split; lia.
  - exists 34, (escape_str s ++ [34]). repeat split; discriminate.
  - destruct (print_items_head 91 93 ind (map (print_at (S ind)) l)) as [r E].
    exists 91, r. rewrite E. repeat split; discriminate.
  - destruct (print_items_head 123 125 ind (map (fun kv => print_member (fst kv) (print_at (S ind) (snd kv))) m)) as [r E].
    exists 123, r. rewrite E. repeat split; discriminate.
Qed.

Lemma skip_ws_value_head t X : value_head t -> exists c r, skip_ws (t ++ X) = c :: r /\ c <> 93 /\ c <> 125.
Proof.
  intros (c & r & -> & Hw & H1 & H2). exists c, (r ++ X). cbn [app]. rewrite (skip_ws_nows _ _ Hw). auto.
Qed.

Lemma print_items_cons_app op cl ind x r rest :
  print_items op cl ind (x :: r) ++ rest =
  op :: 10 :: indent (S ind) ++ x ++ flat_map (sep_item (S ind)) r ++ 10 :: indent ind ++ cl :: rest.
Proof.
  unfold print_items. cbn [app]. do 2 f_equal.
  rewrite <- !app_assoc. do 3 f_equal. cbn [app]. f_equal. rewrite <- app_assoc. reflexivity.
Qed.

(* ================= fuel ================= *)
Lemma jsize_in_sum {A} (f : A -> nat) x l : In x l -> (f x <= list_sum (map f l))%nat.
Proof.
  induction l as [|y l IH]; intros Hin; [contradiction|].
  unfold list_sum in *. cbn [map fold_right]. destruct Hin as [->|Hin]; [lia|]. specialize (IH Hin). lia.
Qed.

(* ================= the main induction ================= *)
Definition parses_back (j : json) : Prop :=
  forall ind fuel rest, (jsize j <= fuel)%nat -> ok_rest rest ->
    parse_value fuel (print_at ind j ++ rest) = Some (j, rest).

Lemma ok_rest_sep ind l tail c : is_digitb c = false ->
  ok_rest (flat_map (sep_item ind) l ++ 10 :: tail) /\ ok_rest (c :: tail).
Proof. intros Hc. split; [destruct l; reflexivity | exact Hc]. Qed.

Lemma parse_elems_print f ind rest : forall l x n,
  parses_back x -> Forall parses_back l ->
  (jsize x <= f)%nat -> Forall (fun y => (jsize y <= f)%nat) l -> (length l < n)%nat ->
  parse_elems (parse_value f) n
    (10 :: indent (S ind) ++ print_at (S ind) x ++ flat_map (sep_item (S ind)) (map (print_at (S ind)) l)
        ++ 10 :: indent ind ++ 93 :: rest)
  = Some (x :: l, rest).
Proof.
  induction l as [|y l IH]; intros x n Hx Hl Sx Sl Hn; (destruct n as [|n]; [lia|]); cbn [parse_elems].
  - rewrite (parse_value_ws f _ _ (skip_ws_nl_indent _ _)).
    cbn [map flat_map app]. rewrite (Hx (S ind) f _ Sx) by reflexivity.
    rewrite skip_ws_nl_indent. reflexivity.
  - rewrite (parse_value_ws f _ _ (skip_ws_nl_indent _ _)).
    cbn [map flat_map]. unfold sep_item at 1. cbn [app]. rewrite (Hx (S ind) f _ Sx) by reflexivity.
    rewrite skip_ws_nows by reflexivity. change (44 =? 44) with true. cbv iota.
    rewrite <- !app_assoc.
    inversion Hl as [|? ? Hy Hl']; subst. inversion Sl as [|? ? Sy Sl']; subst.
    cbn [length] in Hn.
    rewrite (IH y n Hy Hl' Sy Sl') by lia. reflexivity.
Qed.

Lemma parse_members_print f ind rest : forall (m : list (str * json)) k x n,
  parses_back x -> Forall (fun kv => parses_back (snd kv)) m ->
  (jsize x <= f)%nat -> Forall (fun kv => (jsize (snd kv) <= f)%nat) m -> (length m < n)%nat ->
  parse_members (parse_value f) n
    (10 :: indent (S ind) ++ print_member k (print_at (S ind) x)
        ++ flat_map (sep_item (S ind)) (map (fun kv => print_member (fst kv) (print_at (S ind) (snd kv))) m)
        ++ 10 :: indent ind ++ 125 :: rest)
  = Some ((k, x) :: m, rest).
Proof.
  induction m as [|[k' y] m IH]; intros k x n Hx Hm Sx Sm Hn; (destruct n as [|n]; [lia|]); cbn [parse_members];
    rewrite skip_ws_nl_indent, print_member_app;
    rewrite skip_ws_nows by reflexivity; change (34 =? 34) with true; cbv iota;
    rewrite parse_chars_escape_str;
    rewrite skip_ws_nows by reflexivity; change (58 =? 58) with true; cbv iota;
    rewrite parse_value_sp.
  - cbn [map flat_map app]. rewrite (Hx (S ind) f _ Sx) by reflexivity.
    rewrite skip_ws_nl_indent. reflexivity.
  - cbn [map flat_map fst snd]. unfold sep_item at 1. cbn [app].
    rewrite (Hx (S ind) f _ Sx) by reflexivity.
    rewrite skip_ws_nows by reflexivity. change (44 =? 44) with true. cbv iota.
    rewrite <- !app_assoc.
    inversion Hm as [|? ? Hy Hm']; subst. inversion Sm as [|? ? Sy Sm']; subst. cbn [snd] in Hy, Sy.
    cbn [length] in Hn.
    rewrite (IH k' y n Hy Hm' Sy Sm') by lia. reflexivity.
Qed.

Lemma parses_back_all j : parses_back j.
Proof.
  induction j as [|b|n|s|l IHl|m IHm] using json_ind'; intros ind fuel rest Hf Hr;
    (destruct fuel as [|f]; [cbn [jsize] in Hf; lia|]).
  - exact (parse_value_null f rest).
  - destruct b; [exact (parse_value_true f rest) | exact (parse_value_false f rest)].
  - cbn [print_at]. destruct (dec_head n) as (c & r & E & Hd).
    assert (Hn := parse_number_dec n rest Hr). rewrite E in *. cbn [app] in *.
    rewrite (parse_value_num f c _ Hd), Hn. reflexivity.
  - cbn [print_at]. rewrite print_string_app, parse_value_str, parse_chars_escape_str. reflexivity.
  - cbn [print_at]. destruct l as [|x l].
    + reflexivity.
    + cbn [map]. rewrite print_items_cons_app, parse_value_arr, skip_ws_nl_indent.
      match goal with |- context [skip_ws (print_at (S ind) x ++ ?X)] =>
        destruct (skip_ws_value_head _ X (print_at_head (S ind) x)) as (c & r & E & H93 & _) end.
      rewrite E. destruct (N.eqb_spec c 93) as [|_]; [contradiction|].
      cbn [jsize length map] in Hf. unfold list_sum in *. cbn [fold_right] in Hf.
      inversion IHl as [|? ? Hx Hl]; subst.
      rewrite (parse_elems_print f ind rest l x f Hx Hl); [reflexivity|lia| |lia].
      apply Forall_forall. intros y Hy. pose proof (jsize_in_sum jsize y l Hy). unfold list_sum in *. lia.
  - cbn [print_at]. destruct m as [|[k x] m].
    + reflexivity.
    + cbn [map fst snd]. rewrite print_items_cons_app, parse_value_obj, skip_ws_nl_indent.
      rewrite skip_ws_member. change (34 =? 125) with false. cbv iota.
      cbn [jsize length map snd] in Hf. unfold list_sum in *. cbn [fold_right] in Hf.
      inversion IHm as [|? ? Hx Hm]; subst. cbn [snd] in Hx.
      rewrite (parse_members_print f ind rest m k x f Hx Hm); [reflexivity|lia| |lia].
      apply Forall_forall. intros kv Hkv. pose proof (jsize_in_sum (fun kv => jsize (snd kv)) kv m Hkv). unfold list_sum in *. cbn beta in *. lia.
Qed.

(* ================= consequences ================= *)
Lemma parse_json_print j fuel : (jsize j <= fuel)%nat -> parse_json fuel (print_pretty j) = Some (j, []).
Proof.
  intros Hf. unfold parse_json, print_pretty.
  rewrite <- (app_nil_r (print_at 0 j)). rewrite (parses_back_all j 0%nat fuel [] Hf I). reflexivity.
Qed.

Lemma json_text_roundtrip_lemma j : exists fuel, parse_json fuel (print_pretty j) = Some (j, []).
Proof. exists (jsize j). apply parse_json_print. lia. Qed.

(* trailing (and leading) insignificant whitespace is accepted *)
Lemma parse_json_print_ws j fuel pre post : (jsize j <= fuel)%nat ->
  skip_ws pre = [] -> skip_ws post = [] ->
  parse_json fuel (pre ++ print_pretty j ++ post) = Some (j, []).
Proof.
  intros Hf Hpre Hpost. unfold parse_json, print_pretty.
  assert (E : skip_ws (pre ++ print_at 0 j ++ post) = skip_ws (print_at 0 j ++ post)).
  { clear Hf. induction pre as [|c pre IH]; [reflexivity|].
    cbn [skip_ws] in Hpre. cbn [app skip_ws]. destruct (is_ws c); [exact (IH Hpre)|discriminate]. }
  rewrite (parse_value_ws fuel _ _ E).
  rewrite (parses_back_all j 0%nat fuel post Hf).
  - rewrite Hpost. reflexivity.
  - destruct post as [|c post]; [exact I|]. cbn [ok_rest]. cbn [skip_ws] in Hpost.
    destruct (is_ws c) eqn:W; [|discriminate]. unfold is_ws in W. unfold is_digitb.
    destruct (N.eqb_spec c 32) as [->|]; [reflexivity|]. destruct (N.eqb_spec c 10) as [->|]; [reflexivity|].
    destruct (N.eqb_spec c 13) as [->|]; [reflexivity|]. destruct (N.eqb_spec c 9) as [->|]; [reflexivity|].
    discriminate.
Qed.

Lemma print_pretty_inj j1 j2 : print_pretty j1 = print_pretty j2 -> j1 = j2.
Proof.
  intros H.
  pose proof (parse_json_print j1 (Nat.max (jsize j1) (jsize j2)) (Nat.le_max_l _ _)) as H1.
  pose proof (parse_json_print j2 (Nat.max (jsize j1) (jsize j2)) (Nat.le_max_r _ _)) as H2.
  rewrite H in H1. congruence.
Qed.

(* ---- the length of the text is enough fuel ---- *)
Lemma list_sum_le {A} (f g : A -> nat) l : Forall (fun x => (f x <= g x)%nat) l ->
  (list_sum (map f l) <= list_sum (map g l))%nat.
Proof. unfold list_sum. induction 1; cbn [map fold_right]; lia. Qed.

Lemma sep_item_length ind y : length (sep_item ind y) = S (S (length (indent ind) + length y)).
Proof. unfold sep_item. cbn [length]. rewrite app_length. reflexivity. Qed.

Lemma flat_map_sep_length ind r :
  (length r + list_sum (map (@length N) r) <= length (flat_map (sep_item ind) r))%nat.
Proof.
  unfold list_sum. induction r as [|y r IH]; [cbn; lia|].
  cbn [flat_map map fold_right length]. rewrite app_length, sep_item_length. lia.
Qed.

Lemma print_items_length op cl ind items :
  (S (length items + list_sum (map (@length N) items)) <= length (print_items op cl ind items))%nat.
Proof.
  destruct items as [|x r]; [cbn; lia|].
  pose proof (flat_map_sep_length (S ind) r) as Hs.
  unfold list_sum in *. unfold print_items. cbn [length map fold_right].
  rewrite app_length, app_length, app_length. cbn [length]. rewrite app_length. cbn [length]. lia.
Qed.

Lemma jsize_le_length j : forall ind, (jsize j <= length (print_at ind j))%nat.
Proof.
  induction j as [|b|n|s|l IHl|m IHm] using json_ind'; intros ind; cbn [jsize print_at].
  - cbn; lia.
  - destruct b; cbn; lia.
  - destruct (dec_head n) as (c & r & E & _). rewrite E. cbn [length]. lia.
  - unfold print_string. cbn [length]. lia.
  - pose proof (print_items_length 91 93 ind (map (print_at (S ind)) l)) as H.
    rewrite map_length, map_map in H.
    assert (list_sum (map jsize l) <= list_sum (map (fun x => length (print_at (S ind) x)) l))%nat.
    { apply list_sum_le. eapply Forall_impl; [|exact IHl]. intros x Hx. apply Hx. }
    lia.
  - pose proof (print_items_length 123 125 ind (map (fun kv => print_member (fst kv) (print_at (S ind) (snd kv))) m)) as H.
    rewrite map_length, map_map in H.
    assert (list_sum (map (fun kv => jsize (snd kv)) m)
            <= list_sum (map (fun kv => length (print_member (fst kv) (print_at (S ind) (snd kv)))) m))%nat.
    { apply list_sum_le. eapply Forall_impl; [|exact IHm]. intros kv Hkv. cbn beta in *.
      unfold print_member. rewrite !app_length. specialize (Hkv (S ind)). lia. }
    lia.
Qed.

Lemma parse_json_text_print j : parse_json_text (print_pretty j) = Some j.
Proof.
  unfold parse_json_text. rewrite parse_json_print; [reflexivity|]. apply jsize_le_length.
Qed.

(* ================= validity: no raw control character ================= *)
Definition layout_ok (c : N) : Prop := 32 <= c \/ c = 10.

Lemma ge32_layout l : Forall (fun x => 32 <= x) l -> Forall layout_ok l.
Proof. apply Forall_impl. intros c H. left. exact H. Qed.

Lemma indent_layout k : Forall layout_ok (indent k).
Proof.
  assert (H32 : layout_ok 32) by (left; cbv; discriminate).
  induction k; cbn [indent]; [constructor|]. constructor; [exact H32|]. constructor; [exact H32 | assumption].
Qed.

Ltac forall_list := repeat first [apply Forall_nil | apply Forall_cons].
Ltac ge32c := first [left; cbv; discriminate | cbv; discriminate].

Lemma print_string_ge32 s : Forall (fun x => 32 <= x) (print_string s).
Proof.
  unfold print_string. apply Forall_cons; [cbv; discriminate|]. apply Forall_app. split; [apply escape_str_ge32|].
  forall_list. cbv; discriminate.
Qed.

Lemma print_items_layout op cl ind items : 32 <= op -> 32 <= cl ->
  Forall (Forall layout_ok) items -> Forall layout_ok (print_items op cl ind items).
Proof.
  intros Hop Hcl Hi. destruct Hi as [|x r Hx Hr]; unfold print_items.
  - forall_list; left; assumption.
  - apply Forall_cons; [left; exact Hop|]. apply Forall_cons; [right; reflexivity|].
    apply Forall_app. split; [apply indent_layout|]. apply Forall_app. split; [exact Hx|].
    apply Forall_app. split.
    + induction Hr as [|y r Hy _ IH]; cbn [flat_map]; [apply Forall_nil|].
      apply Forall_app. split; [|exact IH]. unfold sep_item.
      apply Forall_cons; [ge32c|]. apply Forall_cons; [right; reflexivity|].
      apply Forall_app. split; [apply indent_layout | exact Hy].
    + apply Forall_cons; [right; reflexivity|]. apply Forall_app. split; [apply indent_layout|].
      forall_list. left. exact Hcl.
Qed.

Lemma print_at_layout j : forall ind, Forall layout_ok (print_at ind j).
Proof.
  induction j as [|b|n|s|l IHl|m IHm] using json_ind'; intros ind; cbn [print_at].
  - unfold t_null. forall_list; ge32c.
  - destruct b; [unfold t_true | unfold t_false]; forall_list; ge32c.
  - eapply Forall_impl; [|apply dec_digits]. intros c [H1 H2]. left. lia.
  - apply ge32_layout, print_string_ge32.
  - apply print_items_layout; [cbv; discriminate|cbv; discriminate|].
    induction IHl as [|x l Hx _ IH]; cbn [map]; [apply Forall_nil|]. apply Forall_cons; [apply Hx | exact IH].
  - apply print_items_layout; [cbv; discriminate|cbv; discriminate|].
    induction IHm as [|kv m Hkv _ IH]; cbn [map]; [apply Forall_nil|]. apply Forall_cons; [|exact IH].
    unfold print_member. apply Forall_app. split; [apply ge32_layout, print_string_ge32|].
    apply Forall_app. split; [forall_list; ge32c | apply Hkv].
Qed.

(* ================= well-formed trees print scalar values only ================= *)
Definition is_scalar (c : N) : Prop := is_scalarb c = true.

Lemma small_scalar c : c < 55296 -> is_scalar c.
Proof.
  intros H. unfold is_scalar, is_scalarb, is_surrogate.
  destruct (N.ltb_spec c 1114112); [|lia]. destruct (N.leb_spec 55296 c); [lia|]. reflexivity.
Qed.

Ltac scalar_list := forall_list; try (unfold is_scalar; reflexivity).

Lemma escape_char_scalar c : is_scalar c -> Forall is_scalar (escape_char c).
Proof.
  intros Hc. destruct (N.ltb_spec c 32) as [Hlt|Hge].
  - clear Hc. revert c Hlt. apply lt32_cases. intros n Hn.
    do 32 (destruct n as [|n]; [scalar_list|]). lia.
  - unfold escape_char.
    destruct (c =? 34); [scalar_list|].
    destruct (c =? 92); [scalar_list|].
    destruct (N.eqb_spec c 8); [lia|]. destruct (N.eqb_spec c 9); [lia|].
    destruct (N.eqb_spec c 10); [lia|]. destruct (N.eqb_spec c 12); [lia|].
    destruct (N.eqb_spec c 13); [lia|]. destruct (N.ltb_spec c 32); [lia|].
    forall_list. exact Hc.
Qed.

Lemma print_string_scalar s : forallb is_scalarb s = true -> Forall is_scalar (print_string s).
Proof.
  intros H. unfold print_string. apply Forall_cons; [reflexivity|]. apply Forall_app. split; [|scalar_list].
  induction s as [|c s IH]; [apply Forall_nil|]. cbn [forallb] in H. apply andb_true_iff in H as [Hc Hs].
  rewrite escape_str_cons. apply Forall_app. split; [apply escape_char_scalar; exact Hc | exact (IH Hs)].
Qed.

Lemma indent_scalar k : Forall is_scalar (indent k).
Proof. induction k; cbn [indent]; [apply Forall_nil|]. apply Forall_cons; [reflexivity|]. apply Forall_cons; [reflexivity|assumption]. Qed.

Lemma print_items_scalar op cl ind items : is_scalar op -> is_scalar cl ->
  Forall (Forall is_scalar) items -> Forall is_scalar (print_items op cl ind items).
Proof.
  intros Hop Hcl Hi. destruct Hi as [|x r Hx Hr]; unfold print_items.
  - forall_list; assumption.
  - apply Forall_cons; [exact Hop|]. apply Forall_cons; [reflexivity|].
    apply Forall_app. split; [apply indent_scalar|]. apply Forall_app. split; [exact Hx|].
    apply Forall_app. split.
    + induction Hr as [|y r Hy _ IH]; cbn [flat_map]; [apply Forall_nil|].
      apply Forall_app. split; [|exact IH]. unfold sep_item.
      apply Forall_cons; [reflexivity|]. apply Forall_cons; [reflexivity|].
      apply Forall_app. split; [apply indent_scalar | exact Hy].
    + apply Forall_cons; [reflexivity|]. apply Forall_app. split; [apply indent_scalar|].
      forall_list. exact Hcl.
Qed.

Lemma print_at_scalar j : forall ind, json_wfb j = true -> Forall is_scalar (print_at ind j).
Proof.
  induction j as [|b|n|s|l IHl|m IHm] using json_ind'; intros ind Hwf; cbn [print_at]; cbn [json_wfb] in Hwf.
  - unfold t_null. scalar_list.
  - destruct b; [unfold t_true | unfold t_false]; scalar_list.
  - eapply Forall_impl; [|apply dec_digits]. intros c [H1 H2]. apply small_scalar. lia.
  - apply print_string_scalar. exact Hwf.
  - apply print_items_scalar; [reflexivity|reflexivity|].
    induction IHl as [|x l Hx _ IH]; cbn [map]; [apply Forall_nil|].
    cbn [forallb] in Hwf. apply andb_true_iff in Hwf as [W1 W2].
    apply Forall_cons; [apply Hx; exact W1 | exact (IH W2)].
  - apply print_items_scalar; [reflexivity|reflexivity|].
    induction IHm as [|kv m Hkv _ IH]; cbn [map]; [apply Forall_nil|].
    cbn [forallb] in Hwf. apply andb_true_iff in Hwf as [W1 W2]. apply andb_true_iff in W1 as [Wk Wv].
    apply Forall_cons; [|exact (IH W2)].
    unfold print_member. apply Forall_app. split; [apply print_string_scalar; exact Wk|].
    apply Forall_app. split; [scalar_list | apply Hkv; exact Wv].
Qed.

(* ================= graphs ================= *)
Lemma graph_json_text_roundtrip_lemma g : graph_of_json_text (graph_json_text g) = Some g.
Proof.
  unfold graph_of_json_text, graph_json_text. rewrite parse_json_text_print. apply json_roundtrip_lemma.
Qed.

Lemma graph_json_text_inj g1 g2 : graph_json_text g1 = graph_json_text g2 -> g1 = g2.
Proof. intros H. apply encode_graph_inj, print_pretty_inj, H. Qed.

(* the text of any other member order (what the implementation really writes: hash-map iteration order) *)
Lemma graph_json_text_member_order g j' : jperm (encode_graph g) j' ->
  exists g', graph_of_json_text (print_pretty j') = Some g' /\ graph_eqv g g' /\ (graph_wf g -> graph_same_maps g g').
Proof.
  intros H. destruct (json_member_order_full_lemma g j' H) as (g' & Hd & He).
  exists g'. split; [|exact He]. unfold graph_of_json_text. rewrite parse_json_text_print. exact Hd.
Qed.
