(* Proofs/ScPermSound.v — C08 WITH scoped variables, part 2: SOUNDNESS of the lazy evaluator with respect to the
   reference evaluator `cev` (Proofs/ScPermCbn.v).  E is the static environment of the state at the beginning of
   the evaluation phase.  A state is consistent with E (`sinv`) when every unforced thunk still has its original
   body, every forced thunk holds the value `cev` gives to its location, every unforced cell has literal scopes
   and forces to the map E records, every forced cell holds that map.  If the lazy evaluator returns a value,
   that value is the one `cev` computes, and the state stays consistent; only the store and the cells change.
   Consequence (`eval_sound`): a successful evaluation phase computed graph operations that the deferred
   statements DENOTE under `cevv`, every thunk has a value, and every cell forces.  No acyclicity of the store is
   assumed: it follows from success. *)
From TSG Require Import Model.Lazy Proofs.BaseFacts Proofs.Containers Proofs.MonadFacts Proofs.SLGraph Proofs.SLForce Proofs.SLExpr Proofs.SLStmt
  Proofs.Scoped Proofs.OrderFacts Proofs.BlockPermRen Proofs.BlockPermSim Proofs.BlockPermDen Proofs.ScPermCbn.

(* called functions are in okfn *)
Fixpoint lvok (okfn : ident -> Prop) (lv : lvalue) : Prop :=
  match lv with
  | LValue _ => True
  | LList l => (fix all (l : list lvalue) : Prop := match l with [] => True | x :: l' => lvok okfn x /\ all l' end) l
  | LSet l => (fix all (l : list lvalue) : Prop := match l with [] => True | x :: l' => lvok okfn x /\ all l' end) l
  | LVar _ => True
  | LScoped sc _ => lvok okfn sc
  | LCall f args => okfn f /\ (fix all (l : list lvalue) : Prop := match l with [] => True | x :: l' => lvok okfn x /\ all l' end) args
  end.
Lemma lvok_all okfn l :
  (fix all (l : list lvalue) : Prop := match l with [] => True | x :: l' => lvok okfn x /\ all l' end) l <-> Forall (lvok okfn) l.
Proof.
  induction l as [|x l IH]; [split; constructor|]. split.
  - intros [H1 H2]. constructor; [exact H1|apply IH, H2].
  - intros H. inversion H; subst. split; [assumption|apply IH; assumption].
Qed.
Lemma lvok_list okfn l : lvok okfn (LList l) <-> Forall (lvok okfn) l. Proof. apply lvok_all. Qed.
Lemma lvok_set okfn l : lvok okfn (LSet l) <-> Forall (lvok okfn) l. Proof. apply lvok_all. Qed.
Lemma lvok_call okfn f l : lvok okfn (LCall f l) <-> okfn f /\ Forall (lvok okfn) l.
Proof. cbn [lvok]. rewrite lvok_all. tauto. Qed.

Definition wscoped (x : list (ident * scoped_values)) (s : lstate) : lstate :=
  {| l_graph := l_graph s; l_locals := l_locals s; l_store := l_store s; l_scoped := x; l_edges := l_edges s;
     l_attrs := l_attrs s; l_prints := l_prints s; l_params := l_params s; l_prev := l_prev s |}.

(* what an evaluation may change: the thunk states and the cell states *)
Definition keepP (s s' : lstate) : Prop :=
  l_graph s' = l_graph s /\ l_prev s' = l_prev s /\ l_locals s' = l_locals s /\ l_edges s' = l_edges s /\ l_attrs s' = l_attrs s /\
  l_prints s' = l_prints s /\ length (l_store s') = length (l_store s) /\ map fst (l_scoped s') = map fst (l_scoped s).
Definition keep2 (s s' : lstate) : Prop := keepP s s' /\ l_params s' = l_params s.
Lemma keepP_refl s : keepP s s. Proof. repeat split. Qed.
Lemma keepP_trans a b c : keepP a b -> keepP b c -> keepP a c.
Proof. intros (A1 & A2 & A3 & A4 & A5 & A6 & A7 & A8) (B1 & B2 & B3 & B4 & B5 & B6 & B7 & B8). repeat split; congruence. Qed.
Lemma keep2_refl s : keep2 s s. Proof. split; [apply keepP_refl|reflexivity]. Qed.
Lemma keep2_trans a b c : keep2 a b -> keep2 b c -> keep2 a c.
Proof. intros [A1 A2] [B1 B2]. split; [eapply keepP_trans; eauto|congruence]. Qed.

Definition scopes_lit (ps : list (lvalue * lvalue * stmt_ctx)) : Prop := Forall (fun pr => exists v, fst (fst pr) = LValue v) ps.

Lemma same_keys_nil : same_keys [] []. Proof. intros n. split; reflexivity. Qed.
Lemma same_keys_snoc values dbgs k (v : lvalue) (d : stmt_ctx) : same_keys values dbgs -> same_keys (values ++ [(k, v)]) (dbgs ++ [(k, d)]).
Proof.
  intros Hk n. rewrite nmap_get_snoc, dbg_get_snoc. specialize (Hk n). destruct Hk as [A B].
  destruct (nmap_get values n) eqn:E1, (dbg_get dbgs n) eqn:E2, (N.eqb n k); split; intros H; try discriminate; try reflexivity;
    try (specialize (A eq_refl); discriminate); try (specialize (B eq_refl); discriminate).
Qed.
Lemma resolve_in t fl name m n lv : resolve t fl name m n = Some lv -> exists k, nmap_get m k = Some lv.
Proof.
  unfold resolve. destruct (nmap_get m n) eqn:E; [intros [= <-]; eauto|]. destruct (linherited fl name); [|discriminate].
  generalize (S (length (t_nodes t))). generalize (match node_at t n with Some nd => tn_parent nd | None => None end).
  intros p fuel. revert p. induction fuel as [|f IH]; intros p; cbn [lancestor_lookup]; [discriminate|]. destruct p as [a|]; [|discriminate].
  destruct (nmap_get m a) eqn:Ea; [intros [= <-]; eauto|apply IH].
Qed.

Section Sound.
  Variables (t : tree) (fl : file) (call : ident -> graph -> list value -> res (value * graph)).
  Variable okfn : ident -> Prop.
  Hypothesis Hcall : forall f, okfn f -> call_ok call f.
  Variable E : senv.

  Notation cev := (cev t fl call E).
  Notation cevv := (cevv t fl call E).
  Notation eval_lv' := (eval_lv t fl call).
  Notation force_thunk' := (force_thunk t fl call).

  (* every lazy value the environment can hand out only calls functions of okfn *)
  Definition env_ok : Prop :=
    (forall i lv, se_body E i = Some lv -> lvok okfn lv) /\
    (forall name m n lv, se_cell E name = Some m -> nmap_get m n = Some lv -> lvok okfn lv).
  Hypothesis HE : env_ok.

  Definition thunk_inv (i : nat) (th : thunk) : Prop :=
    match th_state th with
    | TUnforced lv => se_body E i = Some lv
    | TForcing => True
    | TForced v => cevv (LVar (N.of_nat i)) v
    end.
  Definition cell_inv (name : ident) (c : scoped_values) : Prop :=
    match c with
    | SVUnforced ps => scopes_lit ps /\ cell_val c = se_cell E name
    | SVForcing => True
    | SVForced m => se_cell E name = Some m
    end.
  Definition sinv (s : lstate) : Prop :=
    (forall i th, nth_error (l_store s) i = Some th -> thunk_inv i th) /\
    (forall name c, alist_get name (l_scoped s) = Some c -> cell_inv name c).

  (* forcing a cell with literal scopes: no effect on the state, the result is `build` *)
  Lemma force_pairs_lit F : forall ps vals dbgs s p m s' p', scopes_lit ps -> same_keys vals dbgs ->
    force_pairs (fun scope => sv <- eval_lv' F scope ;; lift (as_syn sv)) ps vals dbgs s p = Ok (m, s', p') ->
    s' = s /\ forallb synscope ps = true /\ build node_of ps vals dbgs = inl m.
  Proof.
    induction ps as [|[[scope v] dbg] ps IH]; intros vals dbgs s p m s' p' Hl Hk H; cbn [force_pairs] in H.
    - apply ret_ok in H as (-> & -> & _). repeat split.
    - inversion Hl as [|? ? [sv Hsv] Hl']; subst. cbn [fst] in Hsv. subst scope.
      apply bind_ok in H as (n & s1 & p1 & E1 & H). apply ctx_wrap_ok in E1. apply ctx_wrap_ok in E1.
      apply bind_ok in E1 as (sv' & s2 & p2 & Ee & El). apply lift_ok in El as (Hn & -> & ->).
      destruct F as [|F]; [discriminate|]. cbn [eval_lv] in Ee. apply bind_ok in Ee as (u & s3 & p3 & Ep & Er). apply poll_keep in Ep. subst s3.
      apply ret_ok in Er as (-> & -> & _). destruct sv; try discriminate. cbn [as_syn] in Hn. inversion Hn; subst n0.
      destruct (nmap_get vals n) eqn:Ev.
      + destruct (dbg_get dbgs n); discriminate.
      + destruct (IH _ _ _ _ _ _ _ Hl' (same_keys_snoc vals dbgs n v dbg Hk) H) as (-> & Hs & Hb). split; [reflexivity|]. split.
        * cbn [forallb synscope fst]. exact Hs.
        * cbn [build node_of]. rewrite Ev. exact Hb.
  Qed.

  Lemma sinv_set_cell s name c : sinv s -> cell_inv name c -> sinv (wscoped (alist_set name c (l_scoped s)) s).
  Proof.
    intros [H1 H2] Hc. split; [exact H1|]. intros name' c' Hg. cbn [wscoped l_scoped] in Hg. rewrite alist_get_set in Hg.
    destruct (str_eqb_spec name' name) as [->|Hne]; [inversion Hg; subst; exact Hc|apply (H2 _ _ Hg)].
  Qed.
  Lemma keepP_set_cell s name c c0 : alist_get name (l_scoped s) = Some c0 -> keep2 s (wscoped (alist_set name c (l_scoped s)) s).
  Proof. intros Hg. repeat split. cbn [wscoped l_scoped]. apply alist_set_keys. congruence. Qed.
  Lemma cell_set_eq name c s p : cell_set name c s p = Ok (tt, wscoped (alist_set name c (l_scoped s)) s, p).
  Proof. reflexivity. Qed.
  Lemma cell_get_eq name s p : cell_get name s p = Ok (alist_get name (l_scoped s), s, p).
  Proof. reflexivity. Qed.

  Definition evS (F : nat) : Prop := forall lv s p v s' p', eval_lv' F lv s p = Ok (v, s', p') -> lvok okfn lv -> sinv s ->
    sinv s' /\ keep2 s s' /\ cevv lv v.
  Definition ftS (F : nat) : Prop := forall loc s p v s' p', force_thunk' F loc s p = Ok (v, s', p') -> sinv s ->
    sinv s' /\ keep2 s s' /\ cevv (LVar loc) v.

  Lemma mapM_S F : evS F -> forall es s p vs s' p', mapM (eval_lv' F) es s p = Ok (vs, s', p') -> Forall (lvok okfn) es -> sinv s ->
    sinv s' /\ keep2 s s' /\ Forall2 cevv es vs.
  Proof.
    intros Hev. induction es as [|e es IH]; intros s p vs s' p' H Hf Hs; cbn [mapM] in H.
    - apply ret_ok in H as (-> & -> & ->). split; [exact Hs|]. split; [apply keep2_refl|constructor].
    - inversion Hf as [|? ? Hfe Hfes]; subst. apply bind_ok in H as (v & s1 & p1 & E1 & H). apply bind_ok in H as (vs1 & s2 & p2 & E2 & H).
      apply ret_ok in H as (-> & -> & ->). destruct (Hev _ _ _ _ _ _ E1 Hfe Hs) as (I1 & K1 & D1).
      destruct (IH _ _ _ _ _ E2 Hfes I1) as (I2 & K2 & D2). split; [exact I2|]. split; [eapply keep2_trans; eauto|]. constructor; assumption.
  Qed.
  Lemma args_S F : evS F -> forall args s p u s' p', iterM (fun a => v <- eval_lv' F a ;; lpush_param v) args s p = Ok (u, s', p') ->
    Forall (lvok okfn) args -> sinv s ->
    exists vs, sinv s' /\ keepP s s' /\ l_params s' = l_params s ++ vs /\ Forall2 cevv args vs.
  Proof.
    intros Hev. induction args as [|e es IH]; intros s p u s' p' H Hf Hs; cbn [iterM] in H.
    - apply ret_ok in H as (_ & -> & _). exists []. rewrite app_nil_r. split; [exact Hs|]. split; [apply keepP_refl|]. split; [reflexivity|constructor].
    - inversion Hf as [|? ? Hfe Hfes]; subst. apply bind_ok in H as (u1 & s2 & p2 & E1 & H). apply bind_ok in E1 as (v & s1 & p1 & E1 & Epush).
      apply lpush_param_ok in Epush as (-> & ->). destruct (Hev _ _ _ _ _ _ E1 Hfe Hs) as (I1 & [K1 Pa1] & D1).
      assert (I1' : sinv (wparams (l_params s1 ++ [v]) s1)) by exact I1.
      destruct (IH _ _ _ _ _ H Hfes I1') as (vs & I2 & K2 & Pa2 & D2). exists (v :: vs). split; [exact I2|]. split.
      + eapply keepP_trans; [exact K1|]. exact K2.
      + split; [|constructor; assumption]. rewrite Pa2. cbn [wparams l_params]. rewrite Pa1, <- app_assoc. reflexivity.
  Qed.

  Lemma sound_all : forall F, evS F /\ ftS F.
  Proof.
    induction F as [|F [IHe IHt]]; [split; intros ? ? ? ? ? ? H; discriminate|]. split.
    - intros lv s p v s' p' H Hf Hs. cbn [eval_lv] in H. apply bind_ok in H as (u0 & s0 & p0 & Epoll & H). apply poll_keep in Epoll. subst s0.
      destruct lv as [v0|es|es|loc|sc name|f args].
      + apply ret_ok in H as (-> & -> & _). split; [exact Hs|]. split; [apply keep2_refl|apply cevv_value].
      + apply bind_ok in H as (vs & s1 & p1 & E1 & H). apply ret_ok in H as (-> & -> & _). rewrite lvok_list in Hf.
        destruct (mapM_S F IHe _ _ _ _ _ _ E1 Hf Hs) as (I1 & K1 & D1). split; [exact I1|]. split; [exact K1|apply cevv_list, D1].
      + apply bind_ok in H as (vs & s1 & p1 & E1 & H). apply ret_ok in H as (-> & -> & _). rewrite lvok_set in Hf.
        destruct (mapM_S F IHe _ _ _ _ _ _ E1 Hf Hs) as (I1 & K1 & D1). split; [exact I1|]. split; [exact K1|apply cevv_set, D1].
      + apply (IHt _ _ _ _ _ _ H Hs).
      + (* a scoped read *)
        cbn [lvok] in Hf. apply bind_ok in H as (n & s1x & p1x & E1 & H). apply ctx_wrap_ok in E1. apply bind_ok in E1 as (sv & s1 & p1 & Ee & El).
        apply lift_ok in El as (Hn & -> & ->). destruct sv; try discriminate. cbn [as_syn] in Hn. inversion Hn; subst n0. clear Hn.
        destruct (IHe _ _ _ _ _ _ Ee Hf Hs) as (I1 & K1 & D1).
        apply bind_ok in H as (c & s2 & p2 & Ec & H). rewrite cell_get_eq in Ec. inversion Ec; subst c s2 p2; clear Ec.
        destruct (alist_get name (l_scoped s1)) as [cell|] eqn:Ecell; [|discriminate].
        apply bind_ok in H as (u1 & s3 & p3 & Es & H). rewrite cell_set_eq in Es. inversion Es; subst u1 s3 p3; clear Es.
        apply bind_ok in H as (m & s4 & p4 & Ef & H).
        assert (Hm : s4 = wscoped (alist_set name SVForcing (l_scoped s1)) s1 /\ se_cell E name = Some m).
        { pose proof (proj2 I1 _ _ Ecell) as Hci. destruct F as [|F']; [discriminate|]. cbn [force_scoped] in Ef. destruct cell as [ps| |m0]; cbn [cell_inv] in Hci.
          - destruct Hci as [Hl Hv]. destruct (force_pairs_lit _ _ _ _ _ _ _ _ _ Hl same_keys_nil Ef) as (-> & Hsy & Hb). split; [reflexivity|].
            rewrite <- Hv. cbn [cell_val]. rewrite Hsy, Hb. reflexivity.
          - discriminate.
          - apply ret_ok in Ef as (-> & -> & _). split; [reflexivity|exact Hci]. }
        destruct Hm as [-> Hcm].
        apply bind_ok in H as (u2 & s5 & p5 & Es2 & H). rewrite cell_set_eq in Es2. inversion Es2; subst u2 s5 p5; clear Es2.
        cbn [wscoped l_scoped] in H.
        change (match nmap_get m n with
                | Some v1 => Some v1
                | None => if linherited fl name then lancestor_lookup t (S (length (t_nodes t))) m (match node_at t n with Some nd => tn_parent nd | None => None end) else None
                end) with (resolve t fl name m n) in H.
        destruct (resolve t fl name m n) as [lv'|] eqn:Er; [|discriminate].
        set (s5 := wscoped (alist_set name (SVForced m) (alist_set name SVForcing (l_scoped s1))) (wscoped (alist_set name SVForcing (l_scoped s1)) s1)) in *.
        assert (I5 : sinv s5).
        { unfold s5. apply (sinv_set_cell (wscoped (alist_set name SVForcing (l_scoped s1)) s1)); [|exact Hcm]. apply sinv_set_cell; [exact I1|exact Logic.I]. }
        assert (K5 : keep2 s1 s5).
        { eapply keep2_trans; [apply (keepP_set_cell s1 name SVForcing cell Ecell)|].
          apply (keepP_set_cell (wscoped (alist_set name SVForcing (l_scoped s1)) s1) name (SVForced m) SVForcing). cbn [wscoped l_scoped]. rewrite alist_get_set, str_eqb_refl. reflexivity. }
        assert (Hok' : lvok okfn lv') by (destruct (resolve_in _ _ _ _ _ _ Er) as [k Hk]; apply (proj2 HE name m k lv' Hcm Hk)).
        destruct (IHe _ _ _ _ _ _ H Hok' I5) as (I6 & K6 & D6). split; [exact I6|]. split; [eapply keep2_trans; [exact K1|eapply keep2_trans; eauto]|].
        eapply cevv_scoped; eauto.
      + rewrite lvok_call in Hf. destruct Hf as [Hokf Hargs]. apply bind_ok in H as (u1 & s1 & p1 & E1 & H). apply bind_ok in H as (ps & s2 & p2 & E2 & H).
        destruct (args_S F IHe _ _ _ _ _ _ E1 Hargs Hs) as (vs & I1 & K1 & Pa & D).
        rewrite (ldrain_ok (l_params s) vs (length args) s1 p1 Pa (eq_sym (Forall2_len _ _ _ D))) in E2. inversion E2; subst ps s2 p2; clear E2.
        unfold lcall_function, bind, get_state in H. cbn [wparams l_graph] in H.
        destruct (call f (l_graph s1) vs) as [[v1 g1]|e|x|] eqn:Ec; try discriminate.
        destruct (call_ok_pure call okfn Hcall f _ _ _ _ Hokf Ec) as [-> Hall]. unfold set_lgraph, Lazy.upd, modify, ret in H. inversion H; subst v s' p'; clear H.
        split; [exact I1|]. split; [split; [exact K1|reflexivity]|]. apply (cevv_call t fl call E f args vs v1 [] D (Hall [])).
    - intros loc s p v s' p' H Hs. cbn [force_thunk] in H. unfold bind at 1, get_state at 1 in H.
      destruct (nth_error (l_store s) (N.to_nat loc)) as [th|] eqn:Eth; [|discriminate]. apply ctx_wrap_ok in H.
      pose proof (proj1 Hs _ _ Eth) as Hti. unfold thunk_inv in Hti. rewrite N2Nat.id in Hti.
      destruct (th_state th) as [inner| |v0] eqn:Est.
      + apply bind_ok in H as (u1 & s1 & p1 & E1 & H). rewrite set_state_eq in E1. inversion E1; subst u1 s1 p1; clear E1.
        apply bind_ok in H as (v1 & s2 & p2 & E2 & H). apply bind_ok in H as (u3 & s3 & p3 & E3 & H). apply ret_ok in H as (Ev & -> & _). subst v1.
        rewrite set_state_eq in E3. inversion E3; subst u3 s3 p3; clear E3.
        set (s1 := wstore (list_update (N.to_nat loc) (fun th0 => {| th_state := TForcing; th_dbg := th_dbg th0 |}) (l_store s)) s) in *.
        assert (I1 : sinv s1).
        { split; [|exact (proj2 Hs)]. intros i th1 Ei. unfold s1 in Ei. cbn [wstore l_store] in Ei. rewrite nth_error_list_update in Ei.
          destruct (Nat.eqb_spec i (N.to_nat loc)) as [->|Hne]; [|apply (proj1 Hs _ _ Ei)]. rewrite Eth in Ei. cbn in Ei. inversion Ei; subst th1. exact Logic.I. }
        assert (K1 : keep2 s s1) by (repeat split; unfold s1; cbn [wstore l_store]; apply list_update_length).
        destruct (IHe _ _ _ _ _ _ E2 (proj1 HE _ _ Hti) I1) as (I2 & K2 & D2).
        assert (Dv : cevv (LVar loc) v) by (eapply cevv_var; eauto).
        split; [|split; [|exact Dv]].
        * split; [|exact (proj2 I2)]. intros i th1 Ei. cbn [wstore l_store] in Ei. rewrite nth_error_list_update in Ei.
          destruct (Nat.eqb_spec i (N.to_nat loc)) as [->|Hne]; [|apply (proj1 I2 _ _ Ei)]. destruct (nth_error (l_store s2) (N.to_nat loc)); [|discriminate].
          cbn in Ei. inversion Ei; subst th1. unfold thunk_inv. cbn [th_state]. rewrite N2Nat.id. exact Dv.
        * eapply keep2_trans; [exact K1|]. eapply keep2_trans; [exact K2|]. repeat split; cbn [wstore l_store]; apply list_update_length.
      + discriminate.
      + apply ret_ok in H as (-> & -> & _). split; [exact Hs|]. split; [apply keep2_refl|exact Hti].
  Qed.

  (* ================= deferred statements ================= *)
  Definition sden_edge (st : lstmt) (e : N * N) : Prop :=
    exists a b dbg, st = LSEdge a b [] dbg /\ cevv a (VGraph (fst e)) /\ cevv b (VGraph (snd e)).
  Definition sden_attrs (out : list (ident * lvalue)) (kvs : list (ident * value)) : Prop :=
    Forall2 (fun x y => fst x = fst y /\ cevv (snd x) (snd y)) out kvs.
  Definition sden_astmt (st : lstmt) (ops : list aop) : Prop :=
    match st with
    | LSAttrNode n attrs _ => exists x kvs, cevv n (VGraph x) /\ sden_attrs attrs kvs /\ ops = map (mk (TNode x)) kvs
    | LSAttrEdge a b attrs _ => exists x y kvs, cevv a (VGraph x) /\ cevv b (VGraph y) /\ sden_attrs attrs kvs /\ ops = map (mk (TEdge x y)) kvs
    | _ => False
    end.
  Definition sprint_ok (st : lstmt) : Prop :=
    match st with
    | LSPrint args _ => Forall (fun a => match a with Some lv => exists v, cevv lv v | None => True end) args
    | _ => False
    end.
  (* the statements the evaluation phase can handle: functions in okfn, no execution-time edge attributes *)
  Definition lsok (st : lstmt) : Prop :=
    match st with
    | LSAttrNode n attrs _ => lvok okfn n /\ Forall (fun a : ident * lvalue => lvok okfn (snd a)) attrs
    | LSEdge a b ea _ => lvok okfn a /\ lvok okfn b /\ ea = []
    | LSAttrEdge a b attrs _ => lvok okfn a /\ lvok okfn b /\ Forall (fun a : ident * lvalue => lvok okfn (snd a)) attrs
    | LSPrint args _ => Forall (fun o => match o with Some lv => lvok okfn lv | None => True end) args
    end.

  (* what a statement may change besides the graph and the bookkeeping of previous attribute statements *)
  Definition keepG (s s' : lstate) : Prop :=
    l_locals s' = l_locals s /\ l_edges s' = l_edges s /\ l_attrs s' = l_attrs s /\ l_prints s' = l_prints s /\ l_params s' = l_params s /\
    length (l_store s') = length (l_store s) /\ map fst (l_scoped s') = map fst (l_scoped s).
  Lemma keepG_refl s : keepG s s. Proof. repeat split. Qed.
  Lemma keepG_trans a b c : keepG a b -> keepG b c -> keepG a c.
  Proof. intros (A1 & A2 & A3 & A4 & A5 & A6 & A7) (B1 & B2 & B3 & B4 & B5 & B6 & B7). repeat split; congruence. Qed.
  Lemma keep2_G s s' : keep2 s s' -> keepG s s'.
  Proof. intros ((A1 & A2 & A3 & A4 & A5 & A6 & A7 & A8) & A9). repeat split; assumption. Qed.
  Lemma rest_G s s' : l_store s' = l_store s -> keep_rest s s' -> keepG s s'.
  Proof. intros Hst (A1 & A2 & A3 & A4 & A5 & A6). repeat split; congruence. Qed.
  Lemma sinv_same s s' : l_store s' = l_store s -> l_scoped s' = l_scoped s -> sinv s -> sinv s'.
  Proof. intros H1 H2 [A B]. split; [rewrite H1; exact A|rewrite H2; exact B]. Qed.

  Lemma gnode_S F lv s p x s' p' : eval_as_gnode t fl call F lv s p = Ok (x, s', p') -> lvok okfn lv -> sinv s ->
    sinv s' /\ keep2 s s' /\ cevv lv (VGraph x).
  Proof.
    intros H Hf Hs. unfold eval_as_gnode in H. apply bind_ok in H as (v & s1 & p1 & Ee & H). apply lift_ok in H as (Hv & -> & ->).
    apply as_gnode_ok in Hv. subst v. destruct (sound_all F) as [He _]. apply (He _ _ _ _ _ _ Ee Hf Hs).
  Qed.

  Lemma estmt_S F a b dbg s p u s' p' : eval_lstmt t fl call F (LSEdge a b [] dbg) s p = Ok (u, s', p') -> lvok okfn a -> lvok okfn b -> sinv s ->
    exists x y, cevv a (VGraph x) /\ cevv b (VGraph y) /\ apply_edge (x, y) (l_graph s) = Some (l_graph s') /\ sinv s' /\ keepG s s'.
  Proof.
    intros H Ha Hb Hs. unfold eval_lstmt in H. apply bind_ok in H as (u0 & s0 & p0 & Ep & H). apply poll_keep in Ep. subst s0. apply ctx_wrap_ok in H.
    apply bind_ok in H as (x & s1 & p1 & E1 & H). apply ctx_wrap_ok in E1. apply bind_ok in H as (y & s2 & p2 & E2 & H). apply ctx_wrap_ok in E2.
    destruct (gnode_S _ _ _ _ _ _ _ E1 Ha Hs) as (I1 & K1 & D1). destruct (gnode_S _ _ _ _ _ _ _ E2 Hb I1) as (I2 & K2 & D2).
    destruct (ledge_add_A _ _ _ _ _ _ _ H) as (Hg & Hst & Hpv & K3). exists x, y. split; [exact D1|]. split; [exact D2|].
    split; [rewrite <- (proj1 (proj1 K1)), <- (proj1 (proj1 K2)); exact Hg|]. split.
    - apply (sinv_same s2 s' Hst (proj1 (proj2 K3)) I2).
    - eapply keepG_trans; [apply keep2_G, K1|]. eapply keepG_trans; [apply keep2_G, K2|apply rest_G; assumption].
  Qed.
  Lemma edges_S F : forall sts s p u s' p', iterM (eval_lstmt t fl call F) sts s p = Ok (u, s', p') ->
    Forall (fun st => is_estmt st /\ lsok st) sts -> sinv s ->
    exists eops, Forall2 sden_edge sts eops /\ apply_edges eops (l_graph s) = Some (l_graph s') /\ sinv s' /\ keepG s s'.
  Proof.
    induction sts as [|st sts IH]; intros s p u s' p' H Hf Hs; cbn [iterM] in H.
    - apply ret_ok in H as (_ & -> & _). exists []. split; [constructor|]. split; [reflexivity|]. split; [exact Hs|apply keepG_refl].
    - inversion Hf as [|? ? [Hk Hst] Hrest]; subst. apply bind_ok in H as (u1 & s1 & p1 & E1 & H).
      destruct st as [n attrs dbg|a b ea dbg|a b attrs dbg|args dbg]; cbn [is_estmt] in Hk; try contradiction. cbn [lsok] in Hst. destruct Hst as (Ha & Hb & ->).
      destruct (estmt_S _ _ _ _ _ _ _ _ _ E1 Ha Hb Hs) as (x & y & Dx & Dy & Hg & I1 & K1).
      destruct (IH _ _ _ _ _ H Hrest I1) as (eops & HF & Hg2 & I2 & K2). exists ((x, y) :: eops). split.
      + constructor; [|exact HF]. exists a, b, dbg. split; [reflexivity|]. split; assumption.
      + cbn [ofold]. rewrite Hg. split; [exact Hg2|]. split; [exact I2|eapply keepG_trans; eauto].
  Qed.

  Lemma nattrs_S F x dbg : forall attrs s p u s' p',
    iterM (fun a : ident * lvalue => v <- eval_lv' F (snd a) ;; prev <- prev_insert (KNode x (fst a)) dbg ;; lattr_node_add x (fst a) v prev dbg) attrs s p = Ok (u, s', p') ->
    Forall (fun a : ident * lvalue => lvok okfn (snd a)) attrs -> sinv s ->
    exists kvs, sden_attrs attrs kvs /\ apply_attrs (map (mk (TNode x)) kvs) (l_graph s) = Some (l_graph s') /\ sinv s' /\ keepG s s'.
  Proof.
    induction attrs as [|[k lv] attrs IH]; intros s p u s' p' H Hf Hs; cbn [iterM] in H.
    - apply ret_ok in H as (_ & -> & _). exists []. split; [constructor|]. split; [reflexivity|]. split; [exact Hs|apply keepG_refl].
    - inversion Hf as [|? ? Hlv Hrest]; subst. cbn [fst snd] in *. apply bind_ok in H as (u1 & s3 & p3 & E0 & H).
      apply bind_ok in E0 as (v & s1 & p1 & E1 & E0). apply bind_ok in E0 as (prev & s2 & p2 & E2 & E3).
      destruct (sound_all F) as [He _]. destruct (He _ _ _ _ _ _ E1 Hlv Hs) as (I1 & K1 & D1).
      destruct (prev_insert_A _ _ _ _ _ _ _ E2) as (G2 & St2 & K2). destruct (lattr_node_add_A _ _ _ _ _ _ _ _ _ _ E3) as (G3 & St3 & K3).
      assert (I3 : sinv s3).
      { apply (sinv_same s2 s3 St3 (proj1 (proj2 K3))). apply (sinv_same s1 s2 St2 (proj1 (proj2 K2))). exact I1. }
      destruct (IH _ _ _ _ _ H Hrest I3) as (kvs & HF & Hg & I4 & K4). exists ((k, v) :: kvs). split.
      + constructor; [|exact HF]. cbn [fst snd]. split; [reflexivity|exact D1].
      + cbn [map ofold mk fst snd]. rewrite <- (proj1 (proj1 K1)), <- G2, G3. split; [exact Hg|]. split; [exact I4|].
        eapply keepG_trans; [apply keep2_G, K1|]. eapply keepG_trans; [apply rest_G; eassumption|]. eapply keepG_trans; [apply rest_G; eassumption|exact K4].
  Qed.
  Lemma eattrs_S F x y dbg : forall attrs s p u s' p',
    iterM (fun ak : ident * lvalue => v <- eval_lv' F (snd ak) ;; ex <- ledge_exists x y ;;
             if ex then prev <- prev_insert (KEdge x y (fst ak)) dbg ;; lattr_edge_add x y (fst ak) v prev dbg else fail EUndefinedEdge) attrs s p = Ok (u, s', p') ->
    Forall (fun a : ident * lvalue => lvok okfn (snd a)) attrs -> sinv s ->
    exists kvs, sden_attrs attrs kvs /\ apply_attrs (map (mk (TEdge x y)) kvs) (l_graph s) = Some (l_graph s') /\ sinv s' /\ keepG s s'.
  Proof.
    induction attrs as [|[k lv] attrs IH]; intros s p u s' p' H Hf Hs; cbn [iterM] in H.
    - apply ret_ok in H as (_ & -> & _). exists []. split; [constructor|]. split; [reflexivity|]. split; [exact Hs|apply keepG_refl].
    - inversion Hf as [|? ? Hlv Hrest]; subst. cbn [fst snd] in *. apply bind_ok in H as (u1 & s3 & p3 & E0 & H).
      apply bind_ok in E0 as (v & s1 & p1 & E1 & E0). apply bind_ok in E0 as (ex & s1' & p1' & Eex & E0). apply ledge_exists_A in Eex as Hex. subst s1'.
      destruct ex; [|discriminate]. apply bind_ok in E0 as (prev & s2 & p2 & E2 & E3).
      destruct (sound_all F) as [He _]. destruct (He _ _ _ _ _ _ E1 Hlv Hs) as (I1 & K1 & D1).
      destruct (prev_insert_A _ _ _ _ _ _ _ E2) as (G2 & St2 & K2). destruct (lattr_edge_add_A _ _ _ _ _ _ _ _ _ _ _ E3) as (G3 & St3 & K3).
      assert (I3 : sinv s3).
      { apply (sinv_same s2 s3 St3 (proj1 (proj2 K3))). apply (sinv_same s1 s2 St2 (proj1 (proj2 K2))). exact I1. }
      destruct (IH _ _ _ _ _ H Hrest I3) as (kvs & HF & Hg & I4 & K4). exists ((k, v) :: kvs). split.
      + constructor; [|exact HF]. cbn [fst snd]. split; [reflexivity|exact D1].
      + cbn [map ofold mk fst snd]. rewrite <- (proj1 (proj1 K1)), <- G2, G3. split; [exact Hg|]. split; [exact I4|].
        eapply keepG_trans; [apply keep2_G, K1|]. eapply keepG_trans; [apply rest_G; eassumption|]. eapply keepG_trans; [apply rest_G; eassumption|exact K4].
  Qed.
  Lemma astmt_S F st s p u s' p' : eval_lstmt t fl call F st s p = Ok (u, s', p') -> is_astmt st -> lsok st -> sinv s ->
    exists ops, sden_astmt st ops /\ apply_attrs ops (l_graph s) = Some (l_graph s') /\ sinv s' /\ keepG s s'.
  Proof.
    intros H Hk Hf Hs. unfold eval_lstmt in H. apply bind_ok in H as (u0 & s0 & p0 & Ep & H). apply poll_keep in Ep. subst s0.
    destruct st as [n attrs dbg|a b ea dbg|a b attrs dbg|args dbg]; cbn [is_astmt] in Hk; try contradiction; cbn [lsok] in Hf; apply ctx_wrap_ok in H.
    - destruct Hf as [Hn Hat]. apply bind_ok in H as (x & s1 & p1 & E1 & H). apply ctx_wrap_ok in E1.
      destruct (gnode_S _ _ _ _ _ _ _ E1 Hn Hs) as (I1 & K1 & D1).
      destruct (nattrs_S F x dbg _ _ _ _ _ _ H Hat I1) as (kvs & HF & Hg & I2 & K2).
      exists (map (mk (TNode x)) kvs). split; [|split; [rewrite <- (proj1 (proj1 K1)); exact Hg|split; [exact I2|eapply keepG_trans; [apply keep2_G, K1|exact K2]]]].
      cbn [sden_astmt]. exists x, kvs. split; [exact D1|]. split; [exact HF|reflexivity].
    - destruct Hf as (Ha & Hb & Hat). apply bind_ok in H as (x & s1 & p1 & E1 & H). apply ctx_wrap_ok in E1.
      apply bind_ok in H as (y & s2 & p2 & E2 & H). apply ctx_wrap_ok in E2.
      destruct (gnode_S _ _ _ _ _ _ _ E1 Ha Hs) as (I1 & K1 & D1). destruct (gnode_S _ _ _ _ _ _ _ E2 Hb I1) as (I2 & K2 & D2).
      destruct (eattrs_S F x y dbg _ _ _ _ _ _ H Hat I2) as (kvs & HF & Hg & I3 & K3).
      exists (map (mk (TEdge x y)) kvs). split; [|split; [rewrite <- (proj1 (proj1 K1)), <- (proj1 (proj1 K2)); exact Hg|split; [exact I3|]]].
      + cbn [sden_astmt]. exists x, y, kvs. split; [exact D1|]. split; [exact D2|]. split; [exact HF|reflexivity].
      + eapply keepG_trans; [apply keep2_G, K1|]. eapply keepG_trans; [apply keep2_G, K2|exact K3].
  Qed.
  Lemma attrs_S F : forall sts s p u s' p', iterM (eval_lstmt t fl call F) sts s p = Ok (u, s', p') ->
    Forall (fun st => is_astmt st /\ lsok st) sts -> sinv s ->
    exists aopss, Forall2 sden_astmt sts aopss /\ apply_attrs (concat aopss) (l_graph s) = Some (l_graph s') /\ sinv s' /\ keepG s s'.
  Proof.
    induction sts as [|st sts IH]; intros s p u s' p' H Hf Hs; cbn [iterM] in H.
    - apply ret_ok in H as (_ & -> & _). exists []. split; [constructor|]. split; [reflexivity|]. split; [exact Hs|apply keepG_refl].
    - inversion Hf as [|? ? [Hk Hst] Hrest]; subst. apply bind_ok in H as (u1 & s1 & p1 & E1 & H).
      destruct (astmt_S _ _ _ _ _ _ _ E1 Hk Hst Hs) as (ops & D1 & Hg1 & I1 & K1).
      destruct (IH _ _ _ _ _ H Hrest I1) as (aopss & HF & Hg2 & I2 & K2).
      exists (ops :: aopss). split; [constructor; assumption|]. cbn [concat]. split; [eapply ofold_app_ok; eauto|]. split; [exact I2|eapply keepG_trans; eauto].
  Qed.

  Lemma prints_S F : forall sts s p u s' p', iterM (eval_lstmt t fl call F) sts s p = Ok (u, s', p') ->
    Forall (fun st => is_pstmt st /\ lsok st) sts -> sinv s ->
    Forall sprint_ok sts /\ l_graph s' = l_graph s /\ sinv s' /\ keepG s s'.
  Proof.
    induction sts as [|st sts IH]; intros s p u s' p' H Hf Hs; cbn [iterM] in H.
    - apply ret_ok in H as (_ & -> & _). split; [constructor|]. split; [reflexivity|]. split; [exact Hs|apply keepG_refl].
    - inversion Hf as [|? ? [Hk Hst] Hrest]; subst. apply bind_ok in H as (u1 & s1 & p1 & E1 & H).
      destruct st as [n attrs dbg|a b ea dbg|a b attrs dbg|args dbg]; cbn [is_pstmt] in Hk; try contradiction. cbn [lsok] in Hst.
      unfold eval_lstmt in E1. apply bind_ok in E1 as (u0 & s0 & p0 & Ep & E1). apply poll_keep in Ep. subst s0. apply ctx_wrap_ok in E1.
      assert (Hargs : forall args0 s0 p0 u2 s2 p2,
                iterM (fun a : option lvalue => match a with Some lv => eval_lv' F lv ;;; ret tt | None => ret tt end) args0 s0 p0 = Ok (u2, s2, p2) ->
                Forall (fun o => match o with Some lv => lvok okfn lv | None => True end) args0 -> sinv s0 ->
                Forall (fun a => match a with Some lv => exists v, cevv lv v | None => True end) args0 /\ sinv s2 /\ keep2 s0 s2).
      { destruct (sound_all F) as [He _]. clear -He. induction args0 as [|a args0 IHa]; intros s0 p0 u2 s2 p2 H Hf Hs; cbn [iterM] in H.
        - apply ret_ok in H as (_ & -> & _). split; [constructor|]. split; [exact Hs|apply keep2_refl].
        - inversion Hf as [|? ? Ha Hrest]; subst. apply bind_ok in H as (u1 & s1 & p1 & E1 & H). destruct a as [lv|].
          + apply bind_ok in E1 as (v & s1' & p1' & E1 & Er). apply ret_ok in Er as (_ & -> & _).
            destruct (He _ _ _ _ _ _ E1 Ha Hs) as (I1 & K1 & D1). destruct (IHa _ _ _ _ _ H Hrest I1) as (HF & I2 & K2).
            split; [constructor; [exists v; exact D1|exact HF]|]. split; [exact I2|eapply keep2_trans; eauto].
          + apply ret_ok in E1 as (_ & -> & _). destruct (IHa _ _ _ _ _ H Hrest Hs) as (HF & I2 & K2). split; [constructor; [exact Logic.I|exact HF]|]. auto. }
      destruct (Hargs _ _ _ _ _ _ E1 Hst Hs) as (HF1 & I1 & K1). destruct (IH _ _ _ _ _ H Hrest I1) as (HF2 & G2 & I2 & K2).
      split; [constructor; [exact HF1|exact HF2]|]. split; [rewrite G2; apply (proj1 (proj1 K1))|]. split; [exact I2|eapply keepG_trans; [apply keep2_G, K1|exact K2]].
  Qed.

  Lemma force_list_S F : forall (l : list nat) s p u s' p', iterM (fun i => force_thunk' F i ;;; ret tt) (map N.of_nat l) s p = Ok (u, s', p') -> sinv s ->
    sinv s' /\ keep2 s s' /\ forall i, In i l -> exists v, cevv (LVar (N.of_nat i)) v.
  Proof.
    destruct (sound_all F) as [_ Ht]. induction l as [|i l IH]; intros s p u s' p' H Hs; cbn [map iterM] in H.
    - apply ret_ok in H as (_ & -> & _). split; [exact Hs|]. split; [apply keep2_refl|]. intros i [].
    - apply bind_ok in H as (u1 & s1 & p1 & E1 & H). apply bind_ok in E1 as (v & s1' & p1' & E1 & Er). apply ret_ok in Er as (_ & -> & _).
      destruct (Ht _ _ _ _ _ _ E1 Hs) as (I1 & K1 & D1). destruct (IH _ _ _ _ _ H I1) as (I2 & K2 & D2).
      split; [exact I2|]. split; [eapply keep2_trans; eauto|]. intros j [<-|Hj]; [exists v; exact D1|apply D2, Hj].
  Qed.

  Lemma force_scoped_S F name cell s p m s' p' : force_scoped t fl call F name cell s p = Ok (m, s', p') -> cell_inv name cell ->
    s' = s /\ se_cell E name = Some m.
  Proof.
    intros Ef Hci. destruct F as [|F']; [discriminate|]. cbn [force_scoped] in Ef. destruct cell as [ps| |m0]; cbn [cell_inv] in Hci.
    - destruct Hci as [Hl Hv]. destruct (force_pairs_lit _ _ _ _ _ _ _ _ _ Hl same_keys_nil Ef) as (-> & Hsy & Hb). split; [reflexivity|].
      rewrite <- Hv. cbn [cell_val]. rewrite Hsy, Hb. reflexivity.
    - discriminate.
    - apply ret_ok in Ef as (-> & -> & _). split; [reflexivity|exact Hci].
  Qed.
  Lemma cells_S F : forall names s p u s' p',
    iterM (fun name => c <- cell_get name ;;
                       match c with
                       | None => ret tt
                       | Some cell => cell_set name SVForcing ;;; map <- force_scoped t fl call F name cell ;; cell_set name (SVForced map)
                       end) names s p = Ok (u, s', p') -> sinv s ->
    l_graph s' = l_graph s /\ forall name, In name names -> alist_get name (l_scoped s) <> None -> se_cell E name <> None.
  Proof.
    induction names as [|name names IH]; intros s p u s' p' H Hs; cbn [iterM] in H.
    - apply ret_ok in H as (_ & -> & _). split; [reflexivity|]. intros name [].
    - apply bind_ok in H as (u1 & s1 & p1 & E1 & H). apply bind_ok in E1 as (c & s0 & p0 & Ec & E1). rewrite cell_get_eq in Ec. inversion Ec; subst c s0 p0; clear Ec.
      destruct (alist_get name (l_scoped s)) as [cell|] eqn:Ecell.
      + apply bind_ok in E1 as (u2 & s2 & p2 & Es & E1). rewrite cell_set_eq in Es. inversion Es; subst u2 s2 p2; clear Es.
        apply bind_ok in E1 as (m & s3 & p3 & Ef & E1). destruct (force_scoped_S _ _ _ _ _ _ _ _ Ef (proj2 Hs _ _ Ecell)) as (-> & Hm).
        rewrite cell_set_eq in E1. inversion E1; subst u1 s1 p1; clear E1.
        set (s5 := wscoped (alist_set name (SVForced m) (l_scoped (wscoped (alist_set name SVForcing (l_scoped s)) s))) (wscoped (alist_set name SVForcing (l_scoped s)) s)) in *.
        assert (I5 : sinv s5).
        { unfold s5. apply (sinv_set_cell (wscoped (alist_set name SVForcing (l_scoped s)) s)); [|exact Hm]. apply sinv_set_cell; [exact Hs|exact Logic.I]. }
        destruct (IH _ _ _ _ _ H I5) as (G & Hall). split; [rewrite G; reflexivity|]. intros name' [<-|Hin] Hne; [rewrite Hm; discriminate|].
        apply Hall; [exact Hin|]. unfold s5. cbn [wscoped l_scoped]. rewrite !alist_get_set. destruct (str_eqb name' name); [discriminate|exact Hne].
      + apply ret_ok in E1 as (_ & -> & _). destruct (IH _ _ _ _ _ H Hs) as (G & Hall). split; [exact G|].
        intros name' [<-|Hin] Hne; [congruence|apply Hall; assumption].
  Qed.
End Sound.

(* ================= the evaluation phase, read back ================= *)
Section EvalSound.
  Variables (t : tree) (fl : file) (call : ident -> graph -> list value -> res (value * graph)).
  Variable okfn : ident -> Prop.
  Hypothesis Hcall : forall f, okfn f -> call_ok call f.

  (* a state at the beginning of the evaluation phase: no cell is being forced, unforced cells have literal scopes,
     the deferred statements are sorted by kind, only functions of okfn are called *)
  Definition evalable2 (s : lstate) : Prop :=
    (forall name c, alist_get name (l_scoped s) = Some c -> match c with SVUnforced ps => scopes_lit ps | SVForcing => False | SVForced _ => True end) /\
    Forall (fun st => is_estmt st /\ lsok okfn st) (l_edges s) /\
    Forall (fun st => is_astmt st /\ lsok okfn st) (l_attrs s) /\
    Forall (fun st => is_pstmt st /\ lsok okfn st) (l_prints s) /\
    env_ok okfn (env_of s).

  Lemma sinv_init s : evalable2 s -> sinv t fl call (env_of s) s.
  Proof.
    intros (Hc & _). split.
    - intros i th Ei. unfold thunk_inv. destruct (th_state th) as [lv| |v] eqn:Est.
      + cbn [env_of se_body]. rewrite Ei. unfold body_of. rewrite Est. reflexivity.
      + exact I.
      + apply (cevv_var t fl call (env_of s) (N.of_nat i) (LValue v) v); [|apply cevv_value]. cbn [env_of se_body]. rewrite Nat2N.id, Ei. unfold body_of. rewrite Est. reflexivity.
    - intros name c Ec. specialize (Hc _ _ Ec). unfold cell_inv. cbn [env_of se_cell]. rewrite Ec. destruct c; [split; [exact Hc|reflexivity]|exact I|reflexivity].
  Qed.

  Theorem eval_sound F s p u fin p' : evaluate_phase t fl call F s p = Ok (u, fin, p') -> evalable2 s ->
    exists eops aopss g1,
      Forall2 (sden_edge t fl call (env_of s)) (l_edges s) eops /\ Forall2 (sden_astmt t fl call (env_of s)) (l_attrs s) aopss /\
      Forall (sprint_ok t fl call (env_of s)) (l_prints s) /\
      apply_edges eops (l_graph s) = Some g1 /\ apply_attrs (concat aopss) g1 = Some (l_graph fin) /\
      (forall i, (i < length (l_store s))%nat -> exists v, cevv t fl call (env_of s) (LVar (N.of_nat i)) v) /\
      (forall name c, alist_get name (l_scoped s) = Some c -> se_cell (env_of s) name <> None).
  Proof.
    intros H Hev. pose proof (sinv_init s Hev) as Hs0. destruct Hev as (_ & He & Ha & Hp & HE).
    unfold evaluate_phase in H. unfold bind at 1, get_state at 1 in H.
    apply bind_ok in H as (u1 & s1 & p1 & E1 & H). apply bind_ok in H as (u2 & s2 & p2 & E2 & H). apply bind_ok in H as (u3 & s3 & p3 & E3 & H).
    apply bind_ok in H as (u4 & s4 & p4 & E4 & H).
    destruct (edges_S t fl call okfn Hcall (env_of s) HE F _ _ _ _ _ _ E1 He Hs0) as (eops & HFe & Hg1 & I1 & K1).
    destruct K1 as (_ & Ed1 & At1 & Pr1 & _ & Len1 & Keys1).
    rewrite <- At1 in E2. destruct (attrs_S t fl call okfn Hcall (env_of s) HE F _ _ _ _ _ _ E2 ltac:(rewrite At1; exact Ha) I1) as (aopss & HFa & Hg2 & I2 & K2).
    destruct K2 as (_ & Ed2 & At2 & Pr2 & _ & Len2 & Keys2).
    rewrite <- Pr1, <- Pr2 in E3. destruct (prints_S t fl call okfn Hcall (env_of s) HE F _ _ _ _ _ _ E3 ltac:(rewrite Pr2, Pr1; exact Hp) I2) as (HFp & G3 & I3 & K3).
    destruct K3 as (_ & _ & _ & _ & _ & Len3 & Keys3).
    unfold store_evaluate_all in E4. unfold bind at 1, get_state at 1 in E4.
    destruct (force_list_S t fl call okfn Hcall (env_of s) HE F _ _ _ _ _ _ E4 I3) as (I4 & K4 & Hall).
    unfold scoped_evaluate_all in H. unfold bind at 1, get_state at 1 in H.
    destruct (cells_S t fl call (env_of s) F _ _ _ _ _ _ H I4) as (G5 & Hcells).
    exists eops, aopss, (l_graph s1). split; [exact HFe|]. split; [rewrite <- At1; exact HFa|]. split; [rewrite <- Pr1, <- Pr2; exact HFp|].
    split; [exact Hg1|]. split; [rewrite G5, (proj1 (proj1 K4)), G3; exact Hg2|]. split.
    - intros i Hi. apply Hall. apply in_seq. rewrite Len3, Len2, Len1. lia.
    - intros name c Ec.
      assert (Hkeys : map fst (l_scoped s4) = map fst (l_scoped s)).
      { destruct K4 as ((_ & _ & _ & _ & _ & _ & _ & Keys4) & _). congruence. }
      assert (Hin : In name (map fst (l_scoped s))) by (apply in_map_iff; exists (name, c); split; [reflexivity|apply alist_get_In, Ec]).
      apply Hcells.
      + rewrite <- Hkeys in Hin. apply in_map_iff in Hin as ([k c4] & Hk & Hin4). cbn [fst] in Hk. subst k.
        apply in_map_iff. exists (name, c4). split; [reflexivity|]. unfold sort_alist. apply sort_by_In. exact Hin4.
      + intros Hnone. apply alist_get_None in Hnone. apply Hnone. rewrite Hkeys. exact Hin.
  Qed.
End EvalSound.
