(* Proofs/SLFailEval.v — C02, failure direction, part 3: DOOMED lazy states and the evaluation phase.
   A lazy state is doomed when the evaluation phase started from it — or from any state the rest of the execution phase
   may lead to — cannot return Ok.  Three kinds:
   * a doomed thunk (`Jst .. (Some (loc, lv))`): `LazyStore::evaluate_all` forces every thunk at the end of the run;
   * a deferred statement whose evaluation cannot succeed whatever the graph is (`bad_stmt`: an endpoint that does not
     evaluate to a graph node, a value whose evaluation fails), anywhere in the three lists;
   * an attribute statement that conflicts with an attribute value the strict run had set (`bad_stmt_g`): here the lists
     are split into the statements recorded BEFORE the failure point, which denote the edge and attribute insertions
     of the strict run (Proofs/SLStmt.v), and the rest.  The evaluation phase replays the early insertions on a graph
     that extends the strict one (`graph_ext`: later statements and function calls only add to it), so the conflicting
     value is there when the doomed statement is reached, in whatever order the later edges were inserted.
   `Doomed` is preserved by every successful lazy computation, and `evaluate_phase` of a doomed state is never Ok. *)
From TSG Require Import Model.Lazy Proofs.BaseFacts Proofs.Containers Proofs.MonadFacts Proofs.StrictMeta
  Proofs.SLGraph Proofs.SLForce Proofs.SLExpr Proofs.SLConv Proofs.SLStmt Proofs.StrictLazy Proofs.Extends Proofs.SLFailGraph Proofs.SLFailStore.

Lemma prev_insert_nres k dbg ls pl (Phi : option stmt_ctx -> lstate -> polls -> Prop) :
  (forall prev ls', l_store ls' = l_store ls -> l_graph ls' = l_graph ls -> Phi prev ls' pl) -> nres (prev_insert k dbg ls pl) Phi.
Proof. intros H. unfold prev_insert, bind, get_state, set_lprev, upd, modify, ret. cbn [nres]. apply H; reflexivity. Qed.

Section Eval.
  Variable call : ident -> graph -> list value -> res (value * graph).
  Hypothesis Hcall : call_graph_ext call.
  Variables (t : tree) (fl : file).
  Notation den := (den call).
  Notation den_attrs := (den_attrs call).
  Notation sbk := (sbk call).
  Notation Jst := (Jst call t fl).
  Notation bad_lv := (bad_lv call t fl).
  Notation bad_stmt := (bad_stmt call t fl).
  Notation bad_stmt_g := (bad_stmt_g call t fl).
  Notation jok := (jok call t fl).
  Notation eval_lv' := (eval_lv t fl call).
  Notation eval_lstmt' := (eval_lstmt t fl call).

  Definition Inv2 (rhoK : list value) (dt : option (nat * lvalue)) (G : graph) (s : lstate) (p : polls) : Prop :=
    nob p /\ Jst rhoK dt (l_store s) /\ graph_ext G (l_graph s).

  Lemma den_inv2 F rhoK dt G lv v ls pl (Phi : value -> lstate -> polls -> Prop) : den rhoK lv v -> Inv2 rhoK dt G ls pl ->
    (forall ls' pl', Inv2 rhoK dt G ls' pl' -> l_graph ls' = l_graph ls -> Phi v ls' pl') -> nres (eval_lv' F lv ls pl) Phi.
  Proof.
    intros Hd (Hb & HJ & Hg) H. apply nres_of_lres. eapply lres_mono; [apply (force_den call t fl F rhoK dt lv v ls pl Hd HJ Hb)|].
    intros v' ls' pl' (-> & Hb' & st' & -> & HJ'). apply H; [|reflexivity]. split; [exact Hb'|]. split; [exact HJ'|exact Hg].
  Qed.
  Lemma gnode_inv2 F rhoK dt G lv x ls pl (Phi : N -> lstate -> polls -> Prop) : den rhoK lv (VGraph x) -> Inv2 rhoK dt G ls pl ->
    (forall ls' pl', Inv2 rhoK dt G ls' pl' -> l_graph ls' = l_graph ls -> Phi x ls' pl') -> nres (eval_as_gnode t fl call F lv ls pl) Phi.
  Proof.
    intros Hd HI H. unfold eval_as_gnode. apply nres_bind. apply (den_inv2 F rhoK dt G lv _ ls pl _ Hd HI). intros ls' pl' HI' Hg.
    apply nres_lift. intros n [= <-]. apply H; assumption.
  Qed.

  (* ---- the attribute loops: the insertions the strict run made are replayed on a larger graph ---- *)
  Lemma node_attrs_both F rhoK dt x dbg : forall attrs kvs G G' ls pl, den_attrs rhoK attrs kvs ->
    apply_attrs (map (mk (TNode x)) kvs) G = Some G' -> Inv2 rhoK dt G ls pl ->
    nres (iterM (fun a : ident * lvalue => v <- eval_lv' F (snd a) ;; prev <- prev_insert (KNode x (fst a)) dbg ;; lattr_node_add x (fst a) v prev dbg) attrs ls pl)
         (fun _ ls' pl' => Inv2 rhoK dt G' ls' pl').
  Proof.
    intros attrs kvs G G' ls pl HF. revert G ls pl. induction HF as [|[k lv] [k' v] attrs kvs [Hk Hd] _ IH]; intros G ls pl Hg HI; cbn [iterM map ofold] in *.
    - inversion Hg; subst. apply nres_ret. exact HI.
    - cbn [fst snd] in *. subst k'. destruct (apply_attr (mk (TNode x) (k, v)) G) as [Gm|] eqn:E; [|discriminate]. apply nres_bind.
      apply nres_bind. apply (den_inv2 F rhoK dt G lv v ls pl _ Hd HI). intros ls1 pl1 (Hb1 & HJ1 & Hg1) _.
      apply nres_bind. apply prev_insert_nres. intros prev ls2 Es Eg. unfold lattr_node_add. apply nres_get.
      destruct (gnode_at (l_graph ls2) x) as [nd|] eqn:En; [|exact I]. destruct (attrs_add (g_attrs nd) k v) as [m' [c|]] eqn:Ea; [exact I|].
      unfold set_lgraph, Lazy.upd. apply nres_modify. apply (IH Gm _ pl1 Hg). split; [exact Hb1|]. cbn [l_store l_graph]. split; [rewrite Es; exact HJ1|].
      apply (apply_attr_ext_both (mk (TNode x) (k, v)) G (l_graph ls2)); [rewrite Eg; exact Hg1|exact E|]. cbn [mk apply_attr fst snd]. rewrite En, Ea. reflexivity.
  Qed.
  Lemma edge_attrs_both F rhoK dt x y dbg : forall attrs kvs G G' ls pl, den_attrs rhoK attrs kvs ->
    apply_attrs (map (mk (TEdge x y)) kvs) G = Some G' -> Inv2 rhoK dt G ls pl ->
    nres (iterM (fun ak : ident * lvalue =>
                   v <- eval_lv' F (snd ak) ;; ex <- ledge_exists x y ;;
                   if ex then prev <- prev_insert (KEdge x y (fst ak)) dbg ;; lattr_edge_add x y (fst ak) v prev dbg else fail EUndefinedEdge) attrs ls pl)
         (fun _ ls' pl' => Inv2 rhoK dt G' ls' pl').
  Proof.
    intros attrs kvs G G' ls pl HF. revert G ls pl. induction HF as [|[k lv] [k' v] attrs kvs [Hk Hd] _ IH]; intros G ls pl Hg HI; cbn [iterM map ofold] in *.
    - inversion Hg; subst. apply nres_ret. exact HI.
    - cbn [fst snd] in *. subst k'. destruct (apply_attr (mk (TEdge x y) (k, v)) G) as [Gm|] eqn:E; [|discriminate]. apply nres_bind.
      apply nres_bind. apply (den_inv2 F rhoK dt G lv v ls pl _ Hd HI). intros ls1 pl1 (Hb1 & HJ1 & Hg1) _.
      apply nres_bind. unfold ledge_exists. apply nres_get. destruct (gnode_at (l_graph ls1) x) as [nd|] eqn:En; [|exact I]. apply nres_ret.
      destruct (edges_get y (g_edges nd)) as [m0|] eqn:Ee; [|exact I].
      apply nres_bind. apply prev_insert_nres. intros prev ls2 Es Eg. unfold lattr_edge_add. apply nres_get. rewrite Eg, En, Ee.
      destruct (attrs_add m0 k v) as [m' [c|]] eqn:Ea; [exact I|].
      unfold set_lgraph, Lazy.upd. apply nres_modify. apply (IH Gm _ pl1 Hg). split; [exact Hb1|]. cbn [l_store l_graph]. split; [rewrite Es; exact HJ1|].
      apply (apply_attr_ext_both (mk (TEdge x y) (k, v)) G (l_graph ls1)); [exact Hg1|exact E|]. cbn [mk apply_attr fst snd]. rewrite En, Ee, Ea. reflexivity.
  Qed.

  (* the attribute that conflicts *)
  Lemma node_attr_conflict F rhoK dt x dbg key lv v post G ls pl : den rhoK lv v -> conflict (AN x key v) G -> Inv2 rhoK dt G ls pl ->
    nok (iterM (fun a : ident * lvalue => v <- eval_lv' F (snd a) ;; prev <- prev_insert (KNode x (fst a)) dbg ;; lattr_node_add x (fst a) v prev dbg) ((key, lv) :: post) ls pl).
  Proof.
    intros Hd Hc HI. cbn [iterM fst snd]. apply nres_bind. apply nres_bind. apply (den_inv2 F rhoK dt G lv v ls pl _ Hd HI). intros ls1 pl1 (Hb1 & HJ1 & Hg1) _.
    apply nres_bind. apply prev_insert_nres. intros prev ls2 Es Eg. unfold lattr_node_add. apply nres_get. rewrite Eg.
    destruct (conflict_ext _ _ _ Hg1 Hc) as (nd & old & En & Ek & Ev). rewrite En. unfold attrs_add. rewrite Ek, Ev. exact I.
  Qed.
  Lemma edge_attr_conflict F rhoK dt x y dbg key lv v post G ls pl : den rhoK lv v -> conflict (AE x y key v) G -> Inv2 rhoK dt G ls pl ->
    nok (iterM (fun ak : ident * lvalue =>
                   v <- eval_lv' F (snd ak) ;; ex <- ledge_exists x y ;;
                   if ex then prev <- prev_insert (KEdge x y (fst ak)) dbg ;; lattr_edge_add x y (fst ak) v prev dbg else fail EUndefinedEdge) ((key, lv) :: post) ls pl).
  Proof.
    intros Hd Hc HI. cbn [iterM fst snd]. apply nres_bind. apply nres_bind. apply (den_inv2 F rhoK dt G lv v ls pl _ Hd HI). intros ls1 pl1 (Hb1 & HJ1 & Hg1) _.
    destruct (conflict_ext _ _ _ Hg1 Hc) as (nd & m & old & En & Ee & Ek & Ev).
    apply nres_bind. unfold ledge_exists. apply nres_get. rewrite En. apply nres_ret. rewrite Ee.
    apply nres_bind. apply prev_insert_nres. intros prev ls2 Es Eg. unfold lattr_edge_add. apply nres_get. rewrite Eg, En, Ee.
    unfold attrs_add. rewrite Ek, Ev. exact I.
  Qed.

  Lemma sbk_inv2 rhoK G ls pl : sbk rhoK (l_store ls) -> graph_ext G (l_graph ls) -> nob pl -> Inv2 rhoK None G ls pl.
  Proof. intros Hs Hg Hb. split; [exact Hb|]. split; [apply Jst_none, Hs|exact Hg]. Qed.

  (* statements that conflict with the graph G of the strict run *)
  Lemma bad_stmt_node_conflict rhoK G G' n x pre kvs key lv v post dbg :
    den rhoK n (VGraph x) -> den_attrs rhoK pre kvs -> den rhoK lv v ->
    apply_attrs (map (mk (TNode x)) kvs) G = Some G' -> conflict (AN x key v) G' ->
    bad_stmt_g rhoK G (LSAttrNode n (pre ++ (key, lv) :: post) dbg).
  Proof.
    intros Hn Hpre Hlv Hg Hc F ls pl Hs Hx Hb. unfold eval_lstmt. apply nres_bind. unfold lpoll. apply nres_poll; [exact Hb|]. intros pl0 Hb0.
    apply nres_ctx. apply nres_bind. apply nres_ctx. apply (gnode_inv2 F rhoK None G n x ls pl0 _ Hn (sbk_inv2 _ _ _ _ Hs Hx Hb0)). intros ls1 pl1 HI1 _.
    eapply nres_eq; [apply iterM_app|]. apply nres_bind.
    eapply nres_mono; [apply (node_attrs_both F rhoK None x dbg pre kvs G G' ls1 pl1 Hpre Hg HI1)|]. intros u ls2 pl2 HI2.
    apply (node_attr_conflict F rhoK None x dbg key lv v post G' ls2 pl2 Hlv Hc HI2).
  Qed.
  Lemma bad_stmt_edge_conflict rhoK G G' a b x y pre kvs key lv v post dbg :
    den rhoK a (VGraph x) -> den rhoK b (VGraph y) -> den_attrs rhoK pre kvs -> den rhoK lv v ->
    apply_attrs (map (mk (TEdge x y)) kvs) G = Some G' -> conflict (AE x y key v) G' ->
    bad_stmt_g rhoK G (LSAttrEdge a b (pre ++ (key, lv) :: post) dbg).
  Proof.
    intros Ha Hb0 Hpre Hlv Hg Hc F ls pl Hs Hx Hb. unfold eval_lstmt. apply nres_bind. unfold lpoll. apply nres_poll; [exact Hb|]. intros pl0 Hbl.
    apply nres_ctx. apply nres_bind. apply nres_ctx. apply (gnode_inv2 F rhoK None G a x ls pl0 _ Ha (sbk_inv2 _ _ _ _ Hs Hx Hbl)). intros ls1 pl1 HI1 _.
    apply nres_bind. apply nres_ctx. apply (gnode_inv2 F rhoK None G b y ls1 pl1 _ Hb0 HI1). intros ls2 pl2 HI2 _.
    eapply nres_eq; [apply iterM_app|]. apply nres_bind.
    eapply nres_mono; [apply (edge_attrs_both F rhoK None x y dbg pre kvs G G' ls2 pl2 Hpre Hg HI2)|]. intros u ls3 pl3 HI3.
    apply (edge_attr_conflict F rhoK None x y dbg key lv v post G' ls3 pl3 Hlv Hc HI3).
  Qed.

  (* ---- the statements recorded before the failure point, replayed ---- *)
  Lemma eval_den_edge F rhoK dt G G' st e ls pl : den_edge call rhoK st e -> apply_edge e G = Some G' -> Inv2 rhoK dt G ls pl ->
    nres (eval_lstmt' F st ls pl) (fun _ ls' pl' => Inv2 rhoK dt G' ls' pl').
  Proof.
    intros (a & b & dbg & -> & Ha & Hb0) He (Hb & HJ & Hg). destruct e as [x y]. cbn [fst snd] in *. unfold eval_lstmt.
    apply nres_bind. unfold lpoll. apply nres_poll; [exact Hb|]. intros pl0 Hbl. apply nres_ctx.
    apply nres_bind. apply nres_ctx. apply (gnode_inv2 F rhoK dt G a x ls pl0 _ Ha (conj Hbl (conj HJ Hg))). intros ls1 pl1 HI1 _.
    apply nres_bind. apply nres_ctx. apply (gnode_inv2 F rhoK dt G b y ls1 pl1 _ Hb0 HI1). intros ls2 pl2 (Hb2 & HJ2 & Hg2) _.
    unfold ledge_add. apply nres_get. destruct (graph_add_edge (l_graph ls2) x y) as [[g1 isnew]|] eqn:E; [|exact I].
    assert (Hx : graph_ext G' g1).
    { apply (apply_edge_ext_both (x, y) G (l_graph ls2)); [exact Hg2|exact He|]. unfold apply_edge. cbn [fst snd]. rewrite E. reflexivity. }
    destruct isnew.
    - rewrite (edge_reset_id _ _ _ _ E). unfold set_lgraph, Lazy.upd. apply nres_modify. split; [exact Hb2|]. split; [exact HJ2|exact Hx].
    - unfold set_lgraph, Lazy.upd. apply nres_modify. split; [exact Hb2|]. split; [exact HJ2|exact Hx].
  Qed.
  Lemma eval_den_edges F rhoK dt : forall stmts eops G G' ls pl, Forall2 (den_edge call rhoK) stmts eops -> apply_edges eops G = Some G' ->
    Inv2 rhoK dt G ls pl -> nres (iterM (eval_lstmt' F) stmts ls pl) (fun _ ls' pl' => Inv2 rhoK dt G' ls' pl').
  Proof.
    intros stmts eops G G' ls pl HF. revert G ls pl. induction HF as [|st e stmts eops Hd _ IH]; intros G ls pl Hg HI; cbn [iterM ofold] in *.
    - inversion Hg; subst. apply nres_ret. exact HI.
    - destruct (apply_edge e G) as [Gm|] eqn:E; [|discriminate]. apply nres_bind.
      eapply nres_mono; [apply (eval_den_edge F rhoK dt G Gm st e ls pl Hd E HI)|]. intros u ls1 pl1 HI1. apply (IH Gm ls1 pl1 Hg HI1).
  Qed.
  Lemma eval_den_astmt F rhoK dt G G' st ops ls pl : den_astmt call rhoK st ops -> apply_attrs ops G = Some G' -> Inv2 rhoK dt G ls pl ->
    nres (eval_lstmt' F st ls pl) (fun _ ls' pl' => Inv2 rhoK dt G' ls' pl').
  Proof.
    intros Hd Hg (Hb & HJ & Hx). unfold eval_lstmt. apply nres_bind. unfold lpoll. apply nres_poll; [exact Hb|]. intros pl0 Hbl.
    destruct st as [n attrs dbg|a b ea dbg|a b attrs dbg|args dbg]; cbn [SLStmt.den_astmt] in Hd; try contradiction.
    - destruct Hd as (x & kvs & Hn & Ha & ->). apply nres_ctx.
      apply nres_bind. apply nres_ctx. apply (gnode_inv2 F rhoK dt G n x ls pl0 _ Hn (conj Hbl (conj HJ Hx))). intros ls1 pl1 HI1 _.
      apply (node_attrs_both F rhoK dt x dbg attrs kvs G G' ls1 pl1 Ha Hg HI1).
    - destruct Hd as (x & y & kvs & Hna & Hnb & Ha & ->). apply nres_ctx.
      apply nres_bind. apply nres_ctx. apply (gnode_inv2 F rhoK dt G a x ls pl0 _ Hna (conj Hbl (conj HJ Hx))). intros ls1 pl1 HI1 _.
      apply nres_bind. apply nres_ctx. apply (gnode_inv2 F rhoK dt G b y ls1 pl1 _ Hnb HI1). intros ls2 pl2 HI2 _.
      apply (edge_attrs_both F rhoK dt x y dbg attrs kvs G G' ls2 pl2 Ha Hg HI2).
  Qed.
  Lemma eval_den_astmts F rhoK dt : forall stmts aopss G G' ls pl, Forall2 (den_astmt call rhoK) stmts aopss -> apply_attrs (concat aopss) G = Some G' ->
    Inv2 rhoK dt G ls pl -> nres (iterM (eval_lstmt' F) stmts ls pl) (fun _ ls' pl' => Inv2 rhoK dt G' ls' pl').
  Proof.
    intros stmts aopss G G' ls pl HF. revert G ls pl. induction HF as [|st ops stmts aopss Hd _ IH]; intros G ls pl Hg HI; cbn [iterM concat] in *.
    - cbn [ofold] in Hg. inversion Hg; subst. apply nres_ret. exact HI.
    - apply ofold_app_inv in Hg. destruct Hg as (Gm & G1 & G2). apply nres_bind.
      eapply nres_mono; [apply (eval_den_astmt F rhoK dt G Gm st ops ls pl Hd G1 HI)|]. intros u ls1 pl1 HI1. apply (IH Gm ls1 pl1 G2 HI1).
  Qed.

  (* any deferred statement: the store invariant is kept, the graph is only extended *)
  Lemma eval_any_stmt F rhoK dt G st ls pl : Inv2 rhoK dt G ls pl -> nres (eval_lstmt' F st ls pl) (fun _ ls' pl' => Inv2 rhoK dt G ls' pl').
  Proof.
    intros (Hb & HJ & Hx). destruct (eval_lstmt' F st ls pl) as [[[u ls'] pl']|e|x|] eqn:E; cbn [nres]; auto.
    destruct (jk_eval_lstmt call t fl rhoK dt F st _ _ _ _ _ Hb HJ E) as [Hb' HJ']. split; [exact Hb'|]. split; [exact HJ'|].
    destruct (fr_eval_lstmt t fl call Hcall eq (@eq_refl _) (@eq_trans _) F st _ _ _ _ _ E) as (Hg & _). eapply graph_ext_trans; eauto.
  Qed.

  (* ================= doomed states ================= *)
  Definition Kconf (rhoK : list value) (ls : lstate) : Prop :=
    exists E_pre post_e A_pre st post_a eops aopss G0 g1 G,
      l_edges ls = E_pre ++ post_e /\ l_attrs ls = A_pre ++ st :: post_a /\
      Forall2 (den_edge call rhoK) E_pre eops /\ Forall2 (den_astmt call rhoK) A_pre aopss /\
      graph_ext G0 (l_graph ls) /\ apply_edges eops G0 = Some g1 /\ apply_attrs (concat aopss) g1 = Some G /\ bad_stmt_g rhoK G st.
  Definition Kstmt (rhoK : list value) (ls : lstate) : Prop :=
    exists st, (In st (l_edges ls) \/ In st (l_attrs ls) \/ In st (l_prints ls)) /\ bad_stmt rhoK st.
  Definition Kind (rhoK : list value) (dt : option (nat * lvalue)) (ls : lstate) : Prop :=
    dt <> None \/ Kstmt rhoK ls \/ Kconf rhoK ls.
  Definition Doomed (ls : lstate) : Prop := exists rhoK dt, Jst rhoK dt (l_store ls) /\ Kind rhoK dt ls.

  Lemma prefix_in {A} (l l' : list A) x : prefix l l' -> In x l -> In x l'.
  Proof. intros [r ->] H. apply in_or_app. left. exact H. Qed.

  Lemma Kind_step rhoK dt ls ls' : Kind rhoK dt ls -> FrP (@prefix lstmt) ls ls' -> Kind rhoK dt ls'.
  Proof.
    intros HK (Hg & He & Ha & Hp). destruct HK as [Hd|[(st & Hin & Hbad)|HC]]; [left; exact Hd|right; left|right; right].
    - exists st. split; [|exact Hbad]. destruct Hin as [H|[H|H]]; [left|right; left|right; right]; eapply prefix_in; eauto.
    - destruct HC as (E_pre & post_e & A_pre & st & post_a & eops & aopss & G0 & g1 & G & H1 & H2 & H3 & H4 & H5 & H6 & H7 & H8).
      destruct He as [re Ee]. destruct Ha as [ra Ea]. exists E_pre, (post_e ++ re), A_pre, st, (post_a ++ ra), eops, aopss, G0, g1, G.
      split; [rewrite Ee, H1, app_assoc; reflexivity|]. split; [rewrite Ea, H2, <- app_assoc; reflexivity|].
      split; [exact H3|]. split; [exact H4|]. split; [eapply graph_ext_trans; eauto|]. auto.
  Qed.

  Definition dpres {A} (m : M lstate A) : Prop :=
    forall ls pl, Doomed ls -> nob pl -> nres (m ls pl) (fun _ ls' pl' => nob pl' /\ Doomed ls').
  Lemma dpres_of {A} (m : M lstate A) : (forall rhoK dt, jok rhoK dt m) -> fr_ok (@prefix lstmt) m -> dpres m.
  Proof.
    intros Hj Hf ls pl (rhoK & dt & HJ & HK) Hb. destruct (m ls pl) as [[[a ls'] pl']|e|x|] eqn:E; cbn [nres]; auto.
    destruct (Hj rhoK dt _ _ _ _ _ Hb HJ E) as [Hb' HJ']. split; [exact Hb'|]. exists rhoK, dt. split; [exact HJ'|].
    eapply Kind_step; [exact HK|]. eapply Hf; eauto.
  Qed.
  Lemma dpres_bind {A B} (m : M lstate A) (f : A -> M lstate B) : dpres m -> (forall a, dpres (f a)) -> dpres (bind m f).
  Proof. intros Hm Hf ls pl HD Hb. apply nres_bind. eapply nres_mono; [apply (Hm ls pl HD Hb)|]. intros a ls1 pl1 [Hb1 HD1]. apply (Hf a ls1 pl1 HD1 Hb1). Qed.
  Lemma dpres_ret {A} (a : A) : dpres (ret a).
  Proof. intros ls pl HD Hb. apply nres_ret. auto. Qed.
  Lemma dpres_ctx {A} c (m : M lstate A) : dpres m -> dpres (ctx_wrap c m).
  Proof. intros Hm ls pl HD Hb. apply nres_ctx. apply (Hm ls pl HD Hb). Qed.
  Lemma dpres_iterM {X} (f : X -> M lstate unit) l : (forall x, dpres (f x)) -> dpres (iterM f l).
  Proof. intros H. induction l as [|x l IH]; cbn [iterM]; [apply dpres_ret|]. apply dpres_bind; [apply H|intros _; exact IH]. Qed.

  (* ================= the evaluation phase of a doomed state cannot succeed ================= *)
  Definition JI (rhoK : list value) (dt : option (nat * lvalue)) (s : lstate) (p : polls) : Prop := nob p /\ Jst rhoK dt (l_store s).
  Lemma jok_JI {A} rhoK dt (m : M lstate A) s p : jok rhoK dt m -> JI rhoK dt s p -> nres (m s p) (fun _ s' p' => JI rhoK dt s' p').
  Proof.
    intros Hm [Hb HJ]. destruct (m s p) as [[[a s'] p']|e|x|] eqn:E; cbn [nres]; auto. apply (Hm _ _ _ _ _ Hb HJ E).
  Qed.
  Lemma stmts_JI F rhoK dt l s p : JI rhoK dt s p -> nres (iterM (eval_lstmt' F) l s p) (fun _ s' p' => JI rhoK dt s' p').
  Proof. intros HI. apply (nres_iter (JI rhoK dt)); [|exact HI]. intros st _ s0 p0 HI0. apply jok_JI; [apply jk_eval_lstmt|exact HI0]. Qed.
  Lemma stmts_bad F rhoK dt l st s p : In st l -> bad_stmt rhoK st -> JI rhoK dt s p -> nok (iterM (eval_lstmt' F) l s p).
  Proof.
    intros Hin Hbad HI. apply (nok_iter (JI rhoK dt) _ l st Hin); [| |exact HI].
    - intros y s0 p0 HI0. apply jok_JI; [apply jk_eval_lstmt|exact HI0].
    - intros s0 p0 [Hb0 HJ0]. apply Hbad; [eapply Jst_sbk; eauto|exact Hb0].
  Qed.

  Lemma doomed_thunk_forced F rhoK loc lv s p : Jst rhoK (Some (loc, lv)) (l_store s) -> nob p -> nok (force_thunk t fl call F (N.of_nat loc) s p).
  Proof.
    intros [Hs (Hk & Hbad & dbg & Hn)] Hb. destruct F as [|F]; [exact I|]. cbn [force_thunk]. apply nres_get. rewrite Nnat.Nat2N.id, Hn.
    apply nres_ctx. cbn [th_state th_dbg]. apply nres_bind. rewrite store_set_state_eq. cbn [nres]. apply nok_bind.
    apply Hbad; [|exact Hb]. cbn [set_store l_store]. rewrite Nnat.Nat2N.id. apply sbk_update; assumption.
  Qed.

  Theorem evaluate_doomed F ls pl : Doomed ls -> nob pl -> nok (evaluate_phase t fl call F ls pl).
  Proof.
    intros (rhoK & dt & HJ & HK) Hb. unfold evaluate_phase. apply nres_get. assert (HI : JI rhoK dt ls pl) by (split; assumption).
    destruct HK as [Hd|[(st & Hin & Hbad)|HC]].
    - (* a doomed thunk: reached by evaluate_all *)
      destruct dt as [[loc lv]|]; [|congruence].
      apply nres_bind. eapply nres_mono; [apply (stmts_JI F rhoK _ (l_edges ls) ls pl HI)|]. intros u1 ls1 pl1 HI1.
      apply nres_bind. eapply nres_mono; [apply (stmts_JI F rhoK _ (l_attrs ls) ls1 pl1 HI1)|]. intros u2 ls2 pl2 HI2.
      apply nres_bind. eapply nres_mono; [apply (stmts_JI F rhoK _ (l_prints ls) ls2 pl2 HI2)|]. intros u3 ls3 pl3 HI3.
      apply nok_bind. unfold store_evaluate_all. apply nres_get.
      assert (Hlen : (loc < length (l_store ls3))%nat).
      { destruct HI3 as [_ [_ (_ & _ & dbg & Hn)]]. apply nth_error_Some. congruence. }
      apply (nok_iter (JI rhoK (Some (loc, lv))) _ _ (N.of_nat loc)); [| | |exact HI3].
      + apply in_map. apply in_seq. lia.
      + intros i s0 p0 HI0. apply jok_JI; [|exact HI0]. apply jk_bind; [apply jk_force_thunk|intros v; apply jk_ret].
      + intros s0 p0 [Hb0 HJ0]. apply nok_bind. apply (doomed_thunk_forced F rhoK loc lv s0 p0 HJ0 Hb0).
    - (* a statement that cannot be evaluated, in one of the three lists *)
      destruct Hin as [Hin|[Hin|Hin]].
      + apply nok_bind. apply (stmts_bad F rhoK dt _ st ls pl Hin Hbad HI).
      + apply nres_bind. eapply nres_mono; [apply (stmts_JI F rhoK _ (l_edges ls) ls pl HI)|]. intros u1 ls1 pl1 HI1.
        apply nok_bind. apply (stmts_bad F rhoK dt _ st ls1 pl1 Hin Hbad HI1).
      + apply nres_bind. eapply nres_mono; [apply (stmts_JI F rhoK _ (l_edges ls) ls pl HI)|]. intros u1 ls1 pl1 HI1.
        apply nres_bind. eapply nres_mono; [apply (stmts_JI F rhoK _ (l_attrs ls) ls1 pl1 HI1)|]. intros u2 ls2 pl2 HI2.
        apply nok_bind. apply (stmts_bad F rhoK dt _ st ls2 pl2 Hin Hbad HI2).
    - (* an attribute that conflicts with the strict graph *)
      destruct HC as (E_pre & post_e & A_pre & st & post_a & eops & aopss & G0 & g1 & G & H1 & H2 & H3 & H4 & H5 & H6 & H7 & H8).
      rewrite H1, H2. assert (HI0 : Inv2 rhoK dt G0 ls pl) by (split; [exact Hb|split; assumption]).
      apply nres_bind. eapply nres_eq; [apply iterM_app|]. apply nres_bind.
      eapply nres_mono; [apply (eval_den_edges F rhoK dt E_pre eops G0 g1 ls pl H3 H6 HI0)|]. intros u1 ls1 pl1 HI1.
      eapply nres_mono; [apply (nres_iter (Inv2 rhoK dt g1) (eval_lstmt' F) post_e); [|exact HI1]|].
      { intros y _ s0 p0 HIy. apply eval_any_stmt, HIy. }
      intros u2 ls2 pl2 HI2. apply nok_bind. eapply nres_eq; [apply iterM_app|]. apply nres_bind.
      eapply nres_mono; [apply (eval_den_astmts F rhoK dt A_pre aopss g1 G ls2 pl2 H4 H7 HI2)|]. intros u3 ls3 pl3 (Hb3 & HJ3 & Hg3).
      cbn [iterM]. apply nok_bind. apply H8; [eapply Jst_sbk; eauto|exact Hg3|exact Hb3].
  Qed.
End Eval.
