(* Proofs/ScopedLink.v — C04: the STATEFUL forcing of a scoped-variable cell in Model/Lazy.v
   (`force_scoped` = `force_pairs` over `eval_lv`, which polls, forces thunks and may fail) computes
   the map that the pure stand-in `force_pairs (pure_ev node_of)` / `build` of Proofs/Scoped.v
   describes, the state being threaded through the evaluations of the scope expressions. *)
From TSG Require Import Model.Strict Model.Lazy Proofs.BaseFacts Proofs.MonadFacts Proofs.Scoped.

(* the node a resolved scope stands for *)
Definition syn_node (lv : lvalue) : N := match lv with LValue (VSyn n) => n | _ => 0 end.

(* the collected definitions with every scope expression replaced by the node it evaluated to *)
Fixpoint resolved (ps : list (lvalue * lvalue * stmt_ctx)) (ns : list N) : list (lvalue * lvalue * stmt_ctx) :=
  match ps, ns with
  | q :: ps', n :: ns' => (LValue (VSyn n), snd (fst q), snd q) :: resolved ps' ns'
  | _, _ => []
  end.

(* the scope expressions of ps evaluate, one after the other and threading the state, to the nodes ns *)
Inductive scopes_run (ev : lvalue -> M lstate N)
  : list (lvalue * lvalue * stmt_ctx) -> lstate -> polls -> list N -> lstate -> polls -> Prop :=
| SR_nil s p : scopes_run ev [] s p [] s p
| SR_cons sc v d ps s p n s1 p1 ns s2 p2 :
    ev sc s p = Ok (n, s1, p1) -> scopes_run ev ps s1 p1 ns s2 p2 ->
    scopes_run ev ((sc, v, d) :: ps) s p (n :: ns) s2 p2.

Lemma scopes_run_length ev ps s p ns s' p' : scopes_run ev ps s p ns s' p' -> length ns = length ps.
Proof. induction 1; cbn [length]; congruence. Qed.

Lemma resolved_nodes : forall ps ns, length ns = length ps ->
  map (fun q : lvalue * lvalue * stmt_ctx => syn_node (fst (fst q))) (resolved ps ns) = ns.
Proof.
  induction ps as [|q ps IH]; intros [|n ns] H; cbn [length] in H; try discriminate; [reflexivity|].
  cbn [resolved map fst syn_node]. rewrite IH by lia. reflexivity.
Qed.

Lemma resolved_first_some : forall ps ns n, length ns = length ps ->
  first_some (fun q : lvalue * lvalue * stmt_ctx => if N.eqb n (syn_node (fst (fst q))) then Some (snd (fst q)) else None) (resolved ps ns) =
  first_some (fun qk : (lvalue * lvalue * stmt_ctx) * N => if N.eqb n (snd qk) then Some (snd (fst (fst qk))) else None) (combine ps ns).
Proof.
  induction ps as [|q ps IH]; intros [|k ns] n H; cbn [length] in H; try discriminate; [reflexivity|].
  cbn [resolved combine first_some fst snd syn_node]. destruct (N.eqb n k); [reflexivity|]. apply IH. lia.
Qed.

(* values and dbgs carry the same keys (one direction suffices to exclude the `unreachable` panic) *)
Definition keys_inv (values : list (N * lvalue)) (dbgs : list (N * stmt_ctx)) : Prop :=
  forall n, nmap_get values n <> None -> dbg_get dbgs n <> None.
Lemma keys_inv_nil : keys_inv [] [].
Proof. intros n H. exfalso. apply H. reflexivity. Qed.
Lemma keys_inv_snoc values dbgs k v d :
  keys_inv values dbgs -> keys_inv (values ++ [(k, v)]) (dbgs ++ [(k, d)]).
Proof.
  intros Hk n Hn. rewrite nmap_get_snoc in Hn. rewrite dbg_get_snoc.
  destruct (nmap_get values n) eqn:E.
  - specialize (Hk n). rewrite E in Hk. destruct (dbg_get dbgs n); [discriminate|]. exfalso. apply Hk; [discriminate|reflexivity].
  - destruct (dbg_get dbgs n); [discriminate|]. destruct (N.eqb n k); [discriminate|contradiction].
Qed.

(* `build` that also returns the debug table (to continue after a prefix) *)
Fixpoint build2 (node_of : lvalue -> N) (ps : list (lvalue * lvalue * stmt_ctx)) (values : list (N * lvalue)) (dbgs : list (N * stmt_ctx))
  : (list (N * lvalue) * list (N * stmt_ctx)) + (stmt_ctx * stmt_ctx) :=
  match ps with
  | [] => inl (values, dbgs)
  | (sc, v, dbg) :: ps' =>
      match nmap_get values (node_of sc), dbg_get dbgs (node_of sc) with
      | Some _, Some prev => inr (prev, dbg)
      | Some _, None => inl ([], [])
      | None, _ => build2 node_of ps' (values ++ [(node_of sc, v)]) (dbgs ++ [(node_of sc, dbg)])
      end
  end.
Lemma build2_build node_of ps : forall values dbgs,
  build node_of ps values dbgs = match build2 node_of ps values dbgs with inl (m, _) => inl m | inr x => inr x end.
Proof.
  induction ps as [|[[sc v] dbg] ps IH]; intros values dbgs; cbn [build build2]; [reflexivity|].
  destruct (nmap_get values (node_of sc)); [destruct (dbg_get dbgs (node_of sc)); reflexivity|apply IH].
Qed.
Lemma build2_keys node_of ps : forall values dbgs m d,
  keys_inv values dbgs -> build2 node_of ps values dbgs = inl (m, d) -> keys_inv m d.
Proof.
  induction ps as [|[[sc v] dbg] ps IH]; intros values dbgs m d Hk H; cbn [build2] in H.
  - inversion H; subst. exact Hk.
  - destruct (nmap_get values (node_of sc)) eqn:E1.
    + destruct (dbg_get dbgs (node_of sc)) eqn:E2; [discriminate|]. exfalso. apply (Hk (node_of sc)); congruence.
    + eapply IH; [|exact H]. apply keys_inv_snoc. exact Hk.
Qed.

Section Link.
  Variable ev : lvalue -> M lstate N.

  (* THE LINK: when the scope expressions evaluate (threading the state), the stateful loop is the
     pure loop on the resolved definitions, run in the final state *)
  Lemma force_pairs_refines ps s p ns s' p' : scopes_run ev ps s p ns s' p' ->
    forall values dbgs,
      force_pairs ev ps values dbgs s p = force_pairs (pure_ev syn_node) (resolved ps ns) values dbgs s' p'.
  Proof.
    induction 1 as [s p|sc v d ps s p n s1 p1 ns s2 p2 Hev Hrun IH]; intros values dbgs; [reflexivity|].
    cbn [force_pairs resolved fst snd]. unfold bind, ctx_wrap, pure_ev, ret. rewrite Hev. cbn [syn_node].
    destruct (nmap_get values n); [destruct (dbg_get dbgs n); reflexivity|]. apply IH.
  Qed.

  (* a prefix whose scopes evaluate: either a duplicate inside the prefix ends the loop, or the loop
     continues behind the prefix with the tables `build2` gives *)
  Lemma force_pairs_prefix ps1 s p ns s1 p1 : scopes_run ev ps1 s p ns s1 p1 ->
    forall ps2 values dbgs, keys_inv values dbgs ->
      force_pairs ev (ps1 ++ ps2) values dbgs s p =
      match build2 syn_node (resolved ps1 ns) values dbgs with
      | inl (values', dbgs') => force_pairs ev ps2 values' dbgs' s1 p1
      | inr (prev, dbg) => Err (EInContext (CtxStmts [prev; dbg]) EDuplicateVariable)
      end.
  Proof.
    induction 1 as [s p|sc v d ps s p n s1 p1 ns s2 p2 Hev Hrun IH]; intros ps2 values dbgs Hk; [reflexivity|].
    cbn [app force_pairs resolved build2 fst snd syn_node]. unfold bind at 1. unfold ctx_wrap. rewrite Hev.
    destruct (nmap_get values n) eqn:E1.
    - destruct (dbg_get dbgs n) eqn:E2; [reflexivity|]. exfalso. apply (Hk n); congruence.
    - apply IH. apply keys_inv_snoc. exact Hk.
  Qed.

  (* scope expressions whose RESULT is a function of the expression (the state may change: polls,
     thunks forced on the way): the stateful loop computes what `build node_of` says — the statement
     of Props/C04.v lazy_force_spec with the pure stand-in replaced by any such evaluator *)
  Variable node_of : lvalue -> N.
  Notation nodes_of ps := (map (fun q : lvalue * lvalue * stmt_ctx => node_of (fst (fst q))) ps).

  Lemma build_resolved ps : forall values dbgs,
    build syn_node (resolved ps (nodes_of ps)) values dbgs = build node_of ps values dbgs.
  Proof.
    induction ps as [|[[sc v] d] ps IH]; intros values dbgs; cbn [map resolved build fst snd syn_node]; [reflexivity|].
    destruct (nmap_get values (node_of sc)); [reflexivity|apply IH].
  Qed.

  Lemma scopes_run_total ps :
    (forall q, In q ps -> forall s p, exists s' p', ev (fst (fst q)) s p = Ok (node_of (fst (fst q)), s', p')) ->
    forall s p, exists s' p', scopes_run ev ps s p (nodes_of ps) s' p'.
  Proof.
    induction ps as [|[[sc v] d] ps IH]; intros H s p.
    - exists s, p. constructor.
    - destruct (H (sc, v, d) (or_introl eq_refl) s p) as (s1 & p1 & E). cbn [fst] in E.
      destruct (IH (fun q Hq => H q (or_intror Hq)) s1 p1) as (s2 & p2 & R).
      exists s2, p2. cbn [map fst]. econstructor; eauto.
  Qed.

  Lemma force_pairs_stateful_spec ps :
    (forall q, In q ps -> forall s p, exists s' p', ev (fst (fst q)) s p = Ok (node_of (fst (fst q)), s', p')) ->
    forall s p, exists s' p',
      scopes_run ev ps s p (nodes_of ps) s' p' /\
      force_pairs ev ps [] [] s p =
      match build node_of ps [] [] with
      | inl m => Ok (m, s', p')
      | inr (prev, dbg) => Err (EInContext (CtxStmts [prev; dbg]) EDuplicateVariable)
      end.
  Proof.
    intros H s p. destruct (scopes_run_total ps H s p) as (s' & p' & R). exists s', p'. split; [exact R|].
    rewrite (force_pairs_refines _ _ _ _ _ _ R), <- build_resolved.
    apply force_pairs_spec. exact keys_inv_nil.
  Qed.
End Link.

Lemma bind_ok_at {S A B} (m : M S A) (f : A -> M S B) s p a s1 p1 :
  m s p = Ok (a, s1, p1) -> bind m f s p = f a s1 p1.
Proof. intros H. unfold bind. rewrite H. reflexivity. Qed.
Lemma ctx_wrap_ok_at {S A} c (m : M S A) s p r : m s p = Ok r -> ctx_wrap c m s p = Ok r.
Proof. intros H. unfold ctx_wrap. rewrite H. reflexivity. Qed.

(* ---------------- the interpreter's functions ---------------- *)
Section Interp.
  Variables (t : tree) (fl : file) (call : ident -> graph -> list value -> res (value * graph)).

  (* how force_scoped evaluates a scope expression at fuel S fuel *)
  Definition scope_ev (fuel : nat) (scope : lvalue) : M lstate N :=
    sv <- eval_lv t fl call fuel scope ;; lift (as_syn sv).

  Lemma force_scoped_unfold fuel name pairs :
    force_scoped t fl call (S fuel) name (SVUnforced pairs) = force_pairs (scope_ev fuel) pairs [] [].
  Proof. reflexivity. Qed.

  Lemma force_scoped_spec fuel name pairs s p ns s' p' :
    scopes_run (scope_ev fuel) pairs s p ns s' p' ->
    force_scoped t fl call (S fuel) name (SVUnforced pairs) s p =
    match build syn_node (resolved pairs ns) [] [] with
    | inl m => Ok (m, s', p')
    | inr (prev, dbg) => Err (EInContext (CtxStmts [prev; dbg]) EDuplicateVariable)
    end.
  Proof.
    intros H. rewrite force_scoped_unfold, (force_pairs_refines _ _ _ _ _ _ _ H).
    apply force_pairs_spec. exact keys_inv_nil.
  Qed.

  Lemma force_scoped_ok_iff fuel name pairs s p ns s' p' :
    scopes_run (scope_ev fuel) pairs s p ns s' p' ->
    ((exists m, force_scoped t fl call (S fuel) name (SVUnforced pairs) s p = Ok (m, s', p')) <-> NoDup ns).
  Proof.
    intros H. rewrite (force_scoped_spec _ _ _ _ _ _ _ _ H).
    pose proof (build_ok_iff syn_node (resolved pairs ns) [] []) as B.
    rewrite (resolved_nodes pairs ns (scopes_run_length _ _ _ _ _ _ _ H)) in B.
    assert (K : same_keys [] []) by (intros n; split; reflexivity). specialize (B K).
    split.
    - intros [m Hm]. apply B. destruct (build syn_node (resolved pairs ns) [] []) as [m'|[prev dbg]]; [eauto|discriminate].
    - intros Hnd. destruct B as [_ B]. destruct B as [m Hm]; [split; [exact Hnd|intros; reflexivity]|].
      exists m. rewrite Hm. reflexivity.
  Qed.

  Lemma force_scoped_lookup fuel name pairs s p ns s' p' m n :
    scopes_run (scope_ev fuel) pairs s p ns s' p' ->
    force_scoped t fl call (S fuel) name (SVUnforced pairs) s p = Ok (m, s', p') ->
    nmap_get m n =
    first_some (fun qk : (lvalue * lvalue * stmt_ctx) * N => if N.eqb n (snd qk) then Some (snd (fst (fst qk))) else None) (combine pairs ns).
  Proof.
    intros H Hf. rewrite (force_scoped_spec _ _ _ _ _ _ _ _ H) in Hf.
    destruct (build syn_node (resolved pairs ns) [] []) as [m'|[prev dbg]] eqn:B; [|discriminate].
    inversion Hf; subst m'.
    rewrite (build_lookup syn_node _ [] [] m n B keys_inv_nil). cbn [nmap_get].
    apply resolved_first_some. exact (scopes_run_length _ _ _ _ _ _ _ H).
  Qed.

  (* a duplicate among the first definitions ends the forcing; later scope expressions are not evaluated *)
  Lemma force_scoped_dup_prefix fuel name ps1 ps2 s p ns s1 p1 prev dbg :
    scopes_run (scope_ev fuel) ps1 s p ns s1 p1 ->
    build syn_node (resolved ps1 ns) [] [] = inr (prev, dbg) ->
    force_scoped t fl call (S fuel) name (SVUnforced (ps1 ++ ps2)) s p =
    Err (EInContext (CtxStmts [prev; dbg]) EDuplicateVariable).
  Proof.
    intros H B. rewrite force_scoped_unfold, (force_pairs_prefix _ _ _ _ _ _ _ H ps2 [] [] keys_inv_nil).
    rewrite build2_build in B. destruct (build2 syn_node (resolved ps1 ns) [] []) as [[m d]|[x y]]; [discriminate|].
    inversion B; subst. reflexivity.
  Qed.

  (* the first scope expression that does not evaluate, no duplicate before it: its failure surfaces,
     an error wrapped in the contexts of that definition *)
  Lemma force_scoped_scope_fails fuel name ps1 sc v d ps2 s p ns s1 p1 m :
    scopes_run (scope_ev fuel) ps1 s p ns s1 p1 ->
    build syn_node (resolved ps1 ns) [] [] = inl m ->
    match scope_ev fuel sc s1 p1 with
    | Err e => force_scoped t fl call (S fuel) name (SVUnforced (ps1 ++ (sc, v, d) :: ps2)) s p =
               Err (add_context (CtxStmts [d]) (add_context CtxOther e))
    | Panic x => force_scoped t fl call (S fuel) name (SVUnforced (ps1 ++ (sc, v, d) :: ps2)) s p = Panic x
    | OutOfFuel => force_scoped t fl call (S fuel) name (SVUnforced (ps1 ++ (sc, v, d) :: ps2)) s p = OutOfFuel
    | Ok _ => True
    end.
  Proof.
    intros H B. destruct (scope_ev fuel sc s1 p1) as [[[n s2] p2]|e|x|] eqn:E; [exact I| | |];
      rewrite force_scoped_unfold, (force_pairs_prefix _ _ _ _ _ _ _ H _ [] [] keys_inv_nil);
      rewrite build2_build in B; destruct (build2 syn_node (resolved ps1 ns) [] []) as [[m' d']|[x' y']]; try discriminate;
      cbn [force_pairs]; unfold bind, ctx_wrap; rewrite E; reflexivity.
  Qed.

  (* ---------------- the lazy LOOKUP rule: eval_lv on `scope.name` ---------------- *)
  Definition with_cell (s : lstate) (name : ident) (c : scoped_values) : lstate :=
    {| l_graph := l_graph s; l_locals := l_locals s; l_store := l_store s; l_scoped := alist_set name c (l_scoped s);
       l_edges := l_edges s; l_attrs := l_attrs s; l_prints := l_prints s; l_params := l_params s; l_prev := l_prev s |}.

  (* the value the forced map gives for node n: own entry, else — only for inherited names — the
     nearest ancestor that has one *)
  Definition lazy_lookup (name : ident) (m : list (N * lvalue)) (n : N) : option lvalue :=
    match nmap_get m n with
    | Some v => Some v
    | None => if linherited fl name then
                first_some (nmap_get m)
                  (ancestors t (S (length (t_nodes t))) (match node_at t n with Some nd => tn_parent nd | None => None end))
              else None
    end.

  Lemma cell_set_ok name c s p : cell_set name c s p = Ok (tt, with_cell s name c, p).
  Proof. reflexivity. Qed.
  Lemma cell_get_ok name s p : cell_get name s p = Ok (alist_get name (l_scoped s), s, p).
  Proof. reflexivity. Qed.

  Lemma eval_lv_scoped_unfold fuel scope name :
    eval_lv t fl call (S fuel) (LScoped scope name) =
    (lpoll L_eval_value ;;;
     n <- ctx_wrap CtxOther (scope_ev fuel scope) ;;
     c <- cell_get name ;;
     match c with
     | None => fail EUndefinedScopedVariable
     | Some cell =>
         cell_set name SVForcing ;;;
         map <- force_scoped t fl call fuel name cell ;;
         let result :=
           match nmap_get map n with
           | Some v => Some v
           | None => if linherited fl name then
                       lancestor_lookup t (S (length (t_nodes t))) map
                         (match node_at t n with Some nd => tn_parent nd | None => None end)
                     else None
           end in
         cell_set name (SVForced map) ;;;
         match result with
         | Some v => eval_lv t fl call fuel v
         | None => fail EUndefinedScopedVariable
         end
     end).
  Proof. reflexivity. Qed.

  Lemma eval_scoped_rule fuel scope name s p p0 n s1 p1 cell m s2 p2 :
    poll L_eval_value s p = Ok (tt, s, p0) ->
    scope_ev fuel scope s p0 = Ok (n, s1, p1) ->
    alist_get name (l_scoped s1) = Some cell ->
    force_scoped t fl call fuel name cell (with_cell s1 name SVForcing) p1 = Ok (m, s2, p2) ->
    eval_lv t fl call (S fuel) (LScoped scope name) s p =
    match lazy_lookup name m n with
    | Some v => eval_lv t fl call fuel v (with_cell s2 name (SVForced m)) p2
    | None => Err EUndefinedScopedVariable
    end.
  Proof.
    intros Hp Hs Hc Hf. rewrite eval_lv_scoped_unfold. unfold lpoll.
    rewrite (bind_ok_at _ _ _ _ _ _ _ Hp).
    rewrite (bind_ok_at _ _ _ _ _ _ _ (ctx_wrap_ok_at CtxOther _ _ _ _ Hs)).
    rewrite (bind_ok_at _ _ _ _ _ _ _ (cell_get_ok name s1 p1)). rewrite Hc.
    rewrite (bind_ok_at _ _ _ _ _ _ _ (cell_set_ok name SVForcing s1 p1)).
    rewrite (bind_ok_at _ _ _ _ _ _ _ Hf). cbv zeta.
    rewrite (bind_ok_at _ _ _ _ _ _ _ (cell_set_ok name (SVForced m) s2 p2)).
    unfold lazy_lookup. rewrite lancestor_lookup_nearest.
    destruct (nmap_get m n); [reflexivity|]. destruct (linherited fl name); [|reflexivity].
    destruct (first_some _ _); reflexivity.
  Qed.

  (* no definition was ever collected under that name *)
  Lemma eval_scoped_no_cell fuel scope name s p p0 n s1 p1 :
    poll L_eval_value s p = Ok (tt, s, p0) ->
    scope_ev fuel scope s p0 = Ok (n, s1, p1) ->
    alist_get name (l_scoped s1) = None ->
    eval_lv t fl call (S fuel) (LScoped scope name) s p = Err EUndefinedScopedVariable.
  Proof.
    intros Hp Hs Hc. rewrite eval_lv_scoped_unfold. unfold lpoll.
    rewrite (bind_ok_at _ _ _ _ _ _ _ Hp).
    rewrite (bind_ok_at _ _ _ _ _ _ _ (ctx_wrap_ok_at CtxOther _ _ _ _ Hs)).
    rewrite (bind_ok_at _ _ _ _ _ _ _ (cell_get_ok name s1 p1)). rewrite Hc. reflexivity.
  Qed.
End Interp.
