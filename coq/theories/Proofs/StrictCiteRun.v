(* Proofs/StrictCiteRun.v — C20, strict mode: the cited statement failed IN THIS RUN.

   Proofs/ErrorCtxValid.v (`located`, `fails_directly`) says: the error cites a statement s' of the block and SOME run of s'
   (some fuel, environment with this block's match and context, some state) returned the cause without statement context.
   Here the state is the one THE RUN was in: `fails_in_run c s p s' e1` adds a derivation of Proofs/SubRun.v `subrun`:
   the run of c from (s, p) executes `exec_stmt fuel' le s'` from (s0, p0) - every state on the way is the result of running
   the preceding part successfully - and THAT execution returned e1.  Same induction as strict_stmt_error_loc; the
   statements without nested blocks are taken from that theorem. *)
From TSG Require Import Model.Strict.
From TSG Require Import Proofs.BaseFacts Proofs.MonadFacts Proofs.StrictMeta Proofs.Captures Proofs.ErrorCtx Proofs.ErrorCtxValid Proofs.SubRun.

Section StrictRun.
  Context {rx : Type}.
  Variables (t : tree) (fl : file) (cfg : config) (glob : globals) (regexes : list rx)
            (find : rx -> str -> option (list (option (N * N))))
            (call : ident -> graph -> list value -> res (value * graph)).
  Hypothesis Hcall : call_errors_base call.
  Variables (z : loc) (n : N) (m : qmatch).

  Notation SM := (M sstate).
  Notation exec_stmt' := (exec_stmt t fl cfg glob regexes find call).
  Notation mk := (mk_ctx z n).

  (* the run of c from (s, p) executed statement s' (own location in the error context, this block's match) from a state
     (s0, p0) it reached, and that execution returned e1, an error without statement context *)
  Definition fails_in_run {A} (c : SM A) (s : sstate) (p : polls) (s' : stmt) (e1 : exec_error) : Prop :=
    exists fuel le s0 p0, exec_stmt' fuel le s' s0 p0 = Err e1 /\ unwrapped e1 /\
                          le_ctx le = mk (stmt_loc s') /\ le_match le = m /\
                          subrun (exec_stmt' fuel le s') s0 p0 c s p.
  Definition located_run {A} (L : list stmt) (c : SM A) (s : sstate) (p : polls) (e : exec_error) : Prop :=
    exists s' e0 e1, In s' L /\ e = EInContext (CtxStmts [mk (stmt_loc s')]) e0 /\
                     (e0 = e1 \/ e0 = EInContext CtxOther e1) /\ fails_in_run c s p s' e1.
  Definition errsR {A} (L : list stmt) (c : SM A) : Prop :=
    forall s p e, c s p = Err e -> cancelled e \/ unwrapped e \/ located_run L c s p e.

  (* forgetting the run gives the statements of Proofs/ErrorCtxValid.v *)
  Lemma fails_in_run_directly A (c : SM A) s p s' e1 :
    fails_in_run c s p s' e1 -> fails_directly t fl cfg glob regexes find call z n m s' e1.
  Proof. intros (fuel & le & s0 & p0 & H & Hu & Hc & Hm & _). exists fuel, le, s0, p0. auto. Qed.
  Lemma located_run_located A L (c : SM A) s p e : located_run L c s p e -> located t fl cfg glob regexes find call z n m L e.
  Proof.
    intros (s' & e0 & e1 & Hin & He & He0 & Hf). exists s', e0, e1. repeat split; try assumption. eapply fails_in_run_directly, Hf.
  Qed.

  (* moving along the run *)
  Lemma located_run_sub A B L (c1 : SM A) s1 p1 (c : SM B) s p e :
    (forall D (d : SM D) s' p', subrun d s' p' c1 s1 p1 -> subrun d s' p' c s p) ->
    located_run L c1 s1 p1 e -> located_run L c s p e.
  Proof.
    intros Hs (s' & e0 & e1 & Hin & He & He0 & fuel & le & s0 & p0 & H & Hu & Hc & Hm & Hr).
    exists s', e0, e1. repeat split; try assumption. exists fuel, le, s0, p0. repeat split; try assumption. apply Hs, Hr.
  Qed.
  Lemma located_run_mono A (L L' : list stmt) (c : SM A) s p e :
    (forall y, In y L -> In y L') -> located_run L c s p e -> located_run L' c s p e.
  Proof. intros Hi (s' & e0 & e1 & Hin & H). exists s', e0, e1. split; [apply Hi, Hin|exact H]. Qed.

  Lemma r_plain A L (c : SM A) : errs plain c -> errsR L c.
  Proof. intros H s p e He. destruct (H _ _ _ He) as [K|K]; [left; exact K|right; left; exact K]. Qed.
  Lemma r_mono A (L L' : list stmt) (c : SM A) : (forall y, In y L -> In y L') -> errsR L c -> errsR L' c.
  Proof.
    intros Hi H s p e He. destruct (H _ _ _ He) as [K|[K|K]]; [left; exact K|right; left; exact K|right; right]. eapply located_run_mono; eauto.
  Qed.
  Lemma r_ret A L (a : A) : errsR L (ret a). Proof. intros s p e H. discriminate. Qed.
  Lemma r_bind A B L (c : SM A) (f : A -> SM B) : errsR L c -> (forall a, errsR L (f a)) -> errsR L (bind c f).
  Proof.
    intros Hc Hf s p e H. apply bind_err in H as [H|(a & s1 & p1 & Hok & H)].
    - destruct (Hc _ _ _ H) as [K|[K|K]]; [left; exact K|right; left; exact K|right; right].
      eapply located_run_sub; [|exact K]. intros D d s' p' Hd. apply sr_bind_l, Hd.
    - destruct (Hf a _ _ _ H) as [K|[K|K]]; [left; exact K|right; left; exact K|right; right].
      eapply located_run_sub; [|exact K]. intros D d s' p' Hd. eapply sr_bind_r; [exact Hok|exact Hd].
  Qed.
  Lemma r_iterM A L (f : A -> SM unit) l : (forall x, In x l -> errsR L (f x)) -> errsR L (iterM f l).
  Proof.
    induction l as [|x l IH]; intros H; cbn [iterM]; [apply r_ret|]. apply r_bind; [apply H; left; reflexivity|intros _].
    apply IH. intros y Hy. apply H. right. exact Hy.
  Qed.
  Lemma r_mapM A B L (f : A -> SM B) l : (forall x, errsR L (f x)) -> errsR L (mapM f l).
  Proof.
    intros H. induction l as [|x l IH]; cbn [mapM]; [apply r_ret|]. apply r_bind; [apply H|intros y]. apply r_bind; [exact IH|intros ys; apply r_ret].
  Qed.

  Section Loops.
    Variable L : list stmt.
    Lemma r_scan_loop run_arm arms rs subject :
      (forall caps r body l, In (r, body, l) arms -> errsR L (run_arm caps body)) ->
      forall sfuel i, errsR L (scan_loop find run_arm arms rs subject sfuel i).
    Proof.
      intros Hrun. induction sfuel as [|sfuel IHs]; intros i; cbn [scan_loop]; [intros s p e H; discriminate|].
      destruct (N.ltb i (N.of_nat (length subject))); [|apply r_ret].
      apply r_bind; [apply r_plain, p_poll|intros _]. cbv zeta.
      destruct (arm_select find rs (skipn (N.to_nat i) subject)) as [|k|k caps]; [apply r_ret|apply r_plain, p_fail; exact I|].
      destruct (nth_error arms (N.to_nat k)) as [[[r body] l']|] eqn:En; [|intros s p e H; discriminate].
      apply r_bind; [apply r_plain, e_push_frame|intros _].
      apply r_bind; [eapply Hrun; eapply nth_error_In; eauto|intros _].
      apply r_bind; [apply r_plain, e_pop_frame|intros _]. apply IHs.
    Qed.
    Lemma r_if_loop test run_body :
      (forall c, errsR L (test c)) ->
      forall arms, (forall conds body l, In (conds, body, l) arms -> errsR L (run_body body)) ->
      errsR L (if_loop test run_body arms).
    Proof.
      intros Ht. induction arms as [|[[conds body] l'] arms IHa]; intros Hr; cbn [if_loop]; [apply r_ret|].
      apply r_bind; [apply r_mapM; intros c; apply Ht|intros bs].
      destruct (forallb (fun b => b) bs); [|apply IHa; intros; eapply Hr; right; eauto].
      apply r_bind; [apply r_plain, e_push_frame|intros _].
      apply r_bind; [eapply Hr; left; reflexivity|intros _]. apply r_plain, e_pop_frame.
    Qed.
  End Loops.

  (* what the two wrappers of a nested statement do to an error and to the run *)
  Definition wrap_ok (wrap : SM unit -> SM unit) : Prop :=
    (forall (c : SM unit) s p e', wrap c s p = Err e' -> exists e1, c s p = Err e1 /\ (e' = e1 \/ e' = add_context CtxOther e1)) /\
    (forall (c : SM unit) s p D (d : SM D) s' p', subrun d s' p' c s p -> subrun d s' p' (wrap c) s p).
  Lemma wrap_ok_id : wrap_ok (fun x => x).
  Proof. split; [intros c s p e' H; exists e'; auto|intros; assumption]. Qed.
  Lemma wrap_ok_other : wrap_ok (ctx_wrap CtxOther).
  Proof.
    split.
    - intros c s p e' H. apply ctx_wrap_err in H as (e1 & H & ->). exists e1. auto.
    - intros c s p D d s' p' H. apply sr_ctx, H.
  Qed.

  (* one statement of a block, run inside its own statement context *)
  Lemma nested_stmt_error_run (L : list stmt) (wrap : SM unit -> SM unit) fuel le st :
    wrap_ok wrap ->
    (forall y, In y (st :: stmt_subs st) -> In y L) ->
    le_ctx le = mk (stmt_loc st) -> le_match le = m ->
    errsR (stmt_subs st) (exec_stmt' fuel le st) ->
    forall s0 p0 e,
    ctx_wrap (CtxStmts [mk (stmt_loc st)]) (wrap (exec_stmt' fuel le st)) s0 p0 = Err e ->
    cancelled e \/ located_run L (ctx_wrap (CtxStmts [mk (stmt_loc st)]) (wrap (exec_stmt' fuel le st))) s0 p0 e.
  Proof.
    intros [Hw Hws] HL Hctx Hm IH s0 p0 e H. apply ctx_wrap_err in H as (ew & H & ->). apply Hw in H as (e1 & H & Hew).
    assert (Hsub : forall D (d : SM D) s' p', subrun d s' p' (exec_stmt' fuel le st) s0 p0 ->
                     subrun d s' p' (ctx_wrap (CtxStmts [mk (stmt_loc st)]) (wrap (exec_stmt' fuel le st))) s0 p0).
    { intros D d s' p' Hd. apply sr_ctx, Hws, Hd. }
    destruct (IH _ _ _ H) as [[l ->]|[Hu|Hloc]].
    - left. exists l. destruct Hew as [->| ->]; reflexivity.
    - right. exists st, ew, e1. split; [apply HL; left; reflexivity|]. split.
      + destruct Hew as [->| ->]; [apply unwrapped_add_stmts, Hu|]. rewrite unwrapped_add_other_eq by exact Hu. reflexivity.
      + split; [destruct Hew as [->| ->]; [left; reflexivity|right; apply unwrapped_add_other_eq, Hu]|].
        exists fuel, le, s0, p0. repeat split; try assumption. apply Hsub, sr_here.
    - right. pose proof Hloc as (s' & e0 & e2 & Hin & -> & He0 & Hf).
      assert (Eq : add_context (CtxStmts [mk (stmt_loc st)]) ew = EInContext (CtxStmts [mk (stmt_loc s')]) e0)
        by (destruct Hew as [->| ->]; reflexivity).
      rewrite Eq. eapply located_run_sub; [exact Hsub|]. eapply located_run_mono; [|exact Hloc]. intros y Hy. apply HL. right. exact Hy.
  Qed.

  Lemma located_nil A (c : SM A) s p e : ~ located_run [] c s p e.
  Proof. intros (s' & e0 & e1 & [] & _). Qed.

  Theorem strict_stmt_error_run : forall fuel le s, le_ctx le = mk (stmt_loc s) -> le_match le = m ->
    errsR (stmt_subs s) (exec_stmt' fuel le s).
  Proof.
    induction fuel as [|fuel IH]; intros le s Hctx Hm; [intros s0 p0 e H; discriminate|].
    (* statements without nested blocks: their errors are plain (strict_stmt_error_loc) *)
    assert (Hflat : stmt_subs s = [] -> errsR (stmt_subs s) (exec_stmt' (S fuel) le s)).
    { intros E s0 p0 e H.
      destruct (strict_stmt_error_loc t fl cfg glob regexes find call Hcall z n m (S fuel) le s Hctx Hm _ _ _ H) as [K|[K|(s' & e0 & e1 & Hin & _)]];
        [left; exact K|right; left; exact K|]. rewrite E in Hin. destruct Hin. }
    assert (Hblock : forall le' (wrap : SM unit -> SM unit) body, wrap_ok wrap ->
               le_ctx le' = le_ctx le -> le_match le' = m ->
               (forall st y, In st body -> In y (st :: stmt_subs st) -> In y (stmt_subs s)) ->
               errsR (stmt_subs s) (iterM (fun st => let c := ctx_update (le_ctx le') st in
                                     ctx_wrap (CtxStmts [c]) (wrap (exec_stmt' fuel (le_with_ctx le' c) st))) body)).
    { intros le' wrap body Hw El Em Hsub. apply r_iterM. intros st Hin s0 p0 e H. cbv zeta in H |- *.
      assert (Ec : ctx_update (le_ctx le') st = mk (stmt_loc st)) by (rewrite El, Hctx; reflexivity).
      rewrite Ec in H |- *.
      destruct (nested_stmt_error_run (stmt_subs s) wrap fuel (le_with_ctx le' (mk (stmt_loc st))) st Hw) with (s0 := s0) (p0 := p0) (e := e) as [Hc|Hl]; auto.
      - intros y Hy. eapply Hsub; eauto. }
    destruct s; try (apply Hflat; reflexivity); cbn [exec_stmt]; (apply r_bind; [apply r_plain, p_poll|intros _]).
    - (* scan *)
      apply r_bind; [apply r_plain, e_eval, Hcall|intros sv].
      apply r_bind; [apply r_plain, e_lift, base_as_str|intros subject].
      destruct (arm_table regexes arms) as [rs|]; [|intros s0 p0 e H; discriminate].
      apply r_scan_loop. intros caps r body l' Hin.
      apply (Hblock (le_with_caps le caps) (ctx_wrap CtxOther) body); [apply wrap_ok_other|reflexivity|exact Hm|].
      intros st y Hst Hy. eapply subs_scan; eauto.
    - (* if *)
      apply r_if_loop; [intros c; apply r_plain, e_test_cond, Hcall|].
      intros conds body l' Hin. apply (Hblock le (fun x => x) body); [apply wrap_ok_id|reflexivity|exact Hm|].
      intros st y Hst Hy. eapply subs_if; eauto.
    - (* for *)
      apply r_bind; [apply r_plain, e_eval, Hcall|intros lv].
      apply r_bind; [apply r_plain, e_lift, base_as_list|intros vals].
      apply r_bind; [apply r_plain, e_push_frame|intros _].
      apply r_bind; [|intros _; apply r_plain, e_pop_frame].
      apply r_iterM. intros v _. apply r_bind; [apply r_plain, e_clear_frame|intros _].
      apply r_bind; [apply r_plain, e_unscoped_add|intros _].
      apply (Hblock le (fun x => x) body); [apply wrap_ok_id|reflexivity|exact Hm|].
      intros st y Hst Hy. eapply subs_for; eauto.
  Qed.

  (* ---------------------------------------------------------------- one (stanza, match) block, explicitly *)
  (* the environment and the run of a top-level statement x of stanza st (Stanza::execute) *)
  Definition top_le (st : stanza) (x : stmt) : lenv :=
    le_with_ctx {| le_match := m; le_full := st_full_stanza_idx st; le_caps := [];
                   le_ctx := {| sc_stmt := (0, 0); sc_stanza := st_start st; sc_node := 0 |} |} (mk (stmt_loc x)).
  Definition top_stmt (fuel : nat) (st : stanza) (x : stmt) : SM unit :=
    ctx_wrap (CtxStmts [mk (stmt_loc x)]) (exec_stmt' fuel (top_le st x) x).

  Lemma exec_stanza_top fuel st rest :
    z = st_start st -> nodes_for_capture m (st_full_stanza_idx st) = n :: rest ->
    exec_stanza t fl cfg glob regexes find call fuel st m = (clear_frame ;;; iterM (top_stmt fuel st) (st_stmts st)).
  Proof.
    intros Ez Hn. unfold exec_stanza, top_stmt, top_le, mk_ctx. cbv zeta. rewrite Hn, <- Ez. reflexivity.
  Qed.

  (* the statements before x ran successfully from the state s1 in which the block started (after clear_frame) to (s2, p2);
     x, run from (s2, p2), returned e'; and e' is a cancellation, or x ITSELF failed from (s2, p2) (no statement context), or
     e' cites a statement nested in x that failed directly from a state reached by this run of x *)
  Theorem strict_stanza_error_run fuel st s p e rest :
    z = st_start st -> nodes_for_capture m (st_full_stanza_idx st) = n :: rest ->
    exec_stanza t fl cfg glob regexes find call fuel st m s p = Err e ->
    exists pre x post s1 p1 s2 p2 e',
      st_stmts st = pre ++ x :: post /\
      clear_frame s p = Ok (tt, s1, p1) /\
      iterM (top_stmt fuel st) pre s1 p1 = Ok (tt, s2, p2) /\
      exec_stmt' fuel (top_le st x) x s2 p2 = Err e' /\
      e = add_context (CtxStmts [mk (stmt_loc x)]) e' /\
      (cancelled e' \/ unwrapped e' \/ located_run (stmt_subs x) (exec_stmt' fuel (top_le st x) x) s2 p2 e').
  Proof.
    intros Ez Hn H. rewrite (exec_stanza_top fuel st rest Ez Hn) in H. apply bind_err in H as [H|([] & s1 & p1 & Hcl & H)].
    { unfold clear_frame in H. apply bind_err in H as [H|(a & s2 & p2 & _ & H)]; discriminate. }
    apply iterM_err_prefix in H as (pre & x & post & s2 & p2 & Est & Hpre & H).
    unfold top_stmt in H. apply ctx_wrap_err in H as (e' & H & ->).
    exists pre, x, post, s1, p1, s2, p2, e'. repeat split; try assumption.
    apply (strict_stmt_error_run fuel (top_le st x) x); [reflexivity|reflexivity|exact H].
  Qed.

  (* the same relative to the run of the block: the cited statement failed directly from a state reached by the run of
     the block from (s, p) *)
  Theorem strict_stanza_error_located_run fuel st s p e rest :
    z = st_start st -> nodes_for_capture m (st_full_stanza_idx st) = n :: rest ->
    exec_stanza t fl cfg glob regexes find call fuel st m s p = Err e ->
    cancelled e \/ located_run (stmts_all (st_stmts st)) (exec_stanza t fl cfg glob regexes find call fuel st m) s p e.
  Proof.
    intros Ez Hn H. destruct (strict_stanza_error_run fuel st s p e rest Ez Hn H) as (pre & x & post & s1 & p1 & s2 & p2 & e' & Est & Hcl & Hpre & Hx & -> & K).
    assert (Hin : In x (st_stmts st)) by (rewrite Est; apply in_or_app; right; left; reflexivity).
    assert (Hsub : forall D (d : SM D) s' p', subrun d s' p' (exec_stmt' fuel (top_le st x) x) s2 p2 ->
                     subrun d s' p' (exec_stanza t fl cfg glob regexes find call fuel st m) s p).
    { intros D d s' p' Hd. rewrite (exec_stanza_top fuel st rest Ez Hn). eapply sr_bind_r; [exact Hcl|]. rewrite Est.
      eapply subrun_iterM; [exact Hpre|]. unfold top_stmt. apply sr_ctx, Hd. }
    destruct K as [[l ->]|[Hu|Hloc]].
    - left. exists l. reflexivity.
    - right. exists x, e', e'. split; [eapply stmts_all_in; [exact Hin|left; reflexivity]|]. split; [apply unwrapped_add_stmts, Hu|].
      split; [left; reflexivity|]. exists fuel, (top_le st x), s2, p2. repeat split; try assumption. apply Hsub, sr_here.
    - right. pose proof Hloc as (s' & e0 & e1 & Hs' & -> & _). cbn [add_context].
      eapply located_run_sub; [exact Hsub|]. eapply located_run_mono; [|exact Hloc]. intros y Hy. eapply stmts_all_in; [exact Hin|right; exact Hy].
  Qed.
End StrictRun.

(* ---------------------------------------------------------------- the whole execution *)
(* The blocks before the failing one ran successfully from the start state (s, p) to (s1, p1); the failing block, run from
   (s1, p1), returned e; and e cites a statement of that block (any depth) which failed directly from a state reached by the
   run of the block from (s1, p1). *)
Theorem strict_file_error_run_lemma {rx : Type} t fl cfg glob (regexes : list rx) find call fuel sts ms s p e :
  call_errors_base call ->
  exec_file t fl cfg glob regexes find call fuel sts ms s p = Err e ->
  cancelled e \/
  exists B1 st m B2 s1 p1, blocks sts ms = B1 ++ (st, m) :: B2 /\
    iterM (fun b : stanza * qmatch => exec_stanza t fl cfg glob regexes find call fuel (fst b) (snd b)) B1 s p = Ok (tt, s1, p1) /\
    exec_stanza t fl cfg glob regexes find call fuel st m s1 p1 = Err e /\
    match nodes_for_capture m (st_full_stanza_idx st) with
    | n :: _ => located_run t fl cfg glob regexes find call (st_start st) n m (stmts_all (st_stmts st))
                            (exec_stanza t fl cfg glob regexes find call fuel st m) s1 p1 e
    | [] => False
    end.
Proof.
  intros Hcall H. rewrite strict_blocks_once in H. apply iterM_err_prefix in H as (B1 & [st m] & B2 & s1 & p1 & EB & Hpre & H). cbn [fst snd] in H.
  destruct (nodes_for_capture m (st_full_stanza_idx st)) as [|n rest] eqn:En.
  - exfalso. unfold exec_stanza in H. apply bind_err in H as [H|(u & s2 & p2 & _ & H)].
    + unfold clear_frame in H. apply bind_err in H as [H|(a & s3 & p3 & _ & H)]; discriminate.
    + apply iterM_err in H as (x & s'' & p'' & _ & H). cbv zeta in H. rewrite En in H. discriminate.
  - destruct (strict_stanza_error_located_run t fl cfg glob regexes find call Hcall (st_start st) n m fuel st s1 p1 e rest eq_refl En H) as [Hc|Hc]; [left; exact Hc|].
    right. exists B1, st, m, B2, s1, p1. rewrite En. auto.
Qed.
