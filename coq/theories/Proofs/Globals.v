(* Proofs/Globals.v — C16: File::check_globals against its declarative specification. *)
From TSG Require Import Model.Globals Proofs.BaseFacts.

(* ================= specification vocabulary ================= *)
Definition lookup := ident -> option value.
Definition is_vlist (v : value) : bool := match v with VList _ => true | _ => false end.

(* what is wrong with ONE declaration, given what the caller supplies (None = nothing) *)
Definition decl_status (L : lookup) (d : global) : option exec_error :=
  match L (gl_name d) with
  | None => match gl_default d with Some _ => None | None => Some EMissingGlobalVariable end
  | Some v => if is_list_quant (gl_quant d) && negb (is_vlist v) then Some EExpectedList else None
  end.

(* the first declaration, in file order, whose status is an error *)
Fixpoint first_violation (L : lookup) (ds : list global) : option exec_error :=
  match ds with
  | [] => None
  | d :: ds' => match decl_status L d with Some e => Some e | None => first_violation L ds' end
  end.

(* the default (as a string value) of the first declaration of name k *)
Fixpoint default_of (ds : list global) (k : ident) : option value :=
  match ds with
  | [] => None
  | d :: ds' => if str_eqb k (gl_name d) then option_map VStr (gl_default d) else default_of ds' k
  end.

(* supplied values win; defaults fill the gaps *)
Definition effective (L : lookup) (ds : list global) : lookup :=
  fun k => match L k with Some v => Some v | None => default_of ds k end.

(* ================= one declaration ================= *)
Lemma globals_get_cons f up k :
  globals_get (f :: up) k = match alist_get k f with Some v => Some v | None => globals_get up k end.
Proof. reflexivity. Qed.

Lemma is_vlist_as_list v : is_vlist v = true -> exists l, as_list v = Ok l.
Proof. destruct v; cbn; try discriminate. eauto. Qed.
Lemma not_vlist_as_list v : is_vlist v = false -> as_list v = Err EExpectedList.
Proof. destruct v; cbn; try discriminate; reflexivity. Qed.
Lemma is_vlist_iff v : is_vlist v = true <-> exists l, v = VList l.
Proof. destruct v; cbn; split; try discriminate; eauto; intros [l' Hl]; discriminate. Qed.

Lemma check_global_cases d f up :
  let g := f :: up in
  (globals_get g (gl_name d) = None /\ gl_default d = None /\
     check_global d g = Err EMissingGlobalVariable) \/
  (exists s, globals_get g (gl_name d) = None /\ gl_default d = Some s /\
     check_global d g = Ok ((f ++ [(gl_name d, VStr s)]) :: up)) \/
  (exists v, globals_get g (gl_name d) = Some v /\ is_list_quant (gl_quant d) = true /\ is_vlist v = false /\
     check_global d g = Err EExpectedList) \/
  (exists v, globals_get g (gl_name d) = Some v /\ (is_list_quant (gl_quant d) && negb (is_vlist v) = false) /\
     check_global d g = Ok g).
Proof.
  intros g. unfold check_global. destruct (globals_get g (gl_name d)) as [v|] eqn:Eg.
  - right; right. destruct (is_list_quant (gl_quant d)) eqn:Eq.
    + destruct (is_vlist v) eqn:Ev.
      * right. exists v. destruct (is_vlist_as_list v Ev) as [l Hl]. rewrite Hl, Ev. auto.
      * left. exists v. rewrite (not_vlist_as_list v Ev). auto.
    + right. exists v. auto.
  - destruct (gl_default d) as [s|] eqn:Ed.
    + right; left. exists s. split; [reflexivity|]. split; [reflexivity|].
      unfold g in *. rewrite globals_get_cons in Eg. unfold globals_add.
      destruct (alist_get (gl_name d) f); [discriminate|]. reflexivity.
    + left. auto.
Qed.

Lemma decl_status_ext L1 L2 d : L1 (gl_name d) = L2 (gl_name d) -> decl_status L1 d = decl_status L2 d.
Proof. unfold decl_status. intros ->. reflexivity. Qed.

Lemma first_violation_ext L1 L2 ds :
  (forall d, In d ds -> L1 (gl_name d) = L2 (gl_name d)) -> first_violation L1 ds = first_violation L2 ds.
Proof.
  induction ds as [|d ds IH]; intros H; cbn [first_violation]; [reflexivity|].
  rewrite (decl_status_ext L1 L2 d) by (apply H; left; reflexivity).
  rewrite IH by (intros d' Hd'; apply H; right; assumption). reflexivity.
Qed.

(* adding a default for name n does not change what other names evaluate to *)
Lemma globals_get_add_other f up n v k :
  k <> n -> globals_get ((f ++ [(n, v)]) :: up) k = globals_get (f :: up) k.
Proof.
  intros Hk. rewrite !globals_get_cons, alist_get_app. cbn [alist_get].
  destruct (str_eqb_spec k n) as [->|_]; [congruence|]. destruct (alist_get k f); reflexivity.
Qed.

(* ================= the loop: outcome ================= *)
Lemma check_globals_fv ds : forall f up, NoDup (map gl_name ds) ->
  match first_violation (globals_get (f :: up)) ds with
  | Some e => check_globals ds (f :: up) = Err e
  | None => exists g', check_globals ds (f :: up) = Ok g'
  end.
Proof.
  induction ds as [|d ds IH]; intros f up Hnd; cbn [first_violation check_globals].
  - eauto.
  - inversion Hnd as [|? ? Hnotin Hnd']; subst.
    unfold decl_status.
    destruct (check_global_cases d f up) as [(Hg & Hd & Hc) | [(s & Hg & Hd & Hc) | [(v & Hg & Hq & Hv & Hc) | (v & Hg & Hq & Hc)]]];
      rewrite Hg, ?Hd, Hc; cbn [obind].
    + reflexivity.
    + specialize (IH (f ++ [(gl_name d, VStr s)]) up Hnd').
      rewrite (first_violation_ext _ (globals_get (f :: up))) in IH; [exact IH|].
      intros d' Hd'. apply globals_get_add_other. intros E. apply Hnotin. rewrite <- E. apply in_map; assumption.
    + rewrite Hq, Hv. reflexivity.
    + rewrite Hq. exact (IH f up Hnd').
Qed.

(* outcomes without any assumption on the declarations: never a panic, never DuplicateVariable *)
Lemma check_globals_outcomes_lemma ds : forall f up,
  (exists g', check_globals ds (f :: up) = Ok g') \/
  check_globals ds (f :: up) = Err EMissingGlobalVariable \/
  check_globals ds (f :: up) = Err EExpectedList.
Proof.
  induction ds as [|d ds IH]; intros f up; cbn [check_globals]; [eauto|].
  destruct (check_global_cases d f up) as [(Hg & Hd & Hc) | [(s & Hg & Hd & Hc) | [(v & Hg & Hq & Hv & Hc) | (v & Hg & Hq & Hc)]]];
    rewrite Hc; cbn [obind]; auto.
Qed.

(* ================= the loop: the resulting chain ================= *)
(* the head frame afterwards: old entries, plus the default of every name that the whole input
   chain does not define (first declaration of that name); the tail is untouched *)
Lemma check_globals_frame ds : forall f up g', check_globals ds (f :: up) = Ok g' ->
  exists f', g' = f' :: up /\
    forall k, alist_get k f' =
      match alist_get k f with
      | Some v => Some v
      | None => match globals_get up k with Some _ => None | None => default_of ds k end
      end.
Proof.
  induction ds as [|d ds IH]; intros f up g'; cbn [check_globals default_of].
  - intros [= <-]. exists f. split; [reflexivity|]. intros k.
    destruct (alist_get k f); [reflexivity|]. destruct (globals_get up k); reflexivity.
  - destruct (check_global_cases d f up) as [(Hg & Hd & Hc) | [(s & Hg & Hd & Hc) | [(v & Hg & Hq & Hv & Hc) | (v & Hg & Hq & Hc)]]];
      rewrite Hc; cbn [obind]; try discriminate.
    + intros H. destruct (IH _ _ _ H) as (f' & -> & Hf'). exists f'. split; [reflexivity|].
      intros k. rewrite Hf', alist_get_app. cbn [alist_get]. rewrite Hd. cbn [option_map].
      rewrite globals_get_cons in Hg.
      destruct (alist_get k f) as [w|] eqn:Ek; [reflexivity|].
      destruct (str_eqb_spec k (gl_name d)) as [->|Hn].
      * rewrite Ek in Hg. rewrite Hg. reflexivity.
      * reflexivity.
    + intros H. destruct (IH _ _ _ H) as (f' & -> & Hf'). exists f'. split; [reflexivity|].
      intros k. rewrite Hf'. rewrite globals_get_cons in Hg.
      destruct (alist_get k f) as [w|] eqn:Ek; [reflexivity|].
      destruct (globals_get up k) as [w|] eqn:Eu; [reflexivity|].
      destruct (str_eqb_spec k (gl_name d)) as [->|Hn]; [|reflexivity].
      rewrite Ek, Eu in Hg. discriminate.
Qed.

Lemma check_globals_lookup ds f up g' : check_globals ds (f :: up) = Ok g' ->
  tl g' = up /\ forall k, globals_get g' k = effective (globals_get (f :: up)) ds k.
Proof.
  intros H. destruct (check_globals_frame _ _ _ _ H) as (f' & -> & Hf'). split; [reflexivity|].
  intros k. unfold effective. rewrite !globals_get_cons, Hf'.
  destruct (alist_get k f); [reflexivity|]. destruct (globals_get up k); [reflexivity|].
  destruct (default_of ds k); reflexivity.
Qed.

(* ================= first_violation, declaratively ================= *)
Lemma first_violation_some L ds e :
  first_violation L ds = Some e <->
  exists pre d post, ds = pre ++ d :: post /\ (forall d', In d' pre -> decl_status L d' = None) /\ decl_status L d = Some e.
Proof.
  induction ds as [|d0 ds IH]; cbn [first_violation].
  - split; [discriminate|]. intros (pre & d & post & E & _). destruct pre; discriminate.
  - destruct (decl_status L d0) as [e0|] eqn:E0.
    + split.
      * intros [= <-]. exists [], d0, ds. split; [reflexivity|]. split; [intros ? []|assumption].
      * intros (pre & d & post & E & Hpre & Hd). destruct pre as [|p pre]; cbn in E; inversion E; subst.
        -- congruence.
        -- rewrite (Hpre p) in E0 by (left; reflexivity). discriminate.
    + rewrite IH. split.
      * intros (pre & d & post & -> & Hpre & Hd). exists (d0 :: pre), d, post. split; [reflexivity|].
        split; [|assumption]. intros d' [<-|Hin]; auto.
      * intros (pre & d & post & E & Hpre & Hd). destruct pre as [|p pre]; cbn in E; inversion E; subst.
        -- congruence.
        -- exists pre, d, post. split; [reflexivity|]. split; [|assumption]. intros d' Hin. apply Hpre. right; assumption.
Qed.

Lemma first_violation_none L ds :
  first_violation L ds = None <-> forall d, In d ds -> decl_status L d = None.
Proof.
  induction ds as [|d0 ds IH]; cbn [first_violation].
  - split; [intros _ ? []|reflexivity].
  - destruct (decl_status L d0) as [e0|] eqn:E0.
    + split; [discriminate|]. intros H. rewrite (H d0) in E0 by (left; reflexivity). discriminate.
    + rewrite IH. split; [intros H d [<-|Hin]; auto | intros H d Hin; apply H; right; assumption].
Qed.

Lemma decl_status_missing L d :
  decl_status L d = Some EMissingGlobalVariable <-> (L (gl_name d) = None /\ gl_default d = None).
Proof.
  unfold decl_status. destruct (L (gl_name d)) as [v|].
  - destruct (is_list_quant (gl_quant d) && negb (is_vlist v)); split; try discriminate; intros [? _]; discriminate.
  - destruct (gl_default d); split; try discriminate; auto. intros [_ ?]; discriminate.
Qed.
Lemma decl_status_list L d :
  decl_status L d = Some EExpectedList <->
  exists v, L (gl_name d) = Some v /\ (gl_quant d = QStar \/ gl_quant d = QPlus) /\ forall l, v <> VList l.
Proof.
  unfold decl_status. destruct (L (gl_name d)) as [v|].
  - destruct (is_list_quant (gl_quant d)) eqn:Eq; cbn [andb].
    + destruct (is_vlist v) eqn:Ev; cbn [negb].
      * split; [discriminate|]. intros (v' & [= <-] & _ & Hv). apply is_vlist_iff in Ev. destruct Ev as [l ->].
        exfalso. apply (Hv l). reflexivity.
      * split; [|reflexivity]. intros _. exists v. split; [reflexivity|]. split.
        -- destruct (gl_quant d); cbn in Eq; try discriminate; auto.
        -- intros l ->. discriminate.
    + split; [discriminate|]. intros (v' & _ & [E|E] & _); rewrite E in Eq; discriminate.
  - destruct (gl_default d); split; try discriminate; intros (v & ? & _); discriminate.
Qed.
Lemma decl_status_range L d e : decl_status L d = Some e -> e = EMissingGlobalVariable \/ e = EExpectedList.
Proof.
  unfold decl_status. destruct (L (gl_name d)) as [v|].
  - destruct (is_list_quant (gl_quant d) && negb (is_vlist v)); [intros [= <-]; auto | discriminate].
  - destruct (gl_default d); [discriminate | intros [= <-]; auto].
Qed.
Lemma decl_status_ok L d :
  decl_status L d = None <->
  match L (gl_name d) with
  | None => exists s, gl_default d = Some s
  | Some v => is_list_quant (gl_quant d) = true -> exists l, v = VList l
  end.
Proof.
  unfold decl_status. destruct (L (gl_name d)) as [v|].
  - destruct (is_list_quant (gl_quant d)); cbn [andb].
    + destruct (is_vlist v) eqn:Ev; cbn [negb].
      * split; [|reflexivity]. intros _ _. apply is_vlist_iff; assumption.
      * split; [discriminate|]. intros H. destruct (H eq_refl) as [l ->]. discriminate.
    + split; [intros _; discriminate|reflexivity].
  - destruct (gl_default d) as [s|]; split; try discriminate; eauto. intros [s ?]; discriminate.
Qed.

(* ================= defaults ================= *)
Lemma default_of_notin ds k : ~ In k (map gl_name ds) -> default_of ds k = None.
Proof.
  induction ds as [|d ds IH]; cbn [default_of map In]; [reflexivity|]. intros H.
  destruct (str_eqb_spec k (gl_name d)) as [->|Hn]; [exfalso; apply H; left; reflexivity|]. apply IH. tauto.
Qed.
Lemma default_of_In ds d : NoDup (map gl_name ds) -> In d ds ->
  default_of ds (gl_name d) = option_map VStr (gl_default d).
Proof.
  induction ds as [|d0 ds IH]; cbn [default_of map In]; [tauto|]. intros Hnd [->|Hin].
  - rewrite str_eqb_refl. reflexivity.
  - inversion Hnd as [|? ? Hnotin Hnd']; subst.
    destruct (str_eqb_spec (gl_name d) (gl_name d0)) as [E|Hn]; [|auto].
    exfalso. apply Hnotin. rewrite <- E. apply in_map; assumption.
Qed.
Lemma default_of_some ds k v : default_of ds k = Some v ->
  exists d s, In d ds /\ gl_name d = k /\ gl_default d = Some s /\ v = VStr s.
Proof.
  induction ds as [|d0 ds IH]; cbn [default_of In]; [discriminate|].
  destruct (str_eqb_spec k (gl_name d0)) as [->|Hn].
  - destruct (gl_default d0) as [s|] eqn:Ed; cbn [option_map]; [|discriminate].
    intros [= <-]. exists d0, s. auto.
  - intros H. destruct (IH H) as (d & s & Hin & Hr). exists d, s. auto.
Qed.

(* ================= the property lemmas ================= *)
Lemma check_globals_spec_lemma decls f up : NoDup (map gl_name decls) ->
  let g := f :: up in let L := globals_get g in
  (forall e, check_globals decls g = Err e <->
     exists pre d post, decls = pre ++ d :: post /\
       (forall d', In d' pre -> decl_status L d' = None) /\ decl_status L d = Some e) /\
  (forall g', check_globals decls g = Ok g' ->
     (forall d, In d decls -> decl_status L d = None) /\ tl g' = up /\
     (forall k, globals_get g' k = effective L decls k) /\
     (forall d, In d decls -> globals_get g' (gl_name d) =
        match L (gl_name d) with Some v => Some v | None => option_map VStr (gl_default d) end)) /\
  ((forall d, In d decls -> decl_status L d = None) -> exists g', check_globals decls g = Ok g') /\
  (forall s, check_globals decls g <> Panic s) /\ check_globals decls g <> OutOfFuel.
Proof.
  intros Hnd g L. pose proof (check_globals_fv decls f up Hnd) as Hfv. fold g L in Hfv.
  repeat split.
  - intros He. apply first_violation_some. destruct (first_violation L decls) as [e'|]; [congruence|].
    destruct Hfv as [g' Hg']. congruence.
  - intros Hex. apply first_violation_some in Hex. rewrite Hex in Hfv. assumption.
  - apply first_violation_none. destruct (first_violation L decls) as [e'|]; [congruence|reflexivity].
  - apply (check_globals_lookup _ _ _ _ H).
  - apply (check_globals_lookup _ _ _ _ H).
  - intros d Hin. destruct (check_globals_lookup _ _ _ _ H) as [_ Hk]. rewrite Hk. unfold effective. fold g L.
    rewrite (default_of_In decls d Hnd Hin). reflexivity.
  - intros Hall. apply first_violation_none in Hall. rewrite Hall in Hfv. assumption.
  - intros s Hs. destruct (check_globals_outcomes_lemma decls f up) as [[g' H]|[H|H]]; fold g in H; congruence.
  - intros Hs. destruct (check_globals_outcomes_lemma decls f up) as [[g' H]|[H|H]]; fold g in H; congruence.
Qed.

(* Err Missing => some declaration without default is unsupplied (no assumption on decls) *)
Lemma missing_sound_lemma ds : forall f up, check_globals ds (f :: up) = Err EMissingGlobalVariable ->
  exists d, In d ds /\ gl_default d = None /\ globals_get (f :: up) (gl_name d) = None.
Proof.
  induction ds as [|d ds IH]; intros f up; cbn [check_globals]; [discriminate|].
  destruct (check_global_cases d f up) as [(Hg & Hd & Hc) | [(s & Hg & Hd & Hc) | [(v & Hg & Hq & Hv & Hc) | (v & Hg & Hq & Hc)]]];
    rewrite Hc; cbn [obind]; try discriminate.
  - intros _. exists d. split; [left; reflexivity|]. auto.
  - intros H. destruct (IH _ _ H) as (d' & Hin & Hd' & Hg'). exists d'. split; [right; assumption|]. split; [assumption|].
    rewrite globals_get_cons in Hg' |- *. rewrite alist_get_app in Hg'.
    destruct (alist_get (gl_name d') f); [discriminate|].
    cbn [alist_get] in Hg'. destruct (str_eqb (gl_name d') (gl_name d)); [discriminate|assumption].
  - intros H. destruct (IH _ _ H) as (d' & Hin & Hd' & Hg'). exists d'. split; [right; assumption|]. auto.
Qed.

Lemma list_sound_lemma ds : forall f up, check_globals ds (f :: up) = Err EExpectedList ->
  exists d v, In d ds /\ (gl_quant d = QStar \/ gl_quant d = QPlus) /\ (forall l, v <> VList l) /\
    (globals_get (f :: up) (gl_name d) = Some v \/
     (globals_get (f :: up) (gl_name d) = None /\ default_of ds (gl_name d) = Some v)).
Proof.
  induction ds as [|d ds IH]; intros f up; cbn [check_globals]; [discriminate|].
  destruct (check_global_cases d f up) as [(Hg & Hd & Hc) | [(s & Hg & Hd & Hc) | [(v & Hg & Hq & Hv & Hc) | (v & Hg & Hq & Hc)]]];
    rewrite Hc; cbn [obind]; try discriminate.
  - intros H. destruct (IH _ _ H) as (d' & v & Hin & Hq' & Hv' & Hg'). exists d', v.
    split; [right; assumption|]. split; [assumption|]. split; [assumption|].
    cbn [default_of]. destruct (str_eqb_spec (gl_name d') (gl_name d)) as [E|Hn].
    + right. rewrite E in *. split; [assumption|]. rewrite Hd. cbn [option_map].
      destruct Hg' as [Hg'|[Hg' _]].
      * rewrite globals_get_cons, alist_get_app in Hg'. rewrite globals_get_cons in Hg.
        destruct (alist_get (gl_name d) f); [discriminate|]. cbn [alist_get] in Hg'. rewrite str_eqb_refl in Hg'. assumption.
      * rewrite globals_get_cons, alist_get_app in Hg'. rewrite globals_get_cons in Hg.
        destruct (alist_get (gl_name d) f); [discriminate|]. cbn [alist_get] in Hg'. rewrite str_eqb_refl in Hg'. discriminate.
    + rewrite (globals_get_add_other f up _ _ _ Hn) in Hg'. assumption.
  - intros _. exists d, v. split; [left; reflexivity|]. split.
    + destruct (gl_quant d); cbn in Hq; try discriminate; auto.
    + split; [intros l ->; discriminate|]. left; assumption.
  - intros H. destruct (IH _ _ H) as (d' & v' & Hin & Hq' & Hv' & Hg'). exists d', v'.
    split; [right; assumption|]. split; [assumption|]. split; [assumption|].
    destruct Hg' as [Hg'|[Hg' Hdf]]; [left; assumption|]. right. split; [assumption|].
    cbn [default_of]. destruct (str_eqb_spec (gl_name d') (gl_name d)) as [E|Hn]; [|assumption].
    rewrite E in Hg'. congruence.
Qed.

Lemma missing_iff_lemma decls f up : NoDup (map gl_name decls) ->
  let g := f :: up in
  (forall d v, In d decls -> globals_get g (gl_name d) = Some v -> is_list_quant (gl_quant d) = true -> exists l, v = VList l) ->
  (check_globals decls g = Err EMissingGlobalVariable <->
   exists d, In d decls /\ gl_default d = None /\ globals_get g (gl_name d) = None) /\
  ((forall d, In d decls -> gl_default d = None -> globals_get g (gl_name d) <> None) ->
   exists g', check_globals decls g = Ok g').
Proof.
  intros Hnd g Hlist. destruct (check_globals_spec_lemma decls f up Hnd) as (Herr & _ & Hok & _). fold g in Herr, Hok.
  assert (Hnolist : forall d, In d decls -> decl_status (globals_get g) d <> Some EExpectedList).
  { intros d Hin Hs. apply decl_status_list in Hs. destruct Hs as (v & Hv & Hq & Hnl).
    destruct (Hlist d v Hin Hv) as [l ->]; [destruct Hq as [-> | ->]; reflexivity|]. apply (Hnl l). reflexivity. }
  split; [split|].
  - apply missing_sound_lemma.
  - intros (d & Hin & Hd & Hg).
    assert (Hs : decl_status (globals_get g) d = Some EMissingGlobalVariable) by (apply decl_status_missing; auto).
    destruct (first_violation (globals_get g) decls) as [e|] eqn:Efv.
    + apply first_violation_some in Efv. pose proof Efv as Efv'. apply Herr in Efv'.
      destruct Efv as (pre & d' & post & -> & _ & Hd').
      destruct (decl_status_range _ _ _ Hd') as [-> | ->]; [assumption|].
      exfalso. apply (Hnolist d'); [apply in_or_app; right; left; reflexivity | assumption].
    + rewrite first_violation_none in Efv. rewrite (Efv d Hin) in Hs. discriminate.
  - intros Hsup. apply Hok. intros d Hin.
    destruct (decl_status (globals_get g) d) as [e|] eqn:Es; [|reflexivity]. exfalso.
    destruct (decl_status_range _ _ _ Es) as [-> | ->].
    + apply decl_status_missing in Es. destruct Es as [Hg Hd]. apply (Hsup d Hin Hd Hg).
    + apply (Hnolist d Hin Es).
Qed.

(* the nested copy after run_globals holds exactly the defaults that were needed *)
Lemma defaults_frame_lemma decls supplied g' : run_globals decls supplied = Ok g' ->
  exists f', g' = f' :: supplied /\
    forall k v, alist_get k f' = Some v <-> (globals_get supplied k = None /\ default_of decls k = Some v).
Proof.
  unfold run_globals, globals_nested. intros H.
  destruct (check_globals_frame _ _ _ _ H) as (f' & -> & Hf'). exists f'. split; [reflexivity|].
  intros k v. rewrite Hf'. cbn [alist_get]. destruct (globals_get supplied k) as [w|].
  - split; [discriminate | intros [? _]; discriminate].
  - split; [auto | intros [_ ?]; assumption].
Qed.

Lemma lookup_after_lemma decls supplied g' : run_globals decls supplied = Ok g' ->
  forall k, globals_get g' k =
    match globals_get supplied k with Some v => Some v | None => default_of decls k end.
Proof.
  unfold run_globals, globals_nested. intros H k.
  destruct (check_globals_lookup _ _ _ _ H) as [_ Hk]. rewrite Hk. reflexivity.
Qed.

Lemma caller_unchanged_lemma decls supplied g' : run_globals decls supplied = Ok g' -> tl g' = supplied.
Proof. intros H. destruct (defaults_frame_lemma _ _ _ H) as (f' & -> & _). reflexivity. Qed.
Lemma caller_unchanged_chain_lemma decls f up g' : check_globals decls (f :: up) = Ok g' -> tl g' = up.
Proof. intros H. exact (proj1 (check_globals_lookup _ _ _ _ H)). Qed.
Lemma supplied_wins_lemma decls supplied g' k v :
  run_globals decls supplied = Ok g' -> globals_get supplied k = Some v -> globals_get g' k = Some v.
Proof. intros H Hk. rewrite (lookup_after_lemma _ _ _ H), Hk. reflexivity. Qed.
Lemma undeclared_kept_lemma decls supplied g' k :
  run_globals decls supplied = Ok g' -> ~ In k (map gl_name decls) ->
  globals_get g' k = globals_get supplied k.
Proof.
  intros H Hk. rewrite (lookup_after_lemma _ _ _ H), (default_of_notin _ _ Hk).
  destruct (globals_get supplied k); reflexivity.
Qed.
