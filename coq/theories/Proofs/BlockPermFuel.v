(* Proofs/BlockPermFuel.v — C08, part 8: the model's fuel only decides between "out of fuel" and THE result.
   `mref m1 m2`: on every state, m1 runs out of fuel or behaves exactly like m2.  Every fuelled function of the lazy
   interpreter refines itself at any larger fuel; so does a whole run.  (All programs, all configurations.) *)
From TSG Require Import Model.Lazy Proofs.MonadFacts.

Definition mref {A} (m1 m2 : M lstate A) : Prop := forall s p, m1 s p = OutOfFuel \/ m1 s p = m2 s p.

Lemma mref_refl A (m : M lstate A) : mref m m. Proof. intros s p. right. reflexivity. Qed.
Lemma mref_trans A (a b c : M lstate A) : mref a b -> mref b c -> mref a c.
Proof. intros H1 H2 s p. destruct (H1 s p) as [E|E]; [left; exact E|]. rewrite E. apply H2. Qed.
Lemma mref_oof A (m : M lstate A) : mref out_of_fuel m. Proof. intros s p. left. reflexivity. Qed.
Lemma mref_bind A B (m1 m2 : M lstate A) (f1 f2 : A -> M lstate B) : mref m1 m2 -> (forall a, mref (f1 a) (f2 a)) -> mref (bind m1 f1) (bind m2 f2).
Proof.
  intros Hm Hf s p. unfold bind. destruct (Hm s p) as [E|E]; [left; rewrite E; reflexivity|]. rewrite <- E.
  destruct (m1 s p) as [[[a s1] p1]|e|x|]; [apply Hf|right; reflexivity..].
Qed.
Lemma mref_ctx A c (m1 m2 : M lstate A) : mref m1 m2 -> mref (ctx_wrap c m1) (ctx_wrap c m2).
Proof. intros Hm s p. unfold ctx_wrap. destruct (Hm s p) as [E|E]; [left; rewrite E; reflexivity|]. rewrite E. right. reflexivity. Qed.
Lemma mref_mapM A B (f1 f2 : A -> M lstate B) l : (forall x, mref (f1 x) (f2 x)) -> mref (mapM f1 l) (mapM f2 l).
Proof.
  intros H. induction l as [|x l IH]; cbn [mapM]; [apply mref_refl|]. apply mref_bind; [apply H|]. intros y. apply mref_bind; [exact IH|]. intros ys. apply mref_refl.
Qed.
Lemma mref_iterM A (f1 f2 : A -> M lstate unit) l : (forall x, mref (f1 x) (f2 x)) -> mref (iterM f1 l) (iterM f2 l).
Proof. intros H. induction l as [|x l IH]; cbn [iterM]; [apply mref_refl|]. apply mref_bind; [apply H|]. intros _. exact IH. Qed.
Lemma mref_bind_r A B (m : M lstate A) (f1 f2 : A -> M lstate B) : (forall a, mref (f1 a) (f2 a)) -> mref (bind m f1) (bind m f2).
Proof. intros H. apply mref_bind; [apply mref_refl|exact H]. Qed.

Section Fuel.
  Context {rx : Type}.
  Variables (t : tree) (fl : file) (cfg : config) (glob : globals) (regexes : list rx)
            (find : rx -> str -> option (list (option (N * N))))
            (call : ident -> graph -> list value -> res (value * graph)).

  Lemma mref_force_pairs ev1 ev2 : (forall sc, mref (ev1 sc) (ev2 sc)) -> forall ps values dbgs, mref (force_pairs ev1 ps values dbgs) (force_pairs ev2 ps values dbgs).
  Proof.
    intros Hev. induction ps as [|[[scope v] dbg] ps IHp]; intros values dbgs; cbn [force_pairs]; [apply mref_refl|].
    apply mref_bind; [apply mref_ctx, mref_ctx, Hev|intros n]. destruct (nmap_get values n); [apply mref_refl|apply IHp].
  Qed.

  Notation eval_lv' := (eval_lv t fl call).
  Notation force_thunk' := (force_thunk t fl call).
  Notation force_scoped' := (force_scoped t fl call).

  Lemma eval_step : forall F,
    (forall lv, mref (eval_lv' F lv) (eval_lv' (S F) lv)) /\ (forall loc, mref (force_thunk' F loc) (force_thunk' (S F) loc)) /\
    (forall name cell, mref (force_scoped' F name cell) (force_scoped' (S F) name cell)).
  Proof.
    induction F as [|F (IHe & IHt & IHs)]; [repeat split; intros; apply mref_oof|]. repeat split.
    - intros lv. destruct lv; cbn [eval_lv]; apply mref_bind_r; intros _.
      + apply mref_refl.
      + apply mref_bind; [apply mref_mapM, IHe|intros; apply mref_refl].
      + apply mref_bind; [apply mref_mapM, IHe|intros; apply mref_refl].
      + apply IHt.
      + apply mref_bind; [apply mref_ctx; apply mref_bind; [apply IHe|intros; apply mref_refl]|]. intros n. apply mref_bind_r. intros c. destruct c as [cell|]; [|apply mref_refl].
        apply mref_bind_r. intros _. apply mref_bind; [apply IHs|]. intros map. cbv zeta. apply mref_bind_r. intros _.
        match goal with |- mref (match ?x with _ => _ end) _ => destruct x end; [apply IHe|apply mref_refl].
      + apply mref_bind; [apply mref_iterM; intros a; apply mref_bind; [apply IHe|intros; apply mref_refl]|intros; apply mref_refl].
    - intros loc. cbn [force_thunk]. apply mref_bind_r. intros s. destruct (nth_error (l_store s) (N.to_nat loc)) as [th|]; [|apply mref_refl].
      apply mref_ctx. destruct (th_state th); [|apply mref_refl..]. apply mref_bind_r. intros _. apply mref_bind; [apply IHe|intros; apply mref_refl].
    - intros name cell. cbn [force_scoped]. destruct cell as [pairs| |map]; [|apply mref_refl..].
      apply mref_force_pairs. intros scope. apply mref_bind; [apply IHe|intros; apply mref_refl].
  Qed.
  Lemma eval_lv_mono F F' lv : (F <= F')%nat -> mref (eval_lv' F lv) (eval_lv' F' lv).
  Proof. induction 1 as [|F' _ IH]; [apply mref_refl|]. eapply mref_trans; [exact IH|apply eval_step]. Qed.
  Lemma force_thunk_mono F F' loc : (F <= F')%nat -> mref (force_thunk' F loc) (force_thunk' F' loc).
  Proof. induction 1 as [|F' _ IH]; [apply mref_refl|]. eapply mref_trans; [exact IH|apply eval_step]. Qed.
  Lemma force_scoped_mono F F' name cell : (F <= F')%nat -> mref (force_scoped' F name cell) (force_scoped' F' name cell).
  Proof. induction 1 as [|F' _ IH]; [apply mref_refl|]. eapply mref_trans; [exact IH|apply eval_step]. Qed.

  Lemma eval_lstmt_mono F F' st : (F <= F')%nat -> mref (eval_lstmt t fl call F st) (eval_lstmt t fl call F' st).
  Proof.
    intros H. unfold eval_lstmt, eval_as_gnode. apply mref_bind_r. intros _. destruct st; apply mref_ctx.
    - apply mref_bind; [apply mref_ctx; apply mref_bind; [apply eval_lv_mono, H|intros; apply mref_refl]|]. intros n. apply mref_iterM. intros a.
      apply mref_bind; [apply eval_lv_mono, H|intros; apply mref_refl].
    - apply mref_bind; [apply mref_ctx; apply mref_bind; [apply eval_lv_mono, H|intros; apply mref_refl]|]. intros a.
      apply mref_bind; [apply mref_ctx; apply mref_bind; [apply eval_lv_mono, H|intros; apply mref_refl]|intros; apply mref_refl].
    - apply mref_bind; [apply mref_ctx; apply mref_bind; [apply eval_lv_mono, H|intros; apply mref_refl]|]. intros a.
      apply mref_bind; [apply mref_ctx; apply mref_bind; [apply eval_lv_mono, H|intros; apply mref_refl]|]. intros b. apply mref_iterM. intros ak.
      apply mref_bind; [apply eval_lv_mono, H|intros; apply mref_refl].
    - apply mref_iterM. intros a. destruct a; [|apply mref_refl]. apply mref_bind; [apply eval_lv_mono, H|intros; apply mref_refl].
  Qed.
  Lemma evaluate_phase_mono F F' : (F <= F')%nat -> mref (evaluate_phase t fl call F) (evaluate_phase t fl call F').
  Proof.
    intros H. unfold evaluate_phase, store_evaluate_all, scoped_evaluate_all. apply mref_bind_r. intros s.
    apply mref_bind; [apply mref_iterM; intros; apply eval_lstmt_mono, H|intros _].
    apply mref_bind; [apply mref_iterM; intros; apply eval_lstmt_mono, H|intros _].
    apply mref_bind; [apply mref_iterM; intros; apply eval_lstmt_mono, H|intros _].
    apply mref_bind.
    - apply mref_bind_r. intros s'. apply mref_iterM. intros i. apply mref_bind; [apply force_thunk_mono, H|intros; apply mref_refl].
    - intros _. apply mref_bind_r. intros s'. apply mref_iterM. intros name. apply mref_bind_r. intros c. destruct c as [cell|]; [|apply mref_refl].
      apply mref_bind_r. intros _. apply mref_bind; [apply force_scoped_mono, H|intros; apply mref_refl].
  Qed.

  (* ---- execution phase ---- *)
  Notation leval' := (leval t fl glob call).
  Lemma leval_step : forall F le e, mref (leval' F le e) (leval' (S F) le e).
  Proof.
    induction F as [|F IH]; intros le e; [apply mref_oof|].
    assert (Heager : forall e', mref (lv <- leval' F le e' ;; eval_lv' (S F + default_eval_fuel) lv) (lv <- leval' (S F) le e' ;; eval_lv' (S (S F) + default_eval_fuel) lv)).
    { intros e'. apply mref_bind; [apply IH|intros lv; apply eval_lv_mono; lia]. }
    assert (Hcomp : forall elem var value,
      mref (lv <- (lv <- leval' F le value ;; eval_lv' (S F + default_eval_fuel) lv) ;; vals <- lift (as_list lv) ;; lpush_frame ;;;
            out <- mapM (fun v => lclear_frame ;;; lunscoped_add glob le var (LValue v) false ;;; leval' F le elem) vals ;; lpop_frame ;;; ret out)
           (lv <- (lv <- leval' (S F) le value ;; eval_lv' (S (S F) + default_eval_fuel) lv) ;; vals <- lift (as_list lv) ;; lpush_frame ;;;
            out <- mapM (fun v => lclear_frame ;;; lunscoped_add glob le var (LValue v) false ;;; leval' (S F) le elem) vals ;; lpop_frame ;;; ret out)).
    { intros elem var value. apply mref_bind; [apply Heager|intros lv]. apply mref_bind_r. intros vals. apply mref_bind_r. intros _.
      apply mref_bind; [|intros; apply mref_refl]. apply mref_mapM. intros v. apply mref_bind_r. intros _. apply mref_bind_r. intros _. apply IH. }
    destruct e; cbn [leval]; try apply mref_refl.
    - apply mref_bind; [apply mref_mapM; intros; apply IH|intros; apply mref_refl].
    - apply mref_bind; [apply mref_mapM; intros; apply IH|intros; apply mref_refl].
    - apply mref_bind; [apply Hcomp|intros; apply mref_refl].
    - apply mref_bind; [apply Hcomp|intros; apply mref_refl].
    - apply mref_bind; [apply IH|intros; apply mref_refl].
    - apply mref_bind; [apply mref_mapM; intros; apply IH|intros; apply mref_refl].
  Qed.
  Lemma leager_step F le e : mref (leager t fl glob call F le e) (leager t fl glob call (S F) le e).
  Proof. unfold leager. apply mref_bind; [apply leval_step|intros lv; apply eval_lv_mono; lia]. Qed.
  Lemma lvar_add_step F le v x mu : mref (lvar_add t fl glob call F le v x mu) (lvar_add t fl glob call (S F) le v x mu).
  Proof. destruct v; cbn [lvar_add]; [apply mref_refl|]. destruct mu; [apply mref_refl|]. apply mref_bind; [apply leval_step|intros; apply mref_refl]. Qed.
  Lemma ltest_cond_step F le c : mref (ltest_cond t fl glob call F le c) (ltest_cond t fl glob call (S F) le c).
  Proof. destruct c; cbn [ltest_cond]; (apply mref_bind; [apply leager_step|intros; apply mref_refl]). Qed.

  Notation lexec_attr' := (lexec_attr t fl glob call).
  Lemma lexec_attr_step : forall F le a, mref (lexec_attr' F le a) (lexec_attr' (S F) le a).
  Proof.
    induction F as [|F IH]; intros le a; [apply mref_oof|]. destruct a as [name value]. cbn [lexec_attr]. apply mref_bind_r. intros _.
    apply mref_bind; [apply leval_step|intros v]. destruct (find_shorthand name (f_shorthands fl)) as [sh|]; [|apply mref_refl].
    apply mref_bind_r. intros s. cbv zeta. apply mref_bind_r. intros _. apply mref_bind_r. intros _. apply mref_bind; [apply mref_mapM; intros; apply IH|intros; apply mref_refl].
  Qed.

  Lemma lscan_loop_ref run1 run2 arms rs subject : (forall caps body, mref (run1 caps body) (run2 caps body)) ->
    forall sfuel i, mref (lscan_loop find run1 arms rs subject sfuel i) (lscan_loop find run2 arms rs subject sfuel i).
  Proof.
    intros Hrun. induction sfuel as [|sfuel IHs]; intros i; cbn [lscan_loop]; [apply mref_refl|].
    destruct (N.ltb i (N.of_nat (length subject))); [|apply mref_refl]. cbv zeta. apply mref_bind_r. intros _.
    destruct (arm_select find rs (skipn (N.to_nat i) subject)) as [|k|k caps]; try apply mref_refl.
    destruct (nth_error arms (N.to_nat k)) as [[[r body] l']|]; [|apply mref_refl].
    apply mref_bind_r. intros _. apply mref_bind; [apply Hrun|intros _]. apply mref_bind_r. intros _. apply IHs.
  Qed.
  Lemma lif_loop_ref test1 test2 run1 run2 : (forall c, mref (test1 c) (test2 c)) -> (forall body, mref (run1 body) (run2 body)) ->
    forall arms, mref (lif_loop test1 run1 arms) (lif_loop test2 run2 arms).
  Proof.
    intros Ht Hr. induction arms as [|[[conds body] l'] arms IHa]; cbn [lif_loop]; [apply mref_refl|].
    apply mref_bind; [apply mref_mapM, Ht|intros bs]. destruct (forallb (fun b => b) bs); [|exact IHa].
    apply mref_bind_r. intros _. apply mref_bind; [apply Hr|intros; apply mref_refl].
  Qed.

  Notation lexec_stmt' := (lexec_stmt t fl cfg glob regexes find call).
  Lemma lexec_stmt_step : forall F le s, mref (lexec_stmt' F le s) (lexec_stmt' (S F) le s).
  Proof.
    induction F as [|F IH]; intros le s; [apply mref_oof|].
    assert (Hblock : forall le' body, mref (iterM (fun st => lexec_stmt' F (ll_with_ctx le' (ctx_update (ll_ctx le') st)) st) body)
                                          (iterM (fun st => lexec_stmt' (S F) (ll_with_ctx le' (ctx_update (ll_ctx le') st)) st) body)).
    { intros le' body. apply mref_iterM. intros st. apply IH. }
    assert (Harm : forall le' body,
               mref (iterM (fun st => let c := ctx_update (ll_ctx le') st in ctx_wrap (CtxStmts [c]) (ctx_wrap CtxOther (lexec_stmt' F (ll_with_ctx le' c) st))) body)
                    (iterM (fun st => let c := ctx_update (ll_ctx le') st in ctx_wrap (CtxStmts [c]) (ctx_wrap CtxOther (lexec_stmt' (S F) (ll_with_ctx le' c) st))) body)).
    { intros le' body. apply mref_iterM. intros st. cbv zeta. apply mref_ctx, mref_ctx, IH. }
    destruct s; cbn [lexec_stmt]; apply mref_bind_r; intros _.
    - apply mref_bind; [apply leval_step|intros x; apply lvar_add_step].
    - apply mref_bind; [apply leval_step|intros x; apply lvar_add_step].
    - apply mref_bind; [apply leval_step|intros x; apply mref_refl].
    - apply mref_bind_r. intros n. apply mref_bind_r. intros _. apply mref_bind_r. intros _. apply mref_bind_r. intros _. apply lvar_add_step.
    - apply mref_bind; [apply leval_step|intros nv]. apply mref_bind; [apply mref_mapM; intros; apply lexec_attr_step|intros; apply mref_refl].
    - apply mref_bind; [apply leval_step|intros a]. apply mref_bind; [apply leval_step|intros; apply mref_refl].
    - apply mref_bind; [apply leval_step|intros a]. apply mref_bind; [apply leval_step|intros b].
      apply mref_bind; [apply mref_mapM; intros; apply lexec_attr_step|intros; apply mref_refl].
    - apply mref_bind; [apply leager_step|intros sv]. apply mref_bind_r. intros subject. destruct (arm_table regexes arms) as [rs|]; [|apply mref_refl].
      apply lscan_loop_ref. intros caps body. apply (Harm (ll_with_caps le caps) body).
    - apply mref_bind; [|intros; apply mref_refl]. apply mref_mapM. intros e.
      assert (Hgen : mref (lv <- leval' F le e ;; ret (Some lv)) (lv <- leval' (S F) le e ;; ret (Some lv))) by (apply mref_bind; [apply leval_step|intros; apply mref_refl]).
      destruct e; try exact Hgen. apply mref_refl.
    - apply lif_loop_ref; [intros c; apply ltest_cond_step|]. intros body. apply (Hblock le body).
    - apply mref_bind; [apply leager_step|intros lv]. apply mref_bind_r. intros vals. apply mref_bind_r. intros _. apply mref_bind; [|intros; apply mref_refl].
      apply mref_iterM. intros v. apply mref_bind_r. intros _. apply mref_bind_r. intros _. apply (Hblock le body).
  Qed.
  Lemma lexec_stanza_step F st m : mref (lexec_stanza t fl cfg glob regexes find call F st m) (lexec_stanza t fl cfg glob regexes find call (S F) st m).
  Proof.
    unfold lexec_stanza. apply mref_bind_r. intros _. apply mref_bind_r. intros _. cbv zeta.
    destruct (nodes_for_capture m (st_full_file_idx st)); [apply mref_refl|]. apply mref_iterM. intros s. apply mref_ctx, lexec_stmt_step.
  Qed.
  Lemma lexec_stanza_mono F F' st m : (F <= F')%nat -> mref (lexec_stanza t fl cfg glob regexes find call F st m) (lexec_stanza t fl cfg glob regexes find call F' st m).
  Proof. induction 1 as [|F' _ IH]; [apply mref_refl|]. eapply mref_trans; [exact IH|apply lexec_stanza_step]. Qed.

  Lemma lexec_file_mono F F' ms : (F <= F')%nat -> mref (lexec_file t fl cfg glob regexes find call F ms) (lexec_file t fl cfg glob regexes find call F' ms).
  Proof.
    intros H. unfold lexec_file. apply mref_bind; [|intros _; apply evaluate_phase_mono; lia]. apply mref_iterM. intros pm.
    destruct (nth_error (f_stanzas fl) (N.to_nat (fst pm))); [apply lexec_stanza_mono, H|apply mref_refl].
  Qed.
End Fuel.

(* a run that does not run out of fuel has the same outcome with any larger fuel *)
Theorem run_lazy_fuel_mono {rx : Type} t fl cfg supplied budget (regexes : list rx) find call F F' ms g0 : (F <= F')%nat ->
  run_lazy t fl cfg supplied budget regexes find call F ms g0 = OutOfFuel \/
  run_lazy t fl cfg supplied budget regexes find call F ms g0 = run_lazy t fl cfg supplied budget regexes find call F' ms g0.
Proof.
  intros H. unfold run_lazy. destruct (check_globals (f_globals fl) (globals_nested supplied)) as [glob|e|x|]; try (right; reflexivity).
  destruct (lexec_file_mono t fl cfg glob regexes find call F F' ms H (linit g0) (polls0 budget)) as [E|E]; [left; rewrite E; reflexivity|]. rewrite E. right. reflexivity.
Qed.
