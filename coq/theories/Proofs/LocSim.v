(* Proofs/LocSim.v — the two-run relation "same outcome up to statement contexts" for the lazy interpreter, and its
   combinator lemmas / state primitives.  Right-hand runs start in `estate s` (every stored statement context erased
   to its matched node).  Errors are related to errors WHATEVER their contexts (locations are read only there). *)
From TSG Require Import Model.Lazy Model.LocErase.

Definition orel {A B} (R : A -> B -> Prop) (r : outcome exec_error (A * lstate * polls)) (r' : outcome exec_error (B * lstate * polls)) : Prop :=
  match r, r' with
  | Ok (a, s, p), Ok (a', s', p') => R a a' /\ s' = estate s /\ p' = p
  | Err _, Err _ => True
  | Panic x, Panic x' => x = x'
  | OutOfFuel, OutOfFuel => True
  | _, _ => False
  end.
Definition sim {A B} (R : A -> B -> Prop) (m : M lstate A) (m' : M lstate B) : Prop :=
  forall s p, orel R (m s p) (m' (estate s) p).
Notation simeq := (sim eq).

Lemma sim_ret {A B} (R : A -> B -> Prop) a a' : R a a' -> sim R (ret a) (ret a').
Proof. intros H s p. cbn [ret orel]. auto. Qed.
Lemma sim_bind {A B A2 B2} (R : A -> B -> Prop) (R2 : A2 -> B2 -> Prop) m m' k k' :
  sim R m m' -> (forall a a', R a a' -> sim R2 (k a) (k' a')) -> sim R2 (bind m k) (bind m' k').
Proof.
  intros H K s p. unfold bind. specialize (H s p).
  destruct (m s p) as [[[a s1] p1]|e|x|], (m' (estate s) p) as [[[a' s1'] p1']|e'|x'|]; cbn [orel] in *; try contradiction; auto.
  destruct H as (Ha & -> & ->). apply K. exact Ha.
Qed.
Lemma sim_fail {A B} (R : A -> B -> Prop) e e' : sim R (fail e) (fail e').
Proof. intros s p. exact I. Qed.
Lemma sim_fail_in {A B} (R : A -> B -> Prop) c e c' e' : sim R (@fail_in A c e) (@fail_in B c' e').
Proof. intros s p. exact I. Qed.
Lemma sim_panic {A B} (R : A -> B -> Prop) x : sim R (panic x) (panic x).
Proof. intros s p. reflexivity. Qed.
Lemma sim_oof {A B} (R : A -> B -> Prop) : sim R out_of_fuel out_of_fuel.
Proof. intros s p. exact I. Qed.
Lemma sim_lift {A} (r : res A) : simeq (lift r) (lift r).
Proof. intros s p. unfold lift. destruct r; cbn [orel]; auto. Qed.
Lemma sim_get : sim (fun a a' => a' = estate a) get_state get_state.
Proof. intros s p. cbn [get_state orel]. auto. Qed.
Lemma sim_modify f f' : (forall s, f' (estate s) = estate (f s)) -> simeq (modify f) (modify f').
Proof. intros H s p. cbn [modify orel]. auto. Qed.
Lemma sim_poll l : simeq (poll l) (poll l).
Proof. intros s p. unfold poll. destruct (poll_step l p) as [p' [|]]; cbn [orel]; auto. Qed.
Lemma sim_ctx {A B} (R : A -> B -> Prop) c c' m m' : sim R m m' -> sim R (ctx_wrap c m) (ctx_wrap c' m').
Proof.
  intros H s p. unfold ctx_wrap. specialize (H s p).
  destruct (m s p) as [[[a s1] p1]|e|x|], (m' (estate s) p) as [[[a' s1'] p1']|e'|x'|]; cbn [orel] in *; auto.
Qed.
Lemma sim_mapM {A A' B} (g : A -> A') (f : A -> M lstate B) (f' : A' -> M lstate B) l :
  (forall x, simeq (f x) (f' (g x))) -> simeq (mapM f l) (mapM f' (map g l)).
Proof.
  intros H. induction l as [|x l IH]; cbn [mapM map]; [apply sim_ret; reflexivity|].
  eapply sim_bind; [apply H|]. intros y y' <-. eapply sim_bind; [exact IH|]. intros ys ys' <-. apply sim_ret. reflexivity.
Qed.
Lemma sim_mapM_same {A B} (f f' : A -> M lstate B) l : (forall x, simeq (f x) (f' x)) -> simeq (mapM f l) (mapM f' l).
Proof. intros H. rewrite <- (map_id l) at 2. apply sim_mapM. exact H. Qed.
Lemma sim_iterM {A A'} (g : A -> A') (f : A -> M lstate unit) (f' : A' -> M lstate unit) l :
  (forall x, simeq (f x) (f' (g x))) -> simeq (iterM f l) (iterM f' (map g l)).
Proof.
  intros H. induction l as [|x l IH]; cbn [iterM map]; [apply sim_ret; reflexivity|].
  eapply sim_bind; [apply H|]. intros _ _ _. exact IH.
Qed.
Lemma sim_iterM_same {A} (f f' : A -> M lstate unit) l : (forall x, simeq (f x) (f' x)) -> simeq (iterM f l) (iterM f' l).
Proof. intros H. rewrite <- (map_id l) at 2. apply sim_iterM. exact H. Qed.

(* ---- list facts ---- *)
Lemma list_update_map {A} (g f f' : A -> A) n l : (forall x, g (f x) = f' (g x)) -> map g (list_update n f l) = list_update n f' (map g l).
Proof. intros H. revert n. induction l as [|x l IH]; intros [|n]; cbn [list_update map]; try reflexivity; [rewrite H|rewrite IH]; reflexivity. Qed.
Lemma alist_get_enamed name l : alist_get name (map enamed l) = option_map ecell (alist_get name l).
Proof. induction l as [|[k c] l IH]; cbn [map alist_get enamed fst snd option_map]; [reflexivity|]. destruct (str_eqb name k); [reflexivity|exact IH]. Qed.
Lemma alist_set_enamed name c l : alist_set name (ecell c) (map enamed l) = map enamed (alist_set name c l).
Proof.
  induction l as [|[k c0] l IH]; cbn [map alist_set enamed fst snd]; [reflexivity|].
  destruct (str_eqb name k); cbn [map enamed fst snd]; [reflexivity|]. rewrite IH. reflexivity.
Qed.
Lemma insert_sorted_enamed x l :
  insert_sorted (fun a b : ident * scoped_values => str_ltb (fst a) (fst b)) (enamed x) (map enamed l) =
  map enamed (insert_sorted (fun a b => str_ltb (fst a) (fst b)) x l).
Proof.
  induction l as [|y l IH]; cbn [map insert_sorted]; [reflexivity|].
  cbv beta. destruct x as [kx cx], y as [ky cy]. cbn [fst snd enamed] in *.
  destruct (str_ltb kx ky); cbn [map]; [reflexivity|]. f_equal. exact IH.
Qed.
Lemma sort_alist_enamed l : sort_alist (map enamed l) = map enamed (sort_alist l).
Proof.
  unfold sort_alist, sort_by. induction l as [|x l IH]; cbn [map fold_right]; [reflexivity|].
  rewrite IH. apply insert_sorted_enamed.
Qed.
Lemma sorted_keys_enamed l : map fst (sort_alist (map enamed l)) = map fst (sort_alist l).
Proof. rewrite sort_alist_enamed, map_map. reflexivity. Qed.
Lemma dbg_get_map f l n : dbg_get (map (fun x : N * stmt_ctx => (fst x, f (snd x))) l) n = option_map f (dbg_get l n).
Proof. induction l as [|[k d] l IH]; cbn [map dbg_get fst snd option_map]; [reflexivity|]. destruct (N.eqb n k); [reflexivity|exact IH]. Qed.

Section Prims.
  Context {rx : Type}.
  Variable t : tree.
  Variable glob : globals.
  Variable call : ident -> graph -> list value -> res (value * graph).

  Ltac prim := intros s p; cbn; auto.

  Lemma sim_set_lgraph g : simeq (set_lgraph g) (set_lgraph g).
  Proof. apply sim_modify. reflexivity. Qed.
  Lemma sim_set_llocals x : simeq (set_llocals x) (set_llocals x).
  Proof. apply sim_modify. reflexivity. Qed.
  Lemma sim_set_lparams x : simeq (set_lparams x) (set_lparams x).
  Proof. apply sim_modify. reflexivity. Qed.
  Lemma sim_set_lstore x : simeq (set_lstore x) (set_lstore (map ethunk x)).
  Proof. apply sim_modify. reflexivity. Qed.
  Lemma sim_set_lscoped x : simeq (set_lscoped x) (set_lscoped (map enamed x)).
  Proof. apply sim_modify. reflexivity. Qed.
  Lemma sim_set_lprev x : simeq (set_lprev x) (set_lprev (map eprev x)).
  Proof. apply sim_modify. reflexivity. Qed.
  Lemma sim_push_lstmt st : simeq (push_lstmt st) (push_lstmt (elstmt st)).
  Proof. apply sim_modify. intros s. destruct st; unfold estate; cbn [elstmt l_graph l_locals l_store l_scoped l_edges l_attrs l_prints l_params l_prev]; rewrite map_app; reflexivity. Qed.

  Lemma sim_lpoll l : simeq (lpoll l) (lpoll l). Proof. apply sim_poll. Qed.
  Lemma sim_lpoll_n n l : simeq (lpoll_n n l) (lpoll_n n l).
  Proof. induction n as [|n IH]; cbn [lpoll_n]; [apply sim_ret; reflexivity|]. eapply sim_bind; [apply sim_lpoll|]. intros _ _ _. exact IH. Qed.

  (* after get_state: continuation on s vs on estate s *)
  Lemma sim_get_bind {A B} (R : A -> B -> Prop) (k : lstate -> M lstate A) (k' : lstate -> M lstate B) :
    (forall s, sim R (k s) (k' (estate s))) -> sim R (bind get_state k) (bind get_state k').
  Proof. intros H. eapply sim_bind; [apply sim_get|]. intros s s' ->. apply H. Qed.

  Lemma sim_ladd_node : simeq ladd_node ladd_node.
  Proof.
    unfold ladd_node. apply sim_get_bind. intros s. change (l_graph (estate s)) with (l_graph s).
    destruct (add_graph_node (l_graph s)) as [g' n]. eapply sim_bind; [apply sim_set_lgraph|]. intros _ _ _. apply sim_ret. reflexivity.
  Qed.
  Lemma sim_lattr_node_add n k v prev dbg prev' dbg' : simeq (lattr_node_add n k v prev dbg) (lattr_node_add n k v prev' dbg').
  Proof.
    unfold lattr_node_add. apply sim_get_bind. intros s. change (l_graph (estate s)) with (l_graph s).
    destruct (gnode_at (l_graph s) n) as [nd|]; [|apply sim_panic]. destruct (attrs_add (g_attrs nd) k v) as [m' [c|]]; [apply sim_fail_in|apply sim_set_lgraph].
  Qed.
  Lemma sim_ledge_add a b ea : simeq (ledge_add a b ea) (ledge_add a b ea).
  Proof.
    unfold ledge_add. apply sim_get_bind. intros s. change (l_graph (estate s)) with (l_graph s).
    destruct (graph_add_edge (l_graph s) a b) as [[g' [|]]|]; [apply sim_set_lgraph|apply sim_set_lgraph|apply sim_panic].
  Qed.
  Lemma sim_lattr_edge_add a b k v prev dbg prev' dbg' : simeq (lattr_edge_add a b k v prev dbg) (lattr_edge_add a b k v prev' dbg').
  Proof.
    unfold lattr_edge_add. apply sim_get_bind. intros s. change (l_graph (estate s)) with (l_graph s).
    destruct (gnode_at (l_graph s) a) as [nd|]; [|apply sim_panic]. destruct (edges_get b (g_edges nd)) as [m|]; [|apply sim_fail].
    destruct (attrs_add m k v) as [m' [c|]]; [apply sim_fail_in|apply sim_set_lgraph].
  Qed.
  Lemma sim_ledge_exists a b : simeq (ledge_exists a b) (ledge_exists a b).
  Proof.
    unfold ledge_exists. apply sim_get_bind. intros s. change (l_graph (estate s)) with (l_graph s).
    destruct (gnode_at (l_graph s) a) as [nd|]; [|apply sim_panic]. apply sim_ret. reflexivity.
  Qed.
  Lemma sim_lpush_frame : simeq lpush_frame lpush_frame.
  Proof. unfold lpush_frame. apply sim_get_bind. intros s. apply sim_set_llocals. Qed.
  Lemma sim_lpop_frame : simeq lpop_frame lpop_frame.
  Proof. unfold lpop_frame. apply sim_get_bind. intros s. change (l_locals (estate s)) with (l_locals s). destruct (l_locals s); [apply sim_panic|apply sim_set_llocals]. Qed.
  Lemma sim_lclear_frame : simeq lclear_frame lclear_frame.
  Proof. unfold lclear_frame. apply sim_get_bind. intros s. apply sim_set_llocals. Qed.

  Lemma sim_store_add lv dbg : simeq (store_add lv dbg) (store_add lv (ectx dbg)).
  Proof.
    unfold store_add. apply sim_get_bind. intros s. change (l_store (estate s)) with (map ethunk (l_store s)). rewrite map_length.
    eapply sim_bind; [|intros _ _ _; apply sim_ret; reflexivity].
    replace (map ethunk (l_store s) ++ [{| th_state := TUnforced lv; th_dbg := ectx dbg |}])
      with (map ethunk (l_store s ++ [{| th_state := TUnforced lv; th_dbg := dbg |}])) by (rewrite map_app; reflexivity).
    apply sim_set_lstore.
  Qed.
  Lemma sim_store_set_state loc st : simeq (store_set_state loc st) (store_set_state loc st).
  Proof.
    unfold store_set_state. apply sim_get_bind. intros s. change (l_store (estate s)) with (map ethunk (l_store s)).
    rewrite <- (list_update_map ethunk (fun th => {| th_state := st; th_dbg := th_dbg th |})); [apply sim_set_lstore|]. intros th. reflexivity.
  Qed.
  Lemma sim_cell_get name : sim (fun c c' => c' = option_map ecell c) (cell_get name) (cell_get name).
  Proof. unfold cell_get. apply sim_get_bind. intros s. apply sim_ret. change (l_scoped (estate s)) with (map enamed (l_scoped s)). apply alist_get_enamed. Qed.
  Lemma sim_cell_set name c : simeq (cell_set name c) (cell_set name (ecell c)).
  Proof.
    unfold cell_set. apply sim_get_bind. intros s. change (l_scoped (estate s)) with (map enamed (l_scoped s)).
    rewrite alist_set_enamed. apply sim_set_lscoped.
  Qed.
  Lemma sim_scoped_store_add scope name v dbg : simeq (scoped_store_add scope name v dbg) (scoped_store_add scope name v (ectx dbg)).
  Proof.
    unfold scoped_store_add. eapply sim_bind; [apply sim_cell_get|]. intros c c' ->.
    destruct c as [[ps| |m]|]; cbn [option_map ecell]; try apply sim_fail.
    - replace (map epair ps ++ [(scope, v, ectx dbg)]) with (map epair (ps ++ [(scope, v, dbg)])) by (rewrite map_app; reflexivity).
      apply (sim_cell_set name (SVUnforced (ps ++ [(scope, v, dbg)]))).
    - apply (sim_cell_set name (SVUnforced [(scope, v, dbg)])).
  Qed.
  Lemma sim_lpush_param v : simeq (lpush_param v) (lpush_param v).
  Proof. unfold lpush_param. apply sim_get_bind. intros s. apply sim_set_lparams. Qed.
  Lemma sim_ldrain_params n : simeq (ldrain_params n) (ldrain_params n).
  Proof.
    unfold ldrain_params. apply sim_get_bind. intros s. change (l_params (estate s)) with (l_params s).
    destruct (Nat.ltb (length (l_params s)) n); [apply sim_panic|]. eapply sim_bind; [apply sim_set_lparams|]. intros _ _ _. apply sim_ret. reflexivity.
  Qed.
  Lemma sim_lcall_function f args : simeq (lcall_function call f args) (lcall_function call f args).
  Proof.
    unfold lcall_function. apply sim_get_bind. intros s. change (l_graph (estate s)) with (l_graph s).
    destruct (call f (l_graph s) args) as [[v g']|e|x|]; [|apply sim_fail|apply sim_panic|apply sim_oof].
    eapply sim_bind; [apply sim_set_lgraph|]. intros _ _ _. apply sim_ret. reflexivity.
  Qed.
  Lemma sim_prev_insert k dbg : sim (fun _ _ => True) (prev_insert k dbg) (prev_insert k (ectx dbg)).
  Proof.
    unfold prev_insert. apply sim_get_bind. intros s. change (l_prev (estate s)) with (map eprev (l_prev s)).
    eapply sim_bind; [|intros _ _ _; apply sim_ret; exact I].
    replace ((k, ectx dbg) :: filter (fun e => negb (elem_key_eqb k (fst e))) (map eprev (l_prev s)))
      with (map eprev ((k, dbg) :: filter (fun e => negb (elem_key_eqb k (fst e))) (l_prev s))); [apply sim_set_lprev|].
    cbn [map eprev fst snd]. f_equal. induction (l_prev s) as [|[k0 d0] l IH]; cbn [map filter eprev fst snd]; [reflexivity|].
    destruct (negb (elem_key_eqb k k0)); cbn [map eprev fst snd]; rewrite IH; reflexivity.
  Qed.

  Lemma sim_lunscoped_get name : simeq (lunscoped_get glob name) (lunscoped_get glob name).
  Proof.
    unfold lunscoped_get. destruct (globals_get glob name); [apply sim_ret; reflexivity|]. apply sim_get_bind. intros s.
    change (l_locals (estate s)) with (l_locals s). destruct (varmap_get (l_locals s) name); [apply sim_ret; reflexivity|apply sim_fail].
  Qed.
End Prims.
