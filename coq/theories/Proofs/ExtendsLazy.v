(* Proofs/ExtendsLazy.v — C09 for the lazy interpreter (both phases): a run only extends the graph
   and keeps every node's edge vector strictly ascending by sink (one edge per ordered pair). *)
From TSG Require Import Model.Lazy Proofs.BaseFacts Proofs.Containers Proofs.StrictMeta Proofs.Extends Proofs.LazyMeta Proofs.MonadFacts.
From Coq Require Import Sorted.

Definition graph_sorted (g : graph) : Prop := Forall (fun n => edges_wf (g_edges n)) g.

Lemma graph_wf_sorted g : graph_wf g -> graph_sorted g.
Proof. unfold graph_wf, graph_sorted. intros H. eapply Forall_impl; [|exact H]. intros n (_ & He & _). exact He. Qed.
Lemma gnode_at_sorted g i n : graph_sorted g -> gnode_at g i = Some n -> edges_wf (g_edges n).
Proof. unfold graph_sorted, gnode_at. intros H E. rewrite Forall_forall in H. apply H. eapply nth_error_In; eauto. Qed.
Lemma graph_update_sorted g i f : graph_sorted g -> (forall n, edges_wf (g_edges n) -> edges_wf (g_edges (f n))) -> graph_sorted (graph_update g i f).
Proof. intros H Hf. apply list_update_Forall; assumption. Qed.

Definition lext_ok {A} (m : M lstate A) : Prop :=
  forall s p a s' p', graph_sorted (l_graph s) -> m s p = Ok (a, s', p') ->
    graph_sorted (l_graph s') /\ graph_ext (l_graph s) (l_graph s').

Definition call_extends_sorted (call : ident -> graph -> list value -> res (value * graph)) : Prop :=
  forall f g args v g', graph_sorted g -> call f g args = Ok (v, g') -> graph_sorted g' /\ graph_ext g g'.

Section ExtLazy.
  Context {rx : Type}.
  Variable t : tree.
  Variable fl : file.
  Variable cfg : config.
  Variable glob : globals.
  Variable regexes : list rx.
  Variable find : rx -> str -> option (list (option (N * N))).
  Variable call : ident -> graph -> list value -> res (value * graph).
  Hypothesis Hcall : call_extends_sorted call.

  Lemma lext_ret A (a : A) : lext_ok (ret a).
  Proof. intros s p a' s' p' Hwf H. apply ret_ok in H as (_ & -> & _). split; [exact Hwf|apply graph_ext_refl]. Qed.
  Lemma lext_bind A B (m : M lstate A) (f : A -> M lstate B) : lext_ok m -> (forall a, lext_ok (f a)) -> lext_ok (bind m f).
  Proof.
    intros Hm Hf s p b s' p' Hwf H. apply bind_ok in H as (a & s1 & p1 & E & H).
    destruct (Hm _ _ _ _ _ Hwf E) as [W1 E1]. destruct (Hf a _ _ _ _ _ W1 H) as [W2 E2].
    split; [exact W2|eapply graph_ext_trans; eauto].
  Qed.
  Lemma lext_noresult A (m : M lstate A) : (forall s p a s' p', m s p <> Ok (a, s', p')) -> lext_ok m.
  Proof. intros H s p a s' p' _ E. exfalso. eapply H; eauto. Qed.
  Lemma lext_ctx A c (m : M lstate A) : lext_ok m -> lext_ok (ctx_wrap c m).
  Proof. intros Hm s p a s' p' Hwf H. apply ctx_wrap_ok in H. eapply Hm; eauto. Qed.
  Lemma lext_same_graph A (m : M lstate A) :
    (forall s p a s' p', m s p = Ok (a, s', p') -> l_graph s' = l_graph s) -> lext_ok m.
  Proof. intros H s p a s' p' Hwf E. rewrite (H _ _ _ _ _ E). split; [exact Hwf|apply graph_ext_refl]. Qed.

  Ltac inv_set H := unfold set_lgraph, upd in H; apply modify_ok in H as (-> & _); cbn [l_graph].
  Ltac inv_get H := let s0 := fresh "s0" in let s1 := fresh "s1" in let p1 := fresh "p1" in let E := fresh "E" in
    apply bind_ok in H as (s0 & s1 & p1 & E & H); apply get_ok in E as (-> & -> & ->).

  Lemma lext_add_node : lext_ok ladd_node.
  Proof.
    intros s p n s' p' Hwf H. unfold ladd_node in H. inv_get H.
    unfold add_graph_node in H. apply bind_ok in H as (u & s2 & p2 & E & H). apply ret_ok in H as (_ & -> & _). inv_set E.
    split.
    - apply Forall_app. split; [exact Hwf|]. repeat constructor.
    - apply (proj1 (add_graph_node_ext (l_graph s))).
  Qed.

  Lemma node_attr_add_ok g n nd k v m' :
    graph_sorted g -> gnode_at g n = Some nd -> attrs_add (g_attrs nd) k v = (m', None) ->
    graph_sorted (graph_update g n (with_attrs m')) /\ graph_ext g (graph_update g n (with_attrs m')).
  Proof.
    intros Hwf E Ha. split.
    - apply graph_update_sorted; [exact Hwf|]. intros n0 H0. exact H0.
    - apply graph_update_ext. intros n0 Hn0. rewrite E in Hn0. inversion Hn0; subst. split; cbn; [|apply edges_ext_refl].
      pose proof (attrs_add_ext (g_attrs n0) k v) as Hx. rewrite Ha in Hx. cbn in Hx. apply Hx. reflexivity.
  Qed.

  Lemma lext_add_node_attr n k v : lext_ok (ladd_node_attr n k v).
  Proof.
    intros s p a s' p' Hwf H. unfold ladd_node_attr in H. inv_get H.
    destruct (gnode_at (l_graph s) n) as [nd|] eqn:E; [|discriminate].
    destruct (attrs_add (g_attrs nd) k v) as [m' c] eqn:Ea. destruct c; [discriminate|].
    inv_set H. eapply node_attr_add_ok; eauto.
  Qed.
  Lemma lext_lattr_node_add n k v prev dbg : lext_ok (lattr_node_add n k v prev dbg).
  Proof.
    intros s p a s' p' Hwf H. unfold lattr_node_add in H. inv_get H.
    destruct (gnode_at (l_graph s) n) as [nd|] eqn:E; [|discriminate].
    destruct (attrs_add (g_attrs nd) k v) as [m' c] eqn:Ea. destruct c; [discriminate|].
    inv_set H. eapply node_attr_add_ok; eauto.
  Qed.

  Lemma lext_lattr_edge_add a b k v prev dbg : lext_ok (lattr_edge_add a b k v prev dbg).
  Proof.
    intros s p x s' p' Hwf H. unfold lattr_edge_add in H. inv_get H.
    destruct (gnode_at (l_graph s) a) as [nd|] eqn:E; [|discriminate].
    pose proof (gnode_at_sorted _ _ _ Hwf E) as He.
    destruct (edges_get b (g_edges nd)) as [m|] eqn:E2; [|discriminate].
    pose proof (attrs_add_ext m k v) as Hx. destruct (attrs_add m k v) as [m' c]. cbn [fst snd] in Hx. destruct c; [discriminate|].
    inv_set H. split.
    - apply graph_update_sorted; [exact Hwf|]. intros n0 _. cbn. unfold edges_wf. rewrite edges_set_sinks. exact He.
    - apply graph_update_ext. intros n0 Hn0. rewrite E in Hn0. inversion Hn0; subst. split; cbn; [apply attrs_ext_refl|].
      eapply edges_set_ext; eauto.
  Qed.

  Lemma lext_ledge_add a b ea : lext_ok (ledge_add a b ea).
  Proof.
    intros s p x s' p' Hwf H. unfold ledge_add in H. inv_get H. unfold graph_add_edge in H.
    destruct (gnode_at (l_graph s) a) as [nd|] eqn:E; [|discriminate].
    pose proof (gnode_at_sorted _ _ _ Hwf E) as He.
    pose proof (edges_add_spec b (g_edges nd) He) as S. pose proof (edges_add_ext b _ He) as Hx.
    destruct (edges_add b (g_edges nd)) as [isnew es] eqn:Ea. cbn [snd] in Hx. destruct S as (Hw & Hnew & Hget & _).
    assert (Hs1 : graph_sorted (graph_update (l_graph s) a (with_edges es))).
    { apply graph_update_sorted; [exact Hwf|]. intros n0 _. exact Hw. }
    assert (Hx1 : graph_ext (l_graph s) (graph_update (l_graph s) a (with_edges es))).
    { apply graph_update_ext. intros n0 Hn0. rewrite E in Hn0. inversion Hn0; subst. split; cbn; [apply attrs_ext_refl|exact Hx]. }
    destruct isnew; inv_set H; [|split; assumption].
    (* new edge: its (empty) attribute map is replaced by the statement's debug attributes *)
    assert (Eg : gnode_at (graph_update (l_graph s) a (with_edges es)) a = Some (with_edges es nd)).
    { unfold gnode_at, graph_update. rewrite nth_error_list_update, Nat.eqb_refl. unfold gnode_at in E. rewrite E. reflexivity. }
    split.
    - apply graph_update_sorted; [exact Hs1|]. intros n0 H0. cbn. unfold edges_wf. rewrite edges_set_sinks. exact H0.
    - eapply graph_ext_trans; [exact Hx1|]. apply graph_update_ext. intros n0 Hn0. rewrite Eg in Hn0. inversion Hn0; subst.
      split; cbn; [apply attrs_ext_refl|].
      assert (Hb : edges_get b es = Some []).
      { rewrite Hget, N.eqb_refl. destruct (edges_get b (g_edges nd)) eqn:E3; [|reflexivity].
        assert (true = true) as Ht by reflexivity. apply Hnew in Ht. congruence. }
      eapply edges_set_ext; [exact Hw|exact Hb|]. intros k' v' Hk. discriminate.
  Qed.

  Lemma lext_call f args : lext_ok (lcall_function call f args).
  Proof.
    intros s p v s' p' Hwf H. unfold lcall_function in H. inv_get H.
    destruct (call f (l_graph s) args) as [[v' g']| | |] eqn:E; try discriminate.
    apply bind_ok in H as (u & s2 & p2 & E2 & H). apply ret_ok in H as (_ & -> & _). inv_set E2. eapply Hcall; eauto.
  Qed.

  Lemma lext_poll l : lext_ok (lpoll l).
  Proof. apply lext_same_graph. intros s p a s' p' H. apply poll_ok in H as (-> & _). reflexivity. Qed.

  Ltac same := apply lext_same_graph; intros s p a s' p' H; unfold upd in H; apply modify_ok in H as (-> & _); reflexivity.

  Theorem lexec_file_extends fuel ms : lext_ok (lexec_file t fl cfg glob regexes find call fuel ms).
  Proof.
    apply (Phi_lexec_file t fl cfg glob regexes find call (@lext_ok)) with (good_ctx := fun _ => True).
    - exact lext_ret.
    - exact lext_bind.
    - intros A e _. apply lext_noresult. intros s p a s' p'. discriminate.
    - intros A c1 c2 e _. apply lext_noresult. intros s p a s' p'. discriminate.
    - intros A x. apply lext_noresult. intros s p a s' p'. discriminate.
    - intros A. apply lext_noresult. intros s p a s' p'. discriminate.
    - exact I.
    - intros; exact I.
    - intros A c m _. apply lext_ctx.
    - apply lext_same_graph. intros s p a s' p' H. apply get_ok in H as (_ & -> & _). reflexivity.
    - intros l. unfold set_llocals. same.
    - intros l. unfold set_lstore. same.
    - intros l. unfold set_lscoped. same.
    - intros st. unfold push_lstmt. apply lext_same_graph. intros s p a s' p' H. unfold upd in H. apply modify_ok in H as (-> & _). destruct st; reflexivity.
    - intros l. unfold set_lparams. same.
    - intros l. unfold set_lprev. same.
    - exact lext_poll.
    - exact lext_add_node.
    - exact lext_add_node_attr.
    - exact lext_call.
    - exact lext_lattr_node_add.
    - exact lext_ledge_add.
    - exact lext_lattr_edge_add.
  Qed.
End ExtLazy.

Theorem run_lazy_extends_lemma {rx} t fl cfg supplied budget (regexes : list rx) find call fuel matches g0 s p :
  call_extends_sorted call -> graph_sorted g0 ->
  run_lazy t fl cfg supplied budget regexes find call fuel matches g0 = Ok (s, p) ->
  graph_sorted (l_graph s) /\ graph_ext g0 (l_graph s).
Proof.
  intros Hc Hwf. unfold run_lazy. destruct (check_globals (f_globals fl) (globals_nested supplied)) as [glob| | |]; try discriminate.
  destruct (lexec_file _ _ _ _ _ _ _ _ _ (linit g0) (polls0 budget)) as [[[u s1] p1]| | |] eqn:E; try discriminate.
  intros H; inversion H; subst. exact (lexec_file_extends t fl cfg glob regexes find call Hc fuel _ (linit g0) _ u s p Hwf E).
Qed.
