(* Proofs/SLGraph.v — C02 (strict/lazy whole-run simulation), part 1: graph facts.
   The concrete graph operations performed by `edge` and `attr` statements, as partial functions on
   graphs; an edge insertion can be moved in front of any sequence of attribute insertions; every
   successful operation commutes with appending a fresh node.  No sortedness of the edge vectors
   is needed (the initial graph is arbitrary). *)
From TSG Require Import Model.Graph Proofs.BaseFacts Proofs.Containers.

(* ---- list_update ---- *)
Lemma nth_error_ext {A} (l1 l2 : list A) : (forall i, nth_error l1 i = nth_error l2 i) -> l1 = l2.
Proof.
  revert l2. induction l1 as [|x l1 IH]; intros [|y l2] H.
  - reflexivity.
  - specialize (H 0%nat). discriminate.
  - specialize (H 0%nat). discriminate.
  - pose proof (H 0%nat) as H0. cbn in H0. inversion H0; subst. f_equal. apply IH. intros i. exact (H (S i)).
Qed.

Lemma list_update_twice {A} n (f h : A -> A) l : list_update n f (list_update n h l) = list_update n (fun x => f (h x)) l.
Proof. revert n; induction l as [|x l IH]; intros [|n]; cbn [list_update]; try reflexivity. rewrite IH. reflexivity. Qed.
Lemma list_update_ext {A} n (f h : A -> A) l : (forall x, f x = h x) -> list_update n f l = list_update n h l.
Proof. intros E. revert n; induction l as [|x l IH]; intros [|n]; cbn [list_update]; try reflexivity; [rewrite E|rewrite IH]; reflexivity. Qed.
Lemma list_update_comm {A} n m (f h : A -> A) l : n <> m -> list_update n f (list_update m h l) = list_update m h (list_update n f l).
Proof.
  revert n m; induction l as [|x l IH]; intros [|n] [|m] Hn; cbn [list_update]; try reflexivity; [congruence|].
  rewrite IH; [reflexivity|congruence].
Qed.
Lemma list_update_id {A} n (f : A -> A) l x : nth_error l n = Some x -> f x = x -> list_update n f l = l.
Proof.
  revert n; induction l as [|y l IH]; intros [|n]; cbn [list_update nth_error]; try discriminate.
  - intros [= ->] E. rewrite E. reflexivity.
  - intros H E. rewrite (IH n H E). reflexivity.
Qed.
Lemma list_update_app1 {A} n (f : A -> A) l r x : nth_error l n = Some x -> list_update n f (l ++ r) = list_update n f l ++ r.
Proof.
  revert n; induction l as [|y l IH]; intros [|n]; cbn [list_update nth_error app]; try discriminate; [reflexivity|].
  intros H. rewrite (IH n H). reflexivity.
Qed.
Lemma nth_error_update_same {A} n (f : A -> A) l x : nth_error l n = Some x -> nth_error (list_update n f l) n = Some (f x).
Proof. intros H. rewrite nth_error_list_update, Nat.eqb_refl, H. reflexivity. Qed.
Lemma nth_error_update_other {A} n m (f : A -> A) l : m <> n -> nth_error (list_update n f l) m = nth_error l m.
Proof. intros H. rewrite nth_error_list_update. destruct (Nat.eqb_spec m n); [contradiction|reflexivity]. Qed.

(* ---- edge vectors (no sortedness assumed) ---- *)
Lemma edges_add_new_set b es es' : edges_add b es = (true, es') -> edges_set b [] es' = es'.
Proof.
  revert es'. induction es as [|[s a] es IH]; intros es'; cbn [edges_add].
  - intros [= <-]. cbn [edges_set]. rewrite N.eqb_refl. reflexivity.
  - destruct (N.compare_spec b s) as [->|Hlt|Hgt].
    + discriminate.
    + intros [= <-]. cbn [edges_set]. rewrite N.eqb_refl. reflexivity.
    + destruct (edges_add b es) as [isnew r] eqn:E. intros [= -> <-]. cbn [edges_set].
      destruct (N.eqb_spec b s); [lia|]. rewrite (IH r eq_refl). reflexivity.
Qed.
Lemma edges_get_add d b es m : edges_get d es = Some m -> edges_get d (snd (edges_add b es)) = Some m.
Proof.
  induction es as [|[s a] es IH]; cbn [edges_get edges_add]; [discriminate|].
  destruct (N.compare_spec d s) as [->|Hlt|Hgt]; try discriminate.
  - intros [= ->]. destruct (N.compare_spec b s) as [->|Hl|Hg]; cbn [snd edges_get].
    + rewrite N.compare_refl. reflexivity.
    + destruct (N.compare_spec s b); try lia. rewrite N.compare_refl. reflexivity.
    + destruct (edges_add b es). cbn [snd edges_get]. rewrite N.compare_refl. reflexivity.
  - intros H. destruct (N.compare_spec b s) as [->|Hl|Hg]; cbn [snd edges_get].
    + destruct (N.compare_spec d s); try lia. exact H.
    + destruct (N.compare_spec d b); try lia. destruct (N.compare_spec d s); try lia. exact H.
    + specialize (IH H). destruct (edges_add b es). cbn [snd edges_get] in *. destruct (N.compare_spec d s); try lia. exact IH.
Qed.
Lemma edges_add_set_comm d m' b es m : edges_get d es = Some m ->
  edges_add b (edges_set d m' es) = (fst (edges_add b es), edges_set d m' (snd (edges_add b es))).
Proof.
  induction es as [|[s a] es IH]; cbn [edges_get]; [discriminate|].
  destruct (N.compare_spec d s) as [->|Hlt|Hgt]; try discriminate.
  - intros _. cbn [edges_set]. rewrite N.eqb_refl. cbn [edges_add].
    destruct (N.compare_spec b s) as [->|Hl|Hg]; cbn [fst snd edges_set].
    + rewrite N.eqb_refl. reflexivity.
    + destruct (N.eqb_spec s b); [lia|]. rewrite N.eqb_refl. reflexivity.
    + destruct (edges_add b es). cbn [fst snd edges_set]. rewrite N.eqb_refl. reflexivity.
  - intros H. cbn [edges_set]. destruct (N.eqb_spec d s); [lia|]. cbn [edges_add].
    destruct (N.compare_spec b s) as [->|Hl|Hg]; cbn [fst snd edges_set].
    + destruct (N.eqb_spec d s); [lia|]. reflexivity.
    + destruct (N.eqb_spec d b); [lia|]. destruct (N.eqb_spec d s); [lia|]. reflexivity.
    + rewrite (IH H). destruct (edges_add b es). cbn [fst snd edges_set]. destruct (N.eqb_spec d s); [lia|]. reflexivity.
Qed.

(* ---- the graph operations of `edge` / `attr` statements ---- *)
Inductive aop := AN (n : N) (k : ident) (v : value) | AE (a b : N) (k : ident) (v : value).

Definition apply_edge (e : N * N) (g : graph) : option graph :=
  match graph_add_edge g (fst e) (snd e) with Some (g', _) => Some g' | None => None end.
Definition apply_attr (o : aop) (g : graph) : option graph :=
  match o with
  | AN n k v =>
      match gnode_at g n with
      | None => None
      | Some nd => match attrs_add (g_attrs nd) k v with
                   | (m', None) => Some (graph_update g n (with_attrs m'))
                   | (_, Some _) => None
                   end
      end
  | AE a b k v =>
      match gnode_at g a with
      | None => None
      | Some nd =>
          match edges_get b (g_edges nd) with
          | None => None
          | Some m => match attrs_add m k v with
                      | (m', None) => Some (graph_update g a (with_edges (edges_set b m' (g_edges nd))))
                      | (_, Some _) => None
                      end
          end
      end
  end.

Fixpoint ofold {A} (f : A -> graph -> option graph) (l : list A) (g : graph) : option graph :=
  match l with
  | [] => Some g
  | x :: l' => match f x g with Some g' => ofold f l' g' | None => None end
  end.
Notation apply_edges := (ofold apply_edge).
Notation apply_attrs := (ofold apply_attr).

Lemma ofold_app {A} (f : A -> graph -> option graph) l1 l2 g :
  ofold f (l1 ++ l2) g = match ofold f l1 g with Some g' => ofold f l2 g' | None => None end.
Proof. revert g; induction l1 as [|x l1 IH]; intros g; cbn [ofold app]; [reflexivity|]. destruct (f x g); [apply IH|reflexivity]. Qed.
Lemma ofold_app_ok {A} (f : A -> graph -> option graph) l1 l2 g g1 g2 :
  ofold f l1 g = Some g1 -> ofold f l2 g1 = Some g2 -> ofold f (l1 ++ l2) g = Some g2.
Proof. intros H1 H2. rewrite ofold_app, H1. exact H2. Qed.

Lemma apply_edge_length e g g' : apply_edge e g = Some g' -> length g' = length g.
Proof.
  unfold apply_edge, graph_add_edge. destruct (gnode_at g (fst e)); [|discriminate]. destruct (edges_add (snd e) (g_edges g0)).
  intros [= <-]. apply list_update_length.
Qed.
Lemma apply_attr_length o g g' : apply_attr o g = Some g' -> length g' = length g.
Proof.
  unfold apply_attr. destruct o.
  - destruct (gnode_at g n); [|discriminate]. destruct (attrs_add (g_attrs g0) k v) as [m' [c|]]; [discriminate|].
    intros [= <-]. apply list_update_length.
  - destruct (gnode_at g a); [|discriminate]. destruct (edges_get b (g_edges g0)); [|discriminate].
    destruct (attrs_add a0 k v) as [m' [c|]]; [discriminate|]. intros [= <-]. apply list_update_length.
Qed.
Lemma ofold_length {A} (f : A -> graph -> option graph) : (forall x g g', f x g = Some g' -> length g' = length g) ->
  forall l g g', ofold f l g = Some g' -> length g' = length g.
Proof.
  intros Hf. induction l as [|x l IH]; intros g g'; cbn [ofold]; [intros [= <-]; reflexivity|].
  destruct (f x g) as [g1|] eqn:E; [|discriminate]. intros H. rewrite (IH _ _ H). apply (Hf _ _ _ E).
Qed.

(* appending a node commutes with every successful operation *)
Lemma apply_edge_app e g g' r : apply_edge e g = Some g' -> apply_edge e (g ++ r) = Some (g' ++ r).
Proof.
  unfold apply_edge, graph_add_edge, gnode_at, graph_update. destruct (nth_error g (N.to_nat (fst e))) as [nd|] eqn:E; [|discriminate].
  rewrite (nth_error_app1 g r) by (apply nth_error_Some; congruence). rewrite E.
  destruct (edges_add (snd e) (g_edges nd)) as [isnew es]. intros [= <-]. rewrite (list_update_app1 _ _ _ _ _ E). reflexivity.
Qed.
Lemma apply_attr_app o g g' r : apply_attr o g = Some g' -> apply_attr o (g ++ r) = Some (g' ++ r).
Proof.
  unfold apply_attr, gnode_at, graph_update. destruct o.
  - destruct (nth_error g (N.to_nat n)) as [nd|] eqn:E; [|discriminate].
    rewrite (nth_error_app1 g r) by (apply nth_error_Some; congruence). rewrite E.
    destruct (attrs_add (g_attrs nd) k v) as [m' [c|]]; [discriminate|]. intros [= <-]. rewrite (list_update_app1 _ _ _ _ _ E). reflexivity.
  - destruct (nth_error g (N.to_nat a)) as [nd|] eqn:E; [|discriminate].
    rewrite (nth_error_app1 g r) by (apply nth_error_Some; congruence). rewrite E.
    destruct (edges_get b (g_edges nd)); [|discriminate].
    destruct (attrs_add a0 k v) as [m' [c|]]; [discriminate|]. intros [= <-]. rewrite (list_update_app1 _ _ _ _ _ E). reflexivity.
Qed.
Lemma ofold_app_node {A} (f : A -> graph -> option graph) r : (forall x g g', f x g = Some g' -> f x (g ++ r) = Some (g' ++ r)) ->
  forall l g g', ofold f l g = Some g' -> ofold f l (g ++ r) = Some (g' ++ r).
Proof.
  intros Hf. induction l as [|x l IH]; intros g g'; cbn [ofold]; [intros [= <-]; reflexivity|].
  destruct (f x g) as [g1|] eqn:E; [|discriminate]. intros H. rewrite (Hf _ _ _ E). apply IH, H.
Qed.

(* an edge insertion after an attribute insertion = the same two in the other order *)
Lemma swap_attr_edge o e g g1 g2 : apply_attr o g = Some g1 -> apply_edge e g1 = Some g2 ->
  exists g1', apply_edge e g = Some g1' /\ apply_attr o g1' = Some g2.
Proof.
  destruct e as [a b]. unfold apply_edge, graph_add_edge, gnode_at, graph_update. cbn [fst snd]. destruct o as [n k v|c d k v]; cbn [apply_attr]; unfold gnode_at, graph_update.
  - destruct (nth_error g (N.to_nat n)) as [nd|] eqn:En; [|discriminate].
    destruct (attrs_add (g_attrs nd) k v) as [m' [cf|]] eqn:Ea; [discriminate|]. intros [= <-].
    rewrite nth_error_list_update. destruct (Nat.eqb_spec (N.to_nat a) (N.to_nat n)) as [Han|Han].
    + rewrite Han, En. cbn [option_map with_attrs g_edges]. destruct (edges_add b (g_edges nd)) as [isnew es]. intros [= <-].
      eexists. split; [reflexivity|]. rewrite (nth_error_update_same _ _ _ _ En). cbn [with_edges g_attrs]. rewrite Ea.
      f_equal. rewrite !list_update_twice. apply list_update_ext. intros x. reflexivity.
    + destruct (nth_error g (N.to_nat a)) as [na|] eqn:Ena; [|discriminate].
      destruct (edges_add b (g_edges na)) as [isnew es]. intros [= <-].
      eexists. split; [reflexivity|]. rewrite nth_error_update_other by congruence. rewrite En, Ea.
      f_equal. apply list_update_comm. congruence.
  - destruct (nth_error g (N.to_nat c)) as [nd|] eqn:En; [|discriminate].
    destruct (edges_get d (g_edges nd)) as [m|] eqn:Eg; [|discriminate].
    destruct (attrs_add m k v) as [m' [cf|]] eqn:Ea; [discriminate|]. intros [= <-].
    rewrite nth_error_list_update. destruct (Nat.eqb_spec (N.to_nat a) (N.to_nat c)) as [Hac|Hac].
    + rewrite Hac, En. cbn [option_map with_edges g_edges]. rewrite (edges_add_set_comm d m' b _ m Eg).
      destruct (edges_add b (g_edges nd)) as [isnew es] eqn:Eadd. cbn [fst snd]. intros [= <-].
      eexists. split; [reflexivity|]. rewrite (nth_error_update_same _ _ _ _ En). cbn [with_edges g_edges].
      pose proof (edges_get_add d b _ m Eg) as Hg. rewrite Eadd in Hg. cbn [snd] in Hg. rewrite Hg, Ea.
      f_equal. rewrite !list_update_twice. apply list_update_ext. intros x. reflexivity.
    + destruct (nth_error g (N.to_nat a)) as [na|] eqn:Ena; [|discriminate].
      destruct (edges_add b (g_edges na)) as [isnew es]. intros [= <-].
      eexists. split; [reflexivity|]. rewrite nth_error_update_other by congruence. rewrite En, Eg, Ea.
      f_equal. apply list_update_comm. congruence.
Qed.

(* ... hence in front of any sequence of attribute insertions *)
Lemma edge_before_attrs e : forall aops g g1 g2, apply_attrs aops g = Some g1 -> apply_edge e g1 = Some g2 ->
  exists g', apply_edge e g = Some g' /\ apply_attrs aops g' = Some g2.
Proof.
  induction aops as [|o aops IH]; intros g g1 g2; cbn [ofold].
  - intros [= <-] H. exists g2. auto.
  - destruct (apply_attr o g) as [g0|] eqn:Eo; [|discriminate]. intros H1 H2.
    destruct (IH g0 g1 g2 H1 H2) as (g0' & He & Ha).
    destruct (swap_attr_edge o e g g0 g0' Eo He) as (g' & He' & Ho'). exists g'. split; [exact He'|]. rewrite Ho'. exact Ha.
Qed.

(* LazyGraph: `ledge_add` on a new edge re-sets its (empty) attributes: no change *)
Lemma edge_reset_id g a b g' : graph_add_edge g a b = Some (g', true) ->
  graph_update g' a (fun nd => with_edges (edges_set b [] (g_edges nd)) nd) = g'.
Proof.
  unfold graph_add_edge, gnode_at, graph_update. destruct (nth_error g (N.to_nat a)) as [nd|] eqn:E; [|discriminate].
  destruct (edges_add b (g_edges nd)) as [isnew es] eqn:Ea. intros [= <- ->].
  apply (list_update_id _ _ _ (with_edges es nd)); [apply nth_error_update_same, E|].
  cbn [with_edges g_edges g_attrs]. rewrite (edges_add_new_set b _ _ Ea). reflexivity.
Qed.
