(* Proofs/HashOrder.v — C12: at every place where the code iterates a hash container, the observable
   result does not depend on the iteration order.  The order is modelled as an arbitrary Permutation of
   the association list; keys are unique (NoDup (map fst l)), as in a HashMap/HashSet. *)
From TSG Require Import Model.HashOrder Model.Run Proofs.BaseFacts Proofs.OrderFacts Proofs.Containers Proofs.JsonFacts Proofs.PrettyFacts.
From Coq Require Import Sorted Permutation.

(* ================= str_cmp is a strict total order ================= *)
Lemma str_order_lemma : forall a b c,
  (str_cmp a b = Eq <-> a = b) /\
  str_cmp b a = CompOpp (str_cmp a b) /\
  (str_cmp a b = Lt -> str_cmp b c = Lt -> str_cmp a c = Lt).
Proof. intros a b c. split; [apply str_cmp_eq|]. split; [apply str_cmp_antisym|apply str_cmp_trans]. Qed.

Lemma str_lt_irrefl a : ~ str_lt a a.
Proof. unfold str_lt. rewrite str_cmp_refl. discriminate. Qed.
Lemma str_lt_asym a b : str_lt a b -> str_lt b a -> False.
Proof. unfold str_lt. intros H1 H2. rewrite str_cmp_antisym, H1 in H2. discriminate. Qed.

(* ================= insertion sort by a key with the string order ================= *)
Section SortKey.
  Context {A : Type} (key : A -> str).
  Definition kltb (a b : A) : bool := str_ltb (key a) (key b).
  Definition kle (a b : A) : Prop := str_le (key a) (key b).
  Definition klt (a b : A) : Prop := str_lt (key a) (key b).

  Lemma insert_key_sorted x l : StronglySorted kle l -> StronglySorted kle (insert_sorted kltb x l).
  Proof.
    induction 1 as [|y l Hs IH Hall]; cbn [insert_sorted].
    - repeat constructor.
    - unfold kltb at 1. destruct (str_ltb (key x) (key y)) eqn:E.
      + constructor; [constructor; assumption|]. constructor.
        * apply str_ltb_true_le; assumption.
        * eapply Forall_impl; [|exact Hall]. intros z Hz. unfold kle in *.
          eapply str_le_trans; [apply str_ltb_true_le; eassumption|exact Hz].
      + constructor; [exact IH|]. apply Forall_forall. intros z Hz.
        eapply Permutation_in in Hz; [|symmetry; apply insert_sorted_perm].
        destruct Hz as [<-|Hz]; [apply str_ltb_false_le; assumption|].
        rewrite Forall_forall in Hall. auto.
  Qed.
  Lemma sort_key_sorted l : StronglySorted kle (sort_by kltb l).
  Proof.
    unfold sort_by. induction l as [|x l IH]; cbn [fold_right]; [constructor|].
    apply insert_key_sorted. exact IH.
  Qed.

  (* with unique keys the sorted list is STRICTLY sorted *)
  Lemma sorted_key_strict l : StronglySorted kle l -> NoDup (map key l) -> StronglySorted klt l.
  Proof.
    induction 1 as [|x l Hs IH Hall]; cbn [map]; intros Hnd; [constructor|].
    inversion Hnd as [|? ? Hnotin Hnd']; subst. constructor; [auto|].
    apply Forall_forall. intros y Hy. rewrite Forall_forall in Hall. specialize (Hall _ Hy).
    unfold kle, str_le in Hall. unfold klt, str_lt.
    destruct (str_cmp (key x) (key y)) eqn:E; try congruence.
    apply str_cmp_eq in E. exfalso. apply Hnotin. rewrite E. apply in_map. assumption.
  Qed.

  (* a strictly sorted list is determined by its elements *)
  Lemma strict_sorted_unique l : forall l', StronglySorted klt l -> StronglySorted klt l' -> Permutation l l' -> l = l'.
  Proof.
    induction l as [|x l IH]; intros l' Hs Hs' Hp.
    - apply Permutation_nil in Hp. congruence.
    - destruct l' as [|y l']; [apply Permutation_sym, Permutation_nil in Hp; discriminate|].
      inversion Hs as [|? ? Hs1 Hall1]; subst. inversion Hs' as [|? ? Hs2 Hall2]; subst.
      rewrite Forall_forall in Hall1, Hall2.
      assert (Exy : x = y).
      { assert (Hx : In x (y :: l')) by (eapply Permutation_in; [exact Hp|left; reflexivity]).
        assert (Hy : In y (x :: l)) by (eapply Permutation_in; [symmetry; exact Hp|left; reflexivity]).
        destruct Hx as [->|Hx]; [reflexivity|]. destruct Hy as [->|Hy]; [reflexivity|].
        exfalso. exact (str_lt_asym _ _ (Hall1 _ Hy) (Hall2 _ Hx)). }
      subst y. f_equal. apply IH; try assumption. eapply Permutation_cons_inv. exact Hp.
  Qed.

  (* THE general lemma: sorting by a key that is unique in the list forgets the input order *)
  Lemma sort_by_key_perm l l' : Permutation l l' -> NoDup (map key l) -> sort_by kltb l = sort_by kltb l'.
  Proof.
    intros Hp Hnd.
    assert (Hnd' : NoDup (map key l')) by (eapply Permutation_NoDup; [apply Permutation_map; exact Hp|exact Hnd]).
    apply strict_sorted_unique.
    - apply sorted_key_strict; [apply sort_key_sorted|].
      eapply Permutation_NoDup; [apply Permutation_map, sort_by_perm|exact Hnd].
    - apply sorted_key_strict; [apply sort_key_sorted|].
      eapply Permutation_NoDup; [apply Permutation_map, sort_by_perm|exact Hnd'].
    - eapply Permutation_trans; [symmetry; apply sort_by_perm|].
      eapply Permutation_trans; [exact Hp|apply sort_by_perm].
  Qed.
End SortKey.

(* instances: association lists sorted by name, plain lists of strings *)
Lemma sort_alist_perm_eq {V} (l l' : list (ident * V)) :
  Permutation l l' -> NoDup (map fst l) -> sort_alist l = sort_alist l'.
Proof. intros Hp Hnd. exact (sort_by_key_perm fst l l' Hp Hnd). Qed.

Lemma sort_strs_perm_eq (l l' : list str) : Permutation l l' -> NoDup l -> sort_by str_ltb l = sort_by str_ltb l'.
Proof.
  intros Hp Hnd. apply (sort_by_key_perm (fun s : str => s) l l' Hp). rewrite map_id. exact Hnd.
Qed.

(* ================= site 5: containers that are only looked up ================= *)
Lemma alist_get_perm_lemma {V} (l l' : list (ident * V)) k :
  Permutation l l' -> NoDup (map fst l) -> alist_get k l = alist_get k l'.
Proof.
  intros Hp Hnd.
  assert (Hnd' : NoDup (map fst l')) by (eapply Permutation_NoDup; [apply Permutation_map; exact Hp|exact Hnd]).
  destruct (alist_get k l) as [v|] eqn:E.
  - symmetry. apply alist_In_get; [assumption|]. eapply Permutation_in; [exact Hp|]. apply alist_get_In. assumption.
  - symmetry. apply alist_get_None. rewrite alist_get_None in E. intros Hin. apply E.
    eapply Permutation_in; [symmetry; apply Permutation_map; exact Hp|assumption].
Qed.

Lemma existsb_perm_lemma {A} (f : A -> bool) l l' : Permutation l l' -> existsb f l = existsb f l'.
Proof.
  induction 1 as [|x l l' Hp IH|x y l|l l' l'' Hp1 IH1 Hp2 IH2]; cbn [existsb].
  - reflexivity.
  - rewrite IH. reflexivity.
  - destruct (f x), (f y); reflexivity.
  - congruence.
Qed.

(* HashMap<SyntaxNodeID, _> (forced scoped cells): lookup by numeric key *)
Lemma nmap_get_perm_lemma (m m' : list (N * lvalue)) n :
  Permutation m m' -> NoDup (map fst m) -> nmap_get m n = nmap_get m' n.
Proof.
  induction 1 as [|[k v] m m' Hp IH|[k1 v1] [k2 v2] m|m m' m'' Hp1 IH1 Hp2 IH2]; intros Hnd.
  - reflexivity.
  - cbn [nmap_get]. inversion Hnd; subst. rewrite IH by assumption. reflexivity.
  - cbn [nmap_get]. destruct (N.eqb_spec n k2) as [E2|H2]; destruct (N.eqb_spec n k1) as [E1|H1]; try reflexivity.
    exfalso. cbn [map fst] in Hnd. inversion Hnd as [|? ? Hnotin _]; subst. apply Hnotin. left. reflexivity.
  - rewrite IH1, IH2; auto. eapply Permutation_NoDup; [|exact Hnd]. apply Permutation_map. assumption.
Qed.

(* ================= site 1: Display for Attributes / pretty_print ================= *)
Lemma attr_plines_perm E (m m' : amap) : Permutation m m' -> NoDup (map fst m) -> attr_plines E m = attr_plines E m'.
Proof. intros Hp Hnd. unfold attr_plines. rewrite (sort_alist_perm_eq m m' Hp Hnd). reflexivity. Qed.

Lemma attr_lines_perm E (m m' : amap) : Permutation m m' -> NoDup (map fst m) -> attr_lines E m = attr_lines E m'.
Proof. intros Hp Hnd. unfold attr_lines. rewrite (sort_alist_perm_eq m m' Hp Hnd). reflexivity. Qed.

Lemma edge_plines_eqv E i (es fs : list (N * amap)) :
  Forall (fun e => attrs_wf (snd e)) es -> Forall2 edge_eqv es fs ->
  flat_map (edge_plines E i) es = flat_map (edge_plines E i) fs.
Proof.
  intros Hwf H. induction H as [|e f es fs [Hs Hp] Hes IH]; [reflexivity|].
  inversion Hwf as [|? ? Hw Hwf']; subst. cbn [flat_map]. rewrite (IH Hwf'). f_equal.
  unfold edge_plines. rewrite Hs, (attr_plines_perm E _ _ Hp Hw). reflexivity.
Qed.

Lemma node_plines_eqv E i n n' : gnode_wf n -> gnode_eqv n n' -> node_plines E i n = node_plines E i n'.
Proof.
  intros (Ha & _ & He) [Hp Hes]. unfold node_plines.
  rewrite (attr_plines_perm E _ _ Hp Ha), (edge_plines_eqv E i _ _ He Hes). reflexivity.
Qed.

Lemma graph_plines_eqv E g g' : graph_wf g -> graph_eqv g g' -> forall i, graph_plines E i g = graph_plines E i g'.
Proof.
  intros Hwf H. induction H as [|n n' g g' Hn Hg IH]; intros i; [reflexivity|].
  inversion Hwf as [|? ? Hw Hwf']; subst. cbn [graph_plines].
  rewrite (node_plines_eqv E i n n' Hw Hn), (IH Hwf'). reflexivity.
Qed.

Lemma pretty_graph_perm_lemma E g g' : graph_wf g -> graph_eqv g g' ->
  pretty_lines E g = pretty_lines E g' /\ pretty_text E g = pretty_text E g'.
Proof.
  intros Hwf He. assert (H : pretty_lines E g = pretty_lines E g').
  { unfold pretty_lines, pretty_plines. rewrite (graph_plines_eqv E g g' Hwf He 0). reflexivity. }
  split; [exact H|]. unfold pretty_text. rewrite H. reflexivity.
Qed.

(* the canonical graph observation of the correspondence streams (Run.canon_graph) *)
Lemma canon_edges_eqv (es fs : list (N * amap)) :
  Forall (fun e => attrs_wf (snd e)) es -> Forall2 edge_eqv es fs ->
  map (fun e => (fst e, canon_attrs (snd e))) es = map (fun e => (fst e, canon_attrs (snd e))) fs.
Proof.
  intros Hwf H. induction H as [|e f es fs [Hs Hp] Hes IH]; [reflexivity|].
  inversion Hwf as [|? ? Hw Hwf']; subst. cbn [map]. rewrite (IH Hwf'), Hs. unfold canon_attrs.
  rewrite (sort_alist_perm_eq _ _ Hp Hw). reflexivity.
Qed.
Lemma canon_graph_perm_lemma g g' : graph_wf g -> graph_eqv g g' -> canon_graph g = canon_graph g'.
Proof.
  intros Hwf H. unfold canon_graph. induction H as [|n n' g g' [Hp Hes] Hg IH]; [reflexivity|].
  inversion Hwf as [|? ? (Ha & _ & He) Hwf']; subst. cbn [map]. rewrite (IH Hwf'). unfold canon_attrs at 1 3.
  rewrite (sort_alist_perm_eq _ _ Hp Ha), (canon_edges_eqv _ _ He Hes). reflexivity.
Qed.

(* ================= site 2: Serialize for Attributes (JSON member order) ================= *)
Lemma jsort_obj m :
  jsort (JObj m) = JObj (sort_by (fun a b => str_ltb (fst a) (fst b)) (map (fun kv => (fst kv, jsort (snd kv))) m)).
Proof. reflexivity. Qed.
Lemma jsort_arr l : jsort (JArr l) = JArr (map jsort l).
Proof. reflexivity. Qed.

Lemma jsort_attrs_perm (m m' : amap) : Permutation m m' -> NoDup (map fst m) ->
  jsort (encode_attrs m) = jsort (encode_attrs m').
Proof.
  intros Hp Hnd. unfold encode_attrs. rewrite !jsort_obj, !map_map. cbn [fst snd]. f_equal.
  apply (sort_by_key_perm (@fst str json)).
  - apply Permutation_map. exact Hp.
  - rewrite map_map. cbn [fst]. exact Hnd.
Qed.

Lemma jsort_edges_eqv (es fs : list (N * amap)) :
  Forall (fun e => attrs_wf (snd e)) es -> Forall2 edge_eqv es fs ->
  map jsort (map encode_edge es) = map jsort (map encode_edge fs).
Proof.
  intros Hwf H. induction H as [|e f es fs [Hs Hp] Hes IH]; [reflexivity|].
  inversion Hwf as [|? ? Hw Hwf']; subst. cbn [map]. rewrite (IH Hwf'). f_equal.
  unfold encode_edge. rewrite !jsort_obj. cbn [map fst snd]. rewrite Hs, (jsort_attrs_perm _ _ Hp Hw). reflexivity.
Qed.

Lemma jsort_node_eqv i n n' : gnode_wf n -> gnode_eqv n n' -> jsort (encode_node i n) = jsort (encode_node i n').
Proof.
  intros (Ha & _ & He) [Hp Hes]. unfold encode_node. rewrite !jsort_obj. cbn [map fst snd].
  rewrite !jsort_arr, (jsort_edges_eqv _ _ He Hes), (jsort_attrs_perm _ _ Hp Ha). reflexivity.
Qed.

Lemma jsort_nodes_eqv g g' : graph_wf g -> graph_eqv g g' -> forall i,
  map jsort (encode_nodes i g) = map jsort (encode_nodes i g').
Proof.
  intros Hwf H. induction H as [|n n' g g' Hn Hg IH]; intros i; [reflexivity|].
  inversion Hwf as [|? ? Hw Hwf']; subst. cbn [encode_nodes map].
  rewrite (jsort_node_eqv i n n' Hw Hn), (IH Hwf'). reflexivity.
Qed.

(* jperm between the two encodings, so that the C14 theorems about member order apply *)
Lemma Forall2_jperm_refl l : Forall2 jperm l l.
Proof. induction l; constructor; auto using jperm_refl. Qed.
Lemma Forall2_member_refl (m : list (str * json)) : Forall2 (fun a b => fst a = fst b /\ jperm (snd a) (snd b)) m m.
Proof. induction m; constructor; auto using jperm_refl. Qed.

Lemma jperm_attrs_perm (m m' : amap) : Permutation m m' -> jperm (encode_attrs m) (encode_attrs m').
Proof.
  intros Hp. unfold encode_attrs. eapply jp_obj; [apply Forall2_member_refl|]. apply Permutation_map. exact Hp.
Qed.
Lemma jperm_edges_eqv (es fs : list (N * amap)) : Forall2 edge_eqv es fs ->
  Forall2 jperm (map encode_edge es) (map encode_edge fs).
Proof.
  induction 1 as [|e f es fs [Hs Hp] Hes IH]; cbn [map]; constructor; [|exact IH].
  unfold encode_edge. rewrite Hs. eapply jp_obj; [|apply Permutation_refl].
  constructor; [split; [reflexivity|apply jperm_refl]|].
  constructor; [split; [reflexivity|apply jperm_attrs_perm; exact Hp]|]. constructor.
Qed.
Lemma jperm_node_eqv i n n' : gnode_eqv n n' -> jperm (encode_node i n) (encode_node i n').
Proof.
  intros [Hp Hes]. unfold encode_node. eapply jp_obj; [|apply Permutation_refl].
  constructor; [split; [reflexivity|apply jperm_refl]|].
  constructor; [split; [reflexivity|cbn [snd]; constructor; apply jperm_edges_eqv; exact Hes]|].
  constructor; [split; [reflexivity|apply jperm_attrs_perm; exact Hp]|]. constructor.
Qed.
Lemma jperm_nodes_eqv g g' : graph_eqv g g' -> forall i, Forall2 jperm (encode_nodes i g) (encode_nodes i g').
Proof.
  induction 1 as [|n n' g g' Hn Hg IH]; intros i; cbn [encode_nodes]; constructor; auto using jperm_node_eqv.
Qed.

Lemma json_graph_perm_lemma g g' : graph_wf g -> graph_eqv g g' ->
  jsort (encode_graph g) = jsort (encode_graph g') /\
  jperm (encode_graph g) (encode_graph g') /\
  (forall j', jperm (encode_graph g') j' ->
     exists g'', decode_graph j' = Some g'' /\ graph_eqv g g'' /\ graph_same_maps g g'').
Proof.
  intros Hwf He. split; [|split].
  - unfold encode_graph. rewrite !jsort_arr, (jsort_nodes_eqv g g' Hwf He 0). reflexivity.
  - unfold encode_graph. constructor. apply jperm_nodes_eqv. exact He.
  - intros j' Hj. destruct (json_member_order_lemma g' j' Hj) as (g'' & Hd & He').
    assert (He'' : graph_eqv g g'').
    { clear - He He'. revert g'' He'. induction He as [|n n' g g' [Hp Hes] Hg IH]; intros g'' He'; inversion He' as [|? n'' ? g3 [Hp' Hes'] Hg']; subst; constructor.
      - split; [eapply Permutation_trans; eassumption|].
        clear - Hes Hes'. revert Hes'. generalize (g_edges n''). induction Hes as [|e f es fs [H1 H2] _ IHe]; intros hs Hes'; inversion Hes' as [|? h ? hs' [H3 H4] Hes'']; subst; constructor.
        + split; [congruence|eapply Permutation_trans; eassumption].
        + apply IHe. assumption.
      - apply IH. assumption. }
    exists g''. split; [exact Hd|]. split; [exact He''|]. apply graph_eqv_same_maps; assumption.
Qed.

(* ================= site 3: the unused-captures diagnostic ================= *)
Lemma filter_perm {A} (f : A -> bool) l l' : Permutation l l' -> Permutation (filter f l) (filter f l').
Proof.
  induction 1 as [|x l l' Hp IH|x y l|l l' l'' Hp1 IH1 Hp2 IH2]; cbn [filter].
  - constructor.
  - destruct (f x); [constructor|]; exact IH.
  - destruct (f x), (f y); try reflexivity. apply perm_swap.
  - eapply Permutation_trans; eassumption.
Qed.

Lemma is_unused_perm used used' c : Permutation used used' -> is_unused used c = is_unused used' c.
Proof. intros Hp. unfold is_unused. rewrite (existsb_perm_lemma _ _ _ Hp). reflexivity. Qed.

Lemma NoDup_map_at (l : list ident) : NoDup l -> NoDup (map (fun c : ident => 64 :: c) l).
Proof.
  induction 1 as [|x l Hn Hnd IH]; cbn [map]; constructor; [|exact IH].
  intros Hin. apply in_map_iff in Hin. destruct Hin as (y & Hy & Hin). inversion Hy; subst. auto.
Qed.

Lemma unused_unsorted_perm all all' used used' : Permutation all all' -> Permutation used used' ->
  Permutation (unused_unsorted all used) (unused_unsorted all' used').
Proof.
  intros Ha Hu. unfold unused_unsorted. apply Permutation_map.
  rewrite (filter_ext _ _ (fun c => is_unused_perm used used' c Hu)). apply filter_perm. exact Ha.
Qed.

Lemma unused_names_perm_lemma all all' used used' :
  Permutation all all' -> Permutation used used' -> NoDup all ->
  unused_names all used = unused_names all' used' /\ unused_message all used = unused_message all' used'.
Proof.
  intros Ha Hu Hnd.
  assert (H : unused_names all used = unused_names all' used').
  { unfold unused_names. apply sort_strs_perm_eq; [apply unused_unsorted_perm; assumption|].
    unfold unused_unsorted. apply NoDup_map_at. apply NoDup_filter. exact Hnd. }
  split; [exact H|]. unfold unused_message. rewrite H. reflexivity.
Qed.

(* what the diagnostic lists: exactly the names of `all` that are not used and do not start with '_' *)
Lemma unused_names_spec_lemma all used s :
  In s (unused_names all used) <->
  exists c, s = 64 :: c /\ In c all /\ ~ In c used /\ starts_with_underscore c = false.
Proof.
  unfold unused_names. rewrite sort_by_In. unfold unused_unsorted. rewrite in_map_iff. split.
  - intros (c & <- & Hc). apply filter_In in Hc. destruct Hc as [Hin Hf]. unfold is_unused in Hf.
    apply andb_true_iff in Hf. destruct Hf as [H1 H2]. apply negb_true_iff in H1, H2.
    exists c. repeat split; try assumption. intros Hu.
    assert (existsb (str_eqb c) used = true) by (apply existsb_exists; exists c; split; [assumption|apply str_eqb_refl]).
    congruence.
  - intros (c & -> & Hin & Hnu & Hus). exists c. split; [reflexivity|]. apply filter_In. split; [assumption|].
    unfold is_unused. rewrite Hus. cbn [negb andb]. rewrite andb_true_r. apply negb_true_iff.
    destruct (existsb (str_eqb c) used) eqn:E; [|reflexivity].
    apply existsb_exists in E. destruct E as (u & Hu & Heq). apply str_eqb_eq in Heq. subst u. contradiction.
Qed.

(* ================= site 4: LazyScopedVariables::evaluate_all ================= *)
Lemma sorted_names_perm_lemma {V} (l l' : list (ident * V)) :
  Permutation l l' -> NoDup (map fst l) -> map fst (sort_alist l) = map fst (sort_alist l').
Proof. intros Hp Hnd. rewrite (sort_alist_perm_eq l l' Hp Hnd). reflexivity. Qed.

Lemma scoped_force_order_sorted {V} (l : list (ident * V)) : NoDup (map fst l) ->
  StronglySorted str_lt (scoped_force_order l) /\ Permutation (map fst l) (scoped_force_order l).
Proof.
  intros Hnd. unfold scoped_force_order. split.
  - apply sorted_nodup_strict; [apply sort_alist_sorted|].
    eapply Permutation_NoDup; [apply Permutation_map, sort_alist_perm|exact Hnd].
  - apply Permutation_map, sort_alist_perm.
Qed.

Section LazySite.
  Variable t : tree.
  Variable fl : file.
  Variable call : ident -> graph -> list value -> res (value * graph).

  (* what evaluate_all does with one name *)
  Definition force_one (fuel : nat) (name : ident) : M lstate unit :=
    c <- cell_get name ;;
    match c with
    | None => ret tt
    | Some cell =>
        cell_set name SVForcing ;;;
        map <- force_scoped t fl call fuel name cell ;;
        cell_set name (SVForced map)
    end.

  (* the model's evaluate_all IS the iteration of force_one over the name-sorted keys of the store *)
  Lemma scoped_evaluate_all_unfold fuel s p :
    scoped_evaluate_all t fl call fuel s p = iterM (force_one fuel) (scoped_force_order (l_scoped s)) s p.
  Proof. reflexivity. Qed.

  (* two stores holding the same cells in different (hash) orders are forced in the same order of names:
     the first failing name, hence the reported error, is chosen independently of the hash order *)
  Lemma lazy_force_order_lemma fuel (s s' : lstate) p p' :
    Permutation (l_scoped s) (l_scoped s') -> NoDup (map fst (l_scoped s)) ->
    exists names,
      StronglySorted str_lt names /\ Permutation (map fst (l_scoped s)) names /\
      scoped_evaluate_all t fl call fuel s p = iterM (force_one fuel) names s p /\
      scoped_evaluate_all t fl call fuel s' p' = iterM (force_one fuel) names s' p'.
  Proof.
    intros Hp Hnd. exists (scoped_force_order (l_scoped s)).
    split; [apply scoped_force_order_sorted; exact Hnd|]. split; [apply scoped_force_order_sorted; exact Hnd|].
    split; [apply scoped_evaluate_all_unfold|]. rewrite scoped_evaluate_all_unfold.
    unfold scoped_force_order. rewrite (sorted_names_perm_lemma _ _ Hp Hnd). reflexivity.
  Qed.
End LazySite.

(* iterM reports the error of the FIRST element (in list order) whose body fails *)
Lemma iterM_first_error {S A} (f : A -> M S unit) (pre : list A) x post s p s1 p1 e :
  iterM f pre s p = Ok (tt, s1, p1) -> f x s1 p1 = Err e -> iterM f (pre ++ x :: post) s p = Err e.
Proof.
  revert s p. induction pre as [|y pre IH]; intros s p Hpre Hx; cbn [app iterM].
  - cbn [iterM] in Hpre. unfold ret in Hpre. inversion Hpre; subst. unfold bind. rewrite Hx. reflexivity.
  - cbn [iterM] in Hpre. unfold bind in Hpre |- *. destruct (f y s p) as [[[u s2] p2]| | |]; try discriminate.
    apply IH; assumption.
Qed.
