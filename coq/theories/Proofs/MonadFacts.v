(* Proofs/MonadFacts.v — inversion lemmas for the interpreter monad. *)
From TSG Require Import Model.Exec.

Section Facts.
  Context {S : Type}.
  Implicit Types (s : S) (p : polls).

  Lemma bind_ok {A B} (m : M S A) (f : A -> M S B) s p b s' p' :
    bind m f s p = Ok (b, s', p') -> exists a s1 p1, m s p = Ok (a, s1, p1) /\ f a s1 p1 = Ok (b, s', p').
  Proof. unfold bind. destruct (m s p) as [[[a s1] p1]| | |]; try discriminate. intros H. exists a, s1, p1. auto. Qed.
  Lemma bind_err {A B} (m : M S A) (f : A -> M S B) s p e :
    bind m f s p = Err e -> m s p = Err e \/ exists a s1 p1, m s p = Ok (a, s1, p1) /\ f a s1 p1 = Err e.
  Proof. unfold bind. destruct (m s p) as [[[a s1] p1]|e'| |]; try discriminate; [right; exists a, s1, p1; auto|left; congruence]. Qed.
  Lemma bind_panic {A B} (m : M S A) (f : A -> M S B) s p x :
    bind m f s p = Panic x -> m s p = Panic x \/ exists a s1 p1, m s p = Ok (a, s1, p1) /\ f a s1 p1 = Panic x.
  Proof. unfold bind. destruct (m s p) as [[[a s1] p1]|e'|y|]; try discriminate; [right; exists a, s1, p1; auto|left; congruence]. Qed.
  Lemma bind_oof {A B} (m : M S A) (f : A -> M S B) s p :
    bind m f s p = OutOfFuel -> m s p = OutOfFuel \/ exists a s1 p1, m s p = Ok (a, s1, p1) /\ f a s1 p1 = OutOfFuel.
  Proof. unfold bind. destruct (m s p) as [[[a s1] p1]|e'|y|]; try discriminate; [right; exists a, s1, p1; auto|left; congruence]. Qed.

  Lemma ret_ok {A} (a : A) s p a' s' p' : ret a s p = Ok (a', s', p') -> a' = a /\ s' = s /\ p' = p.
  Proof. unfold ret. intros H; inversion H; auto. Qed.
  Lemma get_ok s p a s' p' : get_state s p = Ok (a, s', p') -> a = s /\ s' = s /\ p' = p.
  Proof. unfold get_state. intros H; inversion H; auto. Qed.
  Lemma modify_ok (f : S -> S) s p a s' p' : modify f s p = Ok (a, s', p') -> s' = f s /\ p' = p.
  Proof. unfold modify. intros H; inversion H; auto. Qed.
  Lemma lift_ok {A} (r : res A) s p a s' p' : lift r s p = Ok (a, s', p') -> r = Ok a /\ s' = s /\ p' = p.
  Proof. unfold lift. destruct r; try discriminate. intros H; inversion H; auto. Qed.
  Lemma poll_ok l s p a s' p' : poll l s p = Ok (a, s', p') -> s' = s /\ p' = fst (poll_step l p) /\ snd (poll_step l p) = false.
  Proof. unfold poll. destruct (poll_step l p) as [q c]. destruct c; [discriminate|]. intros H; inversion H; auto. Qed.
  Lemma poll_err l s p e : poll l s p = Err e -> e = ECancelled l /\ snd (poll_step l p) = true.
  Proof. unfold poll. destruct (poll_step l p) as [q c]. destruct c; [|discriminate]. intros H; inversion H; auto. Qed.
  Lemma ctx_wrap_ok {A} c (m : M S A) s p a s' p' : ctx_wrap c m s p = Ok (a, s', p') -> m s p = Ok (a, s', p').
  Proof. unfold ctx_wrap. destruct (m s p); try discriminate; auto. Qed.
  Lemma ctx_wrap_err {A} c (m : M S A) s p e : ctx_wrap c m s p = Err e -> exists e0, m s p = Err e0 /\ e = add_context c e0.
  Proof. unfold ctx_wrap. destruct (m s p); try discriminate. intros H; inversion H. eauto. Qed.
  Lemma ctx_wrap_panic {A} c (m : M S A) s p x : ctx_wrap c m s p = Panic x -> m s p = Panic x.
  Proof. unfold ctx_wrap. destruct (m s p); try discriminate; auto. Qed.
  Lemma ctx_wrap_oof {A} c (m : M S A) s p : ctx_wrap c m s p = OutOfFuel -> m s p = OutOfFuel.
  Proof. unfold ctx_wrap. destruct (m s p); try discriminate; auto. Qed.
End Facts.
