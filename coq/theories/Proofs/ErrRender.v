(* Proofs/ErrRender.v — lemmas about Model/ErrRender.v (property C20, rendering of execution errors). *)
From TSG Require Import Model.ErrRender Proofs.ParseErr.
From Coq Require Import Lia.

(* ------------------------------------------------------------------ "occurs in", as a proposition *)

Definition sub (n h : str) : Prop := exists x y, h = x ++ n ++ y.

Lemma sub_contains n h : sub n h -> contains n h = true.
Proof. intros (x & y & ->). apply contains_app. Qed.
Lemma sub_refl n : sub n n.
Proof. exists [], []. rewrite app_nil_r. reflexivity. Qed.
Lemma sub_here n y : sub n (n ++ y).
Proof. exists [], y. reflexivity. Qed.
Lemma sub_app_l n a b : sub n a -> sub n (a ++ b).
Proof. intros (x & y & ->). exists x, (y ++ b). rewrite <- !app_assoc. reflexivity. Qed.
Lemma sub_app_r n a b : sub n b -> sub n (a ++ b).
Proof. intros (x & y & ->). exists (a ++ x), y. rewrite <- app_assoc. reflexivity. Qed.

(* conversely: `contains` finds only real occurrences *)
Lemma is_prefix_inv : forall a b, is_prefix a b = true -> exists y, b = a ++ y.
Proof.
  induction a as [|c a IH]; intros b H; [exists b; reflexivity|].
  destruct b as [|d b]; [discriminate|]. cbn [is_prefix] in H. apply andb_true_iff in H. destruct H as [E H].
  apply N.eqb_eq in E. subst d. destruct (IH b H) as [y ->]. exists y. reflexivity.
Qed.
Lemma contains_sub : forall h n, contains n h = true -> sub n h.
Proof.
  induction h as [|c h IH]; intros n H; cbn [contains] in H.
  - rewrite orb_false_r in H. destruct (is_prefix_inv _ _ H) as [y ->]. apply sub_here.
  - apply orb_true_iff in H. destruct H as [H|H].
    + destruct (is_prefix_inv _ _ H) as [y ->]. apply sub_here.
    + destruct (IH n H) as (x & y & ->). exists (c :: x), y. reflexivity.
Qed.

Lemma is_prefix_cong : forall a x y, is_prefix x y = true -> is_prefix (a ++ x) (a ++ y) = true.
Proof. induction a as [|c a IH]; intros x y H; cbn [app is_prefix]; [exact H|]. rewrite N.eqb_refl, (IH _ _ H). reflexivity. Qed.

(* goal `sub n (a1 ++ a2 ++ .. ++ ak)` where n is one of the ai *)
Ltac sub_find := solve [apply sub_refl | apply sub_here | apply sub_app_r; sub_find].
(* goal `sub n (a1 ++ .. ++ ak)` from H : sub n ai *)
Ltac sub_in H := solve [exact H | apply sub_app_l; exact H | apply sub_app_r; sub_in H].

(* ------------------------------------------------------------------ excerpts *)

Lemma excerpt_ind_0 : forall path src row cs ce, excerpt_ind 0 path src row cs ce = excerpt path src row cs ce.
Proof.
  intros. unfold excerpt_ind, excerpt. cbv zeta. change (spaces 0) with (@nil N).
  destruct (nth_error (lines src) (N.to_nat row)); reflexivity.
Qed.

(* `source.lines().nth(row)` is None: header and "<missing source>", whatever the columns — no slicing, no panic *)
Lemma excerpt_ind_missing : forall ind path src row cs ce,
  nth_error (lines src) (N.to_nat row) = None ->
  excerpt_ind ind path src row cs ce
  = spaces ind ++ cite path row cs ++ [10] ++ spaces ind ++ missing_source ++ [10].
Proof. intros * E. unfold excerpt_ind. cbv zeta. rewrite E. rewrite <- !app_assoc. reflexivity. Qed.

Lemma excerpt_ind_missing_iff_row : forall src row,
  nth_error (lines src) (N.to_nat row) = None <-> (length (lines src) <= N.to_nat row)%nat.
Proof. intros. apply nth_error_None. Qed.

(* the row exists: header, the line behind its number, and the caret line; the number of carets is the length of
   cs..min(ce, byte length of the line), 0 when that range is empty *)
Lemma excerpt_ind_present : forall ind path src row cs ce l,
  nth_error (lines src) (N.to_nat row) = Some l ->
  excerpt_ind ind path src row cs ce
  = spaces ind ++ cite path row cs ++ [10]
    ++ spaces ind ++ dec (row + 1) ++ [32;124;32] ++ l ++ [10]
    ++ spaces ind ++ spaces (gutter_width row) ++ [32;124;32] ++ spaces cs
    ++ carets (N.min ce (utf8_bytes l) - cs) ++ [10].
Proof.
  intros * E. unfold excerpt_ind. cbv zeta. rewrite E. rewrite <- !app_assoc.
  replace (if cs <? N.min ce (utf8_bytes l) then N.min ce (utf8_bytes l) - cs else 0) with (N.min ce (utf8_bytes l) - cs).
  - reflexivity.
  - destruct (N.ltb_spec cs (N.min ce (utf8_bytes l))); lia.
Qed.

(* a Location is underlined by exactly one caret when its column lies inside the line (in bytes), by none otherwise *)
Lemma excerpt_loc_present : forall ind path src r c l,
  nth_error (lines src) (N.to_nat r) = Some l ->
  excerpt_loc ind path src (r, c)
  = spaces ind ++ cite path r c ++ [10]
    ++ spaces ind ++ dec (r + 1) ++ [32;124;32] ++ l ++ [10]
    ++ spaces ind ++ spaces (gutter_width r) ++ [32;124;32] ++ spaces c
    ++ (if c <? utf8_bytes l then [94] else []) ++ [10].
Proof.
  intros * E. unfold excerpt_loc. cbn [fst snd]. rewrite (excerpt_ind_present _ _ _ _ _ _ _ E).
  replace (carets (N.min (c + 1) (utf8_bytes l) - c)) with (if c <? utf8_bytes l then [94] else @nil N); [reflexivity|].
  destruct (N.ltb_spec c (utf8_bytes l)).
  - replace (N.min (c + 1) (utf8_bytes l) - c) with 1 by lia. reflexivity.
  - replace (N.min (c + 1) (utf8_bytes l) - c) with 0 by lia. reflexivity.
Qed.

Lemma excerpt_ind_cites : forall ind path src row cs ce, sub (cite path row cs) (excerpt_ind ind path src row cs ce).
Proof.
  intros. unfold excerpt_ind. cbv zeta.
  destruct (nth_error (lines src) (N.to_nat row)); rewrite <- !app_assoc; apply sub_app_r, sub_here.
Qed.

Lemma excerpt_ind_line : forall ind path src row cs ce l,
  nth_error (lines src) (N.to_nat row) = Some l -> sub l (excerpt_ind ind path src row cs ce).
Proof.
  intros * E. rewrite (excerpt_ind_present _ _ _ _ _ _ _ E). do 6 apply sub_app_r. apply sub_here.
Qed.

Lemma excerpt_loc_cites : forall ind path src l, sub (cite path (fst l) (snd l)) (excerpt_loc ind path src l).
Proof. intros. apply excerpt_ind_cites. Qed.
Lemma excerpt_loc_line : forall ind path src l x,
  nth_error (lines src) (N.to_nat (fst l)) = Some x -> sub x (excerpt_loc ind path src l).
Proof. intros * E. apply excerpt_ind_line, E. Qed.

(* ------------------------------------------------------------------ one statement context *)

Section Render.
  Variable w : wording.
  Variables tp t sp s : str.       (* tsg path, tsg text, source path, source text *)

  (* anything that occurs in one of the three excerpts occurs in the rendering of the statement context *)
  Lemma render_stmt_ex1 i first c n : sub n (excerpt_loc ex_indent tp t (sx_stmt_loc c)) -> sub n (render_stmt w tp t sp s i first c).
  Proof. intros H. unfold render_stmt. sub_in H. Qed.
  Lemma render_stmt_ex2 i first c n : sub n (excerpt_loc ex_indent tp t (sx_stanza_loc c)) -> sub n (render_stmt w tp t sp s i first c).
  Proof. intros H. unfold render_stmt. sub_in H. Qed.
  Lemma render_stmt_ex3 i first c n : sub n (excerpt_loc ex_indent sp s (sx_src_loc c)) -> sub n (render_stmt w tp t sp s i first c).
  Proof. intros H. unfold render_stmt. sub_in H. Qed.
  Lemma render_stmt_text i first c : sub (sx_stmt c) (render_stmt w tp t sp s i first c).
  Proof. unfold render_stmt. sub_find. Qed.
  Lemma render_stmt_kind i first c : sub (sx_kind c) (render_stmt w tp t sp s i first c).
  Proof. unfold render_stmt. sub_find. Qed.

  (* ---------------------------------------------------------------- lifting to the chain *)

  Lemma render_stmts_lift n c : (forall i first, sub n (render_stmt w tp t sp s i first c)) ->
    forall l, In c l -> forall i first, sub n (render_stmts w tp t sp s i first l).
  Proof.
    intros H. induction l as [|d r IH]; intros Hin i first; [destruct Hin|]. cbn [render_stmts].
    destruct Hin as [->|Hin]; [apply sub_app_l, H|apply sub_app_r, IH, Hin].
  Qed.

  Lemma render_from_lift n c cause : (forall i first, sub n (render_stmt w tp t sp s i first c)) ->
    forall cs, In c (all_stmt_ctxs cs) -> forall i, sub n (render_from w tp t sp s i cs cause).
  Proof.
    intros H. induction cs as [|x r IH]; intros Hin i; [destruct Hin|]. cbn [render_from].
    destruct x as [l|msg]; cbn [all_stmt_ctxs] in Hin.
    - apply in_app_or in Hin. destruct Hin as [Hin|Hin].
      + apply sub_app_l. cbn [render_ctx]. apply (render_stmts_lift n c); assumption.
      + apply sub_app_r, IH, Hin.
    - apply sub_app_r, IH, Hin.
  Qed.

  Lemma render_pretty_sub n c ch : (forall i first, sub n (render_stmt w tp t sp s i first c)) ->
    In c (all_stmt_ctxs (ch_ctxs ch)) -> sub n (render_pretty w tp t sp s ch).
  Proof. intros H Hin. unfold render_pretty. apply (render_from_lift n c); assumption. Qed.

  (* (b) every statement context of the chain is cited three times *)
  Lemma render_pretty_cites_lemma : forall ch c, In c (all_stmt_ctxs (ch_ctxs ch)) ->
    contains (cite tp (fst (sx_stmt_loc c)) (snd (sx_stmt_loc c))) (render_pretty w tp t sp s ch) = true /\
    contains (cite tp (fst (sx_stanza_loc c)) (snd (sx_stanza_loc c))) (render_pretty w tp t sp s ch) = true /\
    contains (cite sp (fst (sx_src_loc c)) (snd (sx_src_loc c))) (render_pretty w tp t sp s ch) = true.
  Proof.
    intros ch c Hin. repeat split; apply sub_contains, (render_pretty_sub _ c); try assumption; intros i first.
    - apply render_stmt_ex1, excerpt_loc_cites.
    - apply render_stmt_ex2, excerpt_loc_cites.
    - apply render_stmt_ex3, excerpt_loc_cites.
  Qed.

  (* (c) ... and the cited lines are shown, whenever the given texts have these rows *)
  Lemma render_pretty_shows_lines_lemma : forall ch c, In c (all_stmt_ctxs (ch_ctxs ch)) ->
    (forall l, nth_error (lines t) (N.to_nat (fst (sx_stmt_loc c))) = Some l -> contains l (render_pretty w tp t sp s ch) = true) /\
    (forall l, nth_error (lines t) (N.to_nat (fst (sx_stanza_loc c))) = Some l -> contains l (render_pretty w tp t sp s ch) = true) /\
    (forall l, nth_error (lines s) (N.to_nat (fst (sx_src_loc c))) = Some l -> contains l (render_pretty w tp t sp s ch) = true).
  Proof.
    intros ch c Hin. repeat split; intros l E; apply sub_contains, (render_pretty_sub _ c); try assumption; intros i first.
    - apply render_stmt_ex1, excerpt_loc_line, E.
    - apply render_stmt_ex2, excerpt_loc_line, E.
    - apply render_stmt_ex3, excerpt_loc_line, E.
  Qed.

  (* the statement text and the node kind are shown as well *)
  Lemma render_pretty_shows_stmt_lemma : forall ch c, In c (all_stmt_ctxs (ch_ctxs ch)) ->
    contains (sx_stmt c) (render_pretty w tp t sp s ch) = true /\ contains (sx_kind c) (render_pretty w tp t sp s ch) = true.
  Proof.
    intros ch c Hin. split; apply sub_contains, (render_pretty_sub _ c); try assumption; intros i first.
    - apply render_stmt_text.
    - apply render_stmt_kind.
  Qed.

  (* the executable check of the correspondence verdict (code 63) never fails on the model's own text *)
  Lemma shows_ctx_model : forall ch,
    forallb (shows_ctx tp t sp s (render_pretty w tp t sp s ch)) (all_stmt_ctxs (ch_ctxs ch)) = true.
  Proof.
    intros ch. apply forallb_forall. intros c Hin. unfold shows_ctx.
    destruct (render_pretty_cites_lemma ch c Hin) as (C1 & C2 & C3).
    destruct (render_pretty_shows_lines_lemma ch c Hin) as (L1 & L2 & L3).
    rewrite C1, C2, C3. cbn [andb].
    destruct (nth_error (lines t) (N.to_nat (fst (sx_stmt_loc c)))) as [l1|]; [rewrite (L1 l1 eq_refl)|];
    (destruct (nth_error (lines t) (N.to_nat (fst (sx_stanza_loc c)))) as [l2|]; [rewrite (L2 l2 eq_refl)|]);
    (destruct (nth_error (lines s) (N.to_nat (fst (sx_src_loc c)))) as [l3|]; [rewrite (L3 l3 eq_refl)|]); reflexivity.
  Qed.

  (* ---------------------------------------------------------------- (d) order of the entries *)

  Lemma render_from_entries : forall cs i cause,
    render_from w tp t sp s i cs cause
    = concat (map (fun p => render_ctx w tp t sp s (fst p) (snd p)) (number_from i cs))
      ++ entry_head (i + N.of_nat (length cs)) ++ cause ++ [10].
  Proof.
    induction cs as [|c r IH]; intros i cause.
    - cbn [render_from number_from map concat length app N.of_nat]. rewrite N.add_0_r. reflexivity.
    - cbn [render_from number_from map concat fst snd]. rewrite IH, <- app_assoc.
      replace (i + 1 + N.of_nat (length r)) with (i + N.of_nat (length (c :: r))); [reflexivity|].
      cbn [length]. rewrite Nat2N.inj_succ. lia.
  Qed.

  (* the output is the concatenation of one entry per context, outermost first, numbered 0, 1, .. in chain order,
     followed by the entry of the innermost error, numbered by the number of contexts *)
  Lemma render_pretty_entries_lemma : forall ch,
    render_pretty w tp t sp s ch
    = concat (map (fun p => render_ctx w tp t sp s (fst p) (snd p)) (number_from 0 (ch_ctxs ch)))
      ++ entry_head (N.of_nat (length (ch_ctxs ch))) ++ ch_cause ch ++ [10].
  Proof. intros ch. unfold render_pretty. rewrite render_from_entries. reflexivity. Qed.

  (* an entry starts with its index number, right-aligned in 5 columns, ": ", and for a statement context the
     first phrase and the statement *)
  Lemma render_ctx_head_lemma : forall i c, c <> RStmts [] -> is_prefix (entry_head i) (render_ctx w tp t sp s i c) = true.
  Proof.
    intros i [[|d r]|msg] H; [congruence| |].
    - cbn [render_ctx render_stmts]. unfold render_stmt. cbv beta iota. rewrite <- !app_assoc. apply is_prefix_app.
    - cbn [render_ctx]. apply is_prefix_app.
  Qed.
  Lemma render_ctx_stmt_head_lemma : forall i d r,
    is_prefix (entry_head i ++ w_first w ++ sx_stmt d ++ [10]) (render_ctx w tp t sp s i (RStmts (d :: r))) = true.
  Proof.
    intros. cbn [render_ctx render_stmts]. unfold render_stmt. cbv beta iota. rewrite <- !app_assoc.
    do 3 apply is_prefix_cong. apply is_prefix_app.
  Qed.
End Render.

(* "{:>5}: " really is the decimal numeral of the index, right-aligned *)
Lemma entry_head_eq i : entry_head i = spaces (5 - N.of_nat (length (dec i))) ++ dec i ++ [58;32].
Proof. unfold entry_head, pad5. rewrite <- app_assoc. reflexivity. Qed.

(* ------------------------------------------------------------------ plain Display *)

Section Plain.
  Variable w : wording_plain.

  Lemma plain_stmts_lift n c : (forall first, sub n (plain_stmt w first c)) ->
    forall l, In c l -> forall first, sub n (plain_stmts w first l).
  Proof.
    intros H. induction l as [|d r IH]; intros Hin first; [destruct Hin|]. cbn [plain_stmts].
    destruct Hin as [->|Hin]; [apply sub_app_l, H|apply sub_app_r, IH, Hin].
  Qed.
  Lemma plain_from_lift n c cause : (forall first, sub n (plain_stmt w first c)) ->
    forall cs, In c (all_stmt_ctxs cs) -> sub n (plain_from w cs cause).
  Proof.
    intros H. induction cs as [|x r IH]; intros Hin; [destruct Hin|]. cbn [plain_from].
    destruct x as [l|msg]; cbn [all_stmt_ctxs] in Hin.
    - apply in_app_or in Hin. destruct Hin as [Hin|Hin].
      + apply sub_app_l. cbn [plain_ctx]. apply (plain_stmts_lift n c); assumption.
      + do 2 apply sub_app_r. apply IH, Hin.
    - do 2 apply sub_app_r. apply IH, Hin.
  Qed.

  (* the one-line Display names, for every statement context, the statement, the stanza position "(row+1, col+1)",
     the node kind and the node position *)
  Lemma render_plain_shows_lemma : forall ch c, In c (all_stmt_ctxs (ch_ctxs ch)) ->
    contains (sx_stmt c) (render_plain w ch) = true /\
    contains (show_loc (sx_stanza_loc c)) (render_plain w ch) = true /\
    contains (sx_kind c) (render_plain w ch) = true /\
    contains (show_loc (sx_src_loc c)) (render_plain w ch) = true.
  Proof.
    intros ch c Hin. unfold render_plain.
    repeat split; apply sub_contains, (plain_from_lift _ c); try assumption; intros first; unfold plain_stmt; sub_find.
  Qed.

  (* and ends with the innermost error *)
  Lemma render_plain_cause_lemma : forall ch, exists x, render_plain w ch = x ++ ch_cause ch.
  Proof.
    intros [cs cause]. unfold render_plain. cbn [ch_ctxs ch_cause]. induction cs as [|c r [x IH]].
    - exists []. reflexivity.
    - cbn [plain_from]. rewrite IH. exists (plain_ctx w c ++ wp_caused w ++ x). rewrite <- !app_assoc. reflexivity.
  Qed.
End Plain.

(* the innermost error is the last line of the pretty rendering *)
Lemma render_pretty_cause_lemma : forall w tp t sp s ch,
  exists x, render_pretty w tp t sp s ch = x ++ entry_head (N.of_nat (length (ch_ctxs ch))) ++ ch_cause ch ++ [10].
Proof. intros. rewrite render_pretty_entries_lemma. eexists. reflexivity. Qed.
