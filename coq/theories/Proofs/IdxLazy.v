(* Proofs/IdxLazy.v — capture-index bridge, lazy side (audit finding G1).
   The lazy interpreter reads a match only through `nodes_for_capture m file_idx` and `nodes_for_capture m (st_full_file_idx st)`;
   the stanza indices are never looked at.  Hence the lazy run of a file and of its normalization (Model/IdxBridge.v) on the SAME
   matches are the same computation: pointwise equal on every state and poll state, unconditionally. *)
From TSG Require Import Model.Lazy Model.IdxBridge Proofs.BaseFacts Proofs.IdxMeq.

Ltac mrefl := apply meq_refl.
Ltac mb := apply meq_bind; [try mrefl|intros ?; try mrefl].
Ltac mb2 := apply meq_bind; [|intros ?].

Lemma ctx_update_norm c st : ctx_update c (norm_stmt st) = ctx_update c st.
Proof. unfold ctx_update. rewrite stmt_loc_norm. reflexivity. Qed.

Section LazyReindex.
  Context {rx : Type}.
  Variables (t : tree) (fl : file) (cfg : config) (glob : globals) (regexes : list rx)
            (find : rx -> str -> option (list (option (N * N))))
            (call : ident -> graph -> list value -> res (value * graph)).
  Notation fl' := (normalize_file fl).

  (* the evaluation phase depends on the file only through `f_inherited` *)
  Lemma eval_lv_norm fuel lv : eval_lv t fl' call fuel lv = eval_lv t fl call fuel lv.
  Proof. reflexivity. Qed.
  Lemma evaluate_phase_norm fuel : evaluate_phase t fl' call fuel = evaluate_phase t fl call fuel.
  Proof. reflexivity. Qed.

  Lemma leval_reindex fuel : forall le e, meq (leval t fl glob call fuel le e) (leval t fl' glob call fuel le (norm_expr e)).
  Proof.
    induction fuel as [|fuel IH]; intros le e; [mrefl|].
    destruct e; cbn [leval norm_expr]; try mrefl.
    - mb. apply meq_mapM. intros x _. apply IH.
    - mb. apply meq_mapM. intros x _. apply IH.
    - mb. mb2; [mb; apply IH|]. mb. mb. mb. apply meq_mapM_same. intros v _. mb. mb. apply IH.
    - mb. mb2; [mb; apply IH|]. mb. mb. mb. apply meq_mapM_same. intros v _. mb. mb. apply IH.
    - mb. apply IH.
    - mb. apply meq_mapM. intros x _. apply IH.
  Qed.

  Lemma leager_reindex fuel le e : meq (leager t fl glob call fuel le e) (leager t fl' glob call fuel le (norm_expr e)).
  Proof. unfold leager. mb. apply leval_reindex. Qed.

  Lemma lvar_add_reindex fuel le v x mu : meq (lvar_add t fl glob call fuel le v x mu) (lvar_add t fl' glob call fuel le (norm_var v) x mu).
  Proof. destruct v; cbn [lvar_add norm_var]; [mrefl|]. destruct mu; [mrefl|]. mb. apply leval_reindex. Qed.
  Lemma lvar_set_reindex fuel le v x : meq (lvar_set glob fuel le v x) (lvar_set glob fuel le (norm_var v) x).
  Proof. destruct v; cbn [lvar_set norm_var]; mrefl. Qed.
  Lemma ltest_cond_reindex fuel le c : meq (ltest_cond t fl glob call fuel le c) (ltest_cond t fl' glob call fuel le (norm_cond c)).
  Proof. destruct c; cbn [ltest_cond norm_cond]; mb; apply leager_reindex. Qed.

  Lemma lexec_attr_reindex fuel : forall le a, meq (lexec_attr t fl glob call fuel le a) (lexec_attr t fl' glob call fuel le (norm_attr a)).
  Proof.
    induction fuel as [|fuel IH]; intros le [name value]; [mrefl|]. cbn [lexec_attr norm_attr]. mb. mb2; [apply leval_reindex|].
    change (f_shorthands fl') with (map norm_shorthand (f_shorthands fl)). rewrite find_shorthand_norm.
    destruct (find_shorthand name (f_shorthands fl)) as [sh|] eqn:E; cbn [option_map]; [|mrefl].
    mb. cbn [norm_shorthand sh_var sh_attrs]. mb. mb. mb. apply meq_mapM. intros a' _. apply IH.
  Qed.

  Lemma lscan_loop_reindex (ra ra' : list str -> list stmt -> M lstate unit) arms rs subject :
    (forall k arm caps, nth_error arms k = Some arm -> meq (ra caps (snd (fst arm))) (ra' caps (map norm_stmt (snd (fst arm))))) ->
    forall sfuel i, meq (lscan_loop find ra arms rs subject sfuel i) (lscan_loop find ra' (map norm_arm arms) rs subject sfuel i).
  Proof.
    intros H. induction sfuel as [|sfuel IH]; intros i; [mrefl|]. cbn [lscan_loop].
    destruct (N.ltb i (N.of_nat (length subject))); [|mrefl]. cbv zeta. mb.
    destruct (arm_select find rs (skipn (N.to_nat i) subject)) as [|k|k caps]; try mrefl.
    rewrite nth_error_norm_arms. destruct (nth_error arms (N.to_nat k)) as [[[r body] l]|] eqn:E; cbn [option_map norm_arm fst snd]; [|mrefl].
    mb. mb2; [exact (H _ _ (cap_texts (skipn (N.to_nat i) subject) caps) E)|]. mb. apply IH.
  Qed.
  Lemma lif_loop_reindex (test test' : cond -> M lstate bool) (rb rb' : list stmt -> M lstate unit) arms :
    (forall c, meq (test c) (test' (norm_cond c))) ->
    (forall body, meq (rb body) (rb' (map norm_stmt body))) ->
    meq (lif_loop test rb arms) (lif_loop test' rb' (map norm_ifarm arms)).
  Proof.
    intros Ht Hb. induction arms as [|[[conds body] l] arms IH]; cbn [lif_loop map norm_ifarm fst snd]; [mrefl|].
    mb2; [apply meq_mapM; intros c _; apply Ht|].
    match goal with |- context [forallb ?f ?l] => destruct (forallb f l) end; [|exact IH].
    mb. mb. apply Hb.
  Qed.

  Lemma lexec_stmt_reindex fuel : forall le s,
    meq (lexec_stmt t fl cfg glob regexes find call fuel le s) (lexec_stmt t fl' cfg glob regexes find call fuel le (norm_stmt s)).
  Proof.
    induction fuel as [|fuel IH]; intros le s; [mrefl|].
    assert (Hblock : forall le' body,
              meq (iterM (fun st => lexec_stmt t fl cfg glob regexes find call fuel (ll_with_ctx le' (ctx_update (ll_ctx le') st)) st) body)
                  (iterM (fun st => lexec_stmt t fl' cfg glob regexes find call fuel (ll_with_ctx le' (ctx_update (ll_ctx le') st)) st) (map norm_stmt body))).
    { intros le' body. apply meq_iterM. intros st _. rewrite ctx_update_norm. apply IH. }
    assert (Harm : forall le' body,
              meq (iterM (fun st => let c := ctx_update (ll_ctx le') st in
                                    ctx_wrap (CtxStmts [c]) (ctx_wrap CtxOther (lexec_stmt t fl cfg glob regexes find call fuel (ll_with_ctx le' c) st))) body)
                  (iterM (fun st => let c := ctx_update (ll_ctx le') st in
                                    ctx_wrap (CtxStmts [c]) (ctx_wrap CtxOther (lexec_stmt t fl' cfg glob regexes find call fuel (ll_with_ctx le' c) st))) (map norm_stmt body))).
    { intros le' body. apply meq_iterM. intros st _. cbv zeta. rewrite ctx_update_norm. apply meq_ctx_wrap, meq_ctx_wrap. apply IH. }
    destruct s; cbn [lexec_stmt norm_stmt]; mb.
    - mb2; [apply leval_reindex|]. apply lvar_add_reindex.
    - mb2; [apply leval_reindex|]. apply lvar_add_reindex.
    - mb2; [apply leval_reindex|]. apply lvar_set_reindex.
    - mb. rewrite variable_loc_norm. mb. mb. mb. apply lvar_add_reindex.
    - mb2; [apply leval_reindex|]. mb. apply meq_mapM. intros a' _. apply lexec_attr_reindex.
    - mb2; [apply leval_reindex|]. mb. apply leval_reindex.
    - mb2; [apply leval_reindex|]. mb2; [apply leval_reindex|]. mb. apply meq_mapM. intros a' _. apply lexec_attr_reindex.
    - mb2; [apply leager_reindex|]. mb.
      match goal with |- context [arm_table regexes (map ?f arms)] => change (map f arms) with (map norm_arm arms) end.
      rewrite arm_table_norm. destruct (arm_table regexes arms) as [rs|]; [|mrefl].
      apply lscan_loop_reindex. intros k arm caps _. apply Harm.
    - mb. apply meq_mapM. intros e _. destruct e; try mrefl; mb; apply (leval_reindex fuel le).
    - match goal with |- context [lif_loop _ _ (map ?f arms)] => change (map f arms) with (map norm_ifarm arms) end.
      apply lif_loop_reindex; [intros c; apply ltest_cond_reindex|intros body'; apply Hblock].
    - mb2; [apply leager_reindex|]. mb. mb. mb. apply meq_iterM_same. intros v _. mb. mb. apply Hblock.
  Qed.

  Lemma lexec_stanza_reindex fuel st m :
    meq (lexec_stanza t fl cfg glob regexes find call fuel st m) (lexec_stanza t fl' cfg glob regexes find call fuel (norm_stanza st) m).
  Proof.
    unfold lexec_stanza. mb. mb. cbn [norm_stanza st_stmts st_full_file_idx st_start].
    destruct (nodes_for_capture m (st_full_file_idx st)) as [|n rest]; [mrefl|]. apply meq_iterM. intros s _.
    rewrite stmt_loc_norm. apply meq_ctx_wrap. apply lexec_stmt_reindex.
  Qed.

  Lemma lexec_file_reindex fuel ms :
    meq (lexec_file t fl cfg glob regexes find call fuel ms) (lexec_file t fl' cfg glob regexes find call fuel ms).
  Proof.
    unfold lexec_file. mb2; [|rewrite evaluate_phase_norm; mrefl]. apply meq_iterM_same. intros pm _.
    change (f_stanzas fl') with (map norm_stanza (f_stanzas fl)). rewrite nth_error_map.
    destruct (nth_error (f_stanzas fl) (N.to_nat (fst pm))) as [st|]; cbn [option_map]; [|mrefl]. apply lexec_stanza_reindex.
  Qed.
End LazyReindex.

(* LAZY REINDEXING, whole run: the lazy run of the original file and of its normalization on the same matches coincide *)
Theorem run_lazy_reindex {rx : Type} t fl cfg supplied budget (regexes : list rx) find call fuel lms g0 :
  run_lazy t fl cfg supplied budget regexes find call fuel lms g0 =
  run_lazy t (normalize_file fl) cfg supplied budget regexes find call fuel lms g0.
Proof.
  unfold run_lazy. change (f_globals (normalize_file fl)) with (f_globals fl).
  destruct (check_globals (f_globals fl) (globals_nested supplied)) as [glob|e|x|]; try reflexivity.
  rewrite (lexec_file_reindex t fl cfg glob regexes find call fuel lms). reflexivity.
Qed.
